import RedisVerif.Model.AntiEntropy
import RedisVerif.Lemmas.AntiEntropy
import RedisVerif.Lemmas.AEBytes
import RedisVerif.Lemmas.Ring
import RedisVerif.Props.C07

/-!
# C18 — Anti-entropy: equal digests iff equal states; a sync leaves both sides merged

Model: `RedisVerif.AE` (M8, `Model/AntiEntropy.lean`).  SipHash is a parameter (`Hasher`);
statements that need it to be collision-free say so (`Ideal H`; `idealH` shows the assumption
is satisfiable).  The map iteration order is an explicit parameter `π` (`ValidOrder π s`).
Two aspects of the code are model parameters so that the theorems about the current tree and
the counterexamples about the pinned tree are statements about the same functions:
`sb : Bool` (`sortBucket`: `true` = bucket digests sorted before folding, the current tree since
`fix:` 3c97030; `false` = folded in iteration order) and `vs : ValueStream` (what
`KeyDigest::new` feeds to the value hasher: `canonicalStream` = the whole value in canonical
order, the current tree since the `canonical_hash` fix; `pinnedStream` = outer stamp + live LWW
bytes).

* `digest_order_independent` (`sb = true`, any value stream);
  `digest_order_independent_counterexample` (`sb = false`, fixed defect).
* `digest_complete`: `differs_from = false ↔ proj vs s = proj vs t` (`sb = true`);
  `digest_never_false_in_sync_wrt_proj` (the `→` half for either fold).
* `proj_determines_state` (`canonicalStream`: the projection IS the state), hence
  **`digest_iff_state_eq`: equal digests ↔ equal states** for the current tree, no side
  condition on the values.  For the pinned stream: `proj_determines_state_pinned_partial`
  (`LwwOnly`), `proj_ignores_non_lww_counterexample`, `proj_ignores_expiry_counterexample`,
  `digest_false_in_sync_counterexample` (fixed defect C18:digest:false-in-sync:*).
* `divergent_buckets_exact` (`sb = true`), `divergent_buckets_complete` (any `sb`).
* `sync_merges`, `sync_merges_commuted`; `sync_converges_partial` (limit ≥ population).
* `sync_terminates_counterexample` (known finding `C18:sync:limit-starvation`).
-/
namespace RedisVerif
namespace C18

open AE

/-! ## full-strength statements -/

/-- the digest of a state does not depend on the order in which the map yields its keys -/
def C18_digest_order_independent (sb : Bool) : Prop :=
  ∀ (H : Hasher) (vs : ValueStream) (depth : Nat) (π π' : List Nat) (s : NMap RV),
    ValidOrder π s → ValidOrder π' s → fromState H sb vs depth π s = fromState H sb vs depth π' s

/-- "in sync" (`differs_from = false`) iff the projections the digest reads are equal -/
def C18_digest_complete (sb : Bool) : Prop :=
  ∀ (H : Hasher) (vs : ValueStream) (depth : Nat) (π π' : List Nat) (s t : NMap RV), Ideal H →
    StreamOK vs → NMap.WF s → NMap.WF t → ValidOrder π s → ValidOrder π' t →
    (differsFrom (fromState H sb vs depth π s) (fromState H sb vs depth π' t) = false
      ↔ proj vs s = proj vs t)

/-- the projection determines the state -/
def C18_proj_determines_state (vs : ValueStream) : Prop :=
  ∀ (s t : NMap RV), NMap.WF s → NMap.WF t → proj vs s = proj vs t → s = t

/-- the property as stated: equal digests iff equal states -/
def C18_digest_iff_state_eq (sb : Bool) (vs : ValueStream) : Prop :=
  ∀ (H : Hasher) (depth : Nat) (π π' : List Nat) (s t : NMap RV), Ideal H →
    NMap.WF s → NMap.WF t → ValidOrder π s → ValidOrder π' t →
    (differsFrom (fromState H sb vs depth π s) (fromState H sb vs depth π' t) = false ↔ s = t)

/-- sync rounds with a per-round key limit, the iteration order of each state given by `ord` -/
def rounds (arr : Arrange) (H : Hasher) (sb : Bool) (vs : ValueStream) (depth limit : Nat) (ord : NMap RV → List Nat) :
    Nat → NMap RV × NMap RV → NMap RV × NMap RV
  | 0, st => st
  | n + 1, st => rounds arr H sb vs depth limit ord n
      (syncRoundWith arr H sb vs depth limit (ord st.1) (ord st.2) st.1 st.2)

/-- repeated sync rounds reach "in sync" after finitely many rounds, for every limit ≥ 1 -/
def C18_sync_terminates (arr : Arrange) (sb : Bool) (vs : ValueStream) : Prop :=
  ∀ (H : Hasher) (depth limit : Nat) (ord : NMap RV → List Nat) (a b : NMap RV), Ideal H →
    1 ≤ limit → (∀ s, ValidOrder (ord s) s) → NMap.WF a → NMap.WF b →
    ∃ n, differsFrom
      (fromState H sb vs depth (ord (rounds arr H sb vs depth limit ord n (a, b)).1) (rounds arr H sb vs depth limit ord n (a, b)).1)
      (fromState H sb vs depth (ord (rounds arr H sb vs depth limit ord n (a, b)).2) (rounds arr H sb vs depth limit ord n (a, b)).2)
      = false

/-! ## order independence -/

/-- **C18 (order independence), patched fold**: any two iteration orders, any hasher -/
theorem digest_order_independent : C18_digest_order_independent true := by
  intro H vs depth π π' s h1 h2
  exact fromState_sorted_perm H depth s (h1.trans h2.symm)

def exA : NMap RV := [(1, RV.withValue [1] ⟨1, 1⟩), (2, RV.withValue [0] ⟨1, 2⟩)]

/-- **Fixed defect C18:digest:order-dependent** (3c97030).  The pinned code folded a bucket's digests in
    map iteration order: the same two-key state yields two different digests (even the root
    hashes differ), with a collision-free hasher. -/
theorem digest_order_dependent_witness :
    ValidOrder [1, 2] exA ∧ ValidOrder [2, 1] exA
    ∧ differsFrom (fromState idealH false canonicalStream 0 [1, 2] exA)
        (fromState idealH false canonicalStream 0 [2, 1] exA) = true := by
  decide

theorem digest_order_independent_counterexample : ¬ C18_digest_order_independent false := by
  intro h
  have := h idealH canonicalStream 0 [1, 2] [2, 1] exA (by decide) (by decide)
  have hw := digest_order_dependent_witness.2.2
  rw [this] at hw
  simp [differsFrom] at hw

/-! ## digests vs. projections -/

theorem differsFrom_false_iff (a b : StateDigest) : differsFrom a b = false ↔ a.rootHash = b.rootHash := by
  unfold differsFrom; simp

/-- **C18 (never a false "in sync", w.r.t. what the digest reads)** — holds for the code as it
    is and for the patched fold: equal root hashes force equal projections (ideal hash) -/
theorem digest_never_false_in_sync_wrt_proj (sb : Bool) (H : Hasher) (vs : ValueStream) (depth : Nat)
    (π π' : List Nat) (s t : NMap RV) (hI : Ideal H) (hvs : StreamOK vs) (hs : NMap.WF s) (ht : NMap.WF t)
    (hπ : ValidOrder π s) (hπ' : ValidOrder π' t)
    (h : differsFrom (fromState H sb vs depth π s) (fromState H sb vs depth π' t) = false) :
    proj vs s = proj vs t :=
  proj_eq_of_root_eq hI hvs sb depth hs ht hπ hπ' ((differsFrom_false_iff _ _).mp h)

/-- **C18 (digest complete), patched fold** -/
theorem digest_complete : C18_digest_complete true := by
  intro H vs depth π π' s t hI hvs hs ht hπ hπ'
  constructor
  · exact digest_never_false_in_sync_wrt_proj true H vs depth π π' s t hI hvs hs ht hπ hπ'
  · intro h
    rw [differsFrom_false_iff, fromState_eq_of_proj_eq H hvs depth hs ht hπ hπ' h]

theorem digest_complete_counterexample : ¬ C18_digest_complete false := by
  intro h
  have := (h idealH canonicalStream 0 [1, 2] [2, 1] exA exA ideal_idealH streamOK_canonical (by decide) (by decide) (by decide) (by decide)).mpr rfl
  have hw := digest_order_dependent_witness.2.2
  rw [this] at hw
  cases hw

/-! ## projections vs. states -/

/-- **C18 (the digest reads the whole value)** — current tree: `canonical_hash` feeds a uniquely
    decodable stream of everything a `ReplicatedValue` holds, so equal projections are equal states -/
theorem proj_determines_state : C18_proj_determines_state canonicalStream := by
  intro s t _ _ h
  exact proj_canonical_inj h

/-- **C18 (equal digests iff equal states)** — the property as stated, for the current tree
    (sorted bucket fold, canonical value hash), any CRDT kinds, any number of keys, any two
    iteration orders, under the ideal-hash assumption only -/
theorem digest_iff_state_eq : C18_digest_iff_state_eq true canonicalStream := by
  intro H depth π π' s t hI hs ht hπ hπ'
  rw [digest_complete H canonicalStream depth π π' s t hI streamOK_canonical hs ht hπ hπ']
  constructor
  · exact proj_canonical_inj
  · intro h; rw [h]

/-- … and no false "in sync" even with the unsorted fold -/
theorem digest_never_false_in_sync (sb : Bool) (H : Hasher) (depth : Nat) (π π' : List Nat)
    (s t : NMap RV) (hI : Ideal H) (hs : NMap.WF s) (ht : NMap.WF t) (hπ : ValidOrder π s)
    (hπ' : ValidOrder π' t)
    (h : differsFrom (fromState H sb canonicalStream depth π s) (fromState H sb canonicalStream depth π' t) = false) :
    s = t :=
  proj_canonical_inj (digest_never_false_in_sync_wrt_proj sb H canonicalStream depth π π' s t hI
    streamOK_canonical hs ht hπ hπ' h)

/-! ### the pinned value hash (before the `canonical_hash` fix) -/

/-- plain LWW register values — what `SET` / `DEL` without TTL produce in `Eventual` mode:
    the register carries the outer stamp, a deleted register holds no bytes, and there is no
    vector clock, expiry or per-key replication factor -/
def lwwOnly (v : RV) : Bool :=
  match v.crdt with
  | .lww r => r.ts == v.ts && (r.tomb == r.value.isNone) && v.vc.isNone && v.expiry.isNone && v.rf.isNone
  | _ => false

def LwwOnly (s : NMap RV) : Prop := ∀ p ∈ s, lwwOnly p.2 = true

instance : DecidablePred LwwOnly := fun s => by unfold LwwOnly; infer_instance

theorem eq_of_pinnedStream_eq {v w : RV} (hv : lwwOnly v = true) (hw : lwwOnly w = true)
    (h : pinnedStream v = pinnedStream w) : v = w := by
  obtain ⟨hts, hget⟩ := pinnedStream_inj h
  obtain ⟨cv, vcv, ev, tsv, rfv⟩ := v
  obtain ⟨cw, vcw, ew, tsw, rfw⟩ := w
  cases cv <;> simp only [lwwOnly, Bool.false_eq_true] at hv
  cases cw <;> simp only [lwwOnly, Bool.false_eq_true] at hw
  rename_i a b
  obtain ⟨va, tsa, tomba⟩ := a
  obtain ⟨vb, tsb, tombb⟩ := b
  simp only [Bool.and_eq_true, beq_iff_eq, Option.isNone_iff_eq_none] at hv hw
  obtain ⟨⟨⟨⟨h1, h2⟩, h3⟩, h4⟩, h5⟩ := hv
  obtain ⟨⟨⟨⟨g1, g2⟩, g3⟩, g4⟩, g5⟩ := hw
  simp only [RV.get, Lww.get] at hget
  simp only at hts
  subst h1; subst g1; subst h3; subst g3; subst h4; subst g4; subst h5; subst g5
  subst hts
  subst h2; subst g2
  have hval : va = vb := by
    cases va <;> cases vb <;> simp_all
  subst hval
  rfl

/-- **pinned value hash, partial**: the projection determined the state only for states of plain
    LWW values; everything else a `ReplicatedValue` carries was invisible to `KeyDigest::new` —
    see the counterexamples below. -/
theorem proj_determines_state_pinned_partial (s t : NMap RV) (hs : LwwOnly s) (ht : LwwOnly t)
    (h : proj pinnedStream s = proj pinnedStream t) : s = t := by
  unfold proj at h
  induction s generalizing t with
  | nil =>
    cases t with
    | nil => rfl
    | cons _ _ => simp at h
  | cons p ps ih =>
    cases t with
    | nil => simp at h
    | cons q qs =>
      simp only [List.map_cons, List.cons.injEq, Prod.mk.injEq] at h
      obtain ⟨⟨hk, hp⟩, hrest⟩ := h
      have hv := eq_of_pinnedStream_eq (hs p List.mem_cons_self) (ht q List.mem_cons_self) hp
      rw [ih qs (fun x hx => hs x (List.mem_cons_of_mem _ hx)) (fun x hx => ht x (List.mem_cons_of_mem _ hx)) hrest]
      congr 1
      exact Prod.ext hk hv

def hashF : RV :=  -- HSET h f 1 at stamp (1, r1)
  { crdt := .hash [(102, ⟨some [49], ⟨1, 1⟩, false⟩)], vc := none, expiry := none, ts := ⟨1, 1⟩, rf := none }
def hashG : RV :=  -- a different field under the same outer stamp
  { crdt := .hash [(103, ⟨some [50], ⟨1, 1⟩, false⟩)], vc := none, expiry := none, ts := ⟨1, 1⟩, rf := none }
def lwwNoTtl : RV := RV.withValue [1] ⟨1, 1⟩
def lwwTtl : RV := { RV.withValue [1] ⟨1, 1⟩ with expiry := some 5000 }

/-- **Fixed defect C18:digest:false-in-sync:crdt.**  Non-LWW content was invisible to the pinned
    value hash: two hashes with the same outer stamp and different fields had the same
    projection — and have different ones now. -/
theorem proj_ignores_non_lww_counterexample :
    proj pinnedStream [(7, hashF)] = proj pinnedStream [(7, hashG)] ∧ ([(7, hashF)] : NMap RV) ≠ [(7, hashG)]
    ∧ proj canonicalStream [(7, hashF)] ≠ proj canonicalStream [(7, hashG)] := by
  decide

/-- **Fixed defect C18:digest:false-in-sync:expiry.**  So was the expiry. -/
theorem proj_ignores_expiry_counterexample :
    proj pinnedStream [(7, lwwNoTtl)] = proj pinnedStream [(7, lwwTtl)] ∧ ([(7, lwwNoTtl)] : NMap RV) ≠ [(7, lwwTtl)]
    ∧ proj canonicalStream [(7, lwwNoTtl)] ≠ proj canonicalStream [(7, lwwTtl)] := by
  decide

theorem C18_proj_determines_state_pinned_false : ¬ C18_proj_determines_state pinnedStream := by
  intro h
  exact proj_ignores_non_lww_counterexample.2.1 (h _ _ (by decide) (by decide) proj_ignores_non_lww_counterexample.1)

/-- pinned value hash: equal digests iff equal states held for plain LWW values only -/
theorem digest_iff_state_eq_pinned_partial (H : Hasher) (depth : Nat) (π π' : List Nat) (s t : NMap RV)
    (hI : Ideal H) (hs : NMap.WF s) (ht : NMap.WF t) (hπ : ValidOrder π s) (hπ' : ValidOrder π' t)
    (ls : LwwOnly s) (lt : LwwOnly t) :
    differsFrom (fromState H true pinnedStream depth π s) (fromState H true pinnedStream depth π' t) = false ↔ s = t := by
  rw [digest_complete H pinnedStream depth π π' s t hI streamOK_pinned hs ht hπ hπ']
  constructor
  · exact proj_determines_state_pinned_partial s t ls lt
  · intro h; rw [h]

/-- the false "in sync" of the pinned value hash: two different states, equal digests,
    collision-free hasher — with the sorted and with the unsorted fold -/
theorem digest_false_in_sync_counterexample :
    ¬ C18_digest_iff_state_eq true pinnedStream ∧ ¬ C18_digest_iff_state_eq false pinnedStream := by
  constructor <;> intro h
  · have := (h idealH 0 [7] [7] [(7, hashF)] [(7, hashG)] ideal_idealH (by decide) (by decide) (by decide) (by decide)).mp (by decide)
    exact proj_ignores_non_lww_counterexample.2.1 this
  · have := (h idealH 0 [7] [7] [(7, hashF)] [(7, hashG)] ideal_idealH (by decide) (by decide) (by decide) (by decide)).mp (by decide)
    exact proj_ignores_non_lww_counterexample.2.1 this

/-! ## divergent buckets -/

theorem node_ne_iff_get_ne (H : Hasher) (sb : Bool) (vs : ValueStream) (depth : Nat) (π π' : List Nat) (s t : NMap RV) (b : Nat) :
    b ∈ divergentBuckets (fromState H sb vs depth π s) (fromState H sb vs depth π' t)
      ↔ b < 2 ^ depth ∧ fromDigests H sb (bucketDigests H vs depth π s b) ≠ fromDigests H sb (bucketDigests H vs depth π' t b) := by
  rw [mem_divergentBuckets (by rw [fromState_buckets_length, fromState_buckets_length]), fromState_buckets_length]
  constructor
  · rintro ⟨hb, hne⟩
    rw [fromState_bucket_get _ _ _ _ _ _ hb, fromState_bucket_get _ _ _ _ _ _ hb] at hne
    exact ⟨hb, fun h => hne (by rw [h])⟩
  · rintro ⟨hb, hne⟩
    rw [fromState_bucket_get _ _ _ _ _ _ hb, fromState_bucket_get _ _ _ _ _ _ hb]
    exact ⟨hb, fun h => hne (Option.some.inj h)⟩

/-- **C18 (no divergent bucket is missed)** — the code as it is and the patched fold: a bucket
    whose projected contents differ is reported -/
theorem divergent_buckets_complete (sb : Bool) (H : Hasher) (vs : ValueStream) (depth : Nat) (π π' : List Nat)
    (s t : NMap RV) (b : Nat) (hI : Ideal H) (hvs : StreamOK vs) (hs : NMap.WF s) (ht : NMap.WF t) (hπ : ValidOrder π s)
    (hπ' : ValidOrder π' t) (hb : b < 2 ^ depth) (hne : projBucket H vs depth b s ≠ projBucket H vs depth b t) :
    b ∈ divergentBuckets (fromState H sb vs depth π s) (fromState H sb vs depth π' t) := by
  rw [node_ne_iff_get_ne]
  refine ⟨hb, fun h => hne ?_⟩
  exact projBucket_eq_of_hash_eq hI hvs sb depth b hs ht hπ hπ' (by rw [h])

/-- **C18 (divergent buckets, exact), patched fold**: the reported buckets are exactly those whose
    projected contents differ -/
theorem divergent_buckets_exact (H : Hasher) (vs : ValueStream) (depth : Nat) (π π' : List Nat) (s t : NMap RV) (b : Nat)
    (hI : Ideal H) (hvs : StreamOK vs) (hs : NMap.WF s) (ht : NMap.WF t) (hπ : ValidOrder π s) (hπ' : ValidOrder π' t) :
    b ∈ divergentBuckets (fromState H true vs depth π s) (fromState H true vs depth π' t)
      ↔ b < 2 ^ depth ∧ projBucket H vs depth b s ≠ projBucket H vs depth b t := by
  rw [node_ne_iff_get_ne]
  constructor
  · rintro ⟨hb, hne⟩
    exact ⟨hb, fun h => hne (node_eq_of_projBucket_eq H hvs depth b hs ht hπ hπ' h)⟩
  · rintro ⟨hb, hne⟩
    exact ⟨hb, fun h => hne (projBucket_eq_of_hash_eq hI hvs true depth b hs ht hπ hπ' (by rw [h]))⟩

/-! ## one sync exchange -/

/-- **C18 (sync merges)**: when the digests differ and the per-round limit is at least the number
    of keys either side holds in the divergent buckets, then after one
    `run_anti_entropy_sync` every key of a divergent bucket holds `merge(own, other)` on both
    sides (a missing value is the identity), and every other key is untouched. -/
theorem sync_merges (arr : Arrange) (harr : ArrOK arr) (H : Hasher) (sb : Bool) (vs : ValueStream) (depth limit : Nat) (πa πb : List Nat) (a b : NMap RV)
    (ha : NMap.WF a) (hb : NMap.WF b) (hπa : ValidOrder πa a) (hπb : ValidOrder πb b)
    (hd : differsFrom (fromState H sb vs depth πa a) (fromState H sb vs depth πb b) = true)
    (hla : (candidates H depth πa a (divergentBuckets (fromState H sb vs depth πa a) (fromState H sb vs depth πb b))).length ≤ limit)
    (hlb : (candidates H depth πb b (divergentBuckets (fromState H sb vs depth πa a) (fromState H sb vs depth πb b))).length ≤ limit)
    (k : Nat) :
    let div := divergentBuckets (fromState H sb vs depth πa a) (fromState H sb vs depth πb b)
    let r := syncRoundWith arr H sb vs depth limit πa πb a b
    (div.contains (H.key k % 2 ^ depth) = true →
        NMap.get r.1 k = optMerge RV.merge (NMap.get a k) (NMap.get b k)
        ∧ NMap.get r.2 k = optMerge RV.merge (NMap.get b k) (NMap.get a k))
    ∧ (div.contains (H.key k % 2 ^ depth) = false →
        NMap.get r.1 k = NMap.get a k ∧ NMap.get r.2 k = NMap.get b k) := by
  intro div r
  by_cases hemp : div.isEmpty = true
  · have hnil : div = [] := List.isEmpty_iff.mp hemp
    have hr : r = (a, b) := by
      show syncRoundWith arr H sb vs depth limit πa πb a b = (a, b)
      unfold syncRoundWith
      simp only [hd, if_true]
      have : (divergentBuckets (fromState H sb vs depth πa a) (fromState H sb vs depth πb b)).isEmpty = true := hemp
      simp [this]
    constructor
    · intro hc; rw [hnil] at hc; simp at hc
    · intro _; rw [hr]; exact ⟨rfl, rfl⟩
  · have hr : r = exchange arr H vs depth limit πa πb a b div := by
      show syncRoundWith arr H sb vs depth limit πa πb a b = _
      unfold syncRoundWith
      simp only [hd, if_true]
      have : (divergentBuckets (fromState H sb vs depth πa a) (fromState H sb vs depth πb b)).isEmpty = false := by
        simpa using hemp
      simp [this, div]
    rw [hr]
    unfold exchange
    simp only []
    rw [getKeysInBuckets_full harr hla, getKeysInBuckets_full harr hlb,
      get_apply_arr_candidates div harr hb hπb k, get_apply_arr_candidates div harr ha hπa k]
    constructor
    · intro hc; simp only [hc, if_true]; exact ⟨trivial, trivial⟩
    · intro hc; simp only [hc, Bool.false_eq_true, if_false]; exact ⟨trivial, trivial⟩

/-- for tie-consistent well-formed values the merge is commutative (C07), so both sides hold the
    *same* merged value -/
theorem optMerge_comm_of_tie {x y : Option RV}
    (h : ∀ u v, x = some u → y = some v → u.WF ∧ v.WF ∧ C07.TieConsistent u v) :
    optMerge RV.merge x y = optMerge RV.merge y x := by
  cases x <;> cases y <;> simp only [optMerge]
  rename_i u v
  obtain ⟨h1, h2, h3⟩ := h u v rfl rfl
  rw [C07.rv_merge_comm u v h1 h2 h3]

theorem sync_merges_commuted (arr : Arrange) (harr : ArrOK arr) (H : Hasher) (sb : Bool) (vs : ValueStream) (depth limit : Nat) (πa πb : List Nat) (a b : NMap RV)
    (ha : NMap.WF a) (hb : NMap.WF b) (hπa : ValidOrder πa a) (hπb : ValidOrder πb b)
    (hd : differsFrom (fromState H sb vs depth πa a) (fromState H sb vs depth πb b) = true)
    (hla : (candidates H depth πa a (divergentBuckets (fromState H sb vs depth πa a) (fromState H sb vs depth πb b))).length ≤ limit)
    (hlb : (candidates H depth πb b (divergentBuckets (fromState H sb vs depth πa a) (fromState H sb vs depth πb b))).length ≤ limit)
    (k : Nat)
    (hc : (divergentBuckets (fromState H sb vs depth πa a) (fromState H sb vs depth πb b)).contains (H.key k % 2 ^ depth) = true)
    (htie : ∀ u v, NMap.get a k = some u → NMap.get b k = some v → u.WF ∧ v.WF ∧ C07.TieConsistent u v) :
    NMap.get (syncRoundWith arr H sb vs depth limit πa πb a b).1 k = optMerge RV.merge (NMap.get a k) (NMap.get b k)
    ∧ NMap.get (syncRoundWith arr H sb vs depth limit πa πb a b).2 k = optMerge RV.merge (NMap.get a k) (NMap.get b k) := by
  have := (sync_merges arr harr H sb vs depth limit πa πb a b ha hb hπa hπb hd hla hlb k).1 hc
  exact ⟨this.1, by rw [this.2, optMerge_comm_of_tie htie]⟩

/-- **C18 (one round suffices when the limit covers the divergent buckets), partial**: patched
    fold, ideal hash, tie-consistent well-formed values on the keys present on both sides: after
    one exchange the two replicas are "in sync", whatever their new iteration orders.
    Missing for `C18_sync_terminates`: limits below the bucket population
    (`sync_terminates_counterexample`). -/
theorem sync_converges_partial (arr : Arrange) (harr : ArrOK arr) (H : Hasher) (vs : ValueStream) (depth limit : Nat) (πa πb π1 π2 : List Nat) (a b : NMap RV)
    (hI : Ideal H) (hvs : StreamOK vs) (ha : NMap.WF a) (hb : NMap.WF b) (hπa : ValidOrder πa a) (hπb : ValidOrder πb b)
    (hd : differsFrom (fromState H true vs depth πa a) (fromState H true vs depth πb b) = true)
    (hla : (candidates H depth πa a (divergentBuckets (fromState H true vs depth πa a) (fromState H true vs depth πb b))).length ≤ limit)
    (hlb : (candidates H depth πb b (divergentBuckets (fromState H true vs depth πa a) (fromState H true vs depth πb b))).length ≤ limit)
    (htie : ∀ k u v, NMap.get a k = some u → NMap.get b k = some v → u.WF ∧ v.WF ∧ C07.TieConsistent u v)
    (h1 : ValidOrder π1 (syncRoundWith arr H true vs depth limit πa πb a b).1)
    (h2 : ValidOrder π2 (syncRoundWith arr H true vs depth limit πa πb a b).2) :
    differsFrom (fromState H true vs depth π1 (syncRoundWith arr H true vs depth limit πa πb a b).1)
      (fromState H true vs depth π2 (syncRoundWith arr H true vs depth limit πa πb a b).2) = false := by
  have hwf : NMap.WF (syncRoundWith arr H true vs depth limit πa πb a b).1
      ∧ NMap.WF (syncRoundWith arr H true vs depth limit πa πb a b).2 := by
    unfold syncRoundWith exchange
    simp only []
    repeat' split
    all_goals first | exact ⟨ha, hb⟩ | exact ⟨wf_applyDeltas _ ha, wf_applyDeltas _ hb⟩
  rw [digest_complete H vs depth π1 π2 _ _ hI hvs hwf.1 hwf.2 h1 h2]
  apply NMap.ext (wf_proj hwf.1) (wf_proj hwf.2)
  intro k
  rw [get_proj, get_proj]
  have hm := sync_merges arr harr H true vs depth limit πa πb a b ha hb hπa hπb hd hla hlb k
  simp only [] at hm
  by_cases hc : (divergentBuckets (fromState H true vs depth πa a) (fromState H true vs depth πb b)).contains (H.key k % 2 ^ depth) = true
  · obtain ⟨e1, e2⟩ := hm.1 hc
    rw [e1, e2, optMerge_comm_of_tie (htie k)]
  · have hc' : (divergentBuckets (fromState H true vs depth πa a) (fromState H true vs depth πb b)).contains (H.key k % 2 ^ depth) = false := by
      simpa using hc
    obtain ⟨e1, e2⟩ := hm.2 hc'
    rw [e1, e2]
    -- the bucket of k is not divergent: its projected contents agree
    have hlt : H.key k % 2 ^ depth < 2 ^ depth := Nat.mod_lt _ (Nat.two_pow_pos depth)
    have hnot : ¬ (H.key k % 2 ^ depth) ∈ divergentBuckets (fromState H true vs depth πa a) (fromState H true vs depth πb b) := by
      intro hmem; rw [← List.contains_iff_mem] at hmem; rw [hmem] at hc'; cases hc'
    rw [divergent_buckets_exact H vs depth πa πb a b _ hI hvs ha hb hπa hπb] at hnot
    have heq : projBucket H vs depth (H.key k % 2 ^ depth) a = projBucket H vs depth (H.key k % 2 ^ depth) b := by
      apply Classical.byContradiction; intro hne; exact hnot ⟨hlt, hne⟩
    have := congrArg (fun m => NMap.get m k) heq
    simp only [get_projBucket, beq_self_eq_true, if_true] at this
    exact this

/-! ## the message protocol: request with a bucket list, response, merge -/

theorem mem_iter {π : List Nat} {s : NMap RV} {q : Nat × RV} (h : q ∈ iter π s) : NMap.get s q.1 = some q.2 := by
  unfold iter at h
  rw [List.mem_filterMap] at h
  obtain ⟨k, _, hk⟩ := h
  cases hg : NMap.get s k with
  | none => rw [hg] at hk; simp at hk
  | some v => rw [hg] at hk; simp at hk; subst hk; exact hg

/-- **C18 (a response stays inside the request)**: every delta of `handle_sync_request` for a
    bucket request is an entry of the responder's state whose key lies in a requested bucket —
    whichever way filter and limit are ordered, for every iteration order and limit -/
theorem response_keys_in_requested_buckets (ord : RespOrder) (H : Hasher) (vs : ValueStream)
    (depth limit : Nat) (π : List Nat) (s : NMap RV) (buckets : List Nat) (q : Nat × RV)
    (h : q ∈ responseKeysWith ord H vs depth limit π s (some buckets)) :
    buckets.contains (H.key q.1 % 2 ^ depth) = true ∧ NMap.get s q.1 = some q.2 := by
  cases ord <;> simp only [responseKeysWith] at h
  · have h1 := List.mem_of_mem_take h
    rw [List.mem_filter] at h1
    exact ⟨h1.2, mem_iter h1.1⟩
  · rw [List.mem_filter] at h
    exact ⟨h.2, mem_iter (List.mem_of_mem_take h.1)⟩

/-- when the responder holds at most `limit` keys in the requested buckets, the response delivers
    ALL of them (as a lookup table: every key of a requested bucket with the responder's value,
    nothing else) -/
def C18_response_exact (ord : RespOrder) : Prop :=
  ∀ (H : Hasher) (vs : ValueStream) (depth limit : Nat) (π : List Nat) (s : NMap RV) (buckets : List Nat),
    NMap.WF s → ValidOrder π s → (candidates H depth π s buckets).length ≤ limit →
    ∀ k, (responseKeysWith ord H vs depth limit π s (some buckets)).lookup k
      = if buckets.contains (H.key k % 2 ^ depth) then NMap.get s k else none

/-- **C18 (response exact under the limit)** — the code as it is (filter, then take), for every
    iteration order -/
theorem response_exact_when_under_limit : C18_response_exact .filterThenTake := by
  intro H vs depth limit π s buckets hs hπ hl k
  have : responseKeysWith .filterThenTake H vs depth limit π s (some buckets)
      = getKeysInBuckets (fun l => l) H vs depth limit π s buckets := rfl
  rw [this, getKeysInBuckets_full arrOK_id hl, lookup_candidates buckets hs hπ k]

/-- … and as a list: the response is exactly the candidate list (no key dropped, none added) -/
theorem response_is_candidates_when_under_limit (H : Hasher) (vs : ValueStream) (depth limit : Nat)
    (π : List Nat) (s : NMap RV) (buckets : List Nat)
    (hl : (candidates H depth π s buckets).length ≤ limit) :
    responseKeysWith .filterThenTake H vs depth limit π s (some buckets) = candidates H depth π s buckets :=
  getKeysInBuckets_full (arr := fun l => l) arrOK_id hl

/-- a full-state request (`requested_buckets = None`) to a responder with at most `limit` keys
    returns its whole state -/
theorem response_full_exact_when_under_limit (ord : RespOrder) (H : Hasher) (vs : ValueStream)
    (depth limit : Nat) (π : List Nat) (s : NMap RV) (hs : NMap.WF s) (hπ : ValidOrder π s)
    (hl : s.length ≤ limit) (k : Nat) :
    (responseKeysWith ord H vs depth limit π s none).lookup k = NMap.get s k := by
  have hlen : (iter π s).length ≤ limit := by rw [(iter_valid_perm hs hπ).length_eq]; exact hl
  simp only [responseKeysWith]
  rw [List.take_of_length_le hlen, lookup_iter hs hπ]

/-- twelve keys `1..12` in iteration order, depth 2 (bucket = key mod 4), limit 4: bucket 3 holds
    the three keys 3, 7, 11 -/
def exTwelve : NMap RV := (List.range 12).map fun i => (i + 1, RV.withValue [] ⟨0, 0⟩)

/-- **take-before-filter loses keys** (the seeded defect class): the limit is applied to the map
    iteration instead of the answer, so although only 3 ≤ 4 keys are requested, the two that
    iterate after position 4 are never sent — in this and in every later round. -/
theorem response_take_then_filter_counterexample : ¬ C18_response_exact .takeThenFilter := by
  intro h
  have := h idealH canonicalStream 2 4 (NMap.keys exTwelve) exTwelve [3] (by decide) (by decide) (by decide) 7
  revert this
  decide

theorem response_take_then_filter_witness :
    (candidates idealH 2 (NMap.keys exTwelve) exTwelve [3]).map (·.1) = [3, 7, 11]
    ∧ (responseKeysWith .filterThenTake idealH canonicalStream 2 4 (NMap.keys exTwelve) exTwelve (some [3])).map (·.1) = [3, 7, 11]
    ∧ (responseKeysWith .takeThenFilter idealH canonicalStream 2 4 (NMap.keys exTwelve) exTwelve (some [3])).map (·.1) = [3] := by
  decide

/-- **C18 (one pull merges)**: when the digests differ and the peer holds at most `limit` keys in
    the divergent buckets, after `process_peer_digest → create_sync_request(Some(divergent)) →
    handle_sync_request → merge` the requester holds `merge(own, peer's)` for every key of every
    requested bucket and is unchanged elsewhere — for every pair of iteration orders. -/
theorem sync_round_merges (H : Hasher) (sb : Bool) (vs : ValueStream) (depth limit : Nat)
    (πr πp : List Nat) (r p : NMap RV) (hp : NMap.WF p) (hπp : ValidOrder πp p)
    (hd : differsFrom (fromState H sb vs depth πr r) (fromState H sb vs depth πp p) = true)
    (hl : (candidates H depth πp p (divergentBuckets (fromState H sb vs depth πr r) (fromState H sb vs depth πp p))).length ≤ limit)
    (k : Nat) :
    NMap.get (pullWith .filterThenTake H sb vs depth limit false πr πp r p).2.2.2 k
      = if (divergentBuckets (fromState H sb vs depth πr r) (fromState H sb vs depth πp p)).contains (H.key k % 2 ^ depth)
        then optMerge RV.merge (NMap.get r k) (NMap.get p k) else NMap.get r k := by
  unfold pullWith
  simp only [hd, if_true, Bool.false_eq_true, if_false]
  rw [response_is_candidates_when_under_limit H vs depth limit πp p _ hl]
  exact get_apply_candidates _ hp hπp k

/-- a full-state pull from a peer with at most `limit` keys merges the peer's whole state -/
theorem sync_round_merges_full (H : Hasher) (sb : Bool) (vs : ValueStream) (depth limit : Nat)
    (πr πp : List Nat) (r p : NMap RV) (hp : NMap.WF p) (hπp : ValidOrder πp p)
    (hd : differsFrom (fromState H sb vs depth πr r) (fromState H sb vs depth πp p) = true)
    (hl : p.length ≤ limit) (k : Nat) :
    NMap.get (pullWith .filterThenTake H sb vs depth limit true πr πp r p).2.2.2 k
      = optMerge RV.merge (NMap.get r k) (NMap.get p k) := by
  unfold pullWith
  simp only [hd, if_true]
  have hlen : (iter πp p).length ≤ limit := by rw [(iter_valid_perm hp hπp).length_eq]; exact hl
  simp only [responseKeysWith]
  rw [List.take_of_length_le hlen, get_applyDeltas _ _ _ (iter_keys_nodup hp hπp), lookup_iter hp hπp]
  cases h1 : NMap.get p k <;> cases h2 : NMap.get r k <;> simp [optMerge, mergeInto]

/-- no digest difference, no exchange -/
theorem pull_noop_when_in_sync (ord : RespOrder) (H : Hasher) (sb : Bool) (vs : ValueStream)
    (depth limit : Nat) (full : Bool) (πr πp : List Nat) (r p : NMap RV)
    (hd : differsFrom (fromState H sb vs depth πr r) (fromState H sb vs depth πp p) = false) :
    (pullWith ord H sb vs depth limit full πr πp r p).2.2.2 = r := by
  unfold pullWith
  simp [hd]

/-! ## termination under a per-round limit -/

def exX : RV := RV.withValue [] ⟨0, 0⟩
def exY : RV := RV.withValue [] ⟨1, 0⟩
def exY' : RV := RV.withValue [0] ⟨1, 1⟩
def stA : NMap RV := [(1, exX), (2, exY)]
def stB : NMap RV := [(1, exX), (2, exY')]

/-- key order of the kernel-evaluated examples -/
def natLe : Nat → Nat → Bool := fun a b => decide (a ≤ b)

/-- one round with limit 1, current `get_keys_in_buckets` (candidates sorted by key): both sides
    send key 1 (already equal), nothing changes, the digests still differ -/
theorem sync_limit_fixpoint (sb : Bool) :
    syncRoundWith (sortByKey natLe) idealH sb canonicalStream 0 1 (NMap.keys stA) (NMap.keys stB) stA stB = (stA, stB)
    ∧ differsFrom (fromState idealH sb canonicalStream 0 (NMap.keys stA) stA) (fromState idealH sb canonicalStream 0 (NMap.keys stB) stB) = true := by
  cases sb <;> decide

/-- the pinned `get_keys_in_buckets` (map iteration order, before dc1be9d), same states -/
theorem sync_limit_fixpoint_map_order (sb : Bool) :
    syncRoundWith (fun l => l) idealH sb canonicalStream 0 1 (NMap.keys stA) (NMap.keys stB) stA stB = (stA, stB)
    ∧ differsFrom (fromState idealH sb canonicalStream 0 (NMap.keys stA) stA) (fromState idealH sb canonicalStream 0 (NMap.keys stB) stB) = true := by
  cases sb <;> decide

/-- since dc1be9d the starved set is a function of the KEYS, not of the iteration order: with the
    maps iterating key 2 first, the pinned code happened to deliver the divergent key, the
    current code still sends key 1 -/
theorem starved_set_is_a_function_of_the_keys :
    syncRoundWith (sortByKey natLe) idealH true canonicalStream 0 1 [2, 1] [2, 1] stA stB = (stA, stB)
    ∧ syncRoundWith (fun l => l) idealH true canonicalStream 0 1 [2, 1] [2, 1] stA stB = (stB, stB) := by
  decide

theorem rounds_fixpoint (sb : Bool) (n : Nat) :
    rounds (sortByKey natLe) idealH sb canonicalStream 0 1 NMap.keys n (stA, stB) = (stA, stB) := by
  induction n with
  | zero => rfl
  | succ n ih =>
    simp only [rounds]
    rw [(sync_limit_fixpoint sb).1]
    exact ih

theorem rounds_fixpoint_map_order (sb : Bool) (n : Nat) :
    rounds (fun l => l) idealH sb canonicalStream 0 1 NMap.keys n (stA, stB) = (stA, stB) := by
  induction n with
  | zero => rfl
  | succ n ih =>
    simp only [rounds]
    rw [(sync_limit_fixpoint_map_order sb).1]
    exact ih

/-- **Known finding C18:sync:limit-starvation:sim:divergent-population>limit** (current tree:
    candidates in key order, sorted bucket fold).  `.take(limit)` re-sends the same first `limit`
    keys of the divergent buckets every round: with limit 1 and two keys in the bucket the
    divergent key is never sent, and no number of rounds reaches "in sync" (collision-free
    hasher). -/
theorem sync_terminates_counterexample :
    ¬ C18_sync_terminates (sortByKey natLe) true canonicalStream
    ∧ ¬ C18_sync_terminates (sortByKey natLe) false canonicalStream := by
  constructor <;> intro h
  · obtain ⟨n, hn⟩ := h idealH 0 1 NMap.keys stA stB ideal_idealH (by decide)
      (fun s => List.Perm.refl _) (by decide) (by decide)
    rw [rounds_fixpoint true n] at hn
    rw [(sync_limit_fixpoint true).2] at hn
    cases hn
  · obtain ⟨n, hn⟩ := h idealH 0 1 NMap.keys stA stB ideal_idealH (by decide)
      (fun s => List.Perm.refl _) (by decide) (by decide)
    rw [rounds_fixpoint false n] at hn
    rw [(sync_limit_fixpoint false).2] at hn
    cases hn

/-- the same for the pinned map-order variant (before dc1be9d) -/
theorem sync_terminates_map_order_counterexample :
    ¬ C18_sync_terminates (fun l => l) true canonicalStream := by
  intro h
  obtain ⟨n, hn⟩ := h idealH 0 1 NMap.keys stA stB ideal_idealH (by decide)
    (fun s => List.Perm.refl _) (by decide) (by decide)
  rw [rounds_fixpoint_map_order true n] at hn
  rw [(sync_limit_fixpoint_map_order true).2] at hn
  cases hn

/-! ## the simulator path answers in key order -/

/-- the response of `get_keys_in_buckets` does not depend on the map's iteration order -/
def C18_sim_response_order_independent (so : SimOrder) : Prop :=
  ∀ (le : Nat → Nat → Bool) (H : Hasher) (vs : ValueStream) (depth limit : Nat) (π π' : List Nat)
    (s : NMap RV) (buckets : List Nat), TotalOrder le → NMap.WF s → ValidOrder π s → ValidOrder π' s →
    getKeysInBuckets (arrangeOf so le) H vs depth limit π s buckets
      = getKeysInBuckets (arrangeOf so le) H vs depth limit π' s buckets

/-- **C18 (sim-path response independent of the map order)** — current tree (fix dc1be9d), every
    limit incl. below the population, every total key order -/
theorem sim_response_order_independent : C18_sim_response_order_independent .keyOrder := by
  intro le H vs depth limit π π' s buckets hle hs hπ hπ'
  exact getKeysInBuckets_sorted_perm hle H depth limit buckets hs hπ hπ'

/-- **Fixed defect (dc1be9d)**: in map order the response — which keys, and in which order — was a
    function of the iteration order -/
theorem sim_response_order_independent_counterexample : ¬ C18_sim_response_order_independent .mapOrder := by
  intro h
  have := h natLe idealH canonicalStream 0 1 [1, 2] [2, 1] stA [0] totalOrder_natLe (by decide) (by decide) (by decide)
  revert this
  decide

/-- … hence the whole `run_anti_entropy_sync` round is a function of the two states alone
    (sorted bucket fold + key-ordered candidates) -/
theorem sim_round_order_independent (le : Nat → Nat → Bool) (hle : TotalOrder le) (H : Hasher)
    (vs : ValueStream) (depth limit : Nat) (πa πa' πb πb' : List Nat) (a b : NMap RV)
    (ha : NMap.WF a) (hb : NMap.WF b) (h1 : ValidOrder πa a) (h1' : ValidOrder πa' a)
    (h2 : ValidOrder πb b) (h2' : ValidOrder πb' b) :
    syncRoundWith (sortByKey le) H true vs depth limit πa πb a b
      = syncRoundWith (sortByKey le) H true vs depth limit πa' πb' a b := by
  unfold syncRoundWith exchange
  rw [fromState_sorted_perm H depth a (h1.trans h1'.symm), fromState_sorted_perm H depth b (h2.trans h2'.symm)]
  simp only [getKeysInBuckets_sorted_perm hle H depth limit _ ha h1 h1',
    getKeysInBuckets_sorted_perm hle H depth limit _ hb h2 h2']

/-! ## one bucket function for the digest, the divergent-bucket list and both key filters -/

/-- **C18 (digest and filters bucket a key identically)** — the model of the current code, every
    depth, every iteration order: for an entry `(k, v)` of the state and `b = bucketOf depth
    (KeyDigest::new k v)`,
    * `b` is a valid bucket index of the digest (`b < 2^depth = |buckets|`),
    * `from_state` files the key's digest under bucket `b` and under no other bucket,
    * the simulator-path filter (`get_keys_in_buckets`, any arrangement, limit not binding) selects
      the entry iff `b` is among the requested buckets, and
    * so does the message-path filter (`handle_sync_request`). -/
theorem digest_and_filter_use_same_bucket_function (H : Hasher) (sb : Bool) (vs : ValueStream)
    (depth : Nat) (π : List Nat) (s : NMap RV) (k : Nat) (v : RV) (hs : NMap.WF s) (hπ : ValidOrder π s)
    (hget : NMap.get s k = some v) :
    bucketOf depth (keyDigest H vs k v) < (fromState H sb vs depth π s).buckets.length
    ∧ keyDigest H vs k v ∈ bucketDigests H vs depth π s (bucketOf depth (keyDigest H vs k v))
    ∧ (∀ b', keyDigest H vs k v ∈ bucketDigests H vs depth π s b' → b' = bucketOf depth (keyDigest H vs k v))
    ∧ (∀ (arr : Arrange) (limit : Nat) (buckets : List Nat), ArrOK arr →
        (candidates H depth π s buckets).length ≤ limit →
        ((getKeysInBuckets arr H vs depth limit π s buckets).lookup k
          = if buckets.contains (bucketOf depth (keyDigest H vs k v)) then some v else none))
    ∧ (∀ (limit : Nat) (buckets : List Nat), (candidates H depth π s buckets).length ≤ limit →
        ((responseKeysWith .filterThenTake H vs depth limit π s (some buckets)).lookup k
          = if buckets.contains (bucketOf depth (keyDigest H vs k v)) then some v else none)) := by
  have hmem : (k, v) ∈ iter π s := by
    have hp := iter_valid_perm hs hπ
    exact hp.symm.subset (Crdt.mem_of_get hget)
  refine ⟨?_, ?_, ?_, ?_, ?_⟩
  · rw [fromState_buckets_length]
    exact Nat.mod_lt _ (Nat.two_pow_pos depth)
  · unfold bucketDigests
    rw [List.mem_filter]
    exact ⟨List.mem_map.mpr ⟨(k, v), hmem, rfl⟩, by simp⟩
  · intro b' hb'
    unfold bucketDigests at hb'
    rw [List.mem_filter] at hb'
    exact (beq_iff_eq.mp hb'.2).symm
  · intro arr limit buckets harr hl
    rw [getKeysInBuckets_full harr hl,
      lookup_perm_of_nodup (harr _) ((((harr (candidates H depth π s buckets)).map (·.1)).nodup_iff).mpr (candidates_keys_nodup buckets hs hπ)),
      lookup_candidates buckets hs hπ k, hget]
    rfl
  · intro limit buckets hl
    rw [response_exact_when_under_limit H vs depth limit π s buckets hs hπ hl k, hget]
    rfl

/-- … consequently a key on which two replicas differ lies in a bucket that is reported
    divergent AND requested AND answered: after one pull the requester holds the merge for it
    (ideal hash, limit not binding) -/
theorem differing_key_is_delivered (H : Hasher) (sb : Bool) (vs : ValueStream) (depth limit : Nat)
    (πr πp : List Nat) (r p : NMap RV) (k : Nat) (hI : Ideal H) (hvs : StreamOK vs)
    (hr : NMap.WF r) (hp : NMap.WF p) (hπr : ValidOrder πr r) (hπp : ValidOrder πp p)
    (hne : (NMap.get r k).map vs ≠ (NMap.get p k).map vs)
    (hl : (candidates H depth πp p (divergentBuckets (fromState H sb vs depth πr r) (fromState H sb vs depth πp p))).length ≤ limit) :
    NMap.get (pullWith .filterThenTake H sb vs depth limit false πr πp r p).2.2.2 k
      = optMerge RV.merge (NMap.get r k) (NMap.get p k) := by
  have hlt : H.key k % 2 ^ depth < 2 ^ depth := Nat.mod_lt _ (Nat.two_pow_pos depth)
  have hpb : projBucket H vs depth (H.key k % 2 ^ depth) r ≠ projBucket H vs depth (H.key k % 2 ^ depth) p := by
    intro h
    have := congrArg (fun m => NMap.get m k) h
    simp only [get_projBucket, beq_self_eq_true, if_true] at this
    exact hne this
  have hdiv := divergent_buckets_complete sb H vs depth πr πp r p _ hI hvs hr hp hπr hπp hlt hpb
  have hd : differsFrom (fromState H sb vs depth πr r) (fromState H sb vs depth πp p) = true := by
    cases hdf : differsFrom (fromState H sb vs depth πr r) (fromState H sb vs depth πp p) with
    | true => rfl
    | false =>
      exfalso
      have hproj := digest_never_false_in_sync_wrt_proj sb H vs depth πr πp r p hI hvs hr hp hπr hπp hdf
      apply hne
      rw [← get_proj, ← get_proj, hproj]
  rw [sync_round_merges H sb vs depth limit πr πp r p hp hπp hd hl k]
  rw [if_pos (List.contains_iff_mem.mpr hdiv)]

def clampR : NMap RV := [(1, exX), (2, exX), (3, exY), (4, exX)]
def clampP : NMap RV := [(1, exX), (2, exX), (3, exY'), (4, exX)]

/-- **a digest-side depth clamp breaks the exchange** (the seeded defect class, scaled down:
    configured depth 2, digest clamped to depth 1).  Key 3 differs; the clamped digest reports
    bucket 1 (= 3 mod 2), the filter — still at depth 2 — answers the keys with `k mod 4 = 1`,
    i.e. key 1: key 3 is never sent, the requester's state does not change, the digests differ
    for ever.  Without the clamp bucket 3 is reported and key 3 is merged. -/
theorem digest_side_clamp_counterexample :
    (pullClamped (some 1) idealH true canonicalStream 2 1000 (NMap.keys clampR) (NMap.keys clampP) clampR clampP).1 = true
    ∧ (pullClamped (some 1) idealH true canonicalStream 2 1000 (NMap.keys clampR) (NMap.keys clampP) clampR clampP).2.1 = [1]
    ∧ (pullClamped (some 1) idealH true canonicalStream 2 1000 (NMap.keys clampR) (NMap.keys clampP) clampR clampP).2.2.2 = clampR
    ∧ (pullClamped none idealH true canonicalStream 2 1000 (NMap.keys clampR) (NMap.keys clampP) clampR clampP).2.1 = [3]
    ∧ (pullClamped none idealH true canonicalStream 2 1000 (NMap.keys clampR) (NMap.keys clampP) clampR clampP).2.2.2 = clampP := by
  decide

/-- without a clamp `pullClamped` IS the pull of the current tree -/
theorem pullClamped_none (H : Hasher) (sb : Bool) (vs : ValueStream) (depth limit : Nat)
    (πr πp : List Nat) (r p : NMap RV) :
    pullClamped none H sb vs depth limit πr πp r p = pullWith .filterThenTake H sb vs depth limit false πr πp r p := rfl

/-! ## configuration extremes -/

/-- **`max_keys_per_sync = 0`**: no exchange ever sends anything — simulator path and message
    path, bucket or full-state request: the states never change (starvation by configuration) -/
theorem sync_limit_zero_never_progresses (arr : Arrange) (ord : RespOrder) (H : Hasher) (sb : Bool)
    (vs : ValueStream) (depth : Nat) (full : Bool) (πa πb : List Nat) (a b : NMap RV) :
    syncRoundWith arr H sb vs depth 0 πa πb a b = (a, b)
    ∧ (pullWith ord H sb vs depth 0 full πa πb a b).2.2.2 = a := by
  constructor
  · unfold syncRoundWith exchange getKeysInBuckets
    simp only [List.take_zero, applyDeltas, List.foldl_nil]
    repeat' split
    all_goals rfl
  · have hresp : ∀ req, responseKeysWith ord H vs depth 0 πb b req = [] := by
      intro req
      cases req <;> cases ord <;> simp [responseKeysWith]
    unfold pullWith
    simp only [hresp, applyDeltas, List.foldl_nil]
    split <;> rfl

/-- **Fixed defect C18:config:merkle_tree_depth:digest-panics** (c51a674).  Before the depth was
    bounded, depths 59–63 made `generate_digest` panic ("capacity overflow"); depth ≥ 64 panicked
    on the shift with overflow checks and wrapped to `depth mod 64` without them -/
theorem digest_alloc_extremes :
    digestAlloc .unbounded true 16 = .buckets 65536 ∧ digestAlloc .unbounded true 20 = .buckets 1048576
    ∧ digestAlloc .unbounded true 58 = .buckets (2 ^ 58)
    ∧ digestAlloc .unbounded true 59 = .capacityOverflowPanic ∧ digestAlloc .unbounded false 63 = .capacityOverflowPanic
    ∧ digestAlloc .unbounded true 64 = .shiftOverflowPanic ∧ digestAlloc .unbounded false 64 = .buckets 1
    ∧ digestAlloc .unbounded false 65 = .buckets 2 := by
  decide

/-- **C18 (every configured depth yields a digest)** — current tree: with the depth capped at
    `MAX_MERKLE_TREE_DEPTH = 20` no configured depth panics, whatever the build mode, and the
    digest has `2^min(depth, 20)` buckets -/
theorem digest_alloc_never_panics (oc : Bool) (depth : Nat) :
    digestAlloc (.capped 20) oc depth = .buckets (2 ^ min depth 20) := by
  unfold digestAlloc effectiveDepth
  have h1 : min depth 20 ≤ 20 := Nat.min_le_right _ _
  have h2 : ¬ (min depth 20 ≥ 64) := by omega
  have h3 : min depth 20 % 64 = min depth 20 := Nat.mod_eq_of_lt (by omega)
  simp only [h2, decide_false, Bool.and_false, Bool.false_eq_true, if_false, h3]
  have h4 : 2 ^ min depth 20 ≤ 2 ^ 20 := Nat.pow_le_pow_right (by decide) h1
  rw [if_neg]
  have : (2 : Nat) ^ 20 = 1048576 := by decide
  omega

/-- the effective depth is ONE value: the digest built for a configured depth and both key
    filters are all instances of the functions above at `effectiveDepth bound depth`, so
    `digest_and_filter_use_same_bucket_function` applies verbatim for every configured depth
    (stated here for the bound of the current tree) -/
theorem configured_depth_uses_one_bucket_function (H : Hasher) (sb : Bool) (vs : ValueStream)
    (configured : Nat) (π : List Nat) (s : NMap RV) (k : Nat) (v : RV) (hs : NMap.WF s)
    (hπ : ValidOrder π s) (hget : NMap.get s k = some v) :
    let depth := effectiveDepth currentDepthBound configured
    depth ≤ 20
    ∧ bucketOf depth (keyDigest H vs k v) < (fromState H sb vs depth π s).buckets.length
    ∧ keyDigest H vs k v ∈ bucketDigests H vs depth π s (bucketOf depth (keyDigest H vs k v)) := by
  intro depth
  have h := digest_and_filter_use_same_bucket_function H sb vs depth π s k v hs hπ hget
  exact ⟨Nat.min_le_right _ _, h.1, h.2.1⟩

/-- **Fixed defect C18:sync:config:max_keys_per_sync=0** (7f2c849): the limit in effect is at
    least one key per round -/
theorem effective_limit_pos (limit : Nat) : 1 ≤ effectiveLimit true limit ∧ effectiveLimit false 0 = 0
    ∧ (1 ≤ limit → effectiveLimit true limit = limit) := by
  refine ⟨?_, rfl, ?_⟩
  · show 1 ≤ max limit 1
    exact Nat.le_max_right _ _
  · intro h
    show max limit 1 = limit
    exact Nat.max_eq_left h

/-! ## the bytes fed to SipHash: the `Ideal` assumption is about the 64-bit hash function alone

`Hasher` abstracts three uses of `DefaultHasher`; `sipHasher sip kb` derives all three from ONE
byte-stream hash `sip` and the byte streams the code builds (`byteStream`: what `canonical_hash`
writes; a key's bytes + `0xff`; `u64` words little-endian).  The driver instantiates `sip` with
`Sip.sip13` (SipHash-1-3, zero key) and compares every key hash, value hash, bucket hash and root
hash with the real ones; the theorems hold for every collision-free `sip`. -/

/-- SipHash-1-3 test vectors (`DefaultHasher::new(); write(bytes); finish()`), kernel-evaluated -/
theorem sip13_test_vectors :
    Sip.sip13 [] = 15130871412783076140 ∧ Sip.sip13 [1] = 4952851536318644461
    ∧ Sip.sip13 [1, 2, 3, 4, 5, 6, 7] = 12812043627018688250
    ∧ Sip.sip13 [1, 2, 3, 4, 5, 6, 7, 8] = 9821449770987577264
    ∧ Sip.sip13 (List.range 20) = 7178233520606413056 := by
  decide

/-- every value of the state is canonical and its strings are UTF-8 (no `0xff` byte) -/
def ValuesOK (kb : Nat → List Nat) (s : NMap RV) : Prop := ∀ p ∈ s, p.2.WF ∧ StrSafe kb p.2

instance (kb : Nat → List Nat) : DecidablePred (ValuesOK kb) := fun s => by unfold ValuesOK; infer_instance

/-- **C18 (the byte stream is uniquely decodable)**: two canonical UTF-8 values that differ
    anywhere — stamp, kind, any register / field / count / element / tag, vector clock, expiry,
    replication factor — feed different BYTES to the value hasher.  A change of `canonical_hash`
    that makes the stream ambiguous (two variable-length parts without a length or terminator
    between them, a dropped field, an unsorted container) breaks this theorem once the model
    follows the code, and the model must follow: `sip13 (byteStream v)` is compared with the real
    `value_hash` for every value of every run. -/
theorem byte_stream_injective (kb : Nat → List Nat) (hkb : KbInj kb) (v w : RV) (hv : v.WF) (hw : w.WF)
    (sv : StrSafe kb v) (sw : StrSafe kb w) (h : byteStream kb v = byteStream kb w) : v = w :=
  byteStream_inj hkb hv hw sv sw h

/-- … `StrSafe` is necessary: strings are `0xff`-terminated, not length-prefixed (unreachable
    with Rust `String`s, which are UTF-8) -/
theorem byte_stream_ff_ambiguous :
    ffA ≠ ffB ∧ ffA.WF ∧ ffB.WF ∧ byteStream HB.keyStr ffA = byteStream HB.keyStr ffB
    ∧ ¬ StrSafe HB.keyStr ffA :=
  byteStream_ff_ambiguous

/-- the driver's string decoder is injective -/
theorem key_str_injective : KbInj HB.keyStr := keyStr_inj

/-- … and inverts the codec of the drivers: the bytes the model hashes for a key (an element, a
    field name) ARE that string's bytes -/
theorem key_str_inverts_code (b : List Nat) (hb : ∀ x ∈ b, x < 256) : HB.keyStr (HB.code b) = b := keyStr_code hb

/-- the key order the driver runs `get_keys_in_buckets` with — byte-wise `String::cmp` on the
    decoded keys — satisfies the `TotalOrder` hypothesis of `sim_response_order_independent` and
    `sim_round_order_independent` -/
theorem key_order_total : TotalOrder (fun a b => HB.bytesLe (HB.keyStr a) (HB.keyStr b)) := totalOrder_keyLe

/-- **the three-use `Ideal` assumption follows from an ideal byte hash** -/
theorem ideal_sip_hasher (sip : List Nat → Nat) (kb : Nat → List Nat) (hs : SipIdeal sip) (hkb : KbInj kb) :
    Ideal (sipHasher sip kb) := ideal_sipHasher hs hkb

theorem proj_byteStream_inj {kb : Nat → List Nat} (hkb : KbInj kb) {s t : NMap RV}
    (hs : ValuesOK kb s) (ht : ValuesOK kb t) (h : proj (byteStream kb) s = proj (byteStream kb) t) : s = t := by
  unfold proj at h
  induction s generalizing t with
  | nil =>
    cases t with
    | nil => rfl
    | cons _ _ => simp at h
  | cons p ps ih =>
    cases t with
    | nil => simp at h
    | cons q qs =>
      simp only [List.map_cons, List.cons.injEq, Prod.mk.injEq] at h
      obtain ⟨⟨hk, hp⟩, hrest⟩ := h
      have h1 := hs p List.mem_cons_self
      have h2 := ht q List.mem_cons_self
      rw [ih (fun x hx => hs x (List.mem_cons_of_mem _ hx)) (fun x hx => ht x (List.mem_cons_of_mem _ hx)) hrest]
      congr 1
      exact Prod.ext hk (byteStream_inj hkb h1.1 h2.1 h1.2 h2.2 hp)

/-- **C18 (equal digests iff equal states), at the level of the bytes hashed**: for every
    collision-free 64-bit byte hash `sip` (never `0`), the digests the code computes — key hash =
    `sip(key bytes, 0xff)`, value hash = `sip(canonical_hash's bytes)`, bucket / root hashes =
    `sip(little-endian words)` — are equal iff the states are, for canonical UTF-8 states of any
    size, any CRDT kinds, any two iteration orders, any depth. -/
theorem digest_iff_state_eq_bytes (sip : List Nat → Nat) (kb : Nat → List Nat) (hsip : SipIdeal sip)
    (hkb : KbInj kb) (depth : Nat) (π π' : List Nat) (s t : NMap RV)
    (hs : NMap.WF s) (ht : NMap.WF t) (vs : ValuesOK kb s) (vt : ValuesOK kb t)
    (hπ : ValidOrder π s) (hπ' : ValidOrder π' t) :
    differsFrom (fromState (sipHasher sip kb) true (byteStream kb) depth π s)
      (fromState (sipHasher sip kb) true (byteStream kb) depth π' t) = false ↔ s = t := by
  rw [digest_complete (sipHasher sip kb) (byteStream kb) depth π π' s t (ideal_sipHasher hsip hkb)
    (streamOK_byteStream kb) hs ht hπ hπ']
  constructor
  · exact proj_byteStream_inj hkb vs vt
  · intro h; rw [h]

/-- … in particular for the stream and the string decoder of the current tree (`AE.digest` with
    `sipHasher sip HB.keyStr`; the driver runs it with `sip = Sip.sip13`) -/
theorem digest_iff_state_eq_current (sip : List Nat → Nat) (hsip : SipIdeal sip) (depth : Nat)
    (π π' : List Nat) (s t : NMap RV) (hs : NMap.WF s) (ht : NMap.WF t)
    (vs : ValuesOK HB.keyStr s) (vt : ValuesOK HB.keyStr t) (hπ : ValidOrder π s) (hπ' : ValidOrder π' t) :
    differsFrom (digest (sipHasher sip HB.keyStr) depth π s) (digest (sipHasher sip HB.keyStr) depth π' t) = false
      ↔ s = t :=
  digest_iff_state_eq_bytes sip HB.keyStr hsip keyStr_inj depth π π' s t hs ht vs vt hπ hπ'

/-- a collision-free byte hash that never returns `0` (non-vacuity of `SipIdeal`) -/
def idealSip : List Nat → Nat := fun l => enc l + 1

theorem sipIdeal_idealSip : SipIdeal idealSip :=
  ⟨fun a b h => enc_inj a b (by unfold idealSip at h; omega), fun a => by unfold idealSip; omega⟩

/-- the two sides must be configured with the SAME `merkle_tree_depth`: digests of different depth
    never compare equal for non-trivial equal states (the root folds a different bucket list) — the
    exchange still merges (the size-mismatch branch of `divergent_buckets` reports every non-empty
    extra bucket; exercised by the three-manager sessions), but "in sync" is never reached -/
theorem digest_depth_mismatch_counterexample :
    differsFrom (fromState idealH true canonicalStream 0 [1, 2] exA) (fromState idealH true canonicalStream 1 [1, 2] exA) = true
    ∧ divergentBuckets (fromState idealH true canonicalStream 0 [1, 2] exA) (fromState idealH true canonicalStream 1 [1, 2] exA) = [0, 1] := by
  decide

/-! ## what one round guarantees under ANY limit

The code keeps no cursor between rounds, so nothing better than this can be said about a round
whose limit is below the candidate population: each side is sent exactly the first `limit`
candidates of the other side (in key order on the simulator path), those keys end merged, every
other key is untouched — and the next round starts from the same prefix (the starvation finding). -/

theorem getKeysInBuckets_keys_nodup (arr : Arrange) (harr : ArrOK arr) (H : Hasher) (vs : ValueStream) (depth limit : Nat)
    (π : List Nat) (s : NMap RV) (div : List Nat) (hs : NMap.WF s) (hπ : ValidOrder π s) :
    ((getKeysInBuckets arr H vs depth limit π s div).map (·.1)).Nodup := by
  rw [getKeysInBuckets_eq_take]
  have hp : ((arr (candidates H depth π s div)).map (·.1)).Nodup :=
    (((harr (candidates H depth π s div)).map (·.1)).nodup_iff).mpr (candidates_keys_nodup div hs hπ)
  exact List.Nodup.sublist ((List.take_sublist _ _).map _) hp

/-- **C18 (one round, exactly)**: for every limit, every arrangement, every pair of iteration
    orders: after `run_anti_entropy_sync` a key holds `merge(own, other's)` iff the OTHER side sent
    it — i.e. iff it is among the first `limit` arranged candidates of the other side — and is
    unchanged otherwise.  (With `limit ≥` population this is `sync_merges`.) -/
theorem sync_round_exact (arr : Arrange) (harr : ArrOK arr) (H : Hasher) (sb : Bool) (vs : ValueStream) (depth limit : Nat)
    (πa πb : List Nat) (a b : NMap RV) (ha : NMap.WF a) (hb : NMap.WF b) (hπa : ValidOrder πa a) (hπb : ValidOrder πb b)
    (hd : differsFrom (fromState H sb vs depth πa a) (fromState H sb vs depth πb b) = true)
    (hne : (divergentBuckets (fromState H sb vs depth πa a) (fromState H sb vs depth πb b)).isEmpty = false) (k : Nat) :
    let div := divergentBuckets (fromState H sb vs depth πa a) (fromState H sb vs depth πb b)
    let r := syncRoundWith arr H sb vs depth limit πa πb a b
    NMap.get r.1 k = (match (getKeysInBuckets arr H vs depth limit πb b div).lookup k with
                      | some v => some (mergeInto (NMap.get a k) v)
                      | none => NMap.get a k)
    ∧ NMap.get r.2 k = (match (getKeysInBuckets arr H vs depth limit πa a div).lookup k with
                        | some v => some (mergeInto (NMap.get b k) v)
                        | none => NMap.get b k) := by
  intro div r
  have hr : r = exchange arr H vs depth limit πa πb a b div := by
    show syncRoundWith arr H sb vs depth limit πa πb a b = _
    unfold syncRoundWith
    simp only [hd, if_true]
    have : (divergentBuckets (fromState H sb vs depth πa a) (fromState H sb vs depth πb b)).isEmpty = false := hne
    simp [this, div]
  rw [hr]
  unfold exchange
  simp only []
  exact ⟨get_applyDeltas _ a k (getKeysInBuckets_keys_nodup arr harr H vs depth limit πb b div hb hπb),
    get_applyDeltas _ b k (getKeysInBuckets_keys_nodup arr harr H vs depth limit πa a div ha hπa)⟩

/-! ## the protocol as a state machine: late, duplicated and concurrent messages

`AE.Mgr` models `AntiEntropyManager` with its bookkeeping; digests, requests and responses are
values that may be processed at any later time.  What the protocol guarantees then: -/

theorem response_sublist_iter (ord : RespOrder) (H : Hasher) (vs : ValueStream) (depth limit : Nat) (π : List Nat)
    (s : NMap RV) (req : Option (List Nat)) : (responseKeysWith ord H vs depth limit π s req).Sublist (iter π s) := by
  cases req with
  | none => exact List.take_sublist _ _
  | some bs =>
    cases ord <;> simp only [responseKeysWith]
    · exact (List.take_sublist _ _).trans List.filter_sublist
    · exact List.filter_sublist.trans (List.take_sublist _ _)

/-- a response never answers a key twice -/
theorem response_keys_nodup (ord : RespOrder) (H : Hasher) (vs : ValueStream) (depth limit : Nat) (π : List Nat)
    (s : NMap RV) (req : Option (List Nat)) (hs : NMap.WF s) (hπ : ValidOrder π s) :
    ((responseKeysWith ord H vs depth limit π s req).map (·.1)).Nodup :=
  List.Nodup.sublist ((response_sublist_iter ord H vs depth limit π s req).map _) (iter_keys_nodup hs hπ)

/-- **C18 (a late answer is safe)**: the response to ANY request (built from digests of
    arbitrarily old states, for a bucket list or the full state) consists of entries of the
    responder's CURRENT state, and merging it into ANY requester state `r₁` — the state at merge
    time, not the one the digest was computed from — leaves `merge(r₁[k], answered[k])` on every
    answered key and every other key untouched: a write made between digest and transfer is
    never rolled back or skipped. -/
theorem stale_pull_merges (H : Hasher) (m : Mgr) (req : Request) (πp : List Nat) (p r₁ : NMap RV)
    (hp : NMap.WF p) (hπ : ValidOrder πp p) (k : Nat) :
    (∀ q ∈ (m.handleSyncRequest H req πp p).2.deltas, NMap.get p q.1 = some q.2)
    ∧ NMap.get (applyDeltas r₁ (m.handleSyncRequest H req πp p).2.deltas) k
        = (match (m.handleSyncRequest H req πp p).2.deltas.lookup k with
           | some v => some (mergeInto (NMap.get r₁ k) v)
           | none => NMap.get r₁ k) := by
  have hdl : (m.handleSyncRequest H req πp p).2.deltas
      = responseKeysWith currentRespOrder H currentStream (effectiveDepth currentDepthBound m.depth)
          (effectiveLimit currentLimitAtLeastOne m.limit) πp p req.buckets := rfl
  rw [hdl]
  constructor
  · intro q hq
    exact mem_iter ((response_sublist_iter _ _ _ _ _ _ _ _).subset hq)
  · exact get_applyDeltas _ r₁ k (response_keys_nodup _ _ _ _ _ _ _ _ hp hπ)

/-- merging `v` a second time changes nothing -/
def Absorbs (r : NMap RV) (ds : List (Nat × RV)) : Prop :=
  ∀ q ∈ ds, RV.merge (mergeInto (NMap.get r q.1) q.2) q.2 = mergeInto (NMap.get r q.1) q.2

instance (r : NMap RV) (ds : List (Nat × RV)) : Decidable (Absorbs r ds) := by unfold Absorbs; infer_instance

/-- … which is the case for well-formed values of one kind (C07: idempotent, associative within a kind) -/
theorem absorbs_of_samekind (r : NMap RV) (ds : List (Nat × RV))
    (h : ∀ q ∈ ds, q.2.WF ∧ ∀ u, NMap.get r q.1 = some u → u.WF ∧ u.crdt.kind = q.2.crdt.kind) : Absorbs r ds := by
  intro q hq
  obtain ⟨hw, hu⟩ := h q hq
  unfold mergeInto
  cases hg : NMap.get r q.1 with
  | none => exact C07.rv_merge_idem q.2 hw
  | some u =>
    obtain ⟨huw, hk⟩ := hu u hg
    simp only []
    rw [← C07.rv_merge_assoc_partial u q.2 q.2 huw hw hw ⟨hk, rfl⟩, C07.rv_merge_idem q.2 hw]

/-- **C18 (a duplicated answer is harmless), partial**: applying the same response twice equals
    applying it once, provided re-merging an answered value is absorbed (`Absorbs`; true for
    well-formed same-kind values, `absorbs_of_samekind`; cross-kind pairs are C07's known
    non-associativity) -/
theorem duplicate_response_idempotent_partial (r : NMap RV) (ds : List (Nat × RV)) (hr : NMap.WF r)
    (hn : (ds.map (·.1)).Nodup) (ha : Absorbs r ds) :
    applyDeltas (applyDeltas r ds) ds = applyDeltas r ds := by
  apply NMap.ext (wf_applyDeltas _ (wf_applyDeltas _ hr)) (wf_applyDeltas _ hr)
  intro k
  rw [get_applyDeltas ds _ k hn, get_applyDeltas ds r k hn]
  cases hl : ds.lookup k with
  | none => rfl
  | some v =>
    simp only []
    have hmem : (k, v) ∈ ds := by
      have := List.lookup_eq_some_iff.mp hl
      obtain ⟨l1, l2, rfl, _⟩ := this
      simp
    have := ha (k, v) hmem
    simp only [mergeInto] at this ⊢
    cases hg : NMap.get r k with
    | none => rw [hg] at this; simp only [] at this ⊢; rw [this]
    | some u => rw [hg] at this; simp only [] at this ⊢; rw [this]

/-- **C18 (the verdict of `process_peer_digest`)**: with an ideal byte hash, two managers of the
    same configured depth: the peer is reported (and marked) divergent iff the two states differ —
    whatever generations / replica ids the digests carry, whatever the iteration orders -/
theorem mgr_verdict_iff_states_differ (sip : List Nat → Nat) (hsip : SipIdeal sip) (m mp : Mgr) (hd : m.depth = mp.depth)
    (π π' : List Nat) (s t : NMap RV) (hs : NMap.WF s) (ht : NMap.WF t)
    (vs : ValuesOK HB.keyStr s) (vt : ValuesOK HB.keyStr t) (hπ : ValidOrder π s) (hπ' : ValidOrder π' t) :
    let ours := m.generateDigest (sipHasher sip HB.keyStr) π s
    let theirs := mp.generateDigest (sipHasher sip HB.keyStr) π' t
    ((m.processPeerDigest theirs ours).2.isSome = true ↔ s ≠ t)
    ∧ (mp.rid ∈ (m.processPeerDigest theirs ours).1.divergentPeers ↔ s ≠ t) := by
  intro ours theirs
  have key := digest_iff_state_eq_current sip hsip (effectiveDepth currentDepthBound m.depth) π π' s t hs ht vs vt hπ hπ'
  have hdf : differsFrom ours.d theirs.d = false ↔ s = t := by
    show differsFrom (digest _ _ π s) (digest _ (effectiveDepth currentDepthBound mp.depth) π' t) = false ↔ s = t
    rw [← hd]; exact key
  unfold Mgr.processPeerDigest
  cases hdd : differsFrom ours.d theirs.d with
  | true =>
    have hne : s ≠ t := fun h => by rw [hdf.mpr h] at hdd; cases hdd
    simp only [if_true, Option.isSome_some, true_iff]
    exact ⟨hne, ⟨fun _ => hne, fun _ => Ring.nset_mem_insert.mpr (Or.inl rfl)⟩⟩
  | false =>
    have heq : s = t := hdf.mp hdd
    simp only [Bool.false_eq_true, if_false, Option.isSome_none]
    refine ⟨⟨fun h => absurd h (by decide), fun h => absurd heq h⟩, ⟨fun h => ?_, fun h => absurd heq h⟩⟩
    rw [List.mem_filter] at h
    have := h.2
    simp at this
    exact absurd rfl this

/-- **C18 (`should_sync` after a request)**: once a request to `peer` was created at time `now`,
    a sync is due again exactly from `now + sync_interval_ms` on (no clock underflow for `t ≥ now`) -/
theorem should_sync_after_request (m : Mgr) (peer : Nat) (ours : TDigest) (bs : Option (List Nat)) (now t : Nat)
    (ht : now ≤ t) :
    (m.createSyncRequest peer ours bs now).1.shouldSync peer t = if t - now ≥ m.interval then .yes else .no := by
  unfold Mgr.createSyncRequest Mgr.shouldSync
  simp only [NMap.get_insert, if_true, dueAt]
  rw [if_neg (by omega)]

/-! ## non-vacuity -/

-- the hypotheses of the theorems above are satisfiable by non-trivial values
example : Ideal idealH := ideal_idealH

example : NMap.WF exA ∧ LwwOnly exA ∧ ValidOrder [2, 1] exA ∧ proj canonicalStream exA ≠ proj canonicalStream stA
    ∧ fromState idealH true canonicalStream 0 [1, 2] exA = fromState idealH true canonicalStream 0 [2, 1] exA := by
  decide

-- the byte-level hypotheses are satisfiable by a non-trivial state: a hash with two fields, a set
-- with two elements of different lengths (sorted by bytes, not by code), a plain register
def exBytes : NMap RV :=
  [(HB.code [107], { crdt := .hash [(HB.code [102], ⟨some [49], ⟨1, 1⟩, false⟩), (HB.code [97, 98], ⟨none, ⟨2, 1⟩, true⟩)],
                     vc := some [(1, 2)], expiry := some 5000, ts := ⟨2, 1⟩, rf := some 3 }),
   (HB.code [107, 50], { crdt := .gset [HB.code [122], HB.code [97, 98]], vc := none, expiry := none, ts := ⟨1, 2⟩, rf := none }),
   (HB.code [107, 51], RV.withValue [0, 255] ⟨3, 1⟩)]

example : NMap.WF exBytes ∧ ValuesOK HB.keyStr exBytes ∧ ValidOrder [HB.code [107, 51], HB.code [107], HB.code [107, 50]] exBytes
    ∧ SipIdeal idealSip := by
  refine ⟨by decide, by decide, by decide, sipIdeal_idealSip⟩

-- a duplicated answer that is absorbed (same kind), applied to a state that already changed
example : Absorbs stA [(2, exY')] ∧ ((([(2, exY')] : List (Nat × RV)).map (·.1)).Nodup)
    ∧ applyDeltas (applyDeltas stA [(2, exY')]) [(2, exY')] = applyDeltas stA [(2, exY')]
    ∧ applyDeltas stA [(2, exY')] = stB := by
  decide

-- a sync with limit ≥ population: key 2 diverges, both sides end with the merge
example :
    differsFrom (fromState idealH true canonicalStream 0 [2, 1] stA) (fromState idealH true canonicalStream 0 [1, 2] stB) = true
    ∧ (candidates idealH 0 [2, 1] stA (divergentBuckets (fromState idealH true canonicalStream 0 [2, 1] stA) (fromState idealH true canonicalStream 0 [1, 2] stB))).length ≤ 2
    ∧ syncRoundWith (sortByKey natLe) idealH true canonicalStream 0 2 [2, 1] [1, 2] stA stB = (stB, stB) := by
  decide

end C18
end RedisVerif
