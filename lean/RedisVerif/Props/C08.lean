import RedisVerif.Model.Replica
import RedisVerif.Lemmas.Replica

/-!
# C08 — Newest write wins: a node's stamps only grow, also across restart

Model: `RedisVerif.Shard` (M2, `Model/Replica.lean`) = `ShardReplicaState` plus the
`ApplyRecoveredState` arm of `ReplicatedShardActor`.

* `inv_step` / `reachable_inv`: **clock domination** — in every reachable shard state the
  Lamport clock is ≥ the time of every stamp stored (outer and inner), for every interleaving of
  local writes, remote deltas and recovered values.
* `issued_stamp_gt_seen`: the delta of every effective local write carries a stamp strictly
  greater than every stamp the node holds (for *any* key — stronger than the property asks).
* `newest_write_wins`: … also greater than every stamp of every value it was *ever* handed
  (remote or recovered), at any earlier point of any history.
* `issued_strictly_increasing`: stamps issued along any history never repeat or decrease
  (crash + recovery is a history that starts again from `Shard.init` and replays recovered
  values: `no_repeat_across_restart`).
* `lww_write_supersedes`: such a write wins the merge against the observed value on every replica,
  whichever way round the merge is taken and whatever the observed value's CRDT kind.
* `node_recovery_dominates` / `node_recovery_write_wins`: the same at the level of a whole node
  (`ShardedNode` = all shards of a `ReplicatedShardedState`): after
  `apply_recovered_state(checkpoint, deltas)` every shard's subsequent writes are stamped above
  EVERY recovered value routed to it, tombstones included
  (`node_recovery_skip_tombstones_counterexample`: a recovery loop that skips tombstones breaks it).
* `flush_keeps_clock`: FLUSHDB/FLUSHALL leave the replication state (and its Lamport clock) alone,
  so later writes stay above everything seen before (`flush_resets_clock_counterexample`: a flush
  that re-initialises the replication state repeats stamps).
* `recovered_without_clock_update_counterexample`: the pinned commit (ApplyRecoveredState did
  not advance the clock) violates the property — repaired by a `fix:` commit.
-/
namespace RedisVerif
namespace C08

open Shard

def run (s : Shard) (ops : List Op) : Shard := ops.foldl (fun s o => (step s o).1) s

/-! ## full-strength statements -/

/-- every reachable state is clock-dominated -/
def C08_clock_dominates : Prop :=
  ∀ (rid : Nat) (causal : Bool) (ops : List Op), (∀ o ∈ ops, OpOk o) →
    (run (Shard.init rid causal) ops).Inv

/-- a write acknowledged after the node has observed a value `v` (in its store now, or handed to
    it earlier as a remote delta or a recovered value) carries a strictly greater stamp than
    every stamp of `v` -/
def C08_newest_write_wins : Prop :=
  ∀ (s : Shard) (pre post : List Op) (k : Nat) (v : RV) (o w : Op) (d : RV),
    s.Inv → (∀ x ∈ pre ++ o :: post, OpOk x) → (o = .remote k v ∨ o = .recovered k v) →
    let s' := run s (pre ++ o :: post)
    effective s' w = true → (step s' w).2 = some d →
    ∀ t ∈ v.allStamps, t.lt d.ts = true

/-! ## clock monotonicity -/

theorem hwrite_clock (s : Shard) (k : Nat) (fs : List (Nat × Bytes)) :
    (recordHashWrite s k fs).1.clock.time = s.clock.time + fs.length ∧
    (recordHashWrite s k fs).1.clock.rid = s.clock.rid ∧
    (fs.isEmpty = false → (recordHashWrite s k fs).2.ts = (recordHashWrite s k fs).1.clock) := by
  have := hashSet_fold_clock fs s.clock
      ((NMap.get s.keys k).getD { RV.new s.rid with crdt := .hash [] }).crdt.hashOf
  refine ⟨this.1, this.2, ?_⟩
  intro hne
  simp [recordHashWrite, hne]

theorem clock_monotone (s : Shard) (op : Op) :
    s.clock.time ≤ (step s op).1.clock.time ∧ (step s op).1.clock.rid = s.clock.rid := by
  cases op with
  | write k v e => simp [step, recordWrite]
  | delete k =>
    simp only [step]
    cases hg : NMap.get s.keys k with
    | none => rw [recordDelete_none hg]; simp
    | some rv =>
      by_cases hc0 : rv.crdt.kind = 0
      · obtain ⟨r, hr⟩ := kind_lww hc0
        rw [recordDelete_lww hg hr]; simp
      · by_cases hc5 : rv.crdt.kind = 5
        · obtain ⟨m, hm⟩ := kind_hash hc5
          rw [recordDelete_hash hg hm]; simp
        · rw [recordDelete_other hg hc0 hc5]; simp
  | hwrite k fs =>
    have := hwrite_clock s k fs
    simp only [step]
    exact ⟨by omega, this.2.1⟩
  | hdelete k fs =>
    simp only [step, recordHashDelete]
    split
    · simp
    · split
      · rename_i h _
        have := hashDel_fold_clock fs s.clock h
        exact ⟨this.1, this.2.2⟩
      · simp
  | remote k d =>
    simp only [step, applyRemote, Stamp.update_time, Stamp.update_rid]
    exact ⟨by have := Nat.le_max_left s.clock.time d.ts.time; omega, trivial⟩
  | recovered k v =>
    simp only [step, applyRecovered, applyRecoveredWith, if_true, Stamp.update_time,
      Stamp.update_rid]
    exact ⟨by have := Nat.le_max_left s.clock.time v.ts.time; omega, trivial⟩

theorem run_clock_monotone (s : Shard) (ops : List Op) :
    s.clock.time ≤ (run s ops).clock.time := by
  induction ops generalizing s with
  | nil => exact Nat.le_refl _
  | cons o ops ih =>
    exact Nat.le_trans (clock_monotone s o).1 (ih (step s o).1)

/-! ## the invariant -/

theorem dominated_of_get {s : Shard} (h : s.Inv) {k : Nat} {rv : RV}
    (hg : NMap.get s.keys k = some rv) : rv.ts.time ≤ s.clock.time ∧ rv.Dominated :=
  h.2 (k, rv) (NMap.mem_of_get hg)

theorem dominated_new (rid : Nat) : (RV.new rid).Dominated := by
  intro t ht
  simp [RV.innerStamps, Crdt.innerStamps, RV.new, Lww.new] at ht
  subst ht; exact Nat.le_refl _

theorem inv_write (s : Shard) (k : Nat) (v : Bytes) (e : Option Nat) (h : s.Inv) :
    (recordWrite s k v e).1.Inv := by
  unfold recordWrite
  apply inv_insert h
  · simp
  · exact Nat.le_refl _
  · intro t ht
    simp [RV.innerStamps, Crdt.innerStamps, Lww.set] at ht
    subst ht; exact Nat.le_refl _

theorem inv_delete (s : Shard) (k : Nat) (h : s.Inv) : (recordDelete s k).1.Inv := by
  cases hg : NMap.get s.keys k with
  | none => rw [recordDelete_none hg]; exact h
  | some rv =>
    by_cases hc0 : rv.crdt.kind = 0
    · obtain ⟨r, hr⟩ := kind_lww hc0
      rw [recordDelete_lww hg hr]
      apply inv_insert (vc := s.vclock) h (Nat.le_succ _) (Nat.le_refl _)
      intro t ht
      simp [RV.innerStamps, Crdt.innerStamps, Lww.delete] at ht
      subst ht; exact Nat.le_refl _
    · by_cases hc5 : rv.crdt.kind = 5
      · obtain ⟨m, hm⟩ := kind_hash hc5
        rw [recordDelete_hash hg hm]
        apply inv_insert (vc := s.vclock) h (Nat.le_succ _) (Nat.le_refl _)
        intro t ht
        simp only [RV.innerStamps, delHashValue, Crdt.innerStamps] at ht
        obtain ⟨q, hq, rfl⟩ := List.mem_map.mp ht
        obtain ⟨p, _, rfl⟩ := NMap.mem_mapVal hq
        simp [Lww.delete, delHashValue]
      · rw [recordDelete_other hg hc0 hc5]; exact h

theorem hashOf_dom {rv0 : RV} (h : rv0.Dominated) :
    ∀ p ∈ rv0.crdt.hashOf, p.2.ts.time ≤ rv0.ts.time := by
  intro p hp
  cases hc : rv0.crdt <;> rw [hc] at hp <;> simp only [Crdt.hashOf] at hp <;>
    first
      | exact absurd hp List.not_mem_nil
      | skip
  apply h
  simp only [RV.innerStamps, hc, Crdt.innerStamps]
  exact List.mem_map.mpr ⟨p, hp, rfl⟩

theorem inv_hwrite_aux (s : Shard) (k : Nat) (fs : List (Nat × Bytes)) (h : s.Inv) (rv0 : RV)
    (h1 : rv0.ts.time ≤ s.clock.time) (h2 : rv0.Dominated) :
    ({ s with
        clock := (fs.foldl hashSetStep (s.clock, rv0.crdt.hashOf)).1
        keys := NMap.insert k
          { rv0 with
            crdt := .hash (fs.foldl hashSetStep (s.clock, rv0.crdt.hashOf)).2
            ts := if fs.isEmpty then rv0.ts
                  else (fs.foldl hashSetStep (s.clock, rv0.crdt.hashOf)).1 } s.keys } : Shard).Inv := by
  have hh0' := hashOf_dom h2
  have hclk := hashSet_fold_clock fs s.clock rv0.crdt.hashOf
  apply inv_insert (vc := s.vclock) h
  · omega
  · simp only
    split
    · omega
    · exact Nat.le_refl _
  · intro t ht
    simp only [RV.innerStamps, Crdt.innerStamps] at ht
    obtain ⟨p, hp, rfl⟩ := List.mem_map.mp ht
    simp only
    cases fs with
    | nil =>
      simp only [List.foldl_nil, List.isEmpty_nil, if_true]
      exact hh0' p hp
    | cons f fs' =>
      simp only [List.isEmpty_cons, Bool.false_eq_true, if_false]
      apply hashSet_fold_dom (f :: fs') s.clock rv0.crdt.hashOf _ _ _ p hp
      · intro q hq
        have := hh0' q hq
        omega
      · omega

theorem inv_hwrite (s : Shard) (k : Nat) (fs : List (Nat × Bytes)) (h : s.Inv) :
    (recordHashWrite s k fs).1.Inv := by
  have hrv0' : ((NMap.get s.keys k).getD { RV.new s.rid with crdt := .hash [] }).ts.time
        ≤ s.clock.time ∧
      ((NMap.get s.keys k).getD { RV.new s.rid with crdt := .hash [] }).Dominated := by
    cases hg : NMap.get s.keys k with
    | some rv => exact dominated_of_get h hg
    | none =>
      refine ⟨by simp [RV.new], ?_⟩
      intro t ht
      simp [RV.innerStamps, Crdt.innerStamps] at ht
  exact inv_hwrite_aux s k fs h _ hrv0'.1 hrv0'.2

theorem inv_hdelete (s : Shard) (k : Nat) (fs : List Nat) (h : s.Inv) :
    (recordHashDelete s k fs).1.Inv := by
  unfold recordHashDelete
  split
  · exact h
  · rename_i rv hg
    split
    · rename_i hm hc
      have hrv := dominated_of_get h hg
      have hh : ∀ p ∈ hm, p.2.ts.time ≤ s.clock.time := by
        intro p hp
        have := hrv.2 p.2.ts (by
          simp only [RV.innerStamps, hc, Crdt.innerStamps]
          exact List.mem_map.mpr ⟨p, hp, rfl⟩)
        omega
      have hclk := hashDel_fold_clock fs s.clock hm
      apply inv_insert (vc := s.vclock) h
      · exact hclk.1
      · simp only
        split
        · omega
        · exact Nat.le_refl _
      · intro t ht
        simp only [RV.innerStamps, Crdt.innerStamps] at ht
        obtain ⟨p, hp, rfl⟩ := List.mem_map.mp ht
        simp only
        cases hfs : fs with
        | nil =>
          simp only [List.foldl_nil, List.isEmpty_nil, if_true]
          rw [hfs] at hp
          exact hrv.2 p.2.ts (by
            simp only [RV.innerStamps, hc, Crdt.innerStamps]
            exact List.mem_map.mpr ⟨p, hp, rfl⟩)
        | cons f fs' =>
          simp only [List.isEmpty_cons, Bool.false_eq_true, if_false]
          rw [← hfs]
          exact hashDel_fold_dom fs s.clock hm hh p hp
    · exact h

theorem inv_remote (s : Shard) (k : Nat) (d : RV) (h : s.Inv) (hd : d.Dominated) :
    (applyRemote s k d).Inv := by
  unfold applyRemote
  apply inv_insert (vc := s.vclock) h
  · simp only [Stamp.update_time]
    have := Nat.le_max_left s.clock.time d.ts.time; omega
  · simp only [Stamp.update_time]
    split
    · rename_i l hg
      rw [merge_ts_time]
      have hl := (dominated_of_get h hg).1
      have h1 : Max.max l.ts.time d.ts.time ≤ Max.max s.clock.time d.ts.time := by
        show Max.max l.ts.time d.ts.time ≤ Max.max s.clock.time d.ts.time
        omega
      omega
    · have := Nat.le_max_right s.clock.time d.ts.time; omega
  · split
    · rename_i l hg
      exact dominated_merge (dominated_of_get h hg).2 hd
    · exact hd

theorem inv_recovered (s : Shard) (k : Nat) (v : RV) (h : s.Inv) (hv : v.Dominated) :
    (applyRecovered s k v).Inv := by
  unfold applyRecovered applyRecoveredWith
  apply inv_insert (vc := s.vclock) h
  · simp only [if_true, Stamp.update_time]
    have := Nat.le_max_left s.clock.time v.ts.time; omega
  · simp only [if_true, Stamp.update_time]
    have := Nat.le_max_right s.clock.time v.ts.time; omega
  · exact hv

/-- **clock domination is preserved by every step** (local ops, remote deltas, recovery) -/
theorem inv_step (s : Shard) (op : Op) (h : s.Inv) (hop : OpOk op) : (step s op).1.Inv := by
  cases op with
  | write k v e => exact inv_write s k v e h
  | delete k => exact inv_delete s k h
  | hwrite k fs => exact inv_hwrite s k fs h
  | hdelete k fs => exact inv_hdelete s k fs h
  | remote k d => exact inv_remote s k d h hop
  | recovered k v => exact inv_recovered s k v h hop

theorem run_inv (s : Shard) (ops : List Op) (h : s.Inv) (hops : ∀ o ∈ ops, OpOk o) :
    (run s ops).Inv := by
  induction ops generalizing s with
  | nil => exact h
  | cons o ops ih =>
    exact ih (step s o).1 (inv_step s o h (hops o (by simp)))
      (fun x hx => hops x (by simp [hx]))

/-- **C08 (clock domination), every reachable state** -/
theorem reachable_inv : C08_clock_dominates := by
  intro rid causal ops hops
  exact run_inv _ ops (inv_init rid causal) hops

/-! ## issued stamps -/

/-- the delta of an effective local write is stamped with the new clock value, which is
    strictly later than the old one -/
theorem issued_stamp_is_new_clock (s : Shard) (op : Op) (he : effective s op = true) :
    ∃ d, (step s op).2 = some d ∧ d.ts = (step s op).1.clock ∧ s.clock.time < d.ts.time := by
  cases op with
  | write k v e =>
    exact ⟨_, rfl, rfl, by simp [step, recordWrite]⟩
  | hwrite k fs =>
    have hc := hwrite_clock s k fs
    simp only [effective, Bool.not_eq_true'] at he
    have hlen : 0 < fs.length := by
      cases fs with
      | nil => simp at he
      | cons _ _ => simp
    refine ⟨_, rfl, ?_, ?_⟩
    · exact hc.2.2 he
    · show s.clock.time < (recordHashWrite s k fs).2.ts.time
      rw [hc.2.2 he]
      omega
  | delete k =>
    simp only [effective] at he
    simp only [step]
    cases hg : NMap.get s.keys k with
    | none => simp [hg] at he
    | some rv =>
      rw [hg] at he
      simp only at he
      by_cases hc0 : rv.crdt.kind = 0
      · obtain ⟨r, hr⟩ := kind_lww hc0
        rw [recordDelete_lww hg hr]
        exact ⟨_, rfl, rfl, by simp⟩
      · by_cases hc5 : rv.crdt.kind = 5
        · obtain ⟨m, hm⟩ := kind_hash hc5
          rw [recordDelete_hash hg hm]
          exact ⟨_, rfl, rfl, by simp [delHashValue]⟩
        · exfalso
          cases hc : rv.crdt <;> rw [hc] at he hc0 hc5 <;> simp [Crdt.kind] at he hc0 hc5
  | hdelete k fs =>
    simp only [effective] at he
    simp only [step, recordHashDelete]
    split at he
    · rename_i rv hg
      split at he
      · rename_i hm hc
        rw [hg]
        simp only [hc]
        have hne : fs.isEmpty = false := by
          cases fs with
          | nil => simp at he
          | cons _ _ => rfl
        refine ⟨_, rfl, ?_, ?_⟩
        · simp [hne]
        · simp only [hne, Bool.false_eq_true, if_false]
          exact hashDel_fold_ticks fs s.clock hm he
      · cases he
    · cases he
  | remote k d => simp [effective] at he
  | recovered k v => simp [effective] at he

/-- **C08 (issued stamp beats everything held)**: the stamp of an effective local write is
    strictly greater than every stamp (outer and inner) of every value the node holds, for any
    key -/
theorem issued_stamp_gt_seen (s : Shard) (op : Op) (d : RV) (h : s.Inv)
    (he : effective s op = true) (hd : (step s op).2 = some d) :
    ∀ p ∈ s.keys, ∀ t ∈ p.2.allStamps, t.lt d.ts = true := by
  obtain ⟨d', hd', _, hlt⟩ := issued_stamp_is_new_clock s op he
  rw [hd] at hd'; cases hd'
  intro p hp t ht
  apply Stamp.lt_of_time_lt
  have := h.2 p hp
  simp only [RV.allStamps, List.mem_cons] at ht
  rcases ht with rfl | ht
  · omega
  · have := this.2 t ht; omega

/-- a stamp covered by the clock stays covered -/
theorem seen_stays_seen (s : Shard) (ops : List Op) (t : Stamp) (h : t.time ≤ s.clock.time) :
    t.time ≤ (run s ops).clock.time :=
  Nat.le_trans h (run_clock_monotone s ops)

/-- being handed a value (remote delta or recovered value) covers all its stamps -/
theorem observe_covers (s : Shard) (k : Nat) (v : RV) (o : Op) (hv : v.Dominated)
    (ho : o = .remote k v ∨ o = .recovered k v) :
    ∀ t ∈ v.allStamps, t.time < (step s o).1.clock.time := by
  intro t ht
  have htime : t.time ≤ v.ts.time := by
    simp only [RV.allStamps, List.mem_cons] at ht
    rcases ht with rfl | ht
    · exact Nat.le_refl _
    · exact hv t ht
  have hm := Nat.le_max_right s.clock.time v.ts.time
  rcases ho with rfl | rfl
  · simp only [step, applyRemote, Stamp.update_time]; omega
  · simp only [step, applyRecovered, applyRecoveredWith, if_true, Stamp.update_time]; omega

theorem run_append (s : Shard) (a b : List Op) : run s (a ++ b) = run (run s a) b := by
  simp [run, List.foldl_append]

/-- **C08 (newest write wins)**: across any history — any interleaving of local writes, remote
    deltas and recovered values before and after — a write acknowledged after the node was
    handed `v` carries a stamp strictly greater than every stamp of `v`. -/
theorem newest_write_wins : C08_newest_write_wins := by
  intro s pre post k v o w d _ hops ho s' he hd t ht
  have hv : v.Dominated := by
    have := hops o (by simp)
    rcases ho with rfl | rfl <;> exact this
  obtain ⟨d', hd', _, hlt⟩ := issued_stamp_is_new_clock s' w he
  rw [hd] at hd'; cases hd'
  apply Stamp.lt_of_time_lt
  have h1 := observe_covers (run s pre) k v o hv ho t ht
  have h2 : (step (run s pre) o).1.clock.time ≤ s'.clock.time := by
    show _ ≤ (run s (pre ++ o :: post)).clock.time
    rw [run_append]
    exact run_clock_monotone _ post
  omega

/-- stamps issued along a history, in order -/
def issued : Shard → List Op → List Stamp
  | _, [] => []
  | s, o :: ops =>
    match effective s o, (step s o).2 with
    | true, some d => d.ts :: issued (step s o).1 ops
    | _, _ => issued (step s o).1 ops

theorem issued_gt_clock (s : Shard) (ops : List Op) :
    ∀ t ∈ issued s ops, s.clock.time < t.time := by
  induction ops generalizing s with
  | nil => intro t ht; cases ht
  | cons o ops ih =>
    intro t ht
    simp only [issued] at ht
    have hmono := (clock_monotone s o).1
    split at ht
    · rename_i d he hd
      obtain ⟨d', hd', hclk, hlt⟩ := issued_stamp_is_new_clock s o he
      rw [hd] at hd'; cases hd'
      cases ht with
      | head => exact hlt
      | tail _ ht' => have := ih _ t ht'; omega
    · have := ih _ t ht; omega

/-- **C08 (stamps never repeat or decrease)**: the stamps a node issues along any history are
    strictly increasing (hence pairwise distinct) -/
theorem issued_strictly_increasing (s : Shard) (ops : List Op) :
    (issued s ops).Pairwise (fun a b => a.lt b = true) := by
  induction ops generalizing s with
  | nil => exact List.Pairwise.nil
  | cons o ops ih =>
    simp only [issued]
    split
    · rename_i d he hd
      obtain ⟨d', hd', hclk, _⟩ := issued_stamp_is_new_clock s o he
      rw [hd] at hd'; cases hd'
      refine List.Pairwise.cons ?_ (ih _)
      intro t ht
      apply Stamp.lt_of_time_lt
      have := issued_gt_clock _ ops t ht
      rw [hclk]; exact this
    · exact ih _

/-- **C08 (across restart)**: a new incarnation that recovers a value stamped `t` by the same
    node (own previously issued stamp, from checkpoint, segments or WAL — all arrive as
    `recovered` / `remote` ops) never issues a stamp ≤ `t` again. -/
theorem no_repeat_across_restart (rid : Nat) (causal : Bool) (pre post : List Op) (k : Nat)
    (v : RV) (o : Op) (hops : ∀ x ∈ pre ++ o :: post, OpOk x)
    (ho : o = .remote k v ∨ o = .recovered k v) :
    ∀ rest, ∀ t ∈ issued (run (Shard.init rid causal) (pre ++ o :: post)) rest,
      v.ts.lt t = true := by
  intro rest t ht
  have hv : v.Dominated := by
    have := hops o (by simp)
    rcases ho with rfl | rfl <;> exact this
  have h0 := issued_gt_clock _ rest t ht
  have h1 := observe_covers (run (Shard.init rid causal) pre) k v o hv ho v.ts (by simp [RV.allStamps])
  have h2 : (step (run (Shard.init rid causal) pre) o).1.clock.time
      ≤ (run (Shard.init rid causal) (pre ++ o :: post)).clock.time := by
    rw [run_append]
    exact run_clock_monotone _ post
  apply Stamp.lt_of_time_lt
  omega

/-! ## the newer write wins the merge, on every replica, both ways round -/

/-- a fresh LWW write (SET / DEL tombstone: register stamp = outer stamp) whose stamp beats every
    stamp of `a` supersedes `a` under merge in both argument orders, whatever `a`'s kind -/
theorem lww_write_supersedes (a d : RV) (r : Lww) (hd : d.crdt = .lww r) (hr : r.ts = d.ts)
    (hgt : ∀ t ∈ a.allStamps, t.lt d.ts = true) :
    (RV.merge a d).crdt = d.crdt ∧ (RV.merge d a).crdt = d.crdt
      ∧ (RV.merge a d).ts = d.ts ∧ (RV.merge d a).ts = d.ts := by
  have houter : a.ts.lt d.ts = true := hgt a.ts (by simp [RV.allStamps])
  have hnot : d.ts.lt a.ts = false := Stamp.lt_asymm houter
  refine ⟨?_, ?_, ?_, ?_⟩
  · simp only [RV.merge, RV.mergeWith, Crdt.mergeWithTimestamps, hd]
    cases hca : a.crdt <;> simp only [Crdt.tryMerge, houter, if_true]
    rename_i x
    have : x.ts.lt r.ts = true := by
      rw [hr]; exact hgt x.ts (by simp [RV.allStamps, RV.innerStamps, Crdt.innerStamps, hca])
    simp [Lww.merge, this]
  · simp only [RV.merge, RV.mergeWith, Crdt.mergeWithTimestamps, hd]
    cases hca : a.crdt <;> simp only [Crdt.tryMerge, hnot]
    · rename_i x
      have : x.ts.lt r.ts = true := by
        rw [hr]; exact hgt x.ts (by simp [RV.allStamps, RV.innerStamps, Crdt.innerStamps, hca])
      have h2 : r.ts.lt x.ts = false := Stamp.lt_asymm this
      simp [Lww.merge, h2]
    all_goals simp
  · simp [RV.merge, RV.mergeWith, RV.stampMerge, Stamp.max, houter]
  · simp [RV.merge, RV.mergeWith, RV.stampMerge, Stamp.max, hnot]

/-! ## the pinned commit violated the property (fixed) -/

/-- **Fixed defect C08:recovered-clock** — with `ApplyRecoveredState` not advancing the clock
    (`updClock = false`), a node that recovers its own value stamped (50, r1) from a checkpoint
    issues (1, r1) for the next write, and every replica keeps the pre-restart value. -/
theorem recovered_without_clock_update_counterexample :
    let old := RV.withValue [111] ⟨50, 1⟩
    let s := applyRecoveredWith false (Shard.init 1 false) 7 old
    let d := (recordWrite s 7 [110] none).2
    d.ts.lt old.ts = true ∧ (RV.merge old d).get = some [111] := by
  decide

/-! ## non-vacuity -/

example :
    let s := run (Shard.init 1 true)
      [.write 7 [1] none, .remote 7 (RV.withValue [2] ⟨9, 2⟩), .hwrite 8 [(1, [3]), (2, [4])],
       .recovered 9 (RV.withValue [5] ⟨40, 1⟩)]
    s.Inv ∧ effective s (.hdelete 8 [2]) = true ∧ effective s (.delete 7) = true
      ∧ s.clock.time = 41 := by
  decide

open ShardedNode

/-! ## FLUSHDB / FLUSHALL on a replicated shard -/

/-- **a flush keeps the clock**: after FLUSHDB/FLUSHALL (which leaves the replication state alone)
    the shard is still clock-dominated, and every write it acknowledges later — after any further
    history — is stamped strictly above every stamp it held before the flush -/
theorem flush_keeps_clock (s : Shard) (h : s.Inv) :
    (flush s).Inv ∧
    ∀ (post : List Op) (w : Op) (d : RV), effective (run (flush s) post) w = true →
      (step (run (flush s) post) w).2 = some d →
      ∀ p ∈ s.keys, ∀ t ∈ p.2.allStamps, t.lt d.ts = true := by
  have hf : flush s = s := by simp [flush, flushWith]
  rw [hf]
  refine ⟨h, ?_⟩
  intro post w d he hd p hp t ht
  obtain ⟨d', hd', _, hlt⟩ := issued_stamp_is_new_clock _ w he
  rw [hd] at hd'; cases hd'
  apply Stamp.lt_of_time_lt
  have ⟨h1, h2⟩ := h.2 p hp
  have htime : t.time ≤ s.clock.time := by
    simp only [RV.allStamps, List.mem_cons] at ht
    rcases ht with rfl | ht
    · exact h1
    · exact Nat.le_trans (h2 t ht) h1
  have := run_clock_monotone s post
  omega

/-- a flush that re-initialises the replication state (`*self = ShardReplicaState::new(..)`):
    SET k ×3 (stamps 1, 2, 3); FLUSHALL; SET k → acknowledged with (1, r) < (3, r); a peer that holds
    the third write keeps serving it -/
theorem flush_resets_clock_counterexample :
    let s := run (Shard.init 1 false) [.write 7 [97] none, .write 7 [98] none, .write 7 [99] none]
    let old := (NMap.get s.keys 7).getD (RV.new 1)
    let d := (recordWrite (flushWith true s) 7 [110] none).2
    old.ts = ⟨3, 1⟩ ∧ d.ts = ⟨1, 1⟩ ∧ d.ts.lt old.ts = true ∧ (RV.merge old d).get = some [99] := by
  decide

/-! ## node level: recovery of a whole `ReplicatedShardedState` -/

/-- the recovery messages shard `s` receives: its checkpoint entries, then its deltas -/
def shardRecoveryOps (route : Nat → Nat) (s : Nat) (ckpt deltas : List (Nat × RV)) : List Op :=
  (ckpt.filter (fun p => route p.1 = s)).map (fun p => Op.recovered p.1 p.2) ++
  (deltas.filter (fun p => route p.1 = s)).map (fun p => Op.remote p.1 p.2)

theorem getElem_onShard (nd : ShardedNode) (j s : Nat) (f : Shard → Shard) :
    (nd.onShard j f)[s]? = if j = s then (nd[s]?).map f else nd[s]? := by
  unfold onShard
  by_cases hj : j = s
  · subst hj
    cases hg : nd[j]? with
    | none => simp [hg]
    | some sh =>
      have hlt : j < nd.length := (List.getElem?_eq_some_iff.mp hg).1
      simp [hlt]
  · cases hg : nd[j]? with
    | none => simp [hj]
    | some sh => simp [hj, List.getElem?_set_ne hj]

/-- routing a list of per-key messages through `onShard` = each shard folds its own messages -/
theorem fold_onShard (route : Nat → Nat) (g : Nat × RV → Shard → Shard) (s : Nat)
    (l : List (Nat × RV)) : ∀ nd : ShardedNode,
    (l.foldl (fun nd p => nd.onShard (route p.1) (g p)) nd)[s]? =
      (nd[s]?).map (fun sh => (l.filter (fun p => route p.1 = s)).foldl (fun sh p => g p sh) sh) := by
  induction l with
  | nil => intro nd; simp
  | cons p l ih =>
    intro nd
    rw [List.foldl_cons, ih, getElem_onShard]
    by_cases hp : route p.1 = s
    · simp only [hp, if_true, List.filter_cons, decide_true, List.foldl_cons, Option.map_map]
      rfl
    · simp [hp, List.filter_cons]

theorem run_map_recovered (l : List (Nat × RV)) (sh : Shard) :
    l.foldl (fun sh p => sh.applyRecovered p.1 p.2) sh = run sh (l.map (fun p => Op.recovered p.1 p.2)) := by
  induction l generalizing sh with
  | nil => rfl
  | cons p l ih => simp only [List.foldl_cons, List.map_cons, run, step]; exact ih _

theorem run_map_remote (l : List (Nat × RV)) (sh : Shard) :
    l.foldl (fun sh p => sh.applyRemote p.1 p.2) sh = run sh (l.map (fun p => Op.remote p.1 p.2)) := by
  induction l generalizing sh with
  | nil => rfl
  | cons p l ih => simp only [List.foldl_cons, List.map_cons, run, step]; exact ih _

/-- after `apply_recovered_state` every shard has run exactly its own recovery messages -/
theorem recoverNode_shard (route : Nat → Nat) (nd : ShardedNode) (ckpt deltas : List (Nat × RV))
    (s : Nat) :
    (recoverNode false route nd ckpt deltas)[s]? =
      (nd[s]?).map (fun sh => run sh (shardRecoveryOps route s ckpt deltas)) := by
  unfold recoverNode
  simp only [Bool.false_and, Bool.false_eq_true, if_false]
  rw [fold_onShard route (fun p sh => sh.applyRemote p.1 p.2) s deltas,
    fold_onShard route (fun p sh => sh.applyRecovered p.1 p.2) s ckpt]
  cases nd[s]? with
  | none => rfl
  | some sh =>
    simp only [Option.map_some, shardRecoveryOps, run_append, run_map_recovered, run_map_remote]

/-- **C08 at node level (start-up recovery dominates)**: after
    `ReplicatedShardedState::apply_recovered_state(checkpoint, deltas)` on any node, for EVERY
    recovered value routed to shard `s` — live values, tombstones, hashes alike — every write that
    shard acknowledges afterwards (after any further history `post`) is stamped strictly above
    every stamp of that value. -/
theorem node_recovery_dominates (route : Nat → Nat) (nd : ShardedNode)
    (ckpt deltas : List (Nat × RV)) (hdom : ∀ p ∈ ckpt ++ deltas, p.2.Dominated)
    (s : Nat) (sh' : Shard) (hs : (recoverNode false route nd ckpt deltas)[s]? = some sh')
    (p : Nat × RV) (hp : p ∈ ckpt ++ deltas) (hr : route p.1 = s)
    (post : List Op) (w : Op) (d : RV)
    (he : effective (run sh' post) w = true) (hd : (step (run sh' post) w).2 = some d) :
    ∀ t ∈ p.2.allStamps, t.lt d.ts = true := by
  rw [recoverNode_shard] at hs
  cases hsh : nd[s]? with
  | none => rw [hsh] at hs; cases hs
  | some sh =>
    rw [hsh] at hs
    simp only [Option.map_some, Option.some.injEq] at hs
    subst hs
    -- the message of `p` occurs among the recovery messages of shard `s`
    have hmem : (Op.recovered p.1 p.2 ∈ shardRecoveryOps route s ckpt deltas) ∨
        (Op.remote p.1 p.2 ∈ shardRecoveryOps route s ckpt deltas) := by
      rcases List.mem_append.mp hp with hc | hdl
      · left
        exact List.mem_append_left _ (List.mem_map.mpr ⟨p, List.mem_filter.mpr ⟨hc, by simp [hr]⟩, rfl⟩)
      · right
        exact List.mem_append_right _ (List.mem_map.mpr ⟨p, List.mem_filter.mpr ⟨hdl, by simp [hr]⟩, rfl⟩)
    have hok : ∀ x ∈ shardRecoveryOps route s ckpt deltas, OpOk x := by
      intro x hx
      rcases List.mem_append.mp hx with hx | hx
      · obtain ⟨q, hq, rfl⟩ := List.mem_map.mp hx
        exact hdom q (List.mem_append_left _ (List.mem_filter.mp hq).1)
      · obtain ⟨q, hq, rfl⟩ := List.mem_map.mp hx
        exact hdom q (List.mem_append_right _ (List.mem_filter.mp hq).1)
    have key : ∀ o, o ∈ shardRecoveryOps route s ckpt deltas →
        (o = .remote p.1 p.2 ∨ o = .recovered p.1 p.2) → ∀ t ∈ p.2.allStamps, t.lt d.ts = true := by
      intro o ho hoo
      obtain ⟨pre, suf, hsplit⟩ := List.append_of_mem ho
      have hv : p.2.Dominated := hdom p hp
      have hcov := observe_covers (run sh pre) p.1 p.2 o hv hoo
      obtain ⟨d', hd', _, hlt⟩ := issued_stamp_is_new_clock _ w he
      rw [hd] at hd'; cases hd'
      intro t ht
      apply Stamp.lt_of_time_lt
      have h1 := hcov t ht
      have h2 : (step (run sh pre) o).1.clock.time ≤
          (run (run sh (shardRecoveryOps route s ckpt deltas)) post).clock.time := by
        rw [hsplit, run_append]
        show (step (run sh pre) o).1.clock.time ≤ (run (run (run sh pre) (o :: suf)) post).clock.time
        have : run (run sh pre) (o :: suf) = run (step (run sh pre) o).1 suf := rfl
        rw [this]
        exact Nat.le_trans (run_clock_monotone _ suf) (run_clock_monotone _ post)
      omega
    rcases hmem with hm | hm
    · exact key _ hm (Or.inr rfl)
    · exact key _ hm (Or.inl rfl)

/-- … hence such a write wins the merge on a peer that holds the recovered value -/
theorem node_recovery_write_wins (route : Nat → Nat) (nd : ShardedNode)
    (ckpt deltas : List (Nat × RV)) (hdom : ∀ p ∈ ckpt ++ deltas, p.2.Dominated)
    (s : Nat) (sh' : Shard) (hs : (recoverNode false route nd ckpt deltas)[s]? = some sh')
    (p : Nat × RV) (hp : p ∈ ckpt ++ deltas) (hr : route p.1 = s)
    (k : Nat) (v : Bytes) (e : Option Nat) :
    (RV.merge p.2 (recordWrite sh' k v e).2).crdt = (recordWrite sh' k v e).2.crdt ∧
    (RV.merge (recordWrite sh' k v e).2 p.2).crdt = (recordWrite sh' k v e).2.crdt := by
  have hgt := node_recovery_dominates route nd ckpt deltas hdom s sh' hs p hp hr []
    (.write k v e) (recordWrite sh' k v e).2 rfl rfl
  have := lww_write_supersedes p.2 (recordWrite sh' k v e).2 (Lww.set v sh'.clock.tick) rfl rfl hgt
  exact ⟨this.1, this.2.1⟩

/-- the variant that skips tombstones in the checkpoint loop ("deleted keys have nothing to
    restore"): SET k; SET k; DEL k (tombstone @3); checkpoint; restart; recover; SET k v3 is
    acknowledged with stamp (1, r) < (3, r), and a peer that holds the tombstone drops it -/
theorem node_recovery_skip_tombstones_counterexample :
    let tomb : RV := { crdt := .lww (Lww.delete ⟨3, 1⟩), vc := none, expiry := none, ts := ⟨3, 1⟩, rf := none }
    let nd := recoverNode true (fun k => k % 2) (ShardedNode.init 1 false 2) [(6, tomb)] []
    ∃ sh, nd[0]? = some sh ∧
      (recordWrite sh 6 [118] none).2.ts.lt tomb.ts = true ∧
      (RV.merge tomb (recordWrite sh 6 [118] none).2).get = none := by
  decide

/-- non-vacuity: a checkpoint with a live value, a tombstone and a hash spread over two shards,
    plus a delta; both shards' clocks end above everything recovered for them -/
example :
    let tomb : RV := { crdt := .lww (Lww.delete ⟨3, 1⟩), vc := none, expiry := none, ts := ⟨3, 1⟩, rf := none }
    let ckpt : List (Nat × RV) := [(6, tomb), (7, RV.withValue [1] ⟨9, 1⟩),
      (8, { RV.new 1 with crdt := .hash [(1, Lww.delete ⟨5, 1⟩)], ts := ⟨5, 1⟩ })]
    let deltas : List (Nat × RV) := [(6, RV.withValue [2] ⟨4, 2⟩)]
    let nd := recoverNode false (fun k => k % 2) (ShardedNode.init 1 false 2) ckpt deltas
    (∀ p ∈ ckpt ++ deltas, p.2.Dominated) ∧
      (nd[0]?).map (·.clock.time) = some 7 ∧ (nd[1]?).map (·.clock.time) = some 10 ∧
      ((nd[0]?).map (fun sh => (recordWrite sh 6 [118] none).2.ts.time)) = some 8 := by
  decide

end C08
end RedisVerif
