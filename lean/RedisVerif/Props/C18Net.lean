import RedisVerif.Lemmas.AENet
import RedisVerif.Lemmas.Converge
import RedisVerif.Props.C18

/-!
# C18, session level — `k` anti-entropy managers, ANY interleaving (session 4)

Model: `AE.Net` (`Model/AENet.lean`): any number of nodes, each with its `AntiEntropyManager`
(`AE.Mgr`) and its replicated state; every digest / request / response ever produced stays in a
register and may be consumed at any later time, any number of times, by any node; every action
carries an arbitrary `HashMap` iteration order; local writes between any two steps.  `Net.step`
composes exactly the `Mgr.*` functions the driver runs for the `M*` op lines; an interleaving is a
list of actions (`Net.run`).

What is proved, for EVERY list of actions (no bound on nodes, actions, keys; any per-round limit,
any requested bucket lists, any generations / stale digests; late, duplicated, reordered,
misdelivered, lost messages), for values in a carrier on which `ReplicatedValue::merge` is
associative, commutative and idempotent (C07: well-formed values, one CRDT kind per key, registers
from a consistent universe — `aci_rv`):

* `session_safe` — every node's state only GROWS in the merge order (nothing a node holds is ever
  lost or rolled back) and every in-flight answer stays below what some node currently holds;
* `session_conserves_join` — without local writes the merge of ALL nodes' states is INVARIANT, key
  by key: no step invents a value, no step loses one; the merge of the states the session started
  from is the only thing the session can converge to;
* `session_quiescent_is_merged` — if after the interleaving all nodes hold the same state, that
  state is, key by key, the merge of all initial states; `session_in_sync_is_merged`: the same
  when "the same state" is what the managers can observe — pairwise equal digests (`SipIdeal`);
* `pull_complete_joins` / `star_schedule_converges` — from ANY state the session can reach, a
  round of complete pulls (limit ≥ population: the known starvation finding is the other case)
  `0 ← 1, …, 0 ← k-1, 1 ← 0, …, k-1 ← 0` leaves the merge of all initial states on every node.
-/
namespace RedisVerif
namespace C18

open AE

/-! ## the invariant -/

/-- every store is well-formed with values in the carrier of their key; every delta of every
    response ever produced is in the carrier and below what SOME node currently holds -/
def NetInv' (C : Nat → RV → Prop) (nodes : List NetNode) (resps : List (Nat × Response)) : Prop :=
  (∀ nd ∈ nodes, StoreOK C nd.st)
  ∧ ∀ p ∈ resps, ∀ d ∈ p.2.deltas, C d.1 d.2 ∧ ∃ nd ∈ nodes, ole (some d.2) (NMap.get nd.st d.1)

def NetInv (C : Nat → RV → Prop) (net : Net) : Prop := NetInv' C net.nodes net.resps

/-- node by node, the state only grows -/
def Grows (a b : List NetNode) : Prop :=
  a.length = b.length ∧ ∀ (i : Nat) (nd nd' : NetNode), a[i]? = some nd → b[i]? = some nd' → StLe nd.st nd'.st

/-- a local write puts a value of the key's carrier -/
def ActOK (C : Nat → RV → Prop) : NetAct → Prop
  | .put _ k v => C k v
  | _ => True

/-- the merge of all nodes' values for key `k` -/
def joinOf (nodes : List NetNode) (k : Nat) : Option RV :=
  (nodes.map fun nd => NMap.get nd.st k).foldl (optMerge RV.merge) none

theorem joinAt_eq (net : Net) (k : Nat) : net.joinAt k = joinOf net.nodes k := rfl

section
variable {C : Nat → RV → Prop} (hC : ∀ k, ACI RV.merge (C k))
include hC

theorem inv_set {nodes : List NetNode} {resps : List (Nat × Response)} {n : Nat} {nd nd' : NetNode}
    (hi : NetInv' C nodes resps) (hn : nodes[n]? = some nd) (hst : StoreOK C nd'.st) (hle : StLe nd.st nd'.st) :
    NetInv' C (nodes.set n nd') resps := by
  have hnd : StoreOK C nd.st := hi.1 nd (List.mem_of_getElem? hn)
  refine ⟨?_, ?_⟩
  · intro x hx
    rcases mem_set_cases hx with rfl | hx
    · exact hst
    · exact hi.1 x hx
  · intro p hp d hd
    obtain ⟨hc, nd0, hnd0, hle0⟩ := hi.2 p hp d hd
    refine ⟨hc, ?_⟩
    rcases mem_set_of_mem (b := nd') hn hnd0 with h | h
    · exact ⟨nd0, h, hle0⟩
    · subst h
      exact ⟨nd', mem_set_self hn,
        (aci_opt (hC d.1)).le_trans (oc_some hc) (hnd.oc d.1) (hst.oc d.1) hle0 (hle d.1)⟩

theorem inv_add_resp {nodes : List NetNode} {resps : List (Nat × Response)} {rid : Nat} {r : Response}
    (hi : NetInv' C nodes resps) (hr : ∀ d ∈ r.deltas, ∃ nd ∈ nodes, NMap.get nd.st d.1 = some d.2) :
    NetInv' C nodes (putReg resps rid r) := by
  refine ⟨hi.1, ?_⟩
  intro p hp d hd
  rcases mem_putReg hp with rfl | hp
  · obtain ⟨nd, hnd, hg⟩ := hr d hd
    have hc : C d.1 d.2 := (hi.1 nd hnd).2 d.1 d.2 hg
    exact ⟨hc, nd, hnd, by rw [hg]; exact (aci_opt (hC d.1)).le_refl (oc_some hc)⟩
  · exact hi.2 p hp d hd

theorem grows_refl {nodes : List NetNode} (h : ∀ nd ∈ nodes, StoreOK C nd.st) : Grows nodes nodes := by
  refine ⟨rfl, ?_⟩
  intro i nd nd' h1 h2
  rw [h1] at h2; injection h2 with h2; subst h2
  exact stLe_refl hC (h nd (List.mem_of_getElem? h1))

theorem grows_set {nodes : List NetNode} {n : Nat} {nd nd' : NetNode} (h : ∀ x ∈ nodes, StoreOK C x.st)
    (hn : nodes[n]? = some nd) (hle : StLe nd.st nd'.st) : Grows nodes (nodes.set n nd') := by
  refine ⟨by rw [List.length_set], ?_⟩
  intro i x x' h1 h2
  by_cases hin : i = n
  · subst hin
    rw [hn] at h1; injection h1 with h1; subst h1
    have : (nodes.set i nd')[i]? = some nd' := by
      rw [List.getElem?_set_self]
      rcases Nat.lt_or_ge i nodes.length with h | h
      · exact h
      · rw [List.getElem?_eq_none h] at hn; cases hn
    rw [this] at h2; injection h2 with h2; subst h2
    exact hle
  · rw [List.getElem?_set_ne (Ne.symm hin)] at h2
    rw [h1] at h2; injection h2 with h2; subst h2
    exact stLe_refl hC (h x (List.mem_of_getElem? h1))

theorem grows_trans {a b c : List NetNode} (ha : ∀ x ∈ a, StoreOK C x.st) (hb : ∀ x ∈ b, StoreOK C x.st)
    (hc : ∀ x ∈ c, StoreOK C x.st) (h1 : Grows a b) (h2 : Grows b c) : Grows a c := by
  refine ⟨h1.1.trans h2.1, ?_⟩
  intro i x z hx hz
  have hlt : i < b.length := by
    rw [← h1.1]
    rcases Nat.lt_or_ge i a.length with h | h
    · exact h
    · rw [List.getElem?_eq_none h] at hx; cases hx
  have hy : b[i]? = some b[i] := List.getElem?_eq_getElem hlt
  exact stLe_trans hC (ha x (List.mem_of_getElem? hx)) (hb _ (List.mem_of_getElem? hy)) (hc z (List.mem_of_getElem? hz))
    (h1.2 i x _ hx hy) (h2.2 i _ z hy hz)

/-- replacing a node by one that grew but stays below the join leaves the join unchanged -/
theorem join_set {nodes : List NetNode} {n : Nat} {nd nd' : NetNode} (h : ∀ x ∈ nodes, StoreOK C x.st)
    (hn : nodes[n]? = some nd) (hst : StoreOK C nd'.st) (hle : StLe nd.st nd'.st)
    (k : Nat) (hb : ole (NMap.get nd'.st k) (joinOf nodes k)) :
    joinOf (nodes.set n nd') k = joinOf nodes k := by
  have h' : ∀ x ∈ nodes.set n nd', StoreOK C x.st := by
    intro x hx
    rcases mem_set_cases hx with rfl | hx
    · exact hst
    · exact h x hx
  apply (aci_opt (hC k)).le_antisymm (joinAt_oc hC h' k) (joinAt_oc hC h k)
  · apply joinAt_least hC h' k (joinAt_oc hC h k)
    intro x hx
    rcases mem_set_cases hx with rfl | hx
    · exact hb
    · exact joinAt_upper hC h k x hx
  · apply joinAt_least hC h k (joinAt_oc hC h' k)
    intro x hx
    rcases mem_set_of_mem (b := nd') hn hx with hx' | rfl
    · exact joinAt_upper hC h' k x hx'
    · exact (aci_opt (hC k)).le_trans ((h x hx).oc k) (hst.oc k) (joinAt_oc hC h' k) (hle k)
        (joinAt_upper hC h' k nd' (mem_set_self hn))

/-- a node whose STATE is untouched (only the manager's bookkeeping changed) -/
theorem step_same_st {nodes : List NetNode} {resps : List (Nat × Response)} {n : Nat} {nd nd' : NetNode}
    (hi : NetInv' C nodes resps) (hn : nodes[n]? = some nd) (hst : nd'.st = nd.st) :
    NetInv' C (nodes.set n nd') resps ∧ Grows nodes (nodes.set n nd')
      ∧ ∀ k, joinOf (nodes.set n nd') k = joinOf nodes k := by
  have hnd : StoreOK C nd.st := hi.1 nd (List.mem_of_getElem? hn)
  have hle : StLe nd.st nd'.st := by rw [hst]; exact stLe_refl hC hnd
  refine ⟨inv_set hC hi hn (hst ▸ hnd) hle, grows_set hC hi.1 hn hle, ?_⟩
  intro k
  unfold joinOf
  rw [map_set_same (fun nd => NMap.get nd.st k) hn (by simp only [hst])]

/-- a node that merged deltas each of which is below what some node holds -/
theorem step_merge {nodes : List NetNode} {resps : List (Nat × Response)} {n : Nat} {nd nd' : NetNode}
    {ds : List (Nat × RV)} (hi : NetInv' C nodes resps) (hn : nodes[n]? = some nd)
    (hst : nd'.st = applyDeltas nd.st ds) (hd : ∀ d ∈ ds, C d.1 d.2) :
    NetInv' C (nodes.set n nd') resps ∧ Grows nodes (nodes.set n nd')
      ∧ ((∀ d ∈ ds, ∃ x ∈ nodes, ole (some d.2) (NMap.get x.st d.1)) →
          ∀ k, joinOf (nodes.set n nd') k = joinOf nodes k) := by
  have hnd : StoreOK C nd.st := hi.1 nd (List.mem_of_getElem? hn)
  have ⟨h1, h2⟩ := applyDeltas_ok hC hnd hd
  rw [← hst] at h1 h2
  refine ⟨inv_set hC hi hn h1 h2, grows_set hC hi.1 hn h2, ?_⟩
  intro hbel k
  apply join_set hC hi.1 hn h1 h2 k
  rw [hst]
  revert k
  apply applyDeltas_below hC hnd hd (fun k => joinAt_oc hC hi.1 k)
  · intro k; exact joinAt_upper hC hi.1 k nd (List.mem_of_getElem? hn)
  · intro d hdm
    obtain ⟨x, hx, hle⟩ := hbel d hdm
    exact (aci_opt (hC d.1)).le_trans (oc_some (hd d hdm)) ((hi.1 x hx).oc d.1) (joinAt_oc hC hi.1 d.1) hle
      (joinAt_upper hC hi.1 d.1 x hx)

/-- **one action** keeps the invariant, only grows every node's state, and — unless it is a local
    write — leaves the merge of all states unchanged -/
theorem step_ok (H : Hasher) (net : Net) (act : NetAct) (hi : NetInv C net) (ha : ActOK C act) :
    NetInv C (net.step H act) ∧ Grows net.nodes (net.step H act).nodes
      ∧ (act.isPut = false → ∀ k, (net.step H act).joinAt k = net.joinAt k) := by
  have hrefl : NetInv C net ∧ Grows net.nodes net.nodes ∧ (act.isPut = false → ∀ k, net.joinAt k = net.joinAt k) :=
    ⟨hi, grows_refl hC hi.1, fun _ _ => rfl⟩
  cases act with
  | put n k v =>
    simp only [Net.step]
    cases hn : net.nodes[n]? with
    | none => exact hrefl
    | some nd =>
      have := step_merge hC (nd' := { nd with st := applyDelta nd.st (k, v), mgr := nd.mgr.onLocalWrite })
        (ds := [(k, v)]) hi hn rfl (by intro d hd; simp at hd; subst hd; exact ha)
      exact ⟨this.1, this.2.1, fun h => by cases h⟩
  | heal n peer =>
    simp only [Net.step]
    cases hn : net.nodes[n]? with
    | none => exact hrefl
    | some nd =>
      have := step_same_st hC (nd' := { nd with mgr := nd.mgr.onPartitionHealed peer }) hi hn rfl
      exact ⟨this.1, this.2.1, fun _ => this.2.2⟩
  | dig id n π =>
    simp only [Net.step]
    cases hn : net.nodes[n]? with
    | none => exact hrefl
    | some nd => exact hrefl
  | proc n id π =>
    simp only [Net.step]
    cases hn : net.nodes[n]? with
    | none => exact hrefl
    | some nd =>
      cases hd : net.digs.lookup id with
      | none => exact hrefl
      | some pd =>
        have := step_same_st hC (nd' := { nd with
          mgr := (nd.mgr.processPeerDigest pd (nd.mgr.generateDigest H π nd.st)).1,
          verdict := (nd.mgr.processPeerDigest pd (nd.mgr.generateDigest H π nd.st)).2 }) hi hn rfl
        exact ⟨this.1, this.2.1, fun _ => this.2.2⟩
  | req id n peer full now π =>
    simp only [Net.step]
    cases hn : net.nodes[n]? with
    | none => exact hrefl
    | some nd =>
      have := step_same_st hC (nd' := { nd with
        mgr := (nd.mgr.createSyncRequest peer (nd.mgr.generateDigest H π nd.st) (if full then none else nd.verdict) now).1 }) hi hn rfl
      exact ⟨this.1, this.2.1, fun _ => this.2.2⟩
  | handle rid n qid π =>
    simp only [Net.step]
    cases hn : net.nodes[n]? with
    | none => exact hrefl
    | some nd =>
      cases hq : net.reqs.lookup qid with
      | none => exact hrefl
      | some rq =>
        have h1 := step_same_st hC (nd' := { nd with mgr := (nd.mgr.handleSyncRequest H rq π nd.st).1 }) hi hn rfl
        refine ⟨?_, h1.2.1, fun _ => h1.2.2⟩
        apply inv_add_resp hC h1.1
        intro d hd
        refine ⟨_, mem_set_self hn, ?_⟩
        have hdl : (nd.mgr.handleSyncRequest H rq π nd.st).2.deltas
            = responseKeysWith currentRespOrder H currentStream (effectiveDepth currentDepthBound nd.mgr.depth)
                (effectiveLimit currentLimitAtLeastOne nd.mgr.limit) π nd.st rq.buckets := rfl
        rw [hdl] at hd
        exact mem_iter ((response_sublist_iter _ _ _ _ _ _ _ _).subset hd)
  | apply n rid =>
    simp only [Net.step]
    cases hn : net.nodes[n]? with
    | none => exact hrefl
    | some nd =>
      cases hr : net.resps.lookup rid with
      | none => exact hrefl
      | some rs =>
        have hmem := lookup_mem hr
        have := step_merge hC (nd' := { nd with st := applyDeltas nd.st rs.deltas }) (ds := rs.deltas) hi hn rfl
          (fun d hd => (hi.2 _ hmem d hd).1)
        exact ⟨this.1, this.2.1, fun _ => this.2.2 (fun d hd => (hi.2 _ hmem d hd).2)⟩

/-- **a local write is the ONLY way the session-wide merge changes, and it changes it by exactly
    the written value**: after `put n k v` on an existing node the merge of all states is
    `merge(before, v)` for key `k` and unchanged for every other key -/
theorem put_joins_exactly (H : Hasher) (net : Net) (n k : Nat) (v : RV) (nd : NetNode) (hi : NetInv C net)
    (hn : net.nodes[n]? = some nd) (hv : C k v) (k' : Nat) :
    (net.step H (.put n k v)).joinAt k'
      = if k' = k then optMerge RV.merge (net.joinAt k) (some v) else net.joinAt k' := by
  have hnd : StoreOK C nd.st := hi.1 nd (List.mem_of_getElem? hn)
  have hst' : StoreOK C (applyDelta nd.st (k, v)) := storeOK_applyDelta hC hnd hv
  have hle : StLe nd.st (applyDelta nd.st (k, v)) := stLe_applyDelta hC hnd hv
  simp only [Net.step, hn, joinAt_eq]
  have h' : ∀ x ∈ net.nodes.set n { nd with st := applyDelta nd.st (k, v), mgr := nd.mgr.onLocalWrite }, StoreOK C x.st := by
    intro x hx
    rcases mem_set_cases hx with rfl | hx
    · exact hst'
    · exact hi.1 x hx
  have hself := mem_set_self (l := net.nodes) (b := ({ nd with st := applyDelta nd.st (k, v), mgr := nd.mgr.onLocalWrite } : NetNode)) hn
  have hA := aci_opt (hC k')
  have hJ := joinAt_oc hC hi.1 k'
  have hJ' := joinAt_oc hC h' k'
  by_cases hk : k' = k
  · subst hk
    simp only [if_true]
    have hU : OC C k' (optMerge RV.merge (joinOf net.nodes k') (some v)) := hA.closed _ _ hJ (oc_some hv)
    apply hA.le_antisymm hJ' hU
    · apply joinAt_least hC h' k' hU
      intro x hx
      rcases mem_set_cases hx with rfl | hx
      · show ole (NMap.get (applyDelta nd.st (k', v)) k') _
        rw [get_applyDelta_opt]; simp only [if_true]
        exact hA.merge_le (hnd.oc k') (oc_some hv) hU
          (hA.le_trans (hnd.oc k') hJ hU (joinAt_upper hC hi.1 k' nd (List.mem_of_getElem? hn)) (hA.le_merge_left hJ (oc_some hv)))
          (hA.le_merge_right hJ (oc_some hv))
      · exact hA.le_trans ((hi.1 x hx).oc k') hJ hU (joinAt_upper hC hi.1 k' x hx) (hA.le_merge_left hJ (oc_some hv))
    · apply hA.merge_le hJ (oc_some hv) hJ'
      · apply joinAt_least hC hi.1 k' hJ'
        intro x hx
        rcases mem_set_of_mem (b := ({ nd with st := applyDelta nd.st (k', v), mgr := nd.mgr.onLocalWrite } : NetNode)) hn hx with hx' | rfl
        · exact joinAt_upper hC h' k' x hx'
        · exact hA.le_trans ((hi.1 x hx).oc k') (hst'.oc k') hJ' (hle k') (joinAt_upper hC h' k' _ hself)
      · have := joinAt_upper hC h' k' _ hself
        have hg : NMap.get (applyDelta nd.st (k', v)) k' = optMerge RV.merge (NMap.get nd.st k') (some v) := by
          rw [get_applyDelta_opt]; simp
        simp only [hg] at this
        exact hA.le_trans (oc_some hv) (hA.closed _ _ (hnd.oc k') (oc_some hv)) hJ' (hA.le_merge_right (hnd.oc k') (oc_some hv)) this
  · simp only [hk, if_false]
    apply join_set hC hi.1 hn hst' hle k'
    show ole (NMap.get (applyDelta nd.st (k, v)) k') _
    rw [get_applyDelta_opt]
    simp only [hk, if_false]
    exact joinAt_upper hC hi.1 k' nd (List.mem_of_getElem? hn)

/-! ## any interleaving -/

/-- **C18 (session safety)**: for ANY list of actions of ANY number of managers: every store
    stays well-formed in the carrier, every answer ever produced stays below what some node
    holds, and every node's state only grows — nothing a replica holds is ever lost, rolled back
    or replaced by something that is not a merge of what it had with what a peer held. -/
theorem session_safe (H : Hasher) (net : Net) (acts : List NetAct) (hi : NetInv C net)
    (ha : ∀ a ∈ acts, ActOK C a) :
    NetInv C (net.run H acts) ∧ Grows net.nodes (net.run H acts).nodes := by
  induction acts generalizing net with
  | nil => exact ⟨hi, grows_refl hC hi.1⟩
  | cons a as ih =>
    have h1 := step_ok hC H net a hi (ha a (by simp))
    have h2 := ih (net.step H a) h1.1 (fun b hb => ha b (by simp [hb]))
    exact ⟨h2.1, grows_trans hC hi.1 h1.1.1 h2.1.1 h1.2.1 h2.2⟩

/-- **C18 (the session conserves the merge)**: without local writes, after ANY list of actions
    the merge of all nodes' states is, key by key, what it was at the start. -/
theorem session_conserves_join (H : Hasher) (net : Net) (acts : List NetAct) (hi : NetInv C net)
    (hw : ∀ a ∈ acts, a.isPut = false) (k : Nat) :
    (net.run H acts).joinAt k = net.joinAt k := by
  induction acts generalizing net with
  | nil => rfl
  | cons a as ih =>
    have hok : ActOK C a := by
      have := hw a (by simp)
      cases a <;> simp [NetAct.isPut] at this <;> trivial
    have h1 := step_ok hC H net a hi hok
    have h2 := ih (net.step H a) h1.1 (fun b hb => hw b (by simp [hb]))
    exact h2.trans (h1.2.2 (hw a (by simp)) k)

/-- the merge of copies of one store is that store -/
theorem joinOf_all_equal {nodes : List NetNode} {X : NMap RV} (hX : StoreOK C X) (hne : nodes ≠ [])
    (h : ∀ nd ∈ nodes, nd.st = X) (k : Nat) : joinOf nodes k = NMap.get X k := by
  have hs : ∀ nd ∈ nodes, StoreOK C nd.st := fun nd hnd => by rw [h nd hnd]; exact hX
  apply (aci_opt (hC k)).le_antisymm (joinAt_oc hC hs k) (hX.oc k)
  · apply joinAt_least hC hs k (hX.oc k)
    intro nd hnd; rw [h nd hnd]; exact (aci_opt (hC k)).le_refl (hX.oc k)
  · obtain ⟨nd, hnd⟩ := List.exists_mem_of_ne_nil nodes hne
    have := joinAt_upper hC hs k nd hnd
    rw [h nd hnd] at this
    exact this

/-- **C18 (a quiescent session is merged)**: if, after ANY interleaving without local writes, all
    nodes hold the same state `X`, then `X` is key by key the merge of ALL the states the session
    started from: "all in sync" can only mean "everybody holds everything". -/
theorem session_quiescent_is_merged (H : Hasher) (net : Net) (acts : List NetAct) (hi : NetInv C net)
    (hw : ∀ a ∈ acts, a.isPut = false) (hne : net.nodes ≠ []) (X : NMap RV)
    (hq : ∀ nd ∈ (net.run H acts).nodes, nd.st = X) (k : Nat) :
    NMap.get X k = net.joinAt k := by
  have hs := session_safe hC H net acts hi (fun a ha => by
    have := hw a ha
    cases a <;> simp [NetAct.isPut] at this <;> trivial)
  have hne' : (net.run H acts).nodes ≠ [] := by
    intro h0
    have := hs.2.1
    rw [h0] at this
    exact hne (List.eq_nil_of_length_eq_zero this)
  obtain ⟨nd, hnd⟩ := List.exists_mem_of_ne_nil _ hne'
  have hX : StoreOK C X := by rw [← hq nd hnd]; exact hs.1.1 nd hnd
  rw [← session_conserves_join hC H net acts hi hw k, joinAt_eq, joinOf_all_equal hC hX hne' hq k]

end

/-! ## the carrier exists: `ReplicatedValue::merge` on one CRDT kind per key -/

/-- the carrier of C07 / C06: well-formed values of the kind `K k` assigned to key `k`, registers
    from a consistent universe `R` -/
def kindCarrier (K : Nat → Nat) (R : List (Nat × Lww)) : Nat → RV → Prop := fun k => InCarrier (K k) R

theorem kindCarrier_aci (K : Nat → Nat) (R : List (Nat × Lww)) (hR : RegsConsistent R) :
    ∀ k, ACI RV.merge (kindCarrier K R k) := fun k => aci_rv (K k) R hR

/-- `session_safe` / `session_conserves_join` / `session_quiescent_is_merged` for `ReplicatedValue::merge` -/
theorem session_quiescent_is_merged_rv (K : Nat → Nat) (R : List (Nat × Lww)) (hR : RegsConsistent R)
    (H : Hasher) (net : Net) (acts : List NetAct) (hi : NetInv (kindCarrier K R) net)
    (hw : ∀ a ∈ acts, a.isPut = false) (hne : net.nodes ≠ []) (X : NMap RV)
    (hq : ∀ nd ∈ (net.run H acts).nodes, nd.st = X) (k : Nat) :
    NMap.get X k = net.joinAt k :=
  session_quiescent_is_merged (kindCarrier_aci K R hR) H net acts hi hw hne X hq k

/-- a fresh session satisfies the invariant as soon as its stores do -/
theorem netInv_init (C : Nat → RV → Prop) (depth limit interval : Nat) (auto : Bool) (sts : List (NMap RV))
    (h : ∀ s ∈ sts, StoreOK C s) : NetInv C (Net.init depth limit interval auto sts) := by
  refine ⟨?_, ?_⟩
  · intro nd hnd
    simp only [Net.init, List.mem_map] at hnd
    obtain ⟨p, hp, rfl⟩ := hnd
    exact h p.1 (List.mem_zipIdx hp |>.2.2 ▸ List.getElem_mem _)
  · intro p hp; simp [Net.init] at hp

/-! ## liveness: a round of complete pulls converges, from any reachable state -/

theorem lookup_putReg {α : Type} (l : List (Nat × α)) (k : Nat) (v : α) : (putReg l k v).lookup k = some v := by
  simp [putReg]

theorem lt_of_getElem_some {α : Type} {l : List α} {n : Nat} {a : α} (h : l[n]? = some a) : n < l.length := by
  rcases Nat.lt_or_ge n l.length with h' | h'
  · exact h'
  · rw [List.getElem?_eq_none h'] at h; cases h

theorem step_length (H : Hasher) (net : Net) (act : NetAct) : (net.step H act).nodes.length = net.nodes.length := by
  cases act <;> simp only [Net.step] <;> repeat' split
  all_goals first | rfl | simp only [List.length_set]

theorem run_length (H : Hasher) (net : Net) (acts : List NetAct) : (net.run H acts).nodes.length = net.nodes.length := by
  induction acts generalizing net with
  | nil => rfl
  | cons a as ih => exact (ih (net.step H a)).trans (step_length H net a)

/-- the five actions of a full-state pull `r ← p` (ANY registers, ANY clock value, ANY iteration
    order of the requester, a valid one of the responder) whose limit covers the responder's state:
    node `r` merges every entry of `p`'s state, no other state changes -/
theorem full_pull_state (H : Hasher) (net : Net) (id r p pRid now : Nat) (πr πp : List Nat) (ndr ndp : NetNode)
    (hr : net.nodes[r]? = some ndr) (hp : net.nodes[p]? = some ndp) (hrp : r ≠ p)
    (hwf : NMap.WF ndp.st) (hπ : ValidOrder πp ndp.st)
    (hl : ndp.st.length ≤ effectiveLimit currentLimitAtLeastOne ndp.mgr.limit) (i : Nat) :
    ((net.run H (pullActs id r p pRid true now πr πp)).nodes[i]?).map (·.st)
      = if i = r then some (applyDeltas ndr.st (iter πp ndp.st)) else (net.nodes[i]?).map (·.st) := by
  have hrl := lt_of_getElem_some hr
  have hpl := lt_of_getElem_some hp
  have hlen : (iter πp ndp.st).length ≤ effectiveLimit currentLimitAtLeastOne ndp.mgr.limit := by
    rw [(iter_valid_perm hwf hπ).length_eq]; exact hl
  simp only [Net.run, pullActs, List.foldl_cons, List.foldl_nil, Net.step, hr, hp, lookup_putReg,
    List.getElem?_set_self, List.getElem?_set_ne, hrl, hrp, Ne.symm hrp, ne_eq, not_false_eq_true,
    if_true, List.set_set]
  have hd : ∀ (m : Mgr) (rq : Request), rq.buckets = none → m.limit = ndp.mgr.limit →
      (Mgr.handleSyncRequest H m rq πp ndp.st).2.deltas = iter πp ndp.st := by
    intro m rq hb hm
    show responseKeysWith currentRespOrder H currentStream _ (effectiveLimit currentLimitAtLeastOne m.limit) πp ndp.st rq.buckets = _
    rw [hb, hm]; simp only [responseKeysWith]; exact List.take_of_length_le hlen
  rw [hd _ _ rfl rfl]
  by_cases hi : i = r
  · subst hi
    rw [List.getElem?_set_self (by simp only [List.length_set]; exact hrl)]
    simp
  · rw [List.getElem?_set_ne (Ne.symm hi)]
    by_cases hip : i = p
    · subst hip
      rw [List.getElem?_set_self (by simp only [List.length_set]; exact hpl)]
      simp [hi, hp]
    · rw [List.getElem?_set_ne (Ne.symm hip), List.getElem?_set_ne (Ne.symm hi)]
      simp [hi]

/-- the value node `i` holds for key `k` -/
def valAt (nodes : List NetNode) (i k : Nat) : Option RV :=
  match nodes[i]? with
  | some nd => NMap.get nd.st k
  | none => none

/-- a complete full-state pull `r ← p`: the five protocol actions, limit ≥ the responder's state -/
inductive FullPull (H : Hasher) (r p : Nat) : Net → Net → Prop where
  | mk (net : Net) (id pRid now : Nat) (πr πp : List Nat) (ndr ndp : NetNode)
      (hr : net.nodes[r]? = some ndr) (hp : net.nodes[p]? = some ndp) (hrp : r ≠ p)
      (hwf : NMap.WF ndp.st) (hπ : ValidOrder πp ndp.st)
      (hl : ndp.st.length ≤ effectiveLimit currentLimitAtLeastOne ndp.mgr.limit) :
      FullPull H r p net (net.run H (pullActs id r p pRid true now πr πp))

/-- what one complete pull does to the values: `r` holds `merge(own, p's)`, nothing else moves -/
def pullV (V : Nat → Nat → Option RV) (r p : Nat) : Nat → Nat → Option RV :=
  fun i k => if i = r then optMerge RV.merge (V r k) (V p k) else V i k

theorem fullPull_vals {H : Hasher} {r p : Nat} {net net' : Net} (h : FullPull H r p net net') :
    net'.nodes.length = net.nodes.length ∧ ∀ i k, valAt net'.nodes i k = pullV (valAt net.nodes) r p i k := by
  cases h with
  | mk id pRid now πr πp ndr ndp hr hp hrp hwf hπ hl =>
    refine ⟨run_length H net _, ?_⟩
    intro i k
    have hst := full_pull_state H net id r p pRid now πr πp ndr ndp hr hp hrp hwf hπ hl i
    unfold pullV valAt
    by_cases hi : i = r
    · subst hi
      simp only [if_true] at hst ⊢
      rw [hr, hp]
      cases hx : (net.run H (pullActs id i p pRid true now πr πp)).nodes[i]? with
      | none => rw [hx] at hst; simp at hst
      | some x =>
        rw [hx] at hst
        simp only [Option.map_some, Option.some.injEq] at hst
        simp only [hst]
        rw [get_applyDeltas _ _ _ (iter_keys_nodup hwf hπ), lookup_iter hwf hπ]
        cases h1 : NMap.get ndp.st k <;> cases h2 : NMap.get ndr.st k <;> simp [optMerge, mergeInto]
    · simp only [hi, if_false] at hst ⊢
      cases hx : (net.run H (pullActs id r p pRid true now πr πp)).nodes[i]? with
      | none =>
        rw [hx] at hst
        cases hy : net.nodes[i]? with
        | none => rfl
        | some y => rw [hy] at hst; simp at hst
      | some x =>
        rw [hx] at hst
        cases hy : net.nodes[i]? with
        | none => rw [hy] at hst; simp at hst
        | some y =>
          rw [hy] at hst
          simp only [Option.map_some, Option.some.injEq] at hst
          simp only [hst]

/-- a sequence of complete pulls, `(r, p)` = `r ← p` -/
inductive PullChain (H : Hasher) : List (Nat × Nat) → Net → Net → Prop where
  | nil (net : Net) : PullChain H [] net net
  | cons {r p : Nat} {rest : List (Nat × Nat)} {net net' net'' : Net} :
      FullPull H r p net net' → PullChain H rest net' net'' → PullChain H ((r, p) :: rest) net net''

theorem pullChain_vals {H : Hasher} {pairs : List (Nat × Nat)} {net net' : Net} (h : PullChain H pairs net net') :
    net'.nodes.length = net.nodes.length
    ∧ ∀ i k, valAt net'.nodes i k = pairs.foldl (fun V q => pullV V q.1 q.2) (valAt net.nodes) i k := by
  induction h with
  | nil net => exact ⟨rfl, fun _ _ => rfl⟩
  | cons hf _ ih =>
    have h1 := fullPull_vals hf
    refine ⟨ih.1.trans h1.1, ?_⟩
    intro i k
    rw [ih.2 i k]
    simp only [List.foldl_cons]
    have : valAt _ = pullV (valAt _) _ _ := funext fun i => funext fun k => h1.2 i k
    rw [this]

theorem foldl_congr_mem {α β : Type} {f g : β → α → β} {l : List α} (h : ∀ acc, ∀ x ∈ l, f acc x = g acc x) (a : β) :
    l.foldl f a = l.foldl g a := by
  induction l generalizing a with
  | nil => rfl
  | cons x xs ih =>
    simp only [List.foldl_cons]
    rw [h a x (by simp)]
    exact ih (fun acc y hy => h acc y (by simp [hy])) _

/-- phase 1 of the star: node 0 pulls from each node of `L` (none of them node 0) -/
theorem star_phase1 (L : List Nat) (hL : ∀ p ∈ L, p ≠ 0) (V : Nat → Nat → Option RV) :
    ∀ i k, (L.map fun p => ((0 : Nat), p)).foldl (fun V q => pullV V q.1 q.2) V i k
      = if i = 0 then L.foldl (fun acc p => optMerge RV.merge acc (V p k)) (V 0 k) else V i k := by
  induction L generalizing V with
  | nil => intro i k; by_cases hi : i = 0 <;> simp [hi]
  | cons p ps ih =>
    intro i k
    have hp0 : p ≠ 0 := hL p (by simp)
    simp only [List.map_cons, List.foldl_cons]
    rw [ih (fun q hq => hL q (by simp [hq]))]
    by_cases hi : i = 0
    · simp only [hi, if_true]
      have h0 : pullV V 0 p 0 k = optMerge RV.merge (V 0 k) (V p k) := by simp [pullV]
      rw [h0]
      apply foldl_congr_mem
      intro acc q hq
      have hq0 : q ≠ 0 := hL q (by simp [hq])
      simp [pullV, hq0]
    · simp [hi, pullV]

/-- phase 2 of the star: each node of `L` (distinct, none of them node 0) pulls from node 0 -/
theorem star_phase2 (L : List Nat) (hL : ∀ p ∈ L, p ≠ 0) (hn : L.Nodup) (V : Nat → Nat → Option RV) :
    ∀ i k, (L.map fun p => (p, (0 : Nat))).foldl (fun V q => pullV V q.1 q.2) V i k
      = if i ∈ L then optMerge RV.merge (V i k) (V 0 k) else V i k := by
  induction L generalizing V with
  | nil => intro i k; simp
  | cons p ps ih =>
    intro i k
    have hp0 : p ≠ 0 := hL p (by simp)
    rw [List.nodup_cons] at hn
    simp only [List.map_cons, List.foldl_cons]
    rw [ih (fun q hq => hL q (by simp [hq])) hn.2]
    by_cases hi : i ∈ ps
    · have hip : i ≠ p := fun h => hn.1 (h ▸ hi)
      simp [hi, pullV, hip, Ne.symm hp0]
    · by_cases hip : i = p
      · subst hip; simp [hi, pullV]
      · simp [hi, hip, pullV]

/-- the star schedule over `n` nodes: `0 ← 1, …, 0 ← n-1`, then `1 ← 0, …, n-1 ← 0` -/
def starPairs (n : Nat) : List (Nat × Nat) :=
  ((List.range' 1 (n - 1)).map fun p => ((0 : Nat), p)) ++ ((List.range' 1 (n - 1)).map fun p => (p, (0 : Nat)))

theorem joinOf_eq_fold_range {nodes : List NetNode} (k : Nat) :
    joinOf nodes k = (List.range nodes.length).foldl (fun acc p => optMerge RV.merge acc (valAt nodes p k)) none := by
  unfold joinOf
  have : nodes.map (fun nd => NMap.get nd.st k) = (List.range nodes.length).map (fun p => valAt nodes p k) := by
    apply List.ext_getElem
    · simp
    · intro i h1 h2
      simp only [List.length_map] at h1
      simp [valAt, List.getElem?_eq_getElem h1]
  rw [this, List.foldl_map]

section
variable {C : Nat → RV → Prop} (hC : ∀ k, ACI RV.merge (C k))
include hC

/-- **C18 (a fair round converges)**: from a session state satisfying the invariant — by
    `session_safe`, ANY state an arbitrary interleaving can reach — the star schedule of complete
    full-state pulls (`0 ← 1, …, 0 ← n-1, 1 ← 0, …, n-1 ← 0`; "complete" = the per-round limit
    covers the responder's state, the other case being the recorded starvation finding) leaves on
    EVERY node, for every key, the merge of all nodes' states. -/
theorem star_schedule_converges (H : Hasher) (net net' : Net) (hi : NetInv C net)
    (hne : 1 ≤ net.nodes.length) (hch : PullChain H (starPairs net.nodes.length) net net') :
    ∀ nd ∈ net'.nodes, ∀ k, NMap.get nd.st k = net.joinAt k := by
  have ⟨hlen, hv⟩ := pullChain_vals hch
  intro nd hnd k
  obtain ⟨i, hil, rfl⟩ := List.getElem_of_mem hnd
  have hil' : i < net.nodes.length := hlen ▸ hil
  have hval : valAt net'.nodes i k = NMap.get net'.nodes[i].st k := by
    simp [valAt, List.getElem?_eq_getElem hil]
  rw [← hval, hv i k, joinAt_eq]
  obtain ⟨n, hn⟩ : ∃ n, n = net.nodes.length := ⟨_, rfl⟩
  obtain ⟨V, hV⟩ : ∃ V, V = valAt net.nodes := ⟨_, rfl⟩
  rw [← hn, ← hV]
  rw [← hn] at hil' hne
  have hLne : ∀ p ∈ List.range' 1 (n - 1), p ≠ 0 := by
    intro p hp; have := (List.mem_range'_1.mp hp).1; omega
  have hLnd : (List.range' 1 (n - 1)).Nodup := List.nodup_range'
  unfold starPairs
  rw [List.foldl_append, star_phase2 _ hLne hLnd]
  -- the join, as node 0 holds it after phase 1
  have hJ : ∀ k, (List.map (fun p => ((0 : Nat), p)) (List.range' 1 (n - 1))).foldl (fun V q => pullV V q.1 q.2) V 0 k
      = joinOf net.nodes k := by
    intro k
    rw [star_phase1 _ hLne V 0 k]
    simp only [if_true]
    rw [joinOf_eq_fold_range k, ← hn]
    have hr : List.range n = 0 :: List.range' 1 (n - 1) := by
      rw [List.range_eq_range']
      have : n = (n - 1) + 1 := by omega
      conv => lhs; rw [this]
      rw [List.range'_succ]
    rw [hr, List.foldl_cons]
    have : optMerge RV.merge none (valAt net.nodes 0 k) = V 0 k := by
      rw [hV]; cases valAt net.nodes 0 k <;> rfl
    rw [this, hV]
  have hVoc : ∀ j k, OC C k (V j k) := by
    intro j k
    rw [hV]; unfold valAt
    cases hj : net.nodes[j]? with
    | none => exact oc_none C k
    | some x => exact (hi.1 x (List.mem_of_getElem? hj)).oc k
  have hVle : ∀ j k, ole (V j k) (joinOf net.nodes k) := by
    intro j k
    rw [hV]; unfold valAt
    cases hj : net.nodes[j]? with
    | none => exact ole_none _
    | some x => exact joinAt_upper hC hi.1 k x (List.mem_of_getElem? hj)
  have hV1 : ∀ j, j ≠ 0 → (List.map (fun p => ((0 : Nat), p)) (List.range' 1 (n - 1))).foldl (fun V q => pullV V q.1 q.2) V j k = V j k := by
    intro j hj
    rw [star_phase1 _ hLne V j k]; simp [hj]
  by_cases hmem : i ∈ List.range' 1 (n - 1)
  · have hi0 : i ≠ 0 := hLne i hmem
    simp only [hmem, if_true]
    rw [hJ k, hV1 i hi0]
    exact hVle i k
  · have hi0 : i = 0 := by
      have : ¬ (1 ≤ i ∧ i < 1 + (n - 1)) := fun h => hmem (List.mem_range'_1.mpr h)
      omega
    simp only [hmem, if_false]
    rw [hi0]; exact hJ k

/-- … in particular after ANY write-free interleaving: the nodes then all hold the merge of the
    states the session STARTED from -/
theorem session_then_star_converges (H : Hasher) (net : Net) (acts : List NetAct) (net' : Net)
    (hi : NetInv C net) (hw : ∀ a ∈ acts, a.isPut = false) (hne : 1 ≤ net.nodes.length)
    (hch : PullChain H (starPairs net.nodes.length) (net.run H acts) net') :
    ∀ nd ∈ net'.nodes, ∀ k, NMap.get nd.st k = net.joinAt k := by
  have hs := session_safe hC H net acts hi (fun a ha => by
    have := hw a ha
    cases a <;> simp [NetAct.isPut] at this <;> trivial)
  have hl := run_length H net acts
  intro nd hnd k
  rw [← session_conserves_join hC H net acts hi hw k]
  exact star_schedule_converges hC H (net.run H acts) net' hs.1 (by rw [hl]; exact hne) (by rw [hl]; exact hch) nd hnd k

end

/-! ## composition with routing (C19): an update that missed an owner -/

/-- **C18 ∘ C19 (anti-entropy closes the gap a stale routing view leaves)**: an update `δ` for key
    `k` that ANY node of the session holds (`δ ≤` its value — the sender always holds its own
    write, whoever its router did or did not hand it to, `C19.stale_view_starved_owner_is_new`) is
    held by EVERY node after any write-free interleaving followed by a fair round of complete
    pulls; and at every moment before that it is still held by the node that held it
    (`session_safe`: states only grow). -/
theorem update_held_by_one_reaches_all {C : Nat → RV → Prop} (hC : ∀ k, ACI RV.merge (C k))
    (H : Hasher) (net : Net) (acts : List NetAct) (net' : Net)
    (hi : NetInv C net) (hw : ∀ a ∈ acts, a.isPut = false) (hne : 1 ≤ net.nodes.length)
    (hch : PullChain H (starPairs net.nodes.length) (net.run H acts) net')
    (k : Nat) (δ : RV) (hδ : C k δ) (holder : NetNode) (hh : holder ∈ net.nodes)
    (hle : ole (some δ) (NMap.get holder.st k)) :
    ∀ nd ∈ net'.nodes, ole (some δ) (NMap.get nd.st k) := by
  intro nd hnd
  rw [session_then_star_converges hC H net acts net' hi hw hne hch nd hnd k, joinAt_eq]
  exact (aci_opt (hC k)).le_trans (oc_some hδ) ((hi.1 holder hh).oc k) (joinAt_oc hC hi.1 k) hle
    (joinAt_upper hC hi.1 k holder hh)

/-! ## the two-node exchange, hypotheses revisited

  `sync_converges_partial` (Props/C18.lean) lists: `Ideal H`, `StreamOK vs` (properties of the hash
  and of the byte stream — discharged for the current tree by `ideal_sip_hasher` /
  `streamOK_byteStream` from `SipIdeal`), well-formedness and valid iteration orders (true of
  every `HashMap`), "the digests differ", "the limit covers either side's candidate keys", and
  tie-consistency on the common keys (C07).  The exchange is bidirectional BY CONSTRUCTION
  (`AE.exchange` applies both delta sets crosswise, as `run_anti_entropy_sync` does): that is not
  a hypothesis.  "The digests differ" is removed here — when they do not, nothing is exchanged and
  the digests computed afterwards, in whatever new iteration orders, are equal again.  The limit
  hypothesis cannot go: below the candidate population the same prefix is answered every round
  (`sync_terminates_counterexample`, the recorded finding). -/

/-- **C18 (one round leaves the pair in sync), without "the digests differ"** -/
theorem sync_converges_any_digests (arr : Arrange) (harr : ArrOK arr) (H : Hasher) (vs : ValueStream) (depth limit : Nat)
    (πa πb π1 π2 : List Nat) (a b : NMap RV)
    (hI : Ideal H) (hvs : StreamOK vs) (ha : NMap.WF a) (hb : NMap.WF b) (hπa : ValidOrder πa a) (hπb : ValidOrder πb b)
    (hla : (candidates H depth πa a (divergentBuckets (fromState H true vs depth πa a) (fromState H true vs depth πb b))).length ≤ limit)
    (hlb : (candidates H depth πb b (divergentBuckets (fromState H true vs depth πa a) (fromState H true vs depth πb b))).length ≤ limit)
    (htie : ∀ k u v, NMap.get a k = some u → NMap.get b k = some v → u.WF ∧ v.WF ∧ C07.TieConsistent u v)
    (h1 : ValidOrder π1 (syncRoundWith arr H true vs depth limit πa πb a b).1)
    (h2 : ValidOrder π2 (syncRoundWith arr H true vs depth limit πa πb a b).2) :
    differsFrom (fromState H true vs depth π1 (syncRoundWith arr H true vs depth limit πa πb a b).1)
      (fromState H true vs depth π2 (syncRoundWith arr H true vs depth limit πa πb a b).2) = false := by
  cases hd : differsFrom (fromState H true vs depth πa a) (fromState H true vs depth πb b) with
  | true => exact sync_converges_partial arr harr H vs depth limit πa πb π1 π2 a b hI hvs ha hb hπa hπb hd hla hlb htie h1 h2
  | false =>
    have hr : syncRoundWith arr H true vs depth limit πa πb a b = (a, b) := by
      unfold syncRoundWith; simp [hd]
    rw [hr] at h1 h2 ⊢
    simp only [] at h1 h2 ⊢
    rw [digest_order_independent H vs depth π1 πa a h1 hπa, digest_order_independent H vs depth π2 πb b h2 hπb]
    exact hd

/-! ## the ideal-hash hypothesis and the REAL hash (session 4)

  "Equal digests iff equal states" is proved under `SipIdeal sip` (the one 64-bit byte hash is
  collision-free).  No 64-bit function is, and for SipHash-1-3 with the fixed zero key a collision
  inside the property's quantifier can be COMPUTED (distinguished-point search, ≈ 2³² evaluations,
  two minutes): two values that differ only in `expiry_ms` with the same `KeyDigest.value_hash`.
  The kernel evaluates the model's transcription of the hasher on both. -/

def collV1 : RV := { RV.withValue [118] ⟨1, 1⟩ with expiry := some 7186234069774404105 }
def collV2 : RV := { RV.withValue [118] ⟨1, 1⟩ with expiry := some 11093851672895297929 }

set_option maxRecDepth 20000 in
/-- `KeyDigest::new(k, SET k v PX 7186234069774404105 @(1, r1)).value_hash
     = KeyDigest::new(k, SET k v PX 11093851672895297929 @(1, r1)).value_hash` -/
theorem sip13_value_hash_collision :
    currentHasher.val (currentStream collV1) = 11078082544913061200
    ∧ currentHasher.val (currentStream collV2) = 11078082544913061200
    ∧ collV1 ≠ collV2 ∧ currentStream collV1 ≠ currentStream collV2 := by
  decide

/-- the hypothesis of `digest_iff_state_eq_current` is FALSE for the real hash -/
theorem sip13_not_ideal : ¬ SipIdeal Sip.sip13 := by
  intro h
  have hc := sip13_value_hash_collision
  have : currentStream collV1 = currentStream collV2 := h.inj _ _ (by
    have h1 := hc.1; have h2 := hc.2.1
    unfold currentHasher sipHasher at h1 h2
    simp only [] at h1 h2
    rw [h1, h2])
  exact hc.2.2.2 this

/-- a single-key state: the digest is a function of the key digest -/
theorem fromState_singleton_congr (H : Hasher) (vs : ValueStream) (depth k : Nat) (v w : RV)
    (h : keyDigest H vs k v = keyDigest H vs k w) :
    fromState H true vs depth [k] [(k, v)] = fromState H true vs depth [k] [(k, w)] := by
  have hb : ∀ b, bucketDigests H vs depth [k] [(k, v)] b = bucketDigests H vs depth [k] [(k, w)] b := by
    intro b
    simp [bucketDigests, iter, NMap.get, h]
  unfold fromState
  simp only [hb]

/-- **never a false "in sync" — refuted for the real hash by a real pair of states**: the
    single-key states `{h ↦ collV1}` and `{h ↦ collV2}` differ (in the expiry) and have EQUAL
    digests at EVERY depth — two replicas holding them report "in sync" for ever, and no bucket is
    ever requested (known finding `C18:digest:false-in-sync:sip13-collision`, replayed on the real
    code on every run).  The theorems of this property hold for the states on which the hash does
    not collide; this is the (astronomically sparse, but non-empty) rest. -/
theorem digest_false_in_sync_sip13_counterexample (depth k : Nat) :
    ([(k, collV1)] : NMap RV) ≠ [(k, collV2)]
    ∧ digest currentHasher depth [k] [(k, collV1)] = digest currentHasher depth [k] [(k, collV2)]
    ∧ differsFrom (digest currentHasher depth [k] [(k, collV1)]) (digest currentHasher depth [k] [(k, collV2)]) = false
    ∧ divergentBuckets (digest currentHasher depth [k] [(k, collV1)]) (digest currentHasher depth [k] [(k, collV2)]) = [] := by
  have hc := sip13_value_hash_collision
  have hkd : keyDigest currentHasher currentStream k collV1 = keyDigest currentHasher currentStream k collV2 := by
    unfold keyDigest
    rw [hc.1, hc.2.1]
    rfl
  have heq : digest currentHasher depth [k] [(k, collV1)] = digest currentHasher depth [k] [(k, collV2)] :=
    fromState_singleton_congr currentHasher currentStream depth k collV1 collV2 hkd
  refine ⟨?_, heq, ?_, ?_⟩
  · intro h
    injection h with h _
    injection h with _ h
    exact hc.2.2.1 h
  · rw [heq]; simp [differsFrom]
  · rw [heq]
    unfold divergentBuckets
    simp
    intro a ha
    have hl : (List.range (digest currentHasher depth [k] [(k, collV2)]).buckets.length).length
        ≤ (digest currentHasher depth [k] [(k, collV2)]).buckets.length := by simp
    rw [List.drop_of_length_le hl] at ha
    cases ha

/-! ## what the managers can observe: equal digests -/

/-- **C18 (in sync, as the managers see it, means merged)**: ideal byte hash, one configured depth.
    If after ANY write-free interleaving every node's digest equals node `nd₀`'s (whatever the
    iteration orders the digests were computed in), then every node holds, for every key, the merge
    of all the states the session started from. -/
theorem session_in_sync_is_merged {C : Nat → RV → Prop} (hC : ∀ k, ACI RV.merge (C k))
    (sip : List Nat → Nat) (hsip : SipIdeal sip) (depth : Nat)
    (net : Net) (acts : List NetAct) (hi : NetInv C net) (hw : ∀ a ∈ acts, a.isPut = false)
    (ord : NetNode → List Nat)
    (hord : ∀ nd ∈ (net.run (sipHasher sip HB.keyStr) acts).nodes, ValidOrder (ord nd) nd.st)
    (hval : ∀ nd ∈ (net.run (sipHasher sip HB.keyStr) acts).nodes, ValuesOK HB.keyStr nd.st)
    (nd₀ : NetNode) (h0 : nd₀ ∈ (net.run (sipHasher sip HB.keyStr) acts).nodes)
    (hq : ∀ nd ∈ (net.run (sipHasher sip HB.keyStr) acts).nodes,
      differsFrom (digest (sipHasher sip HB.keyStr) depth (ord nd₀) nd₀.st)
        (digest (sipHasher sip HB.keyStr) depth (ord nd) nd.st) = false) :
    ∀ nd ∈ (net.run (sipHasher sip HB.keyStr) acts).nodes, ∀ k, NMap.get nd.st k = net.joinAt k := by
  have hs := session_safe hC (sipHasher sip HB.keyStr) net acts hi (fun a ha => by
    have := hw a ha
    cases a <;> simp [NetAct.isPut] at this <;> trivial)
  have heq : ∀ nd ∈ (net.run (sipHasher sip HB.keyStr) acts).nodes, nd.st = nd₀.st := by
    intro nd hnd
    exact ((digest_iff_state_eq_current sip hsip depth (ord nd₀) (ord nd) nd₀.st nd.st (hs.1.1 nd₀ h0).1 (hs.1.1 nd hnd).1
      (hval nd₀ h0) (hval nd hnd) (hord nd₀ h0) (hord nd hnd)).mp (hq nd hnd)).symm
  have hne : net.nodes ≠ [] := by
    intro hnil
    have := hs.2.1
    rw [hnil] at this
    have : (net.run (sipHasher sip HB.keyStr) acts).nodes = [] := List.eq_nil_of_length_eq_zero this.symm
    rw [this] at h0; cases h0
  intro nd hnd k
  rw [heq nd hnd]
  exact session_quiescent_is_merged hC _ net acts hi hw hne nd₀.st heq k

/-! ## non-vacuity -/

theorem storeOK_of_mem {C : Nat → RV → Prop} {s : NMap RV} (hw : NMap.WF s) (h : ∀ p ∈ s, C p.1 p.2) :
    StoreOK C s :=
  ⟨hw, fun k v hg => h (k, v) (NMap.mem_of_get hg)⟩

instance (K : Nat → Nat) (R : List (Nat × Lww)) (k : Nat) (v : RV) : Decidable (kindCarrier K R k v) := by
  unfold kindCarrier; infer_instance

/-- every key holds a plain LWW value; the registers in play -/
def exK : Nat → Nat := fun _ => exX.crdt.kind
def exR : List (Nat × Lww) := exX.crdt.slots ++ exY.crdt.slots ++ exY'.crdt.slots

/-- three managers (depth 2, limit 1): `stA`, `stB` (key 2 newer) and an empty node -/
def exNet : Net := Net.init 2 1 0 true [stA, stB, []]

-- the carrier hypotheses hold for a non-trivial session
example : RegsConsistent exR ∧ NetInv (kindCarrier exK exR) exNet :=
  ⟨by decide, netInv_init _ _ _ _ _ _ (by
    intro s hs
    simp only [List.mem_cons, List.not_mem_nil, or_false] at hs
    rcases hs with rfl | rfl | rfl <;> exact storeOK_of_mem (by decide) (by decide))⟩

/-- an interleaving with a stale digest, an answer applied twice, the same answer applied by the
    node it was not meant for, a second answer to the same request, then pulls by the third node -/
def exActs : List NetAct :=
  [.dig 1 1 [2, 1], .proc 0 1 [1, 2], .req 1 0 2 false 5 [2, 1], .handle 1 1 1 [1, 2],
   .apply 0 1, .apply 0 1, .apply 2 1, .handle 2 1 1 [2, 1], .apply 2 2,
   .dig 3 0 [1, 2], .proc 2 3 [2], .req 3 2 1 true 9 [2], .handle 3 0 3 [1, 2], .apply 2 3, .apply 1 3]

-- … after which all three nodes hold the merge of the three initial states (`stB`: key 2 newer)
set_option maxRecDepth 8000 in
example : ((exNet.run idealH exActs).nodes.map (·.st)) = [stB, stB, stB]
    ∧ (∀ k ∈ [1, 2, 3], exNet.joinAt k = NMap.get stB k) := by
  decide

/-- two managers whose limit covers their states: the star schedule exists (`0 ← 1`, `1 ← 0`) -/
def exNet2 : Net := Net.init 2 10 0 true [stA, stB]

set_option maxRecDepth 8000 in
example : ∃ net', PullChain idealH (starPairs exNet2.nodes.length) exNet2 net' :=
  ⟨_, .cons (FullPull.mk exNet2 1 2 0 [1, 2] [1, 2] _ _ rfl rfl (by decide) (by decide) (by decide) (by decide))
    (.cons (FullPull.mk _ 2 1 0 [1, 2] [1, 2] _ _ rfl rfl (by decide) (by decide) (by decide) (by decide)) (.nil _))⟩

end C18
end RedisVerif
