import RedisVerif.Lemmas.StreamNode
import RedisVerif.Props.C11
import RedisVerif.Props.C12Actor

/-!
# C12 ∘ C11 (∘ C13) — a node over its whole life: crash at any instant, restart, recovery

Model: `StreamNode` (M4c): any number of processes one after the other on one object store; each
process is the persistence pipeline of M4b (sink, bridge, bounded mailbox, actor, thresholds)
plus the compaction worker next to it, under its own fault oracle — the oracle decides every
store call and the instant the process dies (at any call, also inside a `put`) —, its own
write-buffer configuration and mailbox capacity; the next process starts on whatever store the
previous one left (buffer, mailbox, sink are gone) and recovers from it.

* `node_history_exact` — ONE theorem joining `actor_crash_consistent` (C12), `history_exact`
  (C13) and `recover_exact` (C11): after every such history, recovery from the store succeeds, the
  manifest references only complete objects, and the recovered state is, key by key, EXACTLY the
  merge of the updates of every flush that returned `Ok` in any life — nothing less (no confirmed
  update lost by a crash, a failed call, a compaction pass or a restart) and nothing more (no
  update of a flush that failed or was cut by the death of the process, no orphan object adopted).
* `restart_serves_exactly_confirmed` — end to end through `apply_recovered_state` on the fresh
  node of the next process (C11's application step): every key of the restarted node holds that
  merge, for every router.
* `confirmed_is_prefix_of_accepted` — within a life the confirmed updates are a prefix (in
  acceptance order) of what `push` accepted, and the rest is exactly the buffer: what a crash can
  take is a suffix of the accepted updates, never an update in the middle.
* `node_history_exact_at_every_instant` — the same at every instant of the last life.

The compaction pass is one event (its store calls do not interleave with a flush's): the
interleaved schedules are C13's flush-race findings, see `Model/StreamNode.lean`.
-/
namespace RedisVerif
namespace C12

open _root_.RedisVerif.Stream _root_.RedisVerif.StreamActor _root_.RedisVerif.StreamNode FoldACI

/-- what holds of the store between two lives -/
def HistInv (c : Carrier) (h : Hist) : Prop :=
  StoreInv h.store ∧ InCar c (content h.store) ∧ foldState (content h.store) = foldState h.confirmed

theorem histInv_life (c : Carrier) (rid : Nat) (h : Hist) (l : Life)
    (hevs : ∀ ev ∈ l.evs, ev.gcFree = true ∧ ∀ d, ev.delta? = some d → RVCarrier.Car (c.U d.1) (c.kd d.1) d.2)
    (hi : HistInv c h) : HistInv c (runLife rid h l) := by
  obtain ⟨h1, h2, h3⟩ := hi
  have hJ0 : J c h.confirmed (A.init h.store rid l.now) := by
    refine ⟨inv_init h.store rid l.now, ?_, ?_, ?_⟩
    · unfold HInvB C13.HInv
      refine ⟨h1, h2, ?_, ?_⟩
      · intro d hd; simp [core, A.init, PX.init] at hd
      · simpa [core, A.init, World.init] using h3
    · intro d hd; simp [A.init] at hd
    · simp [A.init, PX.init]
  have hJ := j_run c h.confirmed l.F l.wcfg l.cap _ l.evs hevs hJ0
  obtain ⟨_, ⟨a1, a2, _, a4⟩, _, _⟩ := hJ
  exact ⟨a1, a2, a4⟩

theorem histInv_lives (c : Carrier) (rid : Nat) (lives : List Life) (h : Hist)
    (hevs : ∀ l ∈ lives, ∀ ev ∈ l.evs,
      ev.gcFree = true ∧ ∀ d, ev.delta? = some d → RVCarrier.Car (c.U d.1) (c.kd d.1) d.2)
    (hi : HistInv c h) : HistInv c (runLives rid h lives) :=
  TraceInv.run_inv_of (runLife rid) (HistInv c)
    (fun l => ∀ ev ∈ l.evs, ev.gcFree = true ∧ ∀ d, ev.delta? = some d → RVCarrier.Car (c.U d.1) (c.kd d.1) d.2)
    (fun s l hl hs => histInv_life c rid s l hl hs) h hi lives hevs

theorem histInv_of_coherent (rid : Nat) (lives : List Life)
    (hc : Coherent (lives.flatMap Life.deltas))
    (hgc : ∀ l ∈ lives, ∀ e ∈ l.evs, e.gcFree = true) :
    HistInv (carrierOf _ hc) (runLives rid { store := [], confirmed := [] } lives) := by
  apply histInv_lives
  · intro l hl ev hev
    refine ⟨hgc l hl ev hev, ?_⟩
    intro d hd
    exact inCar_of_coherent hc d
      (List.mem_flatMap.mpr ⟨l, hl, List.mem_filterMap.mpr ⟨ev, hev, hd⟩⟩)
  · refine ⟨storeInv_empty, ?_, ?_⟩
    · intro p hp; simp [content, manifestOf, Manifest.new, segDeltas] at hp
    · simp [content, manifestOf, Manifest.new, segDeltas]

/-- **node_history_exact** — C12 ∘ C13 ∘ C11 in one statement.  For every sequence of processes
    on one store — each with its own fault oracle (every failed store call, every torn `put`, the
    death of the process at any call), write-buffer configuration, mailbox capacity, clock, and
    every schedule of sends, bridge iterations, ticks, flush / shutdown requests, actor steps and
    compaction passes (any threshold, any selection, compactions of compacted segments; no
    tombstone GC) — with coherent updates: recovery from the store that is left succeeds, the
    manifest references only complete objects, and the recovered state is exactly the per-key
    merge of the updates of every flush that returned `Ok` in any of the lives. -/
theorem node_history_exact (rid : Nat) (lives : List Life)
    (hc : Coherent (lives.flatMap Life.deltas))
    (hgc : ∀ l ∈ lives, ∀ e ∈ l.evs, e.gcFree = true) :
    C13.recState (runLives rid { store := [], confirmed := [] } lives).store rid =
      some (foldState (runLives rid { store := [], confirmed := [] } lives).confirmed) ∧
    refsComplete (runLives rid { store := [], confirmed := [] } lives).store = true := by
  obtain ⟨h1, h2, h3⟩ := histInv_of_coherent rid lives hc hgc
  exact ⟨by rw [C13.recState_of_inv _ h1 h2 rid, h3], refsComplete_of_storeInv h1⟩

/-- a store of the workloads holds no checkpoint: recovery returns none -/
theorem recover_chk_none {st : Store} (h : StoreInv st) {rid : Nat} {r : Recovered}
    (hr : recover st rid = .ok r) : r.chk = none := by
  unfold recover at hr
  rcases h with h | ⟨m, h1, h2⟩
  · rw [h] at hr
    simp only [Manifest.new] at hr
    split at hr
    · cases hr
    · cases hr; rfl
  · rw [h1] at hr
    simp only [h2.2] at hr
    split at hr
    · cases hr
    · cases hr; rfl

/-- **restart_serves_exactly_confirmed** — the next process: `StreamingIntegration::recover` on
    a fresh node (recovery, then `apply_recovered_state`), every router: every key holds exactly
    the merge of everything any earlier process confirmed -/
theorem restart_serves_exactly_confirmed (rid : Nat) (lives : List Life)
    (hc : Coherent (lives.flatMap Life.deltas))
    (hgc : ∀ l ∈ lives, ∀ e ∈ l.evs, e.gcFree = true) (route : Nat → Nat) (causal : Bool) :
    ∃ r, recover (runLives rid { store := [], confirmed := [] } lives).store rid = .ok r ∧
      ∀ k, (applyRecoveredState route (Node.fresh rid causal) r.chk r.deltas).value route k =
        NMap.get (foldState (runLives rid { store := [], confirmed := [] } lives).confirmed) k := by
  obtain ⟨h1, h2, h3⟩ := histInv_of_coherent rid lives hc hgc
  obtain ⟨r, hr⟩ := recover_ok_of_storeInv h1 rid
  refine ⟨r, hr, ?_⟩
  intro k
  have hchk := recover_chk_none h1 hr
  rw [C11.apply_recovered_equals_foldState route rid causal r.chk (by intro m hm; rw [hchk] at hm; cases hm) r.deltas k]
  have hrec := C13.recState_of_inv _ h1 h2 rid
  unfold C13.recState at hrec
  rw [hr] at hrec
  simp only [Option.some.injEq] at hrec
  unfold Recovered.updates at hrec
  rw [hrec, h3]

/-- **confirmed_is_prefix_of_accepted** — inside one life, on any store, for every oracle,
    configuration and schedule: what `push` accepted is, in acceptance order, the confirmed
    updates followed by the buffer.  The death of the process takes the buffer — a suffix of the
    accepted updates — and nothing else. -/
theorem confirmed_is_prefix_of_accepted (rid : Nat) (st : Store) (l : Life) :
    (l.final rid st).accepted = (l.final rid st).acked ++ (l.final rid st).x.p.buffer := by
  unfold Life.final StreamNode.run
  apply TraceInv.run_inv (StreamNode.step l.F l.wcfg l.cap) (fun a => a.accepted = a.acked ++ a.x.p.buffer)
  · intro a ev h
    cases ev with
    | compactPass cfg m sz => exact h
    | pipe e =>
      obtain ⟨ops, _, hcore, hpush⟩ := core_step l.F l.wcfg l.cap a e
      have := acked_buffer_run l.F (core a) ops
      rw [← hcore] at this
      simp only [core] at this
      show (StreamActor.step l.F l.wcfg l.cap a e).accepted =
        (StreamActor.step l.F l.wcfg l.cap a e).acked ++ (StreamActor.step l.F l.wcfg l.cap a e).x.p.buffer
      rw [hpush, this, h]
  · simp [A.init, PX.init]

/-- the same statement at every instant of the last life (a crash = the oracle kills the process
    at some call; stopping the observation after `n` events is the other way to look at it) -/
theorem node_history_exact_at_every_instant (rid : Nat) (lives : List Life) (l : Life) (n : Nat)
    (hc : Coherent ((lives ++ [l]).flatMap Life.deltas))
    (hgc : ∀ l' ∈ lives ++ [l], ∀ e ∈ l'.evs, e.gcFree = true) :
    C13.recState (runLives rid { store := [], confirmed := [] } (lives ++ [{ l with evs := l.evs.take n }])).store rid =
      some (foldState (runLives rid { store := [], confirmed := [] } (lives ++ [{ l with evs := l.evs.take n }])).confirmed) := by
  apply (node_history_exact rid _ ?_ ?_).1
  · apply coherent_of_subset hc
    intro d hd
    simp only [List.flatMap_append, List.mem_append, List.flatMap_cons, List.flatMap_nil, List.append_nil] at hd ⊢
    rcases hd with hd | hd
    · exact Or.inl hd
    · right
      unfold Life.deltas at hd ⊢
      obtain ⟨e, he, hed⟩ := List.mem_filterMap.mp hd
      exact List.mem_filterMap.mpr ⟨e, List.mem_of_mem_take he, hed⟩
  · intro l' hl' e he
    rcases List.mem_append.mp hl' with h | h
    · exact hgc l' (List.mem_append.mpr (Or.inl h)) e he
    · simp only [List.mem_singleton] at h
      subst h
      exact hgc l (by simp) e (List.mem_of_mem_take he)

/-! ## non-vacuity -/

def nodeCfg : CompactCfg := { target := 1000, minSegs := 2, maxPer := 5, now := 0, ttlMs := 0 }

/-- first life: two flushed batches of two replicas on one key, then a third batch whose segment
    `put` is cut by the death of the process (a torn object stays behind); second life: a new
    batch, a compaction pass over everything, one more batch that is accepted but not flushed -/
def exLives : List Life :=
  [ { F := fun n => if n = 9 then .crashPartial else .ok, wcfg := { bigCfg with maxDeltas := 1 }, cap := 4, now := 0,
      evs := [.pipe (.send (sd 97 1 5 1)), .pipe .drain, .pipe (.actor 100),
              .pipe (.send ((97, RV.withValue [2] ⟨5, 2⟩), 1)), .pipe .drain, .pipe (.actor 100),
              .pipe (.send (sd 98 3 6 1)), .pipe .drain, .pipe (.actor 100)] },
    { F := fun _ => .ok, wcfg := { bigCfg with maxDeltas := 1 }, cap := 4, now := 50,
      evs := [.pipe (.send (sd 99 4 7 1)), .pipe .drain, .pipe (.actor 100),
              .compactPass nodeCfg 2 150,
              .pipe (.send (sd 100 5 8 1)), .pipe .drain] } ]

example : Coherent (exLives.flatMap Life.deltas) ∧ (∀ l ∈ exLives, ∀ e ∈ l.evs, e.gcFree = true) ∧
    (runLives 1 { store := [], confirmed := [] } exLives).confirmed =
      [c12Delta 97 1 5, (97, RV.withValue [2] ⟨5, 2⟩), c12Delta 99 4 7] ∧
    ((manifestOf (runLives 1 { store := [], confirmed := [] } exLives).store 0).segments.map (·.id)) = [3] := by
  decide

end C12
end RedisVerif
