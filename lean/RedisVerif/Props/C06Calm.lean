import RedisVerif.Props.C06Heal
import RedisVerif.Props.C19
import RedisVerif.Lemmas.SimAcc
import RedisVerif.Lemmas.SimQuiet

/-!
# C06 — no loss ⇒ delivered ⇒ converged, broadcast AND selective gossip (∘ C19)

The delivery hypothesis of `sim_converges_among`, discharged for gossip alone: in the simulator
cluster, as long as nothing is lost (`CalmRun`, decidable: no outbox overflow, no gossip round
while a partition exists, no packet loss — delay, reordering across senders and head-of-line
blocking are all allowed), every delta is, for every node its origin's gossip round sends it to,
in the origin's outbox, in flight to that node, or absorbed by it (`Lemmas/SimAcc.lean`).

* `sim_calm_delivers` — outboxes and queue empty ⇒ every update of `k` has reached every replica
  of `S`, for every `S` the routers cover (`Covers`, decidable);
* `sim_calm_converges_among` — … hence the replicas of `S` hold the same value and answer `GET`
  alike (no kind hypothesis: `sim_kind_stable`);
* **selective gossip ∘ C19**: `ring_routers_cover_owners` — when every node's routing table is the
  ring's (`targets k = get_gossip_targets(k, self)`, what `GossipRouter::route_selective` asks the
  `HashRing`; C19's `targets_exact` + `replicas_are_members`), the routers cover the OWNERS
  `get_replicas(k)` of every key, whoever writes; `selective_no_loss_converges_among_owners`: so
  with selective gossip and no loss the owners of a key converge — a writer outside the replica
  set included as a SOURCE (its delta reaches every owner) though not as a reader
  (`non_owner_writer_stays_stale`).
-/
namespace RedisVerif
namespace C06

open Cluster ACluster SimC

/-- every replica of `S` is a gossip destination of every possible writer of `k` -/
def Covers (routers : List (Option Gossip.Router)) (n : Nat) (S : List Nat) (k : Nat) : Prop :=
  ∀ o, o < n → ∀ j ∈ S, j ≠ o → j < n ∧ j ∈ destsOf routers n o k

instance (routers : List (Option Gossip.Router)) (n : Nat) (S : List Nat) (k : Nat) : Decidable (Covers routers n S k) := by
  unfold Covers
  exact decidable_of_iff (∀ o ∈ List.range n, ∀ j ∈ S, j ≠ o → j < n ∧ j ∈ destsOf routers n o k)
    ⟨fun h o ho => h o (List.mem_range.mpr ho), fun h o ho => h o (List.mem_range.mp ho)⟩

theorem run_routers (H : AE.Hasher) (cfg : Cfg) (evs : List SEv) : ∀ (c : Sim), (c.run H cfg evs).routers = c.routers := by
  induction evs with
  | nil => intro c; rfl
  | cons e evs ih =>
    intro c
    simp only [Sim.run, List.foldl_cons] at ih ⊢
    rw [ih]
    cases e with
    | exec i op =>
      simp only [Sim.step]
      split <;> rfl
    | gossip o =>
      simp only [Sim.step]
      exact (deliverFlights_log _ _).2.2.1
    | advance ms => rfl
    | partition a b => rfl
    | heal a b =>
      simp only [Sim.step]
      split
      · exact (syncStep_shape H cfg _ a b).2.2.1
      · rfl
    | sync a b => exact (syncStep_shape H cfg c a b).2.2.1
    | fullSync =>
      simp only [Sim.step]
      have : ∀ (ps : List (Nat × Nat)) (c : Sim),
          (ps.foldl (fun c p => if Sim.canComm c.parts p.1 p.2 then Sim.syncStep H cfg c p.1 p.2 else c) c).routers = c.routers := by
        intro ps
        induction ps with
        | nil => intro c; rfl
        | cons p ps ih2 =>
          intro c
          simp only [List.foldl_cons]
          rw [ih2]
          split
          · exact (syncStep_shape H cfg c p.1 p.2).2.2.1
          · rfl
      exact this _ c

/-- **no loss, outboxes and queue empty ⇒ delivered** to every set of replicas the routers cover -/
theorem sim_calm_delivers (H : AE.Hasher) (cfg : Cfg) (n : Nat) (causal : Bool)
    (routers : List (Option Gossip.Router)) (autoAE : Bool) (evs : List SEv)
    (hcalm : CalmRun H cfg (Sim.init n causal routers autoAE) evs)
    (hq : ((Sim.init n causal routers autoAE).run H cfg evs).queue = [])
    (hp : ∀ nd ∈ ((Sim.init n causal routers autoAE).run H cfg evs).nodes, nd.ps.pending = [])
    (k : Nat) (S : List Nat) (hcov : Covers routers n S k) :
    DeliveredTo ((Sim.init n causal routers autoAE).run H cfg evs).abs.base S k := by
  have hacc := sacc_run H cfg evs _ (acc_init n causal routers autoAE) hcalm
  have hlen : ((Sim.init n causal routers autoAE).run H cfg evs).nodes.length = n :=
    reach_length (H := H) (cfg := cfg) (causal := causal) ⟨routers, autoAE, evs, rfl⟩
  have hrt : ((Sim.init n causal routers autoAE).run H cfg evs).routers = routers := run_routers H cfg evs _
  intro m hm hmk j hjS hjo
  have hm' : m ∈ ((Sim.init n causal routers autoAE).run H cfg evs).issued := hm
  have ho := hacc.iorg m hm'
  rw [hlen] at ho
  obtain ⟨hjn, hjd⟩ := hcov m.origin ho j hjS hjo
  have := delivered_of_quiet _ hacc hq hp m hm' j (by rw [hrt, hlen]; unfold dests; rw [hmk]; exact hjd) (by rw [hlen]; exact hjn)
  rw [hmk] at this
  exact this

/-- **no loss ⇒ the covered replicas converge and answer `GET` alike** -/
theorem sim_calm_converges_among (H : AE.Hasher) (cfg : Cfg) (n : Nat) (causal : Bool)
    (routers : List (Option Gossip.Router)) (autoAE : Bool) (evs : List SEv)
    (hcalm : CalmRun H cfg (Sim.init n causal routers autoAE) evs)
    (hq : ((Sim.init n causal routers autoAE).run H cfg evs).queue = [])
    (hp : ∀ nd ∈ ((Sim.init n causal routers autoAE).run H cfg evs).nodes, nd.ps.pending = [])
    (k : Nat) (S : List Nat) (hcov : Covers routers n S k) :
    AgreeAmong ((Sim.init n causal routers autoAE).run H cfg evs).abs.base S k ∧
    ∀ i ∈ S, ∀ j ∈ S, ∀ (ni nj : SNode),
      ((Sim.init n causal routers autoAE).run H cfg evs).nodes[i]? = some ni →
      ((Sim.init n causal routers autoAE).run H cfg evs).nodes[j]? = some nj →
      NMap.get ni.kv k = NMap.get nj.kv k := by
  have hag := sim_converges_among H cfg n causal routers autoAE evs k S
    (sim_calm_delivers H cfg n causal routers autoAE evs hcalm hq hp k S hcov)
  refine ⟨hag, ?_⟩
  intro i hi j hj ni nj hni hnj
  exact sim_reads_agree_of_agree H cfg n causal routers autoAE evs i j ni nj hni hnj k
    (hag i hi j hj ni.ps.sh nj.ps.sh (abs_nodes_get _ i ni hni) (abs_nodes_get _ j nj hnj))

/-! ## delay and reordering alone: two rounds hand everything over -/

theorem calmRun_append (H : AE.Hasher) (cfg : Cfg) (evs1 evs2 : List SEv) : ∀ (c : Sim),
    CalmRun H cfg c evs1 → CalmRun H cfg (c.run H cfg evs1) evs2 → CalmRun H cfg c (evs1 ++ evs2) := by
  induction evs1 with
  | nil => intro c _ h2; exact h2
  | cons e evs ih =>
    intro c h1 h2
    exact ⟨h1.1, ih _ h1.2 (by simpa [Sim.run] using h2)⟩

/-- **no loss: ANY calm history followed by `converge(2)`** (`advance D; gossip_round` twice, delays
    ≤ `D`, no packet lost, no partition in place) **⇒ the covered replicas converge and answer `GET`
    alike** — the queue-empty / outbox-empty hypotheses of `sim_calm_converges_among` are
    discharged: whatever was delayed or reordered before, two rounds hand everything over.
    `hdue` (decidable): nothing in the queue is due later than `D` ms from now. -/
theorem sim_converge2_converges_among (H : AE.Hasher) (cfg : Cfg) (n : Nat) (causal : Bool)
    (routers : List (Option Gossip.Router)) (autoAE : Bool) (evs : List SEv) (D : Nat) (o1 o2 : List (Bool × Nat))
    (hD : 1 ≤ D) (hcalm : CalmRun H cfg (Sim.init n causal routers autoAE) evs)
    (hparts : ((Sim.init n causal routers autoAE).run H cfg evs).parts = [])
    (hdue : ∀ f ∈ ((Sim.init n causal routers autoAE).run H cfg evs).queue,
      f.due ≤ ((Sim.init n causal routers autoAE).run H cfg evs).now + D)
    (ho1 : ∀ p ∈ o1, p.1 = false ∧ p.2 ≤ D) (ho2 : ∀ p ∈ o2, p.1 = false)
    (k : Nat) (S : List Nat) (hcov : Covers routers n S k) :
    AgreeAmong ((Sim.init n causal routers autoAE).run H cfg (evs ++ quiesce D o1 o2)).abs.base S k ∧
    ∀ i ∈ S, ∀ j ∈ S, ∀ (ni nj : SNode),
      ((Sim.init n causal routers autoAE).run H cfg (evs ++ quiesce D o1 o2)).nodes[i]? = some ni →
      ((Sim.init n causal routers autoAE).run H cfg (evs ++ quiesce D o1 o2)).nodes[j]? = some nj →
      NMap.get ni.kv k = NMap.get nj.kv k := by
  have hrun : (Sim.init n causal routers autoAE).run H cfg (evs ++ quiesce D o1 o2) =
      ((Sim.init n causal routers autoAE).run H cfg evs).run H cfg (quiesce D o1 o2) := by
    simp [Sim.run, List.foldl_append]
  obtain ⟨hp, hq⟩ := quiesce_quiet H cfg ((Sim.init n causal routers autoAE).run H cfg evs) D o1 o2 hD hparts hdue
    (fun p hp => (ho1 p hp).2)
  -- the two rounds are calm
  have hcalm2 : CalmRun H cfg ((Sim.init n causal routers autoAE).run H cfg evs) (quiesce D o1 o2) := by
    have g1 := gossip_round_due H cfg (((Sim.init n causal routers autoAE).run H cfg evs).step H cfg (.advance D)) o1 D hD
      hparts hdue (fun p hp => (ho1 p hp).2)
    refine ⟨trivial, ⟨hparts, fun p hp => (ho1 p hp).1⟩, trivial, ⟨?_, ho2⟩, trivial⟩
    exact g1.2.2.2
  have hall := calmRun_append H cfg evs (quiesce D o1 o2) _ hcalm hcalm2
  rw [← hrun] at hp hq
  exact sim_calm_converges_among H cfg n causal routers autoAE (evs ++ quiesce D o1 o2) hall hq hp k S hcov

/-! ## selective gossip: the routing tables are the ring's (C19) -/

/-- node `i`'s router is selective and its table for key `k` is what the ring answers
    (`get_gossip_targets(k, i + 1)`; `pos` = the key's ring position) -/
def RingDerived (ring : Ring.HashRing) (pos : Nat → Nat) (routers : List (Option Gossip.Router)) (n k : Nat) : Prop :=
  ∀ i, i < n → ∃ r, routers[i]? = some (some r) ∧ r.selective = true ∧
    r.targetsOf k = Ring.gossipTargets ring (pos k) (i + 1)

/-- the owners of `k` as node indices (`get_replicas(k)`, replica id − 1) -/
def owners (ring : Ring.HashRing) (pos : Nat → Nat) (k : Nat) : List Nat :=
  (Ring.getReplicas ring (pos k)).map (· - 1)

/-- **C19 ∘ C06**: ring-derived routing tables cover the owners of the key, whoever writes -/
theorem ring_routers_cover_owners (hashV : Nat → Nat → Nat) (ring : Ring.HashRing) (pos : Nat → Nat)
    (routers : List (Option Gossip.Router)) (n k : Nat) (hr : Ring.Reachable hashV ring)
    (hmem : ∀ t ∈ ring.phys, 1 ≤ t ∧ t ≤ n) (hd : RingDerived ring pos routers n k) :
    Covers routers n (owners ring pos k) k := by
  intro o ho j hj hjo
  simp only [owners, List.mem_map] at hj
  obtain ⟨t, ht, rfl⟩ := hj
  have htm := hmem t (C19.replicas_are_members hashV ring (pos k) ring.rf hr t ht)
  obtain ⟨r, hro, hsel, htab⟩ := hd o ho
  refine ⟨by omega, ?_⟩
  unfold destsOf
  simp only [hro, hsel, if_true, List.mem_map]
  refine ⟨t, ?_, rfl⟩
  rw [htab]
  exact (C19.targets_exact ring (pos k) (o + 1) t).mpr ⟨ht, by omega⟩

/-- **selective gossip, no loss ⇒ the owners of the key converge** -/
theorem selective_no_loss_converges_among_owners (hashV : Nat → Nat → Nat) (ring : Ring.HashRing) (pos : Nat → Nat)
    (H : AE.Hasher) (cfg : Cfg) (n : Nat) (causal : Bool) (routers : List (Option Gossip.Router)) (autoAE : Bool)
    (evs : List SEv) (k : Nat) (hr : Ring.Reachable hashV ring) (hmem : ∀ t ∈ ring.phys, 1 ≤ t ∧ t ≤ n)
    (hd : RingDerived ring pos routers n k)
    (hcalm : CalmRun H cfg (Sim.init n causal routers autoAE) evs)
    (hq : ((Sim.init n causal routers autoAE).run H cfg evs).queue = [])
    (hp : ∀ nd ∈ ((Sim.init n causal routers autoAE).run H cfg evs).nodes, nd.ps.pending = []) :
    AgreeAmong ((Sim.init n causal routers autoAE).run H cfg evs).abs.base (owners ring pos k) k ∧
    ∀ i ∈ owners ring pos k, ∀ j ∈ owners ring pos k, ∀ (ni nj : SNode),
      ((Sim.init n causal routers autoAE).run H cfg evs).nodes[i]? = some ni →
      ((Sim.init n causal routers autoAE).run H cfg evs).nodes[j]? = some nj →
      NMap.get ni.kv k = NMap.get nj.kv k :=
  sim_calm_converges_among H cfg n causal routers autoAE evs hcalm hq hp k _
    (ring_routers_cover_owners hashV ring pos routers n k hr hmem hd)

/-! ## witnesses -/

set_option maxRecDepth 8000 in
/-- non-vacuity (broadcast): three nodes, concurrent writers, delays that reorder arrivals across
    senders, a partition that only delays (no round runs while it exists): calm, quiet, covered —
    all three serve the same -/
example :
    let evs : List SEv :=
      [ .exec 0 (.set kX [97] none), .exec 1 (.set kX [98] none), .exec 2 (.del [kX]), .gossip [(false, 9), (false, 1)],
        .partition 0 1, .advance 5, .heal 0 1, .gossip [], .exec 2 (.set kX [99] (some 5)), .advance 10, .gossip [],
        .advance 10, .gossip [] ]
    let c := (Sim.init 3 false [] false).run toyH cfg2 evs
    CalmRun toyH cfg2 (Sim.init 3 false [] false) evs ∧ c.queue = [] ∧ (c.nodes.all fun nd => nd.ps.pending.isEmpty) ∧
    Covers [] 3 [0, 1, 2] kX ∧ c.issued.length = 3 ∧
    kvAt c 0 kX = some (some [99]) ∧ kvAt c 1 kX = some (some [99]) ∧ kvAt c 2 kX = some (some [99]) := by
  decide

set_option maxRecDepth 8000 in
/-- a packet lost ⇒ not calm — and indeed not delivered -/
example :
    let evs : List SEv := [ .exec 0 (.set kX [97] none), .gossip [(true, 0)], .advance 10, .gossip [] ]
    let c := (Sim.init 2 false [] false).run toyH cfg2 evs
    ¬ CalmRun toyH cfg2 (Sim.init 2 false [] false) evs ∧ c.queue = [] ∧ ¬ DeliveredTo c.abs.base [0, 1] kX := by
  decide

end C06
end RedisVerif
