import RedisVerif.Props.C13
import RedisVerif.Props.C12

/-!
# C13 over histories — repeated compactions, `compact_if_needed`, exactness

* `compact_if_needed_preserves_recovery` — the entry point the compaction worker calls
  (`needs_compaction` with the `max_segments` threshold, then `compact`) never changes what
  recovery returns (current tree, no tombstone GC, every oracle, every `max_segments`).
* `history_exact` — for EVERY history of pushes, flushes and compactions (compactions of compacted
  segments, any number of them, any configuration without tombstone GC), every fault oracle hence
  every crash point: recovery returns EXACTLY the merge of the updates of the flushes that
  returned `Ok` — not only "absorbs" them (C12) and not only "one compaction preserves" (C13).
* `compaction_sequence_preserves_recovery` — any number of passes in a row.
-/
namespace RedisVerif
namespace C13

open _root_.RedisVerif.Stream FoldACI

theorem needsCompaction_store (F : Oracle) (maxSegs : Nat) (w : World) :
    (needsCompaction F maxSegs w).1.store = w.store := by
  unfold needsCompaction
  have := loadOrCreate_store F w 0
  cases h : loadOrCreate F w 0 with
  | mk w1 om =>
    rw [h] at this
    cases om <;> exact this

/-- **compact_if_needed preserves recovery** (current tree, no tombstone GC): every oracle, every
    threshold `max_segments` (0 included: always "needed"), every layout with coherent content -/
theorem compact_if_needed_preserves_recovery (F : Oracle) (cfg : CompactCfg) (maxSegs sz : Nat) (w : World)
    (rid : Nat) (hinv : StoreInv w.store) (hc : Coherent (content w.store)) (hgc : cfg.cutoff = 0) :
    recState (compactIfNeeded F cfg maxSegs sz w).1.store rid = recState w.store rid := by
  unfold compactIfNeeded compactIfNeededWith
  have hs := needsCompaction_store F maxSegs w
  cases h : needsCompaction F maxSegs w with
  | mk w1 ob =>
    rw [h] at hs
    simp only at hs
    cases ob with
    | none => simp only [hs]
    | some b =>
      cases b with
      | false => simp only [hs]
      | true =>
        simp only
        have := compaction_preserves_recovery_current F cfg sz w1 rid (by rw [hs]; exact hinv) (by rw [hs]; exact hc) hgc
        unfold compact at this
        rw [this, hs]

/-- a pass below the threshold does nothing at all to the store -/
theorem compact_if_needed_below_threshold (fl : CompactFlags) (F : Oracle) (cfg : CompactCfg) (maxSegs sz : Nat)
    (w : World) (h : (needsCompaction F maxSegs w).2 = some false) :
    (compactIfNeededWith fl F cfg maxSegs sz w).1.store = w.store ∧
    (compactIfNeededWith fl F cfg maxSegs sz w).2 = .nothing := by
  unfold compactIfNeededWith
  have hs := needsCompaction_store F maxSegs w
  cases hn : needsCompaction F maxSegs w with
  | mk w1 ob =>
    rw [hn] at h hs
    simp only at h hs
    subst h
    exact ⟨hs, rfl⟩

/-! ## histories -/

theorem foldState_append (l b : List Delta) : foldState (l ++ b) = applyAll (foldState l) b := by
  unfold foldState applyAll
  rw [List.foldl_append]

/-- history invariant: the folded listed content IS the fold of the confirmed updates -/
def HInv (c : Carrier) (s : Sys) : Prop :=
  StoreInv s.w.store ∧ InCar c (content s.w.store) ∧
  (∀ d ∈ s.p.buffer, RVCarrier.Car (c.U d.1) (c.kd d.1) d.2) ∧
  foldState (content s.w.store) = foldState s.acked

theorem hinv_step (c : Carrier) (F : Oracle) (s : Sys) (op : Op)
    (hop : op.gcFree = true ∧ ∀ d, op.pushed? = some d → RVCarrier.Car (c.U d.1) (c.kd d.1) d.2)
    (h : HInv c s) : HInv c (stepWith current F s op) := by
  obtain ⟨hinv, hcar, hbuf, hfold⟩ := h
  cases op with
  | push d =>
    refine ⟨hinv, hcar, ?_, hfold⟩
    intro e he
    simp only [stepWith, push] at he
    rcases List.mem_append.mp he with he | he
    · exact hbuf e he
    · simp only [List.mem_singleton] at he
      subst he
      exact hop.2 e rfl
  | compact cfg sz =>
    have hgc : cfg.cutoff = 0 := by
      have := hop.1
      simpa [Op.gcFree] using this
    have hp := compact_fold_preserved c repairedCompact F cfg sz s.w hinv hcar
      (goodAcc_repaired repairedCompact rfl rfl F cfg hgc s.w hinv)
    refine ⟨(compact_spec repairedCompact F cfg sz s.w hinv).1, hp.2, hbuf, ?_⟩
    show foldState (content (compactWith current.compact F cfg sz s.w).1.store) = foldState s.acked
    rw [current_compact_is_repaired, hp.1]
    exact hfold
  | flush sz =>
    have hs := flush_spec current.restoreBuffer F sz s.w s.p hinv
    simp only [stepWith]
    split
    · rename_i w' p' a b heq
      rw [heq] at hs
      simp only at hs
      obtain ⟨hinv', hcont, hbuf'⟩ := hs
      have hcar' : InCar c (content w'.store) := by
        intro q hq
        rcases (hcont q).mp hq with h | h
        · exact hcar q h
        · exact hbuf q h
      refine ⟨hinv', hcar', ?_, ?_⟩
      · intro e he; rw [hbuf'] at he; cases he
      · have h1 : foldState (content w'.store) = foldState (content s.w.store ++ s.p.buffer) :=
          foldState_eq_of_same_set_inCar c hcar' (fun d => by rw [hcont d, List.mem_append])
        rw [h1, foldState_append, foldState_append, hfold]
    · rename_i w' p' out hne heq
      rw [heq] at hs
      simp only at hs
      cases out with
      | flushed a b => exact absurd rfl (hne a b)
      | empty =>
        simp only at hs
        obtain ⟨hinv', hcont, hp, _⟩ := hs
        exact ⟨hinv', by rw [hcont]; exact hcar, by rw [hp]; exact hbuf, by simp only; rw [hcont]; exact hfold⟩
      | error =>
        simp only at hs
        obtain ⟨hinv', hcont, hb⟩ := hs
        refine ⟨hinv', by rw [hcont]; exact hcar, ?_, by simp only; rw [hcont]; exact hfold⟩
        intro e he
        rw [hb] at he
        simp only [C12.current_is_repaired, if_true] at he
        exact hbuf e he

/-- **history_exact** — every history of push / flush / compact of the current tree (any number of
    compactions, compactions of compacted segments, every configuration without tombstone GC),
    coherent pushed updates, every fault oracle hence every crash point: recovery succeeds and
    the recovered state is EXACTLY the per-key merge of the updates of the flushes that returned
    `Ok` — nothing more (no resurrected or phantom update), nothing less -/
theorem history_exact (F : Oracle) (rid : Nat) (ops : List Op)
    (hc : Coherent (pushes ops)) (hgc : ∀ o ∈ ops, o.gcFree = true) :
    recState (run F (Sys.init [] rid) ops).w.store rid = some (foldState (run F (Sys.init [] rid) ops).acked) := by
  let c := carrierOf (pushes ops) hc
  have hJ : HInv c (run F (Sys.init [] rid) ops) := by
    apply TraceInv.run_inv_of (stepWith current F) (HInv c)
      (fun op => op.gcFree = true ∧ ∀ d, op.pushed? = some d → RVCarrier.Car (c.U d.1) (c.kd d.1) d.2)
      (fun s o ho hs => hinv_step c F s o ho hs)
    · refine ⟨C12.storeInv_empty, ?_, ?_, ?_⟩
      · intro p hp; simp [Sys.init, World.init, content, manifestOf, Manifest.new, segDeltas] at hp
      · intro d hd; cases hd
      · simp [Sys.init, World.init, content, manifestOf, Manifest.new, segDeltas, foldState, applyAll]
    · intro o ho
      refine ⟨hgc o ho, ?_⟩
      intro d hd
      exact inCar_of_coherent hc d (List.mem_filterMap.mpr ⟨o, ho, hd⟩)
  obtain ⟨hinv, hcar, _, hfold⟩ := hJ
  rw [recState_of_inv c hinv hcar rid, hfold]

/-- any number of compaction passes in a row (each with its own configuration, no tombstone GC)
    leaves the recovered state unchanged -/
theorem compaction_sequence_preserves_recovery (F : Oracle) (passes : List (CompactCfg × Nat)) (w : World)
    (rid : Nat) (hinv : StoreInv w.store) (hc : Coherent (content w.store))
    (hgc : ∀ p ∈ passes, p.1.cutoff = 0) :
    recState (passes.foldl (fun w p => (compact F p.1 p.2 w).1) w).store rid = recState w.store rid := by
  let c := carrierOf (content w.store) hc
  have hcar := inCar_of_coherent hc
  have key : ∀ (passes : List (CompactCfg × Nat)) (w' : World), StoreInv w'.store → InCar c (content w'.store) →
      (∀ p ∈ passes, p.1.cutoff = 0) →
      StoreInv (passes.foldl (fun w p => (compact F p.1 p.2 w).1) w').store ∧
      foldState (content (passes.foldl (fun w p => (compact F p.1 p.2 w).1) w').store) = foldState (content w'.store) ∧
      InCar c (content (passes.foldl (fun w p => (compact F p.1 p.2 w).1) w').store) := by
    intro passes
    induction passes with
    | nil => intro w' hi hcr _; exact ⟨hi, rfl, hcr⟩
    | cons p rest ih =>
      intro w' hi hcr hg
      have hp := compact_fold_preserved c repairedCompact F p.1 p.2 w' hi hcr
        (goodAcc_repaired repairedCompact rfl rfl F p.1 (hg p (by simp)) w' hi)
      have hi' := (compact_spec repairedCompact F p.1 p.2 w' hi).1
      obtain ⟨a, b, d⟩ := ih (compact F p.1 p.2 w').1 hi' hp.2 (fun q hq => hg q (by simp [hq]))
      simp only [List.foldl_cons]
      exact ⟨a, by rw [b]; exact hp.1, d⟩
  obtain ⟨a, b, d⟩ := key passes w hinv hcar hgc
  rw [recState_of_inv c a d rid, recState_of_inv c hinv hcar rid, b]

/-! ## non-vacuity -/

/-- a history with two compactions (the second compacts the segment the first wrote), a failed
    flush in between, and updates of two replicas on one key -/
def histOps : List Op :=
  [.push (107, lww 1 5 1), .flush 100, .push (107, lww 2 5 2), .flush 100, .compact cfgAll 150,
   .push (108, lww 3 6 1), .flush 100, .push (109, lww 4 7 1), .flush 100, .compact cfgAll 150]

def histOracle : Oracle := fun n => if n = 21 then .fail else .ok

example : Coherent (pushes histOps) ∧ (∀ o ∈ histOps, o.gcFree = true) ∧
    (run histOracle (Sys.init [] 1) histOps).acked.length = 3 ∧
    recState (run histOracle (Sys.init [] 1) histOps).w.store 1 =
      some (foldState [(107, lww 1 5 1), (107, lww 2 5 2), (108, lww 3 6 1)]) := by
  decide

example : (needsCompaction allOk 2 (after equalTimesOps)).2 = some true ∧
    (needsCompaction allOk 3 (after equalTimesOps)).2 = some false ∧
    (compactIfNeeded allOk cfgAll 2 100 (after equalTimesOps)).2 = .compacted [0, 1] 2 1 0 ∧
    (compactIfNeeded allOk cfgAll 3 100 (after equalTimesOps)).2 = .nothing := by
  decide

end C13
end RedisVerif
