import RedisVerif.Lemmas.ClusterInv
import RedisVerif.Lemmas.RegsUnique

/-!
# C06 — Replicas converge once updates are delivered

Model: `RedisVerif.Cluster` (`Model/Cluster.lean`): n replicas' replication states (M2), the
monotone history of issued deltas, and an arbitrary list of `deliver` events (any message to any
other node, any time, any number of times, any order).

Layer 1 (this file): convergence of the *replication state*.
* `rs_converges_of_kind_stable` — for every number of nodes, every schedule of local writes and
  deliveries (unbounded length), every key whose deltas keep ONE CRDT kind (`KindStable`,
  decidable): once every delta of the key has been applied at every other node (`Delivered`), all
  nodes hold the same CRDT content and the same stamp for that key — including the node that
  accepted the write.  (`rs_converges_partial` is the same under `Compat`; `Compat` is derived
  from `KindStable` by `compat_of_kind_stable`: canonical form and "a (slot, stamp) pair
  identifies one register" are proved of every execution in `Lemmas/RegsUnique.lean`.)
* `winner_is_max_stamp` — for an LWW (string) key the agreed register is the one with the
  greatest `(time, replica)` stamp among all writes of the key.
* Full statements `C06_rs_converges` (no `Compat`) and `C06_full_value_converges` (expiry
  included) are FALSE of the code: `cross_kind_divergence_counterexample`,
  `expiry_divergence_counterexample` (known findings).

Layer 2 (command → delta glue and re-materialisation into the executor, "what a replica serves
equals what its replication state says") is proved in `Props/C06Glue.lean` over the glue model
`Model/Glue.lean` (`served_equals_replicated_partial`, `converged_reads_equal_partial`, which
composes this file's `rs_converges_of_kind_stable` with the node invariant); see DESIGN.md §4 C06.
-/
namespace RedisVerif
namespace C06

open Cluster

/-- every delta issued for key `k` has been applied at every other node at least once -/
def Delivered (c : Cluster) (k : Nat) : Prop :=
  ∀ m ∈ c.sent, m.key = k → ∀ j, j < c.nodes.length → j ≠ m.origin →
    (⟨j, k, m.val⟩ : Absorbed) ∈ c.log

instance (c : Cluster) (k : Nat) : Decidable (Delivered c k) := by
  unfold Delivered; infer_instance

/-- all nodes agree on the CRDT content and stamp of key `k` -/
def Agree (c : Cluster) (k : Nat) : Prop :=
  ∀ (i j : Nat) (si sj : Shard), c.nodes[i]? = some si → c.nodes[j]? = some sj →
    (NMap.get si.keys k).map RV.strip = (NMap.get sj.keys k).map RV.strip

/-- … and on every field of the replicated value (expiry, vector clock, rf included) -/
def AgreeFull (c : Cluster) (k : Nat) : Prop :=
  ∀ (i j : Nat) (si sj : Shard), c.nodes[i]? = some si → c.nodes[j]? = some sj →
    NMap.get si.keys k = NMap.get sj.keys k

/-! ## full-strength statements -/

def C06_rs_converges : Prop :=
  ∀ (n : Nat) (causal : Bool) (evs : List Ev) (k : Nat),
    Delivered ((init n causal).run evs) k → Agree ((init n causal).run evs) k

def C06_full_value_converges : Prop :=
  ∀ (n : Nat) (causal : Bool) (evs : List Ev) (k : Nat),
    Delivered ((init n causal).run evs) k → AgreeFull ((init n causal).run evs) k

/-! ## the proved form -/

theorem same_absorbed {U : List Msg} {k K : Nat} {c : Cluster} (hj : J U k K c)
    (hd : Delivered c k) (i j : Nat) (hjlt : j < c.nodes.length) :
    ∀ v, v ∈ c.absorbed i k → v ∈ c.absorbed j k := by
  intro v hv
  simp only [absorbed, List.mem_filterMap] at hv ⊢
  obtain ⟨a, ha, hav⟩ := hv
  split at hav
  · rename_i hcond
    simp only [Option.some.injEq] at hav
    obtain ⟨m, hm, hmk, hmv⟩ := hj.log_sent a ha
    have hmk' : m.key = k := by rw [hmk]; exact hcond.2
    by_cases ho : j = m.origin
    · refine ⟨⟨m.origin, m.key, m.val⟩, hj.sent_log m hm, ?_⟩
      simp [ho, hmk', hmv, hav]
    · refine ⟨⟨j, k, m.val⟩, hd m hm hmk' j hjlt ho, ?_⟩
      simp [hmv, hav]
  · cases hav

/-- **C06 (replication state converges), partial**: hypothesis `Compat` on the deltas of the key
    (decidable).  What is missing for `C06_rs_converges`: keys whose deltas mix CRDT kinds
    (`cross_kind_divergence_counterexample`). -/
theorem rs_converges_partial (n : Nat) (causal : Bool) (evs : List Ev) (k K : Nat)
    (hc : Compat ((init n causal).run evs).sent k K)
    (hd : Delivered ((init n causal).run evs) k) : Agree ((init n causal).run evs) k := by
  have hj : J ((init n causal).run evs).sent k K ((init n causal).run evs) :=
    J_run hc (init n causal) evs (J_init _ k K n causal) (fun m hm => hm)
  intro i j si sj hsi hsj
  rw [hj.value i si hsi, hj.value j sj hsj]
  have hilt : i < ((init n causal).run evs).nodes.length := (List.getElem?_eq_some_iff.mp hsi).1
  have hjlt : j < ((init n causal).run evs).nodes.length := (List.getElem?_eq_some_iff.mp hsj).1
  exact foldOpt_eq_of_same_elems hc.1 (absorbed_in_carrier hc hj i) (absorbed_in_carrier hc hj j)
    (fun v => ⟨same_absorbed hj hd i j hjlt v, same_absorbed hj hd j i hilt v⟩)

/-- **C06 (the agreed value is the write with the greatest stamp)**, LWW keys: the register every
    node ends with is the register of some write of the key, and every other write of the key
    carries a strictly smaller stamp (or is that same register). -/
theorem winner_is_max_stamp (n : Nat) (causal : Bool) (evs : List Ev) (k : Nat)
    (hc : Compat ((init n causal).run evs).sent k 0)
    (hd : Delivered ((init n causal).run evs) k)
    (i : Nat) (si : Shard) (hsi : ((init n causal).run evs).nodes[i]? = some si)
    (v : RV) (hv : NMap.get si.keys k = some v) :
    ∃ r, v.crdt = .lww r ∧
      (∃ m ∈ ((init n causal).run evs).sent, m.key = k ∧ m.val.crdt = .lww r) ∧
      ∀ m ∈ ((init n causal).run evs).sent, m.key = k → ∀ r', m.val.crdt = .lww r' →
        (r'.ts.lt r.ts = true ∨ r' = r) := by
  have hj : J ((init n causal).run evs).sent k 0 ((init n causal).run evs) :=
    J_run hc (init n causal) evs (J_init _ k 0 n causal) (fun m hm => hm)
  have hilt : i < ((init n causal).run evs).nodes.length := (List.getElem?_eq_some_iff.mp hsi).1
  have hval := hj.value i si hsi
  rw [hv] at hval
  simp only [Option.map_some] at hval
  have hcar := absorbed_in_carrier hc hj i
  have hF : InCarrier 0 (regsOf ((init n causal).run evs).sent k) v.strip :=
    foldOpt_carrier hc.1 hcar hval.symm
  obtain ⟨r, hr⟩ := Shard.kind_lww (c := v.crdt) (by have := hF.2.1; simpa [RV.strip] using this)
  refine ⟨r, hr, ?_, ?_⟩
  · have := hF.2.2 (0, r) (by simp [RV.strip, hr, Crdt.slots])
    simp only [regsOf, List.mem_flatMap, List.mem_filter, decide_eq_true_eq] at this
    obtain ⟨m, ⟨hm, hmk⟩, hslot⟩ := this
    refine ⟨m, hm, hmk, ?_⟩
    have hk0 := (hc.2 m hm hmk).2
    obtain ⟨r0, hr0⟩ := Shard.kind_lww hk0
    rw [hr0] at hslot ⊢
    simp [Crdt.slots] at hslot
    rw [hslot]
  · intro m hm hmk r' hr'
    -- m was absorbed by node i, hence lies below the fold
    have hmabs : m.val.strip ∈ ((init n causal).run evs).absorbed i k := by
      simp only [absorbed, List.mem_filterMap]
      by_cases ho : i = m.origin
      · exact ⟨⟨m.origin, m.key, m.val⟩, hj.sent_log m hm, by simp [ho, hmk]⟩
      · exact ⟨⟨i, k, m.val⟩, hd m hm hmk i hilt ho, by simp⟩
    -- the fold is an upper bound
    have hle : ACI.le RV.merge m.val.strip v.strip := by
      cases hl : ((init n causal).run evs).absorbed i k with
      | nil => rw [hl] at hmabs; cases hmabs
      | cons a l =>
        rw [hl] at hval hmabs hcar
        simp only [foldOpt, Option.some.injEq] at hval
        have hub := (aci_rv 0 _ hc.1).fold_upper l a (hcar a (by simp))
          (fun b hb => hcar b (by simp [hb]))
        rw [hval]
        cases hmabs with
        | head => exact hub.1
        | tail _ h' => exact hub.2 _ h'
    unfold ACI.le at hle
    have hcr := congrArg RV.crdt hle
    simp only [RV.merge, RV.mergeWith, RV.strip, hr, hr', Crdt.mergeWithTimestamps,
      Crdt.tryMerge, Crdt.lww.injEq] at hcr
    simp only [Lww.merge] at hcr
    split at hcr
    · left; assumption
    · right; exact hcr

/-! ## the only real hypothesis is kind stability -/

/-- every delta issued for key `k` has CRDT kind `K` (decidable) -/
def KindStable (c : Cluster) (k K : Nat) : Prop := ∀ m ∈ c.sent, m.key = k → m.val.crdt.kind = K

instance (c : Cluster) (k K : Nat) : Decidable (KindStable c k K) := by
  unfold KindStable; infer_instance

/-- `Compat` follows from kind stability alone: canonical form and "a (slot, stamp) pair
    identifies one register" are theorems about every execution (`Lemmas/RegsUnique.lean`) -/
theorem compat_of_kind_stable (n : Nat) (causal : Bool) (evs : List Ev) (k K : Nat)
    (h : KindStable ((init n causal).run evs) k K) :
    Compat ((init n causal).run evs).sent k K :=
  ⟨regs_consistent_of_run n causal evs k,
    fun m hm hk => ⟨sent_wf_of_run n causal evs m hm, h m hm hk⟩⟩

/-- **C06 (replication state converges)** for every key that keeps one data type: any number of
    nodes, any history of local writes, any delivery schedule (order, duplication, redelivery). -/
theorem rs_converges_of_kind_stable (n : Nat) (causal : Bool) (evs : List Ev) (k K : Nat)
    (hk : KindStable ((init n causal).run evs) k K)
    (hd : Delivered ((init n causal).run evs) k) : Agree ((init n causal).run evs) k :=
  rs_converges_partial n causal evs k K (compat_of_kind_stable n causal evs k K hk) hd

/-- **C06 (greatest stamp wins)** for every key that only ever held strings -/
theorem winner_is_max_stamp_of_kind_stable (n : Nat) (causal : Bool) (evs : List Ev) (k : Nat)
    (hk : KindStable ((init n causal).run evs) k 0)
    (hd : Delivered ((init n causal).run evs) k)
    (i : Nat) (si : Shard) (hsi : ((init n causal).run evs).nodes[i]? = some si)
    (v : RV) (hv : NMap.get si.keys k = some v) :
    ∃ r, v.crdt = .lww r ∧
      (∃ m ∈ ((init n causal).run evs).sent, m.key = k ∧ m.val.crdt = .lww r) ∧
      ∀ m ∈ ((init n causal).run evs).sent, m.key = k → ∀ r', m.val.crdt = .lww r' →
        (r'.ts.lt r.ts = true ∨ r' = r) :=
  winner_is_max_stamp n causal evs k (compat_of_kind_stable n causal evs k 0 hk) hd i si hsi v hv

/-! ## counterexamples (known findings) -/

theorem agree_idx {c : Cluster} {k : Nat} (h : Agree c k) (i j : Nat) (hi : i < c.nodes.length)
    (hj : j < c.nodes.length) :
    (NMap.get c.nodes[i].keys k).map RV.strip = (NMap.get c.nodes[j].keys k).map RV.strip :=
  h i j _ _ (List.getElem?_eq_getElem hi) (List.getElem?_eq_getElem hj)

theorem agreeFull_idx {c : Cluster} {k : Nat} (h : AgreeFull c k) (i j : Nat)
    (hi : i < c.nodes.length) (hj : j < c.nodes.length) :
    NMap.get c.nodes[i].keys k = NMap.get c.nodes[j].keys k :=
  h i j _ _ (List.getElem?_eq_getElem hi) (List.getElem?_eq_getElem hj)

def kH : Nat := 104
def fF : Nat := 102
def fG : Nat := 103

/-- HSET h f 1; SET h v; HSET h g 2 on node 0; node 1 receives the three deltas in issue order,
    node 2 receives them as 2nd, 3rd, 1st.  Everything is delivered everywhere. -/
def crossKindRun : List Ev :=
  [ .loc 0 (.hwrite kH [(fF, [49])]), .loc 0 (.write kH [118] none), .loc 0 (.hwrite kH [(fG, [50])]),
    .deliver 1 0, .deliver 1 1, .deliver 1 2,
    .deliver 2 1, .deliver 2 2, .deliver 2 0 ]

/-- **Known finding C06:cross-kind-order** (consequence of C07:assoc:cross-kind): with a type
    change on the key, delivery order decides the surviving hash fields. -/
theorem cross_kind_divergence_counterexample :
    Delivered ((init 3 false).run crossKindRun) kH ∧ ¬ Agree ((init 3 false).run crossKindRun) kH := by
  refine ⟨by decide, ?_⟩
  intro h
  have := agree_idx h 1 2 (by decide) (by decide)
  revert this
  decide

theorem C06_rs_converges_false : ¬ C06_rs_converges := by
  intro h
  exact cross_kind_divergence_counterexample.2
    (h 3 false crossKindRun kH cross_kind_divergence_counterexample.1)

/-- SET k v1 PX 5000; SET k v2 on node 0, both delivered to node 1. -/
def expiryRun : List Ev :=
  [ .loc 0 (.write kH [1] (some 5000)), .loc 0 (.write kH [2] none), .deliver 1 0, .deliver 1 1 ]

/-- **Known finding C06:expiry-merge-max**: expiry is merged by `max`/`Some`-wins, so a later
    write without expiry clears it on the writer only; the peer keeps the old expiry. -/
theorem expiry_divergence_counterexample :
    Delivered ((init 2 false).run expiryRun) kH ∧ ¬ AgreeFull ((init 2 false).run expiryRun) kH := by
  refine ⟨by decide, ?_⟩
  intro h
  have := agreeFull_idx h 0 1 (by decide) (by decide)
  revert this
  decide

theorem C06_full_value_converges_false : ¬ C06_full_value_converges := by
  intro h
  exact expiry_divergence_counterexample.2
    (h 2 false expiryRun kH expiry_divergence_counterexample.1)

/-! ## non-vacuity: a concurrent, reordered, duplicated schedule meeting the hypotheses -/

def goodRun : List Ev :=
  [ .loc 0 (.write 7 [1] none), .loc 1 (.write 7 [2] none), .loc 2 (.write 7 [3] none),
    .deliver 0 1, .deliver 0 1, .deliver 1 2, .deliver 2 0, .loc 0 (.delete 7),
    .deliver 1 0, .deliver 0 2, .deliver 2 1, .deliver 1 3, .deliver 2 3, .deliver 2 3 ]

example : Compat ((init 3 true).run goodRun).sent 7 0 ∧ Delivered ((init 3 true).run goodRun) 7
    ∧ KindStable ((init 3 true).run goodRun) 7 0
    ∧ ((init 3 true).run goodRun).sent.length = 4 := by
  decide

end C06
end RedisVerif
