import RedisVerif.Lemmas.ClusterInv
import RedisVerif.Lemmas.RegsUnique
import RedisVerif.Lemmas.TwoDeltas

/-!
# C06 — Replicas converge once updates are delivered

Model: `RedisVerif.Cluster` (`Model/Cluster.lean`): n replicas' replication states (M2), the
monotone history of issued deltas, and an arbitrary list of `deliver` events (any message to any
other node, any time, any number of times, any order).

Layer 1 (this file): convergence of the *replication state*.
* `rs_converges_of_kind_stable` — for every number of nodes, every schedule of local writes and
  deliveries (unbounded length), every key whose deltas keep ONE CRDT kind (`KindStable`,
  decidable): once every delta of the key has been applied at every other node (`Delivered`), all
  nodes hold the same CRDT content and the same stamp for that key — including the node that
  accepted the write.  (`rs_converges_partial` is the same under `Compat`; `Compat` is derived
  from `KindStable` by `compat_of_kind_stable`: canonical form and "a (slot, stamp) pair
  identifies one register" are proved of every execution in `Lemmas/RegsUnique.lean`.)
* `rs_converges_two_deltas` — WITHOUT kind stability: a key with at most two distinct deltas in
  the whole history (any kinds, e.g. a concurrent `SET` and `HSET` with equal Lamport time on two
  nodes) converges once both are delivered everywhere, in any order and with any duplication;
  only commutativity and idempotence of the merge are used (`Lemmas/TwoDeltas.lean`).  So
  `cross_kind_divergence_counterexample` (three deltas, non-associativity) is the smallest shape
  of the known finding `C06:cross-kind-order`.
* `delta_outer_stamp_dominates`, `receiver_clock_dominates_stored`,
  `receiver_next_write_above_stored`, `sent_dominated_of_run` — the outer stamp of every shipped
  delta dominates the register stamps inside it, so a receiver (whose clock follows outer stamps
  only) writes above everything it stored; `hdel_keeps_outer_stamp_counterexample`: a `hash_delete`
  that leaves the outer stamp alone breaks exactly this (write-after-receive diverges).
* `winner_is_max_stamp` — for an LWW (string) key the agreed register is the one with the
  greatest `(time, replica)` stamp among all writes of the key.
* Full statements `C06_rs_converges` (no `Compat`) and `C06_full_value_converges` (expiry
  included) are FALSE of the code: `cross_kind_divergence_counterexample`,
  `expiry_divergence_counterexample` (known findings).

Layer 2 (command → delta glue and re-materialisation into the executor, "what a replica serves
equals what its replication state says") is proved in `Props/C06Glue.lean` over the glue model
`Model/Glue.lean` (`served_equals_replicated_partial`, `converged_reads_equal_partial`, which
composes this file's `rs_converges_of_kind_stable` with the node invariant); see DESIGN.md §4 C06.
-/
namespace RedisVerif
namespace C06

open Cluster

/-- every delta issued for key `k` has been applied at every other node at least once -/
def Delivered (c : Cluster) (k : Nat) : Prop :=
  ∀ m ∈ c.sent, m.key = k → ∀ j, j < c.nodes.length → j ≠ m.origin →
    (⟨j, k, m.val⟩ : Absorbed) ∈ c.log

instance (c : Cluster) (k : Nat) : Decidable (Delivered c k) := by
  unfold Delivered; infer_instance

/-- all nodes agree on the CRDT content and stamp of key `k` -/
def Agree (c : Cluster) (k : Nat) : Prop :=
  ∀ (i j : Nat) (si sj : Shard), c.nodes[i]? = some si → c.nodes[j]? = some sj →
    (NMap.get si.keys k).map RV.strip = (NMap.get sj.keys k).map RV.strip

/-- … and on every field of the replicated value (expiry, vector clock, rf included) -/
def AgreeFull (c : Cluster) (k : Nat) : Prop :=
  ∀ (i j : Nat) (si sj : Shard), c.nodes[i]? = some si → c.nodes[j]? = some sj →
    NMap.get si.keys k = NMap.get sj.keys k

/-! ## full-strength statements -/

def C06_rs_converges : Prop :=
  ∀ (n : Nat) (causal : Bool) (evs : List Ev) (k : Nat),
    Delivered ((init n causal).run evs) k → Agree ((init n causal).run evs) k

def C06_full_value_converges : Prop :=
  ∀ (n : Nat) (causal : Bool) (evs : List Ev) (k : Nat),
    Delivered ((init n causal).run evs) k → AgreeFull ((init n causal).run evs) k

/-! ## the proved form -/

theorem same_absorbed {U : List Msg} {k K : Nat} {c : Cluster} (hj : J U k K c) (hsl : SentLog c)
    (hd : Delivered c k) (i j : Nat) (hjlt : j < c.nodes.length) :
    ∀ v, v ∈ c.absorbed i k → v ∈ c.absorbed j k := by
  intro v hv
  simp only [absorbed, List.mem_filterMap] at hv ⊢
  obtain ⟨a, ha, hav⟩ := hv
  split at hav
  · rename_i hcond
    simp only [Option.some.injEq] at hav
    obtain ⟨m, hm, hmk, hmv⟩ := hj.log_sent a ha
    have hmk' : m.key = k := by rw [hmk]; exact hcond.2
    by_cases ho : j = m.origin
    · refine ⟨⟨m.origin, m.key, m.val⟩, hsl m hm, ?_⟩
      simp [ho, hmk', hmv, hav]
    · refine ⟨⟨j, k, m.val⟩, hd m hm hmk' j hjlt ho, ?_⟩
      simp [hmv, hav]
  · cases hav

/-- **C06 (replication state converges), partial**: hypothesis `Compat` on the deltas of the key
    (decidable).  What is missing for `C06_rs_converges`: keys whose deltas mix CRDT kinds
    (`cross_kind_divergence_counterexample`). -/
theorem rs_converges_partial (n : Nat) (causal : Bool) (evs : List Ev) (k K : Nat)
    (hc : Compat ((init n causal).run evs).sent k K)
    (hd : Delivered ((init n causal).run evs) k) : Agree ((init n causal).run evs) k := by
  have hj : J ((init n causal).run evs).sent k K ((init n causal).run evs) :=
    J_run hc (init n causal) evs (J_init _ k K n causal) (fun m hm => hm)
  intro i j si sj hsi hsj
  rw [hj.value i si hsi, hj.value j sj hsj]
  have hilt : i < ((init n causal).run evs).nodes.length := (List.getElem?_eq_some_iff.mp hsi).1
  have hjlt : j < ((init n causal).run evs).nodes.length := (List.getElem?_eq_some_iff.mp hsj).1
  exact foldOpt_eq_of_same_elems hc.1 (absorbed_in_carrier hc hj i) (absorbed_in_carrier hc hj j)
    (fun v => ⟨same_absorbed hj (sentLog_run _ evs (sentLog_init n causal)) hd i j hjlt v, same_absorbed hj (sentLog_run _ evs (sentLog_init n causal)) hd j i hilt v⟩)

/-- **C06 (the agreed value is the write with the greatest stamp)**, LWW keys: the register every
    node ends with is the register of some write of the key, and every other write of the key
    carries a strictly smaller stamp (or is that same register). -/
theorem winner_is_max_stamp (n : Nat) (causal : Bool) (evs : List Ev) (k : Nat)
    (hc : Compat ((init n causal).run evs).sent k 0)
    (hd : Delivered ((init n causal).run evs) k)
    (i : Nat) (si : Shard) (hsi : ((init n causal).run evs).nodes[i]? = some si)
    (v : RV) (hv : NMap.get si.keys k = some v) :
    ∃ r, v.crdt = .lww r ∧
      (∃ m ∈ ((init n causal).run evs).sent, m.key = k ∧ m.val.crdt = .lww r) ∧
      ∀ m ∈ ((init n causal).run evs).sent, m.key = k → ∀ r', m.val.crdt = .lww r' →
        (r'.ts.lt r.ts = true ∨ r' = r) := by
  have hj : J ((init n causal).run evs).sent k 0 ((init n causal).run evs) :=
    J_run hc (init n causal) evs (J_init _ k 0 n causal) (fun m hm => hm)
  have hilt : i < ((init n causal).run evs).nodes.length := (List.getElem?_eq_some_iff.mp hsi).1
  have hval := hj.value i si hsi
  rw [hv] at hval
  simp only [Option.map_some] at hval
  have hcar := absorbed_in_carrier hc hj i
  have hF : InCarrier 0 (regsOf ((init n causal).run evs).sent k) v.strip :=
    foldOpt_carrier hc.1 hcar hval.symm
  obtain ⟨r, hr⟩ := Shard.kind_lww (c := v.crdt) (by have := hF.2.1; simpa [RV.strip] using this)
  refine ⟨r, hr, ?_, ?_⟩
  · have := hF.2.2 (0, r) (by simp [RV.strip, hr, Crdt.slots])
    simp only [regsOf, List.mem_flatMap, List.mem_filter, decide_eq_true_eq] at this
    obtain ⟨m, ⟨hm, hmk⟩, hslot⟩ := this
    refine ⟨m, hm, hmk, ?_⟩
    have hk0 := (hc.2 m hm hmk).2
    obtain ⟨r0, hr0⟩ := Shard.kind_lww hk0
    rw [hr0] at hslot ⊢
    simp [Crdt.slots] at hslot
    rw [hslot]
  · intro m hm hmk r' hr'
    -- m was absorbed by node i, hence lies below the fold
    have hmabs : m.val.strip ∈ ((init n causal).run evs).absorbed i k := by
      simp only [absorbed, List.mem_filterMap]
      by_cases ho : i = m.origin
      · exact ⟨⟨m.origin, m.key, m.val⟩, sentLog_run _ evs (sentLog_init n causal) m hm, by simp [ho, hmk]⟩
      · exact ⟨⟨i, k, m.val⟩, hd m hm hmk i hilt ho, by simp⟩
    -- the fold is an upper bound
    have hle : ACI.le RV.merge m.val.strip v.strip := by
      cases hl : ((init n causal).run evs).absorbed i k with
      | nil => rw [hl] at hmabs; cases hmabs
      | cons a l =>
        rw [hl] at hval hmabs hcar
        simp only [foldOpt, Option.some.injEq] at hval
        have hub := (aci_rv 0 _ hc.1).fold_upper l a (hcar a (by simp))
          (fun b hb => hcar b (by simp [hb]))
        rw [hval]
        cases hmabs with
        | head => exact hub.1
        | tail _ h' => exact hub.2 _ h'
    unfold ACI.le at hle
    have hcr := congrArg RV.crdt hle
    simp only [RV.merge, RV.mergeWith, RV.strip, hr, hr', Crdt.mergeWithTimestamps,
      Crdt.tryMerge, Crdt.lww.injEq] at hcr
    simp only [Lww.merge] at hcr
    split at hcr
    · left; assumption
    · right; exact hcr

/-! ## the only real hypothesis is kind stability -/

/-- every delta issued for key `k` has CRDT kind `K` (decidable) -/
def KindStable (c : Cluster) (k K : Nat) : Prop := ∀ m ∈ c.sent, m.key = k → m.val.crdt.kind = K

instance (c : Cluster) (k K : Nat) : Decidable (KindStable c k K) := by
  unfold KindStable; infer_instance

/-- `Compat` follows from kind stability alone: canonical form and "a (slot, stamp) pair
    identifies one register" are theorems about every execution (`Lemmas/RegsUnique.lean`) -/
theorem compat_of_kind_stable (n : Nat) (causal : Bool) (evs : List Ev) (k K : Nat)
    (h : KindStable ((init n causal).run evs) k K) :
    Compat ((init n causal).run evs).sent k K :=
  ⟨regs_consistent_of_run n causal evs k,
    fun m hm hk => ⟨sent_wf_of_run n causal evs m hm, h m hm hk⟩⟩

/-- **C06 (replication state converges)** for every key that keeps one data type: any number of
    nodes, any history of local writes, any delivery schedule (order, duplication, redelivery). -/
theorem rs_converges_of_kind_stable (n : Nat) (causal : Bool) (evs : List Ev) (k K : Nat)
    (hk : KindStable ((init n causal).run evs) k K)
    (hd : Delivered ((init n causal).run evs) k) : Agree ((init n causal).run evs) k :=
  rs_converges_partial n causal evs k K (compat_of_kind_stable n causal evs k K hk) hd

/-- **C06 (greatest stamp wins)** for every key that only ever held strings -/
theorem winner_is_max_stamp_of_kind_stable (n : Nat) (causal : Bool) (evs : List Ev) (k : Nat)
    (hk : KindStable ((init n causal).run evs) k 0)
    (hd : Delivered ((init n causal).run evs) k)
    (i : Nat) (si : Shard) (hsi : ((init n causal).run evs).nodes[i]? = some si)
    (v : RV) (hv : NMap.get si.keys k = some v) :
    ∃ r, v.crdt = .lww r ∧
      (∃ m ∈ ((init n causal).run evs).sent, m.key = k ∧ m.val.crdt = .lww r) ∧
      ∀ m ∈ ((init n causal).run evs).sent, m.key = k → ∀ r', m.val.crdt = .lww r' →
        (r'.ts.lt r.ts = true ∨ r' = r) :=
  winner_is_max_stamp n causal evs k (compat_of_kind_stable n causal evs k 0 hk) hd i si hsi v hv

/-! ## counterexamples (known findings) -/

theorem agree_idx {c : Cluster} {k : Nat} (h : Agree c k) (i j : Nat) (hi : i < c.nodes.length)
    (hj : j < c.nodes.length) :
    (NMap.get c.nodes[i].keys k).map RV.strip = (NMap.get c.nodes[j].keys k).map RV.strip :=
  h i j _ _ (List.getElem?_eq_getElem hi) (List.getElem?_eq_getElem hj)

theorem agreeFull_idx {c : Cluster} {k : Nat} (h : AgreeFull c k) (i j : Nat)
    (hi : i < c.nodes.length) (hj : j < c.nodes.length) :
    NMap.get c.nodes[i].keys k = NMap.get c.nodes[j].keys k :=
  h i j _ _ (List.getElem?_eq_getElem hi) (List.getElem?_eq_getElem hj)

def kH : Nat := 104
def fF : Nat := 102
def fG : Nat := 103

/-- HSET h f 1; SET h v; HSET h g 2 on node 0; node 1 receives the three deltas in issue order,
    node 2 receives them as 2nd, 3rd, 1st.  Everything is delivered everywhere. -/
def crossKindRun : List Ev :=
  [ .loc 0 (.hwrite kH [(fF, [49])]), .loc 0 (.write kH [118] none), .loc 0 (.hwrite kH [(fG, [50])]),
    .deliver 1 0, .deliver 1 1, .deliver 1 2,
    .deliver 2 1, .deliver 2 2, .deliver 2 0 ]

/-- **Known finding C06:cross-kind-order** (consequence of C07:assoc:cross-kind): with a type
    change on the key, delivery order decides the surviving hash fields. -/
theorem cross_kind_divergence_counterexample :
    Delivered ((init 3 false).run crossKindRun) kH ∧ ¬ Agree ((init 3 false).run crossKindRun) kH := by
  refine ⟨by decide, ?_⟩
  intro h
  have := agree_idx h 1 2 (by decide) (by decide)
  revert this
  decide

theorem C06_rs_converges_false : ¬ C06_rs_converges := by
  intro h
  exact cross_kind_divergence_counterexample.2
    (h 3 false crossKindRun kH cross_kind_divergence_counterexample.1)

/-- SET k v1 PX 5000; SET k v2 on node 0, both delivered to node 1. -/
def expiryRun : List Ev :=
  [ .loc 0 (.write kH [1] (some 5000)), .loc 0 (.write kH [2] none), .deliver 1 0, .deliver 1 1 ]

/-- **Known finding C06:expiry-merge-max**: expiry is merged by `max`/`Some`-wins, so a later
    write without expiry clears it on the writer only; the peer keeps the old expiry. -/
theorem expiry_divergence_counterexample :
    Delivered ((init 2 false).run expiryRun) kH ∧ ¬ AgreeFull ((init 2 false).run expiryRun) kH := by
  refine ⟨by decide, ?_⟩
  intro h
  have := agreeFull_idx h 0 1 (by decide) (by decide)
  revert this
  decide

theorem C06_full_value_converges_false : ¬ C06_full_value_converges := by
  intro h
  exact expiry_divergence_counterexample.2
    (h 2 false expiryRun kH expiry_divergence_counterexample.1)

/-! ## convergence without kind stability: at most two distinct deltas -/

/-- no `HSET` without a pair (the parser never produces one; `record_hash_write` with no field
    keeps the old stamp, so it would be a type change that does not absorb the old value) -/
def emptyHWrite : Ev → Bool
  | .loc _ (.hwrite _ []) => true
  | _ => false

def NoEmptyHWrite (evs : List Ev) : Prop := ∀ e ∈ evs, emptyHWrite e = false

instance (evs : List Ev) : Decidable (NoEmptyHWrite evs) := by
  unfold NoEmptyHWrite; infer_instance

/-- the distinct things replicas have to agree on for key `k`: the stripped deltas -/
def deltasOf (c : Cluster) (k : Nat) : List RV :=
  (c.sent.filter (fun m => m.key = k)).map (·.val.strip)

/-- at most two distinct deltas for the key, tie-consistent with each other (decidable) -/
def TwoDeltas (c : Cluster) (k : Nat) : Prop :=
  deltasOf c k = [] ∨
  ∃ a ∈ deltasOf c k, ∃ b ∈ deltasOf c k,
    (∀ x ∈ deltasOf c k, x = a ∨ x = b) ∧ C07.TieConsistent a b

instance (c : Cluster) (k : Nat) : Decidable (TwoDeltas c k) := by
  unfold TwoDeltas; infer_instance

/-- **C06 (replication state converges), two deltas, any kinds**: for every number of nodes and
    every history (no empty HSET), a key for which at most two distinct deltas were ever issued —
    of the same or of DIFFERENT CRDT kinds, with equal or different Lamport times — is held
    identically by all nodes once every delta has been applied everywhere, whatever the order
    and the duplication.  No `KindStable`. -/
theorem rs_converges_two_deltas (n : Nat) (causal : Bool) (evs : List Ev) (k : Nat)
    (hne : NoEmptyHWrite evs)
    (h2 : TwoDeltas ((init n causal).run evs) k)
    (hd : Delivered ((init n causal).run evs) k) : Agree ((init n causal).run evs) k := by
  have hne' : ∀ e ∈ evs, ∀ i k', e ≠ .loc i (.hwrite k' []) := by
    intro e he i k' heq
    have := hne e he
    rw [heq] at this
    simp [emptyHWrite] at this
  have hj : J ((init n causal).run evs).sent k 0 ((init n causal).run evs) :=
    J_run_any (init n causal) evs hne' (J_init _ k 0 n causal) (fun m hm => hm)
  intro i j si sj hsi hsj
  rw [hj.value i si hsi, hj.value j sj hsj]
  have hilt : i < ((init n causal).run evs).nodes.length := (List.getElem?_eq_some_iff.mp hsi).1
  have hjlt : j < ((init n causal).run evs).nodes.length := (List.getElem?_eq_some_iff.mp hsj).1
  have hsame : ∀ v, v ∈ ((init n causal).run evs).absorbed i k ↔
      v ∈ ((init n causal).run evs).absorbed j k :=
    fun v => ⟨same_absorbed hj (sentLog_run _ evs (sentLog_init n causal)) hd i j hjlt v, same_absorbed hj (sentLog_run _ evs (sentLog_init n causal)) hd j i hilt v⟩
  -- everything absorbed is one of the deltas of the key
  have hin : ∀ i' v, v ∈ ((init n causal).run evs).absorbed i' k →
      v ∈ deltasOf ((init n causal).run evs) k ∧ v.WF := by
    intro i' v hv
    simp only [absorbed, List.mem_filterMap] at hv
    obtain ⟨a, ha, hav⟩ := hv
    split at hav
    · rename_i hcond
      simp only [Option.some.injEq] at hav
      obtain ⟨m, hm, hmk, hmv⟩ := hj.log_sent a ha
      refine ⟨?_, ?_⟩
      · simp only [deltasOf, List.mem_map, List.mem_filter, decide_eq_true_eq]
        exact ⟨m, ⟨hm, by rw [hmk]; exact hcond.2⟩, by rw [hmv, hav]⟩
      · rw [← hav, ← hmv]; exact TwoDeltas.strip_wf (hj.sent_ok m hm).2
    · cases hav
  rcases h2 with hnil | ⟨a, ha, b, hb, hall, htie⟩
  · -- no delta at all: nobody holds the key
    have hnone : ∀ i', ((init n causal).run evs).absorbed i' k = [] := by
      intro i'
      cases hl : ((init n causal).run evs).absorbed i' k with
      | nil => rfl
      | cons v l =>
        have := (hin i' v (by rw [hl]; simp)).1
        rw [hnil] at this; cases this
    rw [hnone i, hnone j]
  · have hwf : ∀ x ∈ deltasOf ((init n causal).run evs) k, x.WF ∧ TwoDeltas.Stripped x := by
      intro x hx
      simp only [deltasOf, List.mem_map, List.mem_filter] at hx
      obtain ⟨m, ⟨hm, _⟩, rfl⟩ := hx
      exact ⟨TwoDeltas.strip_wf (hj.sent_ok m hm).2, TwoDeltas.stripped_strip _⟩
    have t := TwoDeltas.table (hwf a ha).1 (hwf b hb).1 (hwf a ha).2 (hwf b hb).2 htie
    have hcar : ∀ i' v, v ∈ ((init n causal).run evs).absorbed i' k → TwoDeltas.In a b v := by
      intro i' v hv
      rcases hall v (hin i' v hv).1 with h | h
      · exact Or.inl h
      · exact Or.inr (Or.inl h)
    exact foldOpt_eq_of_aci (TwoDeltas.aci t) (hcar i) (hcar j) hsame

/-- the concurrent first writes of two kinds with EQUAL Lamport time: node 0 `SET p v` @(1,r1),
    node 1 `HSET p f x` @(1,r2), cross-delivered with a duplicate -/
def tieRun : List Ev :=
  [ .loc 0 (.write kH [118] none), .loc 1 (.hwrite kH [(fF, [120])]),
    .deliver 1 0, .deliver 0 1, .deliver 1 0 ]

example : NoEmptyHWrite tieRun ∧ TwoDeltas ((init 2 false).run tieRun) kH ∧
    Delivered ((init 2 false).run tieRun) kH ∧
    ¬ KindStable ((init 2 false).run tieRun) kH 0 ∧ ¬ KindStable ((init 2 false).run tieRun) kH 5 ∧
    (((init 2 false).run tieRun).sent.map (·.val.ts)) = [⟨1, 1⟩, ⟨1, 2⟩] := by
  decide

section Domination
open Shard

/-! ## what a node ships dominates what it carries (why write-after-receive converges)

The convergence proofs above use this through `J.sent_ok` / `Shard.Inv` (clock domination, C08):
a delivered delta advances the receiver's Lamport clock only by its OUTER stamp
(`apply_remote_delta`: `lamport_clock.update(&delta.value.timestamp)`), so the receiver's next
write is stamped above the registers it just stored only because the outer stamp of every shipped
delta dominates every register stamp inside it. -/


/-- **every delta a node ships has an outer stamp ≥ (in time) every register stamp inside it**
    — all local operations of M2: `record_write`, `record_delete`, `record_hash_write`,
    `record_hash_delete` (each per-field tick is followed by `self.timestamp = *clock`) -/
theorem delta_outer_stamp_dominates (s : Shard) (op : LOp) (d : RV) (h : s.Inv)
    (hd : (step s op.toOp).2 = some d) : d.Dominated := by
  have hinv' : (step s op.toOp).1.Inv := C08.inv_step s op.toOp h (by cases op <;> trivial)
  have hget := Shard.local_get s op d hd
  exact (C08.dominated_of_get hinv' hget).2

/-- **a receiver that adopts the outer stamp of a dominated delta has a clock ≥ everything it
    stores** (outer and inner stamps of every key, the merged one included) -/
theorem receiver_clock_dominates_stored (r : Shard) (k : Nat) (d : RV) (h : r.Inv) (hd : d.Dominated) :
    ∀ p ∈ (applyRemote r k d).keys, ∀ t ∈ p.2.allStamps, t.time ≤ (applyRemote r k d).clock.time := by
  have hinv := C08.inv_remote r k d h hd
  intro p hp t ht
  have ⟨h1, h2⟩ := hinv.2 p hp
  simp only [RV.allStamps, List.mem_cons] at ht
  rcases ht with rfl | ht
  · exact h1
  · exact Nat.le_trans (h2 t ht) h1

/-- … hence its next effective write is stamped above every register it holds: it cannot be
    beaten, at any replica, by something it had already stored -/
theorem receiver_next_write_above_stored (r : Shard) (k : Nat) (d : RV) (h : r.Inv) (hd : d.Dominated)
    (w : Op) (dw : RV) (he : effective (applyRemote r k d) w = true)
    (hw : (step (applyRemote r k d) w).2 = some dw) :
    ∀ p ∈ (applyRemote r k d).keys, ∀ t ∈ p.2.allStamps, t.lt dw.ts = true :=
  C08.issued_stamp_gt_seen (applyRemote r k d) w dw (C08.inv_remote r k d h hd) he hw

/-- the variant of `hash_delete` that leaves the outer stamp alone (A: HSET p f1..f4; HDEL p f1..f4):
    the shipped delta is not dominated; the receiver B (which had the HSET) ends with a clock BELOW a
    tombstone it stores, its HSET of f4 is stamped below that tombstone, and A drops the write -/
theorem hdel_keeps_outer_stamp_counterexample :
    let a0 := (recordHashWrite (Shard.init 1 false) 9 [(1, [49]), (2, [49]), (3, [49]), (4, [49])])
    let b0 := applyRemote (Shard.init 2 false) 9 a0.2
    let del := recordHashDeleteKeepOuter a0.1 9 [1, 2, 3, 4]
    ∃ d, del.2 = some d ∧ ¬ d.Dominated ∧
      (let b1 := applyRemote b0 9 d
       let w := recordHashWrite b1 9 [(4, [122])]
       b1.clock.time < 8 ∧ w.2.ts.time = 7 ∧
       (RV.merge d w.2).crdt.hashOf.map (fun p => (p.1, p.2.tomb)) =
         [(1, true), (2, true), (3, true), (4, true)]) := by
  decide


end Domination

/-- every message ever sent in any execution is dominated, and every node is clock-dominated -/
theorem sent_dominated_of_run (n : Nat) (causal : Bool) (evs : List Ev) :
    (∀ s ∈ ((init n causal).run evs).nodes, s.Inv) ∧
    (∀ m ∈ ((init n causal).run evs).sent, m.val.Dominated) := by
  have gen : ∀ (evs : List Ev) (c : Cluster), (∀ s ∈ c.nodes, s.Inv) → (∀ m ∈ c.sent, m.val.Dominated) →
      (∀ s ∈ (c.run evs).nodes, s.Inv) ∧ (∀ m ∈ (c.run evs).sent, m.val.Dominated) := by
    intro evs
    induction evs with
    | nil => intro c h1 h2; exact ⟨h1, h2⟩
    | cons e evs ih =>
      intro c h1 h2
      apply ih (c.step e)
      · cases e with
        | loc i op =>
          simp only [step]
          cases hs : c.nodes[i]? with
          | none => exact h1
          | some s =>
            have hinv' := C08.inv_step s op.toOp (h1 s (List.mem_of_getElem? hs)) (by cases op <;> trivial)
            simp only
            split <;>
            · intro x hx
              rcases mem_set hx with hx | hx
              · subst hx; exact hinv'
              · exact h1 x hx
        | deliver j idx =>
          simp only [step]
          cases hs : c.nodes[j]? with
          | none => exact h1
          | some s =>
            cases hm : c.sent[idx]? with
            | none => exact h1
            | some m =>
              simp only
              intro x hx
              rcases mem_set hx with hx | hx
              · subst hx
                exact C08.inv_remote s m.key m.val (h1 s (List.mem_of_getElem? hs))
                  (h2 m (List.mem_of_getElem? hm))
              · exact h1 x hx
      · cases e with
        | loc i op =>
          simp only [step]
          cases hs : c.nodes[i]? with
          | none => exact h2
          | some s =>
            simp only
            cases hd : (Shard.step s op.toOp).2 with
            | none => exact h2
            | some d =>
              simp only
              intro m hm
              rcases List.mem_append.mp hm with hm | hm
              · exact h2 m hm
              · simp only [List.mem_singleton] at hm
                subst hm
                exact delta_outer_stamp_dominates s op d (h1 s (List.mem_of_getElem? hs)) hd
        | deliver j idx =>
          simp only [step]
          cases hs : c.nodes[j]? with
          | none => exact h2
          | some s =>
            cases hm : c.sent[idx]? with
            | none => exact h2
            | some m =>
              simp only
              exact h2
  apply gen evs (init n causal)
  · intro s hs
    simp only [init, List.mem_map] at hs
    obtain ⟨i, _, rfl⟩ := hs
    exact Shard.inv_init _ _
  · intro m hm; cases hm


/-! ## non-vacuity: a concurrent, reordered, duplicated schedule meeting the hypotheses -/

def goodRun : List Ev :=
  [ .loc 0 (.write 7 [1] none), .loc 1 (.write 7 [2] none), .loc 2 (.write 7 [3] none),
    .deliver 0 1, .deliver 0 1, .deliver 1 2, .deliver 2 0, .loc 0 (.delete 7),
    .deliver 1 0, .deliver 0 2, .deliver 2 1, .deliver 1 3, .deliver 2 3, .deliver 2 3 ]

example : Compat ((init 3 true).run goodRun).sent 7 0 ∧ Delivered ((init 3 true).run goodRun) 7
    ∧ KindStable ((init 3 true).run goodRun) 7 0
    ∧ ((init 3 true).run goodRun).sent.length = 4 := by
  decide

end C06
end RedisVerif
