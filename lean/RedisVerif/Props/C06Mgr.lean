import RedisVerif.Props.C06Heal

/-!
# C06 over the `AntiEntropyManager` message protocol

`AE.Mgr` (`Model/AntiEntropy.lean`, tied to the real manager by C18's `M*` ops) answers a
`SyncRequest` — built from digests of ANY age, for a bucket list or the whole state — from the
responder's CURRENT state, and the requester merges the `SyncResponse` whenever it arrives.

* `mgr_response_is_transfers` — the response is, delta by delta, a state transfer of layer 1 with
  transfers (`Model/ClusterAE.lean`): building it = `snapshot` events at the responder;
* `mgr_merge_is_apply` — merging it (at once, late, twice) = `applySnap` events at the requester;
  the requester's key map afterwards is `applyDeltas` of the response (C18's `stale_pull_merges`
  describes it key by key).

So every execution that interleaves client writes, gossip deliveries and manager-protocol pulls in
any order, with any loss, is an execution of `ACluster`, and `rs_converges_among_ae` /
`winner_is_max_stamp_ae` hold of it: once every update of a key has reached every responsible
replica — inside a `SyncResponse` or as a gossiped delta — they agree.
`mgr_pull_repairs_loss_witness`: a delta lost for good, repaired by one full-state pull whose
response is merged late, after another write.
-/
namespace RedisVerif
namespace C06

open Cluster ACluster SimC AE

/-- the responder's side of a pull -/
def pullEvs (p : Nat) (resp : List (Nat × RV)) : List AEv := resp.map (fun q => AEv.snapshot p q.1)

/-- the requester's side: the transfers `start … start+len-1` -/
def mergeEvs (r start len : Nat) : List AEv := (List.range' start len).map (fun i => AEv.applySnap r i)

/-- **a `SyncResponse` is a block of state transfers** -/
theorem mgr_response_is_transfers (H : Hasher) (m : Mgr) (req : Request) (C : ACluster) (p : Nat) (sp : Shard)
    (hp : C.base.nodes[p]? = some sp) (hwf : NMap.WF sp.keys) :
    C.run (pullEvs p (m.handleSyncRequest H req (NMap.keys sp.keys) sp.keys).2.deltas) =
      { C with snaps := C.snaps ++
          Sim.snapsOf C.base.log p (m.handleSyncRequest H req (NMap.keys sp.keys) sp.keys).2.deltas } := by
  apply run_snapshots p sp _ C hp
  intro q hq
  exact (C18.stale_pull_merges H m req (NMap.keys sp.keys) sp.keys [] hwf (List.Perm.refl _) 0).1 q hq

/-- **merging a response is applying its transfers**, whenever that happens: `sn` = the block at
    positions `start …` of the transfers in flight, `sr` = the requester's state AT MERGE TIME -/
theorem mgr_merge_is_apply (C : ACluster) (r : Nat) (sr : Shard) (hr : C.base.nodes[r]? = some sr)
    (sn : List Snap) (start : Nat) (hsn : ∀ t, t < sn.length → C.snaps[start + t]? = sn[t]?) :
    C.run (mergeEvs r start sn.length) =
      { C with base := { C.base with
          nodes := C.base.nodes.set r (Gossip.MCluster.applyAll sr (sn.map snapMsg))
          log := C.base.log ++ Sim.absorbedOf r sn } } :=
  run_applySnaps r sn start sr C hr hsn

/-- … and the requester's keys afterwards are `applyDeltas` of the response -/
theorem mgr_merge_keys (src : Nat) (resp : List (Nat × RV)) (log : List Absorbed) (sr : Shard) :
    (Gossip.MCluster.applyAll sr ((Sim.snapsOf log src resp).map snapMsg)).keys = applyDeltas sr.keys resp := by
  rw [snapsOf_msgs, applyAll_keys]

/-! ## witness -/

def mgr0 : Mgr := Mgr.new 1 1 1000 1000 true

/-- node 0 accepts `SET x a`, `SET x b`; node 1 gets only the first delta (the second is lost for
    good).  Node 0 answers a full-state `SyncRequest` of node 1 (response = transfers 0 …); node 0
    then accepts `SET y c`; the response is merged LATE at node 1, twice: node 1 holds `b` for `x`
    — every update of `x` has reached it — and nothing yet for `y` (written after the answer). -/
theorem mgr_pull_repairs_loss_witness :
    let c0 := (ACluster.init 2 false).run
      [ .ev (.loc 0 (.write kX [97] none)), .ev (.loc 0 (.write kX [98] none)), .ev (.deliver 1 0) ]
    let resp := (mgr0.handleSyncRequest idealH ⟨2, 1, default, none⟩ [kX] (c0.base.nodes[0]?.map (·.keys)).get!).2.deltas
    let c := c0.run (pullEvs 0 resp ++ [.ev (.loc 0 (.write kY [99] none))] ++ mergeEvs 1 0 resp.length ++ mergeEvs 1 0 resp.length)
    resp.map (·.1) = [kX] ∧ valAt c0 1 kX = some (some [97]) ∧
    valAt c 1 kX = some (some [98]) ∧ valAt c 0 kX = some (some [98]) ∧ valAt c 1 kY = some none ∧
    Delivered c.base kX ∧ KindStable c.base kX 0 ∧ ¬ Delivered c.base kY := by
  decide

end C06
end RedisVerif
