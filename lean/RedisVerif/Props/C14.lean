import RedisVerif.Model.Codec
import RedisVerif.Lemmas.Codec
import RedisVerif.Props.C10

/-!
# C14 — Stored and gossiped updates round-trip; damaged storage is detected, not decoded

Model: `RedisVerif.Codec` (M5: segment and checkpoint framing) and `RedisVerif.Wal` (WAL entry),
over PARAMETERS `crc` (crc32fast), `ser`/`de` (bincode of a delta / of the checkpoint state;
serde_json of a gossip message) with the law `de (ser d) = some d` as an explicit hypothesis
(validated on every run by the Rust-side round trips over every CRDT kind and shape).

Proved: `segment_roundtrip`, `checkpoint_roundtrip`, `wal_entry_roundtrip`;
`checkpoint_truncation_detected` (every proper prefix, unconditionally);
`segment_truncation_detected_partial` (every proper prefix that does not END in the footer magic);
`covered_corruption_detected` (segment: under `CrcDetects`-style hypotheses a same-length
corrupted image is rejected or decodes to the SAME data) with its checkpoint counterparts;
`uncovered_bytes_harmless` (the exact bytes no checksum covers, and that they do not influence the
decoded data).  Refuted: `C14_segment_truncation_detected` — `record_count` is not
cross-checked, so a crafted payload makes a truncated segment pass every check and decode to
FEWER records (`segment_truncation_counterexample`, CRC-32 instance); the WAL timestamp is
outside the entry checksum (`wal_timestamp_uncovered_counterexample`, shared with C10).
-/
namespace RedisVerif
namespace C14

open Wal Codec

/-! ## round trips -/

/-- everything the writer puts into width-limited fields fits -/
def SegFits (crc : Bytes → Nat) (ps : List Bytes) (ts : List Nat) : Prop :=
  ps.length < 2 ^ 32 ∧ (∀ p ∈ ps, p.length < 2 ^ 32) ∧
  crc (segCovered ps.length (minOf ts) (maxOf ts)) < 2 ^ 32 ∧ crc (records ps) < 2 ^ 32

instance (crc : Bytes → Nat) (ps : List Bytes) (ts : List Nat) : Decidable (SegFits crc ps ts) := by
  unfold SegFits; infer_instance

/-- what the reader makes of a written header + arbitrary records + written footer, with
    ARBITRARY bytes in the positions no checksum covers (`pad` = header bytes 30..40, `sizes` =
    footer bytes 4..20) -/
theorem readSegParts_written {δ : Type} (crc : Bytes → Nat) (de : Bytes → Option δ)
    (n a b : Nat) (recs pad sizes : Bytes) (hs : sizes.length = 16) (hn : n < 2 ^ 32)
    (hc : crc (segCovered n a b) < 2 ^ 32) (hr : crc recs < 2 ^ 32) :
    readSegParts crc de (segHeaderG crc n a b pad) recs (segFooterG crc recs sizes)
      = readRecords de n recs := by
  obtain ⟨h1, h2, h3, h4, h5, h6⟩ := segHeader_fields crc n a b pad
  obtain ⟨f1, f2, _⟩ := segFooter_fields crc recs sizes hs
  unfold readSegParts
  simp only [h1, h2, h3, h4, h5, h6, f1, f2]
  rw [leVal_le 4 _ (by simpa using hc), leVal_le 4 _ (by simpa using hr), leVal_le 4 _ (by simpa using hn)]
  simp

theorem readSegment_written {δ : Type} (crc : Bytes → Nat) (de : Bytes → Option δ)
    (n a b : Nat) (recs pad sizes : Bytes) (hp : pad.length = 10) (hs : sizes.length = 16)
    (hn : n < 2 ^ 32) (hc : crc (segCovered n a b) < 2 ^ 32) (hr : crc recs < 2 ^ 32) :
    readSegment crc de (segHeaderG crc n a b pad ++ (recs ++ segFooterG crc recs sizes))
      = readRecords de n recs := by
  obtain ⟨_, _, f3⟩ := segFooter_fields crc recs sizes hs
  obtain ⟨p1, p2, p3, p4⟩ := seg_parts (segHeaderG crc n a b pad) recs (segFooterG crc recs sizes)
    (segHeader_length _ _ _ _ _ hp) f3
  unfold readSegment
  rw [if_neg (by rw [p1]; omega), p2, p3, p4, readSegParts_written crc de n a b recs pad sizes hs hn hc hr]

/-- a written segment reads back exactly the deltas that were written, any batch size -/
theorem segment_roundtrip {δ : Type} (crc : Bytes → Nat) (ser : δ → Bytes) (de : Bytes → Option δ)
    (ds : List δ) (ts : List Nat) (img : Bytes)
    (hlaw : ∀ d ∈ ds, de (ser d) = some d)
    (hfit : SegFits crc (ds.map ser) ts)
    (hw : writeSegment crc (ds.map ser) ts = some img) :
    readSegment crc de img = .ok ds := by
  obtain ⟨hn, hp, hc, hr⟩ := hfit
  unfold writeSegment at hw
  split at hw
  · cases hw
  · simp only [Option.some.injEq] at hw
    subst hw
    rw [segHeader_eq, segFooter_eq,
      readSegment_written crc de _ _ _ _ _ _ (by simp) (by simp [le_length]) hn hc hr]
    have := readRecords_records ser de ds hlaw (fun d hd => hp (ser d) (List.mem_map_of_mem hd)) 0
    simpa using this

example : SegFits Driver.crc32 [[1, 2], []] [7, 3] := by decide +kernel

/-- the empty batch is refused by the writer (`SegmentError::Empty`) -/
theorem segment_empty_refused (crc : Bytes → Nat) (ts : List Nat) : writeSegment crc [] ts = none := rfl

/-! ## segment: uncovered bytes -/

/-- EXACTLY these bytes of a segment are covered by no checksum: header padding 30..40 and the
    two footer size fields (footer bytes 4..20).  Whatever they are changed to, the segment
    decodes to the same data as the pristine image. -/
theorem uncovered_bytes_harmless_segment {δ : Type} (crc : Bytes → Nat) (de : Bytes → Option δ)
    (ps : List Bytes) (ts : List Nat) (img pad sizes : Bytes)
    (hfit : SegFits crc ps ts) (hw : writeSegment crc ps ts = some img)
    (hp : pad.length = 10) (hs : sizes.length = 16) :
    readSegment crc de
        (segHeaderG crc ps.length (minOf ts) (maxOf ts) pad ++
          (records ps ++ segFooterG crc (records ps) sizes))
      = readSegment crc de img := by
  obtain ⟨hn, _, hc, hr⟩ := hfit
  unfold writeSegment at hw
  split at hw
  · cases hw
  · simp only [Option.some.injEq] at hw
    subst hw
    rw [readSegment_written crc de _ _ _ _ _ _ hp hs hn hc hr, segHeader_eq, segFooter_eq,
      readSegment_written crc de _ _ _ _ _ _ (by simp) (by simp [le_length]) hn hc hr]

/-- the reader looks at nothing but header bytes 0..30, the record bytes, and footer bytes
    0..4 and 20..24 -/
theorem readSegParts_congr {δ : Type} (crc : Bytes → Nat) (de : Bytes → Option δ)
    (hdr hdr' recs foot foot' : Bytes) (hh : hdr'.take 30 = hdr.take 30)
    (hf : foot'.take 4 = foot.take 4) (hm : (foot'.drop 20).take 4 = (foot.drop 20).take 4) :
    readSegParts crc de hdr' recs foot' = readSegParts crc de hdr recs foot := by
  unfold readSegParts
  simp only [hh, hf, hm]

/-! ## segment: corruption of covered bytes -/

theorem readSegParts_err_of_header_crc {δ : Type} (crc : Bytes → Nat) (de : Bytes → Option δ)
    (hdr recs foot : Bytes)
    (h : crc ((hdr.take 30).take 26) ≠ leVal (((hdr.take 30).drop 26).take 4)) :
    IsErr (readSegParts crc de hdr recs foot) := by
  unfold readSegParts
  simp only
  repeat' split
  all_goals first | exact isErr_error _ | (exfalso; omega) | (exfalso; contradiction)

theorem readSegParts_err_of_magic {δ : Type} (crc : Bytes → Nat) (de : Bytes → Option δ)
    (hdr recs foot : Bytes) (h : (foot.drop 20).take 4 ≠ footMagic) :
    IsErr (readSegParts crc de hdr recs foot) := by
  unfold readSegParts
  simp only
  repeat' split
  all_goals first | exact isErr_error _ | (exfalso; omega) | (exfalso; contradiction)

theorem readSegParts_err_of_data_crc {δ : Type} (crc : Bytes → Nat) (de : Bytes → Option δ)
    (hdr recs foot : Bytes) (h : crc recs ≠ leVal (foot.take 4)) :
    IsErr (readSegParts crc de hdr recs foot) := by
  unfold readSegParts
  simp only
  repeat' split
  all_goals first | exact isErr_error _ | (exfalso; omega) | (exfalso; contradiction)

/-- `covered_corruption_detected` (segment): take the three parts of a same-length damaged
    image.  If the header CRC notices every change of header bytes 0..30 (`Hh`) and the data CRC
    notices every change of the record bytes / of the stored data checksum (`Hd`) — the two
    `CrcDetects` hypotheses, both decidable — then the damaged image is REJECTED or decodes to
    exactly what the pristine image decodes to: never into different data. -/
theorem covered_corruption_detected {δ : Type} (crc : Bytes → Nat) (de : Bytes → Option δ)
    (hdr recs foot hdr' recs' foot' : Bytes)
    (hmagic : (foot.drop 20).take 4 = footMagic)
    (Hh : hdr'.take 30 ≠ hdr.take 30 →
      crc ((hdr'.take 30).take 26) ≠ leVal (((hdr'.take 30).drop 26).take 4))
    (Hd : (recs' ≠ recs ∨ foot'.take 4 ≠ foot.take 4) → crc recs' ≠ leVal (foot'.take 4)) :
    IsErr (readSegParts crc de hdr' recs' foot') ∨
      readSegParts crc de hdr' recs' foot' = readSegParts crc de hdr recs foot := by
  by_cases h1 : hdr'.take 30 = hdr.take 30
  · by_cases h2 : recs' = recs ∧ foot'.take 4 = foot.take 4
    · by_cases h3 : (foot'.drop 20).take 4 = footMagic
      · right
        rw [h2.1]
        exact readSegParts_congr crc de hdr hdr' recs foot foot' h1 h2.2 (by rw [h3, hmagic])
      · left; exact readSegParts_err_of_magic crc de _ _ _ h3
    · left
      apply readSegParts_err_of_data_crc
      apply Hd
      by_cases hr : recs' = recs
      · right; intro hf; exact h2 ⟨hr, hf⟩
      · left; exact hr
  · left; exact readSegParts_err_of_header_crc crc de _ _ _ (Hh h1)

/-- the parts view is what `readSegment` computes -/
theorem readSegment_parts {δ : Type} (crc : Bytes → Nat) (de : Bytes → Option δ) (data : Bytes)
    (h : 64 ≤ data.length) :
    readSegment crc de data = readSegParts crc de (data.take 40)
      ((data.drop 40).take (data.length - 64)) (data.drop (data.length - 24)) := by
  unfold readSegment; rw [if_neg (by omega)]

-- non-vacuity of the two CRC hypotheses: CRC-32 notices a flipped record byte and a flipped
-- header byte of a small written segment
example : Driver.crc32 [2, 0, 0, 0, 1, 3] ≠ Driver.crc32 [2, 0, 0, 0, 1, 2] := by decide +kernel

/-! ## segment: truncation -/

/-- the last four bytes are the footer magic -/
def EndsInFooterMagic (p : Bytes) : Prop := ((p.drop (p.length - 24)).drop 20).take 4 = footMagic

instance (p : Bytes) : Decidable (EndsInFooterMagic p) := by unfold EndsInFooterMagic; infer_instance

/-- FULL-STRENGTH statement: every proper prefix of a written segment is an error -/
def C14_segment_truncation_detected {δ : Type} (crc : Bytes → Nat) (ser : δ → Bytes)
    (de : Bytes → Option δ) : Prop :=
  ∀ (ds : List δ) (ts : List Nat) (img : Bytes), (∀ d ∈ ds, de (ser d) = some d) →
    SegFits crc (ds.map ser) ts → writeSegment crc (ds.map ser) ts = some img →
    ∀ n, n < img.length → IsErr (readSegment crc de (img.take n))

/-- proved form: every byte string (in particular every proper prefix of a segment) that does
    not END in the four footer-magic bytes is rejected -/
theorem segment_truncation_detected_partial {δ : Type} (crc : Bytes → Nat) (de : Bytes → Option δ)
    (img : Bytes) (n : Nat) (hm : ¬ EndsInFooterMagic (img.take n)) :
    IsErr (readSegment crc de (img.take n)) := by
  unfold readSegment
  split
  · exact isErr_error _
  · exact readSegParts_err_of_magic crc de _ _ _ hm

/-- `record_count` is not cross-checked: when the record bytes end early the iterator stops
    silently and returns FEWER records than the header announces -/
theorem record_count_not_cross_checked {δ : Type} (ser : δ → Bytes) (de : Bytes → Option δ)
    (ds : List δ) (hde : ∀ d ∈ ds, de (ser d) = some d) (hfit : ∀ d ∈ ds, (ser d).length < 2 ^ 32)
    (missing : Nat) :
    readRecords de (ds.length + missing) (records (ds.map ser)) = .ok ds :=
  readRecords_records ser de ds hde hfit missing

/-- witness: two records; the first one's bytes have CRC-32 = 21 = the length of the second
    payload, whose bytes 16..20 spell the footer magic.  Cutting the image right after
    "length prefix + 20 bytes" of the second record leaves header ‖ record 1 ‖ 24 bytes that
    parse as a valid footer with the right data checksum. -/
def truncWitness : List Bytes :=
  [[139, 11, 210, 25], List.replicate 16 0 ++ [71, 69, 83, 82] ++ [0]]

/-- the truncated segment passes open + validate + read_all and yields ONE record instead of
    two: decoded into different data, no error -/
theorem segment_truncation_counterexample :
    ¬ C14_segment_truncation_detected Driver.crc32 (fun b : Bytes => b) (fun b => some b) := by
  intro h
  have hfit : SegFits Driver.crc32 (truncWitness.map fun b => b) [1, 2] := by decide +kernel
  obtain ⟨e, he⟩ := h truncWitness [1, 2]
    ((writeSegment Driver.crc32 truncWitness [1, 2]).getD []) (fun d _ => rfl) hfit
    (by decide +kernel) 72 (by decide +kernel)
  have : readSegment Driver.crc32 (fun b => some b)
      (((writeSegment Driver.crc32 truncWitness [1, 2]).getD []).take 72)
      = .ok [[139, 11, 210, 25]] := by decide +kernel
  rw [this] at he
  cases he

/-! ## checkpoint -/

def ChkFits (crc : Bytes → Nat) (k t l : Nat) (payload : Bytes) : Prop :=
  payload.length < 2 ^ 32 ∧ crc (chkCoveredA ++ chkCoveredB k t l) < 2 ^ 32 ∧
  crc payload < 2 ^ 32 ∧ crc (le 4 (crc payload) ++ le 8 payload.length) < 2 ^ 32

instance (crc : Bytes → Nat) (k t l : Nat) (p : Bytes) : Decidable (ChkFits crc k t l p) := by
  unfold ChkFits; infer_instance

/-- reading a written checkpoint whose uncovered bytes (header padding 6..8, reserved 32..44,
    anything after the footer) are ARBITRARY -/
theorem readCheckpoint_written {σ : Type} (crc : Bytes → Nat) (de : Bytes → Option σ)
    (k t l : Nat) (payload pad res trailing : Bytes) (hp : pad.length = 2) (hr : res.length = 12)
    (hfit : ChkFits crc k t l payload) :
    readCheckpoint crc de (chkHeaderG crc k t l pad res ++
        (le 4 payload.length ++ (payload ++ (chkFooter crc payload ++ trailing))))
      = match de payload with
        | none => .error .ser
        | some s => .ok s := by
  obtain ⟨hl, hc, hd, hf⟩ := hfit
  obtain ⟨h1, h2, h3, h4, h5⟩ := chkHeader_fields crc k t l pad res hp hr
  obtain ⟨f1, f2, f3, f4⟩ := chkFooter_fields crc payload
  obtain ⟨p1, p2, p3, p4, p5⟩ := chk_parts (chkHeaderG crc k t l pad res) (le 4 payload.length)
    payload (chkFooter crc payload) trailing (chkHeader_length _ _ _ _ _ _ hp hr) (le_length _ _)
    (chkFooter_length _ _)
  unfold readCheckpoint
  rw [if_neg (by rw [p1]; omega)]
  simp only [p2, p3, h1, h2, h3, h4, h5]
  rw [leVal_le 4 _ (by simpa using hc), leVal_le 4 _ (by simpa using hl)]
  simp only [p4, p5, f1, f2, f3, f4]
  rw [leVal_le 4 _ (by simpa using hf), leVal_le 4 _ (by simpa using hd),
    leVal_le 8 _ (by have : payload.length < 2 ^ 64 := by omega
                     simpa using this)]
  rw [if_neg (by decide), if_neg (by decide), if_neg (by simp), if_neg (by rw [p1]; omega),
    if_neg (by rw [p1]; omega), if_neg (by simp), if_neg (by decide), if_neg (by simp),
    if_neg (by simp)]
  rfl

/-- a written checkpoint reads back the state that was written -/
theorem checkpoint_roundtrip {σ : Type} (crc : Bytes → Nat) (ser : σ → Bytes) (de : Bytes → Option σ)
    (st : σ) (k t l : Nat) (hlaw : de (ser st) = some st) (hfit : ChkFits crc k t l (ser st)) :
    readCheckpoint crc de (writeCheckpoint crc k t l (ser st)) = .ok st := by
  unfold writeCheckpoint
  have := readCheckpoint_written crc de k t l (ser st) [0, 0] (List.replicate 12 0) [] rfl
    (by simp) hfit
  rw [← chkHeader_eq, List.append_nil, hlaw] at this
  exact this

example : ChkFits Driver.crc32 3 1000 7 [1, 2, 3] := by decide +kernel

/-- EXACTLY these bytes of a checkpoint are covered by no checksum: header padding 6..8,
    header reserved 32..44, and anything after the footer.  Whatever they are, the checkpoint
    decodes to the same state.  (The 4-byte data-length field 48..52 is covered by no checksum
    either, but it is cross-checked: see `checkpoint_truncation_detected` and
    `chk_err_of_footer_crc`.) -/
theorem uncovered_bytes_harmless_checkpoint {σ : Type} (crc : Bytes → Nat) (de : Bytes → Option σ)
    (k t l : Nat) (payload pad res trailing : Bytes) (hp : pad.length = 2) (hr : res.length = 12)
    (hfit : ChkFits crc k t l payload) :
    readCheckpoint crc de (chkHeaderG crc k t l pad res ++
        (le 4 payload.length ++ (payload ++ (chkFooter crc payload ++ trailing))))
      = readCheckpoint crc de (writeCheckpoint crc k t l payload) := by
  rw [readCheckpoint_written crc de k t l payload pad res trailing hp hr hfit]
  unfold writeCheckpoint
  have := readCheckpoint_written crc de k t l payload [0, 0] (List.replicate 12 0) [] rfl
    (by simp) hfit
  rw [← chkHeader_eq, List.append_nil] at this
  rw [this]

/-- any image too short for the footer its own length field announces is rejected -/
theorem chk_err_of_short {σ : Type} (crc : Bytes → Nat) (de : Bytes → Option σ) (data : Bytes)
    (h : data.length < 52 ∨ data.length < 52 + leVal ((data.drop 48).take 4) + 16) :
    IsErr (readCheckpoint crc de data) := by
  unfold readCheckpoint
  simp only
  repeat' split
  all_goals first | exact isErr_error _ | (exfalso; omega) | (exfalso; contradiction)

/-- EVERY proper prefix of a written checkpoint is reported as an error (unconditionally) -/
theorem checkpoint_truncation_detected {σ : Type} (crc : Bytes → Nat) (de : Bytes → Option σ)
    (k t l : Nat) (payload : Bytes) (hl : payload.length < 2 ^ 32) (n : Nat)
    (hn : n < (writeCheckpoint crc k t l payload).length) :
    IsErr (readCheckpoint crc de ((writeCheckpoint crc k t l payload).take n)) := by
  obtain ⟨p1, _, p3, _, _⟩ := chk_parts (chkHeader crc k t l) (le 4 payload.length)
    payload (chkFooter crc payload) [] (by rw [chkHeader_eq]; exact chkHeader_length _ _ _ _ _ _ rfl (by simp))
    (le_length _ _) (chkFooter_length _ _)
  have himg : writeCheckpoint crc k t l payload
      = chkHeader crc k t l ++ (le 4 payload.length ++ (payload ++ (chkFooter crc payload ++ []))) := by
    simp [writeCheckpoint]
  rw [himg] at hn ⊢
  rw [p1] at hn
  simp only [List.length_nil, Nat.add_zero] at hn p1
  apply chk_err_of_short
  rw [List.length_take, p1, Nat.min_eq_left (by omega)]
  by_cases h52 : n < 52
  · left; omega
  · right
    have : ((List.take n (chkHeader crc k t l ++ (le 4 payload.length ++ (payload ++ (chkFooter crc payload ++ []))))).drop 48).take 4
        = le 4 payload.length := by
      rw [List.drop_take, List.take_take, Nat.min_eq_left (by omega)]
      exact p3
    rw [this, leVal_le 4 _ (by simpa using hl)]
    omega

theorem chk_err_of_header_crc {σ : Type} (crc : Bytes → Nat) (de : Bytes → Option σ) (data : Bytes)
    (h : crc ((data.take 48).take 6 ++ ((data.take 48).drop 8).take 24)
          ≠ leVal (((data.take 48).drop 44).take 4)) :
    IsErr (readCheckpoint crc de data) := by
  unfold readCheckpoint
  simp only
  repeat' split
  all_goals first | exact isErr_error _ | (exfalso; omega) | (exfalso; contradiction)

theorem chk_err_of_footer_crc {σ : Type} (crc : Bytes → Nat) (de : Bytes → Option σ) (data : Bytes)
    (h : let foot := (data.drop (52 + leVal ((data.drop 48).take 4))).take 16
         crc (foot.take 12) ≠ leVal ((foot.drop 12).take 4)) :
    IsErr (readCheckpoint crc de data) := by
  unfold readCheckpoint
  simp only at h ⊢
  repeat' split
  all_goals first | exact isErr_error _ | (exfalso; omega) | (exfalso; contradiction)

theorem chk_err_of_data_crc {σ : Type} (crc : Bytes → Nat) (de : Bytes → Option σ) (data : Bytes)
    (h : let dlen := leVal ((data.drop 48).take 4)
         crc ((data.drop 52).take dlen) ≠ leVal (((data.drop (52 + dlen)).take 16).take 4)) :
    IsErr (readCheckpoint crc de data) := by
  unfold readCheckpoint
  simp only at h ⊢
  repeat' split
  all_goals first | exact isErr_error _ | (exfalso; omega) | (exfalso; contradiction)

/-- `covered_corruption_detected` (checkpoint): any byte string on which one of the three
    checksums (header fields, footer, data) does not match is rejected — whichever positions were
    damaged, including the data-length field (which moves the footer: then the footer checksum is
    the one that has to notice). -/
theorem checkpoint_corruption_detected {σ : Type} (crc : Bytes → Nat) (de : Bytes → Option σ)
    (data : Bytes)
    (h : crc ((data.take 48).take 6 ++ ((data.take 48).drop 8).take 24)
            ≠ leVal (((data.take 48).drop 44).take 4) ∨
         (let foot := (data.drop (52 + leVal ((data.drop 48).take 4))).take 16
          crc (foot.take 12) ≠ leVal ((foot.drop 12).take 4)) ∨
         (let dlen := leVal ((data.drop 48).take 4)
          crc ((data.drop 52).take dlen) ≠ leVal (((data.drop (52 + dlen)).take 16).take 4))) :
    IsErr (readCheckpoint crc de data) := by
  rcases h with h | h | h
  · exact chk_err_of_header_crc crc de data h
  · exact chk_err_of_footer_crc crc de data h
  · exact chk_err_of_data_crc crc de data h

/-! ## WAL entry -/

/-- `to_delta(decode(encode(from_delta(d, ts)))) = d`, followed by anything -/
theorem wal_entry_roundtrip {δ : Type} (crc : Bytes → Nat) (ser : δ → Bytes) (de : Bytes → Option δ)
    (d : δ) (ts : Nat) (rest : Bytes) (hlaw : de (ser d) = some d)
    (hf : (Entry.mk' crc (ser d) ts).Fits) :
    (decode crc ((Entry.mk' crc (ser d) ts).encode ++ rest)).bind (fun p => de p.1.data) = some d ∧
    (decode crc ((Entry.mk' crc (ser d) ts).encode ++ rest)).map (fun p => p.1.ts) = some ts := by
  rw [(C10.decode_encode crc _ rest hf rfl).1]
  exact ⟨hlaw, rfl⟩

/-- WAL payload corruption ends recovery (C10 `corruption_stops_payload`); what the entry
    checksum does NOT cover is the stamp: two entries that differ only in stamp bytes both
    decode, so a damaged stamp is decoded into different data -/
theorem wal_timestamp_uncovered_counterexample (crc : Bytes → Nat) (hr : crc [7] < 2 ^ 32) :
    ∃ img img' : Bytes, img.length = img'.length ∧ img' = img.set 5 1 ∧
      (decode crc img).map (fun p => p.1.ts) = some 5 ∧
      (decode crc img').map (fun p => p.1.ts) = some 261 ∧
      (decode crc img).map (fun p => p.1.data) = (decode crc img').map (fun p => p.1.data) := by
  refine ⟨(Entry.mk' crc [7] 5).encode, (Entry.mk' crc [7] 261).encode, ?_, ?_, ?_, ?_, ?_⟩
  · simp [encode_length]; rfl
  · simp [Entry.encode, Entry.mk', le]
  · have := Wal.decode_encode crc (Entry.mk' crc [7] 5) [] ⟨by simp [Entry.mk'], by simp [Entry.mk'], hr⟩ rfl
    rw [List.append_nil] at this; rw [this]; rfl
  · have := Wal.decode_encode crc (Entry.mk' crc [7] 261) [] ⟨by simp [Entry.mk'], by simp [Entry.mk'], hr⟩ rfl
    rw [List.append_nil] at this; rw [this]; rfl
  · have h1 := Wal.decode_encode crc (Entry.mk' crc [7] 5) [] ⟨by simp [Entry.mk'], by simp [Entry.mk'], hr⟩ rfl
    have h2 := Wal.decode_encode crc (Entry.mk' crc [7] 261) [] ⟨by simp [Entry.mk'], by simp [Entry.mk'], hr⟩ rfl
    rw [List.append_nil] at h1 h2; rw [h1, h2]; rfl

end C14
end RedisVerif
