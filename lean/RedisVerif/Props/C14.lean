import RedisVerif.Model.Codec
import RedisVerif.Lemmas.Codec
import RedisVerif.Props.C10

/-!
# C14 — Stored and gossiped updates round-trip; damaged storage is detected, not decoded

Model: `RedisVerif.Codec` (M5: segment and checkpoint framing) and `RedisVerif.Wal` (WAL entry),
over PARAMETERS `crc` (crc32fast), `ser`/`de` (bincode of a delta / of the checkpoint state;
serde_json of a gossip message) with the law `de (ser d) = some d` as an explicit hypothesis
(validated on every run by the Rust-side round trips over every CRDT kind and shape).
Two flags name the code variant: `strict` (segment record iterator: `true` = CURRENT code, which
errors when fewer records than `record_count` are present; `false` = before the `fix:` commit)
and the WAL `Format` (`.v2` = current, `.v1` = before the checksum fix).

Proved for the current code: `segment_roundtrip`, `checkpoint_roundtrip`, `wal_entry_roundtrip`;
`segment_truncation_detected` and `checkpoint_truncation_detected` (EVERY proper prefix is an
error, unconditionally); `covered_corruption_detected` (segment: under `CrcDetects`-style
hypotheses a same-length corrupted image is rejected or decodes to the SAME data),
`checkpoint_corruption_detected`; `uncovered_bytes_harmless_*` (the exact bytes no checksum
covers, and that they do not influence the decoded data); `wal_timestamp_covered` (a damaged
stamp of a WAL entry is rejected when the checksum notices).
About the old variants (helper lemmas are in `Lemmas/Codec.lean`):
`segment_truncation_counterexample` (lax iterator: a truncated segment passes every check and
decodes to FEWER records), `wal_timestamp_uncovered_counterexample` (format v1).
-/
namespace RedisVerif
namespace C14

open Wal Codec

/-! ## round trips -/

/-- a written segment reads back exactly the deltas that were written, any batch size -/
theorem segment_roundtrip {δ : Type} (strict : Bool) (crc : Bytes → Nat) (ser : δ → Bytes) (de : Bytes → Option δ)
    (ds : List δ) (ts : List Nat) (img : Bytes)
    (hlaw : ∀ d ∈ ds, de (ser d) = some d)
    (hfit : SegFits crc (ds.map ser) ts)
    (hw : writeSegment crc (ds.map ser) ts = some img) :
    readSegment strict crc de img = .ok ds := by
  obtain ⟨hn, hp, hc, hr⟩ := hfit
  unfold writeSegment at hw
  split at hw
  · cases hw
  · simp only [Option.some.injEq] at hw
    subst hw
    rw [segHeader_eq, segFooter_eq,
      readSegment_written strict crc de _ _ _ _ _ _ (by simp) (by simp [le_length]) hn hc hr]
    have := readRecords_records strict ser de ds hlaw (fun d hd => hp (ser d) (List.mem_map_of_mem hd)) 0 (Or.inr rfl)
    simpa using this

example : SegFits Driver.crc32 [[1, 2], []] [7, 3] := by decide +kernel

/-- the empty batch is refused by the writer (`SegmentError::Empty`) -/
theorem segment_empty_refused (crc : Bytes → Nat) (ts : List Nat) : writeSegment crc [] ts = none := rfl

/-! ## segment: uncovered bytes -/

/-- EXACTLY these bytes of a segment are covered by no checksum: header padding 30..40 and the
    two footer size fields (footer bytes 4..20).  Whatever they are changed to, the segment
    decodes to the same data as the pristine image. -/
theorem uncovered_bytes_harmless_segment {δ : Type} (strict : Bool) (crc : Bytes → Nat) (de : Bytes → Option δ)
    (ps : List Bytes) (ts : List Nat) (img pad sizes : Bytes)
    (hfit : SegFits crc ps ts) (hw : writeSegment crc ps ts = some img)
    (hp : pad.length = 10) (hs : sizes.length = 16) :
    readSegment strict crc de
        (segHeaderG crc ps.length (minOf ts) (maxOf ts) pad ++
          (records ps ++ segFooterG crc (records ps) sizes))
      = readSegment strict crc de img := by
  obtain ⟨hn, _, hc, hr⟩ := hfit
  unfold writeSegment at hw
  split at hw
  · cases hw
  · simp only [Option.some.injEq] at hw
    subst hw
    rw [readSegment_written strict crc de _ _ _ _ _ _ hp hs hn hc hr, segHeader_eq, segFooter_eq,
      readSegment_written strict crc de _ _ _ _ _ _ (by simp) (by simp [le_length]) hn hc hr]

/-! ## segment: corruption of covered bytes -/

/-- `covered_corruption_detected` (segment): take the three parts of a same-length damaged
    image.  If the header CRC notices every change of header bytes 0..30 (`Hh`) and the data CRC
    notices every change of the record bytes / of the stored data checksum (`Hd`) — the two
    `CrcDetects` hypotheses, both decidable — then the damaged image is REJECTED or decodes to
    exactly what the pristine image decodes to: never into different data. -/
theorem covered_corruption_detected {δ : Type} (strict : Bool) (crc : Bytes → Nat) (de : Bytes → Option δ)
    (hdr recs foot hdr' recs' foot' : Bytes)
    (hmagic : (foot.drop 20).take 4 = footMagic)
    (Hh : hdr'.take 30 ≠ hdr.take 30 →
      crc ((hdr'.take 30).take 26) ≠ leVal (((hdr'.take 30).drop 26).take 4))
    (Hd : (recs' ≠ recs ∨ foot'.take 4 ≠ foot.take 4) → crc recs' ≠ leVal (foot'.take 4)) :
    IsErr (readSegParts strict crc de hdr' recs' foot') ∨
      readSegParts strict crc de hdr' recs' foot' = readSegParts strict crc de hdr recs foot := by
  by_cases h1 : hdr'.take 30 = hdr.take 30
  · by_cases h2 : recs' = recs ∧ foot'.take 4 = foot.take 4
    · by_cases h3 : (foot'.drop 20).take 4 = footMagic
      · right
        rw [h2.1]
        exact readSegParts_congr strict crc de hdr hdr' recs foot foot' h1 h2.2 (by rw [h3, hmagic])
      · left; exact readSegParts_err_of_magic strict crc de _ _ _ h3
    · left
      apply readSegParts_err_of_data_crc
      apply Hd
      by_cases hr : recs' = recs
      · right; intro hf; exact h2 ⟨hr, hf⟩
      · left; exact hr
  · left; exact readSegParts_err_of_header_crc strict crc de _ _ _ (Hh h1)

-- non-vacuity of the two CRC hypotheses: CRC-32 notices a flipped record byte and a flipped
-- header byte of a small written segment
example : Driver.crc32 [2, 0, 0, 0, 1, 3] ≠ Driver.crc32 [2, 0, 0, 0, 1, 2] := by decide +kernel

/-! ## segment: truncation -/

/-- FULL-STRENGTH statement: every proper prefix of a written segment is an error -/
def C14_segment_truncation_detected {δ : Type} (strict : Bool) (crc : Bytes → Nat) (ser : δ → Bytes)
    (de : Bytes → Option δ) : Prop :=
  ∀ (ds : List δ) (ts : List Nat) (img : Bytes), (∀ d ∈ ds, de (ser d) = some d) →
    SegFits crc (ds.map ser) ts → writeSegment crc (ds.map ser) ts = some img →
    ∀ n, n < img.length → IsErr (readSegment strict crc de (img.take n))

/-- CURRENT code (strict iterator): EVERY proper prefix of a written segment is reported as an
    error — whatever the payloads contain, no checksum assumption: either a header / footer /
    checksum test fails, or the record iterator runs out of bytes before `record_count` records -/
theorem segment_truncation_detected {δ : Type} (crc : Bytes → Nat) (ser : δ → Bytes)
    (de : Bytes → Option δ) : C14_segment_truncation_detected true crc ser de := by
  intro ds ts img _ hfit hw n hn
  obtain ⟨hcnt, hp, _, _⟩ := hfit
  unfold writeSegment at hw
  split at hw
  · cases hw
  · simp only [Option.some.injEq] at hw
    subst hw
    rw [segHeader_eq, segFooter_eq] at hn ⊢
    obtain ⟨f1, f2, f3⟩ := segFooter_fields crc (records (ds.map ser))
      (le 8 (records (ds.map ser)).length ++ le 8 (records (ds.map ser)).length) (by simp [le_length])
    obtain ⟨p1, p2, _, _⟩ := seg_parts (segHeaderG crc (ds.map ser).length (minOf ts) (maxOf ts)
      (List.replicate 10 0)) (records (ds.map ser)) _ (segHeader_length _ _ _ _ _ (by simp)) f3
    rw [p1] at hn
    unfold readSegment
    rw [List.length_take, p1, Nat.min_eq_left (by omega)]
    split
    · exact isErr_error _
    · rename_i h64
      apply readSegParts_isErr_of_records
      -- the header is intact: the announced count is the number of records written
      have hhdr : ((List.take n (segHeaderG crc (ds.map ser).length (minOf ts) (maxOf ts)
            (List.replicate 10 0) ++ (records (ds.map ser) ++ segFooterG crc (records (ds.map ser))
            (le 8 (records (ds.map ser)).length ++ le 8 (records (ds.map ser)).length)))).take 40)
          = segHeaderG crc (ds.map ser).length (minOf ts) (maxOf ts) (List.replicate 10 0) := by
        rw [List.take_take, Nat.min_eq_left (by omega)]; exact p2
      rw [hhdr, (segHeader_fields crc _ _ _ _).2.2.2.2.2, leVal_le 4 _ (by simpa using hcnt)]
      -- the record region is a proper prefix of the records written
      have hrec : (List.drop 40 (List.take n (segHeaderG crc (ds.map ser).length (minOf ts) (maxOf ts)
            (List.replicate 10 0) ++ (records (ds.map ser) ++ segFooterG crc (records (ds.map ser))
            (le 8 (records (ds.map ser)).length ++ le 8 (records (ds.map ser)).length))))).take (n - 64)
          = (records (ds.map ser)).take (n - 64) := by
        rw [List.drop_take, List.take_take, Nat.min_eq_left (by omega),
          List.drop_left' (segHeader_length _ _ _ _ _ (by simp)),
          List.take_append_of_le_length (by omega)]
      rw [hrec]
      exact readRecords_strict_prefix_err de (ds.map ser) hp (n - 64) (by omega)

/-- either iterator: every byte string (in particular every proper prefix of a segment) that does
    not END in the four footer-magic bytes is rejected -/
theorem segment_truncation_detected_partial {δ : Type} (strict : Bool) (crc : Bytes → Nat) (de : Bytes → Option δ)
    (img : Bytes) (n : Nat) (hm : ¬ EndsInFooterMagic (img.take n)) :
    IsErr (readSegment strict crc de (img.take n)) := by
  unfold readSegment
  split
  · exact isErr_error _
  · exact readSegParts_err_of_magic strict crc de _ _ _ hm

/-- OLD (lax) iterator: `record_count` was not cross-checked: when the record bytes end early the iterator stops
    silently and returns FEWER records than the header announces -/
theorem record_count_not_cross_checked {δ : Type} (ser : δ → Bytes) (de : Bytes → Option δ)
    (ds : List δ) (hde : ∀ d ∈ ds, de (ser d) = some d) (hfit : ∀ d ∈ ds, (ser d).length < 2 ^ 32)
    (missing : Nat) :
    readRecords false de (ds.length + missing) (records (ds.map ser)) = .ok ds :=
  readRecords_records false ser de ds hde hfit missing (Or.inl rfl)

/-- CURRENT (strict) iterator: the same situation is an error -/
theorem record_count_cross_checked {δ : Type} (de : Bytes → Option δ) (ps : List Bytes)
    (hfit : ∀ p ∈ ps, p.length < 2 ^ 32) (missing : Nat) :
    IsErr (readRecords true de (ps.length + (missing + 1)) (records ps)) := by
  have h := readRecords_strict_prefix_err de (ps ++ List.replicate (missing + 1) [])
    (by
      intro p hp
      rcases List.mem_append.mp hp with h1 | h1
      · exact hfit p h1
      · rw [List.eq_of_mem_replicate h1]; decide)
    (records ps).length
    (by simp [records, List.flatMap_append, List.flatMap_replicate, record, le_length])
  have hl : (ps ++ List.replicate (missing + 1) []).length = ps.length + (missing + 1) := by simp
  rw [hl] at h
  have ht : (records (ps ++ List.replicate (missing + 1) [])).take (records ps).length = records ps := by
    unfold records; rw [List.flatMap_append]; exact List.take_left' rfl
  rw [ht] at h
  exact h

/-- witness: two records; the first one's bytes have CRC-32 = 21 = the length of the second
    payload, whose bytes 16..20 spell the footer magic.  Cutting the image right after
    "length prefix + 20 bytes" of the second record leaves header ‖ record 1 ‖ 24 bytes that
    parse as a valid footer with the right data checksum. -/
def truncWitness : List Bytes :=
  [[139, 11, 210, 25], List.replicate 16 0 ++ [71, 69, 83, 82] ++ [0]]

/-- OLD (lax) iterator: the truncated segment passes open + validate + read_all and yields ONE record instead of
    two: decoded into different data, no error -/
theorem segment_truncation_counterexample :
    ¬ C14_segment_truncation_detected false Driver.crc32 (fun b : Bytes => b) (fun b => some b) := by
  intro h
  have hfit : SegFits Driver.crc32 (truncWitness.map fun b => b) [1, 2] := by decide +kernel
  obtain ⟨e, he⟩ := h truncWitness [1, 2]
    ((writeSegment Driver.crc32 truncWitness [1, 2]).getD []) (fun d _ => rfl) hfit
    (by decide +kernel) 72 (by decide +kernel)
  have : readSegment false Driver.crc32 (fun b => some b)
      (((writeSegment Driver.crc32 truncWitness [1, 2]).getD []).take 72)
      = .ok [[139, 11, 210, 25]] := by decide +kernel
  rw [this] at he
  cases he

/-- the same truncated witness on the CURRENT iterator: an error (instance of
    `segment_truncation_detected`, evaluated) -/
theorem truncation_witness_rejected :
    readSegment true Driver.crc32 (fun b => some b)
      (((writeSegment Driver.crc32 truncWitness [1, 2]).getD []).take 72) = .error .eof := by
  decide +kernel

/-! ## checkpoint -/

/-- a written checkpoint reads back the state that was written -/
theorem checkpoint_roundtrip {σ : Type} (crc : Bytes → Nat) (ser : σ → Bytes) (de : Bytes → Option σ)
    (st : σ) (k t l : Nat) (hlaw : de (ser st) = some st) (hfit : ChkFits crc k t l (ser st)) :
    readCheckpoint crc de (writeCheckpoint crc k t l (ser st)) = .ok st := by
  unfold writeCheckpoint
  have := readCheckpoint_written crc de k t l (ser st) [0, 0] (List.replicate 12 0) [] rfl
    (by simp) hfit
  rw [← chkHeader_eq, List.append_nil, hlaw] at this
  exact this

example : ChkFits Driver.crc32 3 1000 7 [1, 2, 3] := by decide +kernel

/-- EXACTLY these bytes of a checkpoint are covered by no checksum: header padding 6..8,
    header reserved 32..44, and anything after the footer.  Whatever they are, the checkpoint
    decodes to the same state.  (The 4-byte data-length field 48..52 is covered by no checksum
    either, but it is cross-checked: see `checkpoint_truncation_detected` and
    `chk_err_of_footer_crc`.) -/
theorem uncovered_bytes_harmless_checkpoint {σ : Type} (crc : Bytes → Nat) (de : Bytes → Option σ)
    (k t l : Nat) (payload pad res trailing : Bytes) (hp : pad.length = 2) (hr : res.length = 12)
    (hfit : ChkFits crc k t l payload) :
    readCheckpoint crc de (chkHeaderG crc k t l pad res ++
        (le 4 payload.length ++ (payload ++ (chkFooter crc payload ++ trailing))))
      = readCheckpoint crc de (writeCheckpoint crc k t l payload) := by
  rw [readCheckpoint_written crc de k t l payload pad res trailing hp hr hfit]
  unfold writeCheckpoint
  have := readCheckpoint_written crc de k t l payload [0, 0] (List.replicate 12 0) [] rfl
    (by simp) hfit
  rw [← chkHeader_eq, List.append_nil] at this
  rw [this]

/-- EVERY proper prefix of a written checkpoint is reported as an error (unconditionally) -/
theorem checkpoint_truncation_detected {σ : Type} (crc : Bytes → Nat) (de : Bytes → Option σ)
    (k t l : Nat) (payload : Bytes) (hl : payload.length < 2 ^ 32) (n : Nat)
    (hn : n < (writeCheckpoint crc k t l payload).length) :
    IsErr (readCheckpoint crc de ((writeCheckpoint crc k t l payload).take n)) := by
  obtain ⟨p1, _, p3, _, _⟩ := chk_parts (chkHeader crc k t l) (le 4 payload.length)
    payload (chkFooter crc payload) [] (by rw [chkHeader_eq]; exact chkHeader_length _ _ _ _ _ _ rfl (by simp))
    (le_length _ _) (chkFooter_length _ _)
  have himg : writeCheckpoint crc k t l payload
      = chkHeader crc k t l ++ (le 4 payload.length ++ (payload ++ (chkFooter crc payload ++ []))) := by
    simp [writeCheckpoint]
  rw [himg] at hn ⊢
  rw [p1] at hn
  simp only [List.length_nil, Nat.add_zero] at hn p1
  apply chk_err_of_short
  rw [List.length_take, p1, Nat.min_eq_left (by omega)]
  by_cases h52 : n < 52
  · left; omega
  · right
    have : ((List.take n (chkHeader crc k t l ++ (le 4 payload.length ++ (payload ++ (chkFooter crc payload ++ []))))).drop 48).take 4
        = le 4 payload.length := by
      rw [List.drop_take, List.take_take, Nat.min_eq_left (by omega)]
      exact p3
    rw [this, leVal_le 4 _ (by simpa using hl)]
    omega

/-- `covered_corruption_detected` (checkpoint): any byte string on which one of the three
    checksums (header fields, footer, data) does not match is rejected — whichever positions were
    damaged, including the data-length field (which moves the footer: then the footer checksum is
    the one that has to notice). -/
theorem checkpoint_corruption_detected {σ : Type} (crc : Bytes → Nat) (de : Bytes → Option σ)
    (data : Bytes)
    (h : crc ((data.take 48).take 6 ++ ((data.take 48).drop 8).take 24)
            ≠ leVal (((data.take 48).drop 44).take 4) ∨
         (let foot := (data.drop (52 + leVal ((data.drop 48).take 4))).take 16
          crc (foot.take 12) ≠ leVal ((foot.drop 12).take 4)) ∨
         (let dlen := leVal ((data.drop 48).take 4)
          crc ((data.drop 52).take dlen) ≠ leVal (((data.drop (52 + dlen)).take 16).take 4))) :
    IsErr (readCheckpoint crc de data) := by
  rcases h with h | h | h
  · exact chk_err_of_header_crc crc de data h
  · exact chk_err_of_footer_crc crc de data h
  · exact chk_err_of_data_crc crc de data h

/-! ## gossip frames -/

/-- a gossip message arrives unchanged — given the round-trip law of the (unmodelled)
    serde_json codec for that message, which is the obligation the harness checks on every run
    for every delta, every message variant and binary / non-UTF-8 payloads -/
theorem gossip_roundtrip {μ : Type} (c : SerDe μ) (m : μ) (hlaw : c.Lawful m) :
    gossipDeliver c m = some m := hlaw

/-- the law is a real obligation: a codec that carries payloads as lossy text (0xFF → U+FFFD)
    violates it, and the message that arrives differs -/
def lossyCodec : SerDe Bytes :=
  ⟨fun b => b.flatMap (fun x => if x < 128 then [x] else [239, 191, 189]), fun b => some b⟩

theorem gossip_lossy_counterexample :
    ¬ lossyCodec.Lawful [255] ∧ gossipDeliver lossyCodec [255] = some [239, 191, 189] := by
  constructor
  · intro h
    unfold SerDe.Lawful lossyCodec at h
    simp at h
  · rfl

/-! ## length fields are 32-bit values: no bound test wraps -/

/-- `WalEntry::decode`: the size test the current code performs (checked `usize` add of the
    16-byte overhead and the `u32` length) rejects exactly when `16 + len > remaining` -/
theorem wal_decode_total_no_wrap (remaining len : Nat) (hl : len < 2 ^ 32) :
    sizeTest .usizeChecked overhead remaining len
      = if remaining < overhead + len then .reject else .slice (overhead + len) :=
  C10.decode_total_no_wrap remaining len hl

/-- `DeltaIterator::next` (`offset + 4`, `offset + len`) and `CheckpointReader::validate`
    (`data_start + data_len`, `footer_start + 16`): plain `usize` additions of an offset below
    `2^63` and a 32-bit length never wrap, so the model's unbounded comparison is the code's -/
theorem record_bounds_no_wrap (offset remaining len : Nat) (ho : offset < 2 ^ 63) (hl : len < 2 ^ 32) :
    sizeTest .usizeWrapping offset remaining len
      = if remaining < offset + len then .reject else .slice (offset + len) :=
  C10.size_test_no_wrap .usizeWrapping (by decide) offset remaining len ho hl

/-- 32-bit wrapping arithmetic accepts an erased-flash length and then slices out of range -/
theorem wal_size_wrap_counterexample :
    sizeTest .u32Wrapping overhead 16 0xFFFFFFF0 = .crash ∧
    sizeTest .usizeChecked overhead 16 0xFFFFFFF0 = .reject := by decide

/-! ## WAL entry -/

/-- `to_delta(decode(encode(from_delta(d, ts)))) = d`, followed by anything (both formats) -/
theorem wal_entry_roundtrip {δ : Type} (fmt : Format) (crc : Bytes → Nat) (ser : δ → Bytes)
    (de : Bytes → Option δ) (d : δ) (ts : Nat) (rest : Bytes) (hlaw : de (ser d) = some d)
    (hf : (Entry.mk' fmt crc (ser d) ts).Fits) (hne : fmt = .v2 → (ser d).length ≠ 0) :
    (decode fmt crc ((Entry.mk' fmt crc (ser d) ts).encode ++ rest)).bind (fun p => de p.1.data) = some d ∧
    (decode fmt crc ((Entry.mk' fmt crc (ser d) ts).encode ++ rest)).map (fun p => p.1.ts) = some ts := by
  have h := (C10.decode_encode fmt crc (Entry.mk' fmt crc (ser d) ts) rest ⟨hf, rfl, hne⟩).1
  rw [h]
  exact ⟨hlaw, rfl⟩

/-- CURRENT format: the stamp of a WAL entry is covered — an encoded entry whose stamp bytes
    were changed to `ts'` does not decode when the checksum tells the covered strings apart -/
theorem wal_timestamp_covered (crc : Bytes → Nat) (e : Entry) (ts' : Nat) (rest : Bytes)
    (he : e.Good .v2 crc) (ht : ts' < 2 ^ 64)
    (hne : crc (covered .v2 e.data.length ts' e.data) ≠ crc (covered .v2 e.data.length e.ts e.data)) :
    decode .v2 crc ((Entry.mk e.data ts' e.crc).encode ++ rest) = none := by
  have heq : (Entry.mk e.data ts' e.crc).encode ++ rest
      = le 4 e.data.length ++ (le 8 ts' ++ (le 4 e.crc ++ (e.data ++ rest))) := by simp [Entry.encode]
  rw [heq, decode_hdr .v2 crc _ _ _ _ he.1.1 ht he.1.2.2]
  split
  · rfl
  · rw [if_neg (by simp), List.take_left' rfl, if_neg (by rw [← he.2.1]; exact hne)]

/-- OLD format `.v1`: WAL payload corruption ends recovery (C10 `corruption_stops_payload`); what the entry
    checksum does NOT cover is the stamp: two entries that differ only in stamp bytes both
    decode, so a damaged stamp is decoded into different data -/
theorem wal_timestamp_uncovered_counterexample (crc : Bytes → Nat) (hr : crc [7] < 2 ^ 32) :
    ∃ img img' : Bytes, img.length = img'.length ∧ img' = img.set 5 1 ∧
      (decode .v1 crc img).map (fun p => p.1.ts) = some 5 ∧
      (decode .v1 crc img').map (fun p => p.1.ts) = some 261 ∧
      (decode .v1 crc img).map (fun p => p.1.data) = (decode .v1 crc img').map (fun p => p.1.data) := by
  have hg : ∀ t, t < 2 ^ 64 → (Entry.mk' .v1 crc [7] t).Good .v1 crc := fun t ht =>
    ⟨⟨by simp [Entry.mk'], by simpa [Entry.mk'] using ht, hr⟩, rfl, fun hc => by cases hc⟩
  have h1 := Wal.decode_encode .v1 crc (Entry.mk' .v1 crc [7] 5) [] (hg 5 (by decide))
  have h2 := Wal.decode_encode .v1 crc (Entry.mk' .v1 crc [7] 261) [] (hg 261 (by decide))
  rw [List.append_nil] at h1 h2
  refine ⟨(Entry.mk' .v1 crc [7] 5).encode, (Entry.mk' .v1 crc [7] 261).encode, ?_, ?_, ?_, ?_, ?_⟩
  · simp [encode_length]; rfl
  · simp [Entry.encode, Entry.mk', le, covered]
  · rw [h1]; rfl
  · rw [h2]; rfl
  · rw [h1, h2]; rfl

end C14
end RedisVerif
