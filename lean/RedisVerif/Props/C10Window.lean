import RedisVerif.Props.C10Bytes

/-!
# C10 — which hypothesis is left in `only_appended`, exactly

`C10_only_appended fmt crc` (Props/C10.lean) quantifies over every truncation, every ONE-byte
replacement and every cut followed by a zero-filled tail of a well-formed file image.  For the
current format and the executable CRC-32:

**It is FALSE**, and the two classes that `only_appended_crc32` leaves out are exactly where it fails
(kernel-checked witnesses, replayed on the real code on every run — finding
`C10:only-appended:crc32-collision:*`):

* `length_bit_flip_counterexample` — ONE flipped BIT in the length field of an entry (5 → 1): the
  checksum then covers a shorter string, and for a crafted payload the CRC-32 of
  `len' | stamp | payload[..len']` equals the stored CRC-32 of `len | stamp | payload`: recovery returns
  an entry with a 1-byte payload that nobody appended.  (CRC-32 guarantees nothing between strings
  of different lengths.)
* `torn_zero_fill_counterexample` — the file is cut 5 bytes before the end of an entry and the tail
  is zero-filled (the classic crash artefact): for a payload whose last 5 bytes are a multiple of the
  CRC polynomial the zero-filled entry passes the checksum: recovery returns altered data.  (A change
  wider than 32 bits.)

**Everything narrower is proved** (no hypothesis on the checksum), extending
`single_byte_corruption_yields_prefix` from one byte to every change confined to one FIELD:

* `header_damage_yields_prefix` — the 16 bytes of the file header replaced by ANY 16 bytes;
* `checksum_field_damage_stops` — the stored checksum of an entry replaced by ANY other value (all 4
  bytes may change);
* `payload_window4_damage_stops` — up to 4 CONSECUTIVE payload bytes replaced by anything (every
  two-byte damage within 4 bytes, every burst ≤ 25 bits, every byte-aligned burst ≤ 32 bits);
* `stamp_window4_damage_stops` — the same inside the 8-byte stamp;
* `torn_tail_zero_fill_le4` — a cut at most 4 bytes before the end of an entry followed by zeros of any
  length: what comes back was appended;
* `field_damage_yields_prefix` packages them: recovery returns a PREFIX of the appended entries.
-/
namespace RedisVerif
namespace C10

open Wal Driver WalBytes Concrete

/-! ## the two witnesses -/

/-- payload crafted so that `crc32 (le 4 1 ++ le 8 7 ++ [65]) = crc32 (le 4 5 ++ le 8 7 ++ payload)` -/
def lenWitness : Entry := Entry.mk' .v2 crc32 [65, 163, 53, 179, 117] 7

/-- payload whose last five bytes `[1, 150, 48, 7, 119]` are a multiple of the CRC-32 polynomial:
    zeroing them does not change the checksum -/
def tornWitness : Entry := Entry.mk' .v2 crc32 [1, 1, 150, 48, 7, 119] 7

/-- what recovery returns from the file holding `lenWitness` once bit 2 of its first length byte is
    flipped (5 → 1): one entry, payload `[65]`, same stamp, same stored checksum — never appended -/
theorem length_bit_flip_recovers :
    fileEntries .v2 crc32 ((fileImage .v2 1 [lenWitness]).set 16 1) = [⟨[65], 7, lenWitness.crc⟩] ∧
    (fileImage .v2 1 [lenWitness])[16]? = some 5 := by decide +kernel

theorem length_bit_flip_counterexample : ¬ C10_only_appended .v2 crc32 := by
  intro h
  have := h 1 [lenWitness] (by decide) (by decide +kernel) ((fileImage .v2 1 [lenWitness]).set 16 1)
    (Or.inr (Or.inl ⟨16, 1, by decide +kernel, rfl⟩))
  revert this
  decide +kernel

/-- what recovery returns from the file holding `tornWitness` cut 5 bytes short and zero-filled -/
theorem torn_zero_fill_recovers :
    fileEntries .v2 crc32 ((fileImage .v2 1 [tornWitness]).take 33 ++ List.replicate 5 0)
      = [⟨[1, 0, 0, 0, 0, 0], 7, tornWitness.crc⟩] ∧ (fileImage .v2 1 [tornWitness]).length = 38 := by
  decide +kernel

theorem torn_zero_fill_counterexample : ¬ C10_only_appended .v2 crc32 := by
  intro h
  have := h 1 [tornWitness] (by decide) (by decide +kernel)
    ((fileImage .v2 1 [tornWitness]).take 33 ++ List.replicate 5 0) (Or.inr (Or.inr ⟨33, 5, rfl⟩))
  revert this
  decide +kernel

/-! ## damage confined to one field -/

/-- the file header replaced by ANY 16 bytes: all entries or none -/
theorem header_damage_yields_prefix (es : List Entry) (h' : Bytes) (hl : h'.length = 16)
    (hok : AllOk .v2 crc32 es) : ∃ k, fileEntries .v2 crc32 (h' ++ encs es) = es.take k := by
  rw [fileEntries_hdr .v2 crc32 h' _ hl]
  split
  · exact ⟨es.length, by rw [entries_encs .v2 crc32 es hok, List.take_length]⟩
  · exact ⟨0, rfl⟩

/-- the stored checksum of an entry replaced by ANY other value -/
theorem checksum_field_damage_stops (seq : Nat) (es₁ : List Entry) (e : Entry) (c' : Nat) (rest : Bytes)
    (hs : seq < 2 ^ 64) (hok₁ : AllOk .v2 crc32 es₁) (he : e.Good .v2 crc32) (hc : c' < 2 ^ 32) (hne : c' ≠ e.crc) :
    fileEntries .v2 crc32 (fileImage .v2 seq es₁ ++ ((Entry.mk e.data e.ts c').encode ++ rest)) = es₁ := by
  apply corruption_stops_payload .v2 crc32 seq es₁ e.data e.ts c' rest hs hok₁ ⟨he.1.1, he.1.2.1, hc⟩
  have hval : crc32 (covered .v2 e.data.length e.ts e.data) = e.crc := he.2.1
  rw [hval]
  exact fun h => hne h.symm

/-- up to 4 consecutive PAYLOAD bytes replaced by anything else -/
theorem payload_window4_damage_stops (seq : Nat) (es₁ : List Entry) (e : Entry) (pre w w' post rest : Bytes)
    (hs : seq < 2 ^ 64) (hok₁ : AllOk .v2 crc32 es₁) (he : e.Good .v2 crc32)
    (hd : e.data = pre ++ w ++ post) (hlen : w.length = w'.length) (h4 : w.length ≤ 4)
    (hb : ∀ x ∈ e.data, x < 256) (hw' : ∀ x ∈ w', x < 256) (hne : w ≠ w') :
    fileEntries .v2 crc32
      (fileImage .v2 seq es₁ ++ ((Entry.mk (pre ++ w' ++ post) e.ts e.crc).encode ++ rest)) = es₁ := by
  have hl' : (pre ++ w' ++ post).length = e.data.length := by
    rw [hd]; simp only [List.length_append]; omega
  apply corruption_stops_payload .v2 crc32 seq es₁ (pre ++ w' ++ post) e.ts e.crc rest hs hok₁
  · exact ⟨by simp only; rw [hl']; exact he.1.1, he.1.2.1, he.1.2.2⟩
  · have hval : crc32 (covered .v2 e.data.length e.ts e.data) = e.crc := he.2.1
    rw [← hval, hl', covered_v2_eq, covered_v2_eq, hd]
    have hw : ∀ x ∈ w, x < 256 := fun x hx => hb x (by rw [hd]; simp [hx])
    have := C14.crc32_detects_window4 ((le 4 (pre ++ w ++ post).length ++ le 8 e.ts) ++ pre) w w' post hlen h4 hw hw' hne
    intro heq
    apply this
    simp only [List.append_assoc] at heq ⊢
    exact heq.symm

/-- up to 4 consecutive STAMP bytes replaced by anything else -/
theorem stamp_window4_damage_stops (seq : Nat) (es₁ : List Entry) (e : Entry) (pre w w' post rest : Bytes)
    (hs : seq < 2 ^ 64) (hok₁ : AllOk .v2 crc32 es₁) (he : e.Good .v2 crc32)
    (hd : le 8 e.ts = pre ++ w ++ post) (hlen : w.length = w'.length) (h4 : w.length ≤ 4)
    (hw' : ∀ x ∈ w', x < 256) (hne : w ≠ w') :
    fileEntries .v2 crc32
      (fileImage .v2 seq es₁ ++ ((Entry.mk e.data (leVal (pre ++ w' ++ post)) e.crc).encode ++ rest)) = es₁ ∧
    le 8 (leVal (pre ++ w' ++ post)) = pre ++ w' ++ post := by
  have hl8 : (pre ++ w' ++ post).length = 8 := by
    have := congrArg List.length hd
    rw [le_length] at this
    simp only [List.length_append] at this ⊢
    omega
  have hbs : ∀ x ∈ pre ++ w' ++ post, x < 256 := by
    intro x hx
    have hle := le_bytes 8 e.ts
    rw [hd] at hle
    simp only [List.mem_append] at hx hle
    rcases hx with (hx | hx) | hx
    · exact hle x (Or.inl (Or.inl hx))
    · exact hw' x hx
    · exact hle x (Or.inr hx)
  have hle : le 8 (leVal (pre ++ w' ++ post)) = pre ++ w' ++ post := by
    have := Codec.le_leVal _ hbs
    rwa [hl8] at this
  have hts : leVal (pre ++ w' ++ post) < 2 ^ 64 := by
    have := leVal_lt _ hbs
    rwa [hl8] at this
  refine ⟨?_, hle⟩
  apply timestamp_corruption_stops_v2 crc32 seq es₁ e _ rest hs hok₁ he hts
  simp only [covered]
  rw [hle, hd]
  have hw : ∀ x ∈ w, x < 256 := fun x hx => by
    have hle8 := le_bytes 8 e.ts
    rw [hd] at hle8
    exact hle8 x (by simp [hx])
  have := C14.crc32_detects_window4 (le 4 e.data.length ++ pre) w w' (post ++ e.data) hlen h4 hw hw' hne
  intro heq
  apply this
  simp only [List.append_assoc] at heq ⊢
  exact heq.symm

/-- a torn entry whose missing tail (at most 4 bytes, inside the payload) was zero-filled: the entry
    either does not decode or IS the appended entry (its tail was zeros anyway) -/
theorem torn_tail_zero_fill_le4 (seq : Nat) (es₁ : List Entry) (e : Entry) (es₂ : List Entry) (j m : Nat)
    (hs : seq < 2 ^ 64) (hok₁ : AllOk .v2 crc32 es₁) (he : e.Good .v2 crc32) (hb : ∀ x ∈ e.data, x < 256)
    (hj : j ≤ 4) (hjd : j ≤ e.data.length) :
    ∀ x ∈ fileEntries .v2 crc32
      (fileImage .v2 seq es₁ ++ (e.encode.take (e.encode.length - j) ++ List.replicate m 0)),
      x ∈ es₁ ++ e :: es₂ := by
  have hlen := encode_length e
  simp only [overhead] at hlen
  -- the surviving part of the encoding is the encoding of the entry with a shortened payload
  have htake : e.encode.take (e.encode.length - j)
      = le 4 e.data.length ++ (le 8 e.ts ++ (le 4 e.crc ++ e.data.take (e.data.length - j))) := by
    unfold Entry.encode
    rw [List.take_append, List.take_of_length_le (by rw [le_length]; simp [le_length]; omega), le_length]
    rw [List.take_append, List.take_of_length_le (by rw [le_length]; simp [le_length]; omega), le_length]
    rw [List.take_append, List.take_of_length_le (by rw [le_length]; simp [le_length]; omega), le_length]
    congr 4
    simp [le_length]; omega
  by_cases hm : m < j
  · -- the declared payload is not there: truncated entry, recovery stops
    intro x hx
    have hnone : decode .v2 crc32 (e.encode.take (e.encode.length - j) ++ List.replicate m 0) = none := by
      rw [htake]
      have : le 4 e.data.length ++ (le 8 e.ts ++ (le 4 e.crc ++ e.data.take (e.data.length - j))) ++ List.replicate m 0
          = le 4 e.data.length ++ (le 8 e.ts ++ (le 4 e.crc ++ (e.data.take (e.data.length - j) ++ List.replicate m 0))) := by
        simp
      rw [this, decode_hdr .v2 crc32 _ _ _ _ he.1.1 he.1.2.1 he.1.2.2]
      split
      · rfl
      · rw [if_pos (by simp only [List.length_append, List.length_take, List.length_replicate]; omega)]
    unfold fileImage at hx
    rw [List.append_assoc, fileEntries_image .v2 crc32 seq _ hs, entries_encs_append .v2 crc32 es₁ _ hok₁,
      entries_of_decode_none .v2 crc32 _ hnone, List.append_nil] at hx
    exact List.mem_append_left _ hx
  · -- enough zeros: the entry's payload is `data[..len-j] ++ zeros j`
    have hmj : j ≤ m := Nat.le_of_not_lt hm
    have hsplit : List.replicate m 0 = List.replicate j 0 ++ List.replicate (m - j) 0 := by
      rw [List.replicate_append_replicate]; congr 1; omega
    have hdata : e.data = e.data.take (e.data.length - j) ++ e.data.drop (e.data.length - j) :=
      (List.take_append_drop _ _).symm
    have hdl : (e.data.drop (e.data.length - j)).length = j := by rw [List.length_drop]; omega
    have himg : fileImage .v2 seq es₁ ++ (e.encode.take (e.encode.length - j) ++ List.replicate m 0)
        = fileImage .v2 seq es₁ ++
          ((Entry.mk (e.data.take (e.data.length - j) ++ List.replicate j 0 ++ []) e.ts e.crc).encode
            ++ List.replicate (m - j) 0) := by
      have hl' : (e.data.take (e.data.length - j) ++ List.replicate j 0).length = e.data.length := by
        simp only [List.length_append, List.length_take, List.length_replicate]; omega
      have henc : (Entry.mk (e.data.take (e.data.length - j) ++ List.replicate j 0 ++ []) e.ts e.crc).encode
          = le 4 e.data.length ++ (le 8 e.ts ++ (le 4 e.crc ++ (e.data.take (e.data.length - j) ++ List.replicate j 0))) := by
        rw [List.append_nil]
        simp only [Entry.encode]
        rw [hl']
      rw [htake, hsplit, henc]
      simp only [List.append_assoc]
    rw [himg]
    by_cases hz : e.data.drop (e.data.length - j) = List.replicate j 0
    · -- the lost bytes were zeros: the entry is intact, the rest is a zero tail
      have hsame : (Entry.mk (e.data.take (e.data.length - j) ++ List.replicate j 0 ++ []) e.ts e.crc) = e := by
        rw [← hz, List.append_nil, ← hdata]
      rw [hsame]
      have : fileImage .v2 seq es₁ ++ (e.encode ++ List.replicate (m - j) 0)
          = fileImage .v2 seq (es₁ ++ [e]) ++ List.replicate (m - j) 0 := by
        unfold fileImage; rw [encs_append]; simp [encs]
      rw [this, zero_tail_stops_v2 crc32 seq (es₁ ++ [e]) (m - j) hs (by
        intro x hx
        rcases List.mem_append.mp hx with h | h
        · exact hok₁ x h
        · simp only [List.mem_singleton] at h; subst h; exact he)]
      intro x hx
      rcases List.mem_append.mp hx with h | h
      · exact List.mem_append_left _ h
      · simp only [List.mem_singleton] at h; subst h; simp
    · -- they were not: a change confined to the last `j ≤ 4` payload bytes, detected
      have := payload_window4_damage_stops seq es₁ e (e.data.take (e.data.length - j))
        (e.data.drop (e.data.length - j)) (List.replicate j 0) [] (List.replicate (m - j) 0) hs hok₁ he
        (by rw [List.append_nil]; exact hdata) (by rw [hdl, List.length_replicate]) (by omega) hb
        (by intro x hx; rw [List.mem_replicate] at hx; omega) hz
      rw [this]
      intro x hx
      exact List.mem_append_left _ hx

/-- damage confined to ONE field of a well-formed file image other than an entry's length field:
    the file header (any 16 bytes), one entry's stamp or payload (up to 4 consecutive bytes replaced),
    one entry's stored checksum (any value) -/
inductive FieldDamage (seq : Nat) (es : List Entry) : Bytes → Prop where
  | header (h' : Bytes) (hl : h'.length = 16) : FieldDamage seq es (h' ++ encs es)
  | checksum (es₁ : List Entry) (e : Entry) (es₂ : List Entry) (c' : Nat) (hes : es = es₁ ++ e :: es₂)
      (hc : c' < 2 ^ 32) :
      FieldDamage seq es (fileImage .v2 seq es₁ ++ ((Entry.mk e.data e.ts c').encode ++ encs es₂))
  | payload (es₁ : List Entry) (e : Entry) (es₂ : List Entry) (pre w w' post : Bytes) (hes : es = es₁ ++ e :: es₂)
      (hd : e.data = pre ++ w ++ post) (hlen : w.length = w'.length) (h4 : w.length ≤ 4) (hw' : ∀ x ∈ w', x < 256) :
      FieldDamage seq es (fileImage .v2 seq es₁ ++ ((Entry.mk (pre ++ w' ++ post) e.ts e.crc).encode ++ encs es₂))
  | stamp (es₁ : List Entry) (e : Entry) (es₂ : List Entry) (pre w w' post : Bytes) (hes : es = es₁ ++ e :: es₂)
      (hd : le 8 e.ts = pre ++ w ++ post) (hlen : w.length = w'.length) (h4 : w.length ≤ 4) (hw' : ∀ x ∈ w', x < 256) :
      FieldDamage seq es
        (fileImage .v2 seq es₁ ++ ((Entry.mk e.data (leVal (pre ++ w' ++ post)) e.crc).encode ++ encs es₂))

/-- MAIN: such damage makes recovery of the file return a PREFIX of the appended entries — nothing
    altered, nothing invented, no hypothesis on the checksum -/
theorem field_damage_yields_prefix (seq : Nat) (es : List Entry) (img : Bytes)
    (hs : seq < 2 ^ 64) (hok : AllOk .v2 crc32 es) (hb : ∀ e ∈ es, ∀ x ∈ e.data, x < 256)
    (hd : FieldDamage seq es img) : ∃ k, fileEntries .v2 crc32 img = es.take k := by
  have intact : ∀ es₁ e es₂, es = es₁ ++ e :: es₂ →
      fileEntries .v2 crc32 (fileImage .v2 seq es₁ ++ (e.encode ++ encs es₂)) = es.take es.length := by
    intro es₁ e es₂ hes
    have : fileImage .v2 seq es₁ ++ (e.encode ++ encs es₂) = fileImage .v2 seq es := by
      unfold fileImage; rw [hes, encs_append, encs_cons, List.append_assoc]
    rw [this, List.take_length]
    exact fileEntries_fileImage .v2 crc32 seq es hs hok
  cases hd with
  | header h' hl => exact header_damage_yields_prefix es h' hl hok
  | checksum es₁ e es₂ c' hes hc =>
    have hok₁ : AllOk .v2 crc32 es₁ := fun x hx => hok x (by rw [hes]; exact List.mem_append_left _ hx)
    have he : e.Good .v2 crc32 := hok e (by rw [hes]; simp)
    by_cases hne : c' = e.crc
    · subst hne
      exact ⟨es.length, intact es₁ e es₂ hes⟩
    · exact ⟨es₁.length, by
        rw [checksum_field_damage_stops seq es₁ e c' _ hs hok₁ he hc hne, hes, List.take_left' rfl]⟩
  | payload es₁ e es₂ pre w w' post hes hd hlen h4 hw' =>
    have hok₁ : AllOk .v2 crc32 es₁ := fun x hx => hok x (by rw [hes]; exact List.mem_append_left _ hx)
    have he : e.Good .v2 crc32 := hok e (by rw [hes]; simp)
    have hbe : ∀ x ∈ e.data, x < 256 := hb e (by rw [hes]; simp)
    by_cases hne : w = w'
    · subst hne
      refine ⟨es.length, ?_⟩
      rw [← hd]
      exact intact es₁ e es₂ hes
    · exact ⟨es₁.length, by
        rw [payload_window4_damage_stops seq es₁ e pre w w' post _ hs hok₁ he hd hlen h4 hbe hw' hne, hes,
          List.take_left' rfl]⟩
  | stamp es₁ e es₂ pre w w' post hes hd hlen h4 hw' =>
    have hok₁ : AllOk .v2 crc32 es₁ := fun x hx => hok x (by rw [hes]; exact List.mem_append_left _ hx)
    have he : e.Good .v2 crc32 := hok e (by rw [hes]; simp)
    by_cases hne : w = w'
    · subst hne
      refine ⟨es.length, ?_⟩
      rw [← hd, leVal_le 8 _ (by simpa using he.1.2.1)]
      exact intact es₁ e es₂ hes
    · exact ⟨es₁.length, by
        rw [(stamp_window4_damage_stops seq es₁ e pre w w' post _ hs hok₁ he hd hlen h4 hw' hne).1, hes,
          List.take_left' rfl]⟩

-- non-vacuity: the second and third stamp bytes of the first of two entries replaced (5 -> 0x020105)
example : FieldDamage 1 [Entry.mk' .v2 crc32 [7] 5, Entry.mk' .v2 crc32 [1, 2] 9]
    (fileImage .v2 1 [] ++ ((Entry.mk [7] (leVal ([5] ++ [1, 2] ++ [0, 0, 0, 0, 0])) (Entry.mk' .v2 crc32 [7] 5).crc).encode
      ++ encs [Entry.mk' .v2 crc32 [1, 2] 9])) :=
  FieldDamage.stamp [] (Entry.mk' .v2 crc32 [7] 5) [Entry.mk' .v2 crc32 [1, 2] 9] [5] [0, 0] [1, 2] [0, 0, 0, 0, 0] rfl
    (by decide) rfl (by decide) (by decide)

end C10
end RedisVerif
