import RedisVerif.Props.C16
import RedisVerif.Props.C16Script

/-!
# C16 — the RESP → Lua → RESP conversion, exactly, for EVERY reply

`lua_roundtrip_partial` (Props/C16.lean) says that `lua_to_resp (resp_to_lua_value r) = r` for the replies in
`ConvStable`.  This file closes the statement from the other side, for every reply shape — nested arrays, nil
bulk / nil array at any depth, status and error texts that are not UTF-8, integers of any size:

* `roundTrip` — what a client receives when a script passes a command's reply on (`return redis.call(…)`), as a
  structural function on replies: a nil array becomes a nil bulk, a status / error reply whose text is not valid
  UTF-8 becomes the empty array, an array is CUT at its first nil element (nil bulk or nil array — the recorded
  finding `C16:lua:nil-bulk-becomes-nil-not-false`), everything else is kept, recursively;
* `lua_roundtrip_exact` — `luaToResp (respToLua r) = roundTrip r` for every `r`;
* `lua_roundtrip_iff` — the conversion gives the reply back EXACTLY on `ConvStable` (the hypothesis of
  `lua_roundtrip_partial` is not merely sufficient: it is the precise domain);
* `roundTrip_stable` / `roundTrip_idempotent` — whatever a script passes on is itself a fixed point of the
  conversion (passing a reply through a second script changes nothing more);
* `roundTrip_array_prefix` — an array reply comes back as a PREFIX of its converted elements: elements are lost
  only at the end, never reordered or altered in front of the cut; `roundTrip_array_length` — its length is the
  number of elements before the first nil;
* `integer_reply_exact` / `bulk_reply_exact` / `status_reply_exact` — integers of any size (no float detour), bulk
  strings byte for byte (also empty, binary), status vs bulk are never confused.
-/
namespace RedisVerif
namespace C16

open Grammar LuaConv LuaScript

mutual
/-- what `lua_to_resp (resp_to_lua_value r)` is, as a function on replies -/
def roundTrip : Resp → Resp
  | .simple s => if validUtf8 s then .simple s else .array (some [])
  | .error s => if validUtf8 s then .error s else .array (some [])
  | .int i => .int i
  | .bulk b => .bulk b
  | .array none => .bulk none
  | .array (some xs) => .array (some (roundTripL xs))
/-- the elements up to the first nil one, each converted -/
def roundTripL : List Resp → List Resp
  | [] => []
  | x :: xs => if isNil x then [] else roundTrip x :: roundTripL xs
end

theorem respToLua_nil_of_isNil {x : Resp} (h : isNil x = true) : respToLua x = .nil := by
  cases x with
  | simple s => simp [isNil] at h
  | error s => simp [isNil] at h
  | int i => simp [isNil] at h
  | bulk b => cases b <;> simp_all [respToLua, isNil]
  | array a => cases a <;> simp_all [respToLua, isNil]

mutual
/-- the conversion there and back, for EVERY reply -/
theorem lua_roundtrip_exact : ∀ r : Resp, luaToResp (respToLua r) = roundTrip r
  | .simple s => by simp [respToLua, luaToResp, roundTrip]
  | .error s => by simp [respToLua, luaToResp, roundTrip]
  | .int i => by simp [respToLua, luaToResp, roundTrip]
  | .bulk none => by simp [respToLua, luaToResp, roundTrip]
  | .bulk (some b) => by simp [respToLua, luaToResp, roundTrip]
  | .array none => by simp [respToLua, luaToResp, roundTrip]
  | .array (some xs) => by simp only [respToLua, luaToResp, roundTrip, lua_roundtrip_exact_list xs]
theorem lua_roundtrip_exact_list : ∀ xs : List Resp, luaToRespL (respToLuaL xs) = roundTripL xs
  | [] => by simp [respToLuaL, luaToRespL, roundTripL]
  | x :: xs => by
    simp only [respToLuaL, roundTripL]
    cases hn : isNil x with
    | true => simp [respToLua_nil_of_isNil hn, luaToRespL]
    | false =>
      rw [luaToRespL_cons (respToLua_ne_nil hn), lua_roundtrip_exact x, lua_roundtrip_exact_list xs]
      simp
end

theorem isNil_roundTrip_of_not {x : Resp} (h : isNil x = false) : isNil (roundTrip x) = false := by
  cases x with
  | simple s => simp only [roundTrip]; split <;> rfl
  | error s => simp only [roundTrip]; split <;> rfl
  | int i => rfl
  | bulk b => cases b <;> simp_all [roundTrip, isNil]
  | array a => cases a <;> simp_all [roundTrip, isNil]

mutual
/-- whatever comes back is a fixed point of the conversion -/
theorem roundTrip_stable : ∀ r : Resp, ConvStable (roundTrip r) = true
  | .simple s => by
    simp only [roundTrip]
    split
    · simpa [ConvStable]
    · simp [ConvStable, ConvStableL]
  | .error s => by
    simp only [roundTrip]
    split
    · simpa [ConvStable]
    · simp [ConvStable, ConvStableL]
  | .int i => by simp [roundTrip, ConvStable]
  | .bulk b => by simp [roundTrip, ConvStable]
  | .array none => by simp [roundTrip, ConvStable]
  | .array (some xs) => by simp only [roundTrip, ConvStable, roundTripL_stable xs]
theorem roundTripL_stable : ∀ xs : List Resp, ConvStableL (roundTripL xs) = true
  | [] => by simp [roundTripL, ConvStableL]
  | x :: xs => by
    simp only [roundTripL]
    cases hn : isNil x with
    | true => simp [ConvStableL]
    | false =>
      simp only [Bool.false_eq_true, if_false, ConvStableL, isNil_roundTrip_of_not hn, roundTrip_stable x,
        roundTripL_stable xs, Bool.not_false, Bool.and_self]
end

/-- the conversion gives the reply back EXACTLY on `ConvStable` -/
theorem lua_roundtrip_iff (r : Resp) : luaToResp (respToLua r) = r ↔ ConvStable r = true := by
  constructor
  · intro h
    rw [lua_roundtrip_exact] at h
    rw [← h]
    exact roundTrip_stable r
  · exact lua_roundtrip_partial r

/-- passing a reply through a second script changes nothing more -/
theorem roundTrip_idempotent (r : Resp) : roundTrip (roundTrip r) = roundTrip r := by
  rw [← lua_roundtrip_exact (roundTrip r)]
  exact lua_roundtrip_partial _ (roundTrip_stable r)

/-- the elements in front of the first nil, converted: a PREFIX of the element-wise conversion -/
theorem roundTripL_prefix : ∀ xs : List Resp, roundTripL xs <+: xs.map roundTrip
  | [] => by simp [roundTripL]
  | x :: xs => by
    simp only [roundTripL, List.map_cons]
    split
    · exact List.nil_prefix
    · exact (List.prefix_cons_inj _).mpr (roundTripL_prefix xs)

theorem roundTrip_array_prefix (xs : List Resp) :
    ∃ ys, roundTrip (.array (some xs)) = .array (some ys) ∧ ys <+: xs.map roundTrip :=
  ⟨roundTripL xs, by simp [roundTrip], roundTripL_prefix xs⟩

/-- the number of elements in front of the first nil one -/
def beforeNil : List Resp → Nat
  | [] => 0
  | x :: xs => if isNil x then 0 else beforeNil xs + 1

theorem roundTripL_length : ∀ xs : List Resp, (roundTripL xs).length = beforeNil xs
  | [] => rfl
  | x :: xs => by
    simp only [roundTripL, beforeNil]
    split
    · rfl
    · simp [roundTripL_length xs]

/-- an array without a nil element keeps its length; one with a nil element is strictly shorter -/
theorem roundTrip_array_length (xs : List Resp) :
    (roundTripL xs).length = xs.length ↔ xs.all (fun x => !isNil x) = true := by
  induction xs with
  | nil => simp [roundTripL]
  | cons x xs ih =>
    simp only [roundTripL, List.all_cons, Bool.and_eq_true, Bool.not_eq_true']
    cases hn : isNil x with
    | true => simp
    | false => simp [ih]

/-- integer replies of any size pass unchanged (no detour through a Lua float) -/
theorem integer_reply_exact (i : Int) : luaToResp (respToLua (.int i)) = .int i := by
  simp [respToLua, luaToResp]

/-- bulk strings pass byte for byte: empty, binary, not UTF-8 -/
theorem bulk_reply_exact (b : Bytes) : luaToResp (respToLua (.bulk (some b))) = .bulk (some b) := by
  simp [respToLua, luaToResp]

/-- a status reply never comes back as a bulk string nor the reverse: `{ok = s}` and `s` stay apart -/
theorem status_reply_exact (s : Bytes) (h : validUtf8 s = true) :
    luaToResp (respToLua (.simple s)) = .simple s ∧ luaToResp (respToLua (.bulk (some s))) = .bulk (some s) ∧
    Resp.simple s ≠ .bulk (some s) := by
  refine ⟨by simp [respToLua, luaToResp, h], by simp [respToLua, luaToResp], by intro h'; cases h'⟩

/-! ## what `return redis.pcall(…)` answers, for EVERY executor, state and reply

  `pcall_reply_equals_direct_partial` needs `ConvStable` of the direct reply.  With `roundTrip` the statement holds without
  a hypothesis on the reply: the EVAL answers `roundTrip` of what the client gets for the same words (an error reply stays
  the error reply: `redis.pcall` hands the script `{err = …}`, which converts back), and leaves the state the client's
  command leaves. -/

theorem pcall_reply_exact {σ : Type} (exec : σ → Cmd → σ × Resp) (env : Env) (s : σ) (args : List AExpr)
    (w : Bytes) (ws : List Bytes) (c : Cmd)
    (hargs : argsBytes (args.map (AExpr.eval env [])) = some (w :: ws)) (hp : parseLua (w :: ws) = .ok c) :
    evalScript exec env s ⟨[⟨true, args⟩], .res 0⟩ = ((exec s c).1, some (roundTrip (exec s c).2)) ∧
    directStep exec s (w :: ws) = ((exec s c).1, some (exec s c).2) := by
  obtain ⟨_, hd, hcall⟩ := call_equals_direct exec s true _ w ws c hargs hp
  refine ⟨?_, hd⟩
  rcases hx : exec s c with ⟨s', r⟩
  rw [hx] at hcall
  rw [callOutcome_prot] at hcall
  simp only [evalScript, runCalls, runCallsA, hcall, Ret.eval, List.nil_append, List.getElem?_cons_zero]
  rw [lua_roundtrip_exact r]

/-- hence: script and client get the SAME reply exactly when the direct reply is `ConvStable` (for every executor) -/
theorem pcall_reply_same_iff {σ : Type} (exec : σ → Cmd → σ × Resp) (env : Env) (s : σ) (args : List AExpr)
    (w : Bytes) (ws : List Bytes) (c : Cmd)
    (hargs : argsBytes (args.map (AExpr.eval env [])) = some (w :: ws)) (hp : parseLua (w :: ws) = .ok c) :
    (evalScript exec env s ⟨[⟨true, args⟩], .res 0⟩).2 = (directStep exec s (w :: ws)).2 ↔
      ConvStable (exec s c).2 = true := by
  obtain ⟨h1, h2⟩ := pcall_reply_exact exec env s args w ws c hargs hp
  rw [h1, h2]
  simp only [Option.some.injEq]
  rw [← lua_roundtrip_exact]
  exact lua_roundtrip_iff _

/-- non-vacuity / pinned shapes: a nil deep inside cuts only the array that holds it; a nil ARRAY cuts as a nil bulk
    does; a status that is not UTF-8 becomes the empty array; i64 extremes stay -/
example :
    roundTrip (.array (some [.int 1, .array (some [.bulk (some [120]), .bulk none, .int 7]), .int 3])) =
      .array (some [.int 1, .array (some [.bulk (some [120])]), .int 3]) ∧
    roundTrip (.array (some [.int 1, .array none, .int 3])) = .array (some [.int 1]) ∧
    roundTrip (.simple [0xff]) = .array (some []) ∧
    roundTrip (.array (some [.int 9223372036854775807, .int (-9223372036854775808)])) =
      .array (some [.int 9223372036854775807, .int (-9223372036854775808)]) := by
  have h : validUtf8 [0xff] = false := by decide
  simp [roundTrip, roundTripL, isNil, h]

end C16
end RedisVerif
