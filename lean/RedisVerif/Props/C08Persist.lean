import RedisVerif.Props.C08Startup
import RedisVerif.Props.C14Bincode
import RedisVerif.Driver.Bincode

/-!
# C08 ∘ C14: the stamp that is persisted is the stamp that was issued

C08's theorems across a restart talk about the values the start-up sequence hands to the shards.
Those values are what `bincode::deserialize` makes of the bytes in the WAL / a segment / a
checkpoint.  With C14's byte-exact bincode model (`bincode_roundtrip`: `de (ser d ++ junk) = d`
for every representable delta, `bincode_state_roundtrip` for checkpoint states) the chain closes:

* `persisted_delta_is_issued` / `persisted_stamps_are_issued` — what is read back from the bytes of a
  delta carries exactly the stamps (outer and per-field) it was issued with;
* `startup_no_repeat_from_bytes` — the production start-up run on the values DECODED from the
  persisted bytes (checkpoint state, segment deltas, WAL deltas — any wire order of the maps, any
  trailing bytes) puts every shard's clock above every stamp of every delta that was ENCODED, so no
  stamp the new incarnation issues repeats one that was issued and persisted before the crash.

`toModel` is the reading of a wire value as the M1 value the shard model works on
(`Driver.Bin.toRV`: maps keyed by the injective `keyCode`) — the same function the C14 / C10
correspondence prints the REAL decoded values through on every run.  What remains outside:
that the bytes reach the disk and come back (C09 / C10 / C12), and which deltas they contain (C11).
-/
namespace RedisVerif
namespace C08

open Shard ShardedNode Bincode Driver Driver.Bin

/-- a wire delta as the (key code, value) pair the node model recovers -/
def toModel (d : WDelta) : Nat × RV := (keyCode d.key, toRV d.value)

/-- what a reader gets back from the bytes of one persisted delta (trailing bytes — the rest of the
    segment / WAL file — do not matter) -/
theorem persisted_delta_is_issued (d : WDelta) (junk : Bytes) (hd : delta.ok d) :
    deDelta (delta.enc d ++ junk) = some d :=
  C14.bincode_trailing_bytes_ignored d junk hd

/-- … in particular every stamp of it -/
theorem persisted_stamps_are_issued (d : WDelta) (junk : Bytes) (hd : delta.ok d) :
    (deDelta (delta.enc d ++ junk)).map (fun x => (toModel x).2.allStamps) =
      some (toModel d).2.allStamps := by
  rw [persisted_delta_is_issued d junk hd]; rfl

/-- reading back a list of persisted deltas, each from its own record -/
def readBack (recs : List Bytes) : List (Nat × RV) :=
  (recs.filterMap deDelta).map toModel

theorem readBack_enc (ds : List WDelta) (hd : ∀ d ∈ ds, delta.ok d) :
    readBack (ds.map delta.enc) = ds.map toModel := by
  unfold readBack
  congr 1
  induction ds with
  | nil => rfl
  | cons d ds ih =>
    have h1 := persisted_delta_is_issued d [] (hd d List.mem_cons_self)
    rw [List.append_nil] at h1
    simp only [List.map_cons, List.filterMap_cons, h1]
    rw [ih (fun x hx => hd x (List.mem_cons_of_mem _ hx))]

/-- the checkpoint state read back from its bytes -/
def readBackState (bytes : Bytes) : List (Nat × RV) :=
  match deState bytes with
  | some s => s.map (fun p => (keyCode p.1, toRV p.2))
  | none => []

theorem readBackState_enc (s : WState) (junk : Bytes) (hs : state.ok s) :
    readBackState (state.enc s ++ junk) = s.map (fun p => (keyCode p.1, toRV p.2)) := by
  unfold readBackState deState
  rw [C14.bincode_state_roundtrip s junk hs]
  rfl

/-- **no stamp repeats across a restart that recovers from BYTES**: `ckpt`, `segs`, `wal` are what
    the previous incarnation encoded; the new incarnation decodes the bytes and runs the production
    start-up; every stamp it issues afterwards on shard `s` is strictly greater than every stamp
    of every encoded delta / checkpoint entry whose key lives on `s`. -/
theorem startup_no_repeat_from_bytes (route : Nat → Nat) (nd : ShardedNode)
    (ckpt : WState) (segs wal : List WDelta)
    (hc : state.ok ckpt) (hsg : ∀ d ∈ segs, delta.ok d) (hw : ∀ d ∈ wal, delta.ok d)
    (hdom : ∀ p ∈ ckpt.map (fun p => (keyCode p.1, toRV p.2)) ++ segs.map toModel ++ wal.map toModel,
      p.2.Dominated)
    (s : Nat) (sh' : Shard)
    (hs : (startup route nd (readBackState (state.enc ckpt)) (readBack (segs.map delta.enc))
            (readBack (wal.map delta.enc)))[s]? = some sh')
    (p : Nat × RV)
    (hp : p ∈ ckpt.map (fun p => (keyCode p.1, toRV p.2)) ++ segs.map toModel ++ wal.map toModel)
    (hr : route p.1 = s) (rest : List Op) :
    ∀ t ∈ issued sh' rest, ∀ u ∈ p.2.allStamps, u.lt t = true := by
  have h0 := readBackState_enc ckpt [] hc
  rw [List.append_nil] at h0
  rw [h0, readBack_enc segs hsg, readBack_enc wal hw] at hs
  exact startup_no_repeat route nd _ _ _ hdom s sh' hs p hp hr rest

/-- non-vacuity: a SET delta and an HSET delta go through bytes and come back with their stamps -/
example :
    let d1 : WDelta := ⟨[107], ⟨.lww ⟨some [118], 7, 1, false⟩, none, some 5000, 7, 1, none⟩, 1⟩
    let d2 : WDelta := ⟨[104], ⟨.hash [([102], ⟨some [49], 9, 1, false⟩)], some [(1, 3)], none, 9, 1, some 2⟩, 1⟩
    readBack [delta.enc d1, delta.enc d2 ++ [1, 2, 3]] = [toModel d1, toModel d2] ∧
      (toModel d2).2.allStamps = [⟨9, 1⟩, ⟨9, 1⟩] := by
  decide

end C08
end RedisVerif
