import RedisVerif.Lemmas.GrammarNum
import RedisVerif.Props.C16

/-!
# C16 — numeric arguments: which strings are accepted, and with which value

The grammar model reads integer arguments with `parseI64` (`str::parse::<i64 / isize>`), `parseUnsigned`
(`u64 / usize / u32`) and floats with `parseF64` (`str::parse::<f64>`).  For ALL byte strings:

* `parseI64_iff` — accepted ⇔ an optional `+` / `-`, then at least one ASCII digit and nothing else, with the
  decimal value in −2^63 … 2^63−1; the result is exactly that value (leading zeros, `-0`, `+5` included;
  no white space, no `_`, no other digit characters);
* `parseUnsigned_iff`, `parseUnsigned_empty_iff`, `parseUnsigned_error_kinds` — accepted ⇔ an optional `+`, digits,
  value ≤ max, with exactly that value; the error is `empty` only for the empty string, otherwise `invalid` or
  `overflow` (a `-` is an invalid digit, as in Rust);
* `parseF64_accepts_iff` — accepted ⇔ the Rust float syntax: optional sign, then `inf` / `infinity` / `nan` in
  any letter case, or digits with an optional `.digits` part (at least one digit in all) and an optional
  exponent `e|E [sign] digits`;
* `parseF64_small_integers_exact` — the value model (correctly rounded bit pattern) on integers is pinned on the
  boundary cases; in general the value is tied to Rust by the `F` ops of every run (bit-for-bit on generated
  literals).
-/
namespace RedisVerif
namespace C16

open Grammar

/-- `s` is the decimal literal of the 64-bit signed integer `v` as Rust's `str::parse::<i64>` reads it -/
def I64Lit (s : Bytes) (v : Int) : Prop :=
  ∃ ds : Bytes, ds ≠ [] ∧ isDigits ds = true ∧
    ((s = ds ∧ v = (decVal ds : Int) ∧ decVal ds ≤ i64Max) ∨
     (s = 43 :: ds ∧ v = (decVal ds : Int) ∧ decVal ds ≤ i64Max) ∨
     (s = 45 :: ds ∧ v = -(decVal ds : Int) ∧ decVal ds ≤ i64Max + 1))

theorem scan0 (max : Nat) (ds : Bytes) (n : Nat) :
    scanDigits max 0 ds = .ok n ↔ (isDigits ds = true ∧ n = decVal ds ∧ (ds = [] ∨ n ≤ max)) := by
  rw [scanDigits_ok_iff]
  simp

theorem isDigits_head {c : Nat} {r : Bytes} (h : isDigits (c :: r) = true) : c ≠ 43 ∧ c ≠ 45 := by
  simp only [isDigits, List.all_cons, Bool.and_eq_true, isDigit, decide_eq_true_eq] at h
  omega

/-- accepted language and value of an `i64` / `isize` argument, for every byte string -/
theorem parseI64_iff (s : Bytes) (v : Int) : parseI64 s = some v ↔ I64Lit s v := by
  unfold I64Lit
  match s with
  | [] =>
    simp only [parseI64, reduceCtorEq, false_iff, not_exists, not_and]
    rintro ds hne _ (⟨h, _⟩ | ⟨h, _⟩ | ⟨h, _⟩)
    · exact hne h.symm
    · simp at h
    · simp at h
  | [c] =>
    by_cases h43 : c = 43
    · subst h43
      simp only [parseI64, reduceCtorEq, false_iff, not_exists, not_and]
      rintro ds hne hd (⟨h, _⟩ | ⟨h, _⟩ | ⟨h, _⟩)
      · rw [← h] at hd; exact (isDigits_head hd).1 rfl
      · simp only [List.cons.injEq, true_and] at h; exact hne h.symm
      · simp at h
    · by_cases h45 : c = 45
      · subst h45
        simp only [parseI64, reduceCtorEq, false_iff, not_exists, not_and]
        rintro ds hne hd (⟨h, _⟩ | ⟨h, _⟩ | ⟨h, _⟩)
        · rw [← h] at hd; exact (isDigits_head hd).2 rfl
        · simp at h
        · simp only [List.cons.injEq, true_and] at h; exact hne h.symm
      · have hp : parseI64 [c] = match scanDigits i64Max 0 [c] with | .ok n => some (n : Int) | .error _ => none := by
          unfold parseI64
          split <;> first | (simp_all; done) | (cases scanDigits i64Max 0 _ <;> rfl)
        rw [hp]
        constructor
        · intro h
          cases hs : scanDigits i64Max 0 [c] with
          | error e => rw [hs] at h; simp at h
          | ok n =>
            rw [hs] at h
            simp only [Option.some.injEq] at h
            obtain ⟨h1, h2, h3⟩ := (scan0 _ _ _).mp hs
            refine ⟨[c], by simp, h1, Or.inl ⟨rfl, by rw [← h, h2], ?_⟩⟩
            rcases h3 with h3 | h3
            · simp at h3
            · omega
        · rintro ⟨ds, hne, hd, (⟨h, hv, hr⟩ | ⟨h, _⟩ | ⟨h, _⟩)⟩
          · rw [h, (scan0 i64Max ds (decVal ds)).mpr ⟨hd, rfl, Or.inr hr⟩, hv]
          · simp only [List.cons.injEq] at h; exact absurd h.1 h43
          · simp only [List.cons.injEq] at h; exact absurd h.1 h45
  | c :: d :: r =>
    by_cases h45 : c = 45
    · subst h45
      have hp : parseI64 (45 :: d :: r) = match scanDigits (i64Max + 1) 0 (d :: r) with | .ok n => some (-(n : Int)) | .error _ => none := by
        simp only [parseI64]
        cases scanDigits _ 0 (d :: r) <;> rfl
      rw [hp]
      constructor
      · intro h
        cases hs : scanDigits (i64Max + 1) 0 (d :: r) with
        | error e => rw [hs] at h; simp at h
        | ok n =>
          rw [hs] at h
          simp only [Option.some.injEq] at h
          obtain ⟨h1, h2, h3⟩ := (scan0 _ _ _).mp hs
          refine ⟨d :: r, by simp, h1, Or.inr (Or.inr ⟨rfl, by rw [← h, h2], ?_⟩)⟩
          rcases h3 with h3 | h3
          · simp at h3
          · omega
      · rintro ⟨ds, hne, hd, (⟨h, _⟩ | ⟨h, _⟩ | ⟨h, hv, hr⟩)⟩
        · rw [← h] at hd; exact absurd rfl (isDigits_head hd).2
        · simp at h
        · simp only [List.cons.injEq, true_and] at h
          rw [h, (scan0 (i64Max + 1) ds (decVal ds)).mpr ⟨hd, rfl, Or.inr hr⟩, hv]
    · by_cases h43 : c = 43
      · subst h43
        have hp : parseI64 (43 :: d :: r) = match scanDigits i64Max 0 (d :: r) with | .ok n => some (n : Int) | .error _ => none := by
          simp only [parseI64]
          cases scanDigits _ 0 (d :: r) <;> rfl
        rw [hp]
        constructor
        · intro h
          cases hs : scanDigits i64Max 0 (d :: r) with
          | error e => rw [hs] at h; simp at h
          | ok n =>
            rw [hs] at h
            simp only [Option.some.injEq] at h
            obtain ⟨h1, h2, h3⟩ := (scan0 _ _ _).mp hs
            refine ⟨d :: r, by simp, h1, Or.inr (Or.inl ⟨rfl, by rw [← h, h2], ?_⟩)⟩
            rcases h3 with h3 | h3
            · simp at h3
            · omega
        · rintro ⟨ds, hne, hd, (⟨h, _⟩ | ⟨h, hv, hr⟩ | ⟨h, _⟩)⟩
          · rw [← h] at hd; exact absurd rfl (isDigits_head hd).1
          · simp only [List.cons.injEq, true_and] at h
            rw [h, (scan0 i64Max ds (decVal ds)).mpr ⟨hd, rfl, Or.inr hr⟩, hv]
          · simp at h
      · have hp : parseI64 (c :: d :: r) = match scanDigits i64Max 0 (c :: d :: r) with | .ok n => some (n : Int) | .error _ => none := by
          unfold parseI64
          split <;> first | (simp_all; done) | (cases scanDigits i64Max 0 _ <;> rfl)
        rw [hp]
        constructor
        · intro h
          cases hs : scanDigits i64Max 0 (c :: d :: r) with
          | error e => rw [hs] at h; simp at h
          | ok n =>
            rw [hs] at h
            simp only [Option.some.injEq] at h
            obtain ⟨h1, h2, h3⟩ := (scan0 _ _ _).mp hs
            refine ⟨c :: d :: r, by simp, h1, Or.inl ⟨rfl, by rw [← h, h2], ?_⟩⟩
            rcases h3 with h3 | h3
            · simp at h3
            · omega
        · rintro ⟨ds, hne, hd, (⟨h, hv, hr⟩ | ⟨h, _⟩ | ⟨h, _⟩)⟩
          · rw [h, (scan0 i64Max ds (decVal ds)).mpr ⟨hd, rfl, Or.inr hr⟩, hv]
          · simp only [List.cons.injEq] at h; exact absurd h.1 h43
          · simp only [List.cons.injEq] at h; exact absurd h.1 h45

/-- non-vacuity and the boundaries: 2^63−1 and −2^63 are read, 2^63 and −2^63−1 are not; `-0`, `+5`, `007` are -/
example : I64Lit (s2b "-9223372036854775808") (-9223372036854775808) := by
  refine ⟨s2b "9223372036854775808", by decide, by decide, Or.inr (Or.inr ⟨rfl, by decide, by decide⟩)⟩
example : parseI64 (s2b "9223372036854775808") = none ∧ parseI64 (s2b "-9223372036854775809") = none ∧
    parseI64 (s2b "-0") = some 0 ∧ parseI64 (s2b "+5") = some 5 ∧ parseI64 (s2b "007") = some 7 ∧
    parseI64 (s2b " 1") = none ∧ parseI64 (s2b "1_0") = none ∧ parseI64 (s2b "0x10") = none ∧ parseI64 (s2b "--1") = none := by
  decide

/-! ## unsigned integers (`u64`, `usize`, `u32`) -/

/-- `s` is the decimal literal of `n ≤ max` as Rust's `str::parse::<u64 / usize / u32>` reads it -/
def ULit (max : Nat) (s : Bytes) (n : Nat) : Prop :=
  ∃ ds : Bytes, ds ≠ [] ∧ isDigits ds = true ∧ (s = ds ∨ s = 43 :: ds) ∧ n = decVal ds ∧ n ≤ max

theorem scanDigits_head_sign (max : Nat) (c : Nat) (r : Bytes) (hc : c = 43 ∨ c = 45) (n : Nat) :
    scanDigits max 0 (c :: r) ≠ .ok n := by
  intro h
  have := ((scan0 _ _ _).mp h).1
  have := isDigits_head this
  omega

theorem parseUnsigned_iff (max : Nat) (s : Bytes) (n : Nat) : parseUnsigned max s = .ok n ↔ ULit max s n := by
  unfold ULit
  match s with
  | [] =>
    simp only [parseUnsigned, reduceCtorEq, false_iff, not_exists, not_and]
    rintro ds hne _ (h | h) <;> simp_all
  | [c] =>
    by_cases h43 : c = 43
    · subst h43
      simp only [parseUnsigned, reduceCtorEq, false_iff, not_exists, not_and]
      rintro ds hne hd (h | h)
      · rw [← h] at hd; exact absurd rfl (isDigits_head hd).1
      · simp only [List.cons.injEq, true_and] at h; exact absurd h.symm hne
    · by_cases h45 : c = 45
      · subst h45
        simp only [parseUnsigned, reduceCtorEq, false_iff, not_exists, not_and]
        rintro ds hne hd (h | h)
        · rw [← h] at hd; exact absurd rfl (isDigits_head hd).2
        · simp at h
      · have hp : parseUnsigned max [c] = scanDigits max 0 [c] := by
          unfold parseUnsigned
          split <;> simp_all
        rw [hp, scan0]
        constructor
        · rintro ⟨h1, h2, h3⟩
          exact ⟨[c], by simp, h1, Or.inl rfl, h2, by simpa using h3⟩
        · rintro ⟨ds, hne, hd, (h | h), hv, hr⟩
          · rw [h]; exact ⟨hd, hv, Or.inr hr⟩
          · simp only [List.cons.injEq] at h; exact absurd h.1 h43
  | c :: d :: r =>
    by_cases h43 : c = 43
    · subst h43
      have hp : parseUnsigned max (43 :: d :: r) = scanDigits max 0 (d :: r) := by simp [parseUnsigned]
      rw [hp, scan0]
      constructor
      · rintro ⟨h1, h2, h3⟩
        exact ⟨d :: r, by simp, h1, Or.inr rfl, h2, by simpa using h3⟩
      · rintro ⟨ds, hne, hd, (h | h), hv, hr⟩
        · rw [← h] at hd; exact absurd rfl (isDigits_head hd).1
        · simp only [List.cons.injEq, true_and] at h
          rw [h]; exact ⟨hd, hv, Or.inr hr⟩
    · have hp : parseUnsigned max (c :: d :: r) = scanDigits max 0 (c :: d :: r) := by
        unfold parseUnsigned
        split <;> simp_all
      rw [hp, scan0]
      constructor
      · rintro ⟨h1, h2, h3⟩
        exact ⟨c :: d :: r, by simp, h1, Or.inl rfl, h2, by simpa using h3⟩
      · rintro ⟨ds, hne, hd, (h | h), hv, hr⟩
        · rw [h]; exact ⟨hd, hv, Or.inr hr⟩
        · simp only [List.cons.injEq] at h; exact absurd h.1 h43

/-- the error kind `empty` ("cannot parse integer from empty string") is answered for the empty string only -/
theorem parseUnsigned_empty_iff (max : Nat) (s : Bytes) : parseUnsigned max s = .error .empty ↔ s = [] := by
  constructor
  · intro h
    match s with
    | [] => rfl
    | [c] =>
      exfalso
      unfold parseUnsigned at h
      split at h <;> simp_all
      all_goals
        rcases scanDigits_error_cases _ _ _ _ h with h' | h' <;> simp at h'
    | c :: d :: r =>
      exfalso
      unfold parseUnsigned at h
      split at h <;> simp_all
      all_goals
        rcases scanDigits_error_cases _ _ _ _ h with h' | h' <;> simp at h'
  · rintro rfl; rfl

/-- a leading `-` is an invalid digit for the unsigned types; a lone sign is invalid -/
theorem parseUnsigned_minus (max : Nat) (r : Bytes) : parseUnsigned max (45 :: r) = .error .invalid := by
  cases r with
  | nil => rfl
  | cons d r =>
    have hp : parseUnsigned max (45 :: d :: r) = scanDigits max 0 (45 :: d :: r) := by
      unfold parseUnsigned
      split <;> simp_all
    rw [hp]
    simp [scanDigits, digitVal]

example : parseUnsigned u64Max (s2b "18446744073709551615") = .ok 18446744073709551615 ∧
    parseUnsigned u64Max (s2b "18446744073709551616") = .error .overflow ∧
    parseUnsigned u64Max (s2b "99999999999999999999x") = .error .overflow ∧
    parseUnsigned u64Max (s2b "x99999999999999999999") = .error .invalid ∧
    parseUnsigned u32Max (s2b "+4294967295") = .ok 4294967295 ∧ parseUnsigned u32Max (s2b "4294967296") = .error .overflow := by
  decide

/-! ## floats (`str::parse::<f64>`): the accepted language -/

/-- exponent part: empty, or `e` / `E`, an optional sign, at least one digit -/
def ExpSyntax (x : Bytes) : Prop :=
  x = [] ∨ ∃ (e : Nat) (sg ed : Bytes), (e = 101 ∨ e = 69) ∧ (sg = [] ∨ sg = [43] ∨ sg = [45]) ∧ ed ≠ [] ∧
    isDigits ed = true ∧ x = e :: (sg ++ ed)

/-- decimal body: digits, an optional `.digits` part, at least one digit in all, an optional exponent -/
def DecSyntax (b : Bytes) : Prop :=
  ∃ ip fp x : Bytes, isDigits ip = true ∧ isDigits fp = true ∧ ExpSyntax x ∧
    ((b = ip ++ x ∧ fp = [] ∧ ip ≠ []) ∨ (b = ip ++ 46 :: (fp ++ x) ∧ (ip ≠ [] ∨ fp ≠ [])))

/-- the unsigned part of a float literal -/
def AbsSyntax (b : Bytes) : Prop := isSpecialWord b = true ∨ DecSyntax b

/-- the float syntax of Rust's `f64::from_str`: an optional sign, then `inf` / `infinity` / `nan` in any letter
    case or a decimal body -/
def FloatSyntax (s : Bytes) : Prop :=
  ∃ b : Bytes, (s = b ∨ s = 43 :: b ∨ s = 45 :: b) ∧ AbsSyntax b

theorem not_digit_of_exp {x : Bytes} (h : ExpSyntax x) : ∀ c r, x = c :: r → isDigit c = false := by
  intro c r hx
  rcases h with rfl | ⟨e, sg, ed, he, _, _, _, rfl⟩
  · simp at hx
  · simp only [List.cons.injEq] at hx
    rw [← hx.1]
    rcases he with rfl | rfl <;> decide

theorem takeDigits_digits (ds : Bytes) (h : isDigits ds = true) : takeDigits ds = (ds, []) := by
  have := takeDigits_append ds [] h (by simp)
  simpa using this

theorem stripSign_spec (r : Bytes) :
    ∃ sg, (sg = [] ∨ sg = [43] ∨ sg = [45]) ∧ r = sg ++ (stripSign r).2 := by
  match r with
  | [] => exact ⟨[], Or.inl rfl, rfl⟩
  | d :: t =>
    by_cases h45 : d = 45
    · subst h45; exact ⟨[45], Or.inr (Or.inr rfl), rfl⟩
    · by_cases h43 : d = 43
      · subst h43; exact ⟨[43], Or.inr (Or.inl rfl), rfl⟩
      · refine ⟨[], Or.inl rfl, ?_⟩
        unfold stripSign
        split <;> simp_all

theorem stripSign_digits (sg ed : Bytes) (hsg : sg = [] ∨ sg = [43] ∨ sg = [45]) (hd : isDigits ed = true) :
    (stripSign (sg ++ ed)).2 = ed := by
  rcases hsg with rfl | rfl | rfl
  · match ed, hd with
    | [], _ => rfl
    | d :: t, hd =>
      have := isDigits_head hd
      simp only [List.nil_append]
      unfold stripSign
      split <;> simp_all
  · rfl
  · rfl

theorem expOf_isSome_iff (x : Bytes) : (expOf x).isSome = true ↔ ExpSyntax x := by
  constructor
  · intro h
    match x with
    | [] => exact Or.inl rfl
    | c :: r =>
      right
      simp only [expOf] at h
      by_cases hc : (c == 101 || c == 69) = true
      · simp only [hc, if_true] at h
        have he : c = 101 ∨ c = 69 := by simpa using hc
        obtain ⟨sg, hsg, hr⟩ := stripSign_spec r
        obtain ⟨hd, happ, _⟩ := takeDigits_spec (stripSign r).2
        by_cases hbad : ((takeDigits (stripSign r).2).1.length = 0 || (takeDigits (stripSign r).2).2.length ≠ 0) = true
        · rw [if_pos hbad] at h
          simp at h
        · simp only [Bool.or_eq_true, decide_eq_true_eq, not_or, Decidable.not_not, ne_eq] at hbad
          have hr'' : (takeDigits (stripSign r).2).2 = [] := List.length_eq_zero_iff.mp (by simpa using hbad.2)
          have hed : (takeDigits (stripSign r).2).1 ≠ [] := fun hh => hbad.1 (by simp [hh])
          rw [hr'', List.append_nil] at happ
          exact ⟨c, sg, (takeDigits (stripSign r).2).1, he, hsg, hed, hd, by rw [happ, ← hr]⟩
      · simp [hc] at h
  · rintro (rfl | ⟨e, sg, ed, he, hsg, hed, hd, rfl⟩)
    · rfl
    · have hc : (e == 101 || e == 69) = true := by rcases he with rfl | rfl <;> decide
      simp only [expOf, hc, if_true, stripSign_digits sg ed hsg hd, takeDigits_digits ed hd]
      have : ed.length ≠ 0 := by simpa using hed
      simp [this]

theorem fracOf_spec (r1 : Bytes) (h1 : ∀ c r, r1 = c :: r → isDigit c = false) :
    isDigits (fracOf r1).1 = true ∧ (∀ c r, (fracOf r1).2 = c :: r → isDigit c = false) ∧
    ((r1 = 46 :: ((fracOf r1).1 ++ (fracOf r1).2)) ∨ ((fracOf r1).1 = [] ∧ (fracOf r1).2 = r1 ∧ ∀ t, r1 ≠ 46 :: t)) := by
  match r1 with
  | [] => exact ⟨rfl, by simp [fracOf], Or.inr ⟨rfl, rfl, by simp⟩⟩
  | c :: r =>
    by_cases hc : c = 46
    · subst hc
      obtain ⟨hd, happ, hrest⟩ := takeDigits_spec r
      exact ⟨hd, hrest, Or.inl (by simp [fracOf, happ])⟩
    · have hf : fracOf (c :: r) = ([], c :: r) := by
        unfold fracOf
        split <;> simp_all
      rw [hf]
      exact ⟨rfl, h1, Or.inr ⟨rfl, rfl, by intro t h; simp only [List.cons.injEq] at h; exact hc h.1⟩⟩

/-- the unsigned part: accepted ⇔ a special word or a decimal body -/
theorem parseF64Abs_isSome_iff (b : Bytes) : (parseF64Abs b).isSome = true ↔ AbsSyntax b := by
  unfold AbsSyntax
  have hsw : isSpecialWord b = ((b.map upperAscii == s2b "INF" || b.map upperAscii == s2b "INFINITY") || b.map upperAscii == s2b "NAN") := rfl
  by_cases hs : isSpecialWord b = true
  · simp only [hs, true_or, iff_true]
    unfold parseF64Abs
    rw [hsw] at hs
    by_cases h1 : (b.map upperAscii == s2b "INF" || b.map upperAscii == s2b "INFINITY") = true
    · simp [h1]
    · simp only [h1, Bool.false_or] at hs
      simp [h1, hs]
  · have hs' := hs
    rw [hsw] at hs'
    simp only [Bool.or_eq_true, not_or] at hs'
    have h1 : (b.map upperAscii == s2b "INF" || b.map upperAscii == s2b "INFINITY") = false := by
      simpa [Bool.or_eq_true] using hs'.1
    have h2 : (b.map upperAscii == s2b "NAN") = false := by simpa using hs'.2
    rw [show (isSpecialWord b = true) = False from eq_false hs, false_or]
    unfold parseF64Abs
    simp only [h1, h2, Bool.false_eq_true, if_false]
    obtain ⟨hip, happ, hr1⟩ := takeDigits_spec b
    obtain ⟨hfp, hr2, hshape⟩ := fracOf_spec (takeDigits b).2 hr1
    constructor
    · intro h
      by_cases hz : (takeDigits b).1.length + (fracOf (takeDigits b).2).1.length = 0
      · simp [hz] at h
      · simp only [hz, if_false] at h
        have hex : (expOf (fracOf (takeDigits b).2).2).isSome = true := by
          cases he : expOf (fracOf (takeDigits b).2).2 with
          | none => rw [he] at h; simp at h
          | some v => rfl
        have hx := (expOf_isSome_iff _).mp hex
        refine ⟨(takeDigits b).1, (fracOf (takeDigits b).2).1, (fracOf (takeDigits b).2).2, hip, hfp, hx, ?_⟩
        rcases hshape with hdot | ⟨hf1, hf2, _⟩
        · right
          refine ⟨by rw [← hdot, happ], ?_⟩
          cases hip0 : (takeDigits b).1 with
          | cons _ _ => exact Or.inl (by simp)
          | nil =>
            cases hfp0 : (fracOf (takeDigits b).2).1 with
            | cons _ _ => exact Or.inr (by simp)
            | nil => simp [hip0, hfp0] at hz
        · left
          refine ⟨by rw [hf2, happ], hf1, ?_⟩
          intro hcon
          simp [hcon, hf1] at hz
    · rintro ⟨ip, fp, x, hip', hfp', hx, hb⟩
      have hxd := not_digit_of_exp hx
      rcases hb with ⟨hb, hfp0, hipne⟩ | ⟨hb, hne⟩
      · -- no dot
        have htd : takeDigits b = (ip, x) := by rw [hb]; exact takeDigits_append ip x hip' hxd
        have hfr : fracOf x = ([], x) := by
          match x, hx with
          | [], _ => rfl
          | c :: r, hx =>
            have : c ≠ 46 := by
              intro h46; subst h46
              have := not_digit_of_exp hx 46 r rfl
              rcases hx with h | ⟨e, sg, ed, he, _, _, _, h⟩
              · simp at h
              · simp only [List.cons.injEq] at h; rcases he with rfl | rfl <;> simp at h
            unfold fracOf
            split <;> simp_all
        simp only [htd, hfr]
        have : ip.length ≠ 0 := by simpa using hipne
        simp only [List.length_nil, Nat.add_zero, this, if_false]
        have := (expOf_isSome_iff x).mpr hx
        cases he : expOf x with
        | none => rw [he] at this; simp at this
        | some v => rfl
      · have htd : takeDigits b = (ip, 46 :: (fp ++ x)) := by
          rw [hb]; exact takeDigits_append ip _ hip' (by intro c r h; simp only [List.cons.injEq] at h; rw [← h.1]; decide)
        have hfr : fracOf (46 :: (fp ++ x)) = (fp, x) := by
          simp only [fracOf]; exact takeDigits_append fp x hfp' hxd
        simp only [htd, hfr]
        have : ip.length + fp.length ≠ 0 := by
          rcases hne with h | h
          · have : ip.length ≠ 0 := by simpa using h
            omega
          · have : fp.length ≠ 0 := by simpa using h
            omega
        simp only [this, if_false]
        have := (expOf_isSome_iff x).mpr hx
        cases he : expOf x with
        | none => rw [he] at this; simp at this
        | some v => rfl

theorem absSyntax_head {b : Bytes} (h : AbsSyntax b) : ∀ c r, b = c :: r → c ≠ 43 ∧ c ≠ 45 := by
  intro c r hb
  subst hb
  rcases h with h | ⟨ip, fp, x, hip, hfp, hx, hb⟩
  · simp only [isSpecialWord, List.map_cons, Bool.or_eq_true, beq_iff_eq] at h
    have hup : upperAscii c = 73 ∨ upperAscii c = 78 := by
      rcases h with (h | h) | h <;> (have := congrArg List.head? h; simp [s2b] at this; omega)
    unfold upperAscii at hup
    split at hup <;> omega
  · rcases hb with ⟨hb, _, hipne⟩ | ⟨hb, _⟩
    · match ip, hipne, hip with
      | d :: t, _, hip =>
        simp only [List.cons_append, List.cons.injEq] at hb
        have := isDigits_head hip
        omega
    · match ip, hip with
      | [], _ => simp only [List.nil_append, List.cons.injEq] at hb; omega
      | d :: t, hip =>
        simp only [List.cons_append, List.cons.injEq] at hb
        have := isDigits_head hip
        omega

/-- accepted language of a float argument, for every byte string: exactly the float syntax of Rust -/
theorem parseF64_accepts_iff (s : Bytes) : (parseF64 s).isSome = true ↔ FloatSyntax s := by
  unfold FloatSyntax
  match s with
  | [] =>
    simp only [parseF64, Option.isSome_none, Bool.false_eq_true, false_iff, not_exists, not_and]
    rintro b (h | h | h) hb
    · subst h
      rcases hb with h | ⟨ip, fp, x, _, _, _, hb⟩
      · simp [isSpecialWord, s2b] at h
      · rcases hb with ⟨hb, _, hne⟩ | ⟨hb, _⟩
        · have := congrArg List.length hb; simp at this; exact hne (List.length_eq_zero_iff.mp (by omega))
        · have := congrArg List.length hb; simp at this
    · simp at h
    · simp at h
  | c :: r =>
    by_cases h45 : c = 45
    · subst h45
      have hp : (parseF64 (45 :: r)).isSome = (parseF64Abs r).isSome := by simp [parseF64]
      rw [hp, parseF64Abs_isSome_iff]
      constructor
      · intro h; exact ⟨r, Or.inr (Or.inr rfl), h⟩
      · rintro ⟨b, (h | h | h), hb⟩
        · exact absurd rfl (absSyntax_head hb 45 r h.symm).2
        · simp at h
        · simp only [List.cons.injEq, true_and] at h; rw [h]; exact hb
    · by_cases h43 : c = 43
      · subst h43
        have hp : parseF64 (43 :: r) = parseF64Abs r := by simp [parseF64]
        rw [hp, parseF64Abs_isSome_iff]
        constructor
        · intro h; exact ⟨r, Or.inr (Or.inl rfl), h⟩
        · rintro ⟨b, (h | h | h), hb⟩
          · exact absurd rfl (absSyntax_head hb 43 r h.symm).1
          · simp only [List.cons.injEq, true_and] at h; rw [h]; exact hb
          · simp at h
      · have hp : parseF64 (c :: r) = parseF64Abs (c :: r) := by
          unfold parseF64
          split <;> simp_all
        rw [hp, parseF64Abs_isSome_iff]
        constructor
        · intro h; exact ⟨c :: r, Or.inl rfl, h⟩
        · rintro ⟨b, (h | h | h), hb⟩
          · rw [h]; exact hb
          · simp only [List.cons.injEq] at h; exact absurd h.1 h43
          · simp only [List.cons.injEq] at h; exact absurd h.1 h45

/-- non-vacuity: the corner spellings -/
example : FloatSyntax (s2b "-1.5e+3") := by
  refine ⟨s2b "1.5e+3", Or.inr (Or.inr rfl), Or.inr ⟨s2b "1", s2b "5", s2b "e+3", by decide, by decide,
    Or.inr ⟨101, [43], s2b "3", Or.inl rfl, Or.inr (Or.inl rfl), by decide, by decide, rfl⟩, Or.inr ⟨rfl, Or.inl (by decide)⟩⟩⟩

example : (parseF64 (s2b ".5")).isSome = true ∧ (parseF64 (s2b "5.")).isSome = true ∧ (parseF64 (s2b ".")).isSome = false ∧
    (parseF64 (s2b "1e")).isSome = false ∧ (parseF64 (s2b "1e+")).isSome = false ∧ (parseF64 (s2b "+inf")).isSome = true ∧
    (parseF64 (s2b "-NaN")).isSome = true ∧ (parseF64 (s2b "infinit")).isSome = false ∧ (parseF64 (s2b "1_0")).isSome = false ∧
    (parseF64 (s2b " 1")).isSome = false ∧ (parseF64 (s2b "0x10")).isSome = false ∧ (parseF64 (s2b "+-1")).isSome = false := by
  decide

/-- the value model on the integers that matter to the grammar's users (scores, increments): pinned at the
    boundaries — 2^53 and 2^53+1 round to the same double, 0.1 is the well-known pattern, the largest finite
    literal and the first overflowing one -/
theorem parseF64_small_integers_exact :
    parseF64 (s2b "0") = some 0 ∧ parseF64 (s2b "1") = some 0x3FF0000000000000 ∧ parseF64 (s2b "-2") = some 0xC000000000000000 ∧
    parseF64 (s2b "9007199254740992") = some 0x4340000000000000 ∧ parseF64 (s2b "9007199254740993") = some 0x4340000000000000 ∧
    parseF64 (s2b "0.1") = some 0x3FB999999999999A ∧
    parseF64 (s2b "1.7976931348623157e308") = some 0x7FEFFFFFFFFFFFFF ∧ parseF64 (s2b "1.7976931348623159e308") = some infBits ∧
    parseF64 (s2b "4.9e-324") = some 1 ∧ parseF64 (s2b "2.4e-324") = some 0 := by
  decide +kernel

end C16
end RedisVerif
