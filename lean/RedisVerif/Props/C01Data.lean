import RedisVerif.Lemmas.SortedSetZ4
import RedisVerif.Model.ExecutorCode
import RedisVerif.Lemmas.RedisX

/-!
# C01 — the data structures behind the commands REFINE the reference model

`Model.Redis` (M7) defines the sorted-set commands on a sorted list (`zInsert`, `zRemove`,
`zRankAux`, `slice ∘ lrangeNorm`, `filter inRange`, `applyLimit`), the list commands on `List`
(`slice ∘ lrangeNorm`, `listIdx`) and strings on byte lists.  /repo implements them with a skip list
(+ a member ↦ score map), a `VecDeque` with isize index arithmetic, and an inline/heap string.
`Model/SkipList.lean` and `Model/DataStructs.lean` transcribe that code (levels, spans, the
`update[]`/`rank[]` searches, span arithmetic of `insert_internal`/`delete_node`, level
bookkeeping, xorshift level generator, isize normalisation, representation switch at 23 bytes).

The theorems below say, for EVERY sequence of operations and EVERY choice of node levels
(`LevelOk lv`: any generator whose levels lie in 1..=32 — a different one may be used at every
step), that the transcription never panics, keeps its structure invariant, and that everything a
caller can observe equals the sorted-list operation of M7.  So M7's theorems about sorted-set
commands are theorems about the code's structure, up to the correspondence check that ties the
transcription to the real `RedisSortedSet` (harness/src/datax.rs: same operation sequences on the
real structure, observables AND the internal layout compared after every step).
-/
namespace RedisVerif.C01Data
open RedisVerif RedisVerif.Redis RedisVerif.SkipList RedisVerif.DataStructs RedisVerif.ExecutorCode RedisVerif.RedisX

/-! ## the level generator of the code is one of the generators the theorems quantify over -/

theorem randomLevelAux_bounds : ∀ (f l : Nat) (s : UInt64),
    l ≤ (randomLevelAux f l s).1 ∧ (randomLevelAux f l s).1 ≤ l + f
  | 0, l, s => by simp [randomLevelAux]
  | f + 1, l, s => by
    simp only [randomLevelAux]
    split
    · simp
    · have := randomLevelAux_bounds f (l + 1) (xorshift s); omega

/-- `random_level` returns a level in `1..=SKIPLIST_MAXLEVEL` whatever the generator state -/
theorem randomLevel_ok : LevelOk randomLevel := by
  intro s
  have := randomLevelAux_bounds (maxLevel - 1) 1 s
  simp only [randomLevel, maxLevel] at *
  omega

/-! ## RedisSortedSet -/

/-- ZADD's per-pair decision without NX/XX/GT/LT/CH -/
def noFlags : ZFlags := ⟨false, false, false, false, false⟩

/-- full statement: `add(member, score)` on a set that satisfies the invariant, whatever levels
    are drawn — no panic, invariant kept, `iter()` afterwards is M7's `zaddOne` list, the reply is
    "new member" -/
def C01_sortedset_add_refines : Prop :=
  ∀ (lv : LevelGen), LevelOk lv → ∀ (z : ZS), ZInv z → ∀ (m : BS) (sc : Score),
    ∃ z' b, add lv z m sc = some (z', b) ∧ ZInv z' ∧
      iter z'.sl = (zaddOne noFlags (iter z.sl) m sc).1 ∧
      b = decide ((zaddOne noFlags (iter z.sl) m sc).2.1 = 1)

theorem sortedset_add_refines : C01_sortedset_add_refines := by
  intro lv hlv z hz m sc
  obtain ⟨z', b, h1, h2, h3, h4⟩ := add_spec hlv hz m sc
  refine ⟨z', b, h1, h2, ?_, ?_⟩
  · rw [iter_eq_keys, iter_eq_keys, h3]
    simp only [zaddOne, noFlags]
    cases zScore (keys z.sl) m with
    | none => simp
    | some old => by_cases h : sc = old <;> simp [h]
  · rw [h4, iter_eq_keys]
    cases hs : zScore (keys z.sl) m with
    | none => simp [zaddOne, noFlags, hs]
    | some old => by_cases h : sc = old <;> simp [zaddOne, noFlags, hs, h]

def C01_sortedset_remove_refines : Prop :=
  ∀ (z : ZS), ZInv z → ∀ (m : BS),
    ∃ z' b, remove z m = some (z', b) ∧ ZInv z' ∧
      iter z'.sl = (zremAll (iter z.sl) [m]).1 ∧ b = decide ((zremAll (iter z.sl) [m]).2 = 1)

theorem sortedset_remove_refines : C01_sortedset_remove_refines := by
  intro z hz m
  obtain ⟨z', b, h1, h2, h3, h4⟩ := remove_spec hz m
  refine ⟨z', b, h1, h2, ?_, ?_⟩
  · rw [iter_eq_keys, iter_eq_keys, h3]
    simp only [zremAll]
    cases hs : zScore (keys z.sl) m with
    | none => simp [zRemove_of_absent (zScore_none hs)]
    | some old => simp
  · rw [h4, iter_eq_keys]
    cases hs : zScore (keys z.sl) m <;> simp [zremAll, hs]

/-- everything a caller can read from the structure is the M7 operation on `iter()` -/
def C01_sortedset_reads_refine : Prop :=
  ∀ (z : ZS), ZInv z →
    (∀ m, SkipList.score z m = zScore (iter z.sl) m) ∧
    (∀ m, zrank z m = some (zRankAux (iter z.sl) m 0)) ∧
    (∀ a b, zrange z a b = some (slice (iter z.sl) (lrangeNorm (iter z.sl).length a b))) ∧
    (∀ a b, zrevRange z a b = some (slice (iter z.sl).reverse (lrangeNorm (iter z.sl).length a b))) ∧
    (len z = (iter z.sl).length ∧ skiplistLen z = (iter z.sl).length) ∧
    (∀ lo hi, countInRange z (some lo) (some hi) = some ((iter z.sl).filter (fun p => inRange lo hi p.2)).length) ∧
    (∀ lo hi lim, rangeByScore z (some lo) (some hi) lim =
      some (applyLimit ((iter z.sl).filter (fun p => inRange lo hi p.2)) lim)) ∧
    isSorted z = true ∧ ZCanon (iter z.sl)

theorem sortedset_reads_refine : C01_sortedset_reads_refine := by
  intro z hz
  refine ⟨fun m => hz.agree m, fun m => zrank_spec hz m, fun a b => zrange_spec hz a b,
    fun a b => zrevRange_spec hz a b, ⟨hz.lenEq, ?_⟩, fun _ _ => rfl, ?_, isSorted_spec hz, hz.canon⟩
  · simp [skiplistLen, hz.wf.len, iter]
  · intro lo hi lim
    cases lim with
    | none => rfl
    | some p => obtain ⟨off, cnt⟩ := p; simp only [rangeByScore, applyLimit]; split <;> rfl

/-- the operations a client of `RedisSortedSet` can perform that change it -/
inductive ZOp
  | add (m : BS) (sc : Score)
  | remove (m : BS)

def applyOp (lv : LevelGen) (z : ZS) : ZOp → Option ZS
  | .add m sc => (add lv z m sc).map (·.1)
  | .remove m => (remove z m).map (·.1)

/-- the sets reachable from `RedisSortedSet::new()`; the level generator may change at every step -/
inductive ZReach : ZS → Prop
  | new : ZReach ZS.new
  | step {z z' : ZS} (lv : LevelGen) (hlv : LevelOk lv) (op : ZOp) :
      ZReach z → applyOp lv z op = some z' → ZReach z'

theorem sortedset_reachable_inv {z : ZS} (h : ZReach z) : ZInv z := by
  induction h with
  | new => exact zinv_new
  | step lv hlv op _ happ ih =>
    cases op with
    | add m sc =>
      obtain ⟨z', b, h1, h2, _⟩ := add_spec hlv ih m sc
      simp only [applyOp, h1, Option.map_some, Option.some.injEq] at happ
      rw [← happ]; exact h2
    | remove m =>
      obtain ⟨z', b, h1, h2, _⟩ := remove_spec ih m
      simp only [applyOp, h1, Option.map_some, Option.some.injEq] at happ
      rw [← happ]; exact h2

/-- no reachable set can make an operation panic (missing node, slice index, usize underflow) -/
theorem sortedset_never_panics {z : ZS} (h : ZReach z) (lv : LevelGen) (hlv : LevelOk lv) (op : ZOp) :
    (applyOp lv z op).isSome = true ∧
    (∀ m, (zrank z m).isSome = true) ∧ (∀ a b, (zrange z a b).isSome = true) ∧
    (∀ a b, (zrevRange z a b).isSome = true) := by
  have hz := sortedset_reachable_inv h
  refine ⟨?_, fun m => by rw [zrank_spec hz]; rfl, fun a b => by rw [zrange_spec hz]; rfl,
    fun a b => by rw [zrevRange_spec hz]; rfl⟩
  cases op with
  | add m sc => obtain ⟨z', b, h1, _⟩ := add_spec hlv hz m sc; simp [applyOp, h1]
  | remove m => obtain ⟨z', b, h1, _⟩ := remove_spec hz m; simp [applyOp, h1]

/-- the structure invariant in every reachable state, spelled out: node heights in `1..=level`,
    `level = max(1, tallest node)`, `length` = number of nodes, every stored span (of the header
    below `level`, of every node at each of its levels) is the distance to the next node on that
    level (to the end of the list when there is none), keys strictly increasing -/
theorem sortedset_reachable_structure {z : ZS} (h : ZReach z) :
    (∀ t ∈ z.sl.towers, 1 ≤ t.spans.length ∧ t.spans.length ≤ z.sl.level) ∧
    (z.sl.level = 1 ∨ ∃ t ∈ z.sl.towers, t.spans.length = z.sl.level) ∧
    1 ≤ z.sl.level ∧ z.sl.level ≤ maxLevel ∧
    z.sl.length = z.sl.towers.length ∧
    (∀ j, j < z.sl.level → z.sl.hdr[j]? = some (distTo j z.sl.towers)) ∧
    (∀ k t, z.sl.towers[k]? = some t → ∀ j, j < t.spans.length →
      t.spans[j]? = some (distTo j (z.sl.towers.drop (k + 1)))) ∧
    z.sl.towers.Pairwise (fun a b => zLt a.key b.key = true) := by
  have hw := (sortedset_reachable_inv h).wf
  exact ⟨hw.spans.hts, hw.tight, hw.level_pos, hw.spans.L_le, hw.len, hw.spans.hdr, hw.spans.tw, hw.sorted⟩

/-- ZADD with several pairs (no flags) through the structure = `zaddAll` of M7 -/
def addAll (lv : LevelGen) : ZS → List (BS × Score) → Option ZS
  | z, [] => some z
  | z, (m, sc) :: ps =>
    match add lv z m sc with
    | none => none
    | some (z', _) => addAll lv z' ps

theorem sortedset_zadd_lifts (lv : LevelGen) (hlv : LevelOk lv) :
    ∀ (ps : List (BS × Score)) (z : ZS), ZInv z →
      ∃ z', addAll lv z ps = some z' ∧ ZInv z' ∧ iter z'.sl = (zaddAll noFlags (iter z.sl) ps).1
  | [], z, hz => ⟨z, rfl, hz, rfl⟩
  | (m, sc) :: ps, z, hz => by
    obtain ⟨z1, b, h1, h2, h3, _⟩ := sortedset_add_refines lv hlv z hz m sc
    obtain ⟨z2, h4, h5, h6⟩ := sortedset_zadd_lifts lv hlv ps z1 h2
    exact ⟨z2, by simp [addAll, h1, h4], h5, by rw [h6, h3]; simp [zaddAll]⟩

/-- the loop of `execute_zadd` (sorted_set_ops.rs: per pair the NX / XX / GT / LT tests on the
    structure's `score()`, then `add`, the `added` / `changed` counters, CH) over the real structure
    = ZADD of the reference model, for every flag combination and every choice of levels -/
theorem execute_zadd_loop_refines (lv : LevelGen) (hlv : LevelOk lv) (f : ZFlags) (z : ZS) (hz : ZInv z)
    (ps : List (BS × Score)) :
    ∃ z' a c, zaddLoop lv f z ps = some (z', a, c) ∧ ZInv z' ∧
      iter z'.sl = (zaddAll f (iter z.sl) ps).1 ∧
      Reply.int (if f.ch then (c : Int) else a) = zaddReply f (zaddAll f (iter z.sl) ps) := by
  obtain ⟨z', a, c, h1, h2, h3, h4, h5⟩ := zaddLoop_spec hlv f ps hz
  refine ⟨z', a, c, h1, h2, h3, ?_⟩
  simp only [zaddReply, iter_eq_keys, h4, h5]
  split <;> simp

/-- … and the loop of `execute_zrem` = ZREM -/
theorem execute_zrem_loop_refines (z : ZS) (hz : ZInv z) (ms : List BS) :
    ∃ z' n, zremLoop z ms = some (z', n) ∧ ZInv z' ∧
      iter z'.sl = (zremAll (iter z.sl) ms).1 ∧ n = (zremAll (iter z.sl) ms).2 :=
  zremLoop_spec ms hz

/-! ### non-vacuity: a concrete set built with tall and short nodes -/

/-- a generator that always answers `h` -/
def lvConst (h : Nat) : LevelGen := fun s => (h, s)

example : LevelOk (lvConst 3) := fun _ => by simp [lvConst, maxLevel]

example : ZReach ZS.new := .new

-- ZADD z GT CH 5 a 1 b on {a:3, b:2}: a is raised (changed), b is not lowered
example :
    ((addAll (lvConst 2) ZS.new [([97], .fin 3), ([98], .fin 2)]).bind (fun z =>
      zaddLoop (lvConst 1) ⟨false, false, true, false, true⟩ z [([97], .fin 5), ([98], .fin 1)])).map
      (fun r => (iter r.1.sl, r.2)) = some ([([98], .fin 2), ([97], .fin 5)], 0, 1) := by decide


-- a(1) with 3 levels, b(2) with 1, c(0) with 2: level 3, header spans 1 1 2
example :
    (addAll (lvConst 3) ZS.new [([97], .fin 1)]).bind (fun z =>
      (addAll (lvConst 1) z [([98], .fin 2)]).bind (fun z =>
        (addAll (lvConst 2) z [([99], .fin 0)]).map (fun z =>
          (iter z.sl, z.sl.level, z.sl.hdr.take z.sl.level, z.sl.towers.map (·.spans)))))
    = some ([([99], .fin 0), ([97], .fin 1), ([98], .fin 2)], 3, [1, 1, 2], [[1, 1], [1, 1, 1], [0]]) := by
  decide

-- … then a is moved to the end with a 1-level node: the level shrinks to 2, spans are re-linked
example :
    (addAll (lvConst 3) ZS.new [([97], .fin 1)]).bind (fun z =>
      (addAll (lvConst 1) z [([98], .fin 2)]).bind (fun z =>
        (addAll (lvConst 2) z [([99], .fin 0)]).bind (fun z =>
          (addAll (lvConst 1) z [([97], .pinf)]).map (fun z =>
            (iter z.sl, z.sl.level, z.sl.hdr.take z.sl.level, z.sl.towers.map (·.spans))))))
    = some ([([99], .fin 0), ([98], .fin 2), ([97], .pinf)], 2, [1, 1], [[1, 2], [1], [0]]) := by
  decide

/-! ## RedisList -/

/-- `RedisList::range` / `trim` / `get` / `set` are LRANGE / LTRIM / LINDEX / LSET of M7 -/
theorem list_refines (l : RList) :
    (∀ a b, l.range a b = slice l (lrangeNorm l.length a b)) ∧
    (∀ a b, l.trim a b = slice l (lrangeNorm l.length a b)) ∧
    (∀ i, l.get i = match listIdx l.length i with | none => none | some n => l[n]?) ∧
    (∀ i v, l.set i v = (listIdx l.length i).map (fun n => List.set l n v)) ∧
    (∀ v, l.lpush v = pushOne .left l v ∧ l.rpush v = pushOne .right l v) ∧
    (l.lpop = match popSide .left l with | none => (none, l) | some (x, r) => (some x, r)) ∧
    (l.rpop = match popSide .right l with | none => (none, l) | some (x, r) => (some x, r)) :=
  ⟨rlist_range_refines l, rlist_trim_refines l, rlist_get_refines l, rlist_set_refines l,
   fun _ => ⟨rfl, rfl⟩, by cases l <;> rfl, by
     simp only [RList.rpop, popSide]; cases l.getLast? <;> rfl⟩

example : RList.range [[1], [2], [3]] (-2) 5 = [[2], [3]] := by decide
example : RList.trim [[1], [2], [3]] 2 1 = [] := by decide

/-! ## SDS -/

/-- the inline / heap representation is not observable: `append` is concatenation, `resize` is zero
    padding, `new` stores the bytes; well-formedness (inline length ≤ 23, 23-byte array) is kept -/
theorem sds_bytes :
    (∀ b, (Sds.new b).Wf ∧ (Sds.new b).asBytes = b) ∧
    (∀ s o : Sds, s.Wf → o.Wf → (s.append o).Wf ∧ (s.append o).asBytes = s.asBytes ++ o.asBytes ∧
      (s.append o).len = s.len + o.len) ∧
    (∀ (s : Sds) n, s.Wf → (s.resize n).Wf ∧ (s.resize n).asBytes = s.asBytes ++ zeros (n - s.len)) :=
  ⟨fun b => ⟨Sds.wf_new b, Sds.asBytes_new b⟩,
   fun _ _ hs ho => ⟨Sds.wf_append hs ho, Sds.asBytes_append hs ho, Sds.len_append hs ho⟩,
   fun _ n hs => ⟨Sds.wf_resize hs n, Sds.asBytes_resize hs n⟩⟩

/-- the representation boundary, exactly: inline iff it started inline and still fits in
    `SSO_MAX_LEN` = 23 bytes (a heap value never goes back inline) -/
theorem sds_representation_boundary :
    (∀ b, (Sds.new b).isInline = decide (b.length ≤ ssoMax)) ∧
    (∀ s o : Sds, (s.append o).isInline = (s.isInline && decide (s.len + o.len ≤ ssoMax))) ∧
    (∀ (s : Sds) n, s.Wf → (s.resize n).isInline = (s.isInline && decide (n ≤ ssoMax))) :=
  ⟨Sds.isInline_new, Sds.isInline_append, fun s n hs => Sds.isInline_resize hs n⟩

example : ((Sds.new (List.replicate 22 7)).append (Sds.new [1])).isInline = true := by decide
example : ((Sds.new (List.replicate 23 7)).append (Sds.new [1])).isInline = false := by decide
example : ((Sds.heap [1, 2]).append (Sds.new [3])).isInline = false := by decide

/-! ## the commands outside `Cmd`: SETBIT / GETBIT, BatchSet / BatchGet, KEYS pattern (`Model/RedisX.lean`) -/

/-- the invariant of the keyspace survives them too -/
theorem x_inv_preserved (s : State) (now : Nat) (c : XCmd) (h : Inv s) : Inv (stepX s now c).1 :=
  inv_execX (inv_purge now h) c

/-- SETBIT writes exactly the addressed bit: reading it back gives the value written, every other
    bit of that byte is as before (bytes are < 256, bit positions < 8) -/
theorem setbit_laws : (∀ (b : Fin 256) (i : Fin 8) (bit : Fin 2), bitOf (withBit b.val i.val bit.val) i.val = bit.val) ∧
    (∀ (b : Fin 256) (i j : Fin 8) (bit : Fin 2), j ≠ i → bitOf (withBit b.val i.val bit.val) j.val = bitOf b.val j.val) :=
  ⟨bit_roundtrip, bit_others_kept⟩

-- SETBIT k 7 1 on a missing key creates "\x01" (no deadline) and replies 0; GETBIT reads it; an
-- existing key keeps its deadline; offset 2^32 is refused; wrong type
example : stepX [] 1000 (.setbit 1 7 1) = ([(1, ⟨.str [1], none⟩)], .int 0) := by decide
example : (stepX [(1, ⟨.str [1], some 5000⟩)] 1000 (.getbit 1 7)).2 = .int 1 := by decide
example : stepX [(1, ⟨.str [1], some 5000⟩)] 1000 (.setbit 1 9 1) =
    ([(1, ⟨.str [1, 64], some 5000⟩)], .int 0) := by decide
example : (stepX [] 1000 (.setbit 1 4294967296 1)).2 = .err .notInt := by decide
example : (stepX [(1, ⟨.list [[1]], none⟩)] 1000 (.getbit 1 0)).2 = .err .wrongType := by decide

/-- `KEYS *` lists everything -/
theorem glob_star_matches_everything (s : BS) : globMatch [42] s = true :=
  globFuel_star_all s _ (by simp; omega)

/-- a pattern without `*` `?` `[` `\` matches exactly itself -/
theorem glob_plain_matches_itself_only (p s : BS) (hp : ∀ x ∈ p, plainByte x) :
    globMatch p s = decide (p = s) :=
  globFuel_plain p s _ hp (by omega)

-- h?llo, h[ae]llo, h[^e]llo, h[a-b]llo with the ends swapped, an escaped star, a class that is not closed
example : globMatch [104, 63, 108] [104, 97, 108] = true := by decide
example : globMatch [104, 91, 97, 101, 93, 108] [104, 101, 108] = true := by decide
example : globMatch [104, 91, 94, 101, 93, 108] [104, 101, 108] = false := by decide
example : globMatch [91, 99, 45, 97, 93] [98] = true := by decide
example : globMatch [97, 92, 42] [97, 42] = true ∧ globMatch [97, 92, 42] [97, 98] = false := by decide
example : globMatch [91, 97, 98] [97] = true := by decide

/-! ## where the executor's code deviates from the specification (known findings, by cause) -/

/-- the class of GETRANGE arguments on which `execute_getrange` deviates from Redis -/
def GetRangeDeviates (len : Nat) (a b : Int) : Prop := a < 0 ∧ b < 0 ∧ a > b ∧ (len : Int) + a ≤ 0 ∧ 0 < len

theorem codeRangeNorm_eq (len : Nat) (a b : Int) (h : ¬ GetRangeDeviates len a b) :
    codeRangeNorm len a b = rangeNorm len a b := by
  unfold GetRangeDeviates at h
  unfold codeRangeNorm rangeNorm normIdx clampEnd
  by_cases hl : len = 0
  · subst hl; simp
  · simp only [hl, if_false, false_or]
    by_cases ha : a < 0 <;> by_cases hb : b < 0 <;> simp only [ha, hb, if_true, if_false]
    all_goals (repeat' split)
    all_goals first
      | rfl
      | omega
      | (simp only [Option.some.injEq, Prod.mk.injEq]; constructor <;> omega)
      | (exfalso; omega)
      | (exfalso; simp_all; done)

theorem codeRangeNorm_deviates (len : Nat) (a b : Int) (h : GetRangeDeviates len a b) :
    codeRangeNorm len a b = some (0, 1) ∧ rangeNorm len a b = none := by
  obtain ⟨h1, h2, h3, h4, h5⟩ := h
  unfold codeRangeNorm rangeNorm
  constructor
  · rw [if_neg (by omega)]
    simp only [h1, h2, if_true]
    rw [if_neg (by omega)]
    simp only [Option.some.injEq, Prod.mk.injEq]; constructor <;> omega
  · rw [if_pos ⟨h1, h2, h3⟩]

/-- `execute_getrange` answers exactly as Redis outside the deviating class, and with the first
    byte instead of the empty string inside it -/
theorem getrange_code_vs_spec (s : State) (k : Nat) (a b : Int) :
    (∀ v dl, lookupStr s k = .found v dl → ¬ GetRangeDeviates v.length a b) →
    codeGetRange s k a b = execGetRange s k a b := by
  intro h
  unfold codeGetRange execGetRange
  cases hl : lookupStr s k with
  | missing => rfl
  | wrong => rfl
  | found v dl => simp only; rw [codeRangeNorm_eq _ _ _ (h v dl hl)]

theorem getrange_code_counterexample :
    codeGetRange [(1, ⟨.str [97, 98, 99], none⟩)] 1 (-100) (-200) ≠
      execGetRange [(1, ⟨.str [97, 98, 99], none⟩)] 1 (-100) (-200) := by decide

/-- `execute_getset` = GETSET of Redis except that the old deadline stays: same reply, same value,
    same keys; and identical when the key had no deadline -/
theorem getset_code_vs_spec (s : State) (k : Nat) (v : BS) :
    (codeGetSet s k v).2 = (execGetSet s k v).2 ∧
    (codeGetSet s k v).1.map (fun p => (p.1, p.2.val)) = (execGetSet s k v).1.map (fun p => (p.1, p.2.val)) ∧
    (oldDl s k = none → codeGetSet s k v = execGetSet s k v) := by
  unfold codeGetSet execGetSet oldDl
  cases hl : lookupStr s k with
  | missing => exact ⟨rfl, rfl, fun _ => rfl⟩
  | wrong => exact ⟨rfl, rfl, fun _ => rfl⟩
  | found b dl =>
    simp only
    refine ⟨trivial, ?_, ?_⟩
    · generalize s = l
      induction l with
      | nil => rfl
      | cons p r ih =>
        obtain ⟨k', e⟩ := p
        simp only [NMap.insert]
        split
        · rfl
        · split
          · rfl
          · simp only [List.map_cons, ih]
    · intro hd
      simp only [lookupStr] at hl
      cases hg : NMap.get s k with
      | none => rw [hg] at hl; cases hl
      | some e =>
        rw [hg] at hl hd
        simp only at hd hl
        cases hv : e.val <;> rw [hv] at hl <;> simp at hl
        rw [← hl.2, hd]

theorem getset_code_counterexample :
    codeGetSet [(1, ⟨.str [118], some 5000⟩)] 1 [119] ≠ execGetSet [(1, ⟨.str [118], some 5000⟩)] 1 [119] := by
  decide

end RedisVerif.C01Data
