import RedisVerif.Props.C02Node

/-!
# C02 with PER-SHARD clocks: the global monotonicity hypothesis weakened

`linearizable_m7_single_store` / `linearizable_node_entry_paths` assume `LinMono(G)`: the virtual times at which
operations take effect never go backwards along the whole log.  The node has no global clock: a message makes ITS
shard adopt its time (`set_time`), other shards keep theirs; two clients whose requests go to different shards may
take effect in either order of their stamps.  Here the hypothesis is per shard:

* `Rel7V`: from the clock of a key's HOME SHARD on, no reader can tell that key on the shards from the one store.
* `stepSc_refines_V` / `reqL_refines`: a request whose keys' shards have clocks ≤ its time (`okClock`) is answered by
  the N-shard node — by whichever entry path — like ONE store with PER-KEY LAZY EXPIRY (`specL`: the request's own keys
  are judged at its time, nothing else is touched), and `Rel7V` is kept with the swept shards' clocks advanced.
* `replay_sim_clock` / `linearizable_of_clock_refinement`: the log-level simulation for an abstract clock state.
* `linearizable_node_per_shard_clocks`: every execution — any interleaving / shards / clients / pooled slots /
  abandoned requests / entry paths — in which every operation takes effect at a time not earlier than the time the
  shard(s) of its keys last adopted is linearizable w.r.t. `specL`.
* `per_shard_clock_reach`: an execution whose effect times are 10, 5, 20 (a stale stamp on another shard): `LinMonoG`
  FAILS, the per-shard condition holds, the theorem applies.  `stale_stamp_same_shard_counterexample`: a stale stamp
  on the SAME shard after an eviction is answered differently by the node and by one lazy store — the condition
  cannot be dropped.
Still a hypothesis (stamps are read before the enqueue, so two clients of one shard can invert them); it is what the
harness' timed histories satisfy (the clock is advanced between phases only).
-/
namespace RedisVerif
namespace C02
open Actors Shards NMap Shards.M7 C03
open Redis (Entry cmdKeys Prog runProg ProgKeys LocalOn)

/-! ## per-key lazy expiry: the keys of `K` are judged at `now`, everything else is left alone -/

theorem get_filter_kv {ν : Type} {m : NMap ν} (f : Nat × ν → Bool) (h : WF m) (k : Nat) :
    get (m.filter f) k = (get m k).filter (fun v => f (k, v)) := by
  induction m with
  | nil => rfl
  | cons q m ih =>
    obtain ⟨hlb, hwf⟩ := wf_cons.mp h
    have ih' := ih hwf
    rw [List.filter_cons, get_cons]
    by_cases hp : f q = true
    · rw [if_pos hp, get_cons]
      by_cases hk : k = q.1
      · subst hk; simp [Option.filter, hp]
      · rw [if_neg hk, if_neg hk]; exact ih'
    · rw [if_neg hp]
      by_cases hk : k = q.1
      · have hlb' : LB q.1 (m.filter f) := fun x hx => hlb x (List.mem_filter.mp hx).1
        subst hk
        rw [if_pos rfl, get_eq_none_of_LB hlb' (Nat.le_refl _)]
        simp [Option.filter, hp]
      · rw [if_neg hk]; exact ih'

theorem wf_purgeOn {s : Redis.State} (K : List Nat) (now : Nat) (h : WF s) : WF (purgeOn K s now) :=
  List.Pairwise.filter _ h

theorem get_purgeOn {s : Redis.State} (hs : WF s) (K : List Nat) (now k : Nat) :
    get (purgeOn K s now) k = if k ∈ K then lv now (get s k) else get s k := by
  unfold purgeOn
  rw [get_filter_kv _ hs]
  by_cases hk : k ∈ K
  · have : K.contains k = true := by simpa using hk
    simp [hk, this, lv]
  · have : K.contains k = false := by simpa using hk
    rw [if_neg hk]
    cases get s k with
    | none => rfl
    | some e => simp [Option.filter, hk]

/-- from the clock of a key's HOME SHARD on, no reader can tell that key on the shards from the one
    store.  `ts i` = the time of the last message shard `i` adopted. -/
structure Rel7V (R : Routes) (st : Shards Entry) (s1 : Redis.State) (ts : Nat → Nat) : Prop where
  inv : Inv R st
  wf1 : WF s1
  view : ∀ k t', ts (R.bytes k) ≤ t' → lv t' (get (abs st) k) = lv t' (get s1 k)

theorem rel7V_init (R : Routes) : Rel7V R (Shards.init Entry R.N) [] (fun _ => 0) :=
  ⟨inv_init R, wf_nil, fun _ _ _ => by rw [abs_init]⟩

theorem rel_after_sweep_V {R : Routes} {st : Shards Entry} {s1 : Redis.State} {ts : Nat → Nat}
    (h : Rel7V R st s1 ts) (W : Nat → Bool) (now : Nat) :
    (∀ k, W (R.bytes k) = true → ts (R.bytes k) ≤ now → get (abs (sweep W now st)) k = lv now (get s1 k)) ∧
    (∀ k t', advClock W now ts (R.bytes k) ≤ t' → lv t' (get (abs (sweep W now st)) k) = lv t' (get s1 k)) := by
  have hget : ∀ k, get (abs (sweep W now st)) k =
      if W (R.bytes k) then lv now (get (abs st) k) else get (abs st) k := get_abs_sweep h.inv W now
  constructor
  · intro k hk ht
    rw [hget k, if_pos hk]
    exact h.view k now ht
  · intro k t' ht'
    rw [hget k]
    unfold advClock at ht'
    split
    · rename_i hw
      rw [if_pos hw] at ht'
      rw [lv_lv (by omega)]
      exact h.view k t' (by omega)
    · rename_i hw
      rw [if_neg hw] at ht'
      exact h.view k t' ht'

/-! ## one sharding-model command against one M7 command, per-shard clocks -/

open Server (Same execVia execSc)

theorem stepSc_refines_V {R : Routes} (hv : R.Valid) (hN : 0 < R.N) {st : Shards Entry} {s1 : Redis.State}
    {ts : Nat → Nat} {now : Nat} (h : Rel7V R st s1 ts) (sc : Cmd sig7) (post : Reply → Reply)
    (c : Redis.Cmd) (K : List Nat) (hK : cmdKeys c = some K)
    (hrt : Routable R true sc = true) (hsame : Same now sc post c) (W : Nat → Bool)
    (hcov : ∀ k ∈ K, W (R.bytes k) = true) (hts : ∀ k ∈ K, ts (R.bytes k) ≤ now) :
    toM7 (post (execN exec7 R true (sweep W now st) sc).2) = some (Redis.exec (purgeOn K s1 now) now c).2 ∧
    Rel7V R (execN exec7 R true (sweep W now st) sc).1 (Redis.exec (purgeOn K s1 now) now c).1
      (advClock W now ts) := by
  have hinv0 := inv_sweep h.inv W now
  have hwa := hinv0.wf_abs
  have hwp := wf_purgeOn K now h.wf1
  obtain ⟨hi, ha, hq⟩ := shards_refine_single_m7 R hv hN hinv0 sc hrt
  obtain ⟨hswept, hrel0⟩ := rel_after_sweep_V h W now
  have L := Redis.exec_localOn now c K hK
  have hagree : ∀ k ∈ K, get (abs (sweep W now st)) k = get (purgeOn K s1 now) k := by
    intro k hk
    rw [hswept k (hcov k hk) (hts k hk), get_purgeOn h.wf1, if_pos hk]
  obtain ⟨e1, e2⟩ := L.loc _ _ hwa hwp hagree
  have hx := eq_of_replyEqv hq (hsame.nk _) (hsame.nr _)
  refine ⟨?_, hi, L.wf _ hwp, ?_⟩
  · rw [hx, hsame.rep _ hwa, e1]
  · intro k t' ht'
    rw [ha, hsame.st _ hwa]
    by_cases hm : k ∈ K
    · rw [e2 k hm]
    · rw [L.frame _ k hwa hm, L.frame _ k hwp hm, get_purgeOn h.wf1, if_neg hm]
      exact hrel0 k t' ht'

/-! ## the requests, with the declared KEYS of a script; the lazy one-store specification -/

def ReqLOk (R : Routes) : ReqL → Prop
  | .via _ _ c => CmdOk R c = true
  | .script _ keys p => keys ≠ [] ∧ ProgKeys keys p ∧ ∀ x ∈ keys, R.bytes x = R.bytes (keys.headD 0)

theorem execVia_plan (R : Routes) (cls : FrameClass) (now : Nat) (st : Shards Entry) (c : Redis.Cmd) :
    execVia R cls now st c =
      ((execSc R now st (viaPlan cls now c).1).1, (viaPlan cls now c).2 (execSc R now st (viaPlan cls now c).1).2) := by
  unfold execVia viaPlan
  split
  · rename_i heq; simp only [heq]; rfl
  · rename_i heq; simp only [heq]; rfl
  · rename_i heq; simp only [heq]
  · rename_i heq; simp only [heq]
  · rename_i h1 h2 h3 h4
    split
    · rename_i heq; exact (h1 _ heq rfl).elim
    · rename_i heq; exact (h2 _ _ heq rfl).elim
    · rename_i heq; exact (h3 _ heq rfl).elim
    · rename_i heq; exact (h4 _ _ heq rfl).elim
    · rfl

theorem via_facts (R : Routes) (cls : FrameClass) (now : Nat) (c : Redis.Cmd) (hr : Routable7 R c = true)
    (hk : c ≠ .keys) (K : List Nat) (hK : cmdKeys c = some K) :
    Same now (viaPlan cls now c).1 (viaPlan cls now c).2 c ∧ Routable R true (viaPlan cls now c).1 = true ∧
    ∀ k ∈ K, recv R (viaPlan cls now c).1 (R.bytes k) = true := by
  have hnr : ∀ ch, c ≠ .randomkey ch := by
    intro ch e; rw [e] at hr; simp [Routable7] at hr
  unfold viaPlan
  split
  · simp only [cmdKeys, Option.some.injEq] at hK; subst hK
    exact ⟨Server.same_fastGet now _, rfl, by simp [recv, cmdShard]⟩
  · simp only [cmdKeys, Option.some.injEq] at hK; subst hK
    exact ⟨Server.same_fastSet now _ _, rfl, by simp [recv, cmdShard]⟩
  · simp only [cmdKeys, Option.some.injEq] at hK; subst hK
    exact ⟨Server.same_batchGet now _, rfl, by simp [recv]⟩
  · simp only [cmdKeys, Option.some.injEq] at hK; subst hK
    exact ⟨Server.same_batchSet now _ _, rfl, by simp [recv]⟩
  · exact ⟨Server.same_inject now _ hnr hk, routable_inject R now _ hr, fun k hk' => recv_covers R now _ hr K hK k hk'⟩

/-- **one request, by whichever path, per-shard clocks** -/
theorem reqL_refines {R : Routes} (hv : R.Valid) (hN : 0 < R.N) {st : Shards Entry} {s1 : Redis.State}
    {ts : Nat → Nat} (h : Rel7V R st s1 ts) (req : ReqL) (hok : ReqLOk R req) (hc : okClock R ts req) :
    (stepL R st req).2 = (specL s1 req).2 ∧ Rel7V R (stepL R st req).1 (specL s1 req).1 (advL R ts req) := by
  cases req with
  | via cls now c =>
    obtain ⟨hr, K, hK⟩ := cmdOk_keys hok
    obtain ⟨f1, f2, f3⟩ := via_facts R cls now c hr (cmdOk_not_keys hok) K hK
    have hkeys : (ReqL.via cls now c).keys = K := by simp [ReqL.keys, hK]
    have hts : ∀ k ∈ K, ts (R.bytes k) ≤ now := fun k hk => hc k (by rw [hkeys]; exact hk)
    obtain ⟨e1, e2⟩ := stepSc_refines_V hv hN h (viaPlan cls now c).1 (viaPlan cls now c).2 c K hK f2 f1
      (recv R (viaPlan cls now c).1) f3 hts
    have hspec : specL s1 (.via cls now c) =
        ((Redis.exec (purgeOn K s1 now) now c).1, some (Redis.exec (purgeOn K s1 now) now c).2) := by
      simp [specL, hK]
    rw [hspec]
    show toM7 (execVia R cls now st c).2 = _ ∧ Rel7V R (execVia R cls now st c).1 _ _
    rw [execVia_plan]
    exact ⟨e1, e2⟩
  | script now keys p =>
    obtain ⟨_, hpk, hK⟩ := hok
    have L := Redis.prog_localOn now hpk
    let W : Nat → Bool := fun j => j == R.bytes (keys.headD 0)
    have hinv0 := inv_sweep h.inv W now
    have hwp := wf_purgeOn keys now h.wf1
    obtain ⟨hswept, hrel0⟩ := rel_after_sweep_V h W now
    obtain ⟨hi, ha, hq⟩ := refine_onShard hinv0 (R.bytes (keys.headD 0)) (hv _).2 (fun x => runProg x now p) keys hK
      (fun x hx => L.wf x hx) (fun x k' hx hk' => L.frame x k' hx hk')
      (fun x y hx hy hxy => L.loc x y hx hy hxy)
    have hagree : ∀ x ∈ keys, get (abs (sweep W now st)) x = get (purgeOn keys s1 now) x := by
      intro x hx
      rw [hswept x (by simp [W, hK x hx]) (hc x hx), get_purgeOn h.wf1, if_pos hx]
    obtain ⟨e1, e2⟩ := L.loc _ _ hinv0.wf_abs hwp hagree
    refine ⟨?_, hi, L.wf _ hwp, ?_⟩
    · show toM7 (Reply.one (.ext _)) = some _
      rw [hq, e1]; rfl
    · intro k t' ht'
      show lv t' (get (abs ((sweep W now st).set (R.bytes (keys.headD 0)) _)) k) = _
      rw [ha]
      by_cases hm : k ∈ keys
      · exact congrArg (lv t') (e2 k hm)
      · show lv t' (get (runProg (abs (sweep W now st)) now p).1 k) = lv t' (get (runProg (purgeOn keys s1 now) now p).1 k)
        rw [L.frame _ k hinv0.wf_abs hm, L.frame _ k hwp hm, get_purgeOn h.wf1, if_neg hm]
        exact hrel0 k t' ht'

/-! ## the log-level simulation with an abstract clock state -/

section clock
variable {σA σB Req Resp τ : Type} [DecidableEq Resp]
  (stepA : σA → Req → σA × Resp) (stepB : σB → Req → σB × Resp)
  (Ok : Req → Prop) (okT : τ → Req → Prop) (adv : τ → Req → τ) (Rel : σA → σB → τ → Prop)

theorem replay_sim_clock
    (href : ∀ a b t req, Rel a b t → okT t req → Ok req →
      (stepA a req).2 = (stepB b req).2 ∧ Rel (stepA a req).1 (stepB b req).1 (adv t req))
    (log : List (Ev Req Resp)) (t : τ) (tm : NMap Req)
    (rA rA' : RState σA Req Resp) (rB : RState σB Req Resp)
    (hrel : Rel rA.s rB.s t) (hp : rA.pend = rB.pend) (hd : rA.done = rB.done) (hn : rA.next = rB.next)
    (hwf : WF rA.pend)
    (hok : ∀ id req, get rA.pend id = some req → Ok req ∧ get tm id = some req)
    (hlog : ∀ id req, (.inv id req) ∈ log → Ok req)
    (hmono : LinMonoT okT adv tm t log)
    (h : replay stepA rA log = some rA') :
    ∃ rB', replay stepB rB log = some rB' := by
  induction log generalizing rA rB t tm with
  | nil => exact ⟨rB, rfl⟩
  | cons e es ih =>
    simp only [replay] at h ⊢
    cases he : stepEv stepA rA e with
    | none => rw [he] at h; cases h
    | some rA1 =>
      rw [he] at h
      cases e with
      | inv id req =>
        simp only [stepEv] at he ⊢
        by_cases hle : rA.next ≤ id
        · rw [if_pos hle] at he
          rw [if_pos (by rw [← hn]; exact hle)]
          injection he with he
          subst he
          apply ih (t := t) (tm := NMap.insert id req tm)
            (rA := { rA with pend := NMap.insert id req rA.pend, next := id + 1 })
            (rB := { rB with pend := NMap.insert id req rB.pend, next := id + 1 })
          · exact hrel
          · show NMap.insert id req rA.pend = NMap.insert id req rB.pend; rw [hp]
          · exact hd
          · rfl
          · exact wf_insert hwf
          · intro id' req' hg
            rw [get_insert] at hg ⊢
            by_cases e1 : id' = id
            · rw [if_pos e1] at hg ⊢
              injection hg with hg; rw [← hg]
              exact ⟨hlog id req (by simp), rfl⟩
            · rw [if_neg e1] at hg ⊢
              exact hok id' req' hg
          · intro id' req' hm; exact hlog id' req' (by simp [hm])
          · exact hmono
          · exact h
        · rw [if_neg hle] at he; cases he
      | lin id resp =>
        simp only [stepEv] at he ⊢
        rw [← hp]
        cases hg : get rA.pend id with
        | none => rw [hg] at he; cases he
        | some req =>
          rw [hg] at he
          simp only at he ⊢
          obtain ⟨hokr, htm⟩ := hok id req hg
          have hm2 : okT t req ∧ LinMonoT okT adv tm (adv t req) es := by
            have := hmono
            simp only [LinMonoT, htm] at this
            exact this
          obtain ⟨s2, s1⟩ := href _ _ _ req hrel hm2.1 hokr
          by_cases hr : (stepA rA.s req).2 = resp
          · rw [if_pos hr] at he
            rw [if_pos (by rw [← s2]; exact hr)]
            injection he with he
            subst he
            apply ih (t := adv t req) (tm := tm)
              (rA := { rA with s := (stepA rA.s req).1, pend := NMap.erase id rA.pend, done := NMap.insert id resp rA.done })
              (rB := { rB with s := (stepB rB.s req).1, pend := NMap.erase id rA.pend, done := NMap.insert id resp rB.done })
            · exact s1
            · rfl
            · show NMap.insert id resp rA.done = NMap.insert id resp rB.done; rw [hd]
            · exact hn
            · exact wf_erase hwf
            · intro id' req' hg'
              rw [get_erase hwf] at hg'
              by_cases e1 : id' = id
              · rw [if_pos e1] at hg'; cases hg'
              · rw [if_neg e1] at hg'; exact hok id' req' hg'
            · intro id' req' hm; exact hlog id' req' (by simp [hm])
            · exact hm2.2
            · exact h
          · rw [if_neg hr] at he; cases he
      | res id resp =>
        simp only [stepEv] at he ⊢
        rw [← hd]
        by_cases hg : get rA.done id = some resp
        · rw [if_pos hg] at he
          rw [if_pos hg]
          injection he with he
          subst he
          exact ih (t := t) (tm := tm) { rA with done := NMap.erase id rA.done } { rB with done := NMap.erase id rA.done }
            hrel hp rfl hn hwf hok
            (fun id' req' hm => hlog id' req' (by simp [hm])) hmono h
        · rw [if_neg hg] at he; cases he

theorem linearizable_of_clock_refinement (route : Req → Nat) (a0 : σA) (b0 : σB) (t0 : τ) (h0 : Rel a0 b0 t0)
    (href : ∀ a b t req, Rel a b t → okT t req → Ok req →
      (stepA a req).2 = (stepB b req).2 ∧ Rel (stepA a req).1 (stepB b req).1 (adv t req))
    {pool : Nat} {s : Sys σA Req Resp} (hr : Reach stepA route a0 pool s)
    (hok : ∀ id req, (.inv id req) ∈ s.log → Ok req)
    (hmono : LinMonoT okT adv [] t0 s.log) :
    ValidLog stepB b0 s.log ∧ Linearizable stepB b0 (history s.log) := by
  obtain ⟨hvl, _⟩ := linearizable stepA route a0 hr
  have hv2 : ValidLog stepB b0 s.log := by
    unfold ValidLog at hvl ⊢
    cases hrep : replay stepA (initR a0) s.log with
    | none => rw [hrep] at hvl; cases hvl
    | some rA =>
      obtain ⟨rB, hb⟩ := replay_sim_clock stepA stepB Ok okT adv Rel href s.log t0 [] (initR a0) rA (initR b0)
        h0 rfl rfl rfl wf_nil (by intro id req hg; cases hg) hok hmono hrep
      rw [hb]; rfl
  exact ⟨hv2, s.log, rfl, hv2⟩

end clock

/-- **C02 over the composed node, PER-SHARD clocks**: every execution of the actor system — every
    interleaving, any number of shards / clients / pooled slots, abandoned requests, every entry path —
    in which every operation takes effect at a time not earlier than the time THE SHARD(S) OF ITS KEYS
    last adopted (`okClock`: nothing is assumed about the order of times across shards) is linearizable
    w.r.t. ONE store with per-key lazy expiry (`specL`) -/
theorem linearizable_node_per_shard_clocks (R : Routes) (hv : R.Valid) (hN : 0 < R.N) {pool : Nat}
    {s : Sys (Shards Entry) ReqL (Option Redis.Reply)}
    (hr : Reach (stepL R) (routeL R) (Shards.init Entry R.N) pool s)
    (hok : ∀ id req, (.inv id req) ∈ s.log → ReqLOk R req)
    (hmono : LinMonoT (okClock R) (advL R) [] (fun _ => 0) s.log) :
    ValidLog specL Redis.init s.log ∧ Linearizable specL Redis.init (history s.log) :=
  linearizable_of_clock_refinement (stepL R) specL (ReqLOk R) (okClock R) (advL R) (Rel7V R) (routeL R) _ _ _
    (rel7V_init R) (fun _ _ _ req hrel hc hokr => reqL_refines hv hN hrel req hokr hc) hr hok hmono

/-! ### decidability, non-vacuity: per-shard clocks are strictly weaker than one global clock -/

def decLinMonoT {Req Resp τ : Type} (okT : τ → Req → Prop) [∀ t r, Decidable (okT t r)] (adv : τ → Req → τ) :
    (pend : NMap Req) → (t : τ) → (l : List (Ev Req Resp)) → Decidable (LinMonoT okT adv pend t l)
  | _, _, [] => isTrue trivial
  | pend, t, .inv id req :: es => decLinMonoT okT adv (NMap.insert id req pend) t es
  | pend, t, .lin id _ :: es =>
    match h : NMap.get pend id with
    | some req =>
      match (inferInstance : Decidable (okT t req)), decLinMonoT okT adv pend (adv t req) es with
      | isTrue h1, isTrue h2 => isTrue (by simp only [LinMonoT, h]; exact ⟨h1, h2⟩)
      | isFalse h1, _ => isFalse (by simp only [LinMonoT, h]; exact fun x => h1 x.1)
      | _, isFalse h2 => isFalse (by simp only [LinMonoT, h]; exact fun x => h2 x.2)
    | none =>
      match decLinMonoT okT adv pend t es with
      | isTrue h2 => isTrue (by simp only [LinMonoT, h]; exact h2)
      | isFalse h2 => isFalse (by simp only [LinMonoT, h]; exact h2)
  | pend, t, .res _ _ :: es => decLinMonoT okT adv pend t es

instance {Req Resp τ : Type} (okT : τ → Req → Prop) [∀ t r, Decidable (okT t r)] (adv : τ → Req → τ)
    (pend : NMap Req) (t : τ) (l : List (Ev Req Resp)) : Decidable (LinMonoT okT adv pend t l) :=
  decLinMonoT okT adv pend t l

def lSet : ReqL := .via .generic 10 (.set 1 [97] .always (.px 5) false)
def lStale : ReqL := .via .getFast 5 (.get 2)
def lLate : ReqL := .via .generic 20 (.get 1)

/-- non-vacuity, and more than `linearizable_node_entry_paths` covers: client 0 writes key 1 (shard 0) at
    time 10 with a deadline; client 1's pooled GET of key 2 (shard 1) carries the STALE stamp 5 (it read
    the clock before client 0 did and was scheduled later) and takes effect AFTER the write; client 2
    reads key 1 at time 20 (expired).  The effect times 10, 5, 20 are not monotone — `LinMonoG` fails —
    but every shard sees non-decreasing times. -/
theorem per_shard_clock_reach : ∃ s, Reach (stepL routes7) (routeL routes7) (Shards.init Entry 2) 1 s ∧
    history s.log = [.inv 0 lSet, .inv 1 lStale, .res 0 (some .ok), .res 1 (some .nil), .inv 2 lLate, .res 2 (some .nil)] ∧
    (∀ id req, (.inv id req) ∈ s.log → ReqLOk routes7 req) ∧
    LinMonoT (okClock routes7) (advL routes7) [] (fun _ => 0) s.log ∧
    ¬ LinMonoG ReqL.time [] 0 s.log := by
  have r0 : Reach (stepL routes7) (routeL routes7) (Shards.init Entry 2) 1 (Sys.init _ 1) := Reach.init
  have r1 := Reach.step r0 (Step.invokeFresh _ 0 lSet rfl)
  have r2 := Reach.step r1 (Step.invokePooled _ 1 lStale 0 [] rfl rfl)
  have r3 := Reach.step r2 (Step.exec _ 0 ⟨0, 1, lSet⟩ [] rfl)
  have r4 := Reach.step r3 (Step.exec _ 1 ⟨1, 0, lStale⟩ [] rfl)
  have r5 := Reach.step r4 (Step.retDrop _ 0 0 lSet 1 (some .ok) rfl rfl)
  have r6 := Reach.step r5 (Step.retRelease _ 1 1 lStale 0 (some .nil) rfl rfl)
  have r7 := Reach.step r6 (Step.invokeFresh _ 2 lLate rfl)
  have r8 := Reach.step r7 (Step.exec _ 0 ⟨2, 2, lLate⟩ [] rfl)
  have r9 := Reach.step r8 (Step.retDrop _ 2 2 lLate 2 (some .nil) rfl rfl)
  refine ⟨_, r9, rfl, ?_, by decide, by decide⟩
  intro id req hm
  simp only [List.mem_append, List.mem_cons, List.not_mem_nil, or_false, reduceCtorEq, Ev.inv.injEq] at hm
  rcases hm with ((hm | ⟨_, rfl⟩) | ⟨_, rfl⟩) | ⟨_, rfl⟩
  · cases hm
  · show CmdOk routes7 _ = true; decide
  · show CmdOk routes7 _ = true; decide
  · show CmdOk routes7 _ = true; decide

example : Linearizable specL Redis.init
    ([.inv 0 lSet, .inv 1 lStale, .res 0 (some .ok), .res 1 (some .nil), .inv 2 lLate, .res 2 (some .nil)] :
      List (Ev ReqL (Option Redis.Reply))) := by
  obtain ⟨s, hr, hh, hok, hm, _⟩ := per_shard_clock_reach
  rw [← hh]
  exact (linearizable_node_per_shard_clocks routes7 routes7_valid (by decide) hr hok hm).2

/-- why the clock condition is per SHARD and cannot be dropped: keys 1 and 3 live on shard 0.  Key 3 gets the
    deadline 18; a GET of key 1 at time 20 makes shard 0 adopt 20 and evict key 3 with it; a request for
    key 3 stamped 16 that takes effect afterwards finds nothing on the node, while one store with lazy
    expiry would still show the value at 16.  `okClock` fails for that last request. -/
theorem stale_stamp_same_shard_counterexample :
    let r1 : ReqL := .via .generic 10 (.set 3 [118] .always (.px 8) false)
    let r2 : ReqL := .via .generic 20 (.get 1)
    let r3 : ReqL := .via .generic 16 (.get 3)
    let n2 := (stepL routes7 (stepL routes7 (Shards.init Entry 2) r1).1 r2).1
    let s2 := (specL (specL Redis.init r1).1 r2).1
    (stepL routes7 n2 r3).2 = some .nil ∧ (specL s2 r3).2 = some (.bulk [118]) ∧
    ¬ okClock routes7 (advL routes7 (advL routes7 (fun _ => 0) r1) r2) r3 := by decide

end C02
end RedisVerif
