import RedisVerif.Model.Stream
import RedisVerif.Lemmas.StreamOps
import RedisVerif.Lemmas.StreamFold

/-!
# C12 — Streaming persistence is crash-consistent at every step, loses nothing confirmed

Model: `Stream.runWith` (M4): workloads of `push` / `flush` / `compact` of one process over an
object store whose every call is decided by a fault oracle `F : Nat → Fault`
(`ok | fail | failPartial | crash | crashPartial`).  **Crash points**: the oracles include, for
every call index `c`, "the process dies at call `c`" (optionally leaving a torn object inside a
`put`); a dead world never changes again (`dead_frozen`), so the final store of such a run IS the
store image at crash point `c`.  Quantifying over all oracles therefore quantifies over every
crash position and every placement of transient failures and partial writes; crashes *between*
two operations are prefixes of the operation list (`TraceInv.prefix_inv`).

**Fault-model boundary** (stated, not hidden): a `put` that stores a truncated object AND reports
success (`SimulatedObjectStore::partial_write_prob`) is not a `Fault` of the model — without
read-back verification no protocol survives it; transient errors carry an `ErrorKind` other than
`NotFound` (a spurious `NotFound` on the manifest makes `load_or_create` start from an empty
manifest).

* `crash_consistent_structural` — every code variant, every workload, every oracle: recovery
  succeeds, the manifest references only complete objects (`manifest_refs_complete`).
* `crash_consistent_flush_partial` — workloads without compaction: every update of every flush
  that returned `Ok` is literally among the updates recovery returns.
* `crash_consistent_current` — the full statement for the CURRENT tree (`Stream.current`: the
  compactor merges instead of keeping the latest, only `NotFound` marks a segment missing),
  workloads with compaction, no tombstone GC: every confirmed update is absorbed by the
  recovered state.  For the pinned commit this was false: `compact_get_fault_counterexample`
  (a transient `get` error made the compactor drop and delete a live segment) — fixed defect.
* `manifest_segments_exist_after_compaction` — also under read corruption (a `get` returning a
  mangled body once): a skipped segment stays listed and stays in the store;
  `delete_selected_counterexample` for the variant that deletes what it selected.
* `compaction_never_adopts_unlisted_object` — orphans of failed flushes (unlisted objects) have
  no influence on what a pass leaves behind; `skip_upload_if_exists_counterexample` for the
  variant that skips its upload when the name is taken.
* `failed_flush_keeps_buffer_current`, `no_update_vanishes_current` — the current `flush` puts
  the taken deltas back on every error path; `failed_flush_drops_buffer_counterexample` for the
  pinned commit — fixed defect.
-/
namespace RedisVerif
namespace C12

open _root_.RedisVerif.Stream FoldACI

/-! ## crash points are oracles -/

/-- a dead process never changes the world again -/
theorem dead_frozen (fl : Flags) (F : Oracle) (s : Sys) (op : Op) (hd : s.w.dead = true) :
    (stepWith fl F s op).w = s.w := by
  have hget : ∀ n, s.w.get F n = (s.w, .err false) := by
    intro n; unfold World.get; simp [hd]
  have hload : ∀ rid, loadOrCreate F s.w rid = (s.w, none) := by
    intro rid; unfold loadOrCreate; rw [hget]
  cases op with
  | push d => rfl
  | flush sz =>
    simp only [stepWith]
    unfold flushWith
    cases hb : s.p.buffer with
    | nil => rfl
    | cons d0 rest => simp only [hload]
  | compact cfg sz =>
    simp only [stepWith]
    unfold compactWith
    rw [hload]

/-! ## structure: recovery succeeds, the manifest references only complete objects -/

theorem storeInv_step (fl : Flags) (F : Oracle) (s : Sys) (op : Op) (h : StoreInv s.w.store) :
    StoreInv (stepWith fl F s op).w.store := storeInv_stepWith fl F s op h

theorem storeInv_empty : StoreInv ([] : Store) := storeInv_nil

theorem storeInv_run (fl : Flags) (F : Oracle) (rid : Nat) (ops : List Op) :
    StoreInv (runWith fl F (Sys.init [] rid) ops).w.store := storeInv_runWith fl F rid ops

/-- **crash_consistent, structural part** — every code variant (pinned or repaired), every
    workload of push / flush / compact, every fault oracle hence every crash point: `recover`
    succeeds on the store that is left, and the manifest references only complete objects. -/
theorem crash_consistent_structural (fl : Flags) (F : Oracle) (rid : Nat) (ops : List Op) :
    (∃ r, recover (runWith fl F (Sys.init [] rid) ops).w.store rid = .ok r) ∧
    refsComplete (runWith fl F (Sys.init [] rid) ops).w.store = true :=
  ⟨recover_ok_of_storeInv (storeInv_run fl F rid ops) rid,
   refsComplete_of_storeInv (storeInv_run fl F rid ops)⟩

/-- the same at every crash point *between* two operations -/
theorem crash_consistent_structural_prefix (fl : Flags) (F : Oracle) (rid : Nat) (ops : List Op) (n : Nat) :
    (∃ r, recover (runWith fl F (Sys.init [] rid) (ops.take n)).w.store rid = .ok r) ∧
    refsComplete (runWith fl F (Sys.init [] rid) (ops.take n)).w.store = true :=
  crash_consistent_structural fl F rid (ops.take n)

/-! ## nothing confirmed is lost -/

/-- an update is absorbed by a state: merging it in again changes nothing -/
def Absorbed (d : Delta) (M : NMap RV) : Prop :=
  match NMap.get M d.1 with
  | some u => RV.merge d.2 u = u
  | none => False

instance (d : Delta) (M : NMap RV) : Decidable (Absorbed d M) := by
  unfold Absorbed; split <;> infer_instance

/-- full-strength statement, parameterised by the code variant -/
def C12_crash_consistent (fl : Flags) : Prop :=
  ∀ (rid : Nat) (F : Oracle) (ops : List Op),
    Coherent (pushes ops) → (∀ o ∈ ops, o.gcFree = true) →
    OkAnd (recover (runWith fl F (Sys.init [] rid) ops).w.store rid) (fun r =>
      ∀ d ∈ (runWith fl F (Sys.init [] rid) ops).acked, Absorbed d (foldState r.updates)) ∧
    refsComplete (runWith fl F (Sys.init [] rid) ops).w.store = true

def NoCompaction (ops : List Op) : Prop := ∀ o ∈ ops, o.isCompact = false

instance (ops : List Op) : Decidable (NoCompaction ops) := by
  unfold NoCompaction
  infer_instance

theorem acked_in_content_step (fl : Flags) (F : Oracle) (s : Sys) (op : Op)
    (hop : op.isCompact = false)
    (hinv : StoreInv s.w.store) (h : ∀ d ∈ s.acked, d ∈ content s.w.store) :
    ∀ d ∈ (stepWith fl F s op).acked, d ∈ content (stepWith fl F s op).w.store := by
  cases op with
  | push d => exact h
  | compact cfg sz => exact absurd hop (by simp [Op.isCompact])
  | flush sz =>
    have hs := (flush_spec fl.restoreBuffer F sz s.w s.p hinv).2
    simp only [stepWith]
    split <;> rename_i heq <;> rw [heq] at hs <;> simp only at hs ⊢
    · intro d hd
      rcases List.mem_append.mp hd with hd | hd
      · exact (hs.1 d).mpr (Or.inl (h d hd))
      · exact (hs.1 d).mpr (Or.inr hd)
    · rename_i out hne
      intro d hd
      cases out with
      | flushed a b => exact absurd rfl (hne a b)
      | empty => simp only at hs; rw [hs.1]; exact h d hd
      | error => simp only at hs; rw [hs.1]; exact h d hd

/-- **crash_consistent without compaction, every code variant**: workloads of push / flush without
    compaction, every oracle / crash point: every update of every flush that returned `Ok` is
    among the updates recovery returns (no coherence hypothesis needed). -/
theorem crash_consistent_flush_partial (fl : Flags) (F : Oracle) (rid : Nat) (ops : List Op)
    (hno : NoCompaction ops) :
    OkAnd (recover (runWith fl F (Sys.init [] rid) ops).w.store rid) (fun r =>
      ∀ d ∈ (runWith fl F (Sys.init [] rid) ops).acked, d ∈ r.updates) := by
  have hJ := TraceInv.run_inv_of (stepWith fl F)
    (fun s => StoreInv s.w.store ∧ ∀ d ∈ s.acked, d ∈ content s.w.store)
    (fun o => o.isCompact = false)
    (fun s o ho hs => ⟨storeInv_step fl F s o hs.1, acked_in_content_step fl F s o ho hs.1 hs.2⟩)
    (Sys.init [] rid) ⟨storeInv_empty, fun d hd => by cases hd⟩ ops hno
  obtain ⟨r, hr⟩ := recover_ok_of_storeInv hJ.1 rid
  rw [okAnd_iff]
  refine ⟨r, hr, ?_⟩
  intro d hd
  exact (recover_updates_of_storeInv hJ.1 hr d).mpr (hJ.2 d hd)

/-! ## a failed flush keeps the buffer -/

/-- full-strength statement, parameterised by the code variant -/
def C12_failed_flush_keeps_buffer (restore : Bool) : Prop :=
  ∀ (F : Oracle) (sz : Nat) (w : World) (p : Pers),
    (flushWith restore F sz w p).2.2 = .error → (flushWith restore F sz w p).2.1.buffer = p.buffer

/-- proved for `restore = true` (the taken deltas are put back on every error path) -/
theorem failed_flush_keeps_buffer : C12_failed_flush_keeps_buffer true := by
  intro F sz w p h
  unfold flushWith at h ⊢
  cases hb : p.buffer with
  | nil => exact hb
  | cons d0 rest =>
    rw [hb] at h
    simp only at h ⊢
    cases hl : loadOrCreate F w p.rid with
    | mk w1 om =>
      rw [hl] at h
      cases om with
      | none => simpa using hb
      | some m =>
        simp only [Manifest.allocate] at h ⊢
        cases hp : w1.put F (segName m.next) (Obj.segment (d0 :: rest)) with
        | mk w2 res =>
          rw [hp] at h
          cases res with
          | err e => simpa using hb
          | ok u =>
            simp only at h ⊢
            split
            · simpa using hb
            · rename_i heq
              rw [heq] at h
              cases h

def c12Delta (k v t : Nat) : Delta := (k, RV.withValue [v] ⟨t, 1⟩)

/-- **Fixed defect C12:failed-flush-drops-buffer** (pinned commit; DESIGN §6.1): two accepted updates, the
    segment `put` of the flush fails; `flush` returns `Err` and the buffer is empty. -/
theorem failed_flush_drops_buffer_counterexample : ¬ C12_failed_flush_keeps_buffer false := by
  intro h
  have := h (fun n => if n = 1 then .fail else .ok) 100 (World.init [])
    { rid := 1, buffer := [c12Delta 97 1 5, c12Delta 98 2 6] } (by decide)
  revert this
  decide

/-- over whole runs of the repaired code no accepted update vanishes: it is confirmed or still
    pending -/
theorem no_update_vanishes (fl : Flags) (hr : fl.restoreBuffer = true) (F : Oracle) (rid : Nat)
    (ops : List Op) :
    ∀ d, d ∈ pushes ops →
      d ∈ (runWith fl F (Sys.init [] rid) ops).acked ∨ d ∈ (runWith fl F (Sys.init [] rid) ops).p.buffer := by
  have key : ∀ (ops : List Op) (s : Sys) (d : Delta),
      (d ∈ s.acked ∨ d ∈ s.p.buffer ∨ d ∈ pushes ops) →
      d ∈ (runWith fl F s ops).acked ∨ d ∈ (runWith fl F s ops).p.buffer := by
    intro ops
    induction ops with
    | nil =>
      intro s d h
      rcases h with h | h | h
      · exact Or.inl h
      · exact Or.inr h
      · cases h
    | cons o ops ih =>
      intro s d h
      show d ∈ (runWith fl F (stepWith fl F s o) ops).acked ∨ d ∈ (runWith fl F (stepWith fl F s o) ops).p.buffer
      apply ih
      cases o with
      | push e =>
        simp only [stepWith, push, pushes, List.filterMap_cons, Op.pushed?] at h ⊢
        rcases h with h | h | h
        · exact Or.inl h
        · exact Or.inr (Or.inl (List.mem_append.mpr (Or.inl h)))
        · rcases List.mem_cons.mp h with h | h
          · exact Or.inr (Or.inl (List.mem_append.mpr (Or.inr (by simp [h]))))
          · exact Or.inr (Or.inr h)
      | compact cfg sz =>
        simp only [stepWith, pushes, List.filterMap_cons, Op.pushed?] at h ⊢
        exact h
      | flush sz =>
        simp only [pushes, List.filterMap_cons, Op.pushed?] at h
        have hkeep := failed_flush_keeps_buffer F sz s.w s.p
        rw [← hr] at hkeep
        simp only [stepWith]
        split
        · rename_i w' p' a b heq
          rcases h with h | h | h
          · exact Or.inl (List.mem_append.mpr (Or.inl h))
          · exact Or.inl (List.mem_append.mpr (Or.inr h))
          · exact Or.inr (Or.inr h)
        · rename_i w' p' out hne heq
          rcases h with h | h | h
          · exact Or.inl h
          · refine Or.inr (Or.inl ?_)
            simp only
            cases out with
            | flushed a b => exact absurd rfl (hne a b)
            | error =>
              have := hkeep (by rw [heq])
              rw [heq] at this
              simp only at this
              rw [this]; exact h
            | empty =>
              -- `.empty` is only returned for an empty buffer
              unfold flushWith at heq
              cases hb : s.p.buffer with
              | nil => rw [hb] at h; cases h
              | cons d0 rest =>
                simp only [hb] at heq
                split at heq
                · cases heq
                · split at heq
                  · cases heq
                  · split at heq <;> cases heq
          · exact Or.inr (Or.inr h)
  intro d hd
  exact key ops (Sys.init [] rid) d (Or.inr (Or.inr hd))

/-! ## the compactor treats every `get` error as "segment missing" -/

/-- two flushed segments, then a compaction whose `get` of segment 0 (store call 9) fails
    transiently -/
def getFaultOps : List Op :=
  [.push (c12Delta 107 8 46), .flush 137, .push (c12Delta 233 9 48), .flush 127,
   .compact { target := 1048576, minSegs := 1, maxPer := 3, now := 0, ttlMs := 0 } 127]

def getFaultOracle : Oracle := fun n => if n = 9 then .fail else .ok

/-- **Fixed defect C12:compact:get-error-treated-as-missing** (pinned commit).  `Compactor::compact` mapped EVERY
    error of `store.get(segment)` to "missing": the segment is dropped from the new manifest and
    then deleted.  One transient read error loses a confirmed update. -/
theorem compact_get_fault_counterexample :
    c12Delta 107 8 46 ∈ (runWith pinned getFaultOracle (Sys.init [] 1) getFaultOps).acked ∧
    OkAnd (recover (runWith pinned getFaultOracle (Sys.init [] 1) getFaultOps).w.store 1)
      (fun r => r.updates = [c12Delta 233 9 48] ∧ ¬ Absorbed (c12Delta 107 8 46) (foldState r.updates)) := by
  decide

theorem C12_crash_consistent_pinned_false : ¬ C12_crash_consistent pinned := by
  intro h
  have h1 := (h 1 getFaultOracle getFaultOps (by decide) (by decide)).1
  have h2 := compact_get_fault_counterexample
  rw [okAnd_iff] at h1 h2
  obtain ⟨r, hr, habs⟩ := h1
  obtain ⟨hack, r', hr', _, hnot⟩ := h2
  rw [hr] at hr'
  cases hr'
  exact hnot (habs _ hack)

/-- with only `NotFound` marking a segment missing the same run keeps everything -/
example : OkAnd (recover (runWith { pinned with compact := { pinnedFlags with missingOnlyNotFound := true } }
      getFaultOracle (Sys.init [] 1) getFaultOps).w.store 1)
    (fun r => Absorbed (c12Delta 107 8 46) (foldState r.updates) ∧ Absorbed (c12Delta 233 9 48) (foldState r.updates)) := by
  decide


/-! ## the repaired code loses nothing confirmed, compaction included -/

/-- the repaired compactor: merge the deltas of a key; only `NotFound` marks a segment missing -/
def repairedCompact : CompactFlags := { mergeInsteadOfLatest := true, missingOnlyNotFound := true }

/-- run invariant: store invariant, listed content in the carrier, buffer in the carrier, every
    confirmed update in the carrier and absorbed by the folded content -/
def RunInv (c : Carrier) (s : Sys) : Prop :=
  StoreInv s.w.store ∧ InCar c (content s.w.store) ∧
  (∀ d ∈ s.p.buffer, RVCarrier.Car (c.U d.1) (c.kd d.1) d.2) ∧
  (∀ d ∈ s.acked, RVCarrier.Car (c.U d.1) (c.kd d.1) d.2 ∧
    ∃ u, NMap.get (foldState (content s.w.store)) d.1 = some u ∧ RV.merge d.2 u = u)

theorem runInv_step (c : Carrier) (restore : Bool) (F : Oracle) (s : Sys) (op : Op)
    (hop : op.gcFree = true ∧ ∀ d, op.pushed? = some d → RVCarrier.Car (c.U d.1) (c.kd d.1) d.2)
    (h : RunInv c s) :
    RunInv c (stepWith { restoreBuffer := restore, compact := repairedCompact } F s op) := by
  obtain ⟨hinv, hcar, hbuf, hack⟩ := h
  cases op with
  | push d =>
    refine ⟨hinv, hcar, ?_, hack⟩
    intro e he
    simp only [stepWith, push] at he
    rcases List.mem_append.mp he with he | he
    · exact hbuf e he
    · simp only [List.mem_singleton] at he
      subst he
      exact hop.2 e rfl
  | compact cfg sz =>
    have hgc : cfg.cutoff = 0 := by
      have := hop.1
      simpa [Op.gcFree] using this
    have hp := compact_fold_preserved c repairedCompact F cfg sz s.w hinv hcar
      (goodAcc_repaired repairedCompact rfl rfl F cfg hgc s.w hinv)
    refine ⟨(compact_spec repairedCompact F cfg sz s.w hinv).1, hp.2, hbuf, ?_⟩
    intro d hd
    simp only [stepWith]
    rw [hp.1]
    exact hack d hd
  | flush sz =>
    have hs := flush_spec restore F sz s.w s.p hinv
    simp only [stepWith]
    split
    · rename_i w' p' a b heq
      rw [heq] at hs
      simp only at hs
      obtain ⟨hinv', hcont, hbuf'⟩ := hs
      have hcar' : InCar c (content w'.store) := by
        intro q hq
        rcases (hcont q).mp hq with h | h
        · exact hcar q h
        · exact hbuf q h
      refine ⟨hinv', hcar', ?_, ?_⟩
      · intro e he; rw [hbuf'] at he; cases he
      · intro d hd
        rcases List.mem_append.mp hd with hd | hd
        · exact ⟨(hack d hd).1, absorbed_mono c hcar' (fun e he => (hcont e).mpr (Or.inl he)) (hack d hd).1 (hack d hd).2⟩
        · exact ⟨hbuf d hd, absorbed_of_mem_inCar c hcar' ((hcont d).mpr (Or.inr hd))⟩
    · rename_i w' p' out hne heq
      rw [heq] at hs
      simp only at hs
      cases out with
      | flushed a b => exact absurd rfl (hne a b)
      | empty =>
        simp only at hs
        obtain ⟨hinv', hcont, hp, _⟩ := hs
        refine ⟨hinv', by rw [hcont]; exact hcar, by rw [hp]; exact hbuf, ?_⟩
        intro d hd
        simp only
        rw [hcont]
        exact hack d hd
      | error =>
        simp only at hs
        obtain ⟨hinv', hcont, hb⟩ := hs
        refine ⟨hinv', by rw [hcont]; exact hcar, ?_, ?_⟩
        · intro e he
          rw [hb] at he
          cases restore
          · simp at he
          · simp only [if_true] at he; exact hbuf e he
        · intro d hd
          simp only
          rw [hcont]
          exact hack d hd

/-- **crash_consistent for the repaired code** (compactor: merge instead of keep-latest, only
    `NotFound` = missing; either `flush` variant): every workload of push / flush / compact whose
    pushed updates are coherent and whose compactions do no tombstone GC, every fault oracle
    hence every crash point: recovery succeeds, the manifest references only complete objects,
    and every update of every flush that returned `Ok` is absorbed by the recovered state. -/
theorem crash_consistent_repaired (restore : Bool) :
    C12_crash_consistent { restoreBuffer := restore, compact := repairedCompact } := by
  intro rid F ops hc hgc
  refine ⟨?_, (crash_consistent_structural _ F rid ops).2⟩
  let c := carrierOf (pushes ops) hc
  have hJ : RunInv c (runWith { restoreBuffer := restore, compact := repairedCompact } F (Sys.init [] rid) ops) := by
    apply TraceInv.run_inv_of (stepWith { restoreBuffer := restore, compact := repairedCompact } F) (RunInv c)
      (fun op => op.gcFree = true ∧ ∀ d, op.pushed? = some d → RVCarrier.Car (c.U d.1) (c.kd d.1) d.2)
      (fun s o ho hs => runInv_step c restore F s o ho hs)
    · refine ⟨storeInv_empty, ?_, ?_, ?_⟩
      · intro p hp; simp [Sys.init, World.init, content, manifestOf, Manifest.new, segDeltas] at hp
      · intro d hd; cases hd
      · intro d hd; cases hd
    · intro o ho
      refine ⟨hgc o ho, ?_⟩
      intro d hd
      exact inCar_of_coherent hc d (List.mem_filterMap.mpr ⟨o, ho, hd⟩)
  obtain ⟨hinv, hcar, _, hack⟩ := hJ
  obtain ⟨r, hr⟩ := recover_ok_of_storeInv hinv rid
  rw [okAnd_iff]
  refine ⟨r, hr, ?_⟩
  intro d hd
  have hfold : foldState r.updates = foldState (content (runWith { restoreBuffer := restore, compact := repairedCompact } F (Sys.init [] rid) ops).w.store) :=
    (foldState_eq_of_same_set_inCar c hcar (fun e => (recover_updates_of_storeInv hinv hr e).symm)).symm
  obtain ⟨u, hu, hm⟩ := (hack d hd).2
  unfold Absorbed
  rw [hfold, hu]
  exact hm


/-! ## the current tree -/

theorem current_is_repaired : current = { restoreBuffer := true, compact := repairedCompact } := rfl

/-- **crash_consistent, full statement, for the CURRENT tree** (`Stream.current`): every workload
    of push / flush / compact with coherent pushed updates and no tombstone GC, every fault
    oracle hence every crash point: recovery succeeds, the manifest references only complete
    objects, every update of every flush that returned `Ok` is absorbed by the recovered state. -/
theorem crash_consistent_current : C12_crash_consistent current := by
  rw [current_is_repaired]
  exact crash_consistent_repaired true

/-- **failed_flush_keeps_buffer for the CURRENT tree** (`Stream.flush`) -/
theorem failed_flush_keeps_buffer_current (F : Oracle) (sz : Nat) (w : World) (p : Pers)
    (h : (flush F sz w p).2.2 = .error) : (flush F sz w p).2.1.buffer = p.buffer :=
  failed_flush_keeps_buffer F sz w p h

/-- in the current tree no accepted update vanishes: it is confirmed or still pending -/
theorem no_update_vanishes_current (F : Oracle) (rid : Nat) (ops : List Op) :
    ∀ d, d ∈ pushes ops → d ∈ (run F (Sys.init [] rid) ops).acked ∨ d ∈ (run F (Sys.init [] rid) ops).p.buffer :=
  no_update_vanishes current rfl F rid ops

/-- the get-fault witness of the pinned commit loses nothing in the current tree -/
example : OkAnd (recover (run getFaultOracle (Sys.init [] 1) getFaultOps).w.store 1)
    (fun r => Absorbed (c12Delta 107 8 46) (foldState r.updates) ∧ Absorbed (c12Delta 233 9 48) (foldState r.updates)) := by
  decide


/-! ## read faults: the manifest never lists a segment that does not exist -/

/-- **manifest_segments_exist_after_compaction** — every code variant of the modelled compactor,
    every oracle incl. read corruption (`readCorrupt`: a `get` returns a body no parser accepts
    while the object at rest is intact), whatever the pass returned: every segment the manifest
    lists afterwards exists as a complete object (and recovery succeeds).  A segment whose read
    was mangled is skipped: it stays listed AND stays in the store. -/
theorem manifest_segments_exist_after_compaction (fl : CompactFlags) (F : Oracle) (cfg : CompactCfg)
    (sz : Nat) (w : World) (hinv : StoreInv w.store) (rid : Nat) :
    refsComplete (compactWith fl F cfg sz w).1.store = true ∧
    ∃ r, recover (compactWith fl F cfg sz w).1.store rid = .ok r :=
  ⟨refsComplete_of_storeInv (compact_spec fl F cfg sz w hinv).1,
   recover_ok_of_storeInv (compact_spec fl F cfg sz w hinv).1 rid⟩

/-- the seeded variant (A): the best-effort delete loop runs over the SELECTED segments instead
    of the ones that were actually read and merged -/
def compactDeleteSelected (F : Oracle) (cfg : CompactCfg) (sz : Nat) (w : World) : World × CompactOut :=
  let r := compact F cfg sz w
  match r.2 with
  | .compacted _ _ _ _ | .emptied _ _ =>
    (deleteAll F r.1 (selectSegments cfg (manifestOf w.store 0)), r.2)
  | _ => r

/-- three flushed segments; the read of segment 1 during the pass (store call 14) is mangled -/
def skipOps : List Op :=
  [.push (c12Delta 107 1 5), .flush 100, .push (c12Delta 108 2 6), .flush 100, .push (c12Delta 109 3 7), .flush 100]
def skipOracle : Oracle := fun n => if n = 14 then .readCorrupt else .ok
def skipCfg : CompactCfg := { target := 1000, minSegs := 2, maxPer := 5, now := 0, ttlMs := 0 }

/-- **delete-selected-instead-of-removed counterexample** (seed C12-compaction-deletes-skipped-
    segment-files): segment 1 is skipped by the pass (its read was mangled) and stays listed;
    the current tree keeps its object, the variant deletes it: the pass returns Ok, the manifest
    references a missing object, recovery fails, a confirmed update is gone. -/
theorem delete_selected_counterexample :
    (compact skipOracle skipCfg 100 (run (fun _ => .ok) (Sys.init [] 1) skipOps).w).2 = .compacted [0, 2] 3 2 0 ∧
    refsComplete (compact skipOracle skipCfg 100 (run (fun _ => .ok) (Sys.init [] 1) skipOps).w).1.store = true ∧
    OkAnd (recover (compact skipOracle skipCfg 100 (run (fun _ => .ok) (Sys.init [] 1) skipOps).w).1.store 1)
      (fun r => Absorbed (c12Delta 108 2 6) (foldState r.updates)) ∧
    refsComplete (compactDeleteSelected skipOracle skipCfg 100 (run (fun _ => .ok) (Sys.init [] 1) skipOps).w).1.store = false ∧
    ¬ OkAnd (recover (compactDeleteSelected skipOracle skipCfg 100 (run (fun _ => .ok) (Sys.init [] 1) skipOps).w).1.store 1)
      (fun _ => True) := by
  decide


/-! ## unlisted objects (orphans of failed flushes) -/

/-- the recovered state (`none`: recovery fails) -/
def recFold (st : Store) (rid : Nat) : Option (NMap RV) :=
  match recover st rid with
  | .ok r => some (foldState r.updates)
  | .error _ => none

/-- **compaction_never_adopts_unlisted_object** (current tree, no tombstone GC, every oracle): an
    object under an unreferenced name — e.g. the orphan `segment-N` a failed or crashed flush left
    behind, N being the id the compaction is about to allocate — has no influence on what the
    store recovers to after the pass: the segment written under id N holds the merged content
    whatever was there, and recovery equals recovery before the pass. -/
theorem compaction_never_adopts_unlisted_object (F : Oracle) (cfg : CompactCfg) (sz : Nat) (w : World)
    (rid : Nat) (hinv : StoreInv w.store) (hc : Coherent (content w.store)) (hgc : cfg.cutoff = 0)
    (n : Nat) (o : Obj) (hn : Unref w.store n) :
    recFold (compact F cfg sz { w with store := NMap.insert n o w.store }).1.store rid = recFold w.store rid := by
  have hfr := frame (agree_insert w.store n o) (fun k hk => by rw [hk]; exact hn) hinv
  have hc2 : Coherent (content (NMap.insert n o w.store)) := by rw [hfr.2]; exact hc
  let c := carrierOf (content (NMap.insert n o w.store)) hc2
  have hcar := inCar_of_coherent hc2
  have hp := compact_fold_preserved c repairedCompact F cfg sz { w with store := NMap.insert n o w.store } hfr.1 hcar
    (goodAcc_repaired repairedCompact rfl rfl F cfg hgc _ hfr.1)
  have hinv' := (compact_spec repairedCompact F cfg sz { w with store := NMap.insert n o w.store } hfr.1).1
  have key : ∀ (st : Store) (hi : StoreInv st) (hcr : InCar c (content st)),
      recFold st rid = some (foldState (content st)) := by
    intro st hi hcr
    obtain ⟨r, hr⟩ := recover_ok_of_storeInv hi rid
    unfold recFold
    rw [hr]
    simp only [Option.some.injEq]
    exact (foldState_eq_of_same_set_inCar c hcr (fun e => (recover_updates_of_storeInv hi hr e).symm)).symm
  have h1 := key _ hinv' hp.2
  have h2 := key w.store hinv (by rw [← hfr.2]; exact hcar)
  show recFold (compactWith repairedCompact F cfg sz _).1.store rid = _
  rw [h1, h2, hp.1, hfr.2]

/-- the seeded variant: the upload of the compacted segment is skipped when an object already
    exists under its name ("a retry finds it already uploaded") -/
def compactSkipUploadIfExists (F : Oracle) (cfg : CompactCfg) (sz : Nat) (w : World) : World × CompactOut :=
  match loadOrCreate F w 0 with
  | (w1, none) => (w1, .error)
  | (w1, some m) =>
    let sel := selectSegments cfg m
    if sel.length < cfg.minSegs then (w1, .nothing) else
    let r := loadLoop current.compact F w1 LoadAcc.init sel
    let acc := r.2
    if acc.failed then (r.1, .error) else
    let ids := acc.actually.map (·.id)
    let kept := keptOf cfg acc.ktd
    if kept.isEmpty then (r.1, .nothing) else
    let deltas := sortBy (fun d : Delta => d.2.ts.time) kept
    let id := m.next
    -- `if !store.exists(key)? { store.put(key, data)? }`
    let up : World × Res Unit :=
      match r.1.probe F (segName id) with
      | (w2, .ok true) => (w2, .ok ())
      | (w2, .ok false) => w2.put F (segName id) (.segment deltas)
      | (w2, .err e) => (w2, .err e)
    match up with
    | (w3, .err _) => (w3, .error)
    | (w3, .ok _) =>
      let info : SegInfo :=
        { id := id, count := deltas.length, size := sz, minTs := minTime deltas, maxTs := maxTime deltas }
      let m' : Manifest :=
        { ({ m with segments := removeIds m ids } : Manifest).addSegment info with next := id + 1 }
      match saveManifest F w3 m' with
      | (w4, false) => (w4, .error)
      | (w4, true) => (deleteAll F w4 acc.actually, .compacted ids id deltas.length 0)

/-- flush A ok, flush B ok, flush C: the segment put succeeds, the manifest temp put (store call
    10) fails — segment-00000002 stays behind as an unlisted orphan holding only C's update -/
def orphanOps : List Op :=
  [.push (c12Delta 107 1 5), .flush 100, .push (c12Delta 108 2 6), .flush 100, .push (c12Delta 109 3 7), .flush 100]
def orphanOracle : Oracle := fun n => if n = 10 then .fail else .ok
def orphanCfg : CompactCfg := { target := 1000, minSegs := 2, maxPer := 5, now := 0, ttlMs := 0 }

/-- **skip_upload_if_exists_counterexample** (seed C12-compaction-skips-upload-if-key-exists):
    the current compaction overwrites the orphan and recovery keeps A and B; the variant adopts
    the orphan as the compacted segment: every object validates, recovery succeeds — and returns
    only the UNCONFIRMED update of the failed flush; A and B, both confirmed, are gone. -/
theorem skip_upload_if_exists_counterexample :
    (run orphanOracle (Sys.init [] 1) orphanOps).acked = [c12Delta 107 1 5, c12Delta 108 2 6] ∧
    NMap.get (run orphanOracle (Sys.init [] 1) orphanOps).w.store (segName 2) = some (.segment [c12Delta 109 3 7]) ∧
    recFold (compact (fun _ => .ok) orphanCfg 100 (run orphanOracle (Sys.init [] 1) orphanOps).w).1.store 1
      = some [c12Delta 107 1 5, c12Delta 108 2 6] ∧
    refsComplete (compactSkipUploadIfExists (fun _ => .ok) orphanCfg 100 (run orphanOracle (Sys.init [] 1) orphanOps).w).1.store = true ∧
    recFold (compactSkipUploadIfExists (fun _ => .ok) orphanCfg 100 (run orphanOracle (Sys.init [] 1) orphanOps).w).1.store 1
      = some [c12Delta 109 3 7] := by
  decide

/-! ## non-vacuity -/

/-- a run with a torn segment put (call 5), a later successful flush and a compaction: the
    hypotheses hold and something is confirmed -/
def exOps : List Op :=
  [.push (c12Delta 97 1 5), .flush 100, .push (c12Delta 98 2 6), .flush 100, .push (c12Delta 97 3 7),
   .flush 100, .compact { target := 1000, minSegs := 2, maxPer := 5, now := 0, ttlMs := 0 } 150]

def exOracle : Oracle := fun n => if n = 5 then .failPartial else .ok

example : Coherent (pushes exOps) ∧ (∀ o ∈ exOps, o.gcFree = true) ∧
    (runWith pinned exOracle (Sys.init [] 1) exOps).acked.length = 2 ∧
    NoCompaction (exOps.take 6) ∧ ¬ NoCompaction exOps ∧
    NMap.get (runWith pinned exOracle (Sys.init [] 1) (exOps.take 4)).w.store (segName 1) = some .torn ∧
    OkAnd (recover (runWith pinned exOracle (Sys.init [] 1) exOps).w.store 1)
      (fun r => foldState r.updates = [c12Delta 97 3 7]) := by
  decide

end C12
end RedisVerif
