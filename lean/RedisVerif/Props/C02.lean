import RedisVerif.Model.Actors
import RedisVerif.Model.Shards
import RedisVerif.Model.ShardsStr
import RedisVerif.Lemmas.Actors
import RedisVerif.Lemmas.Shards
import RedisVerif.Lemmas.ShardsStr
import RedisVerif.Lemmas.ActorsKey
import RedisVerif.Props.C03
import RedisVerif.Model.ShardsClock

/-!
# C02 — Concurrent clients on one node see a linearizable per-key history

Model: `RedisVerif.Actors` (`Model/Actors.lean`): any number of shard actors with FIFO mailboxes
and an executor state, any number of clients each idle or waiting on one request with a response
slot (oneshot channel or pooled `ResponseSlot` with acquire / release / reuse); transitions
`invoke` (enqueue at the request's shard), `exec` (a shard actor pops the head of its mailbox, runs
the executor, writes the response into THAT message's slot), `ret` (the client takes the value and
releases or drops the slot).  Histories are lists of invocation / response events; linearizability
is stated in its linearization-point form (`Actors.Linearizable`: points can be inserted, each
between invocation and response of its operation, such that replaying them on the sequential
specification yields exactly the observed responses).

* `linearizable` — every finite execution (every interleaving, any number of shards, clients and
  slots) induces a linearizable history w.r.t. the executor the system runs, with the order of
  the `exec` steps as witness (the ghost log of the system IS a valid log).
* `exec_between_inv_and_ret` — in that log every `exec` lies after the invocation and before the
  response of its operation, and the response carries what `exec` computed.
* `reply_to_requester`, `pooled_slot_unreferenced` — slot discipline: whatever a waiting client
  finds in its slot is the response computed for ITS request; a pooled slot is referenced by no
  message in flight.  Executions include clients that ABANDON an in-flight request (`Step.abandon`:
  the slot leaks, as in the code; the operation stays pending in the history).
* `seeded_abandon_counterexample` — if abandoning returned the slot to the pool (`StepSeeded`, the
  seeded RAII guard) a client receives the response of somebody else's request.
* `linearizable_single_store` — instantiated with the sharding layer (`Shards.execN`) under
  consistent routing: linearizable w.r.t. ONE executor on ONE store (`per_key_single_shard`: all
  operations on a key go to one shard — C03's refinement).
* `per_key_linearizable_partial` — hence every key's sub-history is linearizable w.r.t. one
  executor started on the empty store.  Hypotheses: locality of the executor, consistent routing.
* `batched_items_linearizable` — the batched path (`Step.invokeBatch`; every item of a
  `fast_batch_get/set_pipeline` call is one single-key operation inside the call's interval).
* `lin_check_sound` — the executable per-key checker run on observed histories accepts only
  per-key linearizable histories.
* `C02_statement_repaired` is the statement about the code as it is since fix 872671c.
* `C02_statement_pinned_counterexample` — with the pinned routing hashes (before that fix) a sequential run
  `fast_set k v; GET k` of the model is not linearizable (replayed on the real code by the harness).
-/
namespace RedisVerif
namespace C02

open Actors Shards NMap

/-! ## the checker run by the driver -/

/-- the sequential specification the checker uses: ONE executor (the small concrete one) -/
def specStep (s : Str.St) (c : Cmd Str.sig) : Str.St × Reply := Str.exec.exec s c

def keyOf (c : Cmd Str.sig) : Nat := cmdKey c

abbrev History := List (Ev (Cmd Str.sig) Reply)

/-- the verified per-key linearizability checker run on observed histories -/
def checkLin (h : History) : Bool := Actors.checkLin specStep keyOf [] h

/-- **the checker is sound** -/
theorem lin_check_sound (h : History) (hc : checkLin h = true) :
    PerKeyLinearizable specStep keyOf [] h :=
  Actors.lin_check_sound specStep keyOf [] h hc

/-- non-vacuity: a concurrent history (a GET overlapping a SET, answered with the OLD value, then a
    GET answered with the new one) is accepted; a stale read after the SET has returned is not -/
example : checkLin [.inv 1 (.single 7 (.set [49])), .inv 2 (.single 7 .get), .res 2 (.one .nil),
    .res 1 (.one .ok), .inv 5 (.fastGet 7), .res 5 (.one (.bulk [49]))] = true := by decide

example : checkLin [.inv 1 (.single 7 (.set [49])), .res 1 (.one .ok), .inv 3 (.single 7 .get),
    .res 3 (.one .nil)] = false := by decide

/-! ## the transition system -/

section system
variable {σ Req Resp : Type} [DecidableEq Resp] (step : σ → Req → σ × Resp) (route : Req → Nat)
  (s0 : σ)

/-- **every execution is linearizable**: for every finite execution of the transition system —
    every interleaving of client, shard-actor and scheduler steps, any number of shards, clients
    and slots — the induced history is linearizable w.r.t. the executor the shards run; the
    linearization points are the `exec` steps -/
theorem linearizable {pool : Nat} {s : Sys σ Req Resp} (hr : Reach step route s0 pool s) :
    ValidLog step s0 s.log ∧ Linearizable step s0 (history s.log) := by
  obtain ⟨r, hi⟩ := reach_inv step route s0 hr
  have hv : ValidLog step s0 s.log := by unfold ValidLog; rw [hi.rep]; rfl
  exact ⟨hv, s.log, rfl, hv⟩

/-- **each `exec` step lies between the invocation and the response of its operation** (and the
    response delivered is the one computed there) -/
theorem exec_between_inv_and_ret {pool : Nat} {s : Sys σ Req Resp} (hr : Reach step route s0 pool s) :
    (∀ pre post id resp, s.log = pre ++ .lin id resp :: post → ∃ req, (.inv id req) ∈ pre) ∧
    (∀ pre post id resp, s.log = pre ++ .res id resp :: post → (.lin id resp) ∈ pre) := by
  have hv := (linearizable step route s0 hr).1
  exact ⟨fun pre post id resp e => lin_after_inv step s0 pre post id resp (e ▸ hv),
         fun pre post id resp e => res_after_lin step s0 pre post id resp (e ▸ hv)⟩

/-- **slot discipline**: a waiting client that finds a value in its slot finds the response that
    the shard actor computed for ITS request (same id) — although slots are pooled and reused -/
theorem reply_to_requester {pool : Nat} {s : Sys σ Req Resp} (hr : Reach step route s0 pool s)
    (c id : Nat) (req : Req) (sid : Nat) (resp : Resp)
    (hc : s.client c = .waiting id req sid) (hs : s.slot sid = some resp) :
    (.inv id req) ∈ s.log ∧ (.lin id resp) ∈ s.log ∧ sid ∉ s.pool := by
  obtain ⟨r, hi⟩ := reach_inv step route s0 hr
  obtain ⟨_, _, h3, h4, h5⟩ := hi.cl c id req sid hc
  rcases h5 with ⟨_, b2, _⟩ | ⟨_, resp', b2, _, b4⟩
  · rw [hs] at b2; cases b2
  · rw [hs] at b2; injection b2 with e; subst e; exact ⟨h4, b4, h3⟩

/-- … and a slot in the pool is referenced by no message in flight — also not by the queued
    message of a client that has ABANDONED its request (the code leaks that slot) -/
theorem pooled_slot_unreferenced {pool : Nat} {s : Sys σ Req Resp} (hr : Reach step route s0 pool s)
    (i : Nat) (m : Msg Req) (hm : m ∈ s.mail i) : m.slot ∉ s.pool := by
  obtain ⟨r, hi⟩ := reach_inv step route s0 hr
  exact (hi.msg i m hm).2.2.2.1

end system

/-! ## time: deadlines, and a clock in the specification -/

section timed
open Shards.Clock

/-- a timed single-key request: (virtual time of the invocation, (key, operation)) -/
abbrev TReq := Nat × (Key × KOp)

/-- the timed sequential specification used by the checker: `specAt` of the per-key spec -/
def specStepT : NMap Entry → TReq → NMap Entry × R1 := specAt specKeyAt

abbrev THistory := List (Ev TReq R1)

/-- the verified per-key checker on timed histories -/
def checkLinT (h : THistory) : Bool := Actors.checkLin specStepT (fun p => p.2.1) [] h

theorem lin_check_timed_sound (h : THistory) (hc : checkLinT h = true) :
    PerKeyLinearizable specStepT (fun p => p.2.1) [] h :=
  Actors.lin_check_sound specStepT (fun p => p.2.1) [] h hc

/-- **the timed variant of `linearizable`**: clients stamp every message with the virtual time of
    its invocation and the shard adopts it before executing (`execNT … allCarry`); every finite
    execution of the actor system is linearizable w.r.t. that timed executor -/
theorem linearizable_timed (R : Routes) (route : Nat × TCmd → Nat) {pool : Nat}
    {s : Sys (List TShard) (Nat × TCmd) (List R1)}
    (hr : Reach (specAt (fun now st c => execNT R allCarry now st c)) route (tinit R.N) pool s) :
    ValidLog (specAt (fun now st c => execNT R allCarry now st c)) (tinit R.N) s.log ∧
    Linearizable (specAt (fun now st c => execNT R allCarry now st c)) (tinit R.N) (history s.log) :=
  linearizable _ route _ hr

/-- the seed C02-pooled-get-no-sweep-and-no-probe, as a history: `SET k v PX 100` invoked and
    answered at t = 0; a read of `k` invoked at t = 500 answers `v` -/
def staleReadOps : List (Nat × TReq × R1) :=
  [(0, (0, (7, .setPx [118] 100)), .ok), (1, (500, (7, .get)), .bulk [118])]

/-- **a read invoked after the deadline that returns the value is not linearizable**: the
    operation would have to take effect before its own invocation -/
theorem stale_read_not_linearizable :
    ¬ Linearizable specStepT ([] : NMap Entry) (seqHist staleReadOps) := by
  intro h
  have := seq_lin_legal specStepT [] staleReadOps h
  exact absurd this.2.1 (by decide)

/-- the checker rejects it, and accepts the same history with the correct reply -/
example : checkLinT (seqHist staleReadOps) = false := by decide
example : checkLinT (seqHist [(0, (0, (7, .setPx [118] 100)), .ok), (1, (99, (7, .get)), .bulk [118]),
    (2, (100, (7, .get)), .nil)]) = true := by decide

end timed

/-! ## the discipline matters: abandoning with release (the seeded RAII guard) -/

section seeded

/-- an executor that answers every request with the request itself -/
def echo (s : Unit) (req : Nat) : Unit × Nat := (s, req)

def seededInit : Sys Unit Nat Nat := Sys.init () 1

/-- one pooled slot, one shard.  Client 0 sends request 10 and gives up while it is queued — the
    guard puts slot 0 back into the pool; client 1 sends request 20 and is handed the same slot;
    the shard executes request 10 and writes its answer into slot 0 -/
theorem seeded_reach : ∃ s, ReachSeeded echo (fun _ => 0) () 1 s ∧
    s.client 1 = .waiting 1 20 0 ∧ s.slot 0 = some 10 ∧ s.log = [.inv 0 10, .inv 1 20, .lin 0 10] := by
  have r0 : ReachSeeded echo (fun _ => 0) () 1 seededInit := ReachSeeded.init
  have r1 := ReachSeeded.step r0 (.base (Step.invokePooled seededInit 0 10 0 [] rfl rfl))
  have r2 := ReachSeeded.step r1 (.abandonRelease _ 0 0 10 0 rfl)
  have r3 := ReachSeeded.step r2 (.base (Step.invokePooled _ 1 20 0 [] rfl rfl))
  have r4 := ReachSeeded.step r3 (.base (Step.exec _ 0 ⟨0, 0, 10⟩ [⟨1, 0, 20⟩] rfl))
  exact ⟨_, r4, rfl, rfl, rfl⟩

/-- **with the seeded discipline `reply_to_requester` fails**: client 1, waiting for the answer to
    request 20 (id 1), finds in its slot the answer 10 that was computed for request id 0 — the log
    contains no `lin 1 10` — and its slot is referenced by a message in flight while pooled slots
    are being handed out -/
theorem seeded_abandon_counterexample :
    ∃ (s : Sys Unit Nat Nat) (c id req sid resp : Nat),
      ReachSeeded echo (fun _ => 0) () 1 s ∧ s.client c = .waiting id req sid ∧
      s.slot sid = some resp ∧ (.lin id resp) ∉ s.log ∧ resp ≠ (echo () req).2 := by
  obtain ⟨s, hr, h1, h2, h3⟩ := seeded_reach
  refine ⟨s, 1, 1, 20, 0, 10, hr, h1, h2, ?_, by decide⟩
  rw [h3]; decide

/-- … and delivering it yields a history that is not linearizable: request 20 answered 10 -/
theorem seeded_history_not_linearizable :
    ¬ Linearizable echo () (seqHist [(1, 20, 10)] : List (Ev Nat Nat)) := by
  intro h
  have := seq_lin_legal echo () [(1, 20, 10)] h
  exact absurd this.1 (by decide)

/-- non-vacuity of the theorems for executions WITH an abandon (the code's discipline): client 0
    gives up on request 10 while it is queued, its slot leaks; client 1 is handed a FRESH slot, the
    shard answers both messages, client 1 gets its own answer; request 10 stays pending -/
theorem abandon_reach : ∃ s, Reach echo (fun _ => 0) () 1 s ∧ s.pool = [] ∧
    history s.log = [.inv 0 10, .inv 1 20, .res 1 20] := by
  have r0 : Reach echo (fun _ => 0) () 1 seededInit := Reach.init
  have r1 := Reach.step r0 (Step.invokePooled seededInit 0 10 0 [] rfl rfl)
  have r2 := Reach.step r1 (Step.abandon _ 0 0 10 0 rfl)
  have r3 := Reach.step r2 (Step.invokeFresh _ 1 20 rfl)
  have r4 := Reach.step r3 (Step.exec _ 0 ⟨0, 0, 10⟩ [⟨1, 1, 20⟩] rfl)
  have r5 := Reach.step r4 (Step.exec _ 0 ⟨1, 1, 20⟩ [] rfl)
  have r6 := Reach.step r5 (Step.retDrop _ 1 1 20 1 20 rfl rfl)
  exact ⟨_, r6, rfl, rfl⟩

example : Linearizable echo () ([.inv 0 10, .inv 1 20, .res 1 20] : List (Ev Nat Nat)) := by
  obtain ⟨s, hr, _, hh⟩ := abandon_reach
  rw [← hh]
  exact (linearizable echo (fun _ => 0) () hr).2

end seeded

/-! ## the sharding layer as the system's executor -/

section sharded
variable {S : Sig} {E : Exec S}

/-- one single-key request on consistently routed shards = the same request on one store -/
theorem single_key_refine (hL : E.Local) (R : Routes) (fixed : Bool) (hv : R.Valid) (hN : 0 < R.N)
    (hc : Consistent R fixed) {st : Shards S.Val} (h : Inv R st) (c : Cmd S) (hs : SingleKey c = true) :
    Inv R (execN E R fixed st c).1 ∧ abs (execN E R fixed st c).1 = (E.exec (abs st) c).1 ∧
    (execN E R fixed st c).2 = (E.exec (abs st) c).2 := by
  cases c with
  | single k op =>
    exact C03.routePrimary_refine hL hv hN hc h (.single k op) rfl
      (by intro k0 hk0 k' hk'
          have e1 : k = k0 := by simpa [primaryKey] using hk0
          have e2 : k' = k := by simpa [keyList] using hk'
          rw [e2, e1])
      (by intro hp; simp [primaryKey] at hp)
  | fastGet k => exact refine_keyed hL h (.fastGet k) rfl (R.bytes k) (hv k).2 (by simp [keyList])
  | fastSet k v => exact refine_keyed hL h (.fastSet k v) rfl (R.bytes k) (hv k).2 (by simp [keyList])
  | batchGet ks =>
    -- one item of a batched GET: grouped by `hash_key_bytes`, asked at its own shard
    obtain ⟨x1, x2, x3⟩ := C03.shards_refine_single hL R fixed hv hN hc h (.batchGet ks) rfl
    refine ⟨x1, x2, ?_⟩
    have : C03.replyEqv (.many (gatherN E R.N R.bytes st .batchGet ks))
        (.many (ks.map (getDirect E (abs st)))) = true := x3
    have e : gatherN E R.N R.bytes st .batchGet ks = ks.map (getDirect E (abs st)) := by
      simpa [C03.replyEqv] using this
    show Reply.many (gatherN E R.N R.bytes st .batchGet ks) = Reply.many (ks.map (getDirect E (abs st)))
    rw [e]
  | batchSet kvs =>
    obtain ⟨x1, x2, _⟩ := C03.shards_refine_single hL R fixed hv hN hc h (.batchSet kvs) rfl
    exact ⟨x1, x2, rfl⟩
  | mget ks =>
    -- one item of a generic MGET
    obtain ⟨x1, x2, x3⟩ := C03.shards_refine_single hL R fixed hv hN hc h (.mget ks) rfl
    refine ⟨x1, x2, ?_⟩
    have : C03.replyEqv (.many (gatherN E R.N (R.gen fixed) st .mget ks))
        (.many (ks.map (mgetSlot E (abs st)))) = true := x3
    have e : gatherN E R.N (R.gen fixed) st .mget ks = ks.map (mgetSlot E (abs st)) := by
      simpa [C03.replyEqv] using this
    show Reply.many (gatherN E R.N (R.gen fixed) st .mget ks) = Reply.many (ks.map (mgetSlot E (abs st)))
    rw [e]
  | mset kvs =>
    obtain ⟨x1, x2, _⟩ := C03.shards_refine_single hL R fixed hv hN hc h (.mset kvs) rfl
    exact ⟨x1, x2, rfl⟩
  | del ks =>
    match ks, hs with
    | [k], _ =>
      obtain ⟨x1, x2, x3⟩ := C03.shards_refine_single hL R fixed hv hN hc h (.del [k]) rfl
      refine ⟨x1, x2, ?_⟩
      have e1 : execN E R fixed st (.del [k]) = routePrimary E R fixed st (.del [k]) := rfl
      have e2 : (E.exec (abs st) (.del [k])).2 = Reply.one (.int (delKeys (abs st) [k]).2) := rfl
      rw [e2] at x3 ⊢
      cases hrep : (execN E R fixed st (.del [k])).2 <;> rw [hrep] at x3 <;>
        simp [C03.replyEqv] at x3 <;> first | (rw [x3]) | (exact absurd x3 (by simp))
  | _ => simp [SingleKey] at hs

/-- **linearizable w.r.t. ONE store**: clients drive the sharding layer (`execN`: the request goes
    to the mailbox of the key's shard and is executed there); if routing is consistent, every
    execution's history is linearizable w.r.t. a single executor on a single store -/
theorem linearizable_single_store (hL : E.Local) (R : Routes) (fixed : Bool) (hv : R.Valid)
    (hN : 0 < R.N) (hc : Consistent R fixed) {pool : Nat}
    {s : Sys (Shards S.Val) (Cmd S) Reply}
    (hr : Reach (execN E R fixed) (cmdShard R fixed) (Shards.init S.Val R.N) pool s)
    (hsk : ∀ id req, (.inv id req) ∈ s.log → SingleKey req = true) :
    ValidLog E.exec ([] : Store S.Val) s.log := by
  obtain ⟨hvl, _⟩ := linearizable (execN E R fixed) (cmdShard R fixed) (Shards.init S.Val R.N) hr
  unfold ValidLog at hvl ⊢
  cases hrep : replay (execN E R fixed) (initR (Shards.init S.Val R.N)) s.log with
  | none => rw [hrep] at hvl; cases hvl
  | some rA =>
    obtain ⟨rB, hb, _⟩ := replay_sim (execN E R fixed) E.exec
      (fun st a => Inv R st ∧ abs st = a) (fun c => SingleKey c = true)
      (by intro st a req ⟨hi, ha⟩ hok
          obtain ⟨x1, x2, x3⟩ := single_key_refine hL R fixed hv hN hc hi req hok
          subst ha
          exact ⟨⟨x1, x2⟩, x3⟩)
      s.log (initR (Shards.init S.Val R.N)) rA (initR ([] : Store S.Val))
      ⟨inv_init R, abs_init R.N⟩ rfl rfl rfl (by intro p hp; cases hp) hsk hrep
    rw [hb]; rfl

/-- **C02, proved form**: every key's sub-history of every execution is linearizable w.r.t. one
    executor started on the empty store.  Hypotheses: locality of the executor; consistent routing
    (unconditional for the repaired routing, `RouteConsistent` for the pinned one); the requests
    are single-key commands. -/
theorem per_key_linearizable_partial (hL : E.Local) (R : Routes) (fixed : Bool) (hv : R.Valid)
    (hN : 0 < R.N) (hc : Consistent R fixed) {pool : Nat}
    {s : Sys (Shards S.Val) (Cmd S) Reply}
    (hr : Reach (execN E R fixed) (cmdShard R fixed) (Shards.init S.Val R.N) pool s)
    (hsk : ∀ id req, (.inv id req) ∈ s.log → SingleKey req = true) :
    PerKeyLinearizable E.exec cmdKey ([] : Store S.Val) (history s.log) :=
  perKey_of_valid hL s.log (linearizable_single_store hL R fixed hv hN hc hr hsk) hsk

/-- the repaired routing needs no hypothesis on the hash functions -/
theorem per_key_linearizable_repaired (hL : E.Local) (R : Routes) (hv : R.Valid) (hN : 0 < R.N)
    {pool : Nat} {s : Sys (Shards S.Val) (Cmd S) Reply}
    (hr : Reach (execN E R true) (cmdShard R true) (Shards.init S.Val R.N) pool s)
    (hsk : ∀ id req, (.inv id req) ∈ s.log → SingleKey req = true) :
    PerKeyLinearizable E.exec cmdKey ([] : Store S.Val) (history s.log) :=
  per_key_linearizable_partial hL R true hv hN (consistent_fixed R) hr hsk

/-- **the batched path**: executions in which clients issue batched calls (`Step.invokeBatch`: the
    items of `fast_batch_get_pipeline` / `fast_batch_set_pipeline` posted together, each routed by
    `hash_key_bytes` to its own shard) next to generic / fast / pooled requests on the same keys —
    every key's sub-history, with every batched ITEM as one single-key operation, is linearizable.
    (It is `per_key_linearizable_repaired`: `Reach` quantifies over `invokeBatch` steps too and
    `SingleKey` admits the items `.batchGet [k]`, `.batchSet [(k, v)]`.) -/
theorem batched_items_linearizable (hL : E.Local) (R : Routes) (hv : R.Valid) (hN : 0 < R.N)
    {pool : Nat} {s : Sys (Shards S.Val) (Cmd S) Reply}
    (hr : Reach (execN E R true) (cmdShard R true) (Shards.init S.Val R.N) pool s)
    (hsk : ∀ id req, (.inv id req) ∈ s.log → SingleKey req = true) :
    ValidLog E.exec ([] : Store S.Val) s.log ∧
    PerKeyLinearizable E.exec cmdKey ([] : Store S.Val) (history s.log) :=
  ⟨linearizable_single_store hL R true hv hN (consistent_fixed R) hr hsk,
   per_key_linearizable_repaired hL R hv hN hr hsk⟩

/-- **C02, full strength** (kept visible): the same without any hypothesis on the routing, for
    the routing with the given flag -/
def C02_statement (E : Exec S) (fixed : Bool) : Prop :=
  ∀ (R : Routes), R.Valid → 0 < R.N → ∀ (pool : Nat) (s : Sys (Shards S.Val) (Cmd S) Reply),
    Reach (execN E R fixed) (cmdShard R fixed) (Shards.init S.Val R.N) pool s →
    (∀ id req, (.inv id req) ∈ s.log → SingleKey req = true) →
    PerKeyLinearizable E.exec cmdKey ([] : Store S.Val) (history s.log)

end sharded

/-- the repaired routing satisfies the full statement for every local executor -/
theorem C02_statement_repaired {S : Sig} (E : Exec S) (hL : E.Local) :
    C02_statement E true :=
  fun R hv hN _ _ hr hsk => per_key_linearizable_repaired hL R hv hN hr hsk

/-! ## non-vacuity of `per_key_linearizable_partial` -/

section nonvacuous
open Shards.Str

/-- a two-shard system with consistent hashes (`C03.exRoutes`: key 3 lives on shard 1), pooled
    slots, two clients whose requests overlap: client 0 invokes `fast_set 3 "b"`, client 1
    invokes `GET 3` before that is executed, shard 1 executes both in mailbox order, both return -/
theorem nonvacuous_reach : ∃ s, Reach (execN Str.exec C03.exRoutes true)
      (cmdShard C03.exRoutes true) (Shards.init SVal 2) 2 s ∧
    history s.log = [.inv 0 (.fastSet 3 [98]), .inv 1 (.single 3 .get), .res 1 (.one (.bulk [98])),
      .res 0 (.one .ok)] := by
  have r0 : Reach (execN Str.exec C03.exRoutes true) (cmdShard C03.exRoutes true)
      (Shards.init SVal 2) 2 (Sys.init (Shards.init SVal 2) 2) := Reach.init
  have r1 := Reach.step r0 (Step.invokePooled _ 0 (.fastSet 3 [98]) 0 [1] rfl rfl)
  have r2 := Reach.step r1 (Step.invokePooled _ 1 (.single 3 .get) 1 [] rfl rfl)
  have r3 := Reach.step r2 (Step.exec _ 1 ⟨0, 0, .fastSet 3 [98]⟩ [⟨1, 1, .single 3 .get⟩] rfl)
  have r4 := Reach.step r3 (Step.exec _ 1 ⟨1, 1, .single 3 .get⟩ [] rfl)
  have r5 := Reach.step r4 (Step.retRelease _ 1 1 (.single 3 .get) 1 _ rfl rfl)
  have r6 := Reach.step r5 (Step.retRelease _ 0 0 (.fastSet 3 [98]) 0 _ rfl rfl)
  exact ⟨_, r6, rfl⟩

example : ∃ s : Sys (Shards SVal) (Cmd Str.sig) Reply,
    history s.log ≠ [] ∧ PerKeyLinearizable Str.exec.exec cmdKey ([] : St) (history s.log) := by
  obtain ⟨s, hr, hh⟩ := nonvacuous_reach
  refine ⟨s, by rw [hh]; simp, ?_⟩
  apply per_key_linearizable_repaired Str.exec_local C03.exRoutes C03.exRoutes_valid (by decide) hr
  intro id req hm
  have : (.inv id req) ∈ history s.log := mem_history_of_inv s.log id req hm
  rw [hh] at this
  simp only [List.mem_cons, List.not_mem_nil, or_false] at this
  rcases this with e | e | e | e
  · injection e with _ e2; subst e2; rfl
  · injection e with _ e2; subst e2; rfl
  · cases e
  · cases e

/-- a batched SET of keys 1 and 3 (shards 0 and 1 of `C03.exRoutes`: a batch per shard) by one
    caller, a fast SET of key 3 by another client queued behind it, then a batched GET of key 3:
    it answers the newer value -/
theorem batch_reach : ∃ s, Reach (execN Str.exec C03.exRoutes true)
      (cmdShard C03.exRoutes true) (Shards.init SVal 2) 0 s ∧
    history s.log = [.inv 0 (.batchSet [(1, [111])]), .inv 1 (.batchSet [(3, [111])]),
      .inv 2 (.fastSet 3 [110]), .res 0 (.many [.ok]), .res 1 (.many [.ok]), .res 2 (.one .ok),
      .inv 3 (.batchGet [3]), .res 3 (.many [.bulk [110]])] := by
  have r0 : Reach (execN Str.exec C03.exRoutes true) (cmdShard C03.exRoutes true)
      (Shards.init SVal 2) 0 (Sys.init (Shards.init SVal 2) 0) := Reach.init
  have r1 := Reach.step r0 (Step.invokeBatch _ [(10, .batchSet [(1, [111])]), (11, .batchSet [(3, [111])])]
    (by intro p _; rfl) (by decide))
  have r2 := Reach.step r1 (Step.invokeFresh _ 0 (.fastSet 3 [110]) rfl)
  have r3 := Reach.step r2 (Step.exec _ 0 ⟨0, 0, .batchSet [(1, [111])]⟩ [] rfl)
  have r4 := Reach.step r3 (Step.exec _ 1 ⟨1, 1, .batchSet [(3, [111])]⟩ [⟨2, 2, .fastSet 3 [110]⟩] rfl)
  have r5 := Reach.step r4 (Step.exec _ 1 ⟨2, 2, .fastSet 3 [110]⟩ [] rfl)
  have r6 := Reach.step r5 (Step.retDrop _ 10 0 (.batchSet [(1, [111])]) 0 _ rfl rfl)
  have r7 := Reach.step r6 (Step.retDrop _ 11 1 (.batchSet [(3, [111])]) 1 _ rfl rfl)
  have r8 := Reach.step r7 (Step.retDrop _ 0 2 (.fastSet 3 [110]) 2 _ rfl rfl)
  have r9 := Reach.step r8 (Step.invokeBatch _ [(10, .batchGet [3])]
    (by intro p hp; have : p = (10, .batchGet [3]) := by simpa using hp
        subst this; rfl) (by decide))
  have r10 := Reach.step r9 (Step.exec _ 1 ⟨3, 3, .batchGet [3]⟩ [] rfl)
  have r11 := Reach.step r10 (Step.retDrop _ 10 3 (.batchGet [3]) 3 _ rfl rfl)
  exact ⟨_, r11, rfl⟩

end nonvacuous

/-! ## the pinned routing violates the full statement -/

section counterexample
open Shards.Str

/-- one client, two operations one after the other: `fast_set 1 "h"` then generic `GET 1` -/
def cexOps : List (Nat × Cmd Str.sig × Reply) :=
  [(0, .fastSet 1 [104], .one .ok), (1, .single 1 .get, .one .nil)]

def cexInit : Sys (Shards SVal) (Cmd Str.sig) Reply := Sys.init (Shards.init SVal 2) 0

/-- the execution: invoke, exec on shard `hash_key_bytes(1) = 1`, return; invoke, exec on shard
    `hash_key(1) = 0` (which has never seen the key), return -/
theorem cex_reach : ∃ s, Reach (execN Str.exec C03.mismatchRoutes false)
      (cmdShard C03.mismatchRoutes false) (Shards.init SVal 2) 0 s ∧
    history s.log = seqHist cexOps := by
  have r0 : Reach (execN Str.exec C03.mismatchRoutes false) (cmdShard C03.mismatchRoutes false)
      (Shards.init SVal 2) 0 cexInit := Reach.init
  have r1 := Reach.step r0 (Step.invokeFresh cexInit 0 (.fastSet 1 [104]) rfl)
  have r2 := Reach.step r1 (Step.exec _ 1 ⟨0, 0, .fastSet 1 [104]⟩ [] rfl)
  have r3 := Reach.step r2 (Step.retDrop _ 0 0 (.fastSet 1 [104]) 0 _ rfl rfl)
  have r4 := Reach.step r3 (Step.invokeFresh _ 0 (.single 1 .get) rfl)
  have r5 := Reach.step r4 (Step.exec _ 0 ⟨1, 1, .single 1 .get⟩ [] rfl)
  have r6 := Reach.step r5 (Step.retDrop _ 0 1 (.single 1 .get) 1 _ rfl rfl)
  exact ⟨_, r6, rfl⟩

theorem cex_not_legal : ¬ seqLegal Str.exec.exec ([] : St) cexOps := by
  intro h
  have := h.2.1
  revert this
  decide

/-- **the pinned routing is not linearizable**: `fast_set k v` (routed by `hash_key_bytes`) and
    then a generic `GET k` (routed by `hash_key`) by ONE client — the GET answers nil -/
theorem C02_statement_pinned_counterexample : ¬ C02_statement Str.exec false := by
  intro h
  obtain ⟨s, hr, hh⟩ := cex_reach
  have hsk : ∀ id req, (.inv id req) ∈ s.log → SingleKey req = true := by
    intro id req hm
    have : (.inv id req) ∈ history s.log := mem_history_of_inv s.log id req hm
    rw [hh] at this
    simp only [seqHist, cexOps, List.mem_cons, List.not_mem_nil, or_false] at this
    rcases this with e | e | e | e
    · injection e with _ e2; subst e2; rfl
    · cases e
    · injection e with _ e2; subst e2; rfl
    · cases e
  have hk := h C03.mismatchRoutes (C03.ofTable_valid 2 _ (by decide) (by decide)) (by decide) 0 s hr hsk 1
  rw [hh] at hk
  have hp : projKey (keyMap cmdKey (seqHist cexOps)) 1 (seqHist cexOps) = seqHist cexOps := rfl
  rw [hp] at hk
  exact cex_not_legal (seq_lin_legal Str.exec.exec [] cexOps hk)

end counterexample

end C02
end RedisVerif
