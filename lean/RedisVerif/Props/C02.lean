import RedisVerif.Model.Actors
import RedisVerif.Model.Shards
import RedisVerif.Model.ShardsStr
import RedisVerif.Lemmas.Actors
namespace RedisVerif
namespace C02
open Actors Shards

/-- the sequential specification the checker uses: ONE executor (the small concrete one) -/
def specStep (s : Str.St) (c : Cmd Str.sig) : Str.St × Reply := Str.exec.exec s c

/-- the key of a single-key request -/
def keyOf (c : Cmd Str.sig) : Nat :=
  match c with
  | .single k _ => k
  | .fastGet k => k
  | .fastSet k _ => k
  | _ => 0

abbrev History := List (Ev (Cmd Str.sig) Reply)

/-- the verified per-key linearizability checker run on observed histories -/
def checkLin (h : History) : Bool := Actors.checkLin specStep keyOf [] h

end C02
end RedisVerif
