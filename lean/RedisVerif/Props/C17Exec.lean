import RedisVerif.Props.C01Exec
import RedisVerif.Lemmas.RedisStep
import RedisVerif.Lemmas.ExecutorX

/-!
# C17 on the executor as it is

`Props/C17.lean` proves "an error reply / a read-only command changes nothing" on the reference model.
Here the same two statements are proved about the TRANSCRIPTION OF THE CODE (`Model.Executor`,
`Model.ExecutorColl`: two maps, lazy expiry, every `execute_*` with its own order of checks): for every
state satisfying the executor's invariant, every well-formed command of M7's command set,

* a reply that is an error leaves the visible keyspace (keys, types, values, deadlines) exactly as it was;
* a command `Command::is_read_only` classifies read-only leaves it exactly as it was;

although such a command MAY change the physical state (a key past its deadline is dropped on access by
`get_value`) — which is why the statement is about `absP`, what a client can see.  The transcription is
tied to the real code on every run by the `XC` lines of the C01 / C17 op streams.
-/
set_option linter.unusedSimpArgs false
set_option linter.unusedVariables false

namespace RedisVerif.C17Exec
open RedisVerif RedisVerif.Redis RedisVerif.Executor RedisVerif.C01Exec RedisVerif.RedisX

theorem execDev_err (s : State) (now : Nat) (c : Cmd) (h : (execDev s now c).2.isError = true) :
    (execDev s now c).1 = s := by
  cases c
  case getset k v =>
    simp only [execDev, ExecutorCode.codeGetSet] at h ⊢
    cases hl : lookupStr s k <;> simp_all [Reply.isError]
  case getrange k a b =>
    simp only [execDev, ExecutorCode.codeGetRange]
    cases lookupStr s k <;> rfl
  all_goals exact exec_err h

theorem execDev_ro (s : State) (now : Nat) (c : Cmd) (h : isReadOnly c = true) :
    (execDev s now c).1 = s := by
  cases c
  case getset k v => simp [isReadOnly] at h
  case getrange k a b =>
    simp only [execDev, ExecutorCode.codeGetRange]
    cases lookupStr s k <;> rfl
  all_goals exact exec_ro h

/-- **A command that fails changes nothing** — on the executor as it is. -/
theorem executor_error_is_noop {cs : CState} (h : CInv cs) (c : Cmd) (hc : CmdOk c) (hr : Room cs c)
    {cs' : CState} {r : Reply} (he : execC cs c = some (cs', r)) (herr : r.isError = true) :
    absP cs' = absP cs ∧ CInv cs' := by
  obtain ⟨res, he', h1, h2, h3, _, _⟩ := executor_exec_refines h c hc hr
  rw [he] at he'
  cases he'
  simp only at h1 h2 h3
  rw [h1] at herr
  rw [h2, execDev_err _ _ _ herr, purge_absP]
  exact ⟨rfl, h3⟩

/-- **A command classified read-only changes nothing** — on the executor as it is. -/
theorem executor_readonly_is_noop {cs : CState} (h : CInv cs) (c : Cmd) (hc : CmdOk c) (hr : Room cs c)
    (hro : isReadOnly c = true) {cs' : CState} {r : Reply} (he : execC cs c = some (cs', r)) :
    absP cs' = absP cs ∧ CInv cs' := by
  obtain ⟨res, he', h1, h2, h3, _, _⟩ := executor_exec_refines h c hc hr
  rw [he] at he'
  cases he'
  simp only at h1 h2 h3
  rw [h2, execDev_ro _ _ _ hro, purge_absP]
  exact ⟨rfl, h3⟩

/-- … in terms of M7's `view` (key ↦ type + value, remaining TTL) at the executor's instant -/
theorem executor_error_keeps_view {cs : CState} (h : CInv cs) (c : Cmd) (hc : CmdOk c) (hr : Room cs c)
    {cs' : CState} {r : Reply} (he : execC cs c = some (cs', r)) (herr : r.isError = true) :
    view (abs cs') (unix cs') = view (abs cs) (unix cs) := by
  have h1 := (executor_error_is_noop h c hc hr he herr).1
  obtain ⟨res, he', _, _, _, hn, hep⟩ := executor_exec_refines h c hc hr
  rw [he] at he'
  cases he'
  simp only at hn hep
  have hu : unix cs' = unix cs := by simp [unix, hn, hep]
  unfold absP at h1
  rw [hu] at h1 ⊢
  unfold view
  rw [h1]

/-- the physical state MAY change under a read-only command: GET on a key past its deadline drops it
    (and that is invisible) -/
example :
    (execC ⟨[(1, .str [1])], [(1, 5)], 10, 0⟩ (.get 1)).map (fun p => p.1.data) = some [] := by decide

/-! ## the full command set

The property text quantifies over "all commands of the full command set (including stubs, two-key
commands and scripts)".  `FullCmd` is the whole `Command` enum as the executor's `match` sees it:

* `data c`  — the 80 commands of M7 (`execC`);
* `x c`     — SETBIT, GETBIT, the internal BatchSet / BatchGet, KEYS with a pattern (`execXC`);
* `stub c`  — OBJECT ENCODING / REFCOUNT / IDLETIME / FREQ, DEBUG OBJECT (`get_value`, then a reply), and
              `const`: every arm that does not mention `data` / `expirations` (PING, ECHO, INFO, TIME,
              SELECT, WAIT, CLIENT …, CONFIG …, ACL …, AUTH, COMMAND …, FUNCTION FLUSH, OBJECT HELP,
              DEBUG SLEEP / SET, the XADD / XINFO stubs, unknown commands);
* `scan …`  — SCAN (HSCAN / ZSCAN: lazy drop + the same read-only paging).

Not in `FullCmd`: INCRBYFLOAT (float formatting), MULTI / EXEC / DISCARD / WATCH / UNWATCH (C05), EVAL /
EVALSHA / SCRIPT … (scripts: `Props/C17.lean` — the statement is false for them, in Redis too).  The
harness maps every variant of the enum (list scanned from `command.rs`) to one of these classes or to
one of the named exclusions; for the `stub` and `scan` classes it checks on every executed instance that
the PHYSICAL state did not move at all (`XS` lines), which is what `const` claims. -/

inductive FullCmd
  | data (c : Cmd)
  | x (c : XCmd)
  | stub (c : StubCmd)
  | scan (cursor : Nat) (pat : Option BS) (count : Option Nat)

inductive FullReply
  | reply (x : Reply)
  | stub (x : StubReply)
  | page (next : Nat) (keys : List Nat)

def FullReply.isError : FullReply → Bool
  | .reply x => x.isError
  | .stub .noSuchKey => true
  | _ => false

def execFull (cs : CState) : FullCmd → Option (CState × FullReply)
  | .data c => (execC cs c).map (fun p => (p.1, .reply p.2))
  | .x c => some ((execXC cs c).1, .reply (execXC cs c).2)
  | .stub c => some ((execStub cs c).1, .stub (execStub cs c).2)
  | .scan cur pat cnt => (cScan cs cur pat cnt).map (fun p => (p.1, .page p.2.1 p.2.2))

/-- `Command::is_read_only` on the classes (stubs: whatever the table says, they never write) -/
def isReadOnlyFull : FullCmd → Bool
  | .data c => isReadOnly c
  | .x c => isReadOnlyX c
  | .stub _ => true
  | .scan _ _ _ => true

def FullOk (cs : CState) : FullCmd → Prop
  | .data c => CmdOk c ∧ Room cs c
  | _ => True

/-- **A command that fails changes nothing — over the full command set, on the executor as it is.** -/
theorem full_error_is_noop {cs : CState} (h : CInv cs) (c : FullCmd) (hc : FullOk cs c)
    {cs' : CState} {r : FullReply} (he : execFull cs c = some (cs', r)) (herr : r.isError = true) :
    absP cs' = absP cs ∧ CInv cs' := by
  cases c
  case data c =>
    simp only [execFull] at he
    cases hx : execC cs c with
    | none => rw [hx] at he; cases he
    | some p =>
      rw [hx] at he
      simp only [Option.map_some, Option.some.injEq, Prod.mk.injEq] at he
      obtain ⟨e1, e2⟩ := he
      subst e1; subst e2
      exact executor_error_is_noop h c hc.1 hc.2 (cs' := p.1) (r := p.2) hx (by simpa [FullReply.isError] using herr)
  case x c =>
    simp only [execFull, Option.some.injEq, Prod.mk.injEq] at he
    obtain ⟨e1, e2⟩ := he
    subst e1; subst e2
    obtain ⟨h1, h2, h3, _, _⟩ := execXC_sim h c
    simp only [FullReply.isError] at herr
    rw [h1] at herr
    rw [h2, execX_err herr, purge_absP]
    exact ⟨rfl, h3⟩
  case stub c =>
    simp only [execFull, Option.some.injEq, Prod.mk.injEq] at he
    obtain ⟨e1, _⟩ := he
    subst e1
    exact ⟨(execStub_noop h c).1, (execStub_noop h c).2.1⟩
  case scan cur pat cnt =>
    simp only [execFull] at he
    cases hx : cScan cs cur pat cnt with
    | none => rw [hx] at he; cases he
    | some p =>
      rw [hx] at he
      simp only [Option.map_some, Option.some.injEq, Prod.mk.injEq] at he
      obtain ⟨e1, _⟩ := he
      subst e1
      have := cScan_noop cs cur pat cnt p.1 p.2 hx
      rw [this]
      exact ⟨rfl, h⟩

/-- **A command classified read-only changes nothing — over the full command set.** -/
theorem full_readonly_is_noop {cs : CState} (h : CInv cs) (c : FullCmd) (hc : FullOk cs c)
    (hro : isReadOnlyFull c = true)
    {cs' : CState} {r : FullReply} (he : execFull cs c = some (cs', r)) :
    absP cs' = absP cs ∧ CInv cs' := by
  cases c
  case data c =>
    simp only [execFull] at he
    cases hx : execC cs c with
    | none => rw [hx] at he; cases he
    | some p =>
      rw [hx] at he
      simp only [Option.map_some, Option.some.injEq, Prod.mk.injEq] at he
      obtain ⟨e1, _⟩ := he
      subst e1
      exact executor_readonly_is_noop h c hc.1 hc.2 hro (cs' := p.1) (r := p.2) hx
  case x c =>
    simp only [execFull, Option.some.injEq, Prod.mk.injEq] at he
    obtain ⟨e1, _⟩ := he
    subst e1
    obtain ⟨_, h2, h3, _, _⟩ := execXC_sim h c
    rw [h2, execX_ro hro, purge_absP]
    exact ⟨rfl, h3⟩
  case stub c =>
    simp only [execFull, Option.some.injEq, Prod.mk.injEq] at he
    obtain ⟨e1, _⟩ := he
    subst e1
    exact ⟨(execStub_noop h c).1, (execStub_noop h c).2.1⟩
  case scan cur pat cnt =>
    simp only [execFull] at he
    cases hx : cScan cs cur pat cnt with
    | none => rw [hx] at he; cases he
    | some p =>
      rw [hx] at he
      simp only [Option.map_some, Option.some.injEq, Prod.mk.injEq] at he
      obtain ⟨e1, _⟩ := he
      subst e1
      have := cScan_noop cs cur pat cnt p.1 p.2 hx
      rw [this]
      exact ⟨rfl, h⟩

/-- the invariant survives every command of the full set (so both theorems apply along any history) -/
theorem full_inv_preserved {cs : CState} (h : CInv cs) (c : FullCmd) (hc : FullOk cs c)
    {cs' : CState} {r : FullReply} (he : execFull cs c = some (cs', r)) : CInv cs' := by
  cases c
  case data c =>
    simp only [execFull] at he
    obtain ⟨res, he', _, _, h3, _, _⟩ := executor_exec_refines h c hc.1 hc.2
    rw [he'] at he
    simp only [Option.map_some, Option.some.injEq, Prod.mk.injEq] at he
    rw [← he.1]; exact h3
  case x c =>
    simp only [execFull, Option.some.injEq, Prod.mk.injEq] at he
    rw [← he.1]; exact (execXC_sim h c).2.2.1
  case stub c =>
    simp only [execFull, Option.some.injEq, Prod.mk.injEq] at he
    rw [← he.1]; exact (execStub_noop h c).2.1
  case scan cur pat cnt =>
    simp only [execFull] at he
    cases hx : cScan cs cur pat cnt with
    | none => rw [hx] at he; cases he
    | some p =>
      rw [hx] at he
      simp only [Option.map_some, Option.some.injEq, Prod.mk.injEq] at he
      rw [← he.1, cScan_noop cs cur pat cnt p.1 p.2 hx]; exact h

/-- non-vacuity: OBJECT ENCODING of a key past its deadline answers "no such key" and drops it -/
example : (execStub ⟨[(1, .str [1])], [(1, 5)], 10, 0⟩ (.objectRefCount 1)) =
    (⟨[], [], 10, 0⟩, .noSuchKey) := by decide

/-! ## `execute_readonly`

The second read path (`execute_readonly(&self, …)`: GET, EXISTS, KEYS, PING — used by connection-level
fast reads) cannot write by its type; what has to be PROVED is that it answers what `execute` answers,
although it never drops a dead key and `execute` does. -/

/-- `execute_readonly` and `execute` give the same reply (on every state with the invariant) -/
theorem readonly_path_agrees {cs : CState} (h : CInv cs) (c : Cmd) (r : Reply)
    (hr : cReadonly cs c = some r) : ∃ cs', execC cs c = some (cs', r) := by
  cases c <;> simp only [cReadonly] at hr <;> try cases hr
  case get k =>
    refine ⟨(cGet cs k).1, ?_⟩
    simp only [execC, cGet, getValue]
    by_cases hx : isExpired cs k = true
    · simp only [hx, if_true] at hr ⊢
      cases hr; rfl
    · have hx' : isExpired cs k = false := by simpa using hx
      simp only [hx', Bool.false_eq_true, if_false] at hr ⊢
      cases hv : NMap.get cs.data k with
      | none => rw [hv] at hr; cases hr; rfl
      | some v => rw [hv] at hr; cases v <;> cases hr <;> rfl
  case «exists» ks => exact ⟨cs, rfl⟩
  case keys => exact ⟨cs, rfl⟩

end RedisVerif.C17Exec
