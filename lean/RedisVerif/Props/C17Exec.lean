import RedisVerif.Props.C01Exec
import RedisVerif.Lemmas.RedisStep

/-!
# C17 on the executor as it is

`Props/C17.lean` proves "an error reply / a read-only command changes nothing" on the reference model.
Here the same two statements are proved about the TRANSCRIPTION OF THE CODE (`Model.Executor`,
`Model.ExecutorColl`: two maps, lazy expiry, every `execute_*` with its own order of checks): for every
state satisfying the executor's invariant, every well-formed command of M7's command set,

* a reply that is an error leaves the visible keyspace (keys, types, values, deadlines) exactly as it was;
* a command `Command::is_read_only` classifies read-only leaves it exactly as it was;

although such a command MAY change the physical state (a key past its deadline is dropped on access by
`get_value`) — which is why the statement is about `absP`, what a client can see.  The transcription is
tied to the real code on every run by the `XC` lines of the C01 / C17 op streams.
-/
set_option linter.unusedSimpArgs false
set_option linter.unusedVariables false

namespace RedisVerif.C17Exec
open RedisVerif RedisVerif.Redis RedisVerif.Executor RedisVerif.C01Exec

theorem execDev_err (s : State) (now : Nat) (c : Cmd) (h : (execDev s now c).2.isError = true) :
    (execDev s now c).1 = s := by
  cases c
  case getset k v =>
    simp only [execDev, ExecutorCode.codeGetSet] at h ⊢
    cases hl : lookupStr s k <;> simp_all [Reply.isError]
  case getrange k a b =>
    simp only [execDev, ExecutorCode.codeGetRange]
    cases lookupStr s k <;> rfl
  all_goals exact exec_err h

theorem execDev_ro (s : State) (now : Nat) (c : Cmd) (h : isReadOnly c = true) :
    (execDev s now c).1 = s := by
  cases c
  case getset k v => simp [isReadOnly] at h
  case getrange k a b =>
    simp only [execDev, ExecutorCode.codeGetRange]
    cases lookupStr s k <;> rfl
  all_goals exact exec_ro h

/-- **A command that fails changes nothing** — on the executor as it is. -/
theorem executor_error_is_noop {cs : CState} (h : CInv cs) (c : Cmd) (hc : CmdOk c) (hr : Room cs c)
    {cs' : CState} {r : Reply} (he : execC cs c = some (cs', r)) (herr : r.isError = true) :
    absP cs' = absP cs ∧ CInv cs' := by
  obtain ⟨res, he', h1, h2, h3, _, _⟩ := executor_exec_refines h c hc hr
  rw [he] at he'
  cases he'
  simp only at h1 h2 h3
  rw [h1] at herr
  rw [h2, execDev_err _ _ _ herr, purge_absP]
  exact ⟨rfl, h3⟩

/-- **A command classified read-only changes nothing** — on the executor as it is. -/
theorem executor_readonly_is_noop {cs : CState} (h : CInv cs) (c : Cmd) (hc : CmdOk c) (hr : Room cs c)
    (hro : isReadOnly c = true) {cs' : CState} {r : Reply} (he : execC cs c = some (cs', r)) :
    absP cs' = absP cs ∧ CInv cs' := by
  obtain ⟨res, he', h1, h2, h3, _, _⟩ := executor_exec_refines h c hc hr
  rw [he] at he'
  cases he'
  simp only at h1 h2 h3
  rw [h2, execDev_ro _ _ _ hro, purge_absP]
  exact ⟨rfl, h3⟩

/-- … in terms of M7's `view` (key ↦ type + value, remaining TTL) at the executor's instant -/
theorem executor_error_keeps_view {cs : CState} (h : CInv cs) (c : Cmd) (hc : CmdOk c) (hr : Room cs c)
    {cs' : CState} {r : Reply} (he : execC cs c = some (cs', r)) (herr : r.isError = true) :
    view (abs cs') (unix cs') = view (abs cs) (unix cs) := by
  have h1 := (executor_error_is_noop h c hc hr he herr).1
  obtain ⟨res, he', _, _, _, hn, hep⟩ := executor_exec_refines h c hc hr
  rw [he] at he'
  cases he'
  simp only at hn hep
  have hu : unix cs' = unix cs := by simp [unix, hn, hep]
  unfold absP at h1
  rw [hu] at h1 ⊢
  unfold view
  rw [h1]

/-- the physical state MAY change under a read-only command: GET on a key past its deadline drops it
    (and that is invisible) -/
example :
    (execC ⟨[(1, .str [1])], [(1, 5)], 10, 0⟩ (.get 1)).map (fun p => p.1.data) = some [] := by decide

end RedisVerif.C17Exec
