import RedisVerif.Lemmas.WalBytes
import RedisVerif.Props.C14Bincode

/-!
# C10 — every single-byte corruption position of a WAL file, with CRC-32 (no checksum hypothesis)

`C10_only_appended` quantifies over arbitrary one-byte damage of a file image and cannot be proved
over an abstract checksum.  For the CURRENT format and the executable CRC-32 it is proved here for
EVERY byte position of EVERY file image that is not inside the 4-byte length field of an entry —
file header (magic, version, flags, reserved, sequence), entry stamps, stored checksums, payloads —
and every replacement value (in particular every single-bit flip):

`single_byte_corruption_yields_prefix`: recovery of the damaged file returns a PREFIX of the
appended entries (bit-identical, in order): nothing altered, nothing invented.

What stays outside: a changed LENGTH byte of an entry (the checksum then covers a string of another
length — `CrcDetects` is the hypothesis there), and damage wider than the 4-byte window of
`crc32_detects_window4`.
-/
namespace RedisVerif
namespace C10

open Wal Driver WalBytes Concrete

/-- position `p` of the file image lies in the 4-byte length field of some entry -/
def InLengthField (es : List Entry) (p : Nat) : Prop :=
  ∃ es₁ e es₂ o, es = es₁ ++ e :: es₂ ∧ p = 16 + (encs es₁).length + o ∧ o < 4

theorem encode_getElem_stamp (e : Entry) (j : Nat) (hj : j < 8) :
    e.encode[4 + j]'(by rw [encode_length]; simp [overhead]; omega) = (le 8 e.ts)[j]'(by simp [le_length]; exact hj) := by
  have h := getElem_append_right' (le 4 e.data.length) (le 8 e.ts ++ (le 4 e.crc ++ e.data)) j
    (by simp [le_length]; omega)
  simp only [le_length] at h
  simp only [Entry.encode]
  rw [h, List.getElem_append_left (by simp [le_length]; exact hj)]

theorem encode_getElem_crc (e : Entry) (j : Nat) (hj : j < 4) :
    e.encode[12 + j]'(by rw [encode_length]; simp [overhead]; omega) = (le 4 e.crc)[j]'(by simp [le_length]; exact hj) := by
  have h := getElem_append_right' (le 4 e.data.length ++ le 8 e.ts) (le 4 e.crc ++ e.data) j
    (by simp [le_length]; omega)
  simp only [List.length_append, le_length] at h
  have e1 : e.encode = (le 4 e.data.length ++ le 8 e.ts) ++ (le 4 e.crc ++ e.data) := by simp [Entry.encode]
  have h12 : (12 : Nat) + j = 4 + 8 + j := by omega
  simp only [e1, h12]
  rw [h, List.getElem_append_left (by simp [le_length]; exact hj)]

theorem encode_getElem_data (e : Entry) (i : Nat) (hi : i < e.data.length) :
    e.encode[16 + i]'(by rw [encode_length]; simp [overhead]; omega) = e.data[i] := by
  have h := getElem_append_right' (le 4 e.data.length ++ (le 8 e.ts ++ le 4 e.crc)) e.data i hi
  simp only [List.length_append, le_length] at h
  have e1 : e.encode = (le 4 e.data.length ++ (le 8 e.ts ++ le 4 e.crc)) ++ e.data := by simp [Entry.encode]
  have h16 : (16 : Nat) + i = 4 + (8 + 4) + i := by omega
  simp only [e1, h16]
  exact h

/-- one byte of ONE entry replaced, outside its length field: recovery of the file returns exactly
    the entries before it -/
theorem entry_byte_corruption_stops (seq : Nat) (es₁ : List Entry) (e : Entry) (es₂ : List Entry) (o v : Nat)
    (hs : seq < 2 ^ 64) (hok₁ : AllOk .v2 crc32 es₁) (he : e.Good .v2 crc32) (hb : ∀ x ∈ e.data, x < 256)
    (ho4 : 4 ≤ o) (ho : o < e.encode.length) (hv : v < 256) (hne : e.encode[o]'ho ≠ v) :
    fileEntries .v2 crc32 (fileImage .v2 seq es₁ ++ (e.encode.set o v ++ encs es₂)) = es₁ := by
  have hlen := encode_length e
  simp only [overhead] at hlen
  by_cases h12 : o < 12
  · -- stamp
    obtain ⟨j, rfl⟩ : ∃ j, o = 4 + j := ⟨o - 4, by omega⟩
    have hj : j < 8 := by omega
    obtain ⟨h1, h2, h3⟩ := encode_set_stamp e j v hj hv
    rw [h1]
    apply C14.wal_stamp_byte_corruption_detected seq es₁ e _ j v (encs es₂) hs hok₁ he hb h3 hj hv h2
    rw [← encode_getElem_stamp e j hj]; exact hne
  · by_cases h16 : o < 16
    · -- stored checksum
      obtain ⟨j, rfl⟩ : ∃ j, o = 12 + j := ⟨o - 12, by omega⟩
      have hj : j < 4 := by omega
      obtain ⟨h1, h2, h3⟩ := encode_set_crc e j v hj hv (by rw [← encode_getElem_crc e j hj]; exact hne) he.1.2.2
      rw [h1]
      apply corruption_stops_payload .v2 crc32 seq es₁ e.data e.ts (leVal ((le 4 e.crc).set j v)) (encs es₂) hs hok₁
        ⟨he.1.1, he.1.2.1, h2⟩
      have hval : crc32 (covered .v2 e.data.length e.ts e.data) = e.crc := he.2.1
      rw [hval]; exact fun h => h3 h.symm
    · -- payload
      obtain ⟨i, rfl⟩ : ∃ i, o = 16 + i := ⟨o - 16, by omega⟩
      have hi : i < e.data.length := by omega
      rw [encode_set_data]
      apply C14.wal_payload_byte_corruption_detected seq es₁ e i v (encs es₂) hs hok₁ he hb hi hv
      rw [← encode_getElem_data e i hi]; exact hne

/-- MAIN: one byte of a well-formed WAL file image replaced by any value, anywhere except inside the
    length field of an entry: recovery of that file returns a prefix of the appended entries -/
theorem single_byte_corruption_yields_prefix (seq : Nat) (es : List Entry) (p v : Nat)
    (hs : seq < 2 ^ 64) (hok : AllOk .v2 crc32 es) (hb : ∀ e ∈ es, ∀ x ∈ e.data, x < 256)
    (hp : p < (fileImage .v2 seq es).length) (hv : v < 256) (hnl : ¬ InLengthField es p) :
    ∃ k, fileEntries .v2 crc32 ((fileImage .v2 seq es).set p v) = es.take k := by
  by_cases h16 : p < 16
  · -- file header: the reader looks at magic and version only
    have hset : (fileImage .v2 seq es).set p v = (header .v2 seq).set p v ++ encs es := by
      unfold fileImage
      rw [set_append_left _ _ _ _ (by rw [header_length]; exact h16)]
    rw [hset, fileEntries_hdr .v2 crc32 _ _ (by rw [List.length_set, header_length]; rfl)]
    split
    · exact ⟨es.length, by rw [entries_encs .v2 crc32 es hok, List.take_length]⟩
    · exact ⟨0, rfl⟩
  · -- inside the entries
    have hl : (fileImage .v2 seq es).length = 16 + (encs es).length := by
      unfold fileImage; rw [List.length_append, header_length]; rfl
    obtain ⟨es₁, e, es₂, o, hes, hq, ho⟩ := split_pos es (p - 16) (by omega)
    have hp' : p = 16 + (encs es₁).length + o := by omega
    have ho4 : 4 ≤ o := by
      apply Nat.le_of_not_lt
      intro h
      exact hnl ⟨es₁, e, es₂, o, hes, hp', h⟩
    have hok₁ : AllOk .v2 crc32 es₁ := fun x hx => hok x (by rw [hes]; exact List.mem_append_left _ hx)
    have he : e.Good .v2 crc32 := hok e (by rw [hes]; simp)
    have hbe : ∀ x ∈ e.data, x < 256 := hb e (by rw [hes]; simp)
    have hset : (fileImage .v2 seq es).set p v = fileImage .v2 seq es₁ ++ (e.encode.set o v ++ encs es₂) := by
      unfold fileImage
      have h := set_append_right (header .v2 seq) (encs es) ((encs es₁).length + o) v
      rw [header_length] at h
      have hp2 : p = overhead + ((encs es₁).length + o) := by simp only [overhead]; omega
      rw [hp2, h, hes, encs_set es₁ e es₂ o v ho, List.append_assoc]
    rw [hset]
    by_cases hsame : e.encode[o]'ho = v
    · -- nothing changed
      refine ⟨es.length, ?_⟩
      have : e.encode.set o v = e.encode := by rw [← hsame]; exact List.set_getElem_self ho
      rw [this, List.take_length]
      have : fileImage .v2 seq es₁ ++ (e.encode ++ encs es₂) = fileImage .v2 seq es := by
        unfold fileImage; rw [hes, encs_append, encs_cons, List.append_assoc]
      rw [this]
      exact fileEntries_fileImage .v2 crc32 seq es hs hok
    · refine ⟨es₁.length, ?_⟩
      rw [entry_byte_corruption_stops seq es₁ e es₂ o v hs hok₁ he hbe ho4 ho hv hsame, hes,
        List.take_left' rfl]

/-- in the words of the property: whatever recovery returns from such a damaged file was appended
    to it, bit-identical, and in append order -/
theorem single_byte_corruption_only_appended (seq : Nat) (es : List Entry) (p v : Nat)
    (hs : seq < 2 ^ 64) (hok : AllOk .v2 crc32 es) (hb : ∀ e ∈ es, ∀ x ∈ e.data, x < 256)
    (hp : p < (fileImage .v2 seq es).length) (hv : v < 256) (hnl : ¬ InLengthField es p) :
    ∀ x ∈ fileEntries .v2 crc32 ((fileImage .v2 seq es).set p v), x ∈ es := by
  obtain ⟨k, hk⟩ := single_byte_corruption_yields_prefix seq es p v hs hok hb hp hv hnl
  intro x hx
  rw [hk] at hx
  exact List.mem_of_mem_take hx

/-- the damage classes of the property for which NOTHING is assumed any more: every truncation; one
    byte replaced anywhere outside an entry's length field; a cut at an entry boundary followed by a
    zero-filled tail of any length -/
def DamagedProved (seq : Nat) (es : List Entry) (img : Bytes) : Prop :=
  (∃ n, img = (fileImage .v2 seq es).take n) ∨
  (∃ p v, p < (fileImage .v2 seq es).length ∧ v < 256 ∧ ¬ InLengthField es p ∧ img = (fileImage .v2 seq es).set p v) ∨
  (∃ k m, img = fileImage .v2 seq (es.take k) ++ List.replicate m 0)

/-- `C10_only_appended` for CRC-32 on those classes: whatever recovery returns from the damaged
    file was appended to it, bit-identical (current format, executable CRC-32, no hypothesis) -/
theorem only_appended_crc32 (seq : Nat) (es : List Entry) (img : Bytes)
    (hs : seq < 2 ^ 64) (hok : AllOk .v2 crc32 es) (hb : ∀ e ∈ es, ∀ x ∈ e.data, x < 256)
    (hd : DamagedProved seq es img) : ∀ x ∈ fileEntries .v2 crc32 img, x ∈ es := by
  rcases hd with ⟨n, rfl⟩ | ⟨p, v, hp, hv, hnl, rfl⟩ | ⟨k, m, rfl⟩
  · exact (only_appended_v2 crc32 seq es hs hok).1 n
  · exact single_byte_corruption_only_appended seq es p v hs hok hb hp hv hnl
  · exact (only_appended_v2 crc32 seq es hs hok).2.1 k m

-- non-vacuity: two entries; position 21 is the second stamp byte of the first entry (the very flip
-- the old format accepted: stamp 5 -> 261)
example : AllOk .v2 crc32 [Entry.mk' .v2 crc32 [7] 5, Entry.mk' .v2 crc32 [1, 2] 9] := by decide +kernel

end C10
end RedisVerif
