import RedisVerif.Model.ExecutorScan

/-!
# C01 — SCAN paging (`execute_scan` / `execute_hscan` / `execute_zscan` of scan_ops.rs)

Redis' guarantee: "a full iteration — starting at cursor 0 and following the returned cursor until it
is 0 again — returns every element that is present during the whole iteration".  For the code's paging
arithmetic this is `scan_complete`: for every key list, every `COUNT ≥ 1` (below `usize::MAX`) the
full iteration terminates and returns exactly the (sorted, matching) keys, each once.

The full statement for EVERY count the parsers let through is false (`scan_count_zero_counterexample`,
`scan_count_max_traps`, `scan_count_max_wrapped_counterexample`): `COUNT 0` answers an empty page with
the cursor unchanged — from cursor 0 that reads "iteration complete, no keys" — and `COUNT -1` is cast to
`usize::MAX`, whose `count + 1` traps in an overflow-checked build and wraps to `take(0)` in the release
profile (same empty answer).  Redis refuses `COUNT < 1` with a syntax error.  Known finding
`C01:scan-count-nonpositive-accepted`.
-/
namespace RedisVerif.C01Scan
open RedisVerif RedisVerif.Executor

/-- full statement: whatever COUNT the command carries, a full iteration returns the keys -/
def C01_scan_complete : Prop :=
  ∀ (keys : List Nat) (count : Nat), ∃ fuel, scanAll keys count fuel 0 = some keys

theorem scanAll_drop {α : Type} (keys : List α) (count : Nat) (h1 : 1 ≤ count) (h2 : count + 1 < two64) :
    ∀ (fuel cursor : Nat), keys.length - cursor < fuel →
      scanAll keys count fuel cursor = some (keys.drop cursor) := by
  intro fuel
  induction fuel with
  | zero => intro cursor h; omega
  | succ fuel ih =>
    intro cursor hf
    simp only [scanAll, scanPage, h2, if_true]
    have hlen : ((keys.drop cursor).take (count + 1)).length = min (count + 1) (keys.length - cursor) := by
      simp [List.length_take, List.length_drop]
    by_cases hbig : keys.length - cursor ≥ count + 1
    · have hgt : ((keys.drop cursor).take (count + 1)).length > count := by rw [hlen]; omega
      simp only [hgt, if_true]
      have hne : ¬ (cursor + count = 0) := by omega
      simp only [hne, if_false]
      rw [ih (cursor + count) (by omega)]
      simp only [Option.map_some]
      congr 1
      rw [List.take_take, Nat.min_eq_left (by omega), ← List.drop_drop]
      exact List.take_append_drop count (keys.drop cursor)
    · have hle : ¬ ((keys.drop cursor).take (count + 1)).length > count := by rw [hlen]; omega
      simp only [hle, if_false, if_true]
      congr 1
      apply List.take_of_length_le
      simp [List.length_drop]; omega

/-- **SCAN is complete for every `COUNT ≥ 1`** (below `usize::MAX`): the full iteration terminates
    after at most `len + 1` calls and returns exactly the key list, in order, each key once. -/
theorem scan_complete_partial (keys : List Nat) (count : Nat) (h1 : 1 ≤ count) (h2 : count + 1 < two64) :
    scanAll keys count (keys.length + 1) 0 = some keys := by
  have := scanAll_drop keys count h1 h2 (keys.length + 1) 0 (by omega)
  simpa using this

/-- every page holds at most `count` keys and a non-zero cursor comes with a full page -/
theorem scan_page_bounds {α : Type} (keys : List α) (cursor count next : Nat) (page : List α)
    (h : scanPage keys cursor count = some (next, page)) :
    page.length ≤ count + 1 ∧ (next ≠ 0 → page.length = count ∧ next = cursor + count) := by
  unfold scanPage at h
  split at h
  · split at h
    · rename_i hgt
      cases h
      refine ⟨by simp [List.length_take]; omega, fun _ => ⟨?_, rfl⟩⟩
      simp only [List.length_take] at hgt ⊢
      omega
    · cases h
      exact ⟨by simp [List.length_take]; omega, fun hne => absurd rfl hne⟩
  · cases h

/-- `SCAN 0 COUNT 0` on a non-empty keyspace: cursor 0, no keys — "nothing to iterate" -/
theorem scan_count_zero_counterexample : scanAll [7] 0 5 0 = some [] := by decide

/-- … and from a non-zero cursor COUNT 0 never advances (the same cursor comes back, here 5 times) -/
theorem scan_count_zero_never_advances : scanAll [7, 8, 9] 0 5 1 = none ∧
    scanPage [7, 8, 9] 1 0 = some (1, []) := by decide

/-- `COUNT -1` = `usize::MAX`: `count + 1` traps in an overflow-checked build … -/
theorem scan_count_max_traps (keys : List Nat) (cursor : Nat) :
    scanPage keys cursor (two64 - 1) = none := by
  unfold scanPage
  have : ¬ (two64 - 1 + 1 < two64) := by unfold two64; omega
  rw [if_neg this]

/-- … and in the release profile (`count + 1` wraps to 0) the answer is the empty page with cursor 0 -/
theorem scan_count_max_wrapped_counterexample : scanPageWrapped [7] 0 = (0, []) := rfl

theorem C01_scan_complete_counterexample : ¬ C01_scan_complete := by
  intro h
  obtain ⟨fuel, hf⟩ := h [7] 0
  cases fuel with
  | zero => simp [scanAll] at hf
  | succ f => simp [scanAll, scanPage, two64] at hf

/-- non-vacuity: three pages of two -/
example : scanAll [1, 2, 3, 4, 5] 2 6 0 = some [1, 2, 3, 4, 5] := by decide

/-- SCAN never touches the state (C17: it is classified read-only) -/
theorem scan_is_noop (cs : CState) (cursor : Nat) (pat : Option Redis.BS) (count : Option Nat)
    (cs' : CState) (r : Nat × List Nat) (h : cScan cs cursor pat count = some (cs', r)) : cs' = cs := by
  unfold cScan at h
  cases hp : scanPage (scanKeys cs pat) cursor (count.getD 10) with
  | none => rw [hp] at h; cases h
  | some q => rw [hp] at h; cases h; rfl

end RedisVerif.C01Scan
