import RedisVerif.Model.ExecutorScan

/-!
# C01 — SCAN paging (`execute_scan` / `execute_hscan` / `execute_zscan` of scan_ops.rs)

Redis' guarantee: "a full iteration — starting at cursor 0 and following the returned cursor until it
is 0 again — returns every element that is present during the whole iteration".  For the code's paging
arithmetic this is `scan_complete`: for every key list, every `COUNT ≥ 1` (below `usize::MAX`) the
full iteration terminates and returns exactly the (sorted, matching) keys, each once.

The full statement for EVERY count a `Command::Scan` can carry is false (`scan_count_zero_counterexample`):
`count = 0` answers an empty page with the cursor unchanged — from cursor 0 that reads "iteration
complete, no keys".  Until the fix 60ffe53 both parsers let `COUNT 0` and `COUNT -1` (= `usize::MAX`, whose
`count + 1` trapped / wrapped) through: finding `C01:scan-count-nonpositive-accepted`, repaired — the
parsers refuse `COUNT < 1` with a syntax error as Redis does (the witnesses stay in `scan_pass`: a
parser that accepts them again is a VIOLATION), and the executor takes `count.saturating_add(1)`
(`scan_count_max_complete`).
-/
namespace RedisVerif.C01Scan
open RedisVerif RedisVerif.Executor

/-- full statement: whatever COUNT the command carries, a full iteration returns the keys -/
def C01_scan_complete : Prop :=
  ∀ (keys : List Nat) (count : Nat), ∃ fuel, scanAll keys count fuel 0 = some keys

theorem scanAll_drop {α : Type} (keys : List α) (count : Nat) (h1 : 1 ≤ count) (hk : keys.length < two64 - 1) :
    ∀ (fuel cursor : Nat), keys.length - cursor < fuel →
      scanAll keys count fuel cursor = some (keys.drop cursor) := by
  intro fuel
  induction fuel with
  | zero => intro cursor h; omega
  | succ fuel ih =>
    intro cursor hf
    simp only [scanAll, scanPage]
    have hlen : ((keys.drop cursor).take (min (count + 1) (two64 - 1))).length =
        min (min (count + 1) (two64 - 1)) (keys.length - cursor) := by
      simp [List.length_take, List.length_drop]
    by_cases hbig : keys.length - cursor ≥ count + 1
    · have hgt : ((keys.drop cursor).take (min (count + 1) (two64 - 1))).length > count := by rw [hlen]; omega
      simp only [hgt, if_true]
      have hne : ¬ (cursor + count = 0) := by omega
      simp only [hne, if_false]
      rw [ih (cursor + count) (by omega)]
      simp only [Option.map_some]
      congr 1
      rw [List.take_take, Nat.min_eq_left (by omega), ← List.drop_drop]
      exact List.take_append_drop count (keys.drop cursor)
    · have hle : ¬ ((keys.drop cursor).take (min (count + 1) (two64 - 1))).length > count := by rw [hlen]; omega
      simp only [hle, if_false, if_true]
      congr 1
      apply List.take_of_length_le
      simp [List.length_drop]; omega

/-- **SCAN is complete for every `COUNT ≥ 1`** (any `usize`): the full iteration terminates after at most
    `len + 1` calls and returns exactly the key list, in order, each key once. -/
theorem scan_complete_partial (keys : List Nat) (count : Nat) (h1 : 1 ≤ count) (hk : keys.length < two64 - 1) :
    scanAll keys count (keys.length + 1) 0 = some keys := by
  have := scanAll_drop keys count h1 hk (keys.length + 1) 0 (by omega)
  simpa using this

/-- every page holds at most `count` keys and a non-zero cursor comes with a full page -/
theorem scan_page_bounds {α : Type} (keys : List α) (cursor count next : Nat) (page : List α)
    (h : scanPage keys cursor count = some (next, page)) :
    page.length ≤ count + 1 ∧ (next ≠ 0 → page.length = count ∧ next = cursor + count) := by
  unfold scanPage at h
  split at h
  · rename_i hgt
    cases h
    refine ⟨by simp [List.length_take]; omega, fun _ => ⟨?_, rfl⟩⟩
    simp only [List.length_take] at hgt ⊢
    omega
  · cases h
    exact ⟨by simp [List.length_take]; omega, fun hne => absurd rfl hne⟩

/-- `SCAN 0 COUNT 0` on a non-empty keyspace: cursor 0, no keys — "nothing to iterate" -/
theorem scan_count_zero_counterexample : scanAll [7] 0 5 0 = some [] := by decide

/-- … and from a non-zero cursor COUNT 0 never advances (the same cursor comes back, here 5 times) -/
theorem scan_count_zero_never_advances : scanAll [7, 8, 9] 0 5 1 = none ∧
    scanPage [7, 8, 9] 1 0 = some (1, []) := by decide

/-- `count = usize::MAX` (what `COUNT -1` used to become) is now an ordinary count: one page with everything -/
theorem scan_count_max_complete : scanAll [7, 8, 9] (two64 - 1) 2 0 = some [7, 8, 9] := by decide

theorem C01_scan_complete_counterexample : ¬ C01_scan_complete := by
  intro h
  obtain ⟨fuel, hf⟩ := h [7] 0
  cases fuel with
  | zero => simp [scanAll] at hf
  | succ f => simp [scanAll, scanPage, two64] at hf

/-- non-vacuity: three pages of two -/
example : scanAll [1, 2, 3, 4, 5] 2 6 0 = some [1, 2, 3, 4, 5] := by decide

/-- SCAN never touches the state (C17: it is classified read-only) -/
theorem scan_is_noop (cs : CState) (cursor : Nat) (pat : Option Redis.BS) (count : Option Nat)
    (cs' : CState) (r : Nat × List Nat) (h : cScan cs cursor pat count = some (cs', r)) : cs' = cs := by
  unfold cScan at h
  cases hp : scanPage (scanKeys cs pat) cursor (count.getD 10) with
  | none => rw [hp] at h; cases h
  | some q => rw [hp] at h; cases h; rfl

end RedisVerif.C01Scan
