import RedisVerif.Props.C04
import RedisVerif.Props.C05Ext

/-!
# C05 ∘ C04 — the transaction machine behind the read loop, for every segmentation of the bytes

`Props/C05*.lean` reason about the INPUTS of the connection-level machine (`Txn.step`: MULTI, EXEC,
WATCH, data commands, …).  What reaches the real handler is a BYTE STREAM cut into arbitrary reads,
scanned by the batching gate, the two collectors, the fast path and the generic decoder
(`Model/Conn.lean`, C04's model of the read loop of `OptimizedConnectionHandler`).  This file
composes the two models:

* `behind` — the transaction machine fed by the read loop's actions: every frame the loop hands to
  `try_execute_command` is classified (what `Command::from_resp_zero_copy` and the handler's match
  do) into an input of the machine; a frame the decoder rejects is the protocol-error input;
* `wire_transaction` — for every well-formed pipeline (C04's hypotheses), every segmentation of its
  bytes and every configuration of the loop: the replies, the final transaction state and the store
  are those of the machine run on the commands one by one (`runF`), i.e. C04's
  `segmentation_independent_cmdok` lifted through the machine;
* `wire_queued_has_no_effect` — the property's first sentence at the level of BYTES: whatever frames
  are sent between MULTI and EXEC / DISCARD, however the bytes of MULTI and of the body are cut into
  reads (a frame split between two reads, MULTI and half of the next frame in one read, …), the
  store is untouched and every reply is QUEUED or an error.
-/
namespace RedisVerif
namespace C05
open Txn
open RedisVerif.Resp RedisVerif.Conn

section
variable {σ κ γ ρ : Type} [DecidableEq ρ]

/-- the machine of the CURRENT tree (`Txn.stepFixed`), nobody interfering, on a list of inputs -/
def runF (B : Backend σ κ γ ρ) : ConnTxn κ γ ρ → σ → List (Input κ γ) → ConnTxn κ γ ρ × σ × List (Reply ρ)
  | t, s, [] => (t, s, [])
  | t, s, i :: rest =>
    let r := stepFixed B [] t s i
    let q := runF B r.1 r.2.1 rest
    (q.1, q.2.1, r.2.2 :: q.2.2)

/-- the machine behind the read loop: the actions of `Conn.run`, in order.  `classify` = the parse
    of a decoded frame into an input of the machine.  A collector that swallows a frame (`dropped`)
    gives the machine nothing; after `overflow` / `crash` the connection is gone. -/
def behind (B : Backend σ κ γ ρ) (classify : Val → Input κ γ) :
    ConnTxn κ γ ρ → σ → List Action → ConnTxn κ γ ρ × σ × List (Reply ρ)
  | t, s, [] => (t, s, [])
  | t, s, .exec f _ :: rest =>
    let r := stepFixed B [] t s (classify f)
    let q := behind B classify r.1 r.2.1 rest
    (q.1, q.2.1, r.2.2 :: q.2.2)
  | t, s, .protoErr :: rest =>
    let r := stepFixed B [] t s .protoErr
    let q := behind B classify r.1 r.2.1 rest
    (q.1, q.2.1, r.2.2 :: q.2.2)
  | t, s, .dropped _ :: rest => behind B classify t s rest
  | t, s, .overflow :: _ => (t, s, [])
  | t, s, .crash :: _ => (t, s, [])

theorem behind_execAll (B : Backend σ κ γ ρ) (classify : Val → Input κ γ) (cmds : List Cmd) :
    ∀ (t : ConnTxn κ γ ρ) (s : σ),
      behind B classify t s (execAll cmds) = runF B t s (cmds.map (fun c => classify (cmdFrame c))) := by
  induction cmds with
  | nil => intro t s; rfl
  | cons c cs ih =>
    intro t s
    simp only [execAll, List.map_cons, behind, runF]
    have := ih (stepFixed B [] t s (classify (cmdFrame c))).1 (stepFixed B [] t s (classify (cmdFrame c))).2.1
    simp only [execAll] at this
    rw [this]

/-- **the transaction machine sees exactly the commands, one each, in order — for every
    segmentation of the bytes and every configuration of the read loop** (C04's hypotheses:
    the fast paths are dead for well-formed frames, the repaired decoder, frames within the stack
    and buffer limits) -/
theorem wire_transaction (B : Backend σ κ γ ρ) (classify : Val → Input κ γ) (cfg : Config)
    (h14 : DeadCfg cfg) (hc : cfg.codec = codec1) (hd : 1 ≤ cfg.env.depth) (cmds : List Cmd)
    (segs : List Bytes) (h : segs.flatten = stream cmds) (hs : Small (stream cmds))
    (hmax : (stream cmds).length ≤ cfg.maxBuffer) (hok : ∀ c ∈ cmds, CmdOK cfg c)
    (t : ConnTxn κ γ ρ) (s : σ) :
    behind B classify t s (Conn.run cfg segs) = runF B t s (cmds.map (fun c => classify (cmdFrame c))) := by
  rw [C04.segmentation_independent_cmdok cfg h14 hc hd cmds segs h hs hmax hok]
  exact behind_execAll B classify cmds t s

/-- the machine does not look at the PATH that carried a frame (fast path, batch collector, generic
    decoder): outside MULTI a `GET` / `SET` taken by a special path is executed at once — which is
    what the machine does with a data command outside MULTI — and inside MULTI the special paths
    are switched off (`!self.in_transaction` at the batching gate and at `try_fast_path`; C04's
    model: `fastPath … inTx = .notFast`, `batchGate … ¬ inTx`) -/
theorem behind_noPath (B : Backend σ κ γ ρ) (classify : Val → Input κ γ) (acts : List Action) :
    ∀ (t : ConnTxn κ γ ρ) (s : σ),
      behind B classify t s (acts.map Action.noPath) = behind B classify t s acts := by
  induction acts with
  | nil => intro t s; rfl
  | cons a rest ih =>
    intro t s
    cases a with
    | exec f p => simp only [List.map_cons, Action.noPath, behind]; rw [ih]
    | dropped f => simp only [List.map_cons, Action.noPath, behind]; rw [ih]
    | protoErr => simp only [List.map_cons, Action.noPath, behind]; rw [ih]
    | overflow => simp only [List.map_cons, Action.noPath, behind]
    | crash => simp only [List.map_cons, Action.noPath, behind]

/-- **the same for the tree since `fix:` de38a13** (HEADER_LEN = 13, the fast path and the batch
    collectors are ALIVE for well-formed GET / SET frames): whatever path carries a frame, for every
    segmentation and every batching configuration the machine sees exactly the commands, one each,
    in order -/
theorem wire_transaction_repaired (B : Backend σ κ γ ρ) (classify : Val → Input κ γ) (cfg : Config)
    (h13 : cfg.headerLen = 13) (hrep : cfg.repaired = true) (hg : cfg.nameGuard = true)
    (hc : cfg.codec = codec1) (hd : 2 ≤ cfg.env.depth) (hmb : cfg.maxBuffer < 72057594037927936)
    (cmds : List Cmd) (segs : List Bytes) (h : segs.flatten = stream cmds) (hs : Small (stream cmds))
    (hmax : (stream cmds).length ≤ cfg.maxBuffer) (t : ConnTxn κ γ ρ) (s : σ) :
    behind B classify t s (Conn.run cfg segs) = runF B t s (cmds.map (fun c => classify (cmdFrame c))) := by
  rw [← behind_noPath B classify (Conn.run cfg segs) t s,
    C04.segmentation_independent_repaired cfg h13 hrep hg hc hd hmb cmds segs h hs hmax]
  exact behind_execAll B classify cmds t s

/-- `runF` and `Txn.run` agree on inputs that are not protocol errors (the only input on which the
    pinned and the current tree differ) -/
theorem runF_eq_run (B : Backend σ κ γ ρ) (is : List (Input κ γ)) (hp : ∀ i ∈ is, i ≠ .protoErr) :
    ∀ (t : ConnTxn κ γ ρ) (s : σ), runF B t s is = Txn.run B t s (is.map (fun i => (i, []))) := by
  induction is with
  | nil => intro t s; rfl
  | cons i rest ih =>
    intro t s
    simp only [runF, List.map_cons, Txn.run]
    rw [stepFixed_eq_step B [] t s i (Or.inl (hp i (by simp))),
      ih (fun j hj => hp j (by simp [hj]))]

/-- **between MULTI and EXEC nothing has an effect or a result — at the level of bytes**: the
    connection is inside MULTI, the client sends any frames that do not end the transaction, cut into
    reads in any way: the store is untouched, the connection is still inside MULTI with its watch
    list untouched, every reply is QUEUED or an error -/
theorem wire_queued_has_no_effect (B : Backend σ κ γ ρ) (classify : Val → Input κ γ) (cfg : Config)
    (h14 : DeadCfg cfg) (hc : cfg.codec = codec1) (hd : 1 ≤ cfg.env.depth) (cmds : List Cmd)
    (segs : List Bytes) (h : segs.flatten = stream cmds) (hs : Small (stream cmds))
    (hmax : (stream cmds).length ≤ cfg.maxBuffer) (hok : ∀ c ∈ cmds, CmdOK cfg c)
    (t : ConnTxn κ γ ρ) (s : σ) (hin : t.inTxn = true)
    (hbody : ∀ c ∈ cmds, endsTxn (classify (cmdFrame c)) = false ∧ classify (cmdFrame c) ≠ .protoErr) :
    (behind B classify t s (Conn.run cfg segs)).2.1 = s ∧
    (behind B classify t s (Conn.run cfg segs)).1.inTxn = true ∧
    (behind B classify t s (Conn.run cfg segs)).1.watched = t.watched ∧
    ∀ r ∈ (behind B classify t s (Conn.run cfg segs)).2.2, isQueuedOrErr r = true := by
  rw [wire_transaction B classify cfg h14 hc hd cmds segs h hs hmax hok t s,
    runF_eq_run B _ (by
      intro i hi
      obtain ⟨c, hc', rfl⟩ := List.mem_map.mp hi
      exact (hbody c hc').2) t s]
  have := queued_has_no_effect σ κ γ ρ B t s ((cmds.map (fun c => classify (cmdFrame c))).map (fun i => (i, []))) hin (by
    intro e he
    obtain ⟨i, hi, rfl⟩ := List.mem_map.mp he
    obtain ⟨c, hc', rfl⟩ := List.mem_map.mp hi
    exact (hbody c hc').1)
  exact this

end

/-- a classifier for the demo below (what `Command::from_resp_zero_copy` + the handler's match do
    with these four frames) -/
def demoClassify : Val → Input Nat KV.Cmd
  | .array [.bulk [77, 85, 76, 84, 73]] => .multi
  | .array [.bulk [69, 88, 69, 67]] => .exec
  | .array [.bulk [83, 69, 84], .bulk [107], .bulk [49]] => .cmd (.set 1 [49])
  | .array [.bulk [71, 69, 84], .bulk [107]] => .cmd (.get 1)
  | _ => .parseErr

/-- `MULTI`, `SET k 1`, `GET k`, `EXEC` -/
def demoCmds : List Cmd := [[[77, 85, 76, 84, 73]], [[83, 69, 84], [107], [49]], [[71, 69, 84], [107]], [[69, 88, 69, 67]]]

/-- their bytes cut in the middle of the second frame, again inside the third, then byte by byte -/
def demoSegs : List Bytes :=
  [(stream demoCmds).take 25, ((stream demoCmds).drop 25).take 30] ++ (((stream demoCmds).drop 55).map (fun b => [b]))

/-- non-vacuity of the composition: ONE byte stream, cut as above, through the read loop of the
    pinned (`cfg14`) and of the current tree (`cfgR`: live fast paths), behind it the machine over the concrete store:
    `+OK +QUEUED +QUEUED *2 +OK $1` and `k = 1` -/
example :
    demoSegs.flatten = stream demoCmds ∧
    (behind KV.backend demoClassify ConnTxn.idle [] (Conn.run C04.cfg14 demoSegs)).2 =
      ([(1, .str [49])], [.ok, .queued, .queued, .results [.simple .ok, .bulk (some [49])]]) ∧
    (behind KV.backend demoClassify ConnTxn.idle [] (Conn.run C04.cfgR demoSegs)).2 =
      ([(1, .str [49])], [.ok, .queued, .queued, .results [.simple .ok, .bulk (some [49])]]) := by
  decide

end C05
end RedisVerif
