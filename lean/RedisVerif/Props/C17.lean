import RedisVerif.Lemmas.RedisStep
import RedisVerif.Lemmas.RedisX

/-!
# C17 — a failing command changes nothing; a read-only command changes nothing

Property text: "A command that replies with an error leaves the visible keyspace and all TTLs
exactly as they were, even when it names several keys or elements and only one of them is at
fault.  A command classified as read-only never changes the visible keyspace."

The theorems are about the reference model `Model.Redis` (M7) — for EVERY state (reachable or
not), every instant and every modelled command.  `view s now` is the whole visible keyspace:
key ↦ (type+value, remaining TTL).  They are transferred to /repo by (i) the C01
correspondence (real executor = model, reply and keyspace after every step), (ii) the snapshot
oracle of the C17 harness on the real executor, (iii) the comparison of `isReadOnly` with the
real `Command::is_read_only` on every generated command.
-/
namespace RedisVerif.C17
open RedisVerif RedisVerif.Redis

/-- full statement, part 1 -/
def C17_error_is_noop : Prop :=
  ∀ (s : State) (now : Nat) (c : Cmd),
    (step s now c).2.isError = true → view (step s now c).1 now = view s now

/-- full statement, part 2 (`isReadOnly` = transcription of `Command::is_read_only`) -/
def C17_readonly_is_noop : Prop :=
  ∀ (s : State) (now : Nat) (c : Cmd),
    isReadOnly c = true → view (step s now c).1 now = view s now

theorem error_is_noop : C17_error_is_noop := by
  intro s now c he
  unfold step at *
  rw [exec_err he, view_purge]

theorem readonly_is_noop : C17_readonly_is_noop := by
  intro s now c hr
  unfold step
  rw [exec_ro hr, view_purge]

/-! ### soundness of the read-only classification table

`isReadOnly` is the model's copy of the table in `Command::is_read_only` (src/redis/command.rs);
the harness compares the two on every generated command, so a changed table entry surfaces as a
correspondence disagreement on the `ro=` field, and the sweep oracle of harness/src/c17.rs turns
it into a concrete command + state whenever the entry is unsound. -/

/-- full statement, for an arbitrary classification table `ro`: whatever the table calls
    read-only returns the very state it was given (not merely an equivalent view) -/
def C17_readonly_classification_sound (ro : Cmd → Bool) : Prop :=
  ∀ c : Cmd, ro c = true → ∀ (s : State) (now : Nat), (exec s now c).1 = s

/-- the table in force is sound -/
theorem readonly_classification_sound : C17_readonly_classification_sound isReadOnly :=
  fun _ h _ _ => exec_ro h

/-- the table of the seeded change "GETEX without an expiry option is a plain GET": the pattern
    `GetEx { ex: None, px: None, exat: None, pxat: None, .. }` swallows `persist`, so both
    `GETEX k` and `GETEX k PERSIST` become read-only -/
def isReadOnlySeeded : Cmd → Bool
  | .getex _ .none => true
  | .getex _ .persist => true
  | c => isReadOnly c

/-- … and that table is NOT sound: `SET s v PX 5000; GETEX s PERSIST` drops the deadline -/
theorem readonly_classification_counterexample :
    ¬ C17_readonly_classification_sound isReadOnlySeeded := by
  intro h
  have := h (.getex 1 .persist) rfl [(1, ⟨.str [118], some 6000⟩)] 1000
  revert this
  decide

/-- the other half of the seeded entry (GETEX with no option at all) would have been sound -/
theorem getex_without_option_is_noop (s : State) (now k : Nat) : (exec s now (.getex k .none)).1 = s := by
  simp only [exec, execGetEx]
  split
  · rfl
  · rfl
  · simp [getExPlan]

/-- "…and all TTLs exactly as they were": nothing changes at any LATER instant either -/
theorem error_is_noop_future (s : State) (now t : Nat) (c : Cmd) (ht : now ≤ t)
    (he : (step s now c).2.isError = true) : view (step s now c).1 t = view s t := by
  unfold step at *
  rw [exec_err he, view_purge_le s ht]

theorem readonly_is_noop_future (s : State) (now t : Nat) (c : Cmd) (ht : now ≤ t)
    (hr : isReadOnly c = true) : view (step s now c).1 t = view s t := by
  unfold step
  rw [exec_ro hr, view_purge_le s ht]

/-- a whole sequence of failing / read-only commands changes nothing -/
theorem noop_sequence (s : State) (now : Nat) (cs : List Cmd)
    (h : ∀ c ∈ cs, isReadOnly c = true) :
    view (run s (cs.map (fun c => (now, c)))).1 now = view s now := by
  induction cs generalizing s with
  | nil => rfl
  | cons c cs ih =>
    simp only [List.map_cons, run]
    rw [ih _ (fun c' hc' => h c' (List.mem_cons_of_mem _ hc'))]
    exact readonly_is_noop s now c (h c (List.mem_cons_self ..))

/-- all-or-nothing for the multi-key conditional write: MSETNX that answers 0 (some key existed,
    whichever position it has in the argument list) has written none of the pairs -/
theorem msetnx_all_or_nothing (s : State) (now : Nat) (kvs : List (Nat × BS))
    (h : (step s now (.msetnx kvs)).2 = .int 0) : view (step s now (.msetnx kvs)).1 now = view s now := by
  unfold step at *
  simp only [exec, execMSetNx] at *
  split at h
  · rename_i hc
    simp only [hc, if_true]
    exact view_purge s now
  · simp at h

/-! ## scripts (EVAL of a sequence of `redis.call`s)

The property text quantifies over "the full command set (including … scripts)".  For a script the
statement is FALSE — in Redis itself and in /repo alike: a `redis.call` that fails after an earlier
call has written aborts the script, EVAL replies with the error, and the earlier write stays (no
rollback).  Full statement, counterexample, and the part that does hold. -/

/-- full statement for scripts -/
def C17_script_error_is_noop : Prop :=
  ∀ (s : State) (now : Nat) (cs : List Cmd),
    (stepScript s now cs).2.isError = true → view (stepScript s now cs).1 now = view s now

/-- `EVAL "redis.call('SET','a','x'); redis.call('INCR','l')"` with `l` a list: WRONGTYPE, and `a` is set -/
theorem script_error_counterexample : ¬ C17_script_error_is_noop := by
  intro h
  have := h [(2, ⟨.list [[120]], none⟩)] 1000 [.set 1 [120] .always .none false, .incr 2] (by decide)
  revert this
  decide

/-- every call that ran before the failing one (or all of them, if none fails) is read-only -/
def prefixReadOnly (s : State) (now : Nat) : List Cmd → Bool
  | [] => true
  | c :: cs =>
    match (step s now c).2 with
    | .err _ => true
    | _ => isReadOnly c && prefixReadOnly (step s now c).1 now cs

/-- what holds: the failing call itself contributes nothing, so a script whose calls before the
    failing one only read leaves the visible keyspace unchanged — whether it fails or not -/
theorem script_error_is_noop_partial (s : State) (now : Nat) (cs : List Cmd)
    (h : prefixReadOnly s now cs = true) : view (stepScript s now cs).1 now = view s now := by
  induction cs generalizing s with
  | nil => rfl
  | cons c cs ih =>
    simp only [stepScript]
    simp only [prefixReadOnly] at h
    split
    · rename_i e he
      exact error_is_noop s now c (by rw [he]; rfl)
    · rename_i hne
      split at h
      · rename_i e he; exact absurd he (hne e)
      · simp only [Bool.and_eq_true] at h
        rw [ih _ h.2]
        exact readonly_is_noop s now c h.1

/-- the failing call leaves the state of the calls before it: a script that fails at its FIRST
    call changes nothing -/
theorem script_first_call_error_is_noop (s : State) (now : Nat) (c : Cmd) (cs : List Cmd)
    (he : (step s now c).2.isError = true) :
    (stepScript s now (c :: cs)).2 = (step s now c).2 ∧
    view (stepScript s now (c :: cs)).1 now = view s now := by
  simp only [stepScript]
  cases hr : (step s now c).2 with
  | err e => exact ⟨rfl, error_is_noop s now c he⟩
  | _ => rw [hr] at he; cases he

-- non-vacuity: a script that reads, then fails
example : prefixReadOnly [(2, ⟨.list [[120]], none⟩)] 1000 [.llen 2, .incr 2, .del [2]] = true := by decide
example : (stepScript [(2, ⟨.list [[120]], none⟩)] 1000 [.llen 2, .incr 2, .del [2]]).2 = .err .wrongType := by decide

/-! ## non-vacuity: concrete failing commands in a state with mixed types and a deadline -/

/-- a = "10" (deadline 2000), b = list ["x"], c = "abc" -/
def st0 : State :=
  [(1, ⟨.str [49, 48], some 2000⟩), (2, ⟨.list [[120]], none⟩), (3, ⟨.str [97, 98, 99], none⟩)]

example : Inv st0 := by decide
-- wrong type
example : (step st0 1000 (.incr 2)).2 = .err .wrongType := by decide
-- not an integer
example : (step st0 1000 (.incr 3)).2 = .err .notInt := by decide
-- overflow
example : (step st0 1000 (.incrby 1 9223372036854775807)).2 = .err .overflow := by decide
-- SET … GET on a non-string, although the SET part alone would succeed
example : (step st0 1000 (.set 2 [118] .always .none true)).2 = .err .wrongType := by decide
-- invalid expire time
example : (step st0 1000 (.set 1 [118] .always (.ex 0) false)).2 = .err .invalidExpire := by decide
-- RENAME of a missing key
example : (step st0 1000 (.rename 9 1)).2 = .err .noSuchKey := by decide
-- the failing command really is a no-op on the visible keyspace (instance of the theorem)
example : view (step st0 1000 (.incr 2)).1 1000 = view st0 1000 := by decide
-- two-key command whose SECOND key is at fault: the source list keeps its element
example : (step st0 1000 (.rpoplpush 2 1)).2 = .err .wrongType ∧
    view (step st0 1000 (.rpoplpush 2 1)).1 1000 = view st0 1000 := by decide
example : (step st0 1000 (.lmove 2 3 .left .right)).2 = .err .wrongType := by decide
-- SORT src STORE dst with a wrong-type source (seed C17-sort-store-clears-ttl-before-type-check):
-- dst = a (deadline 2000) keeps value and deadline; also with a non-numeric element in the source
example : (step [(1, ⟨.list [[120]], some 2000⟩), (2, ⟨.hash [(5, [1])], none⟩)] 1000 (.sort 2 (some 1))).2 = .err .wrongType ∧
    view (step [(1, ⟨.list [[120]], some 2000⟩), (2, ⟨.hash [(5, [1])], none⟩)] 1000 (.sort 2 (some 1))).1 1000 =
      view [(1, ⟨.list [[120]], some 2000⟩), (2, ⟨.hash [(5, [1])], none⟩)] 1000 := by decide
example : (step st0 1000 (.sort 2 (some 1))).2 = .err .notDouble ∧
    view (step st0 1000 (.sort 2 (some 1))).1 1000 = view st0 1000 := by decide
-- multi-element commands on a key of the wrong type
example : (step st0 1000 (.sadd 2 [5, 6, 7])).2 = .err .wrongType := by decide
example : (step st0 1000 (.hset 1 [(5, [1]), (6, [2])])).2 = .err .wrongType := by decide
example : (step st0 1000 (.zadd 3 ⟨false, false, false, false, false⟩ [([1], .fin 1), ([2], .pinf)])).2 = .err .wrongType := by decide
-- bad index, bad score bound, HINCRBY on a non-integer field
example : (step st0 1000 (.lset 2 5 [1])).2 = .err .indexRange := by decide
example : (step st0 1000 (.zcount 2 none (some ⟨false, .pinf⟩))).2 = .err .notFloat := by decide
-- MSETNX with the third pair at fault writes nothing
example : (step st0 1000 (.msetnx [(8, [1]), (9, [2]), (3, [3])])).2 = .int 0 := by decide
-- read-only commands with non-trivial replies
example : (step st0 1000 (.ttl 1)).2 = .int 1 := by decide
example : (step st0 1000 (.mget [1, 2, 3])).2 = .arr [.bulk [49, 48], .nil, .bulk [97, 98, 99]] := by decide
-- …and a non-failing write DOES change the view, so `view` is not blind
example : view (step st0 1000 (.incr 1)).1 1000 ≠ view st0 1000 := by decide

/-! ## the commands outside `Cmd` (`Model/RedisX.lean`: SETBIT / GETBIT, BatchSet / BatchGet, KEYS pattern) -/

theorem x_error_is_noop (s : State) (now : Nat) (c : RedisX.XCmd)
    (he : (RedisX.stepX s now c).2.isError = true) : view (RedisX.stepX s now c).1 now = view s now := by
  unfold RedisX.stepX at *
  rw [RedisX.execX_err he, view_purge]

theorem x_readonly_is_noop (s : State) (now : Nat) (c : RedisX.XCmd)
    (hr : RedisX.isReadOnlyX c = true) : view (RedisX.stepX s now c).1 now = view s now := by
  unfold RedisX.stepX
  rw [RedisX.execX_ro hr, view_purge]

-- BatchGet is not classified read-only by `Command::is_read_only` although it only reads
example : RedisX.isReadOnlyX (.batchget [1, 2]) = false := rfl
example : (RedisX.stepX st0 1000 (.setbit 2 3 1)).2 = .err .wrongType := by decide

end RedisVerif.C17
