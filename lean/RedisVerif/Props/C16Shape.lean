import RedisVerif.Model.GrammarGen
import RedisVerif.Lemmas.GrammarAlphabet
import RedisVerif.Props.C16

/-!
# C16 — the shape table is the grammar

`./check C16` extracts, from the match arms of `parser.rs`, `commands.rs` and `parse_lua_command_bytes`,
a shape descriptor per command (arity rule and text, slot kinds, tail, option table, constructors) and
compares it field by field with `Grammar.shapeRows table` / `shapeRows luaTable`.  The theorems here
say that this table is not a second, hand-kept description but the grammar the C16 theorems are about:

* `body_run_gen` — every body of every table entry (table-driven or hand-written) is the generic body
  `runGen` over its descriptor, on every argument list its domain admits;
* `table_doms_ok` / `luaTable_doms_ok` — the arity rule of every entry implies the domain of its body
  (so a body never runs outside its domain: `BErr.unreachable` is unreachable);
* `parse_is_generic` / `parse_is_generic_sub` / `parseLua_is_generic` — hence `parseCmd` and `parseLua`
  are, for every frame, the arity test of the row followed by `runGen` over the row's descriptor;
* `parse_alphabet` / `parse_alphabet_sub` / `parseLua_alphabet` — everything a grammar can answer for a command is
  named by the command's row: the constructors of the row, the arity text of the row, an error literal of the
  row (slot texts, option-value and missing-value texts, the unknown-word text, the literals of the finishing
  checks) or a formatted error of the row's option table — for every frame, all three grammars.  (The `flits` /
  `ctor` columns the check compares with the source are therefore complete, not merely declared.)
-/
namespace RedisVerif
namespace C16

open Grammar

theorem takeSlots_fixed : ∀ (pre : List Arg) (args : List Bytes), pre.length ≤ args.length →
    takeSlots pre args =
      (match extractFixed pre (args.take pre.length) with
       | .ok ts => .ok (ts, args.drop pre.length)
       | .error e => .error e) := by
  intro pre
  induction pre with
  | nil => intro args _; simp [takeSlots, extractFixed]
  | cons a as ih =>
    intro args hl
    match args with
    | [] => simp at hl
    | v :: vs =>
      have hl' : as.length ≤ vs.length := by simpa using hl
      simp only [takeSlots, List.length_cons, List.take_succ_cons, List.drop_succ_cons, extractFixed, bind, Except.bind,
        pure, Except.pure, ih vs hl']
      cases a.extract v with
      | error e => rfl
      | ok t => cases extractFixed as (List.take as.length vs) <;> rfl

theorem takeOpt_nil (vs : List Bytes) : takeOpt [] vs = .ok ([], vs) := by
  cases vs <;> rfl

/-- every body is the generic body over its descriptor, wherever its domain admits the argument count -/
theorem body_run_gen (b : Body) (args : List Bytes) (h : b.gen.dom.ok args.length = true) :
    b.run args = runGen b.gen args := by
  cases b with
  | custom cb => exact cb.desc_ok args
  | const c => simp [Body.run, Body.gen, runGen, Arity.ok, takeSlots, takeOpt_nil, Tail.run, bind, Except.bind]
  | fixed c slots =>
    simp only [Body.gen, Arity.ok, beq_iff_eq] at h
    have hl : slots.length ≤ args.length := by omega
    simp only [Body.run, Body.gen, runGen, Arity.ok, h, beq_self_eq_true, takeSlots_fixed slots args hl, takeOpt_nil,
      Tail.run, bind, Except.bind, pure, Except.pure]
    rw [← h, List.take_length, List.drop_length]
    cases extractFixed slots args <;> simp
  | many c pre each =>
    simp only [Body.gen, Arity.ok, decide_eq_true_eq] at h
    simp only [Body.run, Body.gen, runGen, Arity.ok, h, decide_true, takeSlots_fixed pre args h, takeOpt_nil,
      Tail.run, bind, Except.bind, pure, Except.pure]
    cases extractFixed pre (List.take pre.length args) with
    | error e => rfl
    | ok ts =>
      simp only [List.append_nil]
      cases extractAll each (List.drop pre.length args) <;> rfl
  | pairs c pre a b' =>
    have hl : pre.length ≤ args.length := by
      simp only [Body.gen] at h
      split at h <;> simp only [Arity.ok, Bool.and_eq_true, decide_eq_true_eq] at h <;> exact h.1
    unfold runGen
    rw [h]
    simp only [Body.run, Body.gen, takeSlots_fixed pre args hl, takeOpt_nil,
      Tail.run, bind, Except.bind, pure, Except.pure]
    cases extractFixed pre (List.take pre.length args) with
    | error e => rfl
    | ok ts =>
      simp only [List.append_nil]
      cases extractPairs a b' (List.drop pre.length args) <;> rfl

/-- the arity rule of every entry of `from_resp`'s table implies the domain of its body -/
theorem table_doms_ok : (shapeRows table).all (fun r => aritySub r.arity r.gen.dom) = true := by decide +kernel

theorem luaTable_doms_ok : (shapeRows luaTable).all (fun r => aritySub r.arity r.gen.dom) = true := by decide +kernel

theorem row_mem_cmd {tbl : List Entry} {s : Spec} (h : Entry.cmd s ∈ tbl) : s.row [] ∈ shapeRows tbl := by
  simp only [shapeRows, List.mem_flatMap]
  exact ⟨.cmd s, h, by simp⟩

theorem row_mem_sub {tbl : List Entry} {n a : Bytes} {subs : List Spec} {d : Bytes → List Bytes → Res} {s : Spec}
    (h : Entry.family n a subs d ∈ tbl) (hs : s ∈ subs) : s.row (n ++ [46]) ∈ shapeRows tbl := by
  simp only [shapeRows, List.mem_flatMap]
  exact ⟨.family n a subs d, h, by simp only [List.mem_map]; exact ⟨s, hs, rfl⟩⟩

/-- a spec whose arity rule implies its body's domain runs the generic body -/
theorem spec_run_gen (s : Spec) (hd : aritySub s.arity s.body.gen.dom = true) (args : List Bytes) :
    s.run args = if s.arity.ok args.length then liftB (runGen s.body.gen args) else .error (.arity s.arityErr) := by
  unfold Spec.run
  cases ha : s.arity.ok args.length with
  | false => rfl
  | true =>
    simp only [if_true]
    rw [body_run_gen s.body args (arity_sub hd _ ha)]
    cases runGen s.body.gen args <;> rfl

/-- `Command::from_resp` on a command with a table entry: the row's arity test, then the generic body
    over the row's shape descriptor — for every frame -/
theorem parse_is_generic (name : Bytes) (args : List Bytes) (s : Spec)
    (h : findEntry table (kw name) = some (.cmd s)) :
    s.row [] ∈ shapeRows table ∧
    parseCmd (name :: args) =
      if s.arity.ok args.length then liftB (runGen s.body.gen args) else .error (.arity s.arityErr) := by
  have hm := row_mem_cmd (findEntry_mem h)
  have hd := List.all_eq_true.mp table_doms_ok _ hm
  exact ⟨hm, by rw [parse_of_find h]; exact spec_run_gen s hd args⟩

/-- the same one level down (CONFIG / ACL / SCRIPT / FUNCTION / CLIENT / OBJECT / DEBUG sub-commands) -/
theorem parse_is_generic_sub (name sub : Bytes) (args : List Bytes) (fam aerr : Bytes) (subs : List Spec)
    (d : Bytes → List Bytes → Res) (s : Spec)
    (h : findEntry table (kw name) = some (.family fam aerr subs d)) (hs : findSpec subs (kw sub) = some s) :
    s.row (fam ++ [46]) ∈ shapeRows table ∧
    parseCmd (name :: sub :: args) =
      if s.arity.ok args.length then liftB (runGen s.body.gen args) else .error (.arity s.arityErr) := by
  have hm := row_mem_sub (findEntry_mem h) (findSpec_mem hs)
  have hd := List.all_eq_true.mp table_doms_ok _ hm
  refine ⟨hm, ?_⟩
  simp only [parseCmd, parseWith, h, hs]
  exact spec_run_gen s hd args

/-- the redis.call translator on a command with a table entry -/
theorem parseLua_is_generic (name : Bytes) (args : List Bytes) (s : Spec)
    (h : findEntry luaTable (kw name) = some (.cmd s)) :
    s.row [] ∈ shapeRows luaTable ∧
    parseLua (name :: args) =
      if s.arity.ok args.length then liftB (runGen s.body.gen args) else .error (.arity s.arityErr) := by
  have hm := row_mem_cmd (findEntry_mem h)
  have hd := List.all_eq_true.mp luaTable_doms_ok _ hm
  refine ⟨hm, ?_⟩
  simp only [parseLua, h, parseWith]
  exact spec_run_gen s hd args

/-! ## the error / constructor alphabet of every command -/

theorem table_tails_plain : (shapeRows table).all (fun r => r.gen.tail.plain) = true := by decide +kernel
theorem luaTable_tails_plain : (shapeRows luaTable).all (fun r => r.gen.tail.plain) = true := by decide +kernel

/-- what a grammar may answer for a command whose row is `(arityErr, d)` -/
def RowAllows (arityErr : Bytes) (d : GenDesc) : Res → Prop
  | .ok c => c.ctor ∈ d.ctors
  | .error (.arity t) => t = arityErr
  | .error (.body e) => e = .unreachable ∨ (∃ l ∈ d.lits, e = .lit l) ∨ (∃ f ∈ d.tail.fmts, ∃ w, e = .fmt f w)
  | .error (.unknown _) => False

theorem spec_allowed (s : Spec) (hd : aritySub s.arity s.body.gen.dom = true) (hp : s.body.gen.tail.plain = true)
    (args : List Bytes) : RowAllows s.arityErr s.body.gen (s.run args) := by
  rw [spec_run_gen s hd args]
  cases s.arity.ok args.length with
  | false => exact rfl
  | true =>
    simp only [if_true]
    have := runGen_allowed s.body.gen (body_gen_finOk s.body) hp args
    cases hr : runGen s.body.gen args with
    | ok c => rw [hr] at this; exact this
    | error e => rw [hr] at this; exact this

/-- everything `Command::from_resp` answers for a command with a table entry is named by the entry's row -/
theorem parse_alphabet (name : Bytes) (args : List Bytes) (s : Spec)
    (h : findEntry table (kw name) = some (.cmd s)) :
    RowAllows s.arityErr s.body.gen (parseCmd (name :: args)) := by
  have hm := row_mem_cmd (findEntry_mem h)
  rw [parse_of_find h]
  exact spec_allowed s (List.all_eq_true.mp table_doms_ok _ hm) (List.all_eq_true.mp table_tails_plain _ hm) args

/-- the same for the sub-commands of CONFIG / ACL / SCRIPT / FUNCTION / CLIENT / OBJECT / DEBUG -/
theorem parse_alphabet_sub (name sub : Bytes) (args : List Bytes) (fam aerr : Bytes) (subs : List Spec)
    (d : Bytes → List Bytes → Res) (s : Spec)
    (h : findEntry table (kw name) = some (.family fam aerr subs d)) (hs : findSpec subs (kw sub) = some s) :
    RowAllows s.arityErr s.body.gen (parseCmd (name :: sub :: args)) := by
  have hm := row_mem_sub (findEntry_mem h) (findSpec_mem hs)
  simp only [parseCmd, parseWith, h, hs]
  exact spec_allowed s (List.all_eq_true.mp table_doms_ok _ hm) (List.all_eq_true.mp table_tails_plain _ hm) args

/-- and for the redis.call translator -/
theorem parseLua_alphabet (name : Bytes) (args : List Bytes) (s : Spec)
    (h : findEntry luaTable (kw name) = some (.cmd s)) :
    RowAllows s.arityErr s.body.gen (parseLua (name :: args)) := by
  have hm := row_mem_cmd (findEntry_mem h)
  simp only [parseLua, h, parseWith]
  exact spec_allowed s (List.all_eq_true.mp luaTable_doms_ok _ hm) (List.all_eq_true.mp luaTable_tails_plain _ hm) args

/-- non-vacuity: the alphabet of SET — 2 constructors' worth of structure: one constructor, eight literals
    (four option values share the integer text), two refusals + no unknown-word format -/
example : setSpec.body.gen.ctors = [s2b "Set"] ∧
    setSpec.body.gen.lits = [.notInt, .setEx, .notInt, .setPx, .notInt, .setExat, .notInt, .setPxat, .syntax, .nxxx, .syntax] ∧
    setSpec.body.gen.tail.fmts = [.setNotSupported, .setNotSupported] := by
  refine ⟨rfl, by decide, by decide⟩

/-- non-vacuity: the row of SET is found, its descriptor has two leading slots and a ten-entry option
    table, and the generic body answers what the grammar answers -/
example : findEntry table (kw (s2b "set")) = some (.cmd setSpec) ∧
    setSpec.body.gen.pre.length = 2 ∧
    (match setSpec.body.gen.tail with | .scan tbl _ => tbl.length | _ => 0) = 10 ∧
    liftB (runGen setSpec.body.gen [s2b "k", s2b "v", s2b "ex", s2b "5"]) = parseCmd [s2b "SET", s2b "k", s2b "v", s2b "EX", s2b "5"] :=
  ⟨by rw [show kw (s2b "set") = s2b "SET" by decide]; exact find_set, by rfl, by rfl, by decide⟩

end C16
end RedisVerif
