import RedisVerif.Model.GrammarGen
import RedisVerif.Lemmas.GrammarAlphabet
import RedisVerif.Props.C16

/-!
# C16 — the shape table is the grammar

`./check C16` extracts, from the match arms of `parser.rs`, `commands.rs` and `parse_lua_command_bytes`,
a shape descriptor per command (arity rule and text, slot kinds, tail, option table, constructors) and
compares it field by field with `Grammar.shapeRows table` / `shapeRows luaTable`.  The theorems here
say that this table is not a second, hand-kept description but the grammar the C16 theorems are about:

* `body_run_gen` — every body of every table entry (table-driven or hand-written) is the generic body
  `runGen` over its descriptor, on every argument list its domain admits;
* `table_doms_ok` / `luaTable_doms_ok` — the arity rule of every entry implies the domain of its body
  (so a body never runs outside its domain: `BErr.unreachable` is unreachable);
* `parse_is_generic` / `parse_is_generic_sub` / `parseLua_is_generic` — hence `parseCmd` and `parseLua`
  are, for every frame, the arity test of the row followed by `runGen` over the row's descriptor;
* `parse_alphabet` / `parse_alphabet_sub` / `parseLua_alphabet` — everything a grammar can answer for a command is
  named by the command's row: the constructors of the row, the arity text of the row, an error literal of the
  row (slot texts, option-value and missing-value texts, the unknown-word text, the literals of the finishing
  checks) or a formatted error of the row's option table — for every frame, all three grammars.  (The `flits` /
  `ctor` columns the check compares with the source are therefore complete, not merely declared.)
-/
namespace RedisVerif
namespace C16

open Grammar

theorem takeSlots_fixed : ∀ (pre : List Arg) (args : List Bytes), pre.length ≤ args.length →
    takeSlots pre args =
      (match extractFixed pre (args.take pre.length) with
       | .ok ts => .ok (ts, args.drop pre.length)
       | .error e => .error e) := by
  intro pre
  induction pre with
  | nil => intro args _; simp [takeSlots, extractFixed]
  | cons a as ih =>
    intro args hl
    match args with
    | [] => simp at hl
    | v :: vs =>
      have hl' : as.length ≤ vs.length := by simpa using hl
      simp only [takeSlots, List.length_cons, List.take_succ_cons, List.drop_succ_cons, extractFixed, bind, Except.bind,
        pure, Except.pure, ih vs hl']
      cases a.extract v with
      | error e => rfl
      | ok t => cases extractFixed as (List.take as.length vs) <;> rfl

theorem takeOpt_nil (vs : List Bytes) : takeOpt [] vs = .ok ([], vs) := by
  cases vs <;> rfl

/-- every body is the generic body over its descriptor, wherever its domain admits the argument count -/
theorem body_run_gen (b : Body) (args : List Bytes) (h : b.gen.dom.ok args.length = true) :
    b.run args = runGen b.gen args := by
  cases b with
  | custom cb => exact cb.desc_ok args
  | const c => simp [Body.run, Body.gen, runGen, Arity.ok, takeSlots, takeOpt_nil, Tail.run, bind, Except.bind]
  | fixed c slots =>
    simp only [Body.gen, Arity.ok, beq_iff_eq] at h
    have hl : slots.length ≤ args.length := by omega
    simp only [Body.run, Body.gen, runGen, Arity.ok, h, beq_self_eq_true, takeSlots_fixed slots args hl, takeOpt_nil,
      Tail.run, bind, Except.bind, pure, Except.pure]
    rw [← h, List.take_length, List.drop_length]
    cases extractFixed slots args <;> simp
  | many c pre each =>
    simp only [Body.gen, Arity.ok, decide_eq_true_eq] at h
    simp only [Body.run, Body.gen, runGen, Arity.ok, h, decide_true, takeSlots_fixed pre args h, takeOpt_nil,
      Tail.run, bind, Except.bind, pure, Except.pure]
    cases extractFixed pre (List.take pre.length args) with
    | error e => rfl
    | ok ts =>
      simp only [List.append_nil]
      cases extractAll each (List.drop pre.length args) <;> rfl
  | pairs c pre a b' =>
    have hl : pre.length ≤ args.length := by
      simp only [Body.gen] at h
      split at h <;> simp only [Arity.ok, Bool.and_eq_true, decide_eq_true_eq] at h <;> exact h.1
    unfold runGen
    rw [h]
    simp only [Body.run, Body.gen, takeSlots_fixed pre args hl, takeOpt_nil,
      Tail.run, bind, Except.bind, pure, Except.pure]
    cases extractFixed pre (List.take pre.length args) with
    | error e => rfl
    | ok ts =>
      simp only [List.append_nil]
      cases extractPairs a b' (List.drop pre.length args) <;> rfl

/-- the arity rule of every entry of `from_resp`'s table implies the domain of its body -/
theorem table_doms_ok : (shapeRows table).all (fun r => aritySub r.arity r.gen.dom) = true := by decide +kernel

theorem luaTable_doms_ok : (shapeRows luaTable).all (fun r => aritySub r.arity r.gen.dom) = true := by decide +kernel

theorem row_mem_cmd {tbl : List Entry} {s : Spec} (h : Entry.cmd s ∈ tbl) : s.row [] ∈ shapeRows tbl := by
  simp only [shapeRows, List.mem_flatMap]
  exact ⟨.cmd s, h, by simp⟩

theorem row_mem_sub {tbl : List Entry} {n a : Bytes} {subs : List Spec} {d : Bytes → List Bytes → Res} {s : Spec}
    (h : Entry.family n a subs d ∈ tbl) (hs : s ∈ subs) : s.row (n ++ [46]) ∈ shapeRows tbl := by
  simp only [shapeRows, List.mem_flatMap]
  exact ⟨.family n a subs d, h, by simp only [List.mem_map]; exact ⟨s, hs, rfl⟩⟩

/-- a spec whose arity rule implies its body's domain runs the generic body -/
theorem spec_run_gen (s : Spec) (hd : aritySub s.arity s.body.gen.dom = true) (args : List Bytes) :
    s.run args = if s.arity.ok args.length then liftB (runGen s.body.gen args) else .error (.arity s.arityErr) := by
  unfold Spec.run
  cases ha : s.arity.ok args.length with
  | false => rfl
  | true =>
    simp only [if_true]
    rw [body_run_gen s.body args (arity_sub hd _ ha)]
    cases runGen s.body.gen args <;> rfl

/-- `Command::from_resp` on a command with a table entry: the row's arity test, then the generic body
    over the row's shape descriptor — for every frame -/
theorem parse_is_generic (name : Bytes) (args : List Bytes) (s : Spec)
    (h : findEntry table (kw name) = some (.cmd s)) :
    s.row [] ∈ shapeRows table ∧
    parseCmd (name :: args) =
      if s.arity.ok args.length then liftB (runGen s.body.gen args) else .error (.arity s.arityErr) := by
  have hm := row_mem_cmd (findEntry_mem h)
  have hd := List.all_eq_true.mp table_doms_ok _ hm
  exact ⟨hm, by rw [parse_of_find h]; exact spec_run_gen s hd args⟩

/-- the same one level down (CONFIG / ACL / SCRIPT / FUNCTION / CLIENT / OBJECT / DEBUG sub-commands) -/
theorem parse_is_generic_sub (name sub : Bytes) (args : List Bytes) (fam aerr : Bytes) (subs : List Spec)
    (d : Bytes → List Bytes → Res) (s : Spec)
    (h : findEntry table (kw name) = some (.family fam aerr subs d)) (hs : findSpec subs (kw sub) = some s) :
    s.row (fam ++ [46]) ∈ shapeRows table ∧
    parseCmd (name :: sub :: args) =
      if s.arity.ok args.length then liftB (runGen s.body.gen args) else .error (.arity s.arityErr) := by
  have hm := row_mem_sub (findEntry_mem h) (findSpec_mem hs)
  have hd := List.all_eq_true.mp table_doms_ok _ hm
  refine ⟨hm, ?_⟩
  simp only [parseCmd, parseWith, h, hs]
  exact spec_run_gen s hd args

/-- the redis.call translator on a command with a table entry -/
theorem parseLua_is_generic (name : Bytes) (args : List Bytes) (s : Spec)
    (h : findEntry luaTable (kw name) = some (.cmd s)) :
    s.row [] ∈ shapeRows luaTable ∧
    parseLua (name :: args) =
      if s.arity.ok args.length then liftB (runGen s.body.gen args) else .error (.arity s.arityErr) := by
  have hm := row_mem_cmd (findEntry_mem h)
  have hd := List.all_eq_true.mp luaTable_doms_ok _ hm
  refine ⟨hm, ?_⟩
  simp only [parseLua, h, parseWith]
  exact spec_run_gen s hd args

/-! ## the error / constructor alphabet of every command -/

theorem table_tails_plain : (shapeRows table).all (fun r => r.gen.tail.plain) = true := by decide +kernel
theorem luaTable_tails_plain : (shapeRows luaTable).all (fun r => r.gen.tail.plain) = true := by decide +kernel

/-- what a grammar may answer for a command whose row is `(arityErr, d)` -/
def RowAllows (arityErr : Bytes) (d : GenDesc) : Res → Prop
  | .ok c => c.ctor ∈ d.ctors
  | .error (.arity t) => t = arityErr
  | .error (.body e) => e = .unreachable ∨ (∃ l ∈ d.lits, e = .lit l) ∨ (∃ f ∈ d.tail.fmts, ∃ w, e = .fmt f w)
  | .error (.unknown _) => False

theorem spec_allowed (s : Spec) (hd : aritySub s.arity s.body.gen.dom = true) (hp : s.body.gen.tail.plain = true)
    (args : List Bytes) : RowAllows s.arityErr s.body.gen (s.run args) := by
  rw [spec_run_gen s hd args]
  cases s.arity.ok args.length with
  | false => exact rfl
  | true =>
    simp only [if_true]
    have := runGen_allowed s.body.gen (body_gen_finOk s.body) hp args
    cases hr : runGen s.body.gen args with
    | ok c => rw [hr] at this; exact this
    | error e => rw [hr] at this; exact this

/-- everything `Command::from_resp` answers for a command with a table entry is named by the entry's row -/
theorem parse_alphabet (name : Bytes) (args : List Bytes) (s : Spec)
    (h : findEntry table (kw name) = some (.cmd s)) :
    RowAllows s.arityErr s.body.gen (parseCmd (name :: args)) := by
  have hm := row_mem_cmd (findEntry_mem h)
  rw [parse_of_find h]
  exact spec_allowed s (List.all_eq_true.mp table_doms_ok _ hm) (List.all_eq_true.mp table_tails_plain _ hm) args

/-- the same for the sub-commands of CONFIG / ACL / SCRIPT / FUNCTION / CLIENT / OBJECT / DEBUG -/
theorem parse_alphabet_sub (name sub : Bytes) (args : List Bytes) (fam aerr : Bytes) (subs : List Spec)
    (d : Bytes → List Bytes → Res) (s : Spec)
    (h : findEntry table (kw name) = some (.family fam aerr subs d)) (hs : findSpec subs (kw sub) = some s) :
    RowAllows s.arityErr s.body.gen (parseCmd (name :: sub :: args)) := by
  have hm := row_mem_sub (findEntry_mem h) (findSpec_mem hs)
  simp only [parseCmd, parseWith, h, hs]
  exact spec_allowed s (List.all_eq_true.mp table_doms_ok _ hm) (List.all_eq_true.mp table_tails_plain _ hm) args

/-- and for the redis.call translator -/
theorem parseLua_alphabet (name : Bytes) (args : List Bytes) (s : Spec)
    (h : findEntry luaTable (kw name) = some (.cmd s)) :
    RowAllows s.arityErr s.body.gen (parseLua (name :: args)) := by
  have hm := row_mem_cmd (findEntry_mem h)
  simp only [parseLua, h, parseWith]
  exact spec_allowed s (List.all_eq_true.mp luaTable_doms_ok _ hm) (List.all_eq_true.mp luaTable_tails_plain _ hm) args

/-- non-vacuity: the alphabet of SET — 2 constructors' worth of structure: one constructor, eight literals
    (four option values share the integer text), two refusals + no unknown-word format -/
example : setSpec.body.gen.ctors = [s2b "Set"] ∧
    setSpec.body.gen.lits = [.notInt, .setEx, .notInt, .setPx, .notInt, .setExat, .notInt, .setPxat, .syntax, .nxxx, .syntax] ∧
    setSpec.body.gen.tail.fmts = [.setNotSupported, .setNotSupported] := by
  refine ⟨rfl, by decide, by decide⟩

/-! ## the conflict rules of the option-scan commands, exactly -/

/-- SET: once the options have been scanned (`s`), the command is refused exactly when a rule of `setChecks`
    fires — NX with XX, or KEEPTTL with EX / PX / EXAT / PXAT — with the text of the first rule that does; no
    other combination of options is a conflict (SET … EX … PX …, SET … NX GET, … are accepted) -/
theorem conflict_rules_exact_set {name : Bytes} (hn : kw name = s2b "SET") (k v : Bytes) (opts : List Bytes) (s : Seen)
    (hs : scanOpts Bodies.setOpts (fun _ => some (.lit .syntax)) opts = .ok s) :
    parseCmd (name :: k :: v :: opts) =
      (match firstFiring s Desc.setChecks with
       | some l => .error (.body (.lit l))
       | none => .ok (Bodies.mkSet (.s (lossy k)) (.d v) (s.opt1 3) (s.opt1 4) (s.opt1 5) (s.opt1 6)
                  (s.has 0) (s.has 1) (s.has 2) (s.has 7))) := by
  rw [parse_set hn, Shape.set]
  simp only [runGen, Desc.set, Arity.ok, List.length_cons, takeSlots, takeOpt, Tail.run, bind, Except.bind, pure, Except.pure,
    Shape.extract_str, Shape.extract_sds, List.append_nil]
  have hu : Unk.fn (.lit .syntax) = fun _ => some (BErr.lit .syntax) := rfl
  have hd : decide (2 ≤ opts.length + 1 + 1) = true := by simp
  rw [hu, hs]
  simp only [hd, finWithChecks]
  cases firstFiring s Desc.setChecks <;> rfl

/-- EXPIRE / PEXPIRE: refused exactly when NX comes with XX, GT or LT, or GT with LT -/
theorem conflict_rules_exact_expire {name : Bytes} (hn : kw name = s2b "EXPIRE") (k n : Bytes) (i : Int)
    (hi : parseI64 n = some i) (opts : List Bytes) (s : Seen)
    (hs : scanOpts Bodies.expireOpts (fun w => some (.fmt .unsupportedOption w)) opts = .ok s) :
    parseCmd (name :: k :: n :: opts) =
      (match firstFiring s Desc.expireChecks with
       | some l => .error (.body (.lit l))
       | none => .ok ⟨s2b "Expire", [.s (lossy k), .i i, .b (s.has 0), .b (s.has 1), .b (s.has 2), .b (s.has 3)]⟩) := by
  rw [parse_expire hn, Shape.expire]
  simp only [runGen, Desc.expire, Arity.ok, List.length_cons, takeSlots, takeOpt, Tail.run, bind, Except.bind, pure, Except.pure,
    Shape.extract_str, List.append_nil]
  have hx : aInt.extract n = .ok (.i i) := by simp [aInt, Arg.extract, hi]
  have hu : Unk.fn (.fmt .unsupportedOption) = fun w => some (BErr.fmt .unsupportedOption w) := rfl
  have hd : decide (2 ≤ opts.length + 1 + 1) = true := by simp
  rw [hx, hu]
  simp only [hs, hd, finWithChecks]
  cases firstFiring s Desc.expireChecks <;> rfl

/-- GETEX: refused exactly when more than one of EX / PX / EXAT / PXAT / PERSIST is given -/
theorem conflict_rules_exact_getex {name : Bytes} (hn : kw name = s2b "GETEX") (k : Bytes) (opts : List Bytes) (s : Seen)
    (hs : scanOpts Bodies.getexOpts (fun _ => some (.lit .syntax)) opts = .ok s) :
    parseCmd (name :: k :: opts) =
      (match firstFiring s Desc.getexChecks with
       | some l => .error (.body (.lit l))
       | none => .ok ⟨s2b "GetEx", [.s (lossy k), s.opt1 0, s.opt1 1, s.opt1 2, s.opt1 3, .b (s.has 4)]⟩) := by
  rw [parse_getex hn, Shape.getex]
  simp only [runGen, Desc.getex, Arity.ok, List.length_cons, takeSlots, takeOpt, Tail.run, bind, Except.bind, pure, Except.pure,
    Shape.extract_str, List.append_nil]
  have hu : Unk.fn (.lit .syntax) = fun _ => some (BErr.lit .syntax) := rfl
  have hd : decide (1 ≤ opts.length + 1) = true := by simp
  rw [hu, hs]
  simp only [hd, finWithChecks]
  cases firstFiring s Desc.getexChecks <;> rfl

/-- every entry's declared conflict rules are what its finishing function tests (the `checks` column of the
    shape table) -/
theorem table_checks_ok (b : Body) : ChecksOk b.gen := by
  cases b with
  | custom cb => exact cb.checks_ok
  | const c => rfl
  | fixed c sl => rfl
  | many c p e => rfl
  | pairs c p a b' => rfl

/-- non-vacuity: `NX GET XX` fires the first rule, `KEEPTTL EX 5` the second, `EX 1 PX 2` none -/
example : firstFiring [(0, []), (2, []), (1, [])] Desc.setChecks = some .nxxx ∧
    firstFiring [(7, []), (3, [.i 5])] Desc.setChecks = some .syntax ∧
    firstFiring [(3, [.i 1]), (4, [.i 2])] Desc.setChecks = none ∧
    firstFiring [(4, []), (0, [.i 1])] Desc.getexChecks = some .syntax := by decide

/-- non-vacuity: the row of SET is found, its descriptor has two leading slots and a ten-entry option
    table, and the generic body answers what the grammar answers -/
example : findEntry table (kw (s2b "set")) = some (.cmd setSpec) ∧
    setSpec.body.gen.pre.length = 2 ∧
    (match setSpec.body.gen.tail with | .scan tbl _ => tbl.length | _ => 0) = 10 ∧
    liftB (runGen setSpec.body.gen [s2b "k", s2b "v", s2b "ex", s2b "5"]) = parseCmd [s2b "SET", s2b "k", s2b "v", s2b "EX", s2b "5"] :=
  ⟨by rw [show kw (s2b "set") = s2b "SET" by decide]; exact find_set, by rfl, by rfl, by decide⟩

end C16
end RedisVerif
