import RedisVerif.Model.GrammarElem
import RedisVerif.Props.C16Shape

/-!
# C16 — command arrays with elements that are not bulk strings

`Grammar.parseE` is the grammar of both RESP parsers on arrays of arbitrary elements (bulk string, integer,
anything else), built from the SAME tables and shape descriptors as `parseCmd`, with the element-level
behaviour of the extract helpers.

* `parseE_bulk` — on an array of bulk strings it IS `parseCmd`, for every frame (so every theorem of C16
  about `parseCmd` is a theorem about `parseE` on such frames, and the two RESP parsers — one model — agree on
  every element frame by construction; the tie to both real parsers is the `PE` / `ZE` ops);
* `name_must_be_bulk`, `subcommand_must_be_bulk` — a non-bulk command name is `Invalid command format`, a non-bulk
  sub-command `Expected bulk string`;
* `integer_element_in_integer_slot` / `…_in_string_slot` — an integer element is taken as it is by an integer
  slot and refused by a string slot (pinned instances for INCRBY / GET / SETBIT / SELECT / EVAL).
-/
namespace RedisVerif
namespace C16

open Grammar

theorem extractE_bulk (a : Arg) (b : Bytes) : a.extractE (.bulk b) = a.extract b := rfl

theorem takeSlotsE_bulk : ∀ (as : List Arg) (vs : List Bytes),
    takeSlotsE as (vs.map .bulk) = (match takeSlots as vs with
      | .ok r => .ok (r.1, r.2.map Elem.bulk)
      | .error e => .error e) := by
  intro as
  induction as with
  | nil => intro vs; simp [takeSlotsE, takeSlots]
  | cons a as ih =>
    intro vs
    cases vs with
    | nil => simp [takeSlotsE, takeSlots]
    | cons v vs =>
      simp only [List.map_cons, takeSlotsE, takeSlots, extractE_bulk, ih vs, bind, Except.bind, pure, Except.pure]
      cases a.extract v with
      | error e => rfl
      | ok t => cases takeSlots as vs <;> rfl

theorem takeOptE_bulk : ∀ (as : List Arg) (vs : List Bytes),
    takeOptE as (vs.map .bulk) = (match takeOpt as vs with
      | .ok r => .ok (r.1, r.2.map Elem.bulk)
      | .error e => .error e) := by
  intro as
  induction as with
  | nil => intro vs; cases vs <;> simp [takeOptE, takeOpt]
  | cons a as ih =>
    intro vs
    cases vs with
    | nil => simp [takeOptE, takeOpt]
    | cons v vs =>
      simp only [List.map_cons, takeOptE, takeOpt, extractE_bulk, ih vs, bind, Except.bind, pure, Except.pure]
      cases a.extract v with
      | error e => rfl
      | ok t => cases takeOpt as vs <;> rfl

theorem extractAllE_bulk (a : Arg) : ∀ vs : List Bytes, extractAllE a (vs.map .bulk) = extractAll a vs := by
  intro vs
  induction vs with
  | nil => rfl
  | cons v vs ih => simp only [List.map_cons, extractAllE, extractAll, extractE_bulk, ih]

theorem extractPairsE_bulk (a b : Arg) : ∀ (n : Nat) (vs : List Bytes), vs.length ≤ n →
    extractPairsE a b (vs.map .bulk) = extractPairs a b vs := by
  intro n
  induction n with
  | zero => intro vs h; cases vs <;> simp_all [extractPairsE, extractPairs]
  | succ n ih =>
    intro vs h
    match vs with
    | [] => rfl
    | [_] => rfl
    | x :: y :: r =>
      simp only [List.map_cons, extractPairsE, extractPairs, extractE_bulk]
      rw [ih r (by simp at h; omega)]

theorem scanOptsE_bulk (tbl : List OptSpec) (unk : Bytes → Option BErr) : ∀ (n : Nat) (vs : List Bytes), vs.length ≤ n →
    scanOptsE tbl unk (vs.map .bulk) = scanOpts tbl unk vs := by
  intro n
  induction n with
  | zero => intro vs h; cases vs <;> simp_all [scanOptsE, scanOpts]
  | succ n ih =>
    intro vs h
    match vs with
    | [] => rfl
    | a :: rest =>
      have hr : rest.length ≤ n := by simp at h; omega
      simp only [List.map_cons]
      rw [scanOptsE, scanOpts]
      cases findOpt tbl (kw a) 0 with
      | none =>
        simp only
        cases unk (kw a) with
        | some e => rfl
        | none => exact ih rest hr
      | some io =>
        obtain ⟨idx, o⟩ := io
        simp only
        cases o.reject with
        | some f => rfl
        | none =>
          simp only
          match hv : o.vals with
          | [] => simp only [ih rest hr]
          | [k1] =>
            match rest with
            | [] => rfl
            | v1 :: rest' =>
              simp only [List.map_cons, extractE_bulk]
              rw [ih rest' (by simp at hr; omega)]
          | [k1, k2] =>
            match rest with
            | [] => rfl
            | [_] => rfl
            | v1 :: v2 :: rest' =>
              simp only [List.map_cons, extractE_bulk]
              rw [ih rest' (by simp at hr; omega)]
          | _ :: _ :: _ :: _ => rfl

theorem takeFlagsE_bulk (flags : List Bytes) : ∀ vs : List Bytes,
    takeFlagsE flags (vs.map .bulk) = .ok ((takeFlags flags vs).1, (takeFlags flags vs).2.map Elem.bulk) := by
  intro vs
  induction vs with
  | nil => rfl
  | cons a rest ih =>
    simp only [List.map_cons, takeFlagsE, takeFlags]
    by_cases hc : flags.contains (kw a) = true
    · simp only [hc, if_true, ih, bind, Except.bind, pure, Except.pure, List.map_cons]
    · simp only [hc, Bool.false_eq_true, if_false, List.map_cons]

theorem all_isBulk_map (vs : List Bytes) : (vs.map Elem.bulk).all Elem.isBulk = true := by
  induction vs with
  | nil => rfl
  | cons v vs ih => simp [Elem.isBulk, ih]

theorem map_bytes_bulk (vs : List Bytes) : (vs.map Elem.bulk).map Elem.bytes = vs := by
  induction vs with
  | nil => rfl
  | cons v vs ih => simp [Elem.bytes, ih]

theorem tail_runE_bulk (t : Tail) (vs : List Bytes) : t.runE (vs.map .bulk) = t.run vs := by
  cases t with
  | none => simp [Tail.runE, Tail.run]
  | ignore => rfl
  | many a => simp only [Tail.runE, Tail.run, extractAllE_bulk, List.length_map]
  | pairs a b => simp only [Tail.runE, Tail.run, extractPairsE_bulk a b _ vs (Nat.le_refl _), List.length_map]
  | scan tbl unk => simp only [Tail.runE, Tail.run, scanOptsE_bulk tbl unk.fn _ vs (Nat.le_refl _)]
  | flagsPairs fl odd a b =>
    simp only [Tail.runE, Tail.run, takeFlagsE_bulk, bind, Except.bind, List.length_map,
      extractPairsE_bulk a b _ _ (Nat.le_refl _)]
  | raw => simp only [Tail.runE, Tail.run, map_bytes_bulk]

/-- the generic body on an all-bulk argument list is the generic body -/
theorem runGenE_bulk (d : GenDesc) (args : List Bytes) : runGenE d (args.map .bulk) = runGen d args := by
  unfold runGenE runGen
  simp only [List.length_map]
  cases d.dom.ok args.length with
  | false => rfl
  | true =>
    simp only [takeSlotsE_bulk, bind, Except.bind]
    cases takeSlots d.pre args with
    | error e => rfl
    | ok p =>
      simp only [takeOptE_bulk]
      cases takeOpt d.opt p.2 with
      | error e => rfl
      | ok o =>
        simp only [tail_runE_bulk, all_isBulk_map, Bool.not_true, Bool.and_false, Bool.false_eq_true, if_false]
        cases d.tail.run o.2 with
        | error e => rfl
        | ok tv =>
          simp only
          cases hf : d.fin (p.1 ++ o.1) tv <;> simp [hf, pure, Except.pure]

theorem spec_runE_bulk (s : Spec) (hd : aritySub s.arity s.body.gen.dom = true) (args : List Bytes) :
    s.runE (args.map .bulk) = s.run args := by
  rw [spec_run_gen s hd args]
  unfold Spec.runE
  simp only [List.length_map, runGenE_bulk]
  cases s.arity.ok args.length with
  | false => rfl
  | true => simp only [if_true]; cases runGen s.body.gen args <;> rfl

/-- full statement: on arrays of bulk strings the element grammar is the grammar of C16, for every frame -/
theorem parseE_bulk (f : List Bytes) : parseE (f.map .bulk) = parseCmd f := by
  match f with
  | [] => rfl
  | name :: args =>
    simp only [parseE, parseCmd, List.map_cons, parseWithE, parseWith]
    cases he : findEntry table (kw name) with
    | none => rfl
    | some e =>
      cases e with
      | cmd s =>
        exact spec_runE_bulk s (List.all_eq_true.mp table_doms_ok _ (row_mem_cmd (findEntry_mem he))) args
      | family fam aerr subs dflt =>
        simp only
        match args with
        | [] => rfl
        | sub :: rest =>
          simp only [List.map_cons]
          cases hs : findSpec subs (kw sub) with
          | some s =>
            exact spec_runE_bulk s (List.all_eq_true.mp table_doms_ok _ (row_mem_sub (findEntry_mem he) (findSpec_mem hs))) rest
          | none =>
            simp only
            match rest with
            | [] => rfl
            | e :: r =>
              have : List.map (Elem.bytes ∘ Elem.bulk) r = r := by
                induction r with
                | nil => rfl
                | cons x xs ih => simp [Elem.bytes, ih]
              simp [Elem.isBulk, Elem.bytes, this]

/-- a command name that is not a bulk string is `Invalid command format` -/
theorem name_must_be_bulk (i : Int) (args : List Elem) :
    parseE (.int i :: args) = .error (.body (.lit .invalidFormat)) ∧
    parseE (.other :: args) = .error (.body (.lit .invalidFormat)) := ⟨rfl, rfl⟩

/-- integer elements: taken as they are by integer slots (`INCRBY k :5`, `EVAL s :1 k`, SETBIT offset and bit),
    cast by `extract_u64` (`SELECT :-1` is out of range), refused where a string is expected -/
theorem integer_elements :
    parseE [.bulk (s2b "INCRBY"), .bulk (s2b "k"), .int 5] = parseCmd [s2b "INCRBY", s2b "k", s2b "5"] ∧
    parseE [.bulk (s2b "EVAL"), .bulk (s2b "return 1"), .int 1, .bulk (s2b "k")] = parseCmd [s2b "EVAL", s2b "return 1", s2b "1", s2b "k"] ∧
    parseE [.bulk (s2b "SETBIT"), .bulk (s2b "k"), .int 7, .int 1] = parseCmd [s2b "SETBIT", s2b "k", s2b "7", s2b "1"] ∧
    parseE [.bulk (s2b "SELECT"), .int (-1)] = .error (.body (.lit .dbRange)) ∧
    parseE [.bulk (s2b "GET"), .int 5] = .error (.body (.lit .expectedBulk)) ∧
    parseE [.bulk (s2b "SPOP"), .bulk (s2b "k"), .int 2] = .error (.body (.lit .expectedBulk)) ∧
    parseE [.bulk (s2b "ZADD"), .bulk (s2b "z"), .int 1, .bulk (s2b "m")] = .error (.body (.lit .expectedBulk)) ∧
    parseE [.bulk (s2b "CONFIG"), .int 1] = .error (.body (.lit .expectedBulk)) ∧
    parseE [.bulk (s2b "SETBIT"), .bulk (s2b "k"), .other, .int 1] = .error (.body (.lit .bitOffset)) ∧
    parseE [.bulk (s2b "EVAL"), .bulk (s2b "s"), .int (-1), .other] = .error (.body (.lit .evalNegKeys)) ∧
    parseE [.bulk (s2b "EVAL"), .bulk (s2b "s"), .int 0, .other] = .error (.body (.lit .expectedBulk)) ∧
    parseE [.bulk (s2b "PING"), .bulk (s2b "x"), .other] = parseCmd [s2b "PING", s2b "x"] ∧
    parseE [.bulk (s2b "DEBUG"), .bulk (s2b "JMAP"), .int 1] = .error (.body (.lit .expectedBulk)) ∧
    parseE [.bulk (s2b "FUNCTION"), .bulk (s2b "LIST"), .int 1] = parseCmd [s2b "FUNCTION", s2b "LIST", s2b ""] := by
  decide +kernel

end C16
end RedisVerif
