import RedisVerif.Model.LuaScript
import RedisVerif.Props.C16

/-!
# C16, second half — a command invoked through `redis.call` / `redis.pcall` has the same effect and,
modulo the conversion, the same result as when a client sends it; script level: a script is a
sequence of calls, a raising `redis.call` ends it, the effects of the earlier calls stay.

Model: `LuaScript.doCall / runCalls / evalScript` (= `execute_lua_script` with its two callbacks) over
the translator `Grammar.parseLua`, the conversions `LuaConv.respToLua / luaToResp`, and an ARBITRARY
executor `exec : σ → Cmd → σ × Resp` — every theorem below holds for every executor function, every
state type, every state, every script of the modelled shape (any number of calls, any nesting of the
returned tables).  The client path is `directStep` = `Grammar.parseCmd` (`Command::from_resp`) followed
by the same executor.

* `call_equals_direct` — lifts `lua_agrees_partial` through the executor: whenever the translator
  accepts the words, `redis.pcall` / `redis.call` run exactly the command the client-side parse of the
  same words yields, leave exactly the state the direct execution leaves, and produce
  `resp_to_lua_value` of exactly the direct reply (an error reply: the `{err=…}` table / the raised
  error).  No command of the translator's table is excluded; the frames the translator REFUSES although
  the client path accepts them are the known findings (`script_effect_counterexample`).
* `pcall_reply_equals_direct_partial` — `return redis.pcall(…)` answers the direct reply itself for
  every `ConvStable` reply; `pcall_reply_counterexample` for an array that contains a nil.
* `script_effect_is_direct_prefix_partial` — the state after a script = the state after a client has
  sent the words of the STARTED statements one by one (`directEffect`), where the number of started
  statements is the whole script if nothing raised and ends with the raising statement otherwise
  (`run_started`); nothing is rolled back.
* `script_reply_*` — what the `EVAL` answers: the raised error as the client path words it, or
  `lua_to_resp` of the returned expression (tables of results, nested).
-/
namespace RedisVerif
namespace C16

open Grammar LuaConv LuaScript

/-! ## 0. the translator never panics and every error it answers has a text -/

theorem lua_error_has_text (f : List Bytes) (e : Err) (h : parseLua f = .error e) : ∃ t, e.text = some t := by
  cases f with
  | nil =>
    simp only [parseLua, Except.error.injEq] at h
    subst h
    exact ⟨_, rfl⟩
  | cons name args =>
    rcases lua_error_alphabet name args e h with ⟨_, rfl⟩ | ⟨r, _, _, hr⟩
    · exact ⟨_, rfl⟩
    · cases e with
      | arity t => exact ⟨_, rfl⟩
      | unknown n => exact ⟨_, rfl⟩
      | body b =>
        cases b with
        | crash => simp [rowAllows] at hr
        | unreachable => simp [rowAllows] at hr
        | lit l => exact ⟨_, rfl⟩
        | fmt f p => exact ⟨_, rfl⟩

/-! ## 1. one call -/

section
variable {σ : Type} (exec : σ → Cmd → σ × Resp)

/-- the client path on words the client-side parser accepts -/
theorem directStep_ok {words : List Bytes} {c : Cmd} (h : parseCmd words = .ok c) (s : σ) :
    directStep exec s words = ((exec s c).1, some (exec s c).2) := by
  simp [directStep, h]

/-- what a call statement yields for a reply `r` of the executor -/
def callOutcome (prot : Bool) (s' : σ) (r : Resp) : Step σ :=
  match r with
  | .error t => if prot then .value s' (.errT t) else .raise s' t
  | r => .value s' (respToLua r)

/-- `redis.pcall` turns every reply into a value: `resp_to_lua_value` of it (an error reply: `{err = t}`) -/
theorem callOutcome_prot (s' : σ) (r : Resp) : callOutcome true s' r = .value s' (respToLua r) := by
  cases r <;> rfl

theorem doCall_ok {s : σ} {prot : Bool} {vals : List LuaVal} {w : Bytes} {ws : List Bytes} {c : Cmd}
    (hargs : argsBytes vals = some (w :: ws)) (hp : parseLua (w :: ws) = .ok c) :
    doCall exec s prot vals = callOutcome prot (exec s c).1 (exec s c).2 := by
  simp only [doCall, hargs, hp]
  rcases hx : exec s c with ⟨s', r⟩
  cases r <;> rfl

/-- full statement of "a command invoked through redis.call / redis.pcall means what it means when a
    client sends it": for EVERY words list the client path accepts, the call runs the same command -/
def C16_call_equals_direct : Prop :=
  ∀ (σ : Type) (exec : σ → Cmd → σ × Resp) (s : σ) (prot : Bool) (vals : List LuaVal) (w : Bytes) (ws : List Bytes) (c : Cmd),
    argsBytes vals = some (w :: ws) → parseCmd (w :: ws) = .ok c →
      doCall exec s prot vals = callOutcome prot (exec s c).1 (exec s c).2

/-- proved form: … for every words list the TRANSLATOR accepts (all 34 table entries, every option
    shape they accept).  The state is the state the direct execution of the client-side parse
    leaves; the value is `resp_to_lua_value` of the direct reply; an error reply is raised by
    `redis.call` and returned as `{err = text}` by `redis.pcall` — after the execution. -/
theorem call_equals_direct (s : σ) (prot : Bool) (vals : List LuaVal) (w : Bytes) (ws : List Bytes) (c : Cmd)
    (hargs : argsBytes vals = some (w :: ws)) (hp : parseLua (w :: ws) = .ok c) :
    parseCmd (w :: ws) = .ok c ∧
    directStep exec s (w :: ws) = ((exec s c).1, some (exec s c).2) ∧
    doCall exec s prot vals = callOutcome prot (exec s c).1 (exec s c).2 := by
  have hc := lua_agrees_partial w ws c hp
  exact ⟨hc, directStep_ok exec hc s, doCall_ok exec hargs hp⟩

/-- non-vacuity: `redis.pcall('hset', 'h', 'f', 1)` (an integer argument) is accepted -/
example : argsBytes [.str (s2b "hset"), .str (s2b "h"), .str (s2b "f"), .int 1] = some [s2b "hset", s2b "h", s2b "f", s2b "1"] ∧
    (parseLua [s2b "hset", s2b "h", s2b "f", s2b "1"]).isOk = true := by decide

/-- the full statement fails exactly on the known findings: a command without a translator entry is
    not executed at all (here APPEND; an executor that counts its executions shows it) -/
theorem call_equals_direct_counterexample : ¬ C16_call_equals_direct := by
  intro h
  have := h Nat (fun n _ => (n + 1, .int 0)) 0 true [.str (s2b "APPEND"), .str (s2b "k"), .str (s2b "v")]
    (s2b "APPEND") [s2b "k", s2b "v"] ⟨s2b "Append", [.s (s2b "k"), .d (s2b "v")]⟩ (by decide) (by decide)
  have hl : parseLua [s2b "APPEND", s2b "k", s2b "v"] = .error (.unknown (s2b "APPEND")) := by decide
  have h2 : doCall (fun (n : Nat) (_ : Cmd) => (n + 1, Resp.int 0)) 0 true [.str (s2b "APPEND"), .str (s2b "k"), .str (s2b "v")] =
      .value 0 (.errT (unknownPre ++ s2b "APPEND" ++ unknownSuf)) := by
    simp only [doCall, argsBytes, luaArgBytes, hl, Err.text]
    rfl
  rw [h2] at this
  simp [callOutcome] at this

/-- with redis.pcall a command the translator refuses is not an error of the script: the statement
    completes with the table `{err = text}` and nothing was executed -/
theorem pcall_refused_is_err_table (s : σ) (vals : List LuaVal) (w : Bytes) (ws : List Bytes) (e : Err)
    (hargs : argsBytes vals = some (w :: ws)) (hp : parseLua (w :: ws) = .error e) :
    ∃ t, e.text = some t ∧ doCall exec s true vals = .value s (.errT t) := by
  obtain ⟨t, ht⟩ := lua_error_has_text _ e hp
  exact ⟨t, ht, by simp [doCall, hargs, hp, ht]⟩

/-- … and redis.call raises that text, again without executing anything -/
theorem call_refused_raises (s : σ) (vals : List LuaVal) (w : Bytes) (ws : List Bytes) (e : Err)
    (hargs : argsBytes vals = some (w :: ws)) (hp : parseLua (w :: ws) = .error e) :
    ∃ t, e.text = some t ∧ doCall exec s false vals = .raise s t := by
  obtain ⟨t, ht⟩ := lua_error_has_text _ e hp
  exact ⟨t, ht, by simp [doCall, hargs, hp, ht]⟩

/-- a boolean / nil / table argument makes BOTH functions raise, before anything is parsed -/
theorem bad_argument_raises (s : σ) (prot : Bool) (vals : List LuaVal) (h : argsBytes vals = none) :
    doCall exec s prot vals = .raise s msgInvalidArg := by
  simp [doCall, h]

theorem argsBytes_none_iff (vals : List LuaVal) :
    argsBytes vals = none ↔ ∃ v ∈ vals, luaArgBytes v = none := by
  induction vals with
  | nil => simp [argsBytes]
  | cons v vs ih =>
    simp only [argsBytes, List.mem_cons, exists_eq_or_imp]
    cases hv : luaArgBytes v with
    | none => simp
    | some b =>
      cases hvs : argsBytes vs with
      | none => simp only [true_iff]; right; exact ih.mp hvs
      | some bs =>
        simp only [reduceCtorEq, false_iff, not_or, not_exists, not_and]
        refine ⟨by simp, ?_⟩
        intro x hx hn
        have := ih.mpr ⟨x, hx, hn⟩
        rw [hvs] at this
        exact absurd this (by simp)

end

/-! ## 2. the statements of a script -/

section
variable {σ : Type} (exec : σ → Cmd → σ × Resp) (env : Env)

/-- how far a script runs: all statements if nothing halted it, otherwise up to and including the
    halting one; the values of the completed statements are kept in order (after those it started with) -/
theorem run_started (acc : List LuaVal) (s : σ) (cs : List Call) :
    let r := runCallsA exec env acc s cs
    (r.halt = none → r.started = cs.length ∧ r.results.length = acc.length + cs.length) ∧
    (r.halt ≠ none → r.results.length + 1 = acc.length + r.started ∧ r.started ≤ cs.length) := by
  induction cs generalizing s acc with
  | nil => simp [runCallsA]
  | cons c cs ih =>
    simp only [runCallsA]
    cases hd : doCall exec s c.prot (c.args.map (AExpr.eval env acc)) with
    | crash => simp
    | raise s' m => simp
    | value s' v =>
      have := ih (acc ++ [v]) s'
      simp only [List.length_append, List.length_cons, List.length_nil] at this
      simp only [List.length_cons]
      constructor
      · intro h; have := this.1 h; omega
      · intro h; have := this.2 h; omega

/-- sequencing: the statements after a halting one do not run; otherwise the rest runs on the state
    and with the results the first part left -/
theorem runCallsA_append (acc : List LuaVal) (s : σ) (a b : List Call) :
    runCallsA exec env acc s (a ++ b) =
      (match (runCallsA exec env acc s a).halt with
       | some _ => runCallsA exec env acc s a
       | none =>
         let ra := runCallsA exec env acc s a
         let rb := runCallsA exec env ra.results ra.state b
         ⟨rb.state, rb.results, ra.started + rb.started, rb.halt⟩) := by
  induction a generalizing s acc with
  | nil => simp [runCallsA]
  | cons c cs ih =>
    simp only [List.cons_append, runCallsA]
    cases hd : doCall exec s c.prot (c.args.map (AExpr.eval env acc)) with
    | crash => rfl
    | raise s' m => rfl
    | value s' v =>
      simp only [ih (acc ++ [v]) s']
      cases hh : (runCallsA exec env (acc ++ [v]) s' cs).halt with
      | some h => simp only [hh]
      | none => simp only; congr 1; omega

/-- the translator knows what the client path knows for these words (decidable); it fails exactly for the
    recorded findings (no table entry; SET … KEEPTTL|EXAT|PXAT; EXPIRE with flags; ZRANGE … WITHSCORES —
    `lua_rejects_accepted_only_on`) -/
def knowsWords : Option (List Bytes) → Bool
  | some (w :: ws) => (parseLua (w :: ws)).isOk || !(parseCmd (w :: ws)).isOk
  | _ => true

/-- as many word lists as statements were started -/
theorem runWords_length (acc : List LuaVal) (s : σ) (cs : List Call) :
    (runWords exec env acc s cs).length = (runCallsA exec env acc s cs).started := by
  induction cs generalizing s acc with
  | nil => rfl
  | cons c cs ih =>
    simp only [runWords, runCallsA, List.length_cons]
    cases hd : doCall exec s c.prot (c.args.map (AExpr.eval env acc)) with
    | crash => rfl
    | raise s' m => rfl
    | value s' v => simp only [ih (acc ++ [v]) s']

/-- full statement: the keyspace after a script is the keyspace after a client has sent, one after the other,
    the words its started statements evaluated to (nothing is rolled back, nothing else happens) -/
def C16_script_effect_is_direct_prefix : Prop :=
  ∀ (σ : Type) (exec : σ → Cmd → σ × Resp) (env : Env) (s : σ) (cs : List Call),
    (runCalls exec env s cs).halt ≠ some .crash →
    (runCalls exec env s cs).state = sendAll exec s (runWords exec env [] s cs)

theorem doCall_state (acc : List LuaVal) (s : σ) (c : Call) (hk : knowsWords (c.words env acc) = true) :
    match doCall exec s c.prot (c.args.map (AExpr.eval env acc)) with
    | .value s' _ => s' = sendAll exec s [c.words env acc]
    | .raise s' _ => s' = sendAll exec s [c.words env acc]
    | .crash => False := by
  unfold knowsWords Call.words at hk
  cases ha : argsBytes (c.args.map (AExpr.eval env acc)) with
  | none => simp [doCall, ha, sendAll, Call.words]
  | some words =>
    cases words with
    | nil => simp [doCall, ha, sendAll, Call.words]
    | cons w ws =>
      rw [ha] at hk
      simp only at hk
      simp only [sendAll, Call.words, ha]
      cases hp : parseLua (w :: ws) with
      | ok cmd =>
        have hc := lua_agrees_partial w ws cmd hp
        rw [doCall_ok exec ha hp, directStep_ok exec hc]
        rcases exec s cmd with ⟨s', r⟩
        cases hprot : c.prot <;> cases r <;> simp [callOutcome]
      | error e =>
        rw [hp] at hk
        obtain ⟨t, ht⟩ := lua_error_has_text _ e hp
        have hno : (parseCmd (w :: ws)).isOk = false := by
          simpa [Except.isOk, Except.toBool] using hk
        have hd : directStep exec s (w :: ws) = (s, none) := by
          unfold directStep
          cases hq : parseCmd (w :: ws) with
          | ok c' => rw [hq] at hno; simp [Except.isOk, Except.toBool] at hno
          | error _ => rfl
        cases hprot : c.prot <;> simp [doCall, ha, hp, ht, hd]

theorem sendAll_cons (s : σ) (w : Option (List Bytes)) (rest : List (Option (List Bytes))) :
    sendAll exec s (w :: rest) = sendAll exec (sendAll exec s [w]) rest := by
  cases w with
  | none => rfl
  | some l => cases l <;> rfl

/-- proved form: … when the translator knows the command of every started statement as the client path does -/
theorem script_effect_is_direct_prefix_partial (acc : List LuaVal) (s : σ) (cs : List Call)
    (hk : ∀ w ∈ runWords exec env acc s cs, knowsWords w = true) :
    (runCallsA exec env acc s cs).halt ≠ some .crash ∧
    (runCallsA exec env acc s cs).state = sendAll exec s (runWords exec env acc s cs) := by
  induction cs generalizing s acc with
  | nil => simp [runCallsA, runWords, sendAll]
  | cons c cs ih =>
    have hk1 : knowsWords (c.words env acc) = true := hk _ (by simp [runWords])
    have h1 := doCall_state exec env acc s c hk1
    simp only [runCallsA, runWords]
    cases hd : doCall exec s c.prot (c.args.map (AExpr.eval env acc)) with
    | crash => rw [hd] at h1; exact h1.elim
    | raise s' m =>
      rw [hd] at h1
      simp only [ne_eq, Option.some.injEq, reduceCtorEq, not_false_eq_true, true_and]
      exact h1
    | value s' v =>
      rw [hd] at h1
      have hk' : ∀ w ∈ runWords exec env (acc ++ [v]) s' cs, knowsWords w = true := by
        intro w hw
        apply hk
        simp only [runWords, hd, List.mem_cons]
        exact Or.inr hw
      have := ih (acc ++ [v]) s' hk'
      refine ⟨this.1, ?_⟩
      simp only
      rw [this.2, sendAll_cons, ← h1]

/-- non-vacuity: statements whose words both grammars know — SET with an integer argument, LPUSH with KEYS / ARGV,
    a statement that passes an earlier result on -/
example : knowsWords (Call.words ⟨[], []⟩ [] ⟨false, [.lit (.str (s2b "SET")), .lit (.str (s2b "k")), .lit (.int 5)]⟩) = true ∧
    knowsWords (Call.words ⟨[s2b "k"], [s2b "v"]⟩ [] ⟨true, [.lit (.str (s2b "lpush")), .key 1, .argv 1, .argv 2]⟩) = true ∧
    knowsWords (Call.words ⟨[], []⟩ [.str (s2b "old"), .int 7] ⟨true, [.lit (.str (s2b "SET")), .lit (.str (s2b "k2")), .res 0]⟩) = true ∧
    Call.words ⟨[], []⟩ [.str (s2b "old"), .int 7] ⟨true, [.lit (.str (s2b "SET")), .lit (.str (s2b "k2")), .res 1]⟩ =
      some [s2b "SET", s2b "k2", s2b "7"] := by decide

/-- the full statement fails for a statement whose command the translator does not know: the client
    path executes it, the script does not (known finding `command-unknown-to-translator`) -/
theorem script_effect_counterexample : ¬ C16_script_effect_is_direct_prefix := by
  intro h
  have := h Nat (fun n _ => (n + 1, .int 0)) ⟨[], []⟩ 0
    [⟨true, [.lit (.str (s2b "APPEND")), .lit (.str (s2b "k")), .lit (.str (s2b "v"))]⟩] (by decide)
  revert this
  decide

/-- a script of `redis.pcall` statements whose arguments evaluate to convertible, non-empty word lists never
    ends in an error: every statement runs -/
theorem pcall_script_never_raises (acc : List LuaVal) (s : σ) (cs : List Call)
    (hp : ∀ c ∈ cs, c.prot = true)
    (hw : ∀ w ∈ runWords exec env acc s cs, ∃ x xs, w = some (x :: xs)) :
    (runCallsA exec env acc s cs).halt = none := by
  induction cs generalizing s acc with
  | nil => rfl
  | cons c cs ih =>
    have hpc := hp c (by simp)
    obtain ⟨w, ws, hwc⟩ := hw (c.words env acc) (by simp [runWords])
    simp only [runCallsA]
    have hv : ∃ s' v, doCall exec s c.prot (c.args.map (AExpr.eval env acc)) = .value s' v := by
      unfold Call.words at hwc
      rw [hpc]
      cases hq : parseLua (w :: ws) with
      | ok cmd =>
        rw [doCall_ok exec hwc hq]
        rcases exec s cmd with ⟨s', r⟩
        cases r <;> exact ⟨_, _, rfl⟩
      | error e =>
        obtain ⟨t, _, hd⟩ := pcall_refused_is_err_table exec s _ w ws e hwc hq
        exact ⟨_, _, hd⟩
    obtain ⟨s', v, hd⟩ := hv
    rw [hd]
    refine ih (acc ++ [v]) s' (fun x hx => hp x (by simp [hx])) ?_
    intro w' hw'
    apply hw
    simp only [runWords, hd, List.mem_cons]
    exact Or.inr hw'

/-- the first raising statement ends the script; the statements before it have run, on the
    states the earlier ones left, and stay in effect -/
theorem raise_ends_script (acc : List LuaVal) (s : σ) (pre post : List Call) (c : Call) (s' : σ) (m : Bytes)
    (hpre : (runCallsA exec env acc s pre).halt = none)
    (hc : doCall exec (runCallsA exec env acc s pre).state c.prot
        (c.args.map (AExpr.eval env (runCallsA exec env acc s pre).results)) = .raise s' m) :
    (runCallsA exec env acc s (pre ++ c :: post)).state = s' ∧
    (runCallsA exec env acc s (pre ++ c :: post)).halt = some (.raised m) ∧
    (runCallsA exec env acc s (pre ++ c :: post)).started = pre.length + 1 ∧
    (runCallsA exec env acc s (pre ++ c :: post)).results = (runCallsA exec env acc s pre).results := by
  have hs := (run_started exec env acc s pre).1 hpre
  rw [runCallsA_append, hpre]
  simp only [runCallsA, hc, hs.1, and_self]

/-- what a reply becomes when a later statement passes it on as an argument: a bulk reply arrives byte for
    byte, an integer reply as its decimal digits; a status reply, a nil, an array or an error table is refused
    (the statement raises `Invalid argument type for redis command`) -/
theorem reply_as_argument (r : Resp) :
    luaArgBytes (respToLua r) =
      (match r with
       | .bulk (some b) => some b
       | .int i => some (intText i)
       | _ => none) := by
  cases r with
  | simple s => rfl
  | error s => rfl
  | int i => rfl
  | bulk b => cases b <;> rfl
  | array a => cases a <;> rfl

end

/-! ## 3. the reply of the EVAL -/

section
variable {σ : Type} (exec : σ → Cmd → σ × Resp) (env : Env)

/-- a script that was ended by a raised error answers that error: verbatim when it starts with an
    upper-case code word (every executor error does: `ERR …`, `WRONGTYPE …`), otherwise after `ERR ` -/
theorem script_reply_raised (s : σ) (sc : Script) (m : Bytes)
    (h : (runCalls exec env s sc.calls).halt = some (.raised m)) :
    (evalScript exec env s sc).2 = some (raiseReply m) ∧
    (evalScript exec env s sc).1 = (runCalls exec env s sc.calls).state := by
  simp [evalScript, h]

theorem raiseReply_code (m : Bytes) (h : hasCode m = true) : raiseReply m = .error m := by
  simp [raiseReply, h]

/-- `return redis.call(words…)` for a command whose direct reply is the error `t` (with a code word):
    the EVAL answers the very error reply a client gets, and the keyspace is the one the direct
    execution leaves -/
theorem call_error_reply_is_client_error (s : σ) (args : List AExpr) (w : Bytes) (ws : List Bytes) (c : Cmd)
    (t : Bytes) (ret : Ret)
    (hargs : argsBytes (args.map (AExpr.eval env [])) = some (w :: ws)) (hp : parseLua (w :: ws) = .ok c)
    (hr : (exec s c).2 = .error t) (hcode : hasCode t = true) :
    evalScript exec env s ⟨[⟨false, args⟩], ret⟩ = ((exec s c).1, some (.error t)) ∧
    directStep exec s (w :: ws) = ((exec s c).1, some (.error t)) := by
  obtain ⟨_, hd, hcall⟩ := call_equals_direct exec s false _ w ws c hargs hp
  rw [hr] at hd
  refine ⟨?_, hd⟩
  rcases hx : exec s c with ⟨s', r⟩
  rw [hx] at hcall hr
  simp only at hr
  subst hr
  simp [evalScript, runCalls, runCallsA, hcall, callOutcome, raiseReply, hcode]

/-- every error text the executor model of C01 answers starts with a code word — checked on the
    two prefixes the code base uses -/
example : hasCode (s2b "WRONGTYPE Operation against a key holding the wrong kind of value") = true ∧
    hasCode (s2b "ERR value is not an integer or out of range") = true ∧
    hasCode (s2b "GET requires 1 argument") = true ∧
    hasCode (s2b "Invalid argument type for redis command") = false ∧
    hasCode (s2b "") = false := by decide

/-- full statement: `return redis.pcall(words…)` answers what the client gets for the same words -/
def C16_pcall_reply_equals_direct : Prop :=
  ∀ (σ : Type) (exec : σ → Cmd → σ × Resp) (env : Env) (s : σ) (args : List AExpr) (w : Bytes) (ws : List Bytes) (c : Cmd),
    argsBytes (args.map (AExpr.eval env [])) = some (w :: ws) → parseLua (w :: ws) = .ok c →
    evalScript exec env s ⟨[⟨true, args⟩], .res 0⟩ = ((exec s c).1, some (exec s c).2)

/-- proved form: … for every reply the conversion round-trips (`ConvStable`: no nil array, no nil
    inside an array) -/
theorem pcall_reply_equals_direct_partial (s : σ) (args : List AExpr) (w : Bytes) (ws : List Bytes) (c : Cmd)
    (hargs : argsBytes (args.map (AExpr.eval env [])) = some (w :: ws)) (hp : parseLua (w :: ws) = .ok c)
    (hst : ConvStable (exec s c).2 = true) :
    evalScript exec env s ⟨[⟨true, args⟩], .res 0⟩ = ((exec s c).1, some (exec s c).2) ∧
    directStep exec s (w :: ws) = ((exec s c).1, some (exec s c).2) := by
  obtain ⟨_, hd, hcall⟩ := call_equals_direct exec s true _ w ws c hargs hp
  refine ⟨?_, hd⟩
  rcases hx : exec s c with ⟨s', r⟩
  rw [hx] at hcall hst
  simp only at hst
  rw [callOutcome_prot] at hcall
  simp only [evalScript, runCalls, runCallsA, hcall, Ret.eval, List.nil_append, List.getElem?_cons_zero]
  rw [lua_roundtrip_partial r hst]

/-- the conversion is not the identity on an array that contains a nil bulk (known finding
    `nil-bulk-becomes-nil-not-false` / `array-with-nil-truncated`): an executor answering such an array
    refutes the full statement.  (Which commands do: `translator_replies_conv_stable` in
    `Props/C16Exec.lean` shows that none of the translator's commands does.) -/
theorem pcall_reply_counterexample : ¬ C16_pcall_reply_equals_direct := by
  intro h
  have := h Unit (fun _ _ => ((), .array (some [.int 1, .bulk none, .int 3]))) ⟨[], []⟩ ()
    [.lit (.str (s2b "LRANGE")), .lit (.str (s2b "l")), .lit (.int 0), .lit (.int (-1))]
    (s2b "LRANGE") [s2b "l", s2b "0", s2b "-1"] ⟨s2b "LRange", [.s (s2b "l"), .i 0, .i (-1)]⟩ (by decide) (by decide)
  have hl : parseLua [s2b "LRANGE", s2b "l", s2b "0", s2b "-1"] = .ok ⟨s2b "LRange", [.s (s2b "l"), .i 0, .i (-1)]⟩ := by decide
  have ha : argsBytes (List.map (AExpr.eval ⟨[], []⟩ [])
      [.lit (.str (s2b "LRANGE")), .lit (.str (s2b "l")), .lit (.int 0), .lit (.int (-1))]) =
      some [s2b "LRANGE", s2b "l", s2b "0", s2b "-1"] := by decide
  simp only [evalScript, runCalls, runCallsA, doCall, ha, hl, respToLua, respToLuaL, Ret.eval, List.nil_append, List.getElem?_cons_zero,
    luaToResp, luaToRespL, Prod.mk.injEq, true_and, Option.some.injEq, Resp.array.injEq] at this
  exact absurd this (by simp)

/-- a script that returns the table of all its results answers the array of the converted results
    (cut at the first nil) -/
theorem script_reply_results_table (s : σ) (cs : List Call) (h : (runCalls exec env s cs).halt = none) :
    (evalScript exec env s ⟨cs, .tbl ((List.range cs.length).map .res)⟩).2 =
      some (.array (some (luaToRespL (runCalls exec env s cs).results))) := by
  have hl : (runCalls exec env s cs).results.length = cs.length := by
    simpa [runCalls] using ((run_started exec env [] s cs).1 h).2
  simp only [evalScript, h, Ret.eval, luaToResp]
  suffices hev : Ret.evalL (runCalls exec env s cs).results ((List.range cs.length).map .res) =
      (runCalls exec env s cs).results by rw [hev]
  generalize (runCalls exec env s cs).results = rs at hl
  rw [← hl]
  have key : ∀ (pre rs : List LuaVal), Ret.evalL (pre ++ rs) ((List.range' pre.length rs.length).map .res) = rs := by
    intro pre rs
    induction rs generalizing pre with
    | nil => simp [Ret.evalL]
    | cons r rs ih =>
      simp only [List.length_cons, List.range'_succ, List.map_cons, Ret.evalL, Ret.eval]
      rw [List.getElem?_append_right (Nat.le_refl _)]
      simp only [Nat.sub_self, List.getElem?_cons_zero, List.cons.injEq, true_and]
      have := ih (pre ++ [r])
      simpa using this
  have := key [] rs
  simpa [List.range_eq_range'] using this

/-- nested tables convert level by level: arrays of arrays, each cut at its own first nil -/
theorem nested_table_reply (xs : List (List LuaVal)) :
    luaToResp (.arr (xs.map LuaVal.arr)) = .array (some (xs.map (fun l => Resp.array (some (luaToRespL l))))) := by
  simp only [luaToResp]
  congr 2
  induction xs with
  | nil => rfl
  | cons x xs ih => simp [luaToRespL, luaToResp, ih]

/-- when every result is a non-nil `ConvStable` direct reply, the returned table is the array of the
    direct replies themselves -/
theorem results_table_of_stable_replies (rs : List Resp) (h : ConvStableL rs = true) :
    luaToResp (.arr (respToLuaL rs)) = .array (some rs) := by
  simp only [luaToResp, lua_roundtrip_list rs h]

end

/-! ## 4. EVAL plumbing: the script sees the KEYS / ARGV the frame carries -/

theorem envOfEval_shape (ctor x : Bytes) (m k : Nat) (K A : List Bytes) (hm : m = K.length) :
    envOfEval ⟨ctor, [.s x, .len m] ++ K.map (fun a => Tok.s (lossy a)) ++ [.len k] ++ A.map Tok.d⟩ =
      some ⟨K.map lossy, A⟩ := by
  subst hm
  have hl : (K.map (fun a => Tok.s (lossy a))).length = K.length := by simp
  simp only [envOfEval, List.cons_append, List.nil_append, List.append_assoc]
  rw [List.take_left' hl, List.drop_left' hl]
  simp only [List.filterMap_map]
  congr 2
  · clear hl
    induction K with
    | nil => rfl
    | cons a l ih => simp [ih]
  · induction A with
    | nil => rfl
    | cons a l ih => simp [ih]

/-- `EVAL script numkeys k… a…`: the first `numkeys` words are `KEYS` (lossy strings), the rest `ARGV`
    (byte-exact), for every frame the grammar accepts -/
theorem eval_env_of_frame (script nk : Bytes) (rest : List Bytes) (n : Nat)
    (hn : parseI64 nk = some (n : Int)) (hle : n ≤ rest.length) :
    ∃ c, parseCmd (s2b "EVAL" :: script :: nk :: rest) = .ok c ∧
      envOfEval c = some ⟨(rest.take n).map lossy, rest.drop n⟩ := by
  have hf : findEntry table (kw (s2b "EVAL")) = some (.cmd (customSpec "EVAL" (.atLeast 2) (reqAtLeast "EVAL" 2)
      (CB.eval (s2b "Eval") .evalKeys))) := by rfl
  rw [parse_of_find hf]
  have hnn : ¬ ((n : Int) < 0) := by omega
  have hlt : ¬ (rest.length < n) := by omega
  refine ⟨⟨s2b "Eval", [.s (lossy script), .len ((rest.take n).map (fun a => Tok.s (lossy a))).length] ++
      (rest.take n).map (fun a => Tok.s (lossy a)) ++ [.len ((rest.drop n).map Tok.d).length] ++ (rest.drop n).map Tok.d⟩, ?_, ?_⟩
  · simp only [customSpec, Spec.run, Arity.ok, List.length_cons, Body.run, CB.eval, CustomBody.plain, Bodies.eval,
      aInt, Arg.extract, hn, bind, Except.bind, hnn, if_false, Int.toNat_natCast, hlt]
    have : decide (2 ≤ rest.length + 1 + 1) = true := by simp
    simp only [this, if_true]
  · exact envOfEval_shape _ _ _ _ _ _ (by simp)

end C16
end RedisVerif
