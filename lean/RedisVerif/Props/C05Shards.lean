import RedisVerif.Props.C05M7
import RedisVerif.Props.C03M7

/-!
# C05 ∘ C03 — EXEC on a sharded node

`Props/C05M7.lean` proves that EXEC (nobody interferes, snapshots match) over the M7 reference
executor on ONE store is `Redis.run` of the queue; also when time passes between the replayed
commands (`m7_exec_timed`).  The production node is `R.N` shard actors, each with its own store
and its own clock, and EXEC replays the queue through `ShardedActorState::execute`, command by
command.  `Props/C03M7.lean` (`run7_refines`) proves that such a consecutive timed run on `R.N`
shards — every command routed or fanned out as the code does, exactly the shards that get a message
adopting the time — answers like `Redis.run` on one store.  Composed:

* `m7_exec_equals_sharded_run` — the results EXEC returns in the one-store model ARE the replies of
  the `R.N`-shard model executing the queued commands consecutively (up to the order inside a KEYS
  reply), for every route table, every shard count, every queue of routable commands of every type;
* `m7_exec_timed_equals_sharded_run` — the same when the clock moves between the replayed commands;

so "EXEC equals the sequential run" is a statement about the sharded node, not only about the
idealised single store: the shard count is unobservable to a transaction that nobody interleaves
with.  (With interleaving EXEC is not isolated on any number of shards: `m7_exec_not_isolated_counterexample`.)
-/
namespace RedisVerif
namespace C05
open Txn Txn7
open Shards Shards.M7 C03
open Redis (State Cmd purge)

theorem mono7_const (now : Nat) (cs : List Cmd) : Mono7 now (cs.map (fun c => (now, c))) := by
  induction cs with
  | nil => trivial
  | cons c rest ih => exact ⟨Nat.le_refl now, ih⟩

theorem mono7_of_monoFrom : ∀ (a : Nat) (ts : List Nat) (cs : List Cmd), MonoFrom a ts → Mono7 a (ts.zip cs)
  | _, [], _, _ => trivial
  | _, _ :: _, [], _ => trivial
  | a, t :: ts, c :: cs, h => ⟨h.1, mono7_of_monoFrom t ts cs h.2⟩

/-- **EXEC = the consecutive run on `R.N` shards**: the node of the one-store model and the sharded
    node are indistinguishable to a reader from the node's instant on (`Rel7`); every queued command
    is routable (not RANDOMKEY; two-key commands / MSETNX with their keys on one shard); nobody
    interferes and the snapshots match.  Then the results of EXEC are, one by one, the replies the
    `R.N` shards give to the queued commands executed consecutively. -/
theorem m7_exec_equals_sharded_run (R : Routes) (hv : R.Valid) (hN : 0 < R.N) (st : Shards Redis.Entry)
    (sched : List (List Cmd7)) (t : ConnTxn Nat Cmd7 Rep7) (n : Node) (cs : List Cmd)
    (hin : t.inTxn = true) (herr : t.errors = false) (hq : t.queue = cs.map .data)
    (hs : NoInterleaving sched) (hw : ∀ p ∈ t.watched, backend7.getReply n p.1 = p.2) (hn : NodeOk n)
    (hrel : Rel7 R st n.s n.now) (hr : ∀ c ∈ cs, Routable7 R c = true) :
    ∃ rs : List Redis.Reply,
      (step backend7 sched t n .exec).2.2 = .results (rs.map .data) ∧ rs.length = cs.length ∧
      repliesEqv7 (run7 R st (cs.map (fun c => (n.now, c)))).2 rs = true := by
  obtain ⟨e, l⟩ := m7_exec_equals_redis_run sched t n cs hin herr hq hs hw hn
  refine ⟨(Redis.run n.s (cs.map (fun c => (n.now, c)))).2, by rw [e], l, ?_⟩
  exact (run7_refines hv hN (cs.map (fun c => (n.now, c)))
    (fun x hx => by
      obtain ⟨c, hc, rfl⟩ := List.mem_map.mp hx
      exact hr c hc) hrel (mono7_const n.now cs)).1

/-- … and when time passes between the replayed commands (no watched keys): the results are the
    replies of the `R.N` shards to the queued commands at the instants of replay -/
theorem m7_exec_timed_equals_sharded_run (R : Routes) (hv : R.Valid) (hN : 0 < R.N) (st : Shards Redis.Entry)
    (t : ConnTxn Nat Cmd7 Rep7) (n : Node) (cs : List Cmd) (ts : List Nat)
    (hin : t.inTxn = true) (herr : t.errors = false) (hw : t.watched = []) (hq : t.queue = cs.map .data)
    (hl : ts.length = cs.length) (hm : MonoFrom n.now ts) (hn : NodeOk n)
    (hrel : Rel7 R st n.s n.now) (hr : ∀ c ∈ cs, Routable7 R c = true) :
    ∃ rs : List Redis.Reply,
      (step backend7 (tickSched ts) t n .exec).2.2 = .results (rs.map .data) ∧
      repliesEqv7 (run7 R st (ts.zip cs)).2 rs = true := by
  refine ⟨(Redis.run n.s (ts.zip cs)).2, m7_exec_timed t n cs ts hin herr hw hq hl hm hn, ?_⟩
  exact (run7_refines hv hN (ts.zip cs)
    (fun x hx => hr x.2 (List.of_mem_zip hx).2) hrel (mono7_of_monoFrom n.now ts cs hm)).1

/-- non-vacuity: two shards (keys 1 and 3 on shard 0, key 2 on shard 1: `C03.routes7`), an empty
    node; `MULTI; SET 1 a; RPUSH 2 x; MSET 1 b 3 c; DEL 1 2; EXEC` — the hypotheses hold -/
example :
    let cs : List Cmd := [.set 1 [97] .always .none false, .rpush 2 [[120]], .mset [(1, [98]), (3, [99])], .del [1, 2]]
    routes7.Valid ∧ 0 < routes7.N ∧ Rel7 routes7 (Shards.init Redis.Entry routes7.N) (Node.init 1000).s (Node.init 1000).now ∧
    (∀ c ∈ cs, Routable7 routes7 c = true) ∧ NodeOk (Node.init 1000) :=
  ⟨routes7_valid, by decide, (rel7_init routes7).mono (Nat.zero_le _), by decide, nodeOk_init 1000⟩

end C05
end RedisVerif
