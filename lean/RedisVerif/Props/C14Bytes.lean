import RedisVerif.Props.C14Bincode
import RedisVerif.Lemmas.WalBytes

/-!
# C14 — every single-byte corruption position of a segment, with CRC-32 (no checksum hypothesis)

`covered_corruption_detected` (Props/C14.lean) needs two `CrcDetects` hypotheses.  For the executable
CRC-32 and ONE replaced byte they are theorems, so the statement of the property holds outright:

`segment_single_byte_corruption`: take any written segment image (header as `SegmentWriter::finish`
writes it, ANY record bytes, the footer written for them), replace ONE byte — anywhere: covered
header fields, stored header checksum, header padding, records, stored data checksum, footer size
fields, footer magic — by any value (every single-bit flip included): reading the result is an ERROR,
or returns exactly what the pristine image returns.  Never different data.
-/
namespace RedisVerif
namespace C14

open Wal Codec Driver Concrete WalBytes

theorem getElem_ne_of_set_ne (l : Bytes) (i v : Nat) (hi : i < l.length) (h : l.set i v ≠ l) : l[i]'hi ≠ v := by
  intro heq
  apply h
  rw [← heq]; exact List.set_getElem_self hi

/-- the stored value of a 4-byte field changes when one of its bytes does -/
theorem leVal_set_ne (c j v : Nat) (hc : c < 2 ^ 32) (hj : j < 4) (hv : v < 256) (h : (le 4 c).set j v ≠ le 4 c) :
    leVal ((le 4 c).set j v) ≠ c := by
  intro heq
  apply h
  have hb : ∀ x ∈ (le 4 c).set j v, x < 256 := mem_set_lt _ _ _ (le_bytes 4 c) hv
  have := Codec.le_leVal _ hb
  rw [List.length_set, le_length, heq] at this
  exact this.symm

/-- one byte of the 40-byte header replaced -/
theorem segment_header_byte {δ : Type} (strict : Bool) (de : Bytes → Option δ) (n a b : Nat) (recs foot : Bytes)
    (i v : Nat) (hi : i < 40) (hv : v < 256) :
    IsErr (readSegParts strict crc32 de ((segHeader crc32 n a b).set i v) recs foot) ∨
      readSegParts strict crc32 de ((segHeader crc32 n a b).set i v) recs foot
        = readSegParts strict crc32 de (segHeader crc32 n a b) recs foot := by
  have hcov := segCovered_length n a b
  have hcb : ∀ x ∈ segCovered n a b, x < 256 := bytes_of_allBytes (allBytes_segCovered n a b)
  have hc32 : crc32 (segCovered n a b) < 2 ^ 32 := Crc.crc32_lt _ hcb
  have hdr : segHeader crc32 n a b = segCovered n a b ++ (le 4 (crc32 (segCovered n a b)) ++ List.replicate 10 0) := rfl
  by_cases h26 : i < 26
  · -- a covered header field
    have hset : (segHeader crc32 n a b).set i v = (segCovered n a b).set i v ++ (le 4 (crc32 (segCovered n a b)) ++ List.replicate 10 0) := by
      rw [hdr, set_append_left _ _ _ _ (by rw [hcov]; exact h26)]
    by_cases hsame : (segCovered n a b).set i v = segCovered n a b
    · right; rw [hset, hsame, ← hdr]
    · left
      apply readSegParts_err_of_header_crc
      have hl : ((segCovered n a b).set i v).length = 26 := by rw [List.length_set, hcov]
      have e1 : (((segHeader crc32 n a b).set i v).take 30).take 26 = (segCovered n a b).set i v := by
        rw [List.take_take, hset]
        exact List.take_left' (by rw [hl]; rfl)
      have e2 : ((((segHeader crc32 n a b).set i v).take 30).drop 26).take 4 = le 4 (crc32 (segCovered n a b)) := by
        rw [hset]
        have : ((segCovered n a b).set i v ++ (le 4 (crc32 (segCovered n a b)) ++ List.replicate 10 0)).take 30
            = (segCovered n a b).set i v ++ le 4 (crc32 (segCovered n a b)) := by
          rw [← List.append_assoc]
          exact List.take_left' (by rw [List.length_append, hl, le_length])
        rw [this, List.drop_left' hl]
        exact List.take_left' (le_length _ _) |>.trans (by simp)
      rw [e1, e2, leVal_le 4 _ (by simpa using hc32)]
      exact Crc.crc32_detects_set _ i v (by rw [hcov]; exact h26) hcb hv
        (getElem_ne_of_set_ne _ i v (by rw [hcov]; exact h26) hsame)
  · by_cases h30 : i < 30
    · -- the stored header checksum
      obtain ⟨j, rfl⟩ : ∃ j, i = 26 + j := ⟨i - 26, by omega⟩
      have hj : j < 4 := by omega
      have hset : (segHeader crc32 n a b).set (26 + j) v
          = segCovered n a b ++ ((le 4 (crc32 (segCovered n a b))).set j v ++ List.replicate 10 0) := by
        have h := set_append_right (segCovered n a b) (le 4 (crc32 (segCovered n a b)) ++ List.replicate 10 0) j v
        rw [hcov] at h
        rw [hdr, h, set_append_left _ _ _ _ (by rw [le_length]; exact hj)]
      by_cases hsame : (le 4 (crc32 (segCovered n a b))).set j v = le 4 (crc32 (segCovered n a b))
      · right; rw [hset, hsame, ← hdr]
      · left
        apply readSegParts_err_of_header_crc
        have hl4 : ((le 4 (crc32 (segCovered n a b))).set j v).length = 4 := by rw [List.length_set, le_length]
        have ht : ((segHeader crc32 n a b).set (26 + j) v).take 30
            = segCovered n a b ++ (le 4 (crc32 (segCovered n a b))).set j v := by
          rw [hset, ← List.append_assoc]
          exact List.take_left' (by rw [List.length_append, hcov, hl4])
        rw [ht, List.take_left' hcov, List.drop_left' hcov, List.take_of_length_le (by rw [hl4]; exact Nat.le_refl 4)]
        exact fun h => leVal_set_ne _ j v hc32 hj hv hsame h.symm
    · -- header padding: not looked at
      right
      apply readSegParts_congr
      · obtain ⟨j, rfl⟩ : ∃ j, i = 30 + j := ⟨i - 30, by omega⟩
        have h := set_append_right (segCovered n a b ++ le 4 (crc32 (segCovered n a b))) (List.replicate 10 0) j v
        rw [List.length_append, hcov, le_length] at h
        have e : segHeader crc32 n a b = (segCovered n a b ++ le 4 (crc32 (segCovered n a b))) ++ List.replicate 10 0 := by
          rw [hdr, List.append_assoc]
        have h30' : (26 : Nat) + 4 = 30 := rfl
        rw [h30'] at h
        rw [e, h]
        rw [List.take_left' (by rw [List.length_append, hcov, le_length]), List.take_left' (by rw [List.length_append, hcov, le_length])]
      · rfl
      · rfl

/-- one byte of the 24-byte footer replaced -/
theorem segment_footer_byte {δ : Type} (strict : Bool) (de : Bytes → Option δ) (hdr recs : Bytes)
    (i v : Nat) (hi : i < 24) (hv : v < 256) (hb : ∀ x ∈ recs, x < 256) :
    IsErr (readSegParts strict crc32 de hdr recs ((segFooter crc32 recs).set i v)) ∨
      readSegParts strict crc32 de hdr recs ((segFooter crc32 recs).set i v)
        = readSegParts strict crc32 de hdr recs (segFooter crc32 recs) := by
  have hc32 : crc32 recs < 2 ^ 32 := Crc.crc32_lt _ hb
  have hfoot : segFooter crc32 recs = le 4 (crc32 recs) ++ ((le 8 recs.length ++ le 8 recs.length) ++ footMagic) := by
    simp [segFooter]
  by_cases h4 : i < 4
  · -- the stored data checksum
    have hset : (segFooter crc32 recs).set i v = (le 4 (crc32 recs)).set i v ++ ((le 8 recs.length ++ le 8 recs.length) ++ footMagic) := by
      rw [hfoot, set_append_left _ _ _ _ (by rw [le_length]; exact h4)]
    by_cases hsame : (le 4 (crc32 recs)).set i v = le 4 (crc32 recs)
    · right; rw [hset, hsame, ← hfoot]
    · left
      apply readSegParts_err_of_data_crc
      rw [hset, List.take_left' (by rw [List.length_set, le_length])]
      exact fun h => leVal_set_ne _ i v hc32 h4 hv hsame h.symm
  · by_cases h20 : i < 20
    · -- the two size fields: not looked at
      right
      obtain ⟨j, rfl⟩ : ∃ j, i = 4 + j := ⟨i - 4, by omega⟩
      have h := set_append_right (le 4 (crc32 recs)) ((le 8 recs.length ++ le 8 recs.length) ++ footMagic) j v
      rw [le_length] at h
      have hs := set_append_left (le 8 recs.length ++ le 8 recs.length) footMagic j v (by simp [le_length]; omega)
      apply readSegParts_congr
      · rfl
      · rw [hfoot, h]
        rw [List.take_left' (le_length _ _), List.take_left' (le_length _ _)]
      · rw [hfoot, h, hs]
        have l16 : ((le 8 recs.length ++ le 8 recs.length).set j v).length = 16 := by simp [le_length]
        have l16' : (le 8 recs.length ++ le 8 recs.length).length = 16 := by simp [le_length]
        have e1 : le 4 (crc32 recs) ++ ((le 8 recs.length ++ le 8 recs.length).set j v ++ footMagic)
            = (le 4 (crc32 recs) ++ (le 8 recs.length ++ le 8 recs.length).set j v) ++ footMagic := by simp
        have e2 : le 4 (crc32 recs) ++ ((le 8 recs.length ++ le 8 recs.length) ++ footMagic)
            = (le 4 (crc32 recs) ++ (le 8 recs.length ++ le 8 recs.length)) ++ footMagic := by simp
        rw [e1, e2, List.drop_left' (by rw [List.length_append, le_length, l16]),
          List.drop_left' (by rw [List.length_append, le_length, l16'])]
    · -- the footer magic
      obtain ⟨j, rfl⟩ : ∃ j, i = 20 + j := ⟨i - 20, by omega⟩
      have hj : j < 4 := by omega
      have e2 : segFooter crc32 recs = (le 4 (crc32 recs) ++ (le 8 recs.length ++ le 8 recs.length)) ++ footMagic := by
        rw [hfoot]; simp
      have h := set_append_right (le 4 (crc32 recs) ++ (le 8 recs.length ++ le 8 recs.length)) footMagic j v
      have l20 : (le 4 (crc32 recs) ++ (le 8 recs.length ++ le 8 recs.length)).length = 20 := by simp [le_length]
      rw [l20] at h
      by_cases hsame : footMagic.set j v = footMagic
      · right; rw [e2, h, hsame]
      · left
        apply readSegParts_err_of_magic
        rw [e2, h, List.drop_left' l20, List.take_of_length_le (by simp [footMagic])]
        exact hsame

/-- MAIN: ONE byte of a written segment image replaced by any value, at ANY position: the read is an
    error or returns exactly what the pristine image returns -/
theorem segment_single_byte_corruption {δ : Type} (strict : Bool) (de : Bytes → Option δ) (n a b : Nat) (recs : Bytes)
    (p v : Nat) (hb : ∀ x ∈ recs, x < 256) (hv : v < 256)
    (hp : p < (segHeader crc32 n a b ++ (recs ++ segFooter crc32 recs)).length) :
    IsErr (readSegment strict crc32 de ((segHeader crc32 n a b ++ (recs ++ segFooter crc32 recs)).set p v)) ∨
      readSegment strict crc32 de ((segHeader crc32 n a b ++ (recs ++ segFooter crc32 recs)).set p v)
        = readSegment strict crc32 de (segHeader crc32 n a b ++ (recs ++ segFooter crc32 recs)) := by
  have hh : (segHeader crc32 n a b).length = 40 := by rw [segHeader_eq]; exact segHeader_length _ _ _ _ _ (by simp)
  have hf : (segFooter crc32 recs).length = 24 := by rw [segFooter_eq]; exact (segFooter_fields _ _ _ (by simp [le_length])).2.2
  obtain ⟨hl, p1, p2, p3⟩ := seg_parts (segHeader crc32 n a b) recs (segFooter crc32 recs) hh hf
  have pristine := readSegment_parts strict crc32 de (segHeader crc32 n a b ++ (recs ++ segFooter crc32 recs)) (by rw [hl]; omega)
  rw [p1, p2, p3] at pristine
  rw [pristine]
  by_cases h40 : p < 40
  · have hset : (segHeader crc32 n a b ++ (recs ++ segFooter crc32 recs)).set p v
        = (segHeader crc32 n a b).set p v ++ (recs ++ segFooter crc32 recs) := by
      rw [set_append_left _ _ _ _ (by rw [hh]; exact h40)]
    obtain ⟨hl', q1, q2, q3⟩ := seg_parts ((segHeader crc32 n a b).set p v) recs (segFooter crc32 recs)
      (by rw [List.length_set, hh]) hf
    rw [hset, readSegment_parts strict crc32 de _ (by rw [hl']; omega), q1, q2, q3]
    exact segment_header_byte strict de n a b recs _ p v h40 hv
  · by_cases hrec : p < 40 + recs.length
    · obtain ⟨i, rfl⟩ : ∃ i, p = 40 + i := ⟨p - 40, by omega⟩
      have hi : i < recs.length := by omega
      have hset : (segHeader crc32 n a b ++ (recs ++ segFooter crc32 recs)).set (40 + i) v
          = segHeader crc32 n a b ++ (recs.set i v ++ segFooter crc32 recs) := by
        have h := set_append_right (segHeader crc32 n a b) (recs ++ segFooter crc32 recs) i v
        rw [hh] at h
        rw [h, set_append_left _ _ _ _ hi]
      obtain ⟨hl', q1, q2, q3⟩ := seg_parts (segHeader crc32 n a b) (recs.set i v) (segFooter crc32 recs) hh hf
      rw [hset, readSegment_parts strict crc32 de _ (by rw [hl']; omega), q1, q2, q3]
      by_cases hsame : recs.set i v = recs
      · right; rw [hsame]
      · left
        exact segment_record_byte_corruption_detected strict de _ recs i v hi hb hv
          (getElem_ne_of_set_ne recs i v hi hsame)
    · obtain ⟨i, rfl⟩ : ∃ i, p = 40 + recs.length + i := ⟨p - 40 - recs.length, by omega⟩
      have hi : i < 24 := by
        rw [hl] at hp; omega
      have hset : (segHeader crc32 n a b ++ (recs ++ segFooter crc32 recs)).set (40 + recs.length + i) v
          = segHeader crc32 n a b ++ (recs ++ (segFooter crc32 recs).set i v) := by
        have h := set_append_right (segHeader crc32 n a b) (recs ++ segFooter crc32 recs) (recs.length + i) v
        rw [hh] at h
        have e : 40 + recs.length + i = 40 + (recs.length + i) := by omega
        rw [e, h, set_append_right]
      obtain ⟨hl', q1, q2, q3⟩ := seg_parts (segHeader crc32 n a b) recs ((segFooter crc32 recs).set i v) hh
        (by rw [List.length_set, hf])
      rw [hset, readSegment_parts strict crc32 de _ (by rw [hl']; omega), q1, q2, q3]
      exact segment_footer_byte strict de _ recs i v hi hv hb

/-- for what `SegmentWriter::finish` wrote (payloads = byte strings) -/
theorem written_segment_single_byte_corruption {δ : Type} (strict : Bool) (de : Bytes → Option δ)
    (ps : List Bytes) (ts : List Nat) (img : Bytes) (hw : writeSegment crc32 ps ts = some img)
    (hb : ∀ q ∈ ps, ∀ x ∈ q, x < 256) (p v : Nat) (hp : p < img.length) (hv : v < 256) :
    IsErr (readSegment strict crc32 de (img.set p v)) ∨
      readSegment strict crc32 de (img.set p v) = readSegment strict crc32 de img := by
  unfold writeSegment at hw
  split at hw
  · cases hw
  · simp only [Option.some.injEq] at hw
    subst hw
    exact segment_single_byte_corruption strict de _ _ _ (records ps) p v
      (bytes_of_allBytes (allBytes_records ps (fun q hq => allBytes_of_bytes (hb q hq)))) hv hp

end C14
end RedisVerif

/-!
## checkpoints

The same for a written checkpoint image, at every position except the 4-byte data-length field
(48..52: a changed length moves the footer, so the footer checksum is computed over other bytes —
a string the linearity argument says nothing about; `checkpoint_truncation_detected` and the
footer-checksum hypothesis of `checkpoint_corruption_detected` cover it).
-/
namespace RedisVerif
namespace C14

open Wal Codec Driver Concrete WalBytes

/-- the parts of `hdr ++ (len4 ++ (payload ++ foot))` -/
theorem chk_parts0 (hdr len4 payload foot : Bytes) (hh : hdr.length = 48) (hl : len4.length = 4) (hf : foot.length = 16) :
    let data := hdr ++ (len4 ++ (payload ++ foot))
    data.length = 68 + payload.length ∧ data.take 48 = hdr ∧
    (data.drop 48).take 4 = len4 ∧ (data.drop 52).take payload.length = payload ∧
    (data.drop (52 + payload.length)).take 16 = foot := by
  have h := chk_parts hdr len4 payload foot [] hh hl hf
  simp only [List.append_nil, List.length_nil, Nat.add_zero] at h
  exact h

theorem chkFits_of_bytes (k t l : Nat) (payload : Bytes) (hl : payload.length < 2 ^ 32) (hb : ∀ x ∈ payload, x < 256) :
    ChkFits crc32 k t l payload := chkFits_crc32 k t l payload hl (allBytes_of_bytes hb)

/-- one byte of the payload replaced: the data checksum notices -/
theorem checkpoint_payload_byte {σ : Type} (de : Bytes → Option σ) (hdr payload : Bytes) (i v : Nat)
    (hh : hdr.length = 48) (hl : payload.length < 2 ^ 32) (hb : ∀ x ∈ payload, x < 256) (hi : i < payload.length)
    (hv : v < 256) (hne : payload[i]'hi ≠ v) :
    IsErr (readCheckpoint crc32 de (hdr ++ (le 4 payload.length ++ (payload.set i v ++ chkFooter crc32 payload)))) := by
  obtain ⟨_, _, p3, p4, p5⟩ := chk_parts0 hdr (le 4 payload.length) (payload.set i v) (chkFooter crc32 payload) hh
    (le_length _ _) (chkFooter_length _ _)
  rw [List.length_set] at p4 p5
  apply chk_err_of_data_crc
  simp only
  rw [p3, leVal_le 4 _ (by simpa using hl), p4, p5, (chkFooter_fields crc32 payload).2.2.1,
    leVal_le 4 _ (by simpa using Crc.crc32_lt payload hb)]
  exact Crc.crc32_detects_set payload i v hi hb hv hne

/-- one byte of the 16-byte footer replaced: the footer checksum notices -/
theorem checkpoint_footer_byte {σ : Type} (de : Bytes → Option σ) (hdr payload : Bytes) (i v : Nat)
    (hh : hdr.length = 48) (hl : payload.length < 2 ^ 32) (hb : ∀ x ∈ payload, x < 256) (hi : i < 16) (hv : v < 256)
    (hchg : (chkFooter crc32 payload).set i v ≠ chkFooter crc32 payload) :
    IsErr (readCheckpoint crc32 de (hdr ++ (le 4 payload.length ++ (payload ++ (chkFooter crc32 payload).set i v)))) := by
  obtain ⟨_, _, p3, _, p5⟩ := chk_parts0 hdr (le 4 payload.length) payload ((chkFooter crc32 payload).set i v) hh
    (le_length _ _) (by rw [List.length_set, chkFooter_length])
  apply chk_err_of_footer_crc
  simp only
  rw [p3, leVal_le 4 _ (by simpa using hl), p5]
  -- footer = X ++ Y, X = data crc ‖ data size (12 bytes), Y = le 4 (crc32 X)
  have hX : (le 4 (crc32 payload) ++ le 8 payload.length).length = 12 := by simp [le_length]
  have hXb : ∀ x ∈ le 4 (crc32 payload) ++ le 8 payload.length, x < 256 :=
    bytes_of_allBytes (by rw [Bincode.allBytes_append, Bincode.allBytes_le, Bincode.allBytes_le]; rfl)
  have hXc : crc32 (le 4 (crc32 payload) ++ le 8 payload.length) < 2 ^ 32 := Crc.crc32_lt _ hXb
  have hF : chkFooter crc32 payload = (le 4 (crc32 payload) ++ le 8 payload.length)
      ++ le 4 (crc32 (le 4 (crc32 payload) ++ le 8 payload.length)) := rfl
  by_cases h12 : i < 12
  · have hset : (chkFooter crc32 payload).set i v = (le 4 (crc32 payload) ++ le 8 payload.length).set i v
        ++ le 4 (crc32 (le 4 (crc32 payload) ++ le 8 payload.length)) := by
      rw [hF, set_append_left _ _ _ _ (by rw [hX]; exact h12)]
    have hXne : (le 4 (crc32 payload) ++ le 8 payload.length).set i v ≠ le 4 (crc32 payload) ++ le 8 payload.length := by
      intro h; apply hchg; rw [hset, h, ← hF]
    have hl' : ((le 4 (crc32 payload) ++ le 8 payload.length).set i v).length = 12 := by rw [List.length_set, hX]
    rw [hset, List.take_left' hl', List.drop_left' hl', List.take_of_length_le (by rw [le_length]; exact Nat.le_refl 4),
      leVal_le 4 _ (by simpa using hXc)]
    exact Crc.crc32_detects_set _ i v (by rw [hX]; exact h12) hXb hv
      (getElem_ne_of_set_ne _ i v (by rw [hX]; exact h12) hXne)
  · obtain ⟨j, rfl⟩ : ∃ j, i = 12 + j := ⟨i - 12, by omega⟩
    have hj : j < 4 := by omega
    have h := set_append_right (le 4 (crc32 payload) ++ le 8 payload.length)
      (le 4 (crc32 (le 4 (crc32 payload) ++ le 8 payload.length))) j v
    rw [hX] at h
    have hYne : (le 4 (crc32 (le 4 (crc32 payload) ++ le 8 payload.length))).set j v
        ≠ le 4 (crc32 (le 4 (crc32 payload) ++ le 8 payload.length)) := by
      intro h'; apply hchg; rw [hF, h, h']
    rw [hF, h, List.take_left' hX, List.drop_left' hX,
      List.take_of_length_le (by rw [List.length_set, le_length]; exact Nat.le_refl 4)]
    exact fun e => leVal_set_ne _ j v hXc hj hv hYne e.symm

/-- one byte of the 48-byte header replaced -/
theorem checkpoint_header_byte {σ : Type} (de : Bytes → Option σ) (k t l : Nat) (payload : Bytes) (i v : Nat)
    (hl : payload.length < 2 ^ 32) (hb : ∀ x ∈ payload, x < 256) (hi : i < 48) (hv : v < 256) :
    IsErr (readCheckpoint crc32 de ((chkHeader crc32 k t l).set i v ++ (le 4 payload.length ++ (payload ++ chkFooter crc32 payload)))) ∨
      readCheckpoint crc32 de ((chkHeader crc32 k t l).set i v ++ (le 4 payload.length ++ (payload ++ chkFooter crc32 payload)))
        = readCheckpoint crc32 de (writeCheckpoint crc32 k t l payload) := by
  have hfit := chkFits_of_bytes k t l payload hl hb
  have hcov : ∀ x ∈ chkCoveredA ++ chkCoveredB k t l, x < 256 := bytes_of_allBytes (allBytes_chkCovered k t l)
  have hcc : crc32 (chkCoveredA ++ chkCoveredB k t l) < 2 ^ 32 := Crc.crc32_lt _ hcov
  have hA : chkCoveredA.length = 6 := rfl
  have hB : (chkCoveredB k t l).length = 24 := chkCoveredB_length k t l
  -- the pristine image reads as `match de payload`
  have hprist : readCheckpoint crc32 de (writeCheckpoint crc32 k t l payload)
      = match de payload with | none => .error .ser | some s => .ok s := by
    have := readCheckpoint_written crc32 de k t l payload [0, 0] (List.replicate 12 0) [] rfl (by simp) hfit
    rw [← chkHeader_eq, List.append_nil] at this
    exact this
  -- any header with other padding / reserved bytes reads the same
  have hG : ∀ pad res : Bytes, pad.length = 2 → res.length = 12 →
      readCheckpoint crc32 de (chkHeaderG crc32 k t l pad res ++ (le 4 payload.length ++ (payload ++ chkFooter crc32 payload)))
        = readCheckpoint crc32 de (writeCheckpoint crc32 k t l payload) := by
    intro pad res hp hr
    have := readCheckpoint_written crc32 de k t l payload pad res [] hp hr hfit
    rw [List.append_nil] at this
    rw [this, hprist]
    cases de payload <;> rfl
  have hH : chkHeader crc32 k t l = chkCoveredA ++ ([0, 0] ++ (chkCoveredB k t l ++ (List.replicate 12 0 ++
      le 4 (crc32 (chkCoveredA ++ chkCoveredB k t l))))) := rfl
  -- slices of a header given as A' ++ (pad ++ (B' ++ (res ++ C')))
  have slices : ∀ (A' pad B' res C' rest : Bytes), A'.length = 6 → pad.length = 2 → B'.length = 24 → res.length = 12 → C'.length = 4 →
      let d := (A' ++ (pad ++ (B' ++ (res ++ C')))) ++ rest
      (d.take 48).take 6 ++ ((d.take 48).drop 8).take 24 = A' ++ B' ∧ ((d.take 48).drop 44).take 4 = C' := by
    intro A' pad B' res C' rest h1 h2 h3 h4 h5 d
    have hlen : (A' ++ (pad ++ (B' ++ (res ++ C')))).length = 48 := by simp [h1, h2, h3, h4, h5]
    have e0 : d.take 48 = A' ++ (pad ++ (B' ++ (res ++ C'))) := List.take_left' hlen
    rw [e0]
    have e1 : (A' ++ (pad ++ (B' ++ (res ++ C')))).take 6 = A' := List.take_left' h1
    have e2 : (A' ++ (pad ++ (B' ++ (res ++ C')))).drop 8 = B' ++ (res ++ C') := by
      rw [← List.append_assoc]; exact List.drop_left' (by simp [h1, h2])
    have e3 : (A' ++ (pad ++ (B' ++ (res ++ C')))).drop 44 = C' := by
      have : A' ++ (pad ++ (B' ++ (res ++ C'))) = (A' ++ (pad ++ (B' ++ res))) ++ C' := by simp
      rw [this]; exact List.drop_left' (by simp [h1, h2, h3, h4])
    rw [e1, e2, e3, List.take_left' h3, List.take_of_length_le (by omega)]
    exact ⟨rfl, rfl⟩
  by_cases h6 : i < 6
  · -- magic / version / flags: covered
    have hset : (chkHeader crc32 k t l).set i v = chkCoveredA.set i v ++ ([0, 0] ++ (chkCoveredB k t l ++ (List.replicate 12 0 ++
        le 4 (crc32 (chkCoveredA ++ chkCoveredB k t l))))) := by
      rw [hH, set_append_left _ _ _ _ (by rw [hA]; exact h6)]
    by_cases hsame : chkCoveredA.set i v = chkCoveredA
    · right; rw [hset, hsame, ← hH]; rfl
    · left
      apply chk_err_of_header_crc
      obtain ⟨s1, s2⟩ := slices (chkCoveredA.set i v) [0, 0] (chkCoveredB k t l) (List.replicate 12 0)
        (le 4 (crc32 (chkCoveredA ++ chkCoveredB k t l))) (le 4 payload.length ++ (payload ++ chkFooter crc32 payload))
        (by rw [List.length_set, hA]) rfl hB (by simp) (le_length _ _)
      rw [hset, s1, s2, leVal_le 4 _ (by simpa using hcc), ← set_append_left _ _ _ _ (by rw [hA]; exact h6)]
      exact Crc.crc32_detects_set _ i v (by rw [List.length_append, hA, hB]; omega) hcov hv
        (by
          apply getElem_ne_of_set_ne _ i v (by rw [List.length_append, hA, hB]; omega)
          rw [set_append_left _ _ _ _ (by rw [hA]; exact h6)]
          intro h; exact hsame (List.append_cancel_right h))
  · by_cases h8 : i < 8
    · -- padding
      right
      obtain ⟨j, rfl⟩ : ∃ j, i = 6 + j := ⟨i - 6, by omega⟩
      have h := set_append_right chkCoveredA ([0, 0] ++ (chkCoveredB k t l ++ (List.replicate 12 0 ++
        le 4 (crc32 (chkCoveredA ++ chkCoveredB k t l))))) j v
      rw [hA] at h
      rw [hH, h, set_append_left _ _ _ _ (by simp; omega)]
      exact hG ([0, 0].set j v) (List.replicate 12 0) (by simp) (by simp)
    · by_cases h32 : i < 32
      · -- key count / timestamp / last segment id: covered
        obtain ⟨j, rfl⟩ : ∃ j, i = 8 + j := ⟨i - 8, by omega⟩
        have hj : j < 24 := by omega
        have e : chkHeader crc32 k t l = (chkCoveredA ++ [0, 0]) ++ (chkCoveredB k t l ++ (List.replicate 12 0 ++
            le 4 (crc32 (chkCoveredA ++ chkCoveredB k t l)))) := by rw [hH]; simp
        have h := set_append_right (chkCoveredA ++ [0, 0]) (chkCoveredB k t l ++ (List.replicate 12 0 ++
            le 4 (crc32 (chkCoveredA ++ chkCoveredB k t l)))) j v
        have l8 : (chkCoveredA ++ [0, 0]).length = 8 := rfl
        rw [l8] at h
        have hset : (chkHeader crc32 k t l).set (8 + j) v = chkCoveredA ++ ([0, 0] ++ ((chkCoveredB k t l).set j v ++ (List.replicate 12 0 ++
            le 4 (crc32 (chkCoveredA ++ chkCoveredB k t l))))) := by
          rw [e, h, set_append_left _ _ _ _ (by rw [hB]; exact hj)]; simp
        by_cases hsame : (chkCoveredB k t l).set j v = chkCoveredB k t l
        · right; rw [hset, hsame, ← hH]; rfl
        · left
          apply chk_err_of_header_crc
          obtain ⟨s1, s2⟩ := slices chkCoveredA [0, 0] ((chkCoveredB k t l).set j v) (List.replicate 12 0)
            (le 4 (crc32 (chkCoveredA ++ chkCoveredB k t l))) (le 4 payload.length ++ (payload ++ chkFooter crc32 payload))
            hA rfl (by rw [List.length_set, hB]) (by simp) (le_length _ _)
          have hsr := set_append_right chkCoveredA (chkCoveredB k t l) j v
          rw [hA] at hsr
          rw [hset, s1, s2, leVal_le 4 _ (by simpa using hcc), ← hsr]
          exact Crc.crc32_detects_set _ (6 + j) v (by rw [List.length_append, hA, hB]; omega) hcov hv
            (by
              apply getElem_ne_of_set_ne _ (6 + j) v (by rw [List.length_append, hA, hB]; omega)
              rw [hsr]
              intro h'; exact hsame (List.append_cancel_left h'))
      · by_cases h44 : i < 44
        · -- reserved
          right
          obtain ⟨j, rfl⟩ : ∃ j, i = 32 + j := ⟨i - 32, by omega⟩
          have e : chkHeader crc32 k t l = (chkCoveredA ++ ([0, 0] ++ chkCoveredB k t l)) ++ (List.replicate 12 0 ++
              le 4 (crc32 (chkCoveredA ++ chkCoveredB k t l))) := by rw [hH]; simp
          have h := set_append_right (chkCoveredA ++ ([0, 0] ++ chkCoveredB k t l)) (List.replicate 12 0 ++
              le 4 (crc32 (chkCoveredA ++ chkCoveredB k t l))) j v
          have l32 : (chkCoveredA ++ ([0, 0] ++ chkCoveredB k t l)).length = 32 := by simp [hA, hB]
          rw [l32] at h
          rw [e, h, set_append_left _ _ _ _ (by simp; omega)]
          have := hG [0, 0] ((List.replicate 12 0).set j v) rfl (by simp)
          simp only [chkHeaderG, List.append_assoc] at this ⊢
          exact this
        · -- the stored header checksum
          obtain ⟨j, rfl⟩ : ∃ j, i = 44 + j := ⟨i - 44, by omega⟩
          have hj : j < 4 := by omega
          have e : chkHeader crc32 k t l = (chkCoveredA ++ ([0, 0] ++ (chkCoveredB k t l ++ List.replicate 12 0))) ++
              le 4 (crc32 (chkCoveredA ++ chkCoveredB k t l)) := by rw [hH]; simp
          have h := set_append_right (chkCoveredA ++ ([0, 0] ++ (chkCoveredB k t l ++ List.replicate 12 0)))
              (le 4 (crc32 (chkCoveredA ++ chkCoveredB k t l))) j v
          have l44 : (chkCoveredA ++ ([0, 0] ++ (chkCoveredB k t l ++ List.replicate 12 0))).length = 44 := by simp [hA, hB]
          rw [l44] at h
          have hset : (chkHeader crc32 k t l).set (44 + j) v = chkCoveredA ++ ([0, 0] ++ (chkCoveredB k t l ++ (List.replicate 12 0 ++
              (le 4 (crc32 (chkCoveredA ++ chkCoveredB k t l))).set j v))) := by
            rw [e, h]; simp
          by_cases hsame : (le 4 (crc32 (chkCoveredA ++ chkCoveredB k t l))).set j v = le 4 (crc32 (chkCoveredA ++ chkCoveredB k t l))
          · right; rw [hset, hsame, ← hH]; rfl
          · left
            apply chk_err_of_header_crc
            obtain ⟨s1, s2⟩ := slices chkCoveredA [0, 0] (chkCoveredB k t l) (List.replicate 12 0)
              ((le 4 (crc32 (chkCoveredA ++ chkCoveredB k t l))).set j v) (le 4 payload.length ++ (payload ++ chkFooter crc32 payload))
              hA rfl hB (by simp) (by rw [List.length_set, le_length])
            rw [hset, s1, s2]
            exact fun e' => leVal_set_ne _ j v hcc hj hv hsame e'.symm

/-- MAIN: ONE byte of a written checkpoint image replaced by any value, at any position outside the
    data-length field (48..52): the read is an error or returns exactly what the pristine image returns -/
theorem checkpoint_single_byte_corruption {σ : Type} (de : Bytes → Option σ) (k t l : Nat) (payload : Bytes)
    (p v : Nat) (hl : payload.length < 2 ^ 32) (hb : ∀ x ∈ payload, x < 256) (hv : v < 256)
    (hp : p < (writeCheckpoint crc32 k t l payload).length) (hnl : p < 48 ∨ 52 ≤ p) :
    IsErr (readCheckpoint crc32 de ((writeCheckpoint crc32 k t l payload).set p v)) ∨
      readCheckpoint crc32 de ((writeCheckpoint crc32 k t l payload).set p v)
        = readCheckpoint crc32 de (writeCheckpoint crc32 k t l payload) := by
  have hh : (chkHeader crc32 k t l).length = 48 := by rw [chkHeader_eq]; exact chkHeader_length _ _ _ _ _ _ rfl (by simp)
  have hlen : (writeCheckpoint crc32 k t l payload).length = 68 + payload.length := by
    unfold writeCheckpoint
    simp [hh, le_length, chkFooter_length]; omega
  rw [hlen] at hp
  unfold writeCheckpoint
  by_cases h48 : p < 48
  · rw [set_append_left _ _ _ _ (by rw [hh]; exact h48)]
    exact checkpoint_header_byte de k t l payload p v hl hb h48 hv
  · have h52 : 52 ≤ p := by rcases hnl with h | h; exact absurd h h48; exact h
    by_cases hpay : p < 52 + payload.length
    · obtain ⟨i, rfl⟩ : ∃ i, p = 48 + (4 + i) := ⟨p - 52, by omega⟩
      have hi : i < payload.length := by omega
      have h1 := set_append_right (chkHeader crc32 k t l) (le 4 payload.length ++ (payload ++ chkFooter crc32 payload)) (4 + i) v
      have h2 := set_append_right (le 4 payload.length) (payload ++ chkFooter crc32 payload) i v
      rw [hh] at h1
      rw [le_length] at h2
      rw [h1, h2, set_append_left _ _ _ _ hi]
      by_cases hsame : payload.set i v = payload
      · right; rw [hsame]
      · left
        exact checkpoint_payload_byte de _ payload i v hh hl hb hi hv (getElem_ne_of_set_ne payload i v hi hsame)
    · obtain ⟨i, rfl⟩ : ∃ i, p = 48 + (4 + (payload.length + i)) := ⟨p - 52 - payload.length, by omega⟩
      have hi : i < 16 := by omega
      have h1 := set_append_right (chkHeader crc32 k t l) (le 4 payload.length ++ (payload ++ chkFooter crc32 payload)) (4 + (payload.length + i)) v
      have h2 := set_append_right (le 4 payload.length) (payload ++ chkFooter crc32 payload) (payload.length + i) v
      rw [hh] at h1
      rw [le_length] at h2
      rw [h1, h2, set_append_right]
      by_cases hsame : (chkFooter crc32 payload).set i v = chkFooter crc32 payload
      · right; rw [hsame]
      · left
        exact checkpoint_footer_byte de _ payload i v hh hl hb hi hv hsame

end C14
end RedisVerif
