import RedisVerif.Props.C14Bincode
import RedisVerif.Lemmas.WalBytes

/-!
# C14 — every single-byte corruption position of a segment, with CRC-32 (no checksum hypothesis)

`covered_corruption_detected` (Props/C14.lean) needs two `CrcDetects` hypotheses.  For the executable
CRC-32 and ONE replaced byte they are theorems, so the statement of the property holds outright:

`segment_single_byte_corruption`: take any written segment image (header as `SegmentWriter::finish`
writes it, ANY record bytes, the footer written for them), replace ONE byte — anywhere: covered
header fields, stored header checksum, header padding, records, stored data checksum, footer size
fields, footer magic — by any value (every single-bit flip included): reading the result is an ERROR,
or returns exactly what the pristine image returns.  Never different data.
-/
namespace RedisVerif
namespace C14

open Wal Codec Driver Concrete WalBytes

theorem getElem_ne_of_set_ne (l : Bytes) (i v : Nat) (hi : i < l.length) (h : l.set i v ≠ l) : l[i]'hi ≠ v := by
  intro heq
  apply h
  rw [← heq]; exact List.set_getElem_self hi

/-- the stored value of a 4-byte field changes when one of its bytes does -/
theorem leVal_set_ne (c j v : Nat) (hc : c < 2 ^ 32) (hj : j < 4) (hv : v < 256) (h : (le 4 c).set j v ≠ le 4 c) :
    leVal ((le 4 c).set j v) ≠ c := by
  intro heq
  apply h
  have hb : ∀ x ∈ (le 4 c).set j v, x < 256 := mem_set_lt _ _ _ (le_bytes 4 c) hv
  have := Codec.le_leVal _ hb
  rw [List.length_set, le_length, heq] at this
  exact this.symm

/-- one byte of the 40-byte header replaced -/
theorem segment_header_byte {δ : Type} (strict : Bool) (de : Bytes → Option δ) (n a b : Nat) (recs foot : Bytes)
    (i v : Nat) (hi : i < 40) (hv : v < 256) :
    IsErr (readSegParts strict crc32 de ((segHeader crc32 n a b).set i v) recs foot) ∨
      readSegParts strict crc32 de ((segHeader crc32 n a b).set i v) recs foot
        = readSegParts strict crc32 de (segHeader crc32 n a b) recs foot := by
  have hcov := segCovered_length n a b
  have hcb : ∀ x ∈ segCovered n a b, x < 256 := bytes_of_allBytes (allBytes_segCovered n a b)
  have hc32 : crc32 (segCovered n a b) < 2 ^ 32 := Crc.crc32_lt _ hcb
  have hdr : segHeader crc32 n a b = segCovered n a b ++ (le 4 (crc32 (segCovered n a b)) ++ List.replicate 10 0) := rfl
  by_cases h26 : i < 26
  · -- a covered header field
    have hset : (segHeader crc32 n a b).set i v = (segCovered n a b).set i v ++ (le 4 (crc32 (segCovered n a b)) ++ List.replicate 10 0) := by
      rw [hdr, set_append_left _ _ _ _ (by rw [hcov]; exact h26)]
    by_cases hsame : (segCovered n a b).set i v = segCovered n a b
    · right; rw [hset, hsame, ← hdr]
    · left
      apply readSegParts_err_of_header_crc
      have hl : ((segCovered n a b).set i v).length = 26 := by rw [List.length_set, hcov]
      have e1 : (((segHeader crc32 n a b).set i v).take 30).take 26 = (segCovered n a b).set i v := by
        rw [List.take_take, hset]
        exact List.take_left' (by rw [hl]; rfl)
      have e2 : ((((segHeader crc32 n a b).set i v).take 30).drop 26).take 4 = le 4 (crc32 (segCovered n a b)) := by
        rw [hset]
        have : ((segCovered n a b).set i v ++ (le 4 (crc32 (segCovered n a b)) ++ List.replicate 10 0)).take 30
            = (segCovered n a b).set i v ++ le 4 (crc32 (segCovered n a b)) := by
          rw [← List.append_assoc]
          exact List.take_left' (by rw [List.length_append, hl, le_length])
        rw [this, List.drop_left' hl]
        exact List.take_left' (le_length _ _) |>.trans (by simp)
      rw [e1, e2, leVal_le 4 _ (by simpa using hc32)]
      exact Crc.crc32_detects_set _ i v (by rw [hcov]; exact h26) hcb hv
        (getElem_ne_of_set_ne _ i v (by rw [hcov]; exact h26) hsame)
  · by_cases h30 : i < 30
    · -- the stored header checksum
      obtain ⟨j, rfl⟩ : ∃ j, i = 26 + j := ⟨i - 26, by omega⟩
      have hj : j < 4 := by omega
      have hset : (segHeader crc32 n a b).set (26 + j) v
          = segCovered n a b ++ ((le 4 (crc32 (segCovered n a b))).set j v ++ List.replicate 10 0) := by
        have h := set_append_right (segCovered n a b) (le 4 (crc32 (segCovered n a b)) ++ List.replicate 10 0) j v
        rw [hcov] at h
        rw [hdr, h, set_append_left _ _ _ _ (by rw [le_length]; exact hj)]
      by_cases hsame : (le 4 (crc32 (segCovered n a b))).set j v = le 4 (crc32 (segCovered n a b))
      · right; rw [hset, hsame, ← hdr]
      · left
        apply readSegParts_err_of_header_crc
        have hl4 : ((le 4 (crc32 (segCovered n a b))).set j v).length = 4 := by rw [List.length_set, le_length]
        have ht : ((segHeader crc32 n a b).set (26 + j) v).take 30
            = segCovered n a b ++ (le 4 (crc32 (segCovered n a b))).set j v := by
          rw [hset, ← List.append_assoc]
          exact List.take_left' (by rw [List.length_append, hcov, hl4])
        rw [ht, List.take_left' hcov, List.drop_left' hcov, List.take_of_length_le (by rw [hl4]; exact Nat.le_refl 4)]
        exact fun h => leVal_set_ne _ j v hc32 hj hv hsame h.symm
    · -- header padding: not looked at
      right
      apply readSegParts_congr
      · obtain ⟨j, rfl⟩ : ∃ j, i = 30 + j := ⟨i - 30, by omega⟩
        have h := set_append_right (segCovered n a b ++ le 4 (crc32 (segCovered n a b))) (List.replicate 10 0) j v
        rw [List.length_append, hcov, le_length] at h
        have e : segHeader crc32 n a b = (segCovered n a b ++ le 4 (crc32 (segCovered n a b))) ++ List.replicate 10 0 := by
          rw [hdr, List.append_assoc]
        have h30' : (26 : Nat) + 4 = 30 := rfl
        rw [h30'] at h
        rw [e, h]
        rw [List.take_left' (by rw [List.length_append, hcov, le_length]), List.take_left' (by rw [List.length_append, hcov, le_length])]
      · rfl
      · rfl

/-- one byte of the 24-byte footer replaced -/
theorem segment_footer_byte {δ : Type} (strict : Bool) (de : Bytes → Option δ) (hdr recs : Bytes)
    (i v : Nat) (hi : i < 24) (hv : v < 256) (hb : ∀ x ∈ recs, x < 256) :
    IsErr (readSegParts strict crc32 de hdr recs ((segFooter crc32 recs).set i v)) ∨
      readSegParts strict crc32 de hdr recs ((segFooter crc32 recs).set i v)
        = readSegParts strict crc32 de hdr recs (segFooter crc32 recs) := by
  have hc32 : crc32 recs < 2 ^ 32 := Crc.crc32_lt _ hb
  have hfoot : segFooter crc32 recs = le 4 (crc32 recs) ++ ((le 8 recs.length ++ le 8 recs.length) ++ footMagic) := by
    simp [segFooter]
  by_cases h4 : i < 4
  · -- the stored data checksum
    have hset : (segFooter crc32 recs).set i v = (le 4 (crc32 recs)).set i v ++ ((le 8 recs.length ++ le 8 recs.length) ++ footMagic) := by
      rw [hfoot, set_append_left _ _ _ _ (by rw [le_length]; exact h4)]
    by_cases hsame : (le 4 (crc32 recs)).set i v = le 4 (crc32 recs)
    · right; rw [hset, hsame, ← hfoot]
    · left
      apply readSegParts_err_of_data_crc
      rw [hset, List.take_left' (by rw [List.length_set, le_length])]
      exact fun h => leVal_set_ne _ i v hc32 h4 hv hsame h.symm
  · by_cases h20 : i < 20
    · -- the two size fields: not looked at
      right
      obtain ⟨j, rfl⟩ : ∃ j, i = 4 + j := ⟨i - 4, by omega⟩
      have h := set_append_right (le 4 (crc32 recs)) ((le 8 recs.length ++ le 8 recs.length) ++ footMagic) j v
      rw [le_length] at h
      have hs := set_append_left (le 8 recs.length ++ le 8 recs.length) footMagic j v (by simp [le_length]; omega)
      apply readSegParts_congr
      · rfl
      · rw [hfoot, h]
        rw [List.take_left' (le_length _ _), List.take_left' (le_length _ _)]
      · rw [hfoot, h, hs]
        have l16 : ((le 8 recs.length ++ le 8 recs.length).set j v).length = 16 := by simp [le_length]
        have l16' : (le 8 recs.length ++ le 8 recs.length).length = 16 := by simp [le_length]
        have e1 : le 4 (crc32 recs) ++ ((le 8 recs.length ++ le 8 recs.length).set j v ++ footMagic)
            = (le 4 (crc32 recs) ++ (le 8 recs.length ++ le 8 recs.length).set j v) ++ footMagic := by simp
        have e2 : le 4 (crc32 recs) ++ ((le 8 recs.length ++ le 8 recs.length) ++ footMagic)
            = (le 4 (crc32 recs) ++ (le 8 recs.length ++ le 8 recs.length)) ++ footMagic := by simp
        rw [e1, e2, List.drop_left' (by rw [List.length_append, le_length, l16]),
          List.drop_left' (by rw [List.length_append, le_length, l16'])]
    · -- the footer magic
      obtain ⟨j, rfl⟩ : ∃ j, i = 20 + j := ⟨i - 20, by omega⟩
      have hj : j < 4 := by omega
      have e2 : segFooter crc32 recs = (le 4 (crc32 recs) ++ (le 8 recs.length ++ le 8 recs.length)) ++ footMagic := by
        rw [hfoot]; simp
      have h := set_append_right (le 4 (crc32 recs) ++ (le 8 recs.length ++ le 8 recs.length)) footMagic j v
      have l20 : (le 4 (crc32 recs) ++ (le 8 recs.length ++ le 8 recs.length)).length = 20 := by simp [le_length]
      rw [l20] at h
      by_cases hsame : footMagic.set j v = footMagic
      · right; rw [e2, h, hsame]
      · left
        apply readSegParts_err_of_magic
        rw [e2, h, List.drop_left' l20, List.take_of_length_le (by simp [footMagic])]
        exact hsame

/-- MAIN: ONE byte of a written segment image replaced by any value, at ANY position: the read is an
    error or returns exactly what the pristine image returns -/
theorem segment_single_byte_corruption {δ : Type} (strict : Bool) (de : Bytes → Option δ) (n a b : Nat) (recs : Bytes)
    (p v : Nat) (hb : ∀ x ∈ recs, x < 256) (hv : v < 256)
    (hp : p < (segHeader crc32 n a b ++ (recs ++ segFooter crc32 recs)).length) :
    IsErr (readSegment strict crc32 de ((segHeader crc32 n a b ++ (recs ++ segFooter crc32 recs)).set p v)) ∨
      readSegment strict crc32 de ((segHeader crc32 n a b ++ (recs ++ segFooter crc32 recs)).set p v)
        = readSegment strict crc32 de (segHeader crc32 n a b ++ (recs ++ segFooter crc32 recs)) := by
  have hh : (segHeader crc32 n a b).length = 40 := by rw [segHeader_eq]; exact segHeader_length _ _ _ _ _ (by simp)
  have hf : (segFooter crc32 recs).length = 24 := by rw [segFooter_eq]; exact (segFooter_fields _ _ _ (by simp [le_length])).2.2
  obtain ⟨hl, p1, p2, p3⟩ := seg_parts (segHeader crc32 n a b) recs (segFooter crc32 recs) hh hf
  have pristine := readSegment_parts strict crc32 de (segHeader crc32 n a b ++ (recs ++ segFooter crc32 recs)) (by rw [hl]; omega)
  rw [p1, p2, p3] at pristine
  rw [pristine]
  by_cases h40 : p < 40
  · have hset : (segHeader crc32 n a b ++ (recs ++ segFooter crc32 recs)).set p v
        = (segHeader crc32 n a b).set p v ++ (recs ++ segFooter crc32 recs) := by
      rw [set_append_left _ _ _ _ (by rw [hh]; exact h40)]
    obtain ⟨hl', q1, q2, q3⟩ := seg_parts ((segHeader crc32 n a b).set p v) recs (segFooter crc32 recs)
      (by rw [List.length_set, hh]) hf
    rw [hset, readSegment_parts strict crc32 de _ (by rw [hl']; omega), q1, q2, q3]
    exact segment_header_byte strict de n a b recs _ p v h40 hv
  · by_cases hrec : p < 40 + recs.length
    · obtain ⟨i, rfl⟩ : ∃ i, p = 40 + i := ⟨p - 40, by omega⟩
      have hi : i < recs.length := by omega
      have hset : (segHeader crc32 n a b ++ (recs ++ segFooter crc32 recs)).set (40 + i) v
          = segHeader crc32 n a b ++ (recs.set i v ++ segFooter crc32 recs) := by
        have h := set_append_right (segHeader crc32 n a b) (recs ++ segFooter crc32 recs) i v
        rw [hh] at h
        rw [h, set_append_left _ _ _ _ hi]
      obtain ⟨hl', q1, q2, q3⟩ := seg_parts (segHeader crc32 n a b) (recs.set i v) (segFooter crc32 recs) hh hf
      rw [hset, readSegment_parts strict crc32 de _ (by rw [hl']; omega), q1, q2, q3]
      by_cases hsame : recs.set i v = recs
      · right; rw [hsame]
      · left
        exact segment_record_byte_corruption_detected strict de _ recs i v hi hb hv
          (getElem_ne_of_set_ne recs i v hi hsame)
    · obtain ⟨i, rfl⟩ : ∃ i, p = 40 + recs.length + i := ⟨p - 40 - recs.length, by omega⟩
      have hi : i < 24 := by
        rw [hl] at hp; omega
      have hset : (segHeader crc32 n a b ++ (recs ++ segFooter crc32 recs)).set (40 + recs.length + i) v
          = segHeader crc32 n a b ++ (recs ++ (segFooter crc32 recs).set i v) := by
        have h := set_append_right (segHeader crc32 n a b) (recs ++ segFooter crc32 recs) (recs.length + i) v
        rw [hh] at h
        have e : 40 + recs.length + i = 40 + (recs.length + i) := by omega
        rw [e, h, set_append_right]
      obtain ⟨hl', q1, q2, q3⟩ := seg_parts (segHeader crc32 n a b) recs ((segFooter crc32 recs).set i v) hh
        (by rw [List.length_set, hf])
      rw [hset, readSegment_parts strict crc32 de _ (by rw [hl']; omega), q1, q2, q3]
      exact segment_footer_byte strict de _ recs i v hi hv hb

/-- for what `SegmentWriter::finish` wrote (payloads = byte strings) -/
theorem written_segment_single_byte_corruption {δ : Type} (strict : Bool) (de : Bytes → Option δ)
    (ps : List Bytes) (ts : List Nat) (img : Bytes) (hw : writeSegment crc32 ps ts = some img)
    (hb : ∀ q ∈ ps, ∀ x ∈ q, x < 256) (p v : Nat) (hp : p < img.length) (hv : v < 256) :
    IsErr (readSegment strict crc32 de (img.set p v)) ∨
      readSegment strict crc32 de (img.set p v) = readSegment strict crc32 de img := by
  unfold writeSegment at hw
  split at hw
  · cases hw
  · simp only [Option.some.injEq] at hw
    subst hw
    exact segment_single_byte_corruption strict de _ _ _ (records ps) p v
      (bytes_of_allBytes (allBytes_records ps (fun q hq => allBytes_of_bytes (hb q hq)))) hv hp

end C14
end RedisVerif
