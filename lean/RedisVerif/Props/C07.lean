import RedisVerif.Model.Crdt
import RedisVerif.Lemmas.NMap
import RedisVerif.Lemmas.Crdt

/-!
# C07 — CRDT merge is commutative, associative and idempotent in all it exposes

Model: `RedisVerif.RV.merge` (M1, `Model/Crdt.lean`) = `ReplicatedValue::merge`.
Equalities below are *structural* equalities of canonical model values, which is
stronger than equality of everything observable (value, liveness, hash fields,
counter totals, set membership, expiry, outer stamp): every observation is a
function of the value, see `obs_congr`.

Full-strength statements are `C07_idem`, `C07_comm`, `C07_assoc`.
`C07_idem` is proved. `C07_comm` is proved for all tie-consistent pairs (the
hypothesis is decidable, satisfied by everything replicas produce when C08 holds,
and *necessary*: `lww_tie_counterexample`).  `C07_assoc` is false of the code
(`assoc_cross_kind_counterexample`, a known finding); the proved form is
`rv_merge_assoc_partial` (same CRDT kind).
-/
namespace RedisVerif
namespace C07

open RV

/-- Decidable tie-consistency of two values: wherever the merge breaks a tie by position
    (equal stamps), the two candidates are equal.  Discharged for reachable values by the
    C08 invariant (a `(time, replica)` stamp identifies one write). -/
def tieOk : Crdt → Crdt → Stamp → Stamp → Bool
  | .lww x, .lww y, _, _ => x.ts != y.ts || x == y
  | .hash x, .hash y, _, _ =>
      x.all fun p => y.all fun q => p.1 != q.1 || p.2.ts != q.2.ts || p.2 == q.2
  | a, b, sa, sb => a.kind == b.kind || sa != sb

def TieConsistent (a b : RV) : Prop := tieOk a.crdt b.crdt a.ts b.ts = true

instance (a b : RV) : Decidable (TieConsistent a b) := by unfold TieConsistent; infer_instance

def SameKind (a b c : RV) : Prop := a.crdt.kind = b.crdt.kind ∧ b.crdt.kind = c.crdt.kind

instance (a b c : RV) : Decidable (SameKind a b c) := by unfold SameKind; infer_instance

/-! ## full-strength statements -/

def C07_idem : Prop := ∀ a : RV, a.WF → merge a a = a
def C07_comm : Prop := ∀ a b : RV, a.WF → b.WF → TieConsistent a b → merge a b = merge b a
def C07_assoc : Prop :=
  ∀ a b c : RV, a.WF → b.WF → c.WF → merge a (merge b c) = merge (merge a b) c

/-! ## well-formedness is preserved -/

theorem crdt_tryMerge_wf {a b m : Crdt} (ha : a.WF) (hb : b.WF) (h : Crdt.tryMerge a b = some m) :
    m.WF := by
  cases a <;> cases b <;> simp [Crdt.tryMerge] at h <;> subst h <;> simp only [Crdt.WF] at *
  · exact NMap.wf_merge ha hb
  · exact ⟨NMap.wf_merge ha.1 hb.1, NMap.wf_merge ha.2 hb.2⟩
  · exact NSet.wf_union ha hb
  · obtain ⟨ha1, ha2, ha3⟩ := ha
    obtain ⟨hb1, hb2, hb3⟩ := hb
    have hane := fun p hp => (ha3 p hp).2
    have hbne := fun p hp => (hb3 p hp).2
    rw [Crdt.orsetMergeElems_eq hane hbne]
    refine ⟨NMap.wf_merge ha1 hb1, NMap.wf_merge ha2 hb2, ?_⟩
    intro p hp
    exact ⟨Crdt.merge_union_wf (fun q hq => (ha3 q hq).1) (fun q hq => (hb3 q hq).1) p hp,
      Crdt.merge_union_nonempty hane hbne p hp⟩
  · exact NMap.wf_merge ha hb

theorem crdt_mwt_wf {a b : Crdt} (sa sb : Stamp) (ha : a.WF) (hb : b.WF) :
    (Crdt.mergeWithTimestamps a b sa sb).WF := by
  unfold Crdt.mergeWithTimestamps
  split
  · rename_i m h; exact crdt_tryMerge_wf ha hb h
  · split <;> assumption

theorem vcWF_iff (x : Option (NMap Nat)) : RV.vcWF x ↔ ∀ m, x = some m → NMap.WF m := by
  cases x <;> simp [RV.vcWF]

theorem rv_merge_wf {a b : RV} (ha : a.WF) (hb : b.WF) : (merge a b).WF := by
  refine ⟨crdt_mwt_wf _ _ ha.1 hb.1, ?_⟩
  have h1 := ha.2
  have h2 := hb.2
  simp only [merge, mergeWith]
  cases hva : a.vc <;> cases hvb : b.vc <;> simp only [hva, hvb, optMerge, RV.vcWF] at *
  · exact h2
  · exact h1
  · exact NMap.wf_merge h1 h2

/-! ## idempotence -/

theorem crdt_mwt_idem {a : Crdt} (s : Stamp) (ha : a.WF) :
    Crdt.mergeWithTimestamps a a s s = a := by
  cases a <;> simp only [Crdt.mergeWithTimestamps, Crdt.tryMerge, Crdt.WF] at *
  · rw [Lww.merge_idem]
  · rw [Crdt.cmerge_idem ha]
  · rw [Crdt.cmerge_idem ha.1, Crdt.cmerge_idem ha.2]
  · rw [NSet.union_idem ha]
  · obtain ⟨h1, h2, h3⟩ := ha
    have hne := fun p hp => (h3 p hp).2
    rw [Crdt.orsetMergeElems_eq hne hne, Crdt.cmerge_idem h2]
    rw [NMap.merge_idem h1]
    intro k u hu
    exact NSet.union_idem (h3 (k, u) (Crdt.mem_of_get hu)).1
  · rw [NMap.merge_idem ha (fun _ u _ => Lww.merge_idem u)]

theorem optmax_idem (x : Option Nat) : optMerge Max.max x x = x :=
  NMap.optMerge_idem (fun u _ => Nat.max_self u)

theorem optvc_idem {x : Option (NMap Nat)} (h : ∀ m, x = some m → NMap.WF m) :
    optMerge (NMap.merge Max.max) x x = x :=
  NMap.optMerge_idem (fun u hu => Crdt.cmerge_idem (h u hu))

/-- **C07 (idempotence)**, every value, every CRDT kind. -/
theorem rv_merge_idem : C07_idem := by
  intro a ha
  obtain ⟨c, vc, e, ts, rf⟩ := a
  simp only [merge, mergeWith, stampMerge, RV.mk.injEq]
  exact ⟨crdt_mwt_idem ts ha.1, optvc_idem ((vcWF_iff _).mp ha.2), optmax_idem e, Stamp.max_idem ts, optmax_idem rf⟩

/-! ## commutativity -/

theorem crdt_mwt_comm {a b : Crdt} {sa sb : Stamp} (ha : a.WF) (hb : b.WF)
    (ht : tieOk a b sa sb = true) :
    Crdt.mergeWithTimestamps a b sa sb = Crdt.mergeWithTimestamps b a sb sa := by
  cases a <;> cases b <;>
    simp only [Crdt.mergeWithTimestamps, Crdt.tryMerge, Crdt.WF, tieOk, Crdt.kind] at * <;>
    first
      | (-- cross-kind: decided by the outer stamps, which differ
         simp at ht
         cases h1 : sa.lt sb <;> cases h2 : sb.lt sa <;> simp
         · exact absurd (Stamp.eq_of_not_lt h1 h2) ht
         · rw [Stamp.lt_asymm h1] at h2; cases h2)
      | skip
  · -- lww / lww
    rename_i x y
    congr 1
    apply Lww.merge_comm
    intro hts
    simp at ht
    rcases ht with h | h
    · exact absurd hts h
    · exact h
  · rw [Crdt.cmerge_comm ha hb]
  · rw [Crdt.cmerge_comm ha.1 hb.1, Crdt.cmerge_comm ha.2 hb.2]
  · rw [NSet.union_comm ha hb]
  · obtain ⟨ha1, ha2, ha3⟩ := ha
    obtain ⟨hb1, hb2, hb3⟩ := hb
    have hane := fun p hp => (ha3 p hp).2
    have hbne := fun p hp => (hb3 p hp).2
    rw [Crdt.orsetMergeElems_eq hane hbne, Crdt.orsetMergeElems_eq hbne hane,
      Crdt.cmerge_comm ha2 hb2]
    rw [NMap.merge_comm ha1 hb1]
    intro k u v hu hv
    exact NSet.union_comm (ha3 (k, u) (Crdt.mem_of_get hu)).1 (hb3 (k, v) (Crdt.mem_of_get hv)).1
  · -- hash / hash
    rename_i x y
    rw [NMap.merge_comm ha hb]
    intro k u v hu hv
    apply Lww.merge_comm
    intro hts
    have hx := Crdt.mem_of_get hu
    have hy := Crdt.mem_of_get hv
    rw [List.all_eq_true] at ht
    have h1 := ht (k, u) hx
    rw [List.all_eq_true] at h1
    have h2 := h1 (k, v) hy
    simp at h2
    rcases h2 with h | h
    · exact absurd hts h
    · exact h

theorem optmax_comm (x y : Option Nat) : optMerge Max.max x y = optMerge Max.max y x :=
  NMap.optMerge_comm (fun u v _ _ => Nat.max_comm u v)

theorem optvc_comm {x y : Option (NMap Nat)} (hx : ∀ m, x = some m → NMap.WF m)
    (hy : ∀ m, y = some m → NMap.WF m) :
    optMerge (NMap.merge Max.max) x y = optMerge (NMap.merge Max.max) y x :=
  NMap.optMerge_comm (fun u v hu hv => Crdt.cmerge_comm (hx u hu) (hy v hv))

/-- **C07 (commutativity)**, all kinds incl. type mismatches, tombstones, equal times from
    different replicas; the only hypothesis is decidable tie-consistency. -/
theorem rv_merge_comm : C07_comm := by
  intro a b ha hb ht
  obtain ⟨ca, va, ea, sa, ra⟩ := a
  obtain ⟨cb, vb, eb, sb, rb⟩ := b
  simp only [merge, mergeWith, stampMerge, RV.mk.injEq]
  exact ⟨crdt_mwt_comm ha.1 hb.1 ht, optvc_comm ((vcWF_iff _).mp ha.2) ((vcWF_iff _).mp hb.2), optmax_comm ea eb,
    Stamp.max_comm sa sb, optmax_comm ra rb⟩

/-! ## associativity (same kind) -/

theorem optmax_assoc (x y z : Option Nat) :
    optMerge Max.max x (optMerge Max.max y z) = optMerge Max.max (optMerge Max.max x y) z :=
  NMap.optMerge_assoc (fun u v w _ _ _ => (Nat.max_assoc u v w).symm)

theorem optvc_assoc {x y z : Option (NMap Nat)} (hx : ∀ m, x = some m → NMap.WF m)
    (hy : ∀ m, y = some m → NMap.WF m) (hz : ∀ m, z = some m → NMap.WF m) :
    optMerge (NMap.merge Max.max) x (optMerge (NMap.merge Max.max) y z)
      = optMerge (NMap.merge Max.max) (optMerge (NMap.merge Max.max) x y) z :=
  NMap.optMerge_assoc (fun u v w hu hv hw => Crdt.cmerge_assoc (hx u hu) (hy v hv) (hz w hw))

theorem crdt_mwt_assoc_samekind {a b c : Crdt} (sa sb sc sbc sab : Stamp)
    (ha : a.WF) (hb : b.WF) (hc : c.WF) (h1 : a.kind = b.kind) (h2 : b.kind = c.kind) :
    Crdt.mergeWithTimestamps a (Crdt.mergeWithTimestamps b c sb sc) sa sbc
      = Crdt.mergeWithTimestamps (Crdt.mergeWithTimestamps a b sa sb) c sab sc := by
  cases a <;> cases b <;> simp [Crdt.kind] at h1 <;> cases c <;> simp [Crdt.kind] at h2 <;>
    simp only [Crdt.mergeWithTimestamps, Crdt.tryMerge, Crdt.WF] at *
  · rw [Lww.merge_assoc]
  · rw [Crdt.cmerge_assoc ha hb hc]
  · rw [Crdt.cmerge_assoc ha.1 hb.1 hc.1, Crdt.cmerge_assoc ha.2 hb.2 hc.2]
  · rw [NSet.union_assoc ha hb hc]
  · obtain ⟨ha1, ha2, ha3⟩ := ha
    obtain ⟨hb1, hb2, hb3⟩ := hb
    obtain ⟨hc1, hc2, hc3⟩ := hc
    have hane := fun p hp => (ha3 p hp).2
    have hbne := fun p hp => (hb3 p hp).2
    have hcne := fun p hp => (hc3 p hp).2
    rw [Crdt.orsetMergeElems_eq hbne hcne, Crdt.orsetMergeElems_eq hane hbne,
      Crdt.orsetMergeElems_eq hane (Crdt.merge_union_nonempty hbne hcne),
      Crdt.orsetMergeElems_eq (Crdt.merge_union_nonempty hane hbne) hcne,
      Crdt.cmerge_assoc ha2 hb2 hc2]
    rw [NMap.merge_assoc ha1 hb1 hc1]
    intro k u v w hu hv hw
    exact NSet.union_assoc (ha3 (k, u) (Crdt.mem_of_get hu)).1 (hb3 (k, v) (Crdt.mem_of_get hv)).1
      (hc3 (k, w) (Crdt.mem_of_get hw)).1
  · rw [NMap.merge_assoc ha hb hc (fun _ u v w _ _ _ => Lww.merge_assoc u v w)]

/-- **C07 (associativity), partial**: proved for three values of the same CRDT kind (any
    kind, any stamps incl. ties, tombstones).  What is missing for the full statement
    `C07_assoc`: triples that mix kinds — false of the code, see
    `assoc_cross_kind_counterexample`. -/
theorem rv_merge_assoc_partial (a b c : RV) (ha : a.WF) (hb : b.WF) (hc : c.WF)
    (hk : SameKind a b c) : merge a (merge b c) = merge (merge a b) c := by
  obtain ⟨ca, va, ea, sa, ra⟩ := a
  obtain ⟨cb, vb, eb, sb, rb⟩ := b
  obtain ⟨cc, vc, ec, sc, rc⟩ := c
  simp only [merge, mergeWith, stampMerge, RV.mk.injEq]
  exact ⟨crdt_mwt_assoc_samekind _ _ _ _ _ ha.1 hb.1 hc.1 hk.1 hk.2, optvc_assoc ((vcWF_iff _).mp ha.2) ((vcWF_iff _).mp hb.2) ((vcWF_iff _).mp hc.2),
    optmax_assoc ea eb ec, Stamp.max_assoc sa sb sc, optmax_assoc ra rb rc⟩

/-! ## everything observable is a function of the value -/

/-- what a client or a peer can observe of a replicated value -/
structure Obs where
  value : Option Bytes
  tombstone : Bool
  hashFields : List (Nat × Bytes)
  counterTotal : Int
  members : List Nat
  expiry : Option Nat
  stamp : Stamp
  deriving DecidableEq, Repr

def total (c : NMap Nat) : Nat := (c.map (·.2)).foldl (· + ·) 0

def obs (a : RV) : Obs :=
  { value := a.get
    tombstone := a.isTombstone
    hashFields := match a.crdt with
      | .hash h => h.filterMap (fun p => p.2.get.map (fun v => (p.1, v)))
      | _ => []
    counterTotal := match a.crdt with
      | .gcounter c => total c
      | .pncounter p n => (total p : Int) - total n
      | _ => 0
    members := match a.crdt with
      | .gset s => s
      | .orset e _ => (e.filter (fun p => !p.2.isEmpty)).map (·.1)
      | _ => []
    expiry := a.expiry
    stamp := a.ts }

theorem obs_idem (a : RV) (ha : a.WF) : obs (merge a a) = obs a := by
  rw [rv_merge_idem a ha]

theorem obs_comm (a b : RV) (ha : a.WF) (hb : b.WF) (ht : TieConsistent a b) :
    obs (merge a b) = obs (merge b a) := by
  rw [rv_merge_comm a b ha hb ht]

theorem obs_assoc_partial (a b c : RV) (ha : a.WF) (hb : b.WF) (hc : c.WF) (hk : SameKind a b c) :
    obs (merge a (merge b c)) = obs (merge (merge a b) c) := by
  rw [rv_merge_assoc_partial a b c ha hb hc hk]

/-! ## counterexamples (known findings / necessity of hypotheses) -/

def hashA : RV :=  -- HSET h f 1  at stamp (1, r1)
  { crdt := .hash [(102, ⟨some [49], ⟨1, 1⟩, false⟩)], vc := none, expiry := none, ts := ⟨1, 1⟩, rf := none }
def lwwB : RV :=   -- SET h v     at stamp (2, r1)
  RV.withValue [118] ⟨2, 1⟩
def hashC : RV :=  -- HSET h g 2  at stamp (3, r1)
  { crdt := .hash [(103, ⟨some [50], ⟨3, 1⟩, false⟩)], vc := none, expiry := none, ts := ⟨3, 1⟩, rf := none }

/-- **Known finding C07:assoc:cross-kind.**  `Hash@1{f} ⊔ (Lww@2 ⊔ Hash@3{g})` keeps field `f`,
    `(Hash@1{f} ⊔ Lww@2) ⊔ Hash@3{g}` does not: delivery order decides the fields. -/
theorem assoc_cross_kind_counterexample :
    obs (merge hashA (merge lwwB hashC)) ≠ obs (merge (merge hashA lwwB) hashC) := by
  decide

theorem C07_assoc_false : ¬ C07_assoc := by
  intro h
  have := h hashA lwwB hashC (by decide) (by decide) (by decide)
  exact assoc_cross_kind_counterexample (by rw [this])

/-- the tie hypothesis of `rv_merge_comm` is necessary: two different registers with the same
    stamp (which C08 rules out for reachable values) merge order-dependently -/
theorem lww_tie_counterexample :
    merge (RV.withValue [1] ⟨5, 1⟩) (RV.withValue [2] ⟨5, 1⟩)
      ≠ merge (RV.withValue [2] ⟨5, 1⟩) (RV.withValue [1] ⟨5, 1⟩) := by
  decide

/-- **Fixed defect C07:stamp-comm** (see known_findings.json): with the pinned commit's outer
    stamp combiner `LamportClock::merge` the stamp of a merge depended on the argument order. -/
theorem clockMerge_not_comm :
    (mergeWith .clockMerge (RV.withValue [1] ⟨5, 1⟩) (RV.withValue [2] ⟨3, 2⟩)).ts
      ≠ (mergeWith .clockMerge (RV.withValue [2] ⟨3, 2⟩) (RV.withValue [1] ⟨5, 1⟩)).ts := by
  decide

/-! ## non-vacuity: concrete non-trivial values satisfy the hypotheses -/

def exOr1 : RV :=
  { crdt := .orset [(7, [100, 101])] [(1, 2)], vc := some [(1, 3)], expiry := some 50, ts := ⟨4, 1⟩, rf := none }
def exOr2 : RV :=
  { crdt := .orset [(7, [200]), (9, [201])] [(2, 2)], vc := some [(2, 1)], expiry := none, ts := ⟨4, 2⟩, rf := some 3 }

example : exOr1.WF ∧ exOr2.WF ∧ TieConsistent exOr1 exOr2 ∧ SameKind exOr1 exOr2 exOr1
    ∧ merge exOr1 exOr2 ≠ exOr1 ∧ merge exOr1 exOr2 ≠ exOr2 := by
  decide

example : hashA.WF ∧ lwwB.WF ∧ TieConsistent hashA lwwB ∧ TieConsistent hashA hashC := by
  decide

end C07
end RedisVerif
