import RedisVerif.Model.Txn
import RedisVerif.Lemmas.Txn
import RedisVerif.Lemmas.TxnKV
import RedisVerif.Props.C05

/-!
# C05, second part — the whole decision table, the guarantee EXEC does give, the other front ends

* `step_table` — **full**: `Txn.step` IS the decision table `tableReply / tableNext / tableQueue /
  tableWatch` on every (state × input) pair (eleven input classes, the protocol error included);
  `reachable_outside_clean`: outside MULTI the queue is empty and the error flag is down in every
  reachable state (so the table has no further reachable rows).  The harness extracts the same
  table from the real handler by driving every cell and compares cell by cell (`TBL` op).
* `abandoned_txn_has_no_effect` — a connection that is closed (or starved) between MULTI and EXEC
  has changed nothing, whatever it had sent.
* The strongest isolation the code DOES give, under EVERY schedule:
  `exec_equals_pipeline` — EXEC without watched keys is exactly the queued commands sent as a
  plain pipeline (each command atomic, program order kept, the other clients' commands at the
  same places): MULTI/EXEC adds nothing to a pipeline but the delay;
  `exec_serializable_of_independent` — EXEC (watch comparison included) IS atomic with respect to
  every client whose commands are independent of the transaction (commute with every queued
  command, leave its replies and the watched keys' GET replies alone — e.g. clients working on
  other keys): the outcome is the serial outcome "EXEC first, then the others".
  `C05_exec_atomic` stays refuted for dependent clients (`exec_not_isolated_counterexample`).
* `conn_simulates_executor_partial` — the connection-level machine and the executor-level machine
  are in lock step (same store, same replies up to `*-1` / `$-1`) on every trace of the common
  alphabet without interleaving, provided each WATCH names fresh keys whose GET reply is faithful
  at that moment (strings / missing keys on the concrete store: `kv_getFaithful`); the two
  divergences are exact: `machines_differ_on_rewatch_counterexample` (connection: every snapshot
  of a key counts; executor: the first), `machines_differ_on_nonstring_counterexample`.
* One executor shared by several clients (`SimulationHarness`, `RedisServer`):
  `x_shared_single_speaker_partial`; the full statement is REFUTED
  (`x_shared_captures_foreign_command_counterexample`: another client's command sent between
  MULTI and EXEC is answered QUEUED and runs inside the transaction).
* The replicated front end (`ReplicatedShardedState::execute`, `server_persistent`): `r_table`,
  `r_never_queues`; "commands sent between MULTI and EXEC have no effect until EXEC" is REFUTED
  there (`r_queued_has_effect_counterexample`): MULTI is refused and everything runs at once.
* Fan-out commands inside EXEC on the concrete store: `kv_mset_mget_del_in_exec`.
-/
namespace RedisVerif
namespace C05

open Txn

/-! ## the decision table -/

section
variable {σ κ γ ρ : Type} [DecidableEq ρ]

/-- what `tableWatch` says about the watch list -/
def watchActHolds (a : WAct) (before after : List (κ × ρ)) : Prop :=
  match a with
  | .keep => after = before
  | .clear => after = []
  | .extend => ∃ more, after = before ++ more

/-- **`step` is the decision table**, for every backend, schedule, state and input: class of the
    reply, next `(in_transaction, transaction_errors)`, next queue length, fate of the watch list,
    and — unless the input is EXEC inside MULTI or a command executed outside MULTI — an untouched
    store -/
theorem step_table (B : Backend σ κ γ ρ) (sc : List (List γ)) (t : ConnTxn κ γ ρ) (s : σ)
    (i : Input κ γ) :
    rcls (step B sc t s i).2.2 =
      tableReply t.inTxn t.errors (checkWatch B sc s t.watched).2.2 t.queue.length (icls i) ∧
    ((step B sc t s i).1.inTxn, (step B sc t s i).1.errors) = tableNext t.inTxn t.errors (icls i) ∧
    (step B sc t s i).1.queue.length = tableQueue t.inTxn t.queue.length (icls i) ∧
    watchActHolds (tableWatch t.inTxn (icls i)) t.watched (step B sc t s i).1.watched := by
  cases hin : t.inTxn
  · cases i <;>
      simp [step, hin, rcls, icls, tableReply, tableNext, tableQueue, tableWatch, watchActHolds]
  · cases i
    case exec =>
      cases herr : t.errors
      · cases hw : (checkWatch B sc s t.watched).2.2
        · simp [step, hin, herr, hw, rcls, icls, tableReply, tableNext, tableQueue, tableWatch,
            watchActHolds, ConnTxn.idle, runQueue_length]
        · simp [step, hin, herr, hw, rcls, icls, tableReply, tableNext, tableQueue, tableWatch,
            watchActHolds, ConnTxn.idle]
      · simp [step, hin, herr, rcls, icls, tableReply, tableNext, tableQueue, tableWatch,
          watchActHolds, ConnTxn.idle]
    all_goals
      simp [step, hin, rcls, icls, tableReply, tableNext, tableQueue, tableWatch, watchActHolds,
        ConnTxn.idle]

/-- inputs that may touch the store: EXEC inside MULTI, commands executed outside MULTI -/
def mayTouchStore (inTxn : Bool) : ICls → Bool
  | .exec => inTxn
  | .cmd => !inTxn
  | .unknown => !inTxn
  | _ => false

theorem step_table_store (B : Backend σ κ γ ρ) (sc : List (List γ)) (t : ConnTxn κ γ ρ) (s : σ)
    (i : Input κ γ) (h : mayTouchStore t.inTxn (icls i) = false) : (step B sc t s i).2.1 = s := by
  cases hin : t.inTxn <;> cases i <;> simp_all [step, mayTouchStore, icls]

/-- outside MULTI the queue is empty and the error flag is down -/
def Clean (t : ConnTxn κ γ ρ) : Prop := t.inTxn = false → t.queue = [] ∧ t.errors = false

theorem step_clean (B : Backend σ κ γ ρ) (sc : List (List γ)) (t : ConnTxn κ γ ρ) (s : σ)
    (i : Input κ γ) (h : Clean t) : Clean (step B sc t s i).1 := by
  unfold Clean at *
  cases hin : t.inTxn
  · have := h hin
    cases i <;> simp_all [step]
  · cases i
    case exec =>
      simp only [step, hin, if_true]
      split
      · intro _; exact ⟨rfl, rfl⟩
      · split <;> (intro _; exact ⟨rfl, rfl⟩)
    all_goals simp_all [step, ConnTxn.idle]

/-- **every reachable state is clean**: from a fresh connection, after any trace under any
    schedules, `in_transaction = false` implies an empty queue and no error flag — the table's
    rows "outside MULTI with a non-empty queue / with the flag up" do not exist -/
theorem reachable_outside_clean (B : Backend σ κ γ ρ)
    (evs : List (Input κ γ × List (List γ))) :
    ∀ (t : ConnTxn κ γ ρ) (s : σ), Clean t → Clean (run B t s evs).1 := by
  induction evs with
  | nil => intro t s h; exact h
  | cons e rest ih =>
    intro t s h
    simp only [run]
    exact ih _ _ (step_clean B e.2 t s e.1 h)

omit [DecidableEq ρ] in
theorem idle_clean : Clean (ConnTxn.idle : ConnTxn κ γ ρ) := fun _ => ⟨rfl, rfl⟩

/-- a transaction that is never finished (connection closed, client gone, read buffer dropped
    after a protocol error) has changed nothing: after MULTI and ANY inputs other than EXEC /
    DISCARD the store is the store before MULTI -/
theorem abandoned_txn_has_no_effect (B : Backend σ κ γ ρ) (t : ConnTxn κ γ ρ) (s : σ)
    (sc : List (List γ)) (body : List (Input κ γ × List (List γ)))
    (hout : t.inTxn = false) (hb : ∀ e ∈ body, endsTxn e.1 = false) :
    (run B t s ((.multi, sc) :: body)).2.1 = s := by
  simp only [run]
  have hm : step B sc t s .multi = ({ t with inTxn := true, queue := [], errors := false }, s, .ok) := by
    simp [step, hout]
  rw [hm]
  exact (run_body B body _ s rfl hb).1

/-- a protocol error inside MULTI: error reply, nothing else — in particular the transaction is
    NOT flagged (the code as it is; Redis closes the connection) -/
theorem table_protocol_error (B : Backend σ κ γ ρ) (sc : List (List γ)) (t : ConnTxn κ γ ρ) (s : σ) :
    step B sc t s .protoErr = (t, s, .err .protocol) := by
  cases h : t.inTxn <;> simp [step, h]

end

/-! ## a protocol error between MULTI and EXEC -/

section
variable {σ κ γ ρ : Type} [DecidableEq ρ]

/-- the two errors that, as in Redis, leave a transaction usable -/
def benignInMulti : ConnErr → Bool
  | .nestedMulti => true
  | .watchInMulti => true
  | _ => false

/-- **a queue-time error discards the transaction**: every input between MULTI and EXEC that is
    answered with an error — other than a nested MULTI / a WATCH, which Redis tolerates too —
    flags the transaction, so that EXEC answers EXECABORT and applies nothing -/
def C05_error_reply_flags (stepF : Backend σ κ γ ρ → List (List γ) → ConnTxn κ γ ρ → σ → Input κ γ →
    ConnTxn κ γ ρ × σ × Reply ρ) : Prop :=
  ∀ (B : Backend σ κ γ ρ) (sc : List (List γ)) (t : ConnTxn κ γ ρ) (s : σ) (i : Input κ γ) (e : ConnErr),
    t.inTxn = true → endsTxn i = false → (stepF B sc t s i).2.2 = .err e → benignInMulti e = false →
    (stepF B sc t s i).1.errors = true

/-- **partial** (the pinned tree, `Txn.step`): holds for every input but the protocol error -/
theorem error_reply_flags_partial (B : Backend σ κ γ ρ) (sc : List (List γ)) (t : ConnTxn κ γ ρ)
    (s : σ) (i : Input κ γ) (e : ConnErr) (hin : t.inTxn = true) (hi : endsTxn i = false)
    (hp : i ≠ .protoErr) (hr : (step B sc t s i).2.2 = .err e) (hb : benignInMulti e = false) :
    (step B sc t s i).1.errors = true := by
  cases i <;> simp_all [step, endsTxn] <;> (subst hr; simp [benignInMulti] at hb)

/-- **full** for the current tree (`Txn.stepFixed`, since `fix:` 6b9d6a7) -/
theorem error_reply_flags_fixed : C05_error_reply_flags (σ := σ) (κ := κ) (γ := γ) (ρ := ρ) stepFixed := by
  intro B sc t s i e hin hi hr hb
  cases i <;> simp_all [stepFixed, step, endsTxn] <;> (subst hr; simp [benignInMulti] at hb)

/-- the fix changes nothing but the flag after a protocol error inside MULTI -/
theorem stepFixed_eq_step (B : Backend σ κ γ ρ) (sc : List (List γ)) (t : ConnTxn κ γ ρ) (s : σ)
    (i : Input κ γ) (h : i ≠ .protoErr ∨ t.inTxn = false) : stepFixed B sc t s i = step B sc t s i := by
  cases i <;> simp_all [stepFixed, step]

end

/-- PINNED commit (before `fix:` 6b9d6a7; `Txn.step`): REFUTED — `MULTI; SET k 1; <bytes that are not RESP>; EXEC` — the
    connection answers `-ERR protocol error`, does not flag the transaction, and EXEC applies the
    rest (Redis closes the connection, so nothing is applied) -/
theorem protocol_error_not_flagged_counterexample :
    ¬ C05_error_reply_flags (σ := KV.Store) (κ := Nat) (γ := KV.Cmd) (ρ := KV.Rep) step := by
  intro h
  have := h KV.backend [] { inTxn := true, queue := [.set 1 [49]], errors := false, watched := [] } []
    .protoErr .protocol rfl rfl (by decide) rfl
  revert this
  decide

/-- the witness as a trace, current tree vs tree with the fix -/
example :
    let tr : List (Input Nat KV.Cmd) := [.multi, .cmd (.set 1 [49]), .protoErr, .exec]
    (tr.foldl (fun (a : ConnTxn Nat KV.Cmd KV.Rep × KV.Store × List (Reply KV.Rep)) i =>
        let r := stepWith false KV.backend [] a.1 a.2.1 i; (r.1, r.2.1, a.2.2 ++ [r.2.2]))
      (ConnTxn.idle, [], [])).2 =
      ([(1, .str [49])], [.ok, .queued, .err .protocol, .results [.simple .ok]]) ∧
    (tr.foldl (fun (a : ConnTxn Nat KV.Cmd KV.Rep × KV.Store × List (Reply KV.Rep)) i =>
        let r := stepWith true KV.backend [] a.1 a.2.1 i; (r.1, r.2.1, a.2.2 ++ [r.2.2]))
      (ConnTxn.idle, [], [])).2 =
      ([], [.ok, .queued, .err .protocol, .err .execAbort]) := by
  decide

section
variable {σ κ γ ρ : Type} [DecidableEq ρ]

/-! ## the strongest guarantee EXEC gives under every schedule -/

/-- the queued commands sent as a PLAIN PIPELINE outside MULTI (state `t0`), the other clients'
    commands served at the same places (`sc[j]` right before the j-th command) -/
def plainPipeline (B : Backend σ κ γ ρ) :
    List (List γ) → ConnTxn κ γ ρ → σ → List γ → List (List γ) × σ × List (Reply ρ)
  | sc, _, s, [] => (sc, s, [])
  | sc, t0, s, c :: cs =>
    let s1 := foreign B s (sc.headD [])
    let r := step B [] t0 s1 (.cmd c)
    let q := plainPipeline B sc.tail r.1 r.2.1 cs
    (q.1, q.2.1, r.2.2 :: q.2.2)

theorem plainPipeline_eq_runQueue (B : Backend σ κ γ ρ) (q : List γ) :
    ∀ (sc : List (List γ)) (t0 : ConnTxn κ γ ρ) (s : σ), t0.inTxn = false →
      (plainPipeline B sc t0 s q).1 = (runQueue B sc s q).1 ∧
      (plainPipeline B sc t0 s q).2.1 = (runQueue B sc s q).2.1 ∧
      (plainPipeline B sc t0 s q).2.2 = (runQueue B sc s q).2.2.map .plain := by
  induction q with
  | nil => intro sc t0 s _; exact ⟨rfl, rfl, rfl⟩
  | cons c cs ih =>
    intro sc t0 s h0
    have hs : step B [] t0 (foreign B s (sc.headD [])) (.cmd c) =
        (t0, (B.exec (foreign B s (sc.headD [])) c).1, .plain (B.exec (foreign B s (sc.headD [])) c).2) := by
      simp [step, h0]
    simp only [plainPipeline, runQueue, hs]
    obtain ⟨a, b, d⟩ := ih sc.tail t0 (B.exec (foreign B s (sc.headD [])) c).1 h0
    exact ⟨a, b, by rw [d]; rfl⟩

/-- **EXEC without watched keys = the same commands as a plain pipeline**, under EVERY schedule of
    the other clients: same store, same results.  This is the whole isolation the connection-level
    EXEC provides — per-command atomicity and program order, nothing more (and nothing less). -/
theorem exec_equals_pipeline (B : Backend σ κ γ ρ) (sched : List (List γ)) (t t0 : ConnTxn κ γ ρ)
    (s : σ) (hin : t.inTxn = true) (herr : t.errors = false) (hw : t.watched = [])
    (h0 : t0.inTxn = false) :
    step B sched t s .exec =
      (ConnTxn.idle,
       foreign B (plainPipeline B sched t0 s t.queue).2.1 (plainPipeline B sched t0 s t.queue).1.flatten,
       .results ((plainPipeline B sched t0 s t.queue).2.2.filterMap unplain)) := by
  obtain ⟨a, b, d⟩ := plainPipeline_eq_runQueue B t.queue sched t0 s h0
  rw [a, b, d]
  simp only [step, hin, herr, hw, checkWatch, if_true, Bool.false_eq_true, if_false]
  congr 2
  simp [List.filterMap_map, Function.comp_def, unplain]

/-- a foreign command `f` is INDEPENDENT of a transaction (queue `q`, watched keys `ws`) on the
    stores satisfying `Inv`: it commutes with every queued command, does not change what a queued
    command answers, and does not change what GET answers for a watched key -/
structure Indep (B : Backend σ κ γ ρ) (Inv : σ → Prop) (q : List γ) (ws : List κ) (f : γ) : Prop where
  store : ∀ c ∈ q, ∀ s, Inv s → (B.exec (B.exec s f).1 c).1 = (B.exec (B.exec s c).1 f).1
  reply : ∀ c ∈ q, ∀ s, Inv s → (B.exec (B.exec s f).1 c).2 = (B.exec s c).2
  watch : ∀ k ∈ ws, ∀ s, Inv s → B.getReply (B.exec s f).1 k = B.getReply s k

omit [DecidableEq ρ] in
theorem foreign_inv (B : Backend σ κ γ ρ) (Inv : σ → Prop)
    (hinv : ∀ s c, Inv s → Inv (B.exec s c).1) (h : List γ) :
    ∀ s, Inv s → Inv (foreign B s h) := by
  induction h with
  | nil => intro s hs; exact hs
  | cons f h' ih => intro s hs; exact ih _ (hinv s f hs)

omit [DecidableEq ρ] in
theorem runSeq_inv (B : Backend σ κ γ ρ) (Inv : σ → Prop)
    (hinv : ∀ s c, Inv s → Inv (B.exec s c).1) (q : List γ) :
    ∀ s, Inv s → Inv (runSeq B s q).1 := by
  induction q with
  | nil => intro s hs; exact hs
  | cons c cs ih => intro s hs; exact ih _ (hinv s c hs)

omit [DecidableEq ρ] in
/-- a batch of independent foreign commands moves across one queued command -/
theorem exec_after_batch (B : Backend σ κ γ ρ) (Inv : σ → Prop)
    (hinv : ∀ s c, Inv s → Inv (B.exec s c).1) (q : List γ) (ws : List κ) (c : γ) (hc : c ∈ q)
    (h : List γ) :
    (∀ f ∈ h, Indep B Inv q ws f) → ∀ s, Inv s →
      (B.exec (foreign B s h) c).1 = foreign B (B.exec s c).1 h ∧
      (B.exec (foreign B s h) c).2 = (B.exec s c).2 := by
  induction h with
  | nil => intro _ s _; exact ⟨rfl, rfl⟩
  | cons f h' ih =>
    intro hi s hs
    have hf := hi f (by simp)
    obtain ⟨a, b⟩ := ih (fun g hg => hi g (by simp [hg])) (B.exec s f).1 (hinv s f hs)
    refine ⟨?_, ?_⟩
    · show (B.exec (foreign B (B.exec s f).1 h') c).1 = foreign B (B.exec (B.exec s c).1 f).1 h'
      rw [a, hf.store c hc s hs]
    · show (B.exec (foreign B (B.exec s f).1 h') c).2 = (B.exec s c).2
      rw [b, hf.reply c hc s hs]

omit [DecidableEq ρ] in
/-- … and across the whole consecutive run -/
theorem runSeq_after_batch (B : Backend σ κ γ ρ) (Inv : σ → Prop)
    (hinv : ∀ s c, Inv s → Inv (B.exec s c).1) (q0 : List γ) (ws : List κ) (h : List γ)
    (hi : ∀ f ∈ h, Indep B Inv q0 ws f) (q : List γ) :
    (∀ c ∈ q, c ∈ q0) → ∀ s, Inv s →
      runSeq B (foreign B s h) q = (foreign B (runSeq B s q).1 h, (runSeq B s q).2) := by
  induction q with
  | nil => intro _ s _; rfl
  | cons c cs ih =>
    intro hq s hs
    obtain ⟨a, b⟩ := exec_after_batch B Inv hinv q0 ws c (hq c (by simp)) h hi s hs
    simp only [runSeq]
    rw [a, b, ih (fun x hx => hq x (by simp [hx])) (B.exec s c).1 (hinv s c hs)]

omit [DecidableEq ρ] in
theorem headD_append_tail_flatten (sc : List (List γ)) : sc.headD [] ++ sc.tail.flatten = sc.flatten := by
  cases sc <;> simp

omit [DecidableEq ρ] in
theorem mem_flatten_of_mem_headD {sc : List (List γ)} {f : γ} (h : f ∈ sc.headD []) : f ∈ sc.flatten := by
  rw [← headD_append_tail_flatten]; exact List.mem_append_left _ h

omit [DecidableEq ρ] in
theorem mem_flatten_of_mem_tail {sc : List (List γ)} {f : γ} (h : f ∈ sc.tail.flatten) : f ∈ sc.flatten := by
  rw [← headD_append_tail_flatten]; exact List.mem_append_right _ h

theorem any_congr_mem {α : Type} (l : List α) (p q : α → Bool) (h : ∀ x ∈ l, p x = q x) :
    l.any p = l.any q := by
  induction l with
  | nil => rfl
  | cons a r ih =>
    simp only [List.any_cons]
    rw [h a (by simp), ih (fun x hx => h x (by simp [hx]))]

omit [DecidableEq ρ] in
/-- phase 2 of EXEC against independent clients: the consecutive run, then all of the others -/
theorem runQueue_independent (B : Backend σ κ γ ρ) (Inv : σ → Prop)
    (hinv : ∀ s c, Inv s → Inv (B.exec s c).1) (q0 : List γ) (ws : List κ) (q : List γ) :
    (∀ c ∈ q, c ∈ q0) → ∀ (sc : List (List γ)) (s : σ), Inv s →
      (∀ f ∈ sc.flatten, Indep B Inv q0 ws f) →
      foreign B (runQueue B sc s q).2.1 (runQueue B sc s q).1.flatten =
        foreign B (runSeq B s q).1 sc.flatten ∧
      (runQueue B sc s q).2.2 = (runSeq B s q).2 := by
  induction q with
  | nil => intro _ sc s _ _; exact ⟨rfl, rfl⟩
  | cons c cs ih =>
    intro hq sc s hs hi
    have hh : ∀ f ∈ sc.headD [], Indep B Inv q0 ws f := by
      intro f hf; exact hi f (mem_flatten_of_mem_headD hf)
    have ht : ∀ f ∈ sc.tail.flatten, Indep B Inv q0 ws f := by
      intro f hf; exact hi f (mem_flatten_of_mem_tail hf)
    obtain ⟨a, b⟩ := exec_after_batch B Inv hinv q0 ws c (hq c (by simp)) (sc.headD []) hh s hs
    have hs1 : Inv (B.exec (foreign B s (sc.headD [])) c).1 :=
      hinv _ c (foreign_inv B Inv hinv _ s hs)
    obtain ⟨i1, i2⟩ := ih (fun x hx => hq x (by simp [hx])) sc.tail _ hs1 ht
    simp only [runQueue, runSeq]
    refine ⟨?_, ?_⟩
    · rw [i1, a, runSeq_after_batch B Inv hinv q0 ws (sc.headD []) hh cs
        (fun x hx => hq x (by simp [hx])) (B.exec s c).1 (hinv s c hs)]
      simp only
      rw [← foreign_append, headD_append_tail_flatten]
    · rw [i2, b, a, runSeq_after_batch B Inv hinv q0 ws (sc.headD []) hh cs
        (fun x hx => hq x (by simp [hx])) (B.exec s c).1 (hinv s c hs)]

omit [DecidableEq ρ] in
theorem getReply_after_batch (B : Backend σ κ γ ρ) (Inv : σ → Prop)
    (hinv : ∀ s c, Inv s → Inv (B.exec s c).1) (q0 : List γ) (ws : List κ) (k : κ) (hk : k ∈ ws)
    (h : List γ) :
    (∀ f ∈ h, Indep B Inv q0 ws f) → ∀ s, Inv s → B.getReply (foreign B s h) k = B.getReply s k := by
  induction h with
  | nil => intro _ s _; rfl
  | cons f h' ih =>
    intro hi s hs
    show B.getReply (foreign B (B.exec s f).1 h') k = B.getReply s k
    rw [ih (fun g hg => hi g (by simp [hg])) _ (hinv s f hs), (hi f (by simp)).watch k hk s hs]

/-- phase 1 of EXEC against independent clients: the store is the start store plus a prefix of the
    others' commands, the rest of the schedule is what is left of them, and the verdict is the
    verdict of an immediate comparison -/
theorem checkWatch_independent (B : Backend σ κ γ ρ) (Inv : σ → Prop)
    (hinv : ∀ s c, Inv s → Inv (B.exec s c).1) (q0 : List γ) (ws0 : List κ)
    (ws : List (κ × ρ)) :
    (∀ p ∈ ws, p.1 ∈ ws0) → ∀ (sc : List (List γ)) (s : σ), Inv s →
      (∀ f ∈ sc.flatten, Indep B Inv q0 ws0 f) →
      (∃ pre, (checkWatch B sc s ws).2.1 = foreign B s pre ∧
        pre ++ (checkWatch B sc s ws).1.flatten = sc.flatten) ∧
      (checkWatch B sc s ws).2.2 = ws.any (fun p => decide (B.getReply s p.1 ≠ p.2)) := by
  induction ws with
  | nil => intro _ sc s _ _; exact ⟨⟨[], rfl, rfl⟩, rfl⟩
  | cons p rest ih =>
    intro hw sc s hs hi
    obtain ⟨k, old⟩ := p
    have hh : ∀ f ∈ sc.headD [], Indep B Inv q0 ws0 f := by
      intro f hf; exact hi f (mem_flatten_of_mem_headD hf)
    have ht : ∀ f ∈ sc.tail.flatten, Indep B Inv q0 ws0 f := by
      intro f hf; exact hi f (mem_flatten_of_mem_tail hf)
    have hg := getReply_after_batch B Inv hinv q0 ws0 k (hw (k, old) (by simp)) (sc.headD []) hh s hs
    simp only [checkWatch, hg]
    by_cases he : B.getReply s k = old
    · rw [if_pos he]
      obtain ⟨⟨pre, p1, p2⟩, v⟩ := ih (fun x hx => hw x (by simp [hx])) sc.tail
        (foreign B s (sc.headD [])) (foreign_inv B Inv hinv _ s hs) ht
      refine ⟨⟨sc.headD [] ++ pre, ?_, ?_⟩, ?_⟩
      · rw [p1, foreign_append]
      · rw [List.append_assoc, p2, headD_append_tail_flatten]
      · rw [v]
        simp only [List.any_cons, he, ne_eq, not_true_eq_false, decide_false, Bool.false_or]
        apply any_congr_mem
        intro x hx
        rw [getReply_after_batch B Inv hinv q0 ws0 x.1 (hw x (by simp [hx])) (sc.headD []) hh s hs]
    · rw [if_neg he]
      refine ⟨⟨sc.headD [], rfl, headD_append_tail_flatten sc⟩, ?_⟩
      simp [he]

theorem mem_splits_nil {α : Type} (l : List α) : (([] : List α), l) ∈ splits l := by
  simp only [splits, List.mem_map, List.mem_range]
  exact ⟨0, by omega, by simp⟩

theorem serialExec_nil_left (B : Backend σ κ γ ρ) (t : ConnTxn κ γ ρ) (s : σ) (post : List γ) :
    serialExec B t s [] post =
      if t.watched.any (fun p => decide (B.getReply s p.1 ≠ p.2)) then (foreign B s post, .nil)
      else (foreign B (runSeq B s t.queue).1 post, .results (runSeq B s t.queue).2) := rfl

/-- **EXEC is atomic with respect to independent clients**, under EVERY schedule: if every command
    the other clients get served while EXEC runs is independent of the transaction (commutes with
    the queued commands, leaves their replies and the watched keys' GET replies alone — clients
    working on other keys), the outcome — store, reply, watch verdict — is exactly the serial
    outcome "EXEC in one piece, then the others" -/
theorem exec_serializable_of_independent (B : Backend σ κ γ ρ) (Inv : σ → Prop)
    (hinv : ∀ s c, Inv s → Inv (B.exec s c).1) (sched : List (List γ)) (t : ConnTxn κ γ ρ) (s : σ)
    (hin : t.inTxn = true) (herr : t.errors = false) (hs : Inv s)
    (hi : ∀ f ∈ sched.flatten, Indep B Inv t.queue (t.watched.map (·.1)) f) :
    ((step B sched t s .exec).2.1, (step B sched t s .exec).2.2) =
      serialExec B t s [] sched.flatten := by
  obtain ⟨⟨pre, p1, p2⟩, v⟩ := checkWatch_independent B Inv hinv t.queue (t.watched.map (·.1))
    t.watched (fun p hp => List.mem_map.mpr ⟨p, hp, rfl⟩) sched s hs hi
  rw [serialExec_nil_left]
  simp only [step, hin, herr, if_true, Bool.false_eq_true, if_false]
  rw [v]
  cases hany : (t.watched.any fun p => decide (B.getReply s p.1 ≠ p.2))
  · simp only [Bool.false_eq_true, if_false]
    have hi2 : ∀ f ∈ (checkWatch B sched s t.watched).1.flatten,
        Indep B Inv t.queue (t.watched.map (·.1)) f := by
      intro f hf; apply hi; rw [← p2]; simp [hf]
    have hpre : ∀ f ∈ pre, Indep B Inv t.queue (t.watched.map (·.1)) f := by
      intro f hf; apply hi; rw [← p2]; simp [hf]
    obtain ⟨r1, r2⟩ := runQueue_independent B Inv hinv t.queue (t.watched.map (·.1)) t.queue
      (fun _ h => h) (checkWatch B sched s t.watched).1 (checkWatch B sched s t.watched).2.1
      (by rw [p1]; exact foreign_inv B Inv hinv pre s hs) hi2
    rw [r1, r2, p1, runSeq_after_batch B Inv hinv t.queue (t.watched.map (·.1)) pre hpre t.queue
      (fun _ h => h) s hs]
    simp only
    rw [← foreign_append, p2]
  · simp only [if_true]
    rw [checkWatch_foreign]

/-- … hence a member of the serial outcomes: `C05_exec_atomic`'s conclusion holds for independent
    clients -/
theorem exec_atomic_of_independent [DecidableEq σ] (B : Backend σ κ γ ρ) (Inv : σ → Prop)
    (hinv : ∀ s c, Inv s → Inv (B.exec s c).1) (sched : List (List γ)) (t : ConnTxn κ γ ρ) (s : σ)
    (hin : t.inTxn = true) (herr : t.errors = false) (hs : Inv s)
    (hi : ∀ f ∈ sched.flatten, Indep B Inv t.queue (t.watched.map (·.1)) f) :
    ((step B sched t s .exec).2.1, (step B sched t s .exec).2.2) ∈
      (splits sched.flatten).map (fun p => serialExec B t s p.1 p.2) := by
  rw [exec_serializable_of_independent B Inv hinv sched t s hin herr hs hi]
  exact List.mem_map.mpr ⟨([], sched.flatten), mem_splits_nil _, rfl⟩

end



/-! ## independence discharged on the concrete store: clients that work on other keys -/

/-- `c` is a single-key or key-less command that does not touch key `k` -/
def avoidsKey (k : Nat) (c : KV.Cmd) : Bool := KV.single c && decide (KV.keyOf c ≠ some k)

theorem kv_getReply_eq (s : KV.Store) (k : Nat) : KV.backend.getReply s k = (KV.exec s (.get k)).2 := rfl

/-- on the concrete store a single-key command on key `kf` is independent of every transaction
    whose queued commands are single-key / key-less commands on other keys and whose watched keys
    are other keys (canonical stores; every command keeps a store canonical: `KV.exec_wf`) -/
theorem kv_indep_of_other_keys (f : KV.Cmd) (kf : Nat) (hf : KV.keyOf f = some kf)
    (q : List KV.Cmd) (ws : List Nat) (hq : ∀ c ∈ q, avoidsKey kf c = true) (hw : kf ∉ ws) :
    Indep KV.backend NMap.WF q ws f := by
  have frame_f : ∀ s, NMap.WF s → ∀ k, k ≠ kf → NMap.get (KV.exec s f).1 k = NMap.get s k :=
    fun s h k hk => KV.exec_frame s h f kf k hf hk
  refine ⟨?_, ?_, ?_⟩
  · intro c hc s hs
    have ha := hq c hc
    simp only [avoidsKey, Bool.and_eq_true, decide_eq_true_eq] at ha
    obtain ⟨hsingle, hne⟩ := ha
    show (KV.exec (KV.exec s f).1 c).1 = (KV.exec (KV.exec s c).1 f).1
    cases hkc : KV.keyOf c with
    | none =>
      rw [(KV.exec_keyless (KV.exec s f).1 s c hsingle hkc).1, (KV.exec_keyless s s c hsingle hkc).1]
    | some kc =>
      have hkne : kc ≠ kf := by
        intro h; apply hne; rw [hkc, h]
      have w1 := KV.exec_wf s hs f
      have w2 := KV.exec_wf s hs c
      apply NMap.ext (KV.exec_wf _ w1 c) (KV.exec_wf _ w2 f)
      intro k
      by_cases h1 : k = kc
      · subst h1
        rw [(KV.exec_local (KV.exec s f).1 s w1 hs c k hkc (frame_f s hs k hkne)).2,
          frame_f _ w2 k hkne]
      · by_cases h2 : k = kf
        · subst h2
          rw [KV.exec_frame _ w1 c kc k hkc h1,
            (KV.exec_local (KV.exec s c).1 s w2 hs f k hf (KV.exec_frame s hs c kc k hkc h1)).2]
        · rw [KV.exec_frame _ w1 c kc k hkc h1, frame_f s hs k h2, frame_f _ w2 k h2,
            KV.exec_frame s hs c kc k hkc h1]
  · intro c hc s hs
    have ha := hq c hc
    simp only [avoidsKey, Bool.and_eq_true, decide_eq_true_eq] at ha
    obtain ⟨hsingle, hne⟩ := ha
    show (KV.exec (KV.exec s f).1 c).2 = (KV.exec s c).2
    cases hkc : KV.keyOf c with
    | none => exact (KV.exec_keyless (KV.exec s f).1 s c hsingle hkc).2
    | some kc =>
      have hkne : kc ≠ kf := by
        intro h; apply hne; rw [hkc, h]
      exact (KV.exec_local (KV.exec s f).1 s (KV.exec_wf s hs f) hs c kc hkc (frame_f s hs kc hkne)).1
  · intro k hk s hs
    have hkne : k ≠ kf := by
      intro h; apply hw; rw [← h]; exact hk
    rw [kv_getReply_eq, kv_getReply_eq]
    exact (KV.exec_local (KV.exec s f).1 s (KV.exec_wf s hs f) hs (.get k) k rfl (frame_f s hs k hkne)).1

/-- **EXEC on the concrete store is atomic with respect to clients that work on other keys**,
    under EVERY schedule: if every command served to the other clients while EXEC runs is a
    single-key command on a key that no queued command touches and that is not watched, the
    outcome (store, reply, watch verdict) is the serial outcome "EXEC in one piece, then the
    others" -/
theorem kv_exec_serializable_other_keys (sched : List (List KV.Cmd)) (t : ConnTxn Nat KV.Cmd KV.Rep)
    (s : KV.Store) (hin : t.inTxn = true) (herr : t.errors = false) (hs : NMap.WF s)
    (hf : ∀ f ∈ sched.flatten, ∃ kf, KV.keyOf f = some kf ∧
      (∀ c ∈ t.queue, avoidsKey kf c = true) ∧ kf ∉ t.watched.map (·.1)) :
    ((step KV.backend sched t s .exec).2.1, (step KV.backend sched t s .exec).2.2) =
      serialExec KV.backend t s [] sched.flatten :=
  exec_serializable_of_independent KV.backend NMap.WF (fun s c h => KV.exec_wf s h c) sched t s hin herr hs
    (fun f hm => by
      obtain ⟨kf, h1, h2, h3⟩ := hf f hm
      exact kv_indep_of_other_keys f kf h1 t.queue (t.watched.map (·.1)) h2 h3)

/-- non-vacuity: a transaction on keys 1 and 2 (key 1 watched) with the other clients writing keys
    3 and 4 between its store accesses — the hypotheses hold and the outcome is the serial one
    (contrast `exec_not_isolated_counterexample`, where the foreign write hits key 1) -/
example :
    let t : ConnTxn Nat KV.Cmd KV.Rep :=
      { inTxn := true, queue := [.set 1 [49], .get 1, .incr 2, .ping], errors := false,
        watched := [(1, .bulk (some [48]))] }
    let s : KV.Store := [(1, .str [48]), (4, .list [[7]])]
    let sched : List (List KV.Cmd) := [[], [.set 3 [50]], [.rpush 4 [[8]]], [], [.del 3, .sadd 5 9]]
    NMap.WF s ∧
    (∀ f ∈ sched.flatten, ∃ kf, KV.keyOf f = some kf ∧ (∀ c ∈ t.queue, avoidsKey kf c = true) ∧
      kf ∉ t.watched.map (·.1)) ∧
    ((step KV.backend sched t s .exec).2.1, (step KV.backend sched t s .exec).2.2) =
      ([(1, .str [49]), (2, .str [49]), (4, .list [[7], [8]]), (5, .set [9])],
       .results [.simple .ok, .bulk (some [49]), .int 1, .simple .pong]) := by
  refine ⟨by decide, ?_, by decide⟩
  intro f hf
  simp only [List.flatten_cons, List.flatten_nil, List.nil_append, List.append_nil, List.cons_append,
    List.mem_cons, List.not_mem_nil, or_false] at hf
  rcases hf with rfl | rfl | rfl | rfl
  · exact ⟨3, rfl, by decide, by decide⟩
  · exact ⟨4, rfl, by decide, by decide⟩
  · exact ⟨3, rfl, by decide, by decide⟩
  · exact ⟨5, rfl, by decide, by decide⟩

/-! ## the two machines in lock step -/

/-- two lists related element by element (core has no `Forall₂`) -/
inductive Rel2 {α β : Type} (R : α → β → Prop) : List α → List β → Prop where
  | nil : Rel2 R [] []
  | cons {a : α} {b : β} {l : List α} {m : List β} : R a b → Rel2 R l m → Rel2 R (a :: l) (b :: m)

theorem Rel2.append {α β : Type} {R : α → β → Prop} {l1 l2 : List α} {m1 m2 : List β}
    (h1 : Rel2 R l1 m1) (h2 : Rel2 R l2 m2) : Rel2 R (l1 ++ l2) (m1 ++ m2) := by
  induction h1 with
  | nil => exact h2
  | cons hab _ ih => exact Rel2.cons hab ih

section
variable {σ κ γ ρ ν : Type} [DecidableEq ρ] [DecidableEq κ] [DecidableEq ν]

/-- the common alphabet embedded into the connection-level machine's inputs -/
def toConn : XInput κ γ → Input κ γ
  | .multi => .multi
  | .exec => .exec
  | .discard => .discard
  | .unwatch => .unwatch
  | .watch ks => .watch ks
  | .cmd c => .cmd c

/-- replies up to the shape of "aborted by WATCH" (`*-1` at the connection, `$-1` at the executor)
    and the error texts both machines share -/
def toX : Reply ρ → Option (XReply ρ)
  | .ok => some .ok
  | .queued => some .queued
  | .nil => some .nil
  | .results rs => some (.results rs)
  | .plain r => some (.plain r)
  | .err .nestedMulti => some (.err .nestedMulti)
  | .err .watchInMulti => some (.err .watchInMulti)
  | .err .execWithoutMulti => some (.err .execWithoutMulti)
  | .err .discardWithoutMulti => some (.err .discardWithoutMulti)
  | .err _ => none

/-- the executor under the connection: the same `exec`, plus the raw value the executor-level
    WATCH snapshots -/
def xOf (B : Backend σ κ γ ρ) (value : σ → κ → Option ν) : XBackend σ κ γ ρ ν :=
  { exec := B.exec, value := value }

/-- the GET reply of `k` taken at `s0` tells exactly as much as the value taken at `s0`: at every
    later store the reply is unchanged iff the value is -/
def GetFaithfulAt (B : Backend σ κ γ ρ) (value : σ → κ → Option ν) (s0 : σ) (k : κ) : Prop :=
  ∀ s, B.getReply s k = B.getReply s0 k ↔ value s k = value s0 k

/-- a queued entry of the connection and the corresponding entry of the executor's queue -/
def QRel (B : Backend σ κ γ ρ) (c : γ) : XQ γ → Prop
  | .cmd c' => c = c'
  | .unwatch => c = B.unwatchCmd

/-- a snapshot of the connection and the corresponding snapshot of the executor: same key, and
    they match the current store together -/
def WRel (B : Backend σ κ γ ρ) (value : σ → κ → Option ν) (p : κ × ρ) (q : κ × Option ν) : Prop :=
  p.1 = q.1 ∧ ∀ s, B.getReply s p.1 = p.2 ↔ value s p.1 = q.2

/-- the simulation relation -/
structure Sim (B : Backend σ κ γ ρ) (value : σ → κ → Option ν) (t : ConnTxn κ γ ρ)
    (x : ExTxn κ γ ν) : Prop where
  inTxn : t.inTxn = x.inTxn
  errors : t.errors = false
  queue : Rel2 (QRel B) t.queue x.queue
  watched : Rel2 (WRel B value) t.watched x.watched

/-- what an input must satisfy for the machines to stay in step: a WATCH outside MULTI names
    fresh, distinct keys whose GET reply is faithful at this moment -/
def Guard (B : Backend σ κ γ ρ) (value : σ → κ → Option ν) (t : ConnTxn κ γ ρ) (s : σ) :
    XInput κ γ → Prop
  | .watch ks =>
    t.inTxn = true ∨
      (ks.Nodup ∧ (∀ k ∈ ks, k ∉ t.watched.map (·.1)) ∧ ∀ k ∈ ks, GetFaithfulAt B value s k)
  | _ => True

omit [DecidableEq ρ] [DecidableEq κ] [DecidableEq ν] in
theorem runSeq_xrunQueue (B : Backend σ κ γ ρ) (value : σ → κ → Option ν) (okR : ρ)
    (hU : ∀ s, B.exec s B.unwatchCmd = (s, okR)) (q : List γ) (xq : List (XQ γ))
    (h : Rel2 (QRel B) q xq) :
    ∀ s, runSeq B s q = xrunQueue (xOf B value) okR s xq := by
  induction h with
  | nil => intro s; rfl
  | @cons c xc cs xcs hc _ ih =>
    intro s
    cases xc with
    | cmd c' =>
      have : c = c' := hc
      subst this
      simp only [runSeq, xrunQueue, xOf]
      rw [ih]
      rfl
    | unwatch =>
      have : c = B.unwatchCmd := hc
      subst this
      simp only [runSeq, xrunQueue, hU]
      rw [ih]

omit [DecidableEq κ] in
theorem any_wrel (B : Backend σ κ γ ρ) (value : σ → κ → Option ν) (s : σ)
    (w : List (κ × ρ)) (xw : List (κ × Option ν)) (h : Rel2 (WRel B value) w xw) :
    w.any (fun p => decide (B.getReply s p.1 ≠ p.2)) =
      xw.any (fun p => decide (value s p.1 ≠ p.2)) := by
  induction h with
  | nil => rfl
  | @cons p q ps qs hpq _ ih =>
    simp only [List.any_cons, ih]
    obtain ⟨hk, hf⟩ := hpq
    have := hf s
    rw [← hk]
    by_cases h1 : B.getReply s p.1 = p.2
    · have h2 := this.mp h1
      simp [h1, h2]
    · have h2 : ¬ value s p.1 = q.2 := fun hh => h1 (this.mpr hh)
      simp [h1, h2]

omit [DecidableEq ρ] [DecidableEq ν] in
theorem putIfAbsent_fresh (k : κ) (v : Option ν) (m : List (κ × Option ν))
    (h : k ∉ m.map (·.1)) : putIfAbsent k v m = m ++ [(k, v)] := by
  induction m with
  | nil => rfl
  | cons q rest ih =>
    obtain ⟨k', v'⟩ := q
    have hne : k ≠ k' := by
      intro hh; apply h; simp [hh]
    have hr : k ∉ rest.map (·.1) := by
      intro hh; apply h; simp at hh ⊢; exact Or.inr hh
    simp [putIfAbsent, hne, ih hr]

omit [DecidableEq ρ] [DecidableEq ν] in
/-- WATCH of fresh distinct keys: the executor's map grows by the same keys in the same order -/
theorem watch_fold_fresh (value : σ → κ → Option ν) (s : σ) (ks : List κ) :
    ∀ (m : List (κ × Option ν)), ks.Nodup → (∀ k ∈ ks, k ∉ m.map (·.1)) →
      ks.foldl (fun w k => putIfAbsent k (value s k) w) m = m ++ ks.map (fun k => (k, value s k)) := by
  induction ks with
  | nil => intro m _ _; simp
  | cons k rest ih =>
    intro m hnd hfresh
    have hk : k ∉ m.map (·.1) := hfresh k (by simp)
    have hnd' : rest.Nodup := (List.nodup_cons.mp hnd).2
    have hkr : k ∉ rest := (List.nodup_cons.mp hnd).1
    simp only [List.foldl_cons]
    rw [putIfAbsent_fresh k _ m hk, ih _ hnd']
    · simp
    · intro k' hk' hmem
      simp only [List.map_append, List.map_cons, List.map_nil, List.mem_append, List.mem_singleton] at hmem
      rcases hmem with hmem | hmem
      · exact hfresh k' (by simp [hk']) hmem
      · subst hmem; exact hkr hk'

omit [DecidableEq κ] [DecidableEq ν] [DecidableEq ρ] in
theorem forall2_keys (B : Backend σ κ γ ρ) (value : σ → κ → Option ν)
    (w : List (κ × ρ)) (xw : List (κ × Option ν)) (h : Rel2 (WRel B value) w xw) :
    w.map (·.1) = xw.map (·.1) := by
  induction h with
  | nil => rfl
  | @cons p q _ _ hpq _ ih => simp [ih, hpq.1]

omit [DecidableEq ρ] [DecidableEq κ] [DecidableEq ν] in
theorem sim_idle (B : Backend σ κ γ ρ) (value : σ → κ → Option ν) :
    Sim B value (ConnTxn.idle : ConnTxn κ γ ρ) (ExTxn.idle : ExTxn κ γ ν) :=
  ⟨rfl, rfl, Rel2.nil, Rel2.nil⟩


omit [DecidableEq ρ] [DecidableEq κ] [DecidableEq ν] in
theorem rel2_watch_maps (B : Backend σ κ γ ρ) (value : σ → κ → Option ν) (s : σ) (ks : List κ) :
    (∀ k ∈ ks, GetFaithfulAt B value s k) →
      Rel2 (WRel B value) (ks.map (fun k => (k, B.getReply s k))) (ks.map (fun k => (k, value s k))) := by
  induction ks with
  | nil => intro _; exact Rel2.nil
  | cons k rest ih =>
    intro g3
    exact Rel2.cons ⟨rfl, fun s' => g3 k (by simp) s'⟩ (ih (fun k' hk' => g3 k' (by simp [hk'])))

/-- **one step in lock step**: related states, a guarded input, nobody interfering — same store,
    the same reply (up to `toX`), related states again -/
theorem sim_step (B : Backend σ κ γ ρ) (value : σ → κ → Option ν) (okR : ρ)
    (hU : ∀ s, B.exec s B.unwatchCmd = (s, okR)) (t : ConnTxn κ γ ρ) (x : ExTxn κ γ ν) (s : σ)
    (i : XInput κ γ) (hS : Sim B value t x) (hG : Guard B value t s i) :
    (step B [] t s (toConn i)).2.1 = (xstep (xOf B value) okR x s i).2.1 ∧
    toX (step B [] t s (toConn i)).2.2 = some (xstep (xOf B value) okR x s i).2.2 ∧
    Sim B value (step B [] t s (toConn i)).1 (xstep (xOf B value) okR x s i).1 := by
  obtain ⟨h1, h2, h3, h4⟩ := hS
  cases hin : t.inTxn
  · -- outside MULTI
    have hx : x.inTxn = false := by rw [← h1]; exact hin
    cases i with
    | multi =>
      have e1 : step B [] t s .multi = ({ t with inTxn := true, queue := [], errors := false }, s, .ok) := by
        simp [step, hin]
      have e2 : xstep (xOf B value) okR x s .multi = ({ x with inTxn := true, queue := [] }, s, .ok) := by
        simp [xstep, xstepWith, hx]
      show (step B [] t s .multi).2.1 = _ ∧ toX (step B [] t s .multi).2.2 = _ ∧ Sim B value (step B [] t s .multi).1 _
      rw [e1, e2]
      exact ⟨rfl, rfl, ⟨rfl, rfl, Rel2.nil, h4⟩⟩
    | exec =>
      have e1 : step B [] t s .exec = (t, s, .err .execWithoutMulti) := by simp [step, hin]
      have e2 : xstep (xOf B value) okR x s .exec = (x, s, .err .execWithoutMulti) := by
        simp [xstep, xstepWith, hx]
      show (step B [] t s .exec).2.1 = _ ∧ toX (step B [] t s .exec).2.2 = _ ∧ Sim B value (step B [] t s .exec).1 _
      rw [e1, e2]
      exact ⟨rfl, rfl, ⟨h1, h2, h3, h4⟩⟩
    | discard =>
      have e1 : step B [] t s .discard = (t, s, .err .discardWithoutMulti) := by simp [step, hin]
      have e2 : xstep (xOf B value) okR x s .discard = (x, s, .err .discardWithoutMulti) := by
        simp [xstep, xstepWith, hx]
      show (step B [] t s .discard).2.1 = _ ∧ toX (step B [] t s .discard).2.2 = _ ∧ Sim B value (step B [] t s .discard).1 _
      rw [e1, e2]
      exact ⟨rfl, rfl, ⟨h1, h2, h3, h4⟩⟩
    | unwatch =>
      have e1 : step B [] t s .unwatch = ({ t with watched := [] }, s, .ok) := by simp [step, hin]
      have e2 : xstep (xOf B value) okR x s .unwatch = ({ x with watched := [] }, s, .ok) := by
        simp [xstep, xstepWith, hx]
      show (step B [] t s .unwatch).2.1 = _ ∧ toX (step B [] t s .unwatch).2.2 = _ ∧ Sim B value (step B [] t s .unwatch).1 _
      rw [e1, e2]
      exact ⟨rfl, rfl, ⟨h1, h2, h3, Rel2.nil⟩⟩
    | cmd c =>
      have e1 : step B [] t s (.cmd c) = (t, (B.exec s c).1, .plain (B.exec s c).2) := by simp [step, hin]
      have e2 : xstep (xOf B value) okR x s (.cmd c) = (x, (B.exec s c).1, .plain (B.exec s c).2) := by
        simp [xstep, xstepWith, hx, xOf]
      show (step B [] t s (.cmd c)).2.1 = _ ∧ toX (step B [] t s (.cmd c)).2.2 = _ ∧ Sim B value (step B [] t s (.cmd c)).1 _
      rw [e1, e2]
      exact ⟨rfl, rfl, ⟨h1, h2, h3, h4⟩⟩
    | watch ks =>
      have hG' : ks.Nodup ∧ (∀ k ∈ ks, k ∉ t.watched.map (·.1)) ∧ ∀ k ∈ ks, GetFaithfulAt B value s k := by
        rcases hG with hG | hG
        · rw [hin] at hG; cases hG
        · exact hG
      obtain ⟨g1, g2, g3⟩ := hG'
      have hkeys := forall2_keys B value t.watched x.watched h4
      have e1 := watch_snapshot_is_get B [] t s ks hin
      have e2 : xstep (xOf B value) okR x s (.watch ks) =
          ({ x with watched := x.watched ++ ks.map (fun k => (k, value s k)) }, s, .ok) := by
        simp only [xstep, xstepWith, hx, Bool.false_eq_true, if_false, watchPut, if_true, xOf]
        rw [watch_fold_fresh value s ks x.watched g1 (by rw [← hkeys]; exact g2)]
      show (step B [] t s (.watch ks)).2.1 = _ ∧ toX (step B [] t s (.watch ks)).2.2 = _ ∧ Sim B value (step B [] t s (.watch ks)).1 _
      rw [e1, e2]
      refine ⟨rfl, rfl, ⟨h1, h2, h3, ?_⟩⟩
      exact Rel2.append h4 (rel2_watch_maps B value s ks g3)
  · -- inside MULTI
    have hx : x.inTxn = true := by rw [← h1]; exact hin
    cases i with
    | multi =>
      have e1 : step B [] t s .multi = (t, s, .err .nestedMulti) := by simp [step, hin]
      have e2 : xstep (xOf B value) okR x s .multi = (x, s, .err .nestedMulti) := by
        simp [xstep, xstepWith, hx]
      show (step B [] t s .multi).2.1 = _ ∧ toX (step B [] t s .multi).2.2 = _ ∧ Sim B value (step B [] t s .multi).1 _
      rw [e1, e2]
      exact ⟨rfl, rfl, ⟨h1, h2, h3, h4⟩⟩
    | watch ks =>
      have e1 : step B [] t s (.watch ks) = (t, s, .err .watchInMulti) := by simp [step, hin]
      have e2 : xstep (xOf B value) okR x s (.watch ks) = (x, s, .err .watchInMulti) := by
        simp [xstep, xstepWith, hx]
      show (step B [] t s (.watch ks)).2.1 = _ ∧ toX (step B [] t s (.watch ks)).2.2 = _ ∧ Sim B value (step B [] t s (.watch ks)).1 _
      rw [e1, e2]
      exact ⟨rfl, rfl, ⟨h1, h2, h3, h4⟩⟩
    | discard =>
      have e1 : step B [] t s .discard = (ConnTxn.idle, s, .ok) := by simp [step, hin]
      have e2 : xstep (xOf B value) okR x s .discard = (ExTxn.idle, s, .ok) := by
        simp [xstep, xstepWith, hx]
      show (step B [] t s .discard).2.1 = _ ∧ toX (step B [] t s .discard).2.2 = _ ∧ Sim B value (step B [] t s .discard).1 _
      rw [e1, e2]
      exact ⟨rfl, rfl, sim_idle B value⟩
    | unwatch =>
      have e1 : step B [] t s .unwatch = ({ t with queue := t.queue ++ [B.unwatchCmd] }, s, .queued) := by
        simp [step, hin]
      have e2 : xstep (xOf B value) okR x s .unwatch = ({ x with queue := x.queue ++ [.unwatch] }, s, .queued) := by
        simp [xstep, xstepWith, hx]
      show (step B [] t s .unwatch).2.1 = _ ∧ toX (step B [] t s .unwatch).2.2 = _ ∧ Sim B value (step B [] t s .unwatch).1 _
      rw [e1, e2]
      exact ⟨rfl, rfl, ⟨h1, h2, Rel2.append h3 (Rel2.cons rfl Rel2.nil), h4⟩⟩
    | cmd c =>
      have e1 : step B [] t s (.cmd c) = ({ t with queue := t.queue ++ [c] }, s, .queued) := by
        simp [step, hin]
      have e2 : xstep (xOf B value) okR x s (.cmd c) = ({ x with queue := x.queue ++ [.cmd c] }, s, .queued) := by
        simp [xstep, xstepWith, hx]
      show (step B [] t s (.cmd c)).2.1 = _ ∧ toX (step B [] t s (.cmd c)).2.2 = _ ∧ Sim B value (step B [] t s (.cmd c)).1 _
      rw [e1, e2]
      exact ⟨rfl, rfl, ⟨h1, h2, Rel2.append h3 (Rel2.cons rfl Rel2.nil), h4⟩⟩
    | exec =>
      have hany := any_wrel B value s t.watched x.watched h4
      have hq := runSeq_xrunQueue B value okR hU t.queue x.queue h3 s
      have e2 := xstep_exec (xOf B value) okR x s hx
      show (step B [] t s .exec).2.1 = _ ∧ toX (step B [] t s .exec).2.2 = _ ∧ Sim B value (step B [] t s .exec).1 _
      rw [e2]
      have hxv : (x.watched.any fun p => decide ((xOf B value).value s p.1 ≠ p.2)) =
          (x.watched.any fun p => decide (value s p.1 ≠ p.2)) := rfl
      rw [hxv, ← hany]
      cases hv : (t.watched.any fun p => decide (B.getReply s p.1 ≠ p.2))
      · have hw : ∀ p ∈ t.watched, B.getReply s p.1 = p.2 := by
          intro p hp
          have := List.any_eq_false.mp hv p hp
          simpa using this
        rw [(exec_equals_sequential_partial B [] t s hin h2 noInterleaving_nil hw).1, hq]
        exact ⟨rfl, rfl, sim_idle B value⟩
      · obtain ⟨p, hp, hd⟩ := List.any_eq_true.mp hv
        have hd' : B.getReply s p.1 ≠ p.2 := by simpa using hd
        rw [watch_detects_change_partial B [] t s p.1 p.2 hin h2 noInterleaving_nil hp hd']
        exact ⟨rfl, rfl, sim_idle B value⟩

/-- the guard along a trace (evaluated on the connection-level run) -/
def Guarded (B : Backend σ κ γ ρ) (value : σ → κ → Option ν) :
    ConnTxn κ γ ρ → σ → List (XInput κ γ) → Prop
  | _, _, [] => True
  | t, s, i :: rest =>
    Guard B value t s i ∧
      Guarded B value (step B [] t s (toConn i)).1 (step B [] t s (toConn i)).2.1 rest

/-- **the connection-level machine simulates the executor-level machine** (and vice versa: both
    are deterministic) on every trace of the common alphabet — MULTI, EXEC, DISCARD, WATCH,
    UNWATCH, data commands — with nobody interfering, provided each WATCH outside MULTI names
    fresh keys whose GET reply is faithful at that moment: same final store, the same replies up
    to the shape of nil, related final states.  So every executor-level theorem above
    (`x_exec_equals_sequential`, `x_watch_detects_iff`, …) transfers to the connection on such
    traces; the hypotheses are exactly where the two differ (see the counterexamples below). -/
theorem conn_simulates_executor_partial (B : Backend σ κ γ ρ) (value : σ → κ → Option ν) (okR : ρ)
    (hU : ∀ s, B.exec s B.unwatchCmd = (s, okR)) (is : List (XInput κ γ)) :
    ∀ (t : ConnTxn κ γ ρ) (x : ExTxn κ γ ν) (s : σ), Sim B value t x → Guarded B value t s is →
      (run B t s (is.map (fun i => (toConn i, [])))).2.1 = (xrun (xOf B value) okR x s is).2.1 ∧
      (run B t s (is.map (fun i => (toConn i, [])))).2.2.map toX =
        (xrun (xOf B value) okR x s is).2.2.map some ∧
      Sim B value (run B t s (is.map (fun i => (toConn i, [])))).1 (xrun (xOf B value) okR x s is).1 := by
  induction is with
  | nil => intro t x s hS _; exact ⟨rfl, rfl, hS⟩
  | cons i rest ih =>
    intro t x s hS hG
    obtain ⟨g1, g2⟩ := hG
    obtain ⟨a, b, c⟩ := sim_step B value okR hU t x s i hS g1
    simp only [List.map_cons, run, xrun]
    rw [a] at g2 ⊢
    obtain ⟨a', b', c'⟩ := ih _ _ _ c g2
    exact ⟨a', by rw [b, b'], c'⟩


end

/-- on the concrete store the GET reply of a key that is a string or missing is faithful -/
theorem kv_getFaithful (s0 : KV.Store) (k : Nat) (h : strOrMissing s0 k = true) :
    GetFaithfulAt KV.backend NMap.get s0 k := by
  intro s
  have := watch_detects_iff s0 s k
  have hns : nonString s0 k = false := by simp [nonString, h]
  constructor
  · intro hr
    false_or_by_contra
    rename_i hne
    exact (this.mpr ⟨hne, by simp [hns]⟩) hr
  · intro hv
    false_or_by_contra
    rename_i hne
    exact (this.mp hne).1 hv

/-- non-vacuity: a guarded trace on the concrete store (string keys; a WATCH, a foreign-free
    body with a run-time failing command and an UNWATCH inside MULTI), both machines side by side -/
example :
    let is : List (XInput Nat KV.Cmd) :=
      [.watch [1, 2], .cmd (.set 3 [7]), .multi, .cmd (.incr 1), .cmd (.llen 1), .unwatch, .exec,
       .watch [1], .cmd (.append 1 [48]), .multi, .cmd (.get 1), .exec]
    (run KV.backend ConnTxn.idle [(1, .str [53])] (is.map (fun i => (toConn i, [])))).2.2.map toX =
      (xrun (xOf KV.backend NMap.get) (.simple .ok) ExTxn.idle [(1, .str [53])] is).2.2.map some ∧
    (xrun (xOf KV.backend NMap.get) (.simple .ok) ExTxn.idle [(1, .str [53])] is).2.2.getLast? = some .nil := by
  decide

/-- **divergence 1 — a key watched twice**: `WATCH k` (value 0), k := 1, `WATCH k` again, k := 0,
    `MULTI; EXEC`.  The connection compares EVERY snapshot (the second one, 1, differs: nil); the
    executor keeps the FIRST (0 = 0: the queue runs).  Hence the freshness guard. -/
theorem machines_differ_on_rewatch_counterexample :
    let is : List (XInput Nat KV.Cmd) :=
      [.watch [1], .cmd (.set 1 [49]), .watch [1], .cmd (.set 1 [48]), .multi, .exec]
    (run KV.backend ConnTxn.idle [(1, .str [48])] (is.map (fun i => (toConn i, [])))).2.2.getLast? =
      some .nil ∧
    (xrun (xOf KV.backend NMap.get) (.simple .ok) ExTxn.idle [(1, .str [48])] is).2.2.getLast? =
      some (.results []) := by
  decide

/-- **divergence 2 — a watched key that is not a string**: the executor sees the push, the
    connection does not.  Hence the faithfulness guard. -/
theorem machines_differ_on_nonstring_counterexample :
    let is : List (XInput Nat KV.Cmd) := [.watch [1], .cmd (.rpush 1 [[50]]), .multi, .exec]
    (run KV.backend ConnTxn.idle [(1, .list [[49]])] (is.map (fun i => (toConn i, [])))).2.2.getLast? =
      some (.results []) ∧
    (xrun (xOf KV.backend NMap.get) (.simple .ok) ExTxn.idle [(1, .list [[49]])] is).2.2.getLast? =
      some .nil := by
  decide

/-! ## one executor shared by several clients (`SimulationHarness`, `RedisServer`) -/

section
variable {σ κ γ ρ ν : Type} [DecidableEq κ] [DecidableEq ν]

/-- the shared machine is the single-client machine on the merged input sequence: the client id
    is ignored -/
theorem xsharedRun_is_xrun (X : XBackend σ κ γ ρ ν) (okR : ρ) (evs : List (Nat × XInput κ γ)) :
    ∀ (t : ExTxn κ γ ν) (s : σ),
      (xsharedRun X okR t s evs).1 = (xrun X okR t s (evs.map (·.2))).1 ∧
      (xsharedRun X okR t s evs).2.1 = (xrun X okR t s (evs.map (·.2))).2.1 ∧
      (xsharedRun X okR t s evs).2.2.map (·.2) = (xrun X okR t s (evs.map (·.2))).2.2 := by
  induction evs with
  | nil => intro t s; exact ⟨rfl, rfl, rfl⟩
  | cons e rest ih =>
    intro t s
    obtain ⟨a, b, c⟩ := ih (xstep X okR t s e.2).1 (xstep X okR t s e.2).2.1
    simp only [xsharedRun, List.map_cons, xrun]
    exact ⟨a, b, by rw [c]⟩

/-- the replies that went to client `a` -/
def repliesOf (a : Nat) (rs : List (Nat × XReply ρ)) : List (XReply ρ) :=
  (rs.filter (fun r => r.1 == a)).map (·.2)

/-- number of results of an EXEC reply -/
def resultCount : XReply ρ → Option Nat
  | .results rs => some rs.length
  | _ => none

end

/-- the transaction of client `a` on a shared executor: `MULTI`, then `body` (data commands of any
    clients), then `EXEC` by `a`.  C05 for client `a`: EXEC returns exactly one result per command
    that `a` sent, and what the OTHER clients sent in between was executed at once (answered with
    its result, not with QUEUED). -/
def C05_x_shared_own_queue : Prop :=
  ∀ (s : KV.Store) (a : Nat) (body : List (Nat × KV.Cmd)),
    let r := xsharedRun KV.xbackend (.simple .ok) ExTxn.idle s
      ((a, .multi) :: body.map (fun e => (e.1, XInput.cmd e.2)) ++ [(a, .exec)])
    r.2.2.getLast?.map (fun x => (x.1, resultCount x.2)) =
      some (a, some (body.filter (fun e => e.1 == a)).length) ∧
    ∀ b, b ≠ a → ∀ x ∈ repliesOf b r.2.2, x ≠ .queued

/-- REFUTED for the code as it is: client 1 opens a transaction, client 2's `SET k v` is answered
    QUEUED, has no effect until client 1's EXEC, and client 1's EXEC returns a result for a command
    it never sent -/
theorem x_shared_captures_foreign_command_counterexample : ¬ C05_x_shared_own_queue := by
  intro h
  have := (h [] 1 [(2, .set 1 [118])]).1
  revert this
  decide

/-- the same run spelled out: replies `(1,+OK) (2,QUEUED) (1,[+OK])`, and the key only exists
    after client 1's EXEC -/
example :
    xsharedRun KV.xbackend (.simple .ok) ExTxn.idle []
        [(1, .multi), (2, .cmd (.set 1 [118])), (2, .cmd (.get 1)), (1, .exec)] =
      (ExTxn.idle, [(1, .str [118])],
       [(1, .ok), (2, .queued), (2, .queued), (1, .results [.simple .ok, .bulk (some [118])])]) := by
  decide

section
variable {σ κ γ ρ ν : Type} [DecidableEq κ] [DecidableEq ν]

theorem xrun_queue_cmds (X : XBackend σ κ γ ρ ν) (okR : ρ) (cs : List γ) :
    ∀ (t : ExTxn κ γ ν) (s : σ), t.inTxn = true →
      xrun X okR t s (cs.map XInput.cmd) =
        ({ t with queue := t.queue ++ cs.map XQ.cmd }, s, List.replicate cs.length .queued) := by
  induction cs with
  | nil => intro t s _; simp [xrun]
  | cons c rest ih =>
    intro t s hin
    simp only [List.map_cons, xrun, xstep, xstepWith, hin, if_true]
    rw [ih _ _ rfl]
    simp [List.replicate_succ]

theorem xrun_append (X : XBackend σ κ γ ρ ν) (okR : ρ) (a b : List (XInput κ γ)) :
    ∀ (t : ExTxn κ γ ν) (s : σ),
      xrun X okR t s (a ++ b) =
        ((xrun X okR (xrun X okR t s a).1 (xrun X okR t s a).2.1 b).1,
         (xrun X okR (xrun X okR t s a).1 (xrun X okR t s a).2.1 b).2.1,
         (xrun X okR t s a).2.2 ++ (xrun X okR (xrun X okR t s a).1 (xrun X okR t s a).2.1 b).2.2) := by
  induction a with
  | nil => intro t s; rfl
  | cons e rest ih => intro t s; simp [xrun, ih]

/-- **partial**: when only ONE client speaks between its MULTI and its EXEC (the hypothesis is on
    the trace: every event of the window carries the same client id), the shared executor gives
    that client a transaction: all QUEUED, one result per command, store untouched until EXEC -/
theorem x_shared_single_speaker_partial (X : XBackend σ κ γ ρ ν) (okR : ρ) (s : σ) (a : Nat)
    (t : ExTxn κ γ ν) (ht : t.inTxn = false) (hw : t.watched = []) (cs : List γ) :
    let r := xsharedRun X okR t s ((a, .multi) :: cs.map (fun c => (a, XInput.cmd c)) ++ [(a, .exec)])
    r.1 = ExTxn.idle ∧ r.2.1 = (xrunQueue X okR s (cs.map XQ.cmd)).1 ∧
    r.2.2.map (·.2) =
      .ok :: (List.replicate cs.length .queued ++ [.results (xrunQueue X okR s (cs.map XQ.cmd)).2]) ∧
    (xrunQueue X okR s (cs.map XQ.cmd)).2.length = cs.length := by
  intro r
  obtain ⟨e1, e2, e3⟩ := xsharedRun_is_xrun X okR
    ((a, .multi) :: cs.map (fun c => (a, XInput.cmd c)) ++ [(a, .exec)]) t s
  have hmap : (((a, XInput.multi) :: cs.map (fun c => (a, XInput.cmd c)) ++ [(a, XInput.exec)] :
        List (Nat × XInput κ γ)).map (fun x => x.2)) =
      (XInput.multi :: cs.map XInput.cmd) ++ [XInput.exec] := by
    simp [List.map_map, Function.comp_def]
  rw [hmap] at e1 e2 e3
  have hm : xstep X okR t s .multi = ({ t with inTxn := true, queue := [] }, s, .ok) := by
    simp [xstep, xstepWith, ht]
  have hx : xrun X okR t s (XInput.multi :: cs.map XInput.cmd ++ [XInput.exec]) =
      (ExTxn.idle, (xrunQueue X okR s (cs.map XQ.cmd)).1,
       .ok :: (List.replicate cs.length .queued ++ [.results (xrunQueue X okR s (cs.map XQ.cmd)).2])) := by
    rw [List.cons_append]
    simp only [xrun]
    rw [hm, xrun_append, xrun_queue_cmds X okR cs _ s rfl]
    simp only [xrun, List.nil_append]
    rw [xstep_exec X okR _ s rfl]
    simp [hw]
  rw [hx] at e1 e2 e3
  exact ⟨e1, e2, e3, by rw [xrunQueue_length]; simp⟩

end

/-- non-vacuity: a single-speaker window on the concrete store -/
example :
    xsharedRun KV.xbackend (.simple .ok) ExTxn.idle [(1, .str [48])]
        ((7, .multi) :: [KV.Cmd.incr 1, .get 1].map (fun c => (7, XInput.cmd c)) ++ [(7, .exec)]) =
      (ExTxn.idle, [(1, .str [49])],
       [(7, .ok), (7, .queued), (7, .queued), (7, .results [.int 1, .bulk (some [49])])]) := by
  decide

/-! ## the replicated front end (`ReplicatedShardedState::execute`, `server_persistent`) -/

section
variable {σ κ γ ρ : Type}

/-- the decision table of the replicated front end: it has no transaction state at all -/
theorem r_table (exec : σ → γ → σ × ρ) (s : σ) :
    rstep (κ := κ) exec s .multi = (s, .errUnknown) ∧
    rstep (κ := κ) exec s .exec = (s, .errUnknown) ∧
    rstep (κ := κ) exec s .discard = (s, .errUnknown) ∧
    rstep (κ := κ) exec s .unwatch = (s, .errUnknown) ∧
    (∀ ks : List κ, rstep exec s (.watch ks) = (s, .ok)) ∧
    ∀ c, rstep (κ := κ) exec s (.cmd c) = ((exec s c).1, .plain (exec s c).2) :=
  ⟨rfl, rfl, rfl, rfl, fun _ => rfl, fun _ => rfl⟩

/-- the data commands of an input sequence -/
def dataCmds : List (XInput κ γ) → List γ
  | [] => []
  | .cmd c :: rest => c :: dataCmds rest
  | _ :: rest => dataCmds rest

/-- **nothing is ever queued there**: whatever MULTI / EXEC / DISCARD / WATCH / UNWATCH are mixed
    in, the store after a trace is the consecutive run of its data commands — each takes effect
    at once -/
theorem r_never_queues (exec : σ → γ → σ × ρ) (is : List (XInput κ γ)) :
    ∀ s, (rrun exec s is).1 = (is.foldl (fun s i => (rstep exec s i).1) s) ∧
      (rrun exec s is).1 = (dataCmds is).foldl (fun s c => (exec s c).1) s := by
  induction is with
  | nil => intro s; exact ⟨rfl, rfl⟩
  | cons i rest ih =>
    intro s
    obtain ⟨a, b⟩ := ih (rstep exec s i).1
    refine ⟨by simp only [rrun, List.foldl_cons]; exact a, ?_⟩
    simp only [rrun]
    rw [b]
    cases i <;> rfl

end

/-- C05's first clause on the replicated front end: between MULTI and EXEC nothing reaches the
    store -/
def C05_r_queued_has_no_effect : Prop :=
  ∀ (s : KV.Store) (cs : List KV.Cmd),
    (rrun (κ := Nat) KV.exec s (.multi :: cs.map XInput.cmd)).1 = s

/-- REFUTED: `MULTI` is answered `-ERR unknown command` and `SET k v` is applied at once -/
theorem r_queued_has_effect_counterexample : ¬ C05_r_queued_has_no_effect := by
  intro h
  have := h [] [.set 1 [118]]
  revert this
  decide

example :
    rrun (κ := Nat) KV.exec [] [.watch [1], .multi, .cmd (.set 1 [118]), .cmd (.get 1), .exec] =
      ([(1, .str [118])],
       [.ok, .errUnknown, .plain (.simple .ok), .plain (.bulk (some [118])), .errUnknown]) := by
  decide

/-! ## fan-out commands inside EXEC (concrete store) -/

/-- MSET / MGET / multi-key DEL queued and replayed by EXEC: one result each, equal to the
    consecutive run — `exec_equals_sequential_partial` instantiated on bodies with fan-out
    commands, a duplicate key in DEL, a non-string key in MGET -/
theorem kv_mset_mget_del_in_exec :
    run KV.backend ConnTxn.idle [(3, .list [[7]])]
      [(.multi, []), (.cmd (.mset [(1, [49]), (2, [50])]), []), (.cmd (.mget [1, 3, 2, 9]), []),
       (.cmd (.delm [1, 1, 3]), []), (.cmd (.mget [1, 2]), []), (.exec, [])] =
    (ConnTxn.idle, [(2, .str [50])],
     [.ok, .queued, .queued, .queued, .queued,
      .results [.simple .ok, .marr [some [49], none, some [50], none], .int 2,
                .marr [none, some [50]]]]) := by
  decide

/-! ## non-vacuity of the theorems above -/

/-- `step_table`: one reachable state per row class, spelled out on the concrete store -/
example :
    let t : ConnTxn Nat KV.Cmd KV.Rep :=
      { inTxn := true, queue := [.set 1 [49], .get 1], errors := false, watched := [(2, .bulk none)] }
    rcls (step KV.backend [] t [] .exec).2.2 = .results 2 ∧
    rcls (step KV.backend [] t [(2, .str [1])] .exec).2.2 = .nil ∧
    rcls (step KV.backend [] { t with errors := true } [] .exec).2.2 = .err .execAbort ∧
    rcls (step KV.backend [] t [] .protoErr).2.2 = .err .protocol ∧
    (step KV.backend [] t [] .protoErr).1 = t := by decide

/-- `exec_equals_pipeline` under a NON-empty schedule: the foreign `SET k 2` between the two
    queued commands shows in EXEC exactly as it shows in the plain pipeline -/
example :
    let t : ConnTxn Nat KV.Cmd KV.Rep :=
      { inTxn := true, queue := [.set 1 [49], .get 1], errors := false, watched := [] }
    let sc : List (List KV.Cmd) := [[], [.set 1 [50]]]
    step KV.backend sc t [] .exec = (ConnTxn.idle, [(1, .str [50])], .results [.simple .ok, .bulk (some [50])]) ∧
    plainPipeline KV.backend sc ConnTxn.idle [] t.queue =
      ([], [(1, .str [50])], [.plain (.simple .ok), .plain (.bulk (some [50]))]) := by decide

end C05
end RedisVerif
