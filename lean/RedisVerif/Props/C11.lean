import RedisVerif.Model.Stream
import RedisVerif.Lemmas.Stream
import RedisVerif.Lemmas.StreamFold
import RedisVerif.Lemmas.Apply

/-!
# C11 — Recovery returns exactly the merge of everything persisted, idempotently

Model: `Stream.recover`, `Stream.recoverWithWalWith` (M4, `Model/Stream.lean`) over
`RV.merge` (M1).  What the node ends up with is `foldState r.updates`: checkpoint entries,
then the deltas, applied with `apply_remote_delta` (= per-key fold of `RV.merge`).

* `manifest_inv_new / _allocate / _addSegment / _flush_step / _compactSegments`: the manifest
  invariant and its preservation (`manifest_inv_preserved`) by the CURRENT tree, unconditionally.
  The pinned commit's `compact_segments` (no bump of `next_segment_id`) preserved it only when the
  checkpoint covers already allocated ids — `manifest_inv_compactSegments_pinned`,
  `checkpoint_before_first_flush_counterexample` (fixed defect).
* `recover_selects_all`: under the invariant the updates recovery returns are exactly the
  checkpoint entries plus the deltas of every listed segment.
* `recover_exact`, `recover_order_independent`, `recover_duplicate_tolerant`,
  `recover_idempotent`: via `FoldACI` on the carrier where C07 proves the three laws
  (`Coherent`, decidable).
* `apply_recovered_equals_fold`, `apply_recovered_equals_foldState`, `recover_and_apply_exact`,
  `apply_recovered_idempotent`: the application step `ReplicatedShardedState::apply_recovered_
  state` (`Model/Apply.lean`, on top of M2): on a fresh node, for every router, every key ends
  up with the checkpoint value of the key with the key's deltas merged in — end to end the merge
  of everything persisted — and applying the recovered state twice equals once.
* `recover_with_wal_complete_current`, `recover_with_wal_exact_current`: nothing in the WAL is
  dropped by the current tree (no high-water-mark filter); `hwm_filter_counterexample` refutes
  it for the pinned commit (fixed defect), `recover_with_wal_complete_partial` is what the
  filter did satisfy.
-/
namespace RedisVerif
namespace C11

open _root_.RedisVerif.Stream FoldACI

/-! ## the manifest invariant -/

/-- `Manifest::verify_invariants` (sorted strictly by id, every id below `next`, no segment at or
    below the checkpoint) plus the conjunct that makes it inductive: the checkpoint only covers
    ids that have been allocated. -/
def ManifestInv (m : Manifest) : Prop :=
  m.segments.Pairwise (fun a b => a.id < b.id) ∧
  (∀ s ∈ m.segments, s.id < m.next) ∧
  (∀ c, m.checkpoint = some c → c.last < m.next ∧ ∀ s ∈ m.segments, s.id > c.last)

instance (m : Manifest) : Decidable (ManifestInv m) := by
  unfold ManifestInv
  cases h : m.checkpoint with
  | none =>
    have : (∀ c, (none : Option ChkInfo) = some c → c.last < m.next ∧ ∀ s ∈ m.segments, s.id > c.last) := by
      intro c hc; cases hc
    exact decidable_of_iff (m.segments.Pairwise (fun a b => a.id < b.id) ∧ (∀ s ∈ m.segments, s.id < m.next))
      ⟨fun ⟨a, b⟩ => ⟨a, b, this⟩, fun ⟨a, b, _⟩ => ⟨a, b⟩⟩
  | some c0 =>
    exact decidable_of_iff (m.segments.Pairwise (fun a b => a.id < b.id) ∧ (∀ s ∈ m.segments, s.id < m.next)
        ∧ (c0.last < m.next ∧ ∀ s ∈ m.segments, s.id > c0.last))
      ⟨fun ⟨a, b, c⟩ => ⟨a, b, fun c' hc => by cases hc; exact c⟩,
       fun ⟨a, b, c⟩ => ⟨a, b, c c0 rfl⟩⟩

theorem manifest_inv_new (rid : Nat) : ManifestInv (Manifest.new rid) := by
  refine ⟨List.Pairwise.nil, ?_, ?_⟩
  · intro s hs; cases hs
  · intro c hc; cases hc

theorem manifest_inv_allocate {m : Manifest} (h : ManifestInv m) : ManifestInv m.allocate.2 := by
  obtain ⟨h1, h2, h3⟩ := h
  refine ⟨h1, ?_, ?_⟩
  · intro s hs; exact Nat.lt_succ_of_lt (h2 s hs)
  · intro c hc
    exact ⟨Nat.lt_succ_of_lt (h3 c hc).1, (h3 c hc).2⟩

theorem mem_insertSeg (info : SegInfo) (l : List SegInfo) (s : SegInfo) :
    s ∈ Manifest.insertSeg info l ↔ s = info ∨ s ∈ l := by
  induction l with
  | nil => simp [Manifest.insertSeg]
  | cons t l ih =>
    simp only [Manifest.insertSeg]
    split
    · simp only [List.mem_cons, ih]
      constructor
      · rintro (h | h | h)
        · exact Or.inr (Or.inl h)
        · exact Or.inl h
        · exact Or.inr (Or.inr h)
      · rintro (h | h | h)
        · exact Or.inr (Or.inl h)
        · exact Or.inl h
        · exact Or.inr (Or.inr h)
    · simp

theorem pairwise_insertSeg {info : SegInfo} {l : List SegInfo}
    (hl : l.Pairwise (fun a b => a.id < b.id)) (hne : ∀ s ∈ l, s.id ≠ info.id) :
    (Manifest.insertSeg info l).Pairwise (fun a b => a.id < b.id) := by
  induction l with
  | nil => simp [Manifest.insertSeg]
  | cons t l ih =>
    have ⟨ht, hl'⟩ := List.pairwise_cons.mp hl
    simp only [Manifest.insertSeg]
    split
    · rename_i hlt
      apply List.pairwise_cons.mpr
      refine ⟨?_, ih hl' (fun s hs => hne s (by simp [hs]))⟩
      intro s hs
      rcases (mem_insertSeg info l s).mp hs with h | h
      · subst h; exact hlt
      · exact ht s h
    · rename_i hnlt
      have hne_t := hne t (by simp)
      have hlt : info.id < t.id := by omega
      apply List.pairwise_cons.mpr
      refine ⟨?_, hl⟩
      intro s hs
      cases hs with
      | head => exact hlt
      | tail _ hs' => exact Nat.lt_trans hlt (ht s hs')

/-- `add_segment` preserves the invariant for a fresh id above the checkpoint -/
theorem manifest_inv_addSegment {m : Manifest} {info : SegInfo} (h : ManifestInv m)
    (hne : ∀ s ∈ m.segments, s.id ≠ info.id)
    (hchk : ∀ c, m.checkpoint = some c → c.last < info.id) :
    ManifestInv (m.addSegment info) := by
  obtain ⟨h1, h2, h3⟩ := h
  refine ⟨pairwise_insertSeg h1 hne, ?_, ?_⟩
  · intro s hs
    simp only [Manifest.addSegment] at hs ⊢
    rcases (mem_insertSeg info m.segments s).mp hs with h | h
    · subst h; split <;> omega
    · have := h2 s h; split <;> omega
  · intro c hc
    have hc' : m.checkpoint = some c := hc
    simp only [Manifest.addSegment]
    refine ⟨?_, ?_⟩
    · have := (h3 c hc').1; split <;> omega
    · intro s hs
      rcases (mem_insertSeg info m.segments s).mp hs with h | h
      · subst h; exact hchk c hc'
      · exact (h3 c hc').2 s h

/-- what `flush` does to the manifest: allocate, then add the segment under that id -/
theorem manifest_inv_flush_step {m : Manifest} (h : ManifestInv m) (count size lo hi : Nat) :
    ManifestInv (m.allocate.2.addSegment
      { id := m.allocate.1, count := count, size := size, minTs := lo, maxTs := hi }) := by
  apply manifest_inv_addSegment (manifest_inv_allocate h)
  · intro s hs
    have := h.2.1 s hs
    show s.id ≠ m.next
    omega
  · intro c hc
    exact (h.2.2 c hc).1

/-- `compact_segments` of the PINNED commit (no bump) preserves the invariant only when the
    checkpoint covers allocated ids (`c.last < next`); see
    `checkpoint_before_first_flush_counterexample` for the remaining case -/
theorem manifest_inv_compactSegments_pinned {m : Manifest} (h : ManifestInv m) (c : ChkInfo)
    (hc : c.last < m.next) : ManifestInv (m.compactSegmentsWith false c) := by
  obtain ⟨h1, h2, _⟩ := h
  refine ⟨List.Pairwise.filter _ h1, ?_, ?_⟩
  · intro s hs
    exact h2 s (List.mem_filter.mp hs).1
  · intro c' hc'
    simp only [Manifest.compactSegmentsWith, Option.some.injEq] at hc'
    subst hc'
    refine ⟨hc, ?_⟩
    intro s hs
    have := (List.mem_filter.mp hs).2
    simpa using this

/-- with `next_segment_id = max(next_segment_id, last_segment_id + 1)` it is unconditional -/
theorem manifest_inv_compactSegments_repaired {m : Manifest} (h : ManifestInv m) (c : ChkInfo) :
    ManifestInv (m.compactSegmentsWith true c) := by
  obtain ⟨h1, h2, _⟩ := h
  refine ⟨List.Pairwise.filter _ h1, ?_, ?_⟩
  · intro s hs
    have := h2 s (List.mem_filter.mp hs).1
    simp only [Manifest.compactSegmentsWith, if_true]
    omega
  · intro c' hc'
    simp only [Manifest.compactSegmentsWith, Option.some.injEq] at hc'
    subst hc'
    refine ⟨?_, ?_⟩
    · simp only [Manifest.compactSegmentsWith, if_true]; omega
    · intro s hs
      have := (List.mem_filter.mp hs).2
      simpa using this

/-- **`compact_segments` of the current tree preserves the manifest invariant**, for every
    checkpoint (also one taken before the first flush) -/
theorem manifest_inv_compactSegments {m : Manifest} (h : ManifestInv m) (c : ChkInfo) :
    ManifestInv (m.compactSegments c) :=
  manifest_inv_compactSegments_repaired h c

/-! ## what recovery selects -/

/-- the checkpoint entries the manifest points to -/
def chkEntries (st : Store) (m : Manifest) : List Delta :=
  match m.checkpoint with
  | none => []
  | some c =>
    match NMap.get st (chkName c.name) with
    | some (.checkpoint state _) => state
    | _ => []

/-- everything persisted under the manifest: checkpoint entries and the deltas of EVERY listed segment -/
def persisted (st : Store) (m : Manifest) : List Delta := chkEntries st m ++ segDeltas st m.segments

theorem mem_segmentsToLoad {m : Manifest} (h : ManifestInv m) (s : SegInfo) :
    s ∈ segmentsToLoad m ↔ s ∈ m.segments := by
  unfold segmentsToLoad
  rw [mem_sortBy]
  cases hc : m.checkpoint with
  | none => rfl
  | some c =>
    simp only [List.mem_filter]
    constructor
    · exact fun h => h.1
    · intro hs
      exact ⟨hs, by simpa using (h.2.2 c hc).2 s hs⟩

theorem recover_manifest_updates {st : Store} {rid : Nat} {r : Recovered} (h : recover st rid = .ok r) :
    r.updates = chkEntries st r.manifest ++ segDeltas st (segmentsToLoad r.manifest) := by
  unfold recover at h
  split at h
  · cases h
  · rename_i m hm
    split at h
    · cases h
    · rename_i chk hchk
      split at h
      · cases h
      · rename_i ds hds
        cases h
        simp only [Recovered.updates]
        rw [loadSegments_ok hds]
        congr 1
        unfold chkEntries
        cases hc : m.checkpoint with
        | none =>
          simp only [hc] at hchk
          cases hchk
          rfl
        | some c =>
          simp only [hc] at hchk
          split at hchk
          · rename_i state lst hg
            cases hchk
            simp [hg]
          · cases hchk
          · cases hchk

/-- **recover_selects_all**: under the manifest invariant the updates recovery returns are, as a
    set, exactly the checkpoint entries plus the deltas of every listed segment — no listed
    segment is skipped, whatever the stamps (`min_timestamp` only orders the replay). -/
theorem recover_selects_all {st : Store} {rid : Nat} {r : Recovered}
    (h : recover st rid = .ok r) (hinv : ManifestInv r.manifest) :
    ∀ d, d ∈ r.updates ↔ d ∈ persisted st r.manifest := by
  intro d
  rw [recover_manifest_updates h]
  unfold persisted
  simp only [List.mem_append]
  rw [mem_segDeltas_congr (mem_segmentsToLoad hinv) d]

/-! ## exactness, order, duplicates, repetition -/

/-- full-strength statement: the recovered state is exactly the merge of the persisted updates,
    whatever order / multiplicity the ground truth is listed in -/
def C11_recover_exact : Prop :=
  ∀ (st : Store) (rid : Nat) (r : Recovered), recover st rid = .ok r → ManifestInv r.manifest →
    Coherent (persisted st r.manifest) →
    ∀ truth : List Delta, (∀ d, d ∈ truth ↔ d ∈ persisted st r.manifest) →
      foldState r.updates = foldState truth

theorem recover_exact : C11_recover_exact := by
  intro st rid r h hinv hc truth htruth
  have hsel := recover_selects_all h hinv
  apply foldState_eq_of_same_set
  · exact coherent_of_subset hc (fun d hd => (hsel d).mp hd)
  · intro d
    rw [hsel d, htruth d]

/-- two store layouts holding the same set of updates (segments permuted, split differently,
    updates moved between checkpoint and segments, stamps interleaved across segments) recover to
    the same state -/
theorem recover_order_independent {st st' : Store} {rid rid' : Nat} {r r' : Recovered}
    (h : recover st rid = .ok r) (h' : recover st' rid' = .ok r')
    (hinv : ManifestInv r.manifest) (hinv' : ManifestInv r'.manifest)
    (hc : Coherent (persisted st r.manifest))
    (hsame : ∀ d, d ∈ persisted st r.manifest ↔ d ∈ persisted st' r'.manifest) :
    foldState r.updates = foldState r'.updates := by
  have hsel := recover_selects_all h hinv
  have hsel' := recover_selects_all h' hinv'
  apply foldState_eq_of_same_set
  · exact coherent_of_subset hc (fun d hd => (hsel d).mp hd)
  · intro d
    rw [hsel d, hsel' d, hsame d]

/-- duplicated updates (the same delta in several segments, in the checkpoint and a segment, the
    whole recovery result replayed again behind itself) do not change the state -/
theorem recover_duplicate_tolerant {st : Store} {rid : Nat} {r : Recovered}
    (h : recover st rid = .ok r) (hinv : ManifestInv r.manifest)
    (hc : Coherent (persisted st r.manifest)) (dups : List Delta) (hd : ∀ d ∈ dups, d ∈ r.updates) :
    foldState (r.updates ++ dups) = foldState r.updates := by
  have hsel := recover_selects_all h hinv
  symm
  apply foldState_eq_of_same_set
  · exact coherent_of_subset hc (fun d hd => (hsel d).mp hd)
  · intro d
    simp only [List.mem_append]
    constructor
    · exact Or.inl
    · rintro (h1 | h1)
      · exact h1
      · exact hd d h1

/-- repeating recovery on a node that already holds its result (and possibly more: `extra`)
    changes nothing, however often -/
theorem recover_idempotent {r : Recovered} (extra : List Delta)
    (hc : Coherent (extra ++ r.updates)) :
    applyAll (foldState (extra ++ r.updates)) r.updates = foldState (extra ++ r.updates) := by
  have : applyAll (foldState (extra ++ r.updates)) r.updates = foldState ((extra ++ r.updates) ++ r.updates) := by
    simp [foldState, applyAll, List.foldl_append]
  rw [this]
  symm
  apply foldState_eq_of_same_set hc
  intro d
  simp only [List.mem_append]
  constructor
  · exact Or.inl
  · rintro (h1 | h1)
    · exact h1
    · exact Or.inr h1

/-- nothing recovery returns is lost in the fold: every update is absorbed by the state -/
theorem recover_absorbs_every_update {st : Store} {rid : Nat} {r : Recovered}
    (h : recover st rid = .ok r) (hinv : ManifestInv r.manifest)
    (hc : Coherent (persisted st r.manifest)) {k : Nat} {v : RV}
    (hp : (k, v) ∈ persisted st r.manifest) :
    ∃ u, NMap.get (foldState r.updates) k = some u ∧ RV.merge v u = u := by
  have hsel := recover_selects_all h hinv
  exact absorbed_of_mem (coherent_of_subset hc (fun d hd => (hsel d).mp hd)) ((hsel (k, v)).mpr hp)


/-! ## the applied state: `ReplicatedShardedState::apply_recovered_state` -/

/-- the checkpoint's value of a key (a `HashMap` has at most one; of a list the last wins) -/
def chkValue (chk : Option (List Delta)) (k : Nat) : Option RV := (vals k (chk.getD [])).getLast?

/-- full-strength statement: on a fresh node, for every router, every key ends up with the
    checkpoint value of the key (if any) with the key's deltas merged in, in order -/
def C11_apply_recovered_equals_fold : Prop :=
  ∀ (route : Nat → Nat) (rid : Nat) (causal : Bool) (chk : Option (List Delta)) (deltas : List Delta) (k : Nat),
    (applyRecoveredState route (Node.fresh rid causal) chk deltas).value route k =
      match chkValue chk k with
      | some c => some ((vals k deltas).foldl RV.merge c)
      | none => fold1 RV.merge (vals k deltas)

theorem fresh_value (route : Nat → Nat) (rid : Nat) (causal : Bool) (k : Nat) :
    (Node.fresh rid causal).value route k = none := rfl

/-- **apply_recovered_equals_fold** — no entry of the checkpoint and no delta is skipped or
    re-ordered per key by the application step, whatever the router and the iteration order of
    the checkpoint map -/
theorem apply_recovered_equals_fold : C11_apply_recovered_equals_fold := by
  intro route rid causal chk deltas k
  unfold applyRecoveredState chkValue
  rw [value_foldl_deltas, value_foldl_chk, fresh_value]
  cases (vals k (chk.getD [])).getLast? <;> rfl

/-- with a checkpoint that is a map (distinct keys) the applied state is, key by key, the fold
    of the recovered updates -/
theorem apply_recovered_equals_foldState (route : Nat → Nat) (rid : Nat) (causal : Bool)
    (chk : Option (NMap RV)) (hwf : ∀ m, chk = some m → NMap.WF m) (deltas : List Delta) (k : Nat) :
    (applyRecoveredState route (Node.fresh rid causal) chk deltas).value route k =
      NMap.get (foldState (chk.getD [] ++ deltas)) k := by
  rw [apply_recovered_equals_fold, get_foldState, vals_append]
  unfold chkValue
  have hw : NMap.WF (chk.getD []) := by
    cases chk with
    | none => exact NMap.wf_nil
    | some m => exact hwf m rfl
  rw [vals_of_wf hw]
  cases NMap.get (chk.getD []) k <;> simp [fold1]

/-- **recovery end to end** (`StreamingIntegration::recover` on a fresh node): every key holds
    exactly the merge of everything persisted for it — independent of the router, of segment
    order, of how updates are split over checkpoint and segments, and of duplicated updates -/
theorem recover_and_apply_exact {st : Store} {rid : Nat} {r : Recovered} (route : Nat → Nat) (causal : Bool)
    (h : recover st rid = .ok r) (hinv : ManifestInv r.manifest)
    (hwf : ∀ m, r.chk = some m → NMap.WF m)
    (hc : Coherent (persisted st r.manifest))
    (truth : List Delta) (htruth : ∀ d, d ∈ truth ↔ d ∈ persisted st r.manifest) (k : Nat) :
    (applyRecoveredState route (Node.fresh rid causal) r.chk r.deltas).value route k =
      NMap.get (foldState truth) k := by
  rw [apply_recovered_equals_foldState route rid causal r.chk hwf r.deltas k]
  have := recover_exact st rid r h hinv hc truth htruth
  unfold Recovered.updates at this
  rw [this]

/-- **apply_recovered_idempotent**: applying the recovered state a second time (recovery
    repeated on a node that already holds its result) changes no key -/
theorem apply_recovered_idempotent (route : Nat → Nat) (rid : Nat) (causal : Bool)
    (chk : Option (List Delta)) (deltas : List Delta) (hc : Coherent deltas) (k : Nat) :
    (applyRecoveredState route (applyRecoveredState route (Node.fresh rid causal) chk deltas) chk deltas).value route k
      = (applyRecoveredState route (Node.fresh rid causal) chk deltas).value route k := by
  have h1 := apply_recovered_equals_fold route rid causal chk deltas k
  rw [h1]
  unfold applyRecoveredState at h1 ⊢
  rw [value_foldl_deltas, value_foldl_chk]
  unfold chkValue at h1 ⊢
  cases hcv : (vals k (chk.getD [])).getLast? with
  | some c => rfl
  | none =>
    rw [hcv] at h1
    simp only at h1 ⊢
    rw [h1]
    cases hf : fold1 RV.merge (vals k deltas) with
    | none => rfl
    | some u =>
      simp only
      let c := carrierOf deltas hc
      have hcar := inCar_vals (inCar_of_coherent hc) k
      congr 1
      apply foldl_absorb (c.aci k) (fold1_closed (c.aci k) hcar hf) hcar
      intro y hy
      obtain ⟨v, hv, hle⟩ := le_fold1 (c.aci k) hcar hy
      rw [hf] at hv
      cases hv
      exact hle

/-- non-vacuity / the seeded-change witness: the checkpoint holds `session` = tombstone @10, a
    later segment holds `session` = "alive" @5: the applied value is the tombstone -/
example : (applyRecoveredState (fun k => k % 16) (Node.fresh 1 false)
      (some [(1, RV.withValue [107] ⟨3, 1⟩), (2, { crdt := .lww (Lww.delete ⟨10, 1⟩), vc := none, expiry := none, ts := ⟨10, 1⟩, rf := none })])
      [(2, RV.withValue [97] ⟨5, 1⟩), (3, RV.withValue [111] ⟨7, 1⟩)]).value (fun k => k % 16) 2
    = some { crdt := .lww (Lww.delete ⟨10, 1⟩), vc := none, expiry := none, ts := ⟨10, 1⟩, rf := none } := by
  decide

/-! ## WAL replay -/

/-- full-strength statement, parameterised by the code variant: no WAL entry is dropped -/
def C11_wal_complete (hwmFilter : Bool) : Prop :=
  ∀ (st : Store) (rid : Nat) (wal : List (Nat × Delta)) (r : Recovered),
    recoverWithWalWith hwmFilter st rid wal = .ok r → ∀ e ∈ wal, e.2 ∈ r.deltas

/-- **proved for the code after the `fix:` commit** (replay every WAL entry; merge is idempotent, so entries
    already contained in segments are harmless: `recover_duplicate_tolerant`) -/
theorem recover_with_wal_complete : C11_wal_complete false := by
  intro st rid wal r h e he
  unfold recoverWithWalWith at h
  split at h
  · cases h
  · rename_i r0 _
    cases h
    simp only [Bool.false_eq_true, if_false, List.mem_append, List.mem_map]
    exact Or.inr ⟨e, he, rfl⟩

/-- **no WAL entry is dropped by `recover_with_wal` of the current tree** -/
theorem recover_with_wal_complete_current (st : Store) (rid : Nat) (wal : List (Nat × Delta))
    (r : Recovered) (h : recoverWithWal st rid wal = .ok r) : ∀ e ∈ wal, e.2 ∈ r.deltas :=
  recover_with_wal_complete st rid wal r h

def hwmOf (m : Manifest) : Nat := m.segments.foldl (fun a s => Max.max a s.maxTs) 0

/-- decidable hypothesis under which the pinned commit's filter is complete -/
def WalStampsAboveHwm (st : Store) (rid : Nat) (wal : List (Nat × Delta)) : Prop :=
  match recover st rid with
  | .ok r => ∀ e ∈ wal, e.1 ≥ hwmOf r.manifest
  | .error _ => True

instance (st : Store) (rid : Nat) (wal : List (Nat × Delta)) : Decidable (WalStampsAboveHwm st rid wal) := by
  unfold WalStampsAboveHwm
  split <;> infer_instance

/-- **partial, pinned commit (with the high-water-mark filter)**: complete when every WAL entry is stamped at or above the
    greatest `max_timestamp` of the listed segments.  Missing for the full statement: entries of
    a shard / replica whose clock is behind another one's flushed maximum —
    `hwm_filter_counterexample`. -/
theorem recover_with_wal_complete_partial (st : Store) (rid : Nat) (wal : List (Nat × Delta))
    (r : Recovered) (hw : WalStampsAboveHwm st rid wal)
    (h : recoverWithWalWith true st rid wal = .ok r) : ∀ e ∈ wal, e.2 ∈ r.deltas := by
  intro e he
  unfold recoverWithWalWith at h
  unfold WalStampsAboveHwm at hw
  split at h
  · cases h
  · rename_i r0 hr0
    rw [hr0] at hw
    cases h
    simp only [if_true, List.mem_append, List.mem_map, List.mem_filter]
    refine Or.inr ⟨e, ⟨he, ?_⟩, rfl⟩
    have := hw e he
    simpa [hwmOf] using this

/-- with every WAL entry replayed the recovered state is exactly the merge of everything
    persisted in the object store and in the WAL -/
theorem recover_with_wal_exact {st : Store} {rid : Nat} {wal : List (Nat × Delta)} {r : Recovered}
    (h : recoverWithWalWith false st rid wal = .ok r) (hinv : ManifestInv r.manifest)
    (hc : Coherent (persisted st r.manifest ++ wal.map (·.2)))
    (truth : List Delta)
    (htruth : ∀ d, d ∈ truth ↔ d ∈ persisted st r.manifest ++ wal.map (·.2)) :
    foldState r.updates = foldState truth := by
  unfold recoverWithWalWith at h
  split at h
  · cases h
  · rename_i r0 hr0
    cases h
    have hsel := recover_selects_all hr0 hinv
    have hmem : ∀ d, d ∈ ({ r0 with deltas := r0.deltas ++ wal.map (·.2) } : Recovered).updates ↔
        d ∈ persisted st r0.manifest ++ wal.map (·.2) := by
      intro d
      have := hsel d
      simp only [Recovered.updates, List.mem_append] at this ⊢
      constructor
      · rintro (h1 | h1 | h1)
        · exact Or.inl (this.mp (Or.inl h1))
        · exact Or.inl (this.mp (Or.inr h1))
        · exact Or.inr h1
      · rintro (h1 | h1)
        · rcases this.mpr h1 with h2 | h2
          · exact Or.inl h2
          · exact Or.inr (Or.inl h2)
        · exact Or.inr (Or.inr h1)
    apply foldState_eq_of_same_set
    · exact coherent_of_subset hc (fun d hd => (hmem d).mp hd)
    · intro d
      simp only [if_false, Bool.false_eq_true] at hmem ⊢
      rw [hmem d, htruth d]

/-- the current tree: the state recovered with WAL replay is exactly the merge of everything
    persisted in the object store and in the WAL -/
theorem recover_with_wal_exact_current {st : Store} {rid : Nat} {wal : List (Nat × Delta)} {r : Recovered}
    (h : recoverWithWal st rid wal = .ok r) (hinv : ManifestInv r.manifest)
    (hc : Coherent (persisted st r.manifest ++ wal.map (·.2)))
    (truth : List Delta)
    (htruth : ∀ d, d ∈ truth ↔ d ∈ persisted st r.manifest ++ wal.map (·.2)) :
    foldState r.updates = foldState truth :=
  recover_with_wal_exact h hinv hc truth htruth

/-! ## counterexamples (pinned commit; both defects are fixed in the current tree) -/

def lwwAt (v t rid : Nat) : RV := RV.withValue [v] ⟨t, rid⟩

/-- store of the §6.1 replay: one flushed segment of shard A holding key 97 (`a`) at stamp 1000 -/
def hwmStore : Store :=
  NMap.ofList
    [(manifestName, .manifest
        { version := 1, rid := 1, checkpoint := none, next := 1,
          segments := [{ id := 0, count := 1, size := 100, minTs := 1000, maxTs := 1000 }] }),
     (segName 0, .segment [(97, lwwAt 1 1000 1)])]

/-- the WAL still holds an entry of shard B (key 98, `b`) stamped 5, not yet flushed -/
def hwmWal : List (Nat × Delta) := [(5, (98, lwwAt 2 5 1))]

/-- **Fixed defect C11:wal-hwm-filter** (see known_findings.json, `fixed`).  The high-water-mark
    filter of the pinned commit's `recover_with_wal`
    drops a WAL entry whose stamp is below the greatest stamp of any flushed segment, although
    nothing else holds that update. -/
theorem hwm_filter_counterexample : ¬ C11_wal_complete true := by
  intro h
  have := h hwmStore 1 hwmWal
    { manifest := { version := 1, rid := 1, checkpoint := none, next := 1,
                    segments := [{ id := 0, count := 1, size := 100, minTs := 1000, maxTs := 1000 }] },
      chk := none, deltas := [(97, lwwAt 1 1000 1)] } (by rfl) (5, (98, lwwAt 2 5 1)) (by decide)
  revert this
  decide

/-- the same layout is recovered completely by the current tree -/
example : OkAnd (recoverWithWal hwmStore 1 hwmWal)
    (fun r => foldState r.updates = [(97, lwwAt 1 1000 1), (98, lwwAt 2 5 1)]) := by decide

/-- manifest history: fresh manifest, checkpoint taken before the first flush
    (`last_segment_id = 0`, the only value the API can be given), then the first flush -/
def chkFirstManifest (bump : Bool) : Manifest :=
  let m1 := (Manifest.new 1).compactSegmentsWith bump { name := 7, last := 0 }
  m1.allocate.2.addSegment { id := m1.allocate.1, count := 1, size := 100, minTs := 3, maxTs := 3 }

def chkFirstStore (bump : Bool) : Store :=
  NMap.ofList
    [(manifestName, .manifest (chkFirstManifest bump)),
     (segName (chkFirstManifest bump).segments.head!.id, .segment [(97, lwwAt 1 3 1)]),
     (chkName 7, .checkpoint [] 0)]

/-- **Fixed defect C11:checkpoint-before-first-flush** (see known_findings.json, `fixed`).  Segment
    ids start at 0 and the pinned commit's `compact_segments` does not advance `next_segment_id`: the first flush after a checkpoint
    taken on a manifest without segments gets id 0, breaks the manifest invariant
    (`debug_assert` only) and is skipped by recovery's `id > last_segment_id` filter although the
    manifest lists it. -/
theorem checkpoint_before_first_flush_counterexample :
    ¬ ManifestInv (chkFirstManifest false) ∧
    OkAnd (recover (chkFirstStore false) 1)
      (fun r => (97, lwwAt 1 3 1) ∈ persisted (chkFirstStore false) r.manifest ∧ r.updates = []) := by
  decide

/-- in the current tree the same history keeps the invariant and loses nothing -/
example : ManifestInv (chkFirstManifest true) ∧
    OkAnd (recover (chkFirstStore true) 1) (fun r => r.updates = [(97, lwwAt 1 3 1)]) := by
  decide

/-! ## non-vacuity -/

/-- three replicas / interleaved clocks: segment 1 is older by stamp than segment 0, both hold key
    97, the checkpoint holds key 98 that segment 1 updates with a hash-free LWW write -/
def exStore : Store :=
  NMap.ofList
    [(manifestName, .manifest
        { version := 5, rid := 1, checkpoint := some { name := 9, last := 3 }, next := 6,
          segments := [{ id := 4, count := 2, size := 10, minTs := 40, maxTs := 50 },
                       { id := 5, count := 2, size := 10, minTs := 7, maxTs := 45 }] }),
     (segName 4, .segment [(97, lwwAt 1 40 1), (99, lwwAt 3 50 2)]),
     (segName 5, .segment [(97, lwwAt 2 7 3), (98, lwwAt 4 45 3)]),
     (chkName 9, .checkpoint [(98, lwwAt 5 20 2)] 3)]

example : OkAnd (recover exStore 1) (fun r =>
      ManifestInv r.manifest ∧ Coherent (persisted exStore r.manifest) ∧
      r.updates.length = 5 ∧
      foldState r.updates = [(97, lwwAt 1 40 1), (98, lwwAt 4 45 3), (99, lwwAt 3 50 2)] ∧
      foldState r.updates.reverse = foldState r.updates) := by
  decide

example : WalStampsAboveHwm exStore 1 [(50, (100, lwwAt 9 50 1))] ∧
    ¬ WalStampsAboveHwm hwmStore 1 hwmWal := by decide

end C11
end RedisVerif
