import RedisVerif.Lemmas.ServerConn

/-!
# ONE NODE, top level: bytes in → bytes out

`node_end_to_end` stacks the connection layer of C04 (`Model/Conn.lean`: the read loop that cuts the
byte stream into frames under every read segmentation and batching configuration;
`Model/ConnWrite.lean`: encoding into the write buffer, flush points, a peer that accepts any number
≥ 1 of bytes per `poll_write`) on the composed node of `Props/Server.lean` (parser → entry point →
`R.N` shards over M7 → encoder):

  for every pipeline of command frames that are `Supported` and `Answered`, read at non-decreasing
  virtual times, every segmentation of its byte stream into network segments and reads, every
  partial-write script without failure, every batching configuration (`HEADER_LEN = 14`, the code),
  every shard count `N ≥ 1` and routing table — the byte stream the client receives is exactly the
  concatenation of what ONE M7 store answers to the parsed commands run one after the other
  (`Redis.step`), encoded by the connection's encoder (rejected frames: the parser's error text,
  nothing changed); the connection is still open with empty buffers; the final shards are
  indistinguishable from that store and every key has one home.

Corollaries: `node_nothing_withheld` (the client has sent any PREFIX of the pipeline, cut at any
byte: exactly the replies of the complete commands have been written — all of them),
`node_later_bytes_do_not_alter_earlier_replies`.  (`C04.client_decodes_one_reply_per_command` applies to
this executor as soon as `ValOK` is shown of `replyVal`'s values — not done here.)

What C04 assumes of the executor: NOTHING (its theorems quantify over every `Exec σ`); the content
here is the instance (`Lemmas/ServerConn.lean`: `srvExec`, `frameOf_cmdFrame` — the splitter hands
the node the pipeline's frames byte for byte —, `handle_replyOf`, `replyBytes_srv`) and the final
state of the connection's fold (`ConnW.runW_final`).  Outside: as in `Props/Server.lean`
(`Supported`), plus frames without bytes (`Answered`: commands outside the composed model, incl.
MULTI/EXEC, which the connection handles itself — C05), plus C04's own hypotheses (`Small`,
`maxBuffer`, `CmdOK`: a command name that is empty / white space only panics the code as it is).
-/
namespace RedisVerif
namespace Server

open Shards Shards.M7 Resp NMap C03
open Conn (Cmd cmdFrame encCmd stream CmdOK Config)
open ConnW (runW NoFail WEv replyBytes)

/-- the reply bytes of a list of outputs, concatenated (an output without bytes contributes none) -/
def wire : List Out → Bytes
  | [] => []
  | .bytes b :: rest => b ++ wire rest
  | _ :: rest => wire rest

theorem outBytes_of_answered : ∀ (frames : List (Nat × Frame)) (s : Redis.State),
    (∀ x ∈ frames, Answered x.2 = true) →
    outBytes (specRun s frames).2 = some (wire (specRun s frames).2) := by
  intro frames
  induction frames with
  | nil => intro s _; rfl
  | cons x xs ih =>
    intro s h
    obtain ⟨now, f⟩ := x
    have ha := h (now, f) (by simp)
    have := ih (specHandle s now f).1 (fun y hy => h y (by simp [hy]))
    simp only [specRun]
    unfold Answered at ha
    unfold specHandle encodeParseErr at *
    cases hp : Grammar.parseCmdZc f with
    | error e =>
      simp only [hp] at ha this ⊢
      cases ht : e.text with
      | none => simp [ht] at ha
      | some t => simp only [ht, Option.map] at this ⊢; simp [outBytes, wire, this]
    | ok gc =>
      simp only [hp] at ha this ⊢
      cases hc : toCmd7 gc with
      | none => simp [hc] at ha
      | some c => simp only [hc] at this ⊢; simp [outBytes, wire, this]

/-- the connection's initial executor state: empty shards, the clock readings of the pipeline -/
def srvInit (R : Routes) (frames : List (Nat × Frame)) : SrvSt :=
  ⟨Shards.init Redis.Entry R.N, frames.map (·.1), 0⟩

/-- **`node_end_to_end`** -/
theorem node_end_to_end (R : Routes) (hv : R.Valid) (hN : 0 < R.N)
    (cfg : Config) (h14 : Conn.DeadCfg cfg) (hc : cfg.codec = codec1) (hd : 1 ≤ cfg.env.depth)
    (frames : List (Nat × Frame)) (hm : MonoF 0 frames)
    (hs : ∀ x ∈ frames, Supported R x.2 = true) (ha : ∀ x ∈ frames, Answered x.2 = true)
    (segs : List Bytes) (hseg : segs.flatten = stream (frames.map (·.2)))
    (hsm : Small (stream (frames.map (·.2)))) (hmax : (stream (frames.map (·.2))).length ≤ cfg.maxBuffer)
    (hok : ∀ c ∈ frames.map (·.2), CmdOK cfg c)
    (script : List WEv) (hnf : NoFail script = true) :
    -- the bytes the client receives
    (runW cfg (srvExec R) (srvInit R frames) script segs none).out = wire (specRun Redis.init frames).2 ∧
    -- the connection is still open, nothing is left in its write buffer
    (runW cfg (srvExec R) (srvInit R frames) script segs none).ended = false ∧
    (runW cfg (srvExec R) (srvInit R frames) script segs none).wbuf = [] ∧
    -- the final keyspace
    (∀ T, (∀ x ∈ frames, x.1 ≤ T) → ∀ k,
      lv T (get (abs (runW cfg (srvExec R) (srvInit R frames) script segs none).ex.st) k) =
      lv T (get (specRun Redis.init frames).1 k)) ∧
    (∀ i k, (get (shard (runW cfg (srvExec R) (srvInit R frames) script segs none).ex.st i) k).isSome →
      i = R.bytes k) := by
  obtain ⟨q, hview, hhome⟩ := server_refines_m7 R hv hN (fun _ => .generic) frames hm hs
  have hob : outBytes (run R (fun _ => .generic) (Shards.init Redis.Entry R.N) frames).2 =
      some (wire (specRun Redis.init frames).2) := by
    rw [q]; exact outBytes_of_answered frames Redis.init ha
  have hbytes := C04.bytes_written_cmdok SrvSt (srvExec R) (srvInit R frames) cfg h14 hc hd
    (frames.map (·.2)) segs script hseg hsm hmax hok hnf
  obtain ⟨f1, f2, f3⟩ := ConnW.runW_final (srvExec R) (srvInit R frames) cfg h14 hc hd
    (frames.map (·.2)) segs script hseg hsm hmax hok hnf
  have hst := encActs_srv R frames (Shards.init Redis.Entry R.N) 0 _ hob
  refine ⟨?_, f2, f3, ?_, ?_⟩
  · rw [hbytes]
    exact replyBytes_srv R frames (Shards.init Redis.Entry R.N) 0 _ hob
  · intro T hT k
    rw [f1]
    show lv T (get (abs (ConnW.encActs (srvExec R) ⟨_, _, 0⟩ _).1.st) k) = _
    rw [hst]; exact hview T hT k
  · intro i k hk
    rw [f1] at hk
    have hk' : (get (shard (ConnW.encActs (srvExec R) ⟨Shards.init Redis.Entry R.N, frames.map (·.1), 0⟩
      (Conn.execAll (frames.map (·.2)))).1.st i) k).isSome := hk
    rw [hst] at hk'
    exact hhome i k hk'

/-- what one frame contributes to the wire: the encoding of `Redis.step`'s reply, or the parser's
    error text -/
theorem specHandle_bytes (s : Redis.State) (now : Nat) (f : Frame) (ha : Answered f = true) :
    (∃ gc c, Grammar.parseCmdZc f = .ok gc ∧ toCmd7 gc = some c ∧
      specHandle s now f = ((Redis.step s now c).1, .bytes (encode3 (replyVal (Redis.step s now c).2)))) ∨
    (∃ e t, Grammar.parseCmdZc f = .error e ∧ e.text = some t ∧
      specHandle s now f = (s, .bytes (encodeErr t))) := by
  unfold Answered at ha
  unfold specHandle encodeParseErr
  cases hp : Grammar.parseCmdZc f with
  | error e =>
    simp only [hp] at ha
    cases ht : e.text with
    | none => simp [ht] at ha
    | some t => exact Or.inr ⟨e, t, rfl, ht, by simp [ht]⟩
  | ok gc =>
    simp only [hp] at ha
    cases hc : toCmd7 gc with
    | none => simp [hc] at ha
    | some c => exact Or.inl ⟨gc, c, rfl, hc, by simp [hc, encodeReply]⟩

theorem specRun_append (s : Redis.State) (a b : List (Nat × Frame)) :
    (specRun s (a ++ b)).2 = (specRun s a).2 ++ (specRun (specRun s a).1 b).2 := by
  induction a generalizing s with
  | nil => rfl
  | cons x xs ih => obtain ⟨now, f⟩ := x; simp [specRun, ih]

theorem wire_append (a b : List Out) : wire (a ++ b) = wire a ++ wire b := by
  induction a with
  | nil => rfl
  | cons x xs ih => cases x <;> simp [wire, ih]

/-- **k complete commands received ⇒ exactly their k replies written — nothing withheld.**  The
    client has sent any prefix of the pipeline's bytes (`rest` = what it has not sent yet; the cut may
    fall inside a frame), in any segmentation: what it has received are exactly the replies of the
    commands `done` that are complete in what it sent — computed on ONE M7 store — and not a byte of
    a later reply. -/
theorem node_nothing_withheld (R : Routes) (hv : R.Valid) (hN : 0 < R.N)
    (cfg : Config) (h14 : Conn.DeadCfg cfg) (hc : cfg.codec = codec1) (hd : 1 ≤ cfg.env.depth)
    (frames : List (Nat × Frame)) (hm : MonoF 0 frames)
    (hs : ∀ x ∈ frames, Supported R x.2 = true) (ha : ∀ x ∈ frames, Answered x.2 = true)
    (segs : List Bytes) (rest : Bytes) (hseg : segs.flatten ++ rest = stream (frames.map (·.2)))
    (hsm : Small (stream (frames.map (·.2)))) (hmax : (stream (frames.map (·.2))).length ≤ cfg.maxBuffer)
    (hok : ∀ c ∈ frames.map (·.2), CmdOK cfg c)
    (script : List WEv) (hnf : NoFail script = true) :
    ∃ (k : Nat) (pre : Bytes), k ≤ frames.length ∧
      segs.flatten = stream ((frames.take k).map (·.2)) ++ pre ∧
      (∀ x xs, frames.drop k = x :: xs → pre.length < (encCmd x.2).length) ∧
      (runW cfg (srvExec R) (srvInit R frames) script segs none).out =
        wire (specRun Redis.init (frames.take k)).2 := by
  obtain ⟨done, left, pre, e1, e2, e3, _, e5⟩ := C04.nothing_withheld SrvSt (srvExec R) (srvInit R frames) cfg h14 hc hd
    (frames.map (·.2)) segs rest script hseg hsm hmax hok hnf
  -- `done` is the image of a prefix of `frames`
  have hk : done = (frames.take done.length).map (·.2) ∧ left = (frames.drop done.length).map (·.2) := by
    have h1 : (frames.map (·.2)).take done.length = done := by rw [e1]; simp
    have h2 : (frames.map (·.2)).drop done.length = left := by rw [e1]; simp
    have m1 : (frames.take done.length).map (·.2) = (frames.map (·.2)).take done.length := by simp [List.map_take]
    have m2 : (frames.drop done.length).map (·.2) = (frames.map (·.2)).drop done.length := by simp [List.map_drop]
    exact ⟨by rw [m1]; exact h1.symm, by rw [m2]; exact h2.symm⟩
  have hlen : done.length ≤ frames.length := by
    have := congrArg List.length e1; simp at this; omega
  generalize done.length = n at hk hlen
  refine ⟨n, pre, hlen, by rw [← hk.1]; exact e2, ?_, ?_⟩
  · intro x xs hx
    apply e3 x.2 (xs.map (·.2))
    rw [hk.2, hx]; rfl
  · -- the bytes: the node on the prefix
    have hpre : ∀ x ∈ frames.take n, x ∈ frames := fun x hx => List.mem_of_mem_take hx
    have hmp : MonoF 0 (frames.take n) := by
      have : ∀ (l : List (Nat × Frame)) (t n : Nat), MonoF t l → MonoF t (l.take n) := by
        intro l
        induction l with
        | nil => intro t n _; simp [MonoF]
        | cons y ys ih =>
          intro t n h
          cases n with
          | zero => simp [MonoF]
          | succ n => obtain ⟨a, b⟩ := y; exact ⟨h.1, ih a n h.2⟩
      exact this frames 0 _ hm
    obtain ⟨q, _, _⟩ := server_refines_m7 R hv hN (fun _ => .generic) (frames.take n) hmp
      (fun x hx => hs x (hpre x hx))
    have hob : outBytes (run R (fun _ => .generic) (Shards.init Redis.Entry R.N) (frames.take n)).2 =
        some (wire (specRun Redis.init (frames.take n)).2) := by
      rw [q]; exact outBytes_of_answered _ Redis.init (fun x hx => ha x (hpre x hx))
    rw [e5, hk.1]
    -- the clock readings beyond the prefix are never consulted
    have gen : ∀ (fs : List (Nat × Frame)) (st : Shards Redis.Entry) (last : Nat) (extra : List Nat) (bs : Bytes),
        outBytes (run R (fun _ => .generic) st fs).2 = some bs →
        replyBytes (srvExec R) ⟨st, fs.map (·.1) ++ extra, last⟩ ((fs.map (·.2)).map cmdFrame) = bs := by
      intro fs
      induction fs with
      | nil => intro st last extra bs h; simp [run, outBytes] at h; subst h; rfl
      | cons x xs ih =>
        intro st last extra bs h
        obtain ⟨now, f⟩ := x
        simp only [run] at h
        cases ho : (handle R (fun _ => .generic) st now f).2 with
        | bytes b =>
          rw [ho] at h
          simp only [outBytes] at h
          cases hr : outBytes (run R (fun _ => .generic) (handle R (fun _ => .generic) st now f).1 xs).2 with
          | none => rw [hr] at h; cases h
          | some rs =>
            rw [hr] at h
            simp only [Option.map] at h
            injection h with h
            obtain ⟨e1', e2'⟩ := handle_replyOf R (fun _ => .generic) st now f b ho
            simp only [List.map_cons, List.cons_append, replyBytes, srvExec, frameOf_cmdFrame, classOf,
              SrvSt.now, List.headD_cons, SrvSt.next, List.tail_cons]
            rw [e2', e1', ih _ now extra rs hr, h]
        | crash => rw [ho] at h; cases h
        | outside => rw [ho] at h; cases h
        | unmapped => rw [ho] at h; cases h
    have hticks : frames.map (·.1) = (frames.take n).map (·.1) ++ (frames.drop n).map (·.1) := by
      rw [← List.map_append, List.take_append_drop]
    show replyBytes (srvExec R) ⟨Shards.init Redis.Entry R.N, frames.map (·.1), 0⟩ _ = _
    rw [hticks]
    exact gen _ _ 0 _ _ hob

/-- **bytes after the pipeline never alter earlier replies**: whatever follows a pipeline on the
    connection — more frames `more` — the bytes written for the pipeline itself are a prefix of the
    bytes written for the longer stream, unchanged -/
theorem node_later_bytes_do_not_alter_earlier_replies (R : Routes) (hv : R.Valid) (hN : 0 < R.N)
    (cfg : Config) (h14 : Conn.DeadCfg cfg) (hc : cfg.codec = codec1) (hd : 1 ≤ cfg.env.depth)
    (frames more : List (Nat × Frame)) (hm : MonoF 0 (frames ++ more))
    (hs : ∀ x ∈ frames ++ more, Supported R x.2 = true) (ha : ∀ x ∈ frames ++ more, Answered x.2 = true)
    (segs : List Bytes) (hseg : segs.flatten = stream ((frames ++ more).map (·.2)))
    (hsm : Small (stream ((frames ++ more).map (·.2))))
    (hmax : (stream ((frames ++ more).map (·.2))).length ≤ cfg.maxBuffer)
    (hok : ∀ c ∈ (frames ++ more).map (·.2), CmdOK cfg c)
    (script : List WEv) (hnf : NoFail script = true) :
    wire (specRun Redis.init frames).2 <+:
      (runW cfg (srvExec R) (srvInit R (frames ++ more)) script segs none).out := by
  obtain ⟨e, _⟩ := node_end_to_end R hv hN cfg h14 hc hd (frames ++ more) hm hs ha segs hseg hsm hmax hok script hnf
  rw [e, specRun_append, wire_append]
  exact List.prefix_append _ _

end Server
end RedisVerif
