import RedisVerif.Lemmas.ExecutorMove

/-!
  C01 — the EXECUTOR AS IT IS refines the reference model.

  `Model.Executor` / `Model.ExecutorColl` transcribe `CommandExecutor` (two maps `data` / `expirations`,
  lazy expiry by `get_value`, `set_time` / `update_time_readonly`, every `execute_*` with its own order
  of checks and its own i64 / u64 arithmetic).  The theorems below say that, from every state that
  satisfies the executor's own invariant (`CInv` = `verify_invariants` of mod.rs, which only debug builds
  run, plus the number ranges), for every clock value and every command of M7's command set (80 commands, 8 families)

    * the reply is M7's reply,
    * the visible keyspace afterwards (keys, types, values, remaining TTLs) is M7's,
    * the invariant holds again, no overflow-checked arithmetic traps,

  EXCEPT where the two recorded findings say: `GETSET` (deadline kept) and `GETRANGE` (inverted negative
  range) behave as `Model.ExecutorCode` describes (`execDev`); `Props/C01Data.lean` characterises those
  two deviations exactly.  Hence C01's conformance of these commands rests on this theorem plus the tie
  of the transcription to the real code (`XC` lines: reply, physical key set, `expirations.len()` after
  every command of every generated sequence), not on sampling the comparison with M7 alone.
-/
set_option linter.unusedSimpArgs false
set_option linter.unusedVariables false

namespace RedisVerif.C01Exec
open RedisVerif RedisVerif.Redis RedisVerif.Executor

/-- what the parsers guarantee about a command: integer arguments are i64 (the `Command` fields are),
    EXPIRE / PEXPIRE flags are compatible (refused with an error before the executor is reached),
    EXPIREAT / PEXPIREAT carry no flags (the variants have none), the variadic commands have at least one
    element (arity check), ZADD's flags are compatible -/
def CmdOk : Cmd → Prop
  | .set _ _ _ e _ => SetExpOk e
  | .getex _ o => GetExOk o
  | .expire _ v f | .pexpire _ v f => I64 v ∧ flagsCompatible f = true
  | .expireat _ v f | .pexpireat _ v f => I64 v ∧ f = noFlags
  | .lpush _ vs | .rpush _ vs => vs ≠ []
  | .sadd _ ms => ms ≠ []
  | .hset _ fvs => fvs ≠ []
  | .zadd _ f ps => ps ≠ [] ∧ zflagsCompatible f = true
  | .hincrby _ _ d => I64 d
  | _ => True

instance : DecidablePred CmdOk := fun c => by
  cases c <;> unfold CmdOk <;> infer_instance

/-- EXPIRETIME adds 500 with `saturating_add`: the deadline read must leave room for it -/
def Room (cs : CState) : Cmd → Prop
  | .expiretime k => ∀ d, NMap.get cs.exp k = some d → cs.epoch + d + 500 ≤ 9223372036854775807
  | _ => True

/-- M7's `exec` with the two recorded deviations of the code (known findings
    C01:getset-keeps-deadline, C01:getrange-negative-inverted) -/
def execDev (s : State) (now : Nat) : Cmd → State × Reply
  | .getset k v => ExecutorCode.codeGetSet s k v
  | .getrange k a b => ExecutorCode.codeGetRange s k a b
  | c => exec s now c

def stepDev (s : State) (now : Nat) (c : Cmd) : State × Reply := execDev (purge s now) now c

def Deviates : Cmd → Bool
  | .getset _ _ | .getrange _ _ _ => true
  | _ => false

theorem stepDev_eq_step {c : Cmd} (h : Deviates c = false) (s : State) (now : Nat) :
    stepDev s now c = step s now c := by
  unfold stepDev step execDev
  cases c <;> simp_all [Deviates]

/-! ## one command -/

/-- **Refinement, one command.**  On every state satisfying the executor's invariant the transcribed
    `execute` does not trap, answers what M7 (with the two recorded deviations) answers on the visible
    keyspace, leaves M7's visible keyspace, keeps the invariant, and touches neither clock nor epoch. -/
theorem executor_exec_refines {cs : CState} (h : CInv cs) (c : Cmd)
    (hc : CmdOk c) (hr : Room cs c) :
    ∃ res, execC cs c = some res ∧ SimF cs (fun s => execDev s (unix cs) c) res := by
  cases c
  case get k => exact ⟨_, rfl, cGet_sim h k⟩
  case set k v cnd e g => exact cSet_sim h k v cnd e g hc
  case setnx k v => exact ⟨_, rfl, cSetNx_sim h k v⟩
  case append k v => exact ⟨_, rfl, cAppend_sim h k v⟩
  case getset k v => exact ⟨_, rfl, cGetSet_sim h k v⟩
  case strlen k => exact ⟨_, rfl, cStrLen_sim h k⟩
  case mget ks => exact ⟨_, rfl, cMGet_sim h ks⟩
  case mset kvs => exact ⟨_, rfl, cMSet_sim h kvs⟩
  case msetnx kvs => exact ⟨_, rfl, cMSetNx_sim h kvs⟩
  case getrange k a b => exact ⟨_, rfl, cGetRange_sim h k a b⟩
  case setrange k off v => exact ⟨_, rfl, cSetRange_sim h k off v⟩
  case getex k o => exact cGetEx_sim h k o hc
  case getdel k => exact ⟨_, rfl, cGetDel_sim h k⟩
  case incr k => exact ⟨_, rfl, cIncrBy_sim h k 1⟩
  case decr k => exact ⟨_, rfl, cIncrBy_sim h k (-1)⟩
  case incrby k d => exact ⟨_, rfl, cIncrBy_sim h k d⟩
  case decrby k d => exact ⟨_, rfl, cDecrBy_sim h k d⟩
  case del ks => exact ⟨_, rfl, cDel_sim h ks⟩
  case «exists» ks => exact ⟨_, rfl, cExists_sim h ks⟩
  case type k => exact ⟨_, rfl, cType_sim h k⟩
  case keys => exact ⟨_, rfl, cKeys_sim h⟩
  case dbsize => exact ⟨_, rfl, cDbSize_sim h⟩
  case flushdb => exact ⟨_, rfl, cFlush_sim h⟩
  case flushall => exact ⟨_, rfl, cFlushAll_sim h⟩
  case randomkey ch => exact ⟨_, rfl, cRandomKey_sim h ch⟩
  case rename a b => exact ⟨_, rfl, cRename_sim h a b⟩
  case renamenx a b => exact ⟨_, rfl, cRenameNx_sim h a b⟩
  case expire k v f => exact cExpire_sim h k v f hc.1 hc.2
  case pexpire k v f => exact cPExpire_sim h k v f hc.1 hc.2
  case expireat k v f =>
    obtain ⟨h1, h2⟩ := hc
    subst h2
    exact ⟨_, rfl, cExpireAt_sim h k v h1⟩
  case pexpireat k v f =>
    obtain ⟨h1, h2⟩ := hc
    subst h2
    exact ⟨_, rfl, cPExpireAt_sim h k v h1⟩
  case ttl k => exact ⟨_, rfl, cTtl_sim h k⟩
  case pttl k => exact ⟨_, rfl, cPTtl_sim h k⟩
  case expiretime k => exact ⟨_, rfl, cExpireTime_sim h k hr⟩
  case pexpiretime k => exact ⟨_, rfl, cPExpireTime_sim h k⟩
  case persist k => exact ⟨_, rfl, cPersist_sim h k⟩
  case lpush k vs => exact ⟨_, rfl, cPush_sim h .left k vs hc⟩
  case rpush k vs => exact ⟨_, rfl, cPush_sim h .right k vs hc⟩
  case lpop k => exact ⟨_, rfl, cPop_sim h .left k⟩
  case rpop k => exact ⟨_, rfl, cPop_sim h .right k⟩
  case llen k => exact ⟨_, rfl, cLLen_sim h k⟩
  case lindex k i => exact ⟨_, rfl, cLIndex_sim h k i⟩
  case lrange k a b => exact ⟨_, rfl, cLRange_sim h k a b⟩
  case lset k i v => exact ⟨_, rfl, cLSet_sim h k i v⟩
  case ltrim k a b => exact ⟨_, rfl, cLTrim_sim h k a b⟩
  case rpoplpush a b => exact ⟨_, rfl, cLMove_sim h a b .right .left⟩
  case lmove a b f t => exact ⟨_, rfl, cLMove_sim h a b f t⟩
  case sadd k ms => exact ⟨_, rfl, cSAdd_sim h k ms hc⟩
  case srem k ms => exact ⟨_, rfl, cSRem_sim h k ms⟩
  case smembers k => exact ⟨_, rfl, cSMembers_sim h k⟩
  case sismember k m => exact ⟨_, rfl, cSIsMember_sim h k m⟩
  case scard k => exact ⟨_, rfl, cSCard_sim h k⟩
  case spop k n ch =>
    cases n with
    | none => exact ⟨_, rfl, cSPop1_sim h k ch⟩
    | some n => exact ⟨_, rfl, cSPopN_sim h k n ch⟩
  case hset k fvs => exact ⟨_, rfl, cHSet_sim h k fvs hc⟩
  case hget k f => exact ⟨_, rfl, cHGet_sim h k f⟩
  case hdel k fs => exact ⟨_, rfl, cHDel_sim h k fs⟩
  case hgetall k => exact ⟨_, rfl, cHGetAll_sim h k⟩
  case hkeys k => exact ⟨_, rfl, cHKeys_sim h k⟩
  case hvals k => exact ⟨_, rfl, cHVals_sim h k⟩
  case hlen k => exact ⟨_, rfl, cHLen_sim h k⟩
  case hexists k f => exact ⟨_, rfl, cHExists_sim h k f⟩
  case hincrby k f d => exact ⟨_, rfl, cHIncrBy_sim h k f d hc⟩
  case zadd k f ps => exact ⟨_, rfl, cZAdd_sim h k f ps hc.1 hc.2⟩
  case zrem k ms => exact ⟨_, rfl, cZRem_sim h k ms⟩
  case zrange k a b ws => exact ⟨_, rfl, cZRange_sim h k a b ws false⟩
  case zrevrange k a b ws => exact ⟨_, rfl, cZRange_sim h k a b ws true⟩
  case zscore k m => exact ⟨_, rfl, cZScore_sim h k m⟩
  case zrank k m => exact ⟨_, rfl, cZRank_sim h k m⟩
  case zcard k => exact ⟨_, rfl, cZCard_sim h k⟩
  case zcount k lo hi => exact ⟨_, rfl, cZCount_sim h k lo hi⟩
  case zrangebyscore k lo hi ws lim => exact ⟨_, rfl, cZRangeByScore_sim h k lo hi ws lim⟩
  case sort k st => exact ⟨_, rfl, cSort_sim h k st⟩

/-! ## the simulation relation, the clock, whole histories -/

/-- the executor state `cs` and the M7 state `s` show the same keyspace at the executor's instant -/
def R (cs : CState) (s : State) : Prop := CInv cs ∧ absP cs = purge s (unix cs)

theorem executor_init (epoch : Nat) (h : epoch ≤ 9223372036854775807) : R (CState.new epoch) Redis.init :=
  ⟨⟨NMap.wf_nil, NMap.wf_nil, (fun k hk => by simp [CState.new] at hk), (fun p hp => by cases hp),
    (by simp [CState.new]; exact h), (fun k d hd => by simp [CState.new] at hd)⟩, rfl⟩

/-- **One step.**  Related states stay related under every command; the reply is M7's. -/
theorem executor_step_refines {cs : CState} {s : State} (hR : R cs s) (c : Cmd)
    (hc : CmdOk c) (hr : Room cs c) :
    ∃ cs' r, execC cs c = some (cs', r) ∧ r = (stepDev s (unix cs) c).2 ∧
      R cs' (stepDev s (unix cs) c).1 ∧ cs'.now = cs.now ∧ cs'.epoch = cs.epoch := by
  obtain ⟨res, he, h1, h2, h3, h4, h5⟩ := executor_exec_refines hR.1 c hc hr
  have hu : unix res.1 = unix cs := by simp [unix, h4, h5]
  refine ⟨res.1, res.2, he, ?_, ⟨h3, ?_⟩, h4, h5⟩
  · rw [h1]; unfold stepDev; rw [← hR.2]
  · rw [h2, hu]; unfold stepDev; rw [← hR.2]

/-- **The clock.**  Moving the clock forward — with eviction (`set_time`, `evict_expired_direct`) or
    without (`update_time_readonly`: the dead keys stay physically present) — keeps the relation: lazy
    and active expiry are indistinguishable. -/
theorem executor_clock_refines {cs : CState} {s : State} (hR : R cs s) {t : Nat} (hle : cs.now ≤ t)
    (ht : cs.epoch + t ≤ 9223372036854775807) :
    R (setTime cs t) s ∧ R (updateTimeReadonly cs t) s := by
  have hU : unix cs ≤ cs.epoch + t := by unfold unix; omega
  constructor
  · refine ⟨setTime_inv hR.1 ht, ?_⟩
    rw [setTime_absP hR.1 hle ht, hR.2, purge_purge_le s hU]
    rfl
  · refine ⟨clockRO_inv hR.1 ht, ?_⟩
    rw [clockRO_absP cs hle, hR.2, purge_purge_le s hU]
    rfl

/-- after `set_time` no stored deadline has been reached (invariant 2 of `verify_invariants`) -/
theorem executor_set_time_evicts {cs : CState} (h : CInv cs) {t : Nat}
    (ht : cs.epoch + t ≤ 9223372036854775807) (k d : Nat)
    (hd : NMap.get (setTime cs t).exp k = some d) : t < d :=
  evict_all_future (clockRO_inv h ht) k d hd

/-- one event of a history: the clock is moved to `t` (`evict` = through `set_time`), then `c` runs -/
structure Ev where
  t : Nat
  evict : Bool
  c : Cmd

def moveClock (cs : CState) (e : Ev) : CState :=
  if e.evict then setTime cs e.t else updateTimeReadonly cs e.t

/-- the executor over a history; `none` = a trap -/
def runC : CState → List Ev → Option (CState × List Reply)
  | cs, [] => some (cs, [])
  | cs, e :: es =>
    match execC (moveClock cs e) e.c with
    | none => none
    | some (c2, r) =>
      match runC c2 es with
      | none => none
      | some (c3, rs) => some (c3, r :: rs)

/-- M7 (with the two recorded deviations) over the same history, on Unix time -/
def runDev (epoch : Nat) : State → List Ev → State × List Reply
  | s, [] => (s, [])
  | s, e :: es =>
    ((runDev epoch (stepDev s (epoch + e.t) e.c).1 es).1,
     (stepDev s (epoch + e.t) e.c).2 :: (runDev epoch (stepDev s (epoch + e.t) e.c).1 es).2)

/-- a history the theorem speaks about: the clock never goes back and stays inside i64 (with the
    epoch), every command is well-formed (EXPIRETIME is covered by the one-step
    theorem, where its room for `+500` can be stated on the state) -/
def isExpireTime : Cmd → Bool
  | .expiretime _ => true
  | _ => false

def EvsOk (epoch : Nat) : Nat → List Ev → Prop
  | _, [] => True
  | now, e :: es =>
    now ≤ e.t ∧ epoch + e.t ≤ 9223372036854775807 ∧ CmdOk e.c ∧
      isExpireTime e.c = false ∧ EvsOk epoch e.t es

instance (epoch : Nat) : ∀ (now : Nat) (es : List Ev), Decidable (EvsOk epoch now es)
  | _, [] => by unfold EvsOk; infer_instance
  | now, e :: es => by
    unfold EvsOk
    have := instDecidableEvsOk epoch e.t es
    infer_instance

/-- **Whole histories.**  For every history of clock moves (lazy or evicting, in any mixture) and
    commands, from related states: the executor never traps, its replies are exactly M7's (with the two
    recorded deviations), and the final states are related. -/
theorem executor_run_refines (es : List Ev) : ∀ {cs : CState} {s : State}, R cs s → EvsOk cs.epoch cs.now es →
    ∃ cs' rs, runC cs es = some (cs', rs) ∧ rs = (runDev cs.epoch s es).2 ∧
      R cs' (runDev cs.epoch s es).1 ∧ cs'.epoch = cs.epoch := by
  induction es with
  | nil => intro cs s hR _; exact ⟨cs, [], rfl, rfl, hR, rfl⟩
  | cons e es ih =>
    intro cs s hR hok
    obtain ⟨h1, h2, h4, h5, h6⟩ := hok
    have hclk := executor_clock_refines hR h1 h2
    have hR1 : R (moveClock cs e) s := by
      unfold moveClock; cases e.evict
      · exact hclk.2
      · exact hclk.1
    have hnow : (moveClock cs e).now = e.t := by unfold moveClock; cases e.evict <;> rfl
    have hep : (moveClock cs e).epoch = cs.epoch := by unfold moveClock; cases e.evict <;> rfl
    have hroom : Room (moveClock cs e) e.c := by
      cases hc : e.c <;> simp only [Room]
      case expiretime k => rw [hc] at h5; cases h5
    obtain ⟨c2, r, he, hr, hR2, hn2, he2⟩ := executor_step_refines hR1 e.c h4 hroom
    have hux : unix (moveClock cs e) = cs.epoch + e.t := by simp [unix, hnow, hep]
    rw [hux] at hr hR2
    have hok2 : EvsOk c2.epoch c2.now es := by rw [he2, hn2, hep, hnow]; exact h6
    obtain ⟨c3, rs, hrun, hrs, hR3, he3⟩ := ih hR2 hok2
    rw [he2, hep] at hrs hR3 he3
    refine ⟨c3, r :: rs, ?_, ?_, ?_, he3⟩
    · simp only [runC, he, hrun]
    · simp only [runDev]; rw [hr, hrs]
    · simp only [runDev]; exact hR3

/-- the histories without a deviating command are M7's `Redis.run` itself -/
def toTimed (epoch : Nat) (es : List Ev) : List (Nat × Cmd) := es.map (fun e => (epoch + e.t, e.c))

theorem runDev_eq_run (epoch : Nat) (es : List Ev) (hd : ∀ e ∈ es, Deviates e.c = false) :
    ∀ s, runDev epoch s es = Redis.run s (toTimed epoch es) := by
  induction es with
  | nil => intro s; rfl
  | cons e es ih =>
    intro s
    have h1 := stepDev_eq_step (hd e (List.mem_cons_self ..)) s (epoch + e.t)
    have ih' := ih (fun e' he' => hd e' (List.mem_cons_of_mem _ he'))
    simp only [runDev, toTimed, List.map_cons, Redis.run, h1]
    rw [ih' (step s (epoch + e.t) e.c).1]
    rfl

/-- **Conformance of the executor, from the empty database.**  Every history of well-formed commands of
    M7's command set other than GETSET / GETRANGE, with any clock moves: the executor's replies are
    the reference model's, and what a client can see afterwards is the reference model's keyspace. -/
theorem executor_conforms (epoch : Nat) (he : epoch ≤ 9223372036854775807) (es : List Ev)
    (hok : EvsOk epoch 0 es) (hd : ∀ e ∈ es, Deviates e.c = false) :
    ∃ cs' rs, runC (CState.new epoch) es = some (cs', rs) ∧
      rs = (Redis.run Redis.init (toTimed epoch es)).2 ∧
      absP cs' = purge (Redis.run Redis.init (toTimed epoch es)).1 (unix cs') := by
  obtain ⟨cs', rs, h1, h2, h3, h4⟩ := executor_run_refines es (executor_init epoch he) hok
  rw [show (CState.new epoch).epoch = epoch from rfl, runDev_eq_run epoch es hd] at h2 h3
  exact ⟨cs', rs, h1, h2, h3.2⟩

/-- non-vacuity: a history with lazy expiry, SET options, EXPIRE flags, a stale deadline -/
example : EvsOk 1000 0
    [⟨5, true, .set 1 [1] .always (.px 10) false⟩, ⟨20, false, .set 1 [2] .xx .keepttl true⟩,
     ⟨20, false, .expire 1 100 ⟨false, false, true, false⟩⟩, ⟨21, true, .ttl 1⟩] := by decide

end RedisVerif.C01Exec
