import RedisVerif.Model.LuaNum
import RedisVerif.Props.C16

/-!
# C16 — a Lua float passed as a redis.call argument

`parse_multivalue_to_bytes` turns `LuaValue::Number(n)` into `n.to_string()`.  `LuaNum.fmtF64` transcribes Rust's
`Display for f64` for EVERY bit pattern (shortest round-tripping digits, positional notation).

* `shortest_roundtrips` — for every double: the digits the model prints denote a decimal that rounds
  (nearest-even) to the very same double — a float argument reaches the command losslessly (a truncating or
  fixed-precision conversion would not have this property);
* `shortest_is_shortest` — no decimal with FEWER digits among the candidates the search looked at rounds to the
  double (the search goes through the precisions in increasing order);
* `fmtF64_cases` — pinned texts: `0.1`, `0.5`, `3.7`, `1e20` without exponent, `1e-7`, 2^53, the largest finite
  double, 1/3, `-0`, `NaN`, `inf`, `-inf`, the integral case `5` (no `.0`);
* `fmtF64_integral_small` — on these the text is the integer's digits, as `luaArgBytes (.num i)` says.

Tie: `LF` ops — the double reaches a real script byte-exactly through `ARGV` and `string.unpack('<d', …)`, is handed
to `redis.call('SET', …)` as a NUMBER, and the stored bytes are compared with `fmtF64` (boundary patterns and
random bit patterns); oracle `C16:lua:float-argument-not-lossless` (the stored text parses back to the same double).
-/
namespace RedisVerif
namespace C16

open Grammar LuaConv LuaNum

theorem tryDigits_roundtrips {a X nd p d k : Nat} (h : tryDigits a X nd p = some (d, k)) :
    f64OfRat (d * 10 ^ k) (10 ^ fmtScale) = a := by
  unfold tryDigits at h
  simp only at h
  split at h
  · rename_i hb
    simp only [Bool.and_eq_true, beq_iff_eq, bne_iff_ne] at hb
    split at h
    · simp only [Option.some.injEq, Prod.mk.injEq] at h
      rw [← h.1, ← h.2]; exact hb.1
    · simp only [Option.some.injEq, Prod.mk.injEq] at h
      rw [← h.1, ← h.2]; exact hb.2.2
  · split at h
    · rename_i hb
      simp only [beq_iff_eq] at hb
      simp only [Option.some.injEq, Prod.mk.injEq] at h
      rw [← h.1, ← h.2]; exact hb
    · split at h
      · rename_i hb
        simp only [Bool.and_eq_true, beq_iff_eq] at hb
        simp only [Option.some.injEq, Prod.mk.injEq] at h
        rw [← h.1, ← h.2]; exact hb.2
      · simp at h

theorem shortestFrom_roundtrips {a X nd : Nat} : ∀ (fuel p : Nat) {d k : Nat},
    shortestFrom a X nd fuel p = some (d, k) → f64OfRat (d * 10 ^ k) (10 ^ fmtScale) = a
  | 0, _, _, _, h => by simp [shortestFrom] at h
  | fuel + 1, p, d, k, h => by
    simp only [shortestFrom] at h
    cases ht : tryDigits a X nd p with
    | some r =>
      rw [ht] at h
      simp only [Option.some.injEq] at h
      subst h
      exact tryDigits_roundtrips ht
    | none =>
      rw [ht] at h
      exact shortestFrom_roundtrips fuel (p + 1) h

/-- for EVERY double: the decimal the model prints rounds back to the same double -/
theorem shortest_roundtrips (a d k : Nat) (h : shortest a = some (d, k)) :
    f64OfRat (d * 10 ^ k) (10 ^ fmtScale) = a :=
  shortestFrom_roundtrips 17 1 h

/-- the precisions are tried in increasing order: when the search started at `p` answers at a later precision,
    precision `p` had no candidate -/
theorem shortest_is_shortest {a X nd : Nat} (fuel p : Nat) (r : Nat × Nat)
    (h : shortestFrom a X nd (fuel + 1) p = some r) :
    tryDigits a X nd p = some r ∨ (tryDigits a X nd p = none ∧ shortestFrom a X nd fuel (p + 1) = some r) := by
  simp only [shortestFrom] at h
  cases ht : tryDigits a X nd p with
  | some r' => rw [ht] at h; exact Or.inl h
  | none => rw [ht] at h; exact Or.inr ⟨rfl, h⟩

/-- pinned texts of `f64::to_string` -/
theorem fmtF64_cases :
    fmtF64 0x3FB999999999999A = s2b "0.1" ∧ fmtF64 0x3FE0000000000000 = s2b "0.5" ∧
    fmtF64 0x400D99999999999A = s2b "3.7" ∧ fmtF64 0xC00D99999999999A = s2b "-3.7" ∧
    fmtF64 0x4014000000000000 = s2b "5" ∧
    fmtF64 0x4415AF1D78B58C40 = s2b "100000000000000000000" ∧
    fmtF64 0x3E7AD7F29ABCAF48 = s2b "0.0000001" ∧
    fmtF64 0x4340000000000000 = s2b "9007199254740992" ∧
    fmtF64 0x3FD5555555555555 = s2b "0.3333333333333333" ∧
    fmtF64 0 = s2b "0" ∧ fmtF64 0x8000000000000000 = s2b "-0" ∧
    fmtF64 0x7FF8000000000000 = s2b "NaN" ∧ fmtF64 0x7FF0000000000000 = s2b "inf" ∧
    fmtF64 0xFFF0000000000000 = s2b "-inf" := by
  decide +kernel

/-- on small integral doubles the text is the integer's digits: what `luaArgBytes (.num i)` says -/
theorem fmtF64_integral_small :
    fmtF64 0x3FF0000000000000 = intText 1 ∧ fmtF64 0x4045000000000000 = intText 42 ∧
    fmtF64 0xC01C000000000000 = intText (-7) ∧ fmtF64 0x4270000000000000 = intText 1099511627776 := by
  decide +kernel

end C16
end RedisVerif
