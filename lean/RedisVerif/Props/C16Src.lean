import RedisVerif.Model.GrammarSrc
import RedisVerif.Model.GrammarShapesNF
import RedisVerif.Props.C16Shape

/-!
# C16 — the grammar tables REGENERATED from the source on every run

`./check C16` translates the match arms of `parser.rs`, `commands.rs` and `parse_lua_command_bytes` into three
lists of first-order shape rows (`Grammar.SRow`: arity rule and text, constructors, slot kinds with their own
error texts, optional slots, tail, option table, unknown-word policy, literals and conflict rules of the finishing
checks) and writes them as a Lean file (`GrammarSrcGen.lean`, next to the run's op files).  That file proves, by
kernel evaluation, `zcRows = respRows` (the two RESP parsers translate to the SAME table), `rowsDescribe respRows
(shapeRows table)` and `rowsDescribe luaRows (shapeRows luaTable)` (the regenerated tables describe the
hand-written ones, row by row, whatever the order of the match arms) and instantiates the theorems below, which
say what the REGENERATED rows then mean for every frame:

* `resp_governed` / `resp_governed_sub` / `lua_governed` — for every frame whose command has a table entry there is
  a row of the regenerated table with that name whose arity rule and arity text decide acceptance exactly as
  `parseCmd` / `parseLua` do, and whose slots / optional slots / tail / option table are the shape of the generic body
  that runs (`runGen` over a descriptor the row `describes`);
* `src_arity_exact` — the arity error is answered exactly when the REGENERATED row's rule refuses the count, with the
  REGENERATED text;
* `src_alphabet` — everything the grammar answers for the command is named by the regenerated row: one of its
  constructors, its arity text, one of its error texts (slot, option value, missing value, unknown word, finishing
  checks) or a text starting with one of its `format!` prefixes;
* `parsers_agree_src` — if the zero-copy parser's regenerated table equals `from_resp`'s, both describe the one
  grammar that `parseCmd` and `parseCmdZc` are (`parsers_agree`).

The hand-written table stays the model the other C16 theorems are about; the regenerated one is the cross-check
that it is what the source says on THIS run (translator route; the translator itself — a pattern-based reader of
Rust match arms — is trusted, reports syntax it does not read, and is exercised by the differential run).
-/
namespace RedisVerif
namespace C16

open Grammar

/-! ## list helpers -/

theorem all2_length {α β : Type} {p : α → β → Bool} : ∀ {a : List α} {b : List β}, all2 p a b = true → a.length = b.length
  | [], [], _ => rfl
  | _ :: as, _ :: bs, h => by
    simp only [all2, Bool.and_eq_true] at h
    simp [all2_length h.2]
  | [], _ :: _, h => by simp [all2] at h
  | _ :: _, [], h => by simp [all2] at h

/-- pointwise: every element of the right list has its partner on the left -/
theorem all2_right {α β : Type} {p : α → β → Bool} : ∀ {a : List α} {b : List β}, all2 p a b = true →
    ∀ y ∈ b, ∃ x ∈ a, p x y = true
  | [], [], _ => by intro y hy; simp at hy
  | x :: as, z :: bs, h => by
    simp only [all2, Bool.and_eq_true] at h
    intro y hy
    rcases List.mem_cons.mp hy with rfl | hy
    · exact ⟨x, by simp, h.1⟩
    · obtain ⟨x', hx', hp⟩ := all2_right h.2 y hy
      exact ⟨x', by simp [hx'], hp⟩
  | [], _ :: _, h => by simp [all2] at h
  | _ :: _, [], h => by simp [all2] at h

theorem sameUpToOrder_right {α β : Type} {p : α → β → Bool} {a : List α} {b : List β}
    (h : sameUpToOrder p a b = true) : ∀ y ∈ b, ∃ x ∈ a, p x y = true := by
  simp only [sameUpToOrder, Bool.and_eq_true, List.all_eq_true, List.any_eq_true] at h
  exact fun y hy => h.2 y hy

theorem sameUpToOrder_left {α β : Type} {p : α → β → Bool} {a : List α} {b : List β}
    (h : sameUpToOrder p a b = true) : ∀ x ∈ a, ∃ y ∈ b, p x y = true := by
  simp only [sameUpToOrder, Bool.and_eq_true, List.all_eq_true, List.any_eq_true] at h
  exact fun x hx => h.1.2 x hx

/-! ## what `describes` gives -/

structure Described (r : SRow) (m : ShapeRow) : Prop where
  name : r.name = m.name
  arity : r.arity = m.arity
  aerr : r.aerr = m.arityErr
  ctors : sameUpToOrder (fun (a b : Bytes) => a == b) r.ctors m.gen.ctors = true
  slots : all2 SArg.fits r.slots m.gen.pre = true
  opt : all2 SArg.fits r.opt m.gen.opt = true
  tail : STail.fits r m.gen.tail = true
  flits : sameUpToOrder (fun (a : Bytes) (l : Lit) => a == l.text) r.flits m.gen.finLits = true
  checks : all2 (fun (s : SCond × Bytes) (c : Cond × Lit) => s.1.fits (tailOpts m.gen.tail) c.1 && s.2 == c.2.text)
    r.checks m.gen.checks = true

theorem described_of {r : SRow} {m : ShapeRow} (h : r.describes m = true) : Described r m := by
  simp only [SRow.describes, Bool.and_eq_true, beq_iff_eq] at h
  obtain ⟨⟨⟨⟨⟨⟨⟨⟨h1, h2⟩, h3⟩, h4⟩, h5⟩, h6⟩, h7⟩, h8⟩, h9⟩ := h
  exact ⟨h1, h2, h3, h4, h5, h6, h7, h8, h9⟩

/-- pointwise: every element of the left list has its partner on the right -/
theorem all2_left {α β : Type} {p : α → β → Bool} : ∀ {a : List α} {b : List β}, all2 p a b = true →
    ∀ x ∈ a, ∃ y ∈ b, p x y = true
  | [], [], _ => by intro x hx; simp at hx
  | z :: as, y :: bs, h => by
    simp only [all2, Bool.and_eq_true] at h
    intro x hx
    rcases List.mem_cons.mp hx with rfl | hx
    · exact ⟨y, by simp, h.1⟩
    · obtain ⟨y', hy', hp⟩ := all2_left h.2 x hx
      exact ⟨y', by simp [hy'], hp⟩
  | [], _ :: _, h => by simp [all2] at h
  | _ :: _, [], h => by simp [all2] at h

/-- every row of the model table is described by a row of the regenerated table -/
theorem described_row {src : List SRow} {model : List ShapeRow} (h : rowsDescribe src model = true)
    {m : ShapeRow} (hm : m ∈ model) : ∃ r ∈ src, Described r m := by
  obtain ⟨r, hr, hd⟩ := all2_right h m hm
  exact ⟨r, hr, described_of hd⟩

/-- and every row of the regenerated table describes a row of the model table: the source has no arm the model
    does not have -/
theorem describing_row {src : List SRow} {model : List ShapeRow} (h : rowsDescribe src model = true)
    {r : SRow} (hr : r ∈ src) : ∃ m ∈ model, Described r m := by
  obtain ⟨m, hm, hd⟩ := all2_left h r hr
  exact ⟨m, hm, described_of hd⟩

/-- the number of leading / optional slots of the generic body is the number the source row shows -/
theorem Described.slot_counts {r : SRow} {m : ShapeRow} (d : Described r m) :
    r.slots.length = m.gen.pre.length ∧ r.opt.length = m.gen.opt.length :=
  ⟨all2_length d.slots, all2_length d.opt⟩

/-! ## the regenerated rows govern every frame -/

/-- `Command::from_resp` on a command with a table entry: a row of the REGENERATED table has the command's
    name, its arity rule and text decide acceptance, and it describes the descriptor of the generic body that
    runs — for every frame -/
theorem resp_governed {src : List SRow} (h : rowsDescribe src (shapeRows table) = true)
    (name : Bytes) (args : List Bytes) (s : Spec) (hf : findEntry table (kw name) = some (.cmd s)) :
    ∃ r ∈ src, Described r (s.row []) ∧ r.name = kw name ∧
      parseCmd (name :: args) =
        if r.arity.ok args.length then liftB (runGen s.body.gen args) else .error (.arity r.aerr) := by
  obtain ⟨hm, hp⟩ := parse_is_generic name args s hf
  obtain ⟨r, hr, d⟩ := described_row h hm
  refine ⟨r, hr, d, ?_, ?_⟩
  · have := findEntry_name hf
    simp only [Entry.name] at this
    rw [d.name]
    simpa [Spec.row] using this
  · rw [hp, d.arity, d.aerr]
    rfl

/-- the same one level down (sub-commands of CONFIG / ACL / SCRIPT / FUNCTION / CLIENT / OBJECT / DEBUG): the row is
    named `FAMILY.SUB` -/
theorem resp_governed_sub {src : List SRow} (h : rowsDescribe src (shapeRows table) = true)
    (name sub : Bytes) (args : List Bytes) (fam aerr : Bytes) (subs : List Spec)
    (dflt : Bytes → List Bytes → Res) (s : Spec)
    (hf : findEntry table (kw name) = some (.family fam aerr subs dflt)) (hs : findSpec subs (kw sub) = some s) :
    ∃ r ∈ src, Described r (s.row (fam ++ [46])) ∧ r.name = fam ++ 46 :: s.name ∧
      parseCmd (name :: sub :: args) =
        if r.arity.ok args.length then liftB (runGen s.body.gen args) else .error (.arity r.aerr) := by
  obtain ⟨hm, hp⟩ := parse_is_generic_sub name sub args fam aerr subs dflt s hf hs
  obtain ⟨r, hr, d⟩ := described_row h hm
  refine ⟨r, hr, d, ?_, ?_⟩
  · rw [d.name]; simp [Spec.row]
  · rw [hp, d.arity, d.aerr]
    rfl

/-- the redis.call translator -/
theorem lua_governed {src : List SRow} (h : rowsDescribe src (shapeRows luaTable) = true)
    (name : Bytes) (args : List Bytes) (s : Spec) (hf : findEntry luaTable (kw name) = some (.cmd s)) :
    ∃ r ∈ src, Described r (s.row []) ∧ r.name = kw name ∧
      parseLua (name :: args) =
        if r.arity.ok args.length then liftB (runGen s.body.gen args) else .error (.arity r.aerr) := by
  obtain ⟨hm, hp⟩ := parseLua_is_generic name args s hf
  obtain ⟨r, hr, d⟩ := described_row h hm
  refine ⟨r, hr, d, ?_, ?_⟩
  · have := findEntry_name hf
    simp only [Entry.name] at this
    rw [d.name]
    simpa [Spec.row] using this
  · rw [hp, d.arity, d.aerr]
    rfl

/-- the arity decision table, read off the REGENERATED row: the arity error — with the regenerated text — is
    answered exactly when the regenerated rule refuses the argument count -/
theorem src_arity_exact {src : List SRow} (h : rowsDescribe src (shapeRows table) = true)
    (name : Bytes) (args : List Bytes) (s : Spec) (hf : findEntry table (kw name) = some (.cmd s)) :
    ∃ r ∈ src, r.name = kw name ∧
      (errText (parseCmd (name :: args)) = some r.aerr ↔ r.arity.ok args.length = false) := by
  obtain ⟨r, hr, d, hn, _⟩ := resp_governed h name args s hf
  refine ⟨r, hr, hn, ?_⟩
  have := arity_text_exact name args s hf
  rw [d.aerr, d.arity]
  simpa [Spec.row] using this

/-- a command name the regenerated table has no row for has no entry in the model table either (the model does not
    know more commands than the source) -/
theorem src_knows_every_model_command {src : List SRow} (h : rowsDescribe src (shapeRows table) = true)
    (name : Bytes) (s : Spec) (hf : findEntry table (kw name) = some (.cmd s)) :
    kw name ∈ src.map (·.name) := by
  obtain ⟨r, hr, _, hn, _⟩ := resp_governed h name [] s hf
  exact List.mem_map.mpr ⟨r, hr, hn⟩

/-! ## the alphabet of a command, read off the regenerated row -/

theorem fits_texts {s : SArg} {a : Arg} (h : s.fits a = true) : ∀ l ∈ argErrs a, l.text ∈ s.texts := by
  simp only [SArg.fits, Bool.and_eq_true, beq_iff_eq] at h
  obtain ⟨hk, he⟩ := h
  intro l hl
  unfold SArg.texts
  rw [he]
  cases ho : a.onErr with
  | some l' =>
    simp only [Option.map_some]
    unfold argErrs at hl
    rw [ho] at hl
    cases hkk : a.kind <;> rw [hkk] at hl <;> simp at hl <;> (first | (rcases hl with rfl | rfl) | skip) <;> simp_all
  | none =>
    simp only [Option.map_none]
    unfold argErrs at hl
    rw [ho] at hl
    have hk' : s.kind = .num ∨ s.kind = .k a.kind := by
      cases hs : s.kind with
      | num => exact Or.inl rfl
      | k b =>
        rw [hs] at hk
        simp only [SKind.fits, beq_iff_eq] at hk
        exact Or.inr (by rw [hk])
    cases hkk : a.kind <;> rw [hkk] at hl hk' <;> simp at hl <;>
      rcases hk' with hk' | hk' <;> rw [hk'] <;>
      (first | (rcases hl with rfl | rfl | rfl) | subst hl) <;> simp [kindTexts]

theorem all2_fits_texts {ss : List SArg} {as : List Arg} (h : all2 SArg.fits ss as = true) :
    ∀ l ∈ as.flatMap argErrs, l.text ∈ ss.flatMap SArg.texts := by
  intro l hl
  obtain ⟨a, ha, hla⟩ := List.mem_flatMap.mp hl
  obtain ⟨s, hs, hf⟩ := all2_right h a ha
  exact List.mem_flatMap.mpr ⟨s, hs, fits_texts hf l hla⟩

theorem opt_fits_texts {s : SOpt} {o : OptSpec} (h : s.fits o = true) :
    (∀ l ∈ o.vals.flatMap argErrs, l.text ∈ s.texts) ∧
    (∀ l, o.missing = .err l → l.text ∈ s.texts) ∧ s.reject = o.reject.map Fmt.pre := by
  simp only [SOpt.fits, Bool.and_eq_true, beq_iff_eq] at h
  obtain ⟨⟨⟨_, hv⟩, hm⟩, hr⟩ := h
  refine ⟨?_, ?_, hr⟩
  · intro l hl
    exact List.mem_append.mpr (Or.inl (all2_fits_texts hv l hl))
  · intro l hml
    unfold SMissing.fits at hm
    rw [hml] at hm
    simp only [Bool.and_eq_true, beq_iff_eq] at hm
    unfold SOpt.texts
    rw [hm.2]
    simp

/-- the literals of the model row's tail are texts of the source row; its formats are prefixes of the source row -/
theorem tail_fits_texts {r : SRow} {t : Tail} (hp : t.plain = true) (h : STail.fits r t = true) :
    (∀ l ∈ t.lits, l.text ∈ r.errTexts) ∧ (∀ f ∈ t.fmts, f.pre ∈ r.prefixes) := by
  cases t with
  | none => exact ⟨by intro l hl; simp [Tail.lits] at hl, by intro f hf; simp [Tail.fmts] at hf⟩
  | ignore => exact ⟨by intro l hl; simp [Tail.lits] at hl, by intro f hf; simp [Tail.fmts] at hf⟩
  | raw => exact ⟨by intro l hl; simp [Tail.lits] at hl, by intro f hf; simp [Tail.fmts] at hf⟩
  | many a =>
    refine ⟨?_, by intro f hf; simp [Tail.fmts] at hf⟩
    intro l hl
    simp only [STail.fits, Bool.and_eq_true] at h
    cases hrt : r.tail <;> rw [hrt] at h <;> simp at h
    rename_i s
    have := fits_texts h.1.1 l (by simpa [Tail.lits] using hl)
    simp [SRow.errTexts, hrt, STail.texts, this]
  | pairs a b =>
    refine ⟨?_, by intro f hf; simp [Tail.fmts] at hf⟩
    intro l hl
    simp only [STail.fits, Bool.and_eq_true] at h
    cases hrt : r.tail <;> rw [hrt] at h <;> simp at h
    rename_i s t'
    simp only [Tail.lits, List.mem_append] at hl
    rcases hl with hl | hl
    · have := fits_texts h.1.1.1 l hl
      simp [SRow.errTexts, hrt, STail.texts, this]
    · have := fits_texts h.1.1.2 l hl
      simp [SRow.errTexts, hrt, STail.texts, this]
  | flagsPairs fl odd a b =>
    refine ⟨?_, by intro f hf; simp [Tail.fmts] at hf⟩
    intro l hl
    simp only [STail.fits, Bool.and_eq_true] at h
    cases hrt : r.tail <;> rw [hrt] at h <;> simp at h
    rename_i s t' o
    simp only [Tail.lits, List.mem_cons, List.mem_append] at hl
    rcases hl with rfl | hl | hl
    · simp [SRow.errTexts, hrt, STail.texts, h.1.1.2]
    · have := fits_texts h.1.1.1.1 l hl
      simp [SRow.errTexts, hrt, STail.texts, this]
    · have := fits_texts h.1.1.1.2 l hl
      simp [SRow.errTexts, hrt, STail.texts, this]
  | scan tbl unk =>
    simp only [STail.fits, Bool.and_eq_true] at h
    obtain ⟨⟨_, ho⟩, hu⟩ := h
    have hplain : plainOpts' tbl = true := hp
    constructor
    · intro l hl
      simp only [Tail.lits, List.mem_append] at hl
      rcases hl with hl | hl
      · -- a literal of the option table
        unfold optErrs at hl
        obtain ⟨o, ho', hlo⟩ := List.mem_flatMap.mp hl
        obtain ⟨s, hs, hf⟩ := sameUpToOrder_right ho o ho'
        obtain ⟨hv, hm, _⟩ := opt_fits_texts hf
        have hin : l.text ∈ s.texts := by
          rcases List.mem_append.mp hlo with hlo | hlo
          · exact hv l hlo
          · cases hmm : o.missing with
            | err l' =>
              rw [hmm] at hlo
              simp only [List.mem_singleton] at hlo
              subst hlo
              exact hm l hmm
            | crash => rw [hmm] at hlo; simp at hlo
            | ignore => rw [hmm] at hlo; simp at hlo
        have : l.text ∈ r.opts.flatMap SOpt.texts := List.mem_flatMap.mpr ⟨s, hs, hin⟩
        simp [SRow.errTexts, this]
      · cases unk with
        | lit l' =>
          simp only [List.mem_singleton] at hl
          subst hl
          simp only [beq_iff_eq] at hu
          simp [SRow.errTexts, hu]
        | fmt f => simp at hl
    · intro f hf
      simp only [Tail.fmts, List.mem_append, List.mem_filterMap] at hf
      rcases hf with ⟨o, ho', hfo⟩ | hf
      · obtain ⟨s, hs, hfit⟩ := sameUpToOrder_right ho o ho'
        obtain ⟨_, _, hr⟩ := opt_fits_texts hfit
        have : f.pre ∈ r.opts.filterMap (·.reject) :=
          List.mem_filterMap.mpr ⟨s, hs, by rw [hr, hfo]; rfl⟩
        simp [SRow.prefixes, this]
      · cases unk with
        | lit l' => simp at hf
        | fmt f' =>
          simp only [List.mem_singleton] at hf
          subst hf
          simp only [beq_iff_eq] at hu
          simp [SRow.prefixes, hu]

/-- every literal / format / constructor of a described model row is named by the source row -/
theorem Described.alphabet {r : SRow} {m : ShapeRow} (d : Described r m) (hp : m.gen.tail.plain = true) :
    (∀ l ∈ m.gen.lits, l.text ∈ r.errTexts) ∧ (∀ f ∈ m.gen.tail.fmts, f.pre ∈ r.prefixes) ∧
    (∀ c ∈ m.gen.ctors, c ∈ r.ctors) := by
  obtain ⟨ht, hf⟩ := tail_fits_texts hp d.tail
  refine ⟨?_, hf, ?_⟩
  · intro l hl
    simp only [GenDesc.lits, List.mem_append] at hl
    rcases hl with ((hl | hl) | hl) | hl
    · have := all2_fits_texts d.slots l hl
      simp [SRow.errTexts, this]
    · have := all2_fits_texts d.opt l hl
      simp [SRow.errTexts, this]
    · exact ht l hl
    · obtain ⟨t, ht', he⟩ := sameUpToOrder_right d.flits l hl
      simp only [beq_iff_eq] at he
      subst he
      simp [SRow.errTexts, ht']
  · intro c hc
    obtain ⟨c', hc', he⟩ := sameUpToOrder_right d.ctors c hc
    simp only [beq_iff_eq] at he
    subst he
    exact hc'

/-- what a client can observe of an answer: the constructor, or the error text (`none` = the parser panicked) -/
def SrcAllows (r : SRow) : Res → Prop
  | .ok c => c.ctor ∈ r.ctors
  | .error e => e = .body .unreachable ∨ ∃ t, e.text = some t ∧
      (t = r.aerr ∨ t ∈ r.errTexts ∨ ∃ p ∈ r.prefixes, p <+: t)

theorem allows_of_described {r : SRow} {aerr : Bytes} {g : GenDesc} {name : Bytes}
    (d : Described r ⟨name, r.arity, aerr, g⟩) (hp : g.tail.plain = true) {res : Res} (h : RowAllows aerr g res) :
    SrcAllows r res := by
  obtain ⟨hl, hf, hc⟩ := d.alphabet hp
  cases res with
  | ok c => exact hc c.ctor h
  | error e =>
    cases e with
    | arity t =>
      have ht : t = aerr := h
      exact Or.inr ⟨t, rfl, Or.inl (by rw [ht]; exact d.aerr.symm)⟩
    | unknown n => exact absurd h (by simp [RowAllows])
    | body b =>
      rcases (h : b = .unreachable ∨ (∃ l ∈ g.lits, b = .lit l) ∨ (∃ f ∈ g.tail.fmts, ∃ w, b = .fmt f w)) with
        rfl | ⟨l, hl', rfl⟩ | ⟨f, hf', w, rfl⟩
      · exact Or.inl rfl
      · exact Or.inr ⟨l.text, rfl, Or.inr (Or.inl (hl l hl'))⟩
      · refine Or.inr ⟨f.pre ++ w ++ f.suf, rfl, Or.inr (Or.inr ⟨f.pre, hf f hf', ?_⟩)⟩
        rw [List.append_assoc]
        exact List.prefix_append _ _

/-- everything `Command::from_resp` answers for a command with a table entry is named by the row of the
    REGENERATED table: one of its constructors, its arity text, one of its error texts, or a text that starts with
    one of its `format!` prefixes — for every frame -/
theorem src_alphabet {src : List SRow} (h : rowsDescribe src (shapeRows table) = true)
    (name : Bytes) (args : List Bytes) (s : Spec) (hf : findEntry table (kw name) = some (.cmd s)) :
    ∃ r ∈ src, r.name = kw name ∧ SrcAllows r (parseCmd (name :: args)) := by
  obtain ⟨r, hr, d, hn, _⟩ := resp_governed h name args s hf
  refine ⟨r, hr, hn, ?_⟩
  have hm := row_mem_cmd (findEntry_mem hf)
  have hp := List.all_eq_true.mp table_tails_plain _ hm
  have ha := parse_alphabet name args s hf
  have d' : Described r ⟨[] ++ s.name, r.arity, s.arityErr, s.body.gen⟩ := by
    have ha' : r.arity = s.arity := d.arity
    rw [ha']
    exact d
  exact allows_of_described d' hp ha

/-- the same for the redis.call translator -/
theorem src_alphabet_lua {src : List SRow} (h : rowsDescribe src (shapeRows luaTable) = true)
    (name : Bytes) (args : List Bytes) (s : Spec) (hf : findEntry luaTable (kw name) = some (.cmd s)) :
    ∃ r ∈ src, r.name = kw name ∧ SrcAllows r (parseLua (name :: args)) := by
  obtain ⟨r, hr, d, hn, _⟩ := lua_governed h name args s hf
  refine ⟨r, hr, hn, ?_⟩
  have hm := row_mem_cmd (findEntry_mem hf)
  have hp := List.all_eq_true.mp luaTable_tails_plain _ hm
  have ha := parseLua_alphabet name args s hf
  have d' : Described r ⟨[] ++ s.name, r.arity, s.arityErr, s.body.gen⟩ := by
    have ha' : r.arity = s.arity := d.arity
    rw [ha']
    exact d
  exact allows_of_described d' hp ha

/-! ## both RESP parsers -/

/-- if the table regenerated from `commands.rs` equals the one regenerated from `parser.rs`, and the latter
    describes the model table, then both describe the ONE grammar that the models of both parsers are -/
theorem parsers_agree_src {resp zc : List SRow} (he : zc = resp) (h : rowsDescribe resp (shapeRows table) = true) :
    rowsDescribe zc (shapeRows table) = true ∧ ∀ f : List Bytes, parseCmdZc f = parseCmd f :=
  ⟨he ▸ h, parsers_agree⟩

/-- whatever the redis.call translator — as regenerated from `script_ops.rs` — accepts, `from_resp` — as
    regenerated from `parser.rs` — accepts with the same command; both regenerated rows are named -/
theorem lua_agrees_src {resp lua : List SRow} (h : rowsDescribe resp (shapeRows table) = true)
    (hl : rowsDescribe lua (shapeRows luaTable) = true) (name : Bytes) (args : List Bytes) (c : Cmd)
    (sl : Spec) (hfl : findEntry luaTable (kw name) = some (.cmd sl))
    (s : Spec) (hf : findEntry table (kw name) = some (.cmd s))
    (hacc : parseLua (name :: args) = .ok c) :
    parseCmd (name :: args) = .ok c ∧ (∃ r ∈ lua, r.name = kw name) ∧ (∃ r ∈ resp, r.name = kw name) := by
  obtain ⟨r, hr, _, hn, _⟩ := lua_governed hl name args sl hfl
  obtain ⟨r', hr', _, hn', _⟩ := resp_governed h name args s hf
  exact ⟨lua_agrees_partial name args c hacc, ⟨r, hr, hn⟩, ⟨r', hr', hn'⟩⟩

/-! ## table-driven commands: the grammar is COMPUTED from the regenerated row

  For the commands whose body is one of the four table-driven forms (`const`, `fixed`, `many`, `pairs`: 71 of the 97
  top-level entries of `from_resp`'s table) the regenerated row does not merely constrain the model's entry: it determines it.  `SRow.body?`
  builds the body from the row alone (constructor, slot kinds, tail); `body_of_described` shows that a row that describes a
  table-driven entry yields exactly that entry's body; hence `resp_dsl_is_generated`: for every frame of such a command,
  `parseCmd` is the arity test of the regenerated row followed by the body GENERATED from the regenerated row. -/

theorem plain_of_fits {s : SArg} {a : Arg} (h : s.fits a = true) (hp : a.isPlain = true) (hk : s.kind ≠ .num) :
    s.plain? = some a := by
  simp only [SArg.fits, Bool.and_eq_true, beq_iff_eq] at h
  obtain ⟨hkind, herr⟩ := h
  cases a with
  | mk kind onErr =>
    simp only [Arg.isPlain, Option.isNone_iff_eq_none] at hp
    subst hp
    simp only [Option.map_none] at herr
    cases hs : s.kind with
    | num => exact absurd hs hk
    | k b =>
      rw [hs] at hkind
      simp only [SKind.fits, beq_iff_eq] at hkind
      subst hkind
      simp [SArg.plain?, hs, herr]

theorem plainArgs_of_fits : ∀ {ss : List SArg} {as : List Arg}, all2 SArg.fits ss as = true →
    as.all Arg.isPlain = true → ss.all SArg.definite = true → plainArgs? ss = some as
  | [], [], _, _, _ => rfl
  | s :: ss, a :: as, h, hp, hd => by
    simp only [all2, Bool.and_eq_true] at h
    simp only [List.all_cons, Bool.and_eq_true] at hp hd
    have hk : s.kind ≠ .num := by
      have := hd.1
      simp only [SArg.definite, bne_iff_ne, ne_eq] at this
      exact this
    simp only [plainArgs?, plain_of_fits h.1 hp.1 hk, plainArgs_of_fits h.2 hp.2 hd.2]
  | [], _ :: _, h, _, _ => by simp [all2] at h
  | _ :: _, [], h, _, _ => by simp [all2] at h

theorem singleton_of_same {c : Bytes} {cs : List Bytes}
    (h : sameUpToOrder (fun (a b : Bytes) => a == b) cs [c] = true) : cs = [c] := by
  simp only [sameUpToOrder, Bool.and_eq_true, beq_iff_eq, List.length_cons, List.length_nil, Nat.zero_add] at h
  obtain ⟨⟨hl, ha⟩, _⟩ := h
  match cs, hl with
  | [x], _ =>
    simp only [List.all_cons, List.all_nil, Bool.and_true, List.any_cons, List.any_nil, Bool.or_false, beq_iff_eq] at ha
    rw [ha]

theorem nil_of_all2_nil {α β : Type} {p : α → β → Bool} {a : List α} (h : all2 p a ([] : List β) = true) : a = [] := by
  cases a with
  | nil => rfl
  | cons x xs => simp [all2] at h

theorem nil_of_same_nil {α β : Type} {p : α → β → Bool} {a : List α}
    (h : sameUpToOrder p a ([] : List β) = true) : a = [] := by
  simp only [sameUpToOrder, Bool.and_eq_true, beq_iff_eq, List.length_nil] at h
  exact List.eq_nil_of_length_eq_zero h.1.1

/-- the body generated from a row that describes a table-driven entry IS that entry's body -/
theorem body_of_described {r : SRow} {name aerr : Bytes} {ar : Arity} {b : Body}
    (d : Described r ⟨name, ar, aerr, b.gen⟩) (hb : b.plainDsl = true) (hdef : r.definite = true) :
    r.body? = some b := by
  have hopt : r.opt = [] := by
    have := d.opt
    cases b <;> simp only [Body.gen] at this <;> first | exact nil_of_all2_nil this | simp [Body.plainDsl] at hb
  have hfl : r.flits = [] := by
    have := d.flits
    cases b <;> simp only [Body.gen] at this <;> first | exact nil_of_same_nil this | simp [Body.plainDsl] at hb
  have hch : r.checks = [] := by
    have := d.checks
    cases b <;> simp only [Body.gen] at this <;> first | exact nil_of_all2_nil this | simp [Body.plainDsl] at hb
  simp only [SRow.definite, Bool.and_eq_true] at hdef
  cases b with
  | custom cb => simp [Body.plainDsl] at hb
  | const c =>
    have hc := singleton_of_same (by simpa [Body.gen] using d.ctors)
    have hs : r.slots = [] := nil_of_all2_nil (by simpa [Body.gen] using d.slots)
    have ht := d.tail
    simp only [Body.gen, STail.fits, Bool.and_eq_true, beq_iff_eq, List.isEmpty_iff] at ht
    simp [SRow.body?, hc, hopt, hfl, hch, hs, ht.1.1, ht.1.2, ht.2, plainArgs?]
  | fixed c slots =>
    have hc := singleton_of_same (by simpa [Body.gen] using d.ctors)
    simp only [Body.plainDsl] at hb
    have hs := plainArgs_of_fits (by simpa [Body.gen] using d.slots) hb hdef.1
    have ht := d.tail
    simp only [Body.gen, STail.fits, Bool.and_eq_true, beq_iff_eq, List.isEmpty_iff] at ht
    simp [SRow.body?, hc, hopt, hfl, hch, hs, ht.1.1, ht.1.2, ht.2]
  | many c pre each =>
    have hc := singleton_of_same (by simpa [Body.gen] using d.ctors)
    simp only [Body.plainDsl, Bool.and_eq_true] at hb
    have hs := plainArgs_of_fits (by simpa [Body.gen] using d.slots) hb.1 hdef.1
    have ht := d.tail
    simp only [Body.gen, STail.fits, Bool.and_eq_true, beq_iff_eq, List.isEmpty_iff] at ht
    cases hrt : r.tail <;> rw [hrt] at ht <;> simp at ht
    rename_i a
    rw [hrt] at hdef
    have ha := plain_of_fits ht.1.1 hb.2 (by simpa [SArg.definite] using hdef.2)
    simp [SRow.body?, hc, hopt, hfl, hch, hs, hrt, ht.1.2, ht.2, ha]
  | pairs c pre x y =>
    have hc := singleton_of_same (by simpa [Body.gen] using d.ctors)
    simp only [Body.plainDsl, Bool.and_eq_true] at hb
    have hs := plainArgs_of_fits (by simpa [Body.gen] using d.slots) hb.1.1 hdef.1
    have ht := d.tail
    simp only [Body.gen, STail.fits, Bool.and_eq_true, beq_iff_eq, List.isEmpty_iff] at ht
    cases hrt : r.tail <;> rw [hrt] at ht <;> simp at ht
    rename_i a a'
    rw [hrt] at hdef
    simp only [Bool.and_eq_true] at hdef
    have ha := plain_of_fits ht.1.1.1 hb.1.2 (by simpa [SArg.definite] using hdef.2.1)
    have ha' := plain_of_fits ht.1.1.2 hb.2 (by simpa [SArg.definite] using hdef.2.2)
    simp [SRow.body?, hc, hopt, hfl, hch, hs, hrt, ht.1.2, ht.2, ha, ha']

/-- `Command::from_resp` on a TABLE-DRIVEN command: the arity test of the regenerated row, then the body GENERATED from
    the regenerated row — the hand-written entry is not used on the right-hand side -/
theorem resp_dsl_is_generated {src : List SRow} (h : rowsDescribe src (shapeRows table) = true)
    (hdef : src.all SRow.definite = true)
    (name : Bytes) (args : List Bytes) (s : Spec) (hf : findEntry table (kw name) = some (.cmd s))
    (hb : s.body.plainDsl = true) :
    ∃ r ∈ src, r.name = kw name ∧ ∃ b, r.body? = some b ∧
      parseCmd (name :: args) =
        if r.arity.ok args.length then liftB (b.run args) else .error (.arity r.aerr) := by
  obtain ⟨r, hr, d, hn, _⟩ := resp_governed h name args s hf
  have hd := List.all_eq_true.mp hdef r hr
  have hbody : r.body? = some s.body := body_of_described (name := [] ++ s.name) (ar := s.arity) (aerr := s.arityErr) d hb hd
  refine ⟨r, hr, hn, s.body, hbody, ?_⟩
  rw [parse_of_find hf, d.arity, d.aerr]
  unfold Spec.run
  have ha : (s.row []).arity = s.arity := rfl
  have he : (s.row []).arityErr = s.arityErr := rfl
  rw [ha, he]
  cases s.arity.ok args.length with
  | false => rfl
  | true =>
    simp only [if_true]
    cases s.body.run args <;> rfl

/-- the same one level down: a table-driven SUB-command (CONFIG GET, ACL SETUSER, SCRIPT LOAD, CLIENT SETNAME, OBJECT
    ENCODING, DEBUG SLEEP …) is parsed by the body generated from its regenerated row `FAMILY.SUB` -/
theorem resp_dsl_sub_is_generated {src : List SRow} (h : rowsDescribe src (shapeRows table) = true)
    (hdef : src.all SRow.definite = true)
    (name sub : Bytes) (args : List Bytes) (fam aerr : Bytes) (subs : List Spec)
    (dflt : Bytes → List Bytes → Res) (s : Spec)
    (hf : findEntry table (kw name) = some (.family fam aerr subs dflt)) (hs : findSpec subs (kw sub) = some s)
    (hb : s.body.plainDsl = true) :
    ∃ r ∈ src, r.name = fam ++ 46 :: s.name ∧ ∃ b, r.body? = some b ∧
      parseCmd (name :: sub :: args) =
        if r.arity.ok args.length then liftB (b.run args) else .error (.arity r.aerr) := by
  obtain ⟨r, hr, d, hn, _⟩ := resp_governed_sub h name sub args fam aerr subs dflt s hf hs
  have hd := List.all_eq_true.mp hdef r hr
  have hbody : r.body? = some s.body :=
    body_of_described (name := (fam ++ [46]) ++ s.name) (ar := s.arity) (aerr := s.arityErr) d hb hd
  refine ⟨r, hr, hn, s.body, hbody, ?_⟩
  simp only [parseCmd, parseWith, hf, hs]
  have ha : r.arity = s.arity := d.arity
  have he : r.aerr = s.arityErr := d.aerr
  rw [ha, he]
  unfold Spec.run
  cases s.arity.ok args.length with
  | false => rfl
  | true =>
    simp only [if_true]
    cases s.body.run args <;> rfl

/-- the sub-commands in the scope of `resp_dsl_sub_is_generated` -/
theorem dsl_subcommands_count :
    ((table.flatMap fun e => match e with | .family _ _ subs _ => subs | _ => []).filter (fun s => s.body.plainDsl)).length = 24 := by
  decide +kernel

/-- how many commands of `from_resp`'s table are table-driven with plain slots (the scope of `resp_dsl_is_generated`): 71 of the 97 top-level entries; the sub-commands of the seven families are
    table-driven too (`resp_governed_sub` gives their rows) -/
theorem dsl_commands_count :
    (table.filter (fun e => match e with | .cmd s => s.body.plainDsl | _ => false)).length = 71 := by decide +kernel

/-! ## the normal form of the hand-written tables (`Model/GrammarShapesNF.lean`)

  Proved once, at build time, by kernel evaluation (this is where the model's string literals are evaluated); the tables
  regenerated from the source on every run are compared with the LITERALS, which costs the kernel nothing. -/

theorem respRowsNF_describes : rowsDescribe respRowsNF (shapeRows table) = true := by decide +kernel
theorem luaRowsNF_describes : rowsDescribe luaRowsNF (shapeRows luaTable) = true := by decide +kernel
theorem familiesNF_describe : familiesDescribe familiesNF table = true := by decide +kernel
theorem defaultsNF_describe :
    respDefaultNF = probeOf (parseCmd [s2b "ZZZ"]) ∧ luaDefaultNF = probeOf (parseLua [s2b "ZZZ"]) := by decide +kernel

/-! ## non-vacuity: a source row as the translator writes it, for GET and for the translator's INCRBY -/

def exampleGet : SRow :=
  { name := s2b "GET", arity := .exact 1, aerr := wrongArgs "get", ctors := [s2b "Get"],
    slots := [{ kind := .k .str }], tail := .none }

def exampleLuaIncrby : SRow :=
  { name := s2b "INCRBY", arity := .exact 2, aerr := s2b "INCRBY requires 2 arguments", ctors := [s2b "IncrBy"],
    slots := [{ kind := .k .str }, { kind := .k .int, err := some (s2b "INCRBY increment must be integer") }], tail := .none }

example : exampleGet.describes ((fixed "GET" "Get" (wrongArgs "get") [aStr]).row []) = true := by decide +kernel
example : (shapeRows luaTable).any (fun m => exampleLuaIncrby.describes m) = true := by decide +kernel
/-- a row with another arity text does not describe the model's row -/
example : ({ exampleGet with aerr := s2b "GET requires 1 argument" } : SRow).describes
    ((fixed "GET" "Get" (wrongArgs "get") [aStr]).row []) = false := by decide +kernel

end C16
end RedisVerif
