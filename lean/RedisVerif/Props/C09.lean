import RedisVerif.Model.WalActor
import RedisVerif.Lemmas.WalActor
import RedisVerif.Driver.Crc32

/-!
# C09 — always-fsync WAL: a write reported durable survives a crash at any instant

Model: `RedisVerif.Wal` (M3): store with per-file `(data, synced)`, fault oracle
`φ : Nat → Outcome` indexed by I/O call number (failed / partial / disk-full append, failed
create, failed fsync), the rotator (`Rot.append/rotate/sync`), the group-commit actor in Always
mode (`Actor.step` over an ARBITRARY interleaving of `write` and `flush` events = every batching of
concurrent writers; `Actor.runGroups` = the schedule of the real loop), the history of stores after
every I/O call (`World.storeAt t`) and `crashImage` (every file cut to what a successful fsync
covered).  `durable crc st` = what `recover_all_entries` returns from the crash image of `st`.

The model has a flag `syncBeforeDrop` (first argument of `Actor.run`) and a WAL `Format`:
* `true` = the CURRENT code (after the `fix:` commit "WAL rotator fsyncs a writer before dropping
  it; a lost writer fails the next sync()"): `rotate()` fsyncs the old writer before dropping it;
  a failed closing fsync or a failed append poisons the next `sync()`.  `durable_survives` is
  proved at full strength — all write sequences, batch choices, rotation thresholds, fault
  oracles and crash indices, for either WAL format (the current one is `.v2`).
  Also proved: `acks_exactly_once`, `rotation_keeps_sequence_monotone`.
* `false` = the tree before that commit.  `DurableSurvives false` is FALSE:
  `rotation_counterexample` (a batch that straddles a rotation) and
  `append_error_counterexample` (an append error drops the writer, then `sync()` returned `Ok`
  without syncing anything and the EARLIER entry of the batch was acked).  What did hold there:
  `durable_survives_partial` under the decidable hypothesis `Actor.quiet` (no writer dropped
  between two group fsyncs).  Kept as theorems about the same model functions.
-/
namespace RedisVerif
namespace C09

open Wal

/-- FULL-STRENGTH statement: for all fault oracles, rotation thresholds, event sequences
    (= every interleaving of `write_durable`, `write_fire_and_forget`, `sync_tick`, `truncate`
    messages and group-commit flushes, i.e. arbitrary batch boundaries) and crash instants `t`
    (number of I/O calls completed): every write that was acknowledged `Ok` when at most `t` calls
    had been issued is returned, bit-identical, by WAL recovery of the crash image at `t` —
    unless it is stamped at or below a `TruncateUpTo` threshold handled so far (`tbound` = 1 + the
    largest one), in which case the caller itself asked the WAL to forget it. -/
def DurableSurvives (syncBeforeDrop tickSyncs : Bool) (fmt : Format) (crc : Bytes → Nat) : Prop :=
  ∀ (φ : Nat → Outcome) (maxSize : Nat) (evs : List Ev), (∀ ev ∈ evs, ev.Ok fmt crc) →
    ∀ r ∈ (Actor.run syncBeforeDrop tickSyncs φ fmt crc maxSize evs).acks, r.res = .ok →
      ∀ t st, r.io ≤ t →
        (Actor.run syncBeforeDrop tickSyncs φ fmt crc maxSize evs).rot.w.storeAt t = some st →
        r.entry ∈ durable fmt crc st ∨
          r.entry.ts < (Actor.run syncBeforeDrop tickSyncs φ fmt crc maxSize evs).tbound

/-- what the invariant gives for any reachable actor state -/
theorem survives_of_ainv {fmt : Format} {crc : Bytes → Nat} {a : Actor} (h : AInv fmt crc a) :
    ∀ r ∈ a.acks, r.res = .ok → ∀ t st, r.io ≤ t → a.rot.w.storeAt t = some st →
      r.entry ∈ durable fmt crc st ∨ r.entry.ts < a.tbound :=
  fun r hr hok t st hle hst => durable_of_dur (h.safe r hr hok t st hle hst)

/-- the CURRENT code: a write reported durable survives a crash at any instant — every message
    sequence (durable and fire-and-forget writes, sync ticks, truncation requests), every
    batching, every rotation threshold, every fault oracle, every crash index -/
theorem durable_survives (fmt : Format) (crc : Bytes → Nat) : DurableSurvives true false fmt crc := by
  intro φ maxSize evs hw
  exact survives_of_ainv
    (ainv_foldl true φ evs (Actor.init maxSize) (inv_init fmt crc maxSize) (Nat.le_refl _) hw (Or.inl rfl))

/-- the truncation bound only moves at `truncate` events -/
theorem tbound_no_truncate (fix tk : Bool) (fmt : Format) (φ : Nat → Outcome) (crc : Bytes → Nat)
    (evs : List Ev) (a : Actor) (hn : ∀ T, Ev.truncate T ∉ evs) :
    (evs.foldl (Actor.step fix tk φ fmt crc) a).tbound = a.tbound := by
  induction evs generalizing a with
  | nil => rfl
  | cons ev evs ih =>
    simp only [List.foldl_cons]
    rw [ih _ (fun T hT => hn T (List.mem_cons_of_mem _ hT))]
    cases ev with
    | write w =>
      simp only [Actor.step, Actor.handleWrite]
      cases Rot.append fix fmt φ a.rot (Entry.mk' fmt crc w.data w.ts) with
      | mk r oe => cases oe <;> rfl
    | forget w =>
      simp only [Actor.step, Actor.handleForget]
      cases Rot.append fix fmt φ a.rot (Entry.mk' fmt crc w.data w.ts) with
      | mk r oe => cases oe <;> rfl
    | tick => simp only [Actor.step, Actor.handleTick]; split <;> rfl
    | truncate T => exact absurd (List.mem_cons_self) (hn T)
    | flush => simp only [Actor.step, Actor.flush]; split <;> rfl
    | reopen c r =>
      simp only [Actor.step, Actor.reopen]
      cases c
      · simp only [Bool.false_eq_true, if_false, Actor.flush]; split <;> rfl
      · rfl

/-- without truncation requests there is no exemption: every acknowledged write is recovered -/
theorem durable_survives_no_truncate (fmt : Format) (crc : Bytes → Nat) (φ : Nat → Outcome)
    (maxSize : Nat) (evs : List Ev) (hw : ∀ ev ∈ evs, ev.Ok fmt crc) (hn : ∀ T, Ev.truncate T ∉ evs) :
    ∀ r ∈ (Actor.run true false φ fmt crc maxSize evs).acks, r.res = .ok →
      ∀ t st, r.io ≤ t → (Actor.run true false φ fmt crc maxSize evs).rot.w.storeAt t = some st →
        r.entry ∈ durable fmt crc st := by
  intro r hr hok t st hle hst
  rcases durable_survives fmt crc φ maxSize evs hw r hr hok t st hle hst with h | h
  · exact h
  · unfold Actor.run at h
    rw [tbound_no_truncate true false fmt φ crc evs _ hn] at h
    exact absurd h (Nat.not_lt_zero _)

/-- the same for the schedule the real loop follows (bursts of messages, `group_commit_max_entries`) -/
theorem durable_survives_groups (fmt : Format) (crc : Bytes → Nat) (φ : Nat → Outcome) (maxSize maxEntries : Nat)
    (gs : List (List Ev)) (hw : ∀ g ∈ gs, ∀ ev ∈ g, ev.Ok fmt crc) :
    ∀ r ∈ (Actor.runGroups true false φ fmt crc maxSize maxEntries gs).acks, r.res = .ok →
      ∀ t st, r.io ≤ t →
        (Actor.runGroups true false φ fmt crc maxSize maxEntries gs).rot.w.storeAt t = some st →
        r.entry ∈ durable fmt crc st ∨
          r.entry.ts < (Actor.runGroups true false φ fmt crc maxSize maxEntries gs).tbound := by
  apply survives_of_ainv
  unfold Actor.runGroups
  generalize hinit : Actor.init maxSize = a0
  have h0 : AInv fmt crc a0 ∧ a0.pending.length ≤ a0.esync := by
    rw [← hinit]; exact ⟨inv_init fmt crc maxSize, Nat.le_refl _⟩
  clear hinit
  suffices hs : AInv fmt crc (gs.foldl (Actor.runGroup true false φ fmt crc maxEntries) a0) ∧
      (gs.foldl (Actor.runGroup true false φ fmt crc maxEntries) a0).pending.length ≤
      (gs.foldl (Actor.runGroup true false φ fmt crc maxEntries) a0).esync from hs.1
  induction gs generalizing a0 with
  | nil => exact h0
  | cons g gs ih =>
    simp only [List.foldl_cons]
    exact ih (fun g' hg' => hw g' (List.mem_cons_of_mem _ hg')) _
      (ainv_runGroup φ maxEntries g a0 h0.1 h0.2 (hw g (by simp)))

-- non-vacuity: a fitting write of the current format; on the current code the two workloads
-- that broke the old rotator (see below) lose nothing that was acknowledged
example : (⟨1, [1, 2, 3], 7⟩ : Write).Ok .v2 Driver.crc32 := by decide +kernel

/-! ## every write is answered exactly once; file sequence numbers only grow -/

/-- once the mailbox has been drained (a final `flush`), nothing is left pending and the
    multiset of answered ids is exactly the multiset of ids written: every `write_durable` call
    gets exactly one ack — either code variant, every fault oracle, every batching -/
theorem acks_exactly_once (fix tk : Bool) (fmt : Format) (φ : Nat → Outcome) (crc : Bytes → Nat)
    (maxSize : Nat) (evs : List Ev) :
    (Actor.run fix tk φ fmt crc maxSize (evs ++ [.flush])).pending = [] ∧
    List.Perm ((Actor.run fix tk φ fmt crc maxSize (evs ++ [.flush])).acks.map (·.id))
      (evs.flatMap Ev.ids) := by
  have hlen := pending_len_foldl fix tk fmt φ crc evs (Actor.init maxSize) (Nat.le_refl _)
  have hperm := ids_foldl_perm fix tk fmt φ crc (evs ++ [.flush]) (Actor.init maxSize)
  unfold Actor.run at *
  rw [List.foldl_append] at hperm ⊢
  simp only [List.foldl_cons, List.foldl_nil] at hperm ⊢
  generalize evs.foldl (Actor.step fix tk φ fmt crc) (Actor.init maxSize) = a at hlen hperm ⊢
  have hp : (Actor.step fix tk φ fmt crc a .flush).pending = [] := by
    simp only [Actor.step, Actor.flush]
    split
    · rename_i h0
      exact List.length_eq_zero_iff.mp (by omega)
    · rfl
  refine ⟨hp, ?_⟩
  simp only [Actor.ids, hp, List.map_nil, List.append_nil, Actor.init, List.nil_append,
    List.flatMap_append, List.flatMap_cons, List.flatMap_nil, Ev.ids] at hperm
  exact hperm

/-- `rotation_keeps_sequence_monotone`: along every run WITHIN ONE incarnation (after a restart
    the numbering continues after the highest file still present, which may be lower if files were
    truncated away or a create failed) the `create` calls use strictly
    increasing sequence numbers (trace is newest first), none above `current_sequence`, and
    `current_sequence` never decreases — so recovery's sequence order is append order -/
theorem rotation_keeps_sequence_monotone (fix tk : Bool) (fmt : Format) (φ : Nat → Outcome)
    (crc : Bytes → Nat) (maxSize : Nat) (evs more : List Ev)
    (hnr : ∀ c r, Ev.reopen c r ∉ evs ++ more) :
    (createSeqs (Actor.run fix tk φ fmt crc maxSize evs).rot.w.trace).Pairwise (· > ·) ∧
    (∀ s ∈ createSeqs (Actor.run fix tk φ fmt crc maxSize evs).rot.w.trace,
      s ≤ (Actor.run fix tk φ fmt crc maxSize evs).rot.seq) ∧
    (Actor.run fix tk φ fmt crc maxSize evs).rot.seq
      ≤ (Actor.run fix tk φ fmt crc maxSize (evs ++ more)).rot.seq := by
  have h0 : RSeq (Actor.init maxSize).rot := ⟨List.Pairwise.nil, fun s hs => by cases hs⟩
  obtain ⟨h1, _⟩ := rseq_foldl fix tk fmt φ crc evs (Actor.init maxSize) h0
    (fun c r hm => hnr c r (List.mem_append_left _ hm))
  refine ⟨h1.1, h1.2, ?_⟩
  unfold Actor.run
  rw [List.foldl_append]
  exact (rseq_foldl fix tk fmt φ crc more _ h1 (fun c r hm => hnr c r (List.mem_append_right _ hm))).2

/-! ## the code before the fix (`syncBeforeDrop = false`) -/

/-- what held for the old rotator: on every run on which no writer is dropped between two
    group fsyncs (`Actor.quiet`, decidable: no rotation of a live writer and no append error since
    the previous fsync) acknowledged writes survive every crash — whatever the fsync faults,
    create faults, batching and crash index -/
theorem durable_survives_partial (fmt : Format) (crc : Bytes → Nat) (φ : Nat → Outcome) (maxSize : Nat)
    (evs : List Ev) (hw : ∀ ev ∈ evs, ev.Ok fmt crc)
    (hq : Actor.quiet φ fmt crc evs (Actor.init maxSize) = true) :
    ∀ r ∈ (Actor.run false false φ fmt crc maxSize evs).acks, r.res = .ok →
      ∀ t st, r.io ≤ t → (Actor.run false false φ fmt crc maxSize evs).rot.w.storeAt t = some st →
        r.entry ∈ durable fmt crc st ∨
          r.entry.ts < (Actor.run false false φ fmt crc maxSize evs).tbound :=
  survives_of_ainv
    (ainv_foldl false φ evs (Actor.init maxSize) (inv_init fmt crc maxSize) (Nat.le_refl _) hw (Or.inr hq))

def w1 : Write := ⟨1, [1], 1⟩
def w2 : Write := ⟨2, [2], 2⟩
def w3 : Write := ⟨3, [3], 3⟩

/-- failing fsync at call 3, then a retry: quiet, and two entries end up acknowledged -/
def quietFaults : Nat → Outcome := fun i => if i = 3 then .fail else .ok

-- non-vacuity of `quiet`: one file, two batches, an fsync fault in between
example : Actor.quiet quietFaults .v1 Driver.crc32 [.write w1, .flush, .write w2, .write w3, .flush]
    (Actor.init 1000) = true := by decide +kernel

example : ((Actor.run false false quietFaults .v1 Driver.crc32 1000
    [.write w1, .flush, .write w2, .write w3, .flush]).acks.map (fun r => (r.id, r.res)))
    = [(3, .ok), (2, .ok), (1, .err .fsync)] := by decide +kernel

theorem w123_ok : w1.Ok .v1 Driver.crc32 ∧ w2.Ok .v1 Driver.crc32 ∧ w3.Ok .v1 Driver.crc32 := by decide +kernel

/-- one entry per file (threshold 17), three writers in one batch, no fault at all: the single
    fsync covers only file 3 -/
def rotationRun : Actor :=
  Actor.run false false (fun _ => .ok) .v1 Driver.crc32 17 [.write w1, .write w2, .write w3, .flush]

/-- the old rotator violated the property: all three writes are acknowledged `Ok` after the
    10th I/O call, and recovery of the crash image at that instant returns only the third -/
theorem rotation_counterexample : ¬ DurableSurvives false false .v1 Driver.crc32 := by
  intro h
  have hmem : (⟨1, Entry.mk' .v1 Driver.crc32 [1] 1, .ok, 10⟩ : AckRec) ∈ rotationRun.acks := by
    decide +kernel
  have hst : rotationRun.rot.w.storeAt 10 = some rotationRun.rot.w.store := by decide +kernel
  have := h (fun _ => .ok) 17 [.write w1, .write w2, .write w3, .flush]
    (by decide +kernel) _ hmem rfl 10 _ (Nat.le_refl _) hst
  revert this
  decide +kernel

/-- what recovery returns at that crash instant -/
theorem rotation_counterexample_recovers :
    (durable .v1 Driver.crc32 rotationRun.rot.w.store).map (·.ts) = [3] := by decide +kernel

/-- one file; the append of the second entry of the batch fails (I/O call 3) -/
def appendErrorRun : Actor :=
  Actor.run false false (fun i => if i = 3 then .fail else .ok) .v1 Driver.crc32 1000
    [.write w1, .write w2, .flush]

/-- … the writer is dropped, `sync()` returns `Ok` without issuing any call, write 1 is
    acknowledged `Ok` and is lost by a crash -/
theorem append_error_counterexample : ¬ DurableSurvives false false .v1 Driver.crc32 := by
  intro h
  have hmem : (⟨1, Entry.mk' .v1 Driver.crc32 [1] 1, .ok, 4⟩ : AckRec) ∈ appendErrorRun.acks := by
    decide +kernel
  have hst : appendErrorRun.rot.w.storeAt 4 = some appendErrorRun.rot.w.store := by decide +kernel
  have := h (fun i => if i = 3 then .fail else .ok) 1000 [.write w1, .write w2, .flush]
    (by decide +kernel) _ hmem rfl 4 _ (Nat.le_refl _) hst
  revert this
  decide +kernel

/-! ## several incarnations over one store -/

/-- `durable_survives` already quantifies over histories with any number of incarnation
    boundaries (`Ev.reopen`: clean shutdown + restart, or machine crash + restart, each
    incarnation with its own writes, ticks, truncations and faults).  Spelled out: the durable
    acks of ALL incarnations are recovered from the crash image at every later instant, in every
    later incarnation (minus what a `truncate` asked to forget). -/
theorem durable_survives_across_restarts (fmt : Format) (crc : Bytes → Nat) (φ : Nat → Outcome)
    (maxSize : Nat) (incs : List (List Ev × Bool))
    (hw : ∀ inc ∈ incs, ∀ ev ∈ inc.1, ev.Ok fmt crc) :
    let evs := incs.flatMap (fun inc => inc.1 ++ [Ev.reopen inc.2 false])
    ∀ r ∈ (Actor.run true false φ fmt crc maxSize evs).acks, r.res = .ok →
      ∀ t st, r.io ≤ t → (Actor.run true false φ fmt crc maxSize evs).rot.w.storeAt t = some st →
        r.entry ∈ durable fmt crc st ∨ r.entry.ts < (Actor.run true false φ fmt crc maxSize evs).tbound := by
  intro evs
  apply durable_survives fmt crc φ maxSize evs
  intro ev hev
  rw [List.mem_flatMap] at hev
  obtain ⟨inc, hinc, hmem⟩ := hev
  rcases List.mem_append.mp hmem with h | h
  · exact hw inc hinc ev h
  · simp only [List.mem_singleton] at h
    subst h
    rfl

/-- `create_never_reuses_existing_name`: along every history of the current code (any number
    of restarts and crashes, any faults) no `create` call ever targets a name that is present in the
    store — so files of earlier incarnations are never re-created / truncated -/
theorem create_never_reuses_existing_name (fmt : Format) (crc : Bytes → Nat) (φ : Nat → Outcome)
    (maxSize : Nat) (evs : List Ev) (hw : ∀ ev ∈ evs, ev.Ok fmt crc) :
    ∀ s ok, Call.create s ok true ∉ (Actor.run true false φ fmt crc maxSize evs).rot.w.trace :=
  (ainv_foldl true φ evs (Actor.init maxSize) (inv_init fmt crc maxSize) (Nat.le_refl _) hw
    (Or.inl rfl)).rinv.winv.2.2

/-- the variant in which a restarted rotator re-creates the name of the highest-numbered
    existing file (`Ev.reopen _ true`): incarnation 1 writes and acknowledges entries 1 and 2 into one
    file and shuts down cleanly; incarnation 2 acknowledges entry 3 — its first rotate hits file 1
    again, `create` truncates it -/
def restartRun : Actor :=
  Actor.run true false (fun _ => .ok) .v2 Driver.crc32 1000
    [.write w1, .write w2, .flush, .reopen false true, .write w3, .flush]

theorem restart_reuses_sequence_counterexample :
    (⟨1, Entry.mk' .v2 Driver.crc32 [1] 1, .ok, 5⟩ : AckRec) ∈ restartRun.acks ∧
    Entry.mk' .v2 Driver.crc32 [1] 1 ∉ durable .v2 Driver.crc32 restartRun.rot.w.store ∧
    (durable .v2 Driver.crc32 restartRun.rot.w.store).map (·.ts) = [3] ∧
    Call.create 1 true true ∈ restartRun.rot.w.trace := by decide +kernel

/-- the same history on the CURRENT code (`reopen _ false`): the second incarnation continues
    with file 2 and everything acknowledged is recovered -/
theorem restart_current_on_witness :
    (durable .v2 Driver.crc32
      (Actor.run true false (fun _ => .ok) .v2 Driver.crc32 1000
        [.write w1, .write w2, .flush, .reopen false false, .write w3, .flush]).rot.w.store).map (·.ts)
      = [1, 2, 3] := by decide +kernel

/-! ## a `SyncTick` must not touch the rotator (`tickSyncs = true`) -/

/-- one batch on the repaired rotator: write 1 is appended, the append of write 2 fails (I/O
    call 3: the writer is dropped and the rotator remembers it), a `SyncTick` arrives, write 3
    goes to the next file, then the group-commit flush -/
def tickRun (tickSyncs : Bool) : Actor :=
  Actor.run true tickSyncs (fun i => if i = 3 then .fail else .ok) .v2 Driver.crc32 1000
    [.write w1, .write w2, .tick, .write w3, .flush]

/-- if the tick calls `rotator.sync()` and only logs the result, it CONSUMES the one-shot
    "a writer was dropped without a successful fsync" error: the flush then sees a clean rotator,
    fsyncs only the new file and acknowledges write 1, which sits unsynced in the dropped file -/
theorem tick_sync_counterexample : ¬ DurableSurvives true true .v2 Driver.crc32 := by
  intro h
  have hmem : (⟨1, Entry.mk' .v2 Driver.crc32 [1] 1, .ok, 8⟩ : AckRec) ∈ (tickRun true).acks := by
    decide +kernel
  have hst : (tickRun true).rot.w.storeAt 8 = some (tickRun true).rot.w.store := by decide +kernel
  have := h (fun i => if i = 3 then .fail else .ok) 1000 [.write w1, .write w2, .tick, .write w3, .flush]
    (by decide +kernel) _ hmem rfl 8 _ (Nat.le_refl _) hst
  revert this
  decide +kernel

/-- the same schedule on the CURRENT actor (tick = no-op): the flush reports the lost writer,
    writes 1 and 3 are answered with an fsync error, nothing is acknowledged that is not durable -/
theorem tick_noop_on_witness :
    ((tickRun false).acks.map (fun r => (r.id, r.res)))
      = [(3, .err .fsync), (1, .err .fsync), (2, .err .io)] := by decide +kernel

/-- the same two workloads on the repaired code: nothing acknowledged is lost (instances of
    `durable_survives`, evaluated) -/
theorem repaired_on_witnesses :
    (durable .v2 Driver.crc32
        (Actor.run true false (fun _ => .ok) .v2 Driver.crc32 17
          [.write w1, .write w2, .write w3, .flush]).rot.w.store).map (·.ts) = [1, 2, 3] ∧
    ((Actor.run true false (fun i => if i = 3 then .fail else .ok) .v2 Driver.crc32 1000
        [.write w1, .write w2, .flush]).acks.map (fun r => (r.id, r.res)))
      = [(1, .err .fsync), (2, .err .io)] := by decide +kernel

end C09
end RedisVerif
