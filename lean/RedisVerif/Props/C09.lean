import RedisVerif.Model.WalActor
import RedisVerif.Lemmas.WalActor
import RedisVerif.Driver.Crc32

/-!
# C09 — always-fsync WAL: a write reported durable survives a crash at any instant

Model: `RedisVerif.Wal` (M3): store with per-file `(data, synced)`, fault oracle
`φ : Nat → Outcome` indexed by I/O call number (failed / partial / disk-full append, failed
create, failed fsync), the rotator (`Rot.append/rotate/sync`), the group-commit actor in Always
mode (`Actor.step` over an ARBITRARY interleaving of `write` and `flush` events = every batching of
concurrent writers; `Actor.runGroups` = the schedule of the real loop), the history of stores after
every I/O call (`World.storeAt t`) and `crashImage` (every file cut to what a successful fsync
covered).  `durable crc st` = what `recover_all_entries` returns from the crash image of `st`.

The model has a flag `syncBeforeDrop` (first argument of `Actor.run`) and a WAL `Format`:
* `true` = the CURRENT code (after the `fix:` commit "WAL rotator fsyncs a writer before dropping
  it; a lost writer fails the next sync()"): `rotate()` fsyncs the old writer before dropping it;
  a failed closing fsync or a failed append poisons the next `sync()`.  `durable_survives` is
  proved at full strength — all write sequences, batch choices, rotation thresholds, fault
  oracles and crash indices, for either WAL format (the current one is `.v2`).
  Also proved: `acks_exactly_once`, `rotation_keeps_sequence_monotone`.
* `false` = the tree before that commit.  `DurableSurvives false` is FALSE:
  `rotation_counterexample` (a batch that straddles a rotation) and
  `append_error_counterexample` (an append error drops the writer, then `sync()` returned `Ok`
  without syncing anything and the EARLIER entry of the batch was acked).  What did hold there:
  `durable_survives_partial` under the decidable hypothesis `Actor.quiet` (no writer dropped
  between two group fsyncs).  Kept as theorems about the same model functions.
-/
namespace RedisVerif
namespace C09

open Wal

/-- FULL-STRENGTH statement: for all fault oracles, rotation thresholds, event sequences
    (= write sequences with arbitrary batch boundaries) and crash instants `t` (number of I/O
    calls completed): every write that was acknowledged `Ok` when at most `t` calls had been
    issued is returned, bit-identical, by WAL recovery of the crash image at `t`. -/
def DurableSurvives (syncBeforeDrop : Bool) (fmt : Format) (crc : Bytes → Nat) : Prop :=
  ∀ (φ : Nat → Outcome) (maxSize : Nat) (evs : List Ev), (∀ w, Ev.write w ∈ evs → w.Ok fmt crc) →
    ∀ r ∈ (Actor.run syncBeforeDrop φ fmt crc maxSize evs).acks, r.res = .ok →
      ∀ t st, r.io ≤ t → (Actor.run syncBeforeDrop φ fmt crc maxSize evs).rot.w.storeAt t = some st →
        r.entry ∈ durable fmt crc st

/-- what the invariant gives for any reachable actor state -/
theorem survives_of_ainv {fmt : Format} {crc : Bytes → Nat} {a : Actor} (h : AInv fmt crc a) :
    ∀ r ∈ a.acks, r.res = .ok → ∀ t st, r.io ≤ t → a.rot.w.storeAt t = some st →
      r.entry ∈ durable fmt crc st :=
  fun r hr hok t st hle hst => durable_of_dur (h.safe r hr hok t st hle hst)

/-- the repaired code: a write reported durable survives a crash at any instant — every write
    sequence, every batching, every rotation threshold, every fault oracle, every crash index -/
theorem durable_survives (fmt : Format) (crc : Bytes → Nat) : DurableSurvives true fmt crc := by
  intro φ maxSize evs hw
  exact survives_of_ainv
    (ainv_foldl true φ evs (Actor.init maxSize) (inv_init fmt crc maxSize) hw (Or.inl rfl))

/-- the same for the schedule the real loop follows (bursts of writers, `group_commit_max_entries`) -/
theorem durable_survives_groups (fmt : Format) (crc : Bytes → Nat) (φ : Nat → Outcome) (maxSize maxEntries : Nat)
    (gs : List (List Write)) (hw : ∀ g ∈ gs, ∀ w ∈ g, w.Ok fmt crc) :
    ∀ r ∈ (Actor.runGroups true φ fmt crc maxSize maxEntries gs).acks, r.res = .ok →
      ∀ t st, r.io ≤ t →
        (Actor.runGroups true φ fmt crc maxSize maxEntries gs).rot.w.storeAt t = some st →
        r.entry ∈ durable fmt crc st := by
  apply survives_of_ainv
  unfold Actor.runGroups
  generalize hinit : Actor.init maxSize = a0
  have h0 : AInv fmt crc a0 := by rw [← hinit]; exact inv_init fmt crc maxSize
  clear hinit
  induction gs generalizing a0 with
  | nil => exact h0
  | cons g gs ih =>
    simp only [List.foldl_cons]
    exact ih (fun g' hg' => hw g' (List.mem_cons_of_mem _ hg')) _
      (ainv_runGroup φ maxEntries g a0 h0 (hw g (by simp)))

-- non-vacuity: a fitting write of the current format; on the current code the two workloads
-- that broke the old rotator (see below) lose nothing that was acknowledged
example : (⟨1, [1, 2, 3], 7⟩ : Write).Ok .v2 Driver.crc32 := by decide +kernel

/-! ## every write is answered exactly once; file sequence numbers only grow -/

/-- once the mailbox has been drained (a final `flush`), nothing is left pending and the
    multiset of answered ids is exactly the multiset of ids written: every `write_durable` call
    gets exactly one ack — either code variant, every fault oracle, every batching -/
theorem acks_exactly_once (fix : Bool) (fmt : Format) (φ : Nat → Outcome) (crc : Bytes → Nat)
    (maxSize : Nat) (evs : List Ev) :
    (Actor.run fix φ fmt crc maxSize (evs ++ [.flush])).pending = [] ∧
    List.Perm ((Actor.run fix φ fmt crc maxSize (evs ++ [.flush])).acks.map (·.id))
      (evs.flatMap Ev.ids) := by
  have hlen := pending_len_foldl fix fmt φ crc evs (Actor.init maxSize) rfl
  have hperm := ids_foldl_perm fix fmt φ crc (evs ++ [.flush]) (Actor.init maxSize)
  unfold Actor.run at *
  rw [List.foldl_append] at hperm ⊢
  simp only [List.foldl_cons, List.foldl_nil] at hperm ⊢
  generalize evs.foldl (Actor.step fix φ fmt crc) (Actor.init maxSize) = a at hlen hperm ⊢
  have hp : (Actor.step fix φ fmt crc a .flush).pending = [] := by
    simp only [Actor.step, Actor.flush]
    split
    · rename_i h0
      exact List.length_eq_zero_iff.mp (by rw [hlen, h0])
    · rfl
  refine ⟨hp, ?_⟩
  simp only [Actor.ids, hp, List.map_nil, List.append_nil, Actor.init, List.nil_append,
    List.flatMap_append, List.flatMap_cons, List.flatMap_nil, Ev.ids] at hperm
  exact hperm

/-- `rotation_keeps_sequence_monotone`: along every run the `create` calls use strictly
    increasing sequence numbers (trace is newest first), none above `current_sequence`, and
    `current_sequence` never decreases — so recovery's sequence order is append order -/
theorem rotation_keeps_sequence_monotone (fix : Bool) (fmt : Format) (φ : Nat → Outcome)
    (crc : Bytes → Nat) (maxSize : Nat) (evs more : List Ev) :
    (createSeqs (Actor.run fix φ fmt crc maxSize evs).rot.w.trace).Pairwise (· > ·) ∧
    (∀ s ∈ createSeqs (Actor.run fix φ fmt crc maxSize evs).rot.w.trace,
      s ≤ (Actor.run fix φ fmt crc maxSize evs).rot.seq) ∧
    (Actor.run fix φ fmt crc maxSize evs).rot.seq
      ≤ (Actor.run fix φ fmt crc maxSize (evs ++ more)).rot.seq := by
  have h0 : RSeq (Actor.init maxSize).rot := ⟨List.Pairwise.nil, fun s hs => by cases hs⟩
  obtain ⟨h1, _⟩ := rseq_foldl fix fmt φ crc evs (Actor.init maxSize) h0
  refine ⟨h1.1, h1.2, ?_⟩
  unfold Actor.run
  rw [List.foldl_append]
  exact (rseq_foldl fix fmt φ crc more _ h1).2

/-! ## the code before the fix (`syncBeforeDrop = false`) -/

/-- what held for the old rotator: on every run on which no writer is dropped between two
    group fsyncs (`Actor.quiet`, decidable: no rotation of a live writer and no append error since
    the previous fsync) acknowledged writes survive every crash — whatever the fsync faults,
    create faults, batching and crash index -/
theorem durable_survives_partial (fmt : Format) (crc : Bytes → Nat) (φ : Nat → Outcome) (maxSize : Nat)
    (evs : List Ev) (hw : ∀ w, Ev.write w ∈ evs → w.Ok fmt crc)
    (hq : Actor.quiet φ fmt crc evs (Actor.init maxSize) = true) :
    ∀ r ∈ (Actor.run false φ fmt crc maxSize evs).acks, r.res = .ok →
      ∀ t st, r.io ≤ t → (Actor.run false φ fmt crc maxSize evs).rot.w.storeAt t = some st →
        r.entry ∈ durable fmt crc st :=
  survives_of_ainv
    (ainv_foldl false φ evs (Actor.init maxSize) (inv_init fmt crc maxSize) hw (Or.inr hq))

def w1 : Write := ⟨1, [1], 1⟩
def w2 : Write := ⟨2, [2], 2⟩
def w3 : Write := ⟨3, [3], 3⟩

/-- failing fsync at call 3, then a retry: quiet, and two entries end up acknowledged -/
def quietFaults : Nat → Outcome := fun i => if i = 3 then .fail else .ok

-- non-vacuity of `quiet`: one file, two batches, an fsync fault in between
example : Actor.quiet quietFaults .v1 Driver.crc32 [.write w1, .flush, .write w2, .write w3, .flush]
    (Actor.init 1000) = true := by decide +kernel

example : ((Actor.run false quietFaults .v1 Driver.crc32 1000
    [.write w1, .flush, .write w2, .write w3, .flush]).acks.map (fun r => (r.id, r.res)))
    = [(3, .ok), (2, .ok), (1, .err .fsync)] := by decide +kernel

theorem w123_ok : w1.Ok .v1 Driver.crc32 ∧ w2.Ok .v1 Driver.crc32 ∧ w3.Ok .v1 Driver.crc32 := by decide +kernel

/-- one entry per file (threshold 17), three writers in one batch, no fault at all: the single
    fsync covers only file 3 -/
def rotationRun : Actor :=
  Actor.run false (fun _ => .ok) .v1 Driver.crc32 17 [.write w1, .write w2, .write w3, .flush]

/-- the old rotator violated the property: all three writes are acknowledged `Ok` after the
    10th I/O call, and recovery of the crash image at that instant returns only the third -/
theorem rotation_counterexample : ¬ DurableSurvives false .v1 Driver.crc32 := by
  intro h
  have hmem : (⟨1, Entry.mk' .v1 Driver.crc32 [1] 1, .ok, 10⟩ : AckRec) ∈ rotationRun.acks := by
    decide +kernel
  have hst : rotationRun.rot.w.storeAt 10 = some rotationRun.rot.w.store := by decide +kernel
  have := h (fun _ => .ok) 17 [.write w1, .write w2, .write w3, .flush]
    (by
      intro w hw
      simp only [List.mem_cons, Ev.write.injEq, List.not_mem_nil, or_false, reduceCtorEq] at hw
      rcases hw with rfl | rfl | rfl
      · exact w123_ok.1
      · exact w123_ok.2.1
      · exact w123_ok.2.2) _ hmem rfl 10 _ (Nat.le_refl _) hst
  revert this
  decide +kernel

/-- what recovery returns at that crash instant -/
theorem rotation_counterexample_recovers :
    (durable .v1 Driver.crc32 rotationRun.rot.w.store).map (·.ts) = [3] := by decide +kernel

/-- one file; the append of the second entry of the batch fails (I/O call 3) -/
def appendErrorRun : Actor :=
  Actor.run false (fun i => if i = 3 then .fail else .ok) .v1 Driver.crc32 1000
    [.write w1, .write w2, .flush]

/-- … the writer is dropped, `sync()` returns `Ok` without issuing any call, write 1 is
    acknowledged `Ok` and is lost by a crash -/
theorem append_error_counterexample : ¬ DurableSurvives false .v1 Driver.crc32 := by
  intro h
  have hmem : (⟨1, Entry.mk' .v1 Driver.crc32 [1] 1, .ok, 4⟩ : AckRec) ∈ appendErrorRun.acks := by
    decide +kernel
  have hst : appendErrorRun.rot.w.storeAt 4 = some appendErrorRun.rot.w.store := by decide +kernel
  have := h (fun i => if i = 3 then .fail else .ok) 1000 [.write w1, .write w2, .flush]
    (by
      intro w hw
      simp only [List.mem_cons, Ev.write.injEq, List.not_mem_nil, or_false, reduceCtorEq] at hw
      rcases hw with rfl | rfl
      · exact w123_ok.1
      · exact w123_ok.2.1) _ hmem rfl 4 _ (Nat.le_refl _) hst
  revert this
  decide +kernel

/-- the same two workloads on the repaired code: nothing acknowledged is lost (instances of
    `durable_survives`, evaluated) -/
theorem repaired_on_witnesses :
    (durable .v2 Driver.crc32
        (Actor.run true (fun _ => .ok) .v2 Driver.crc32 17
          [.write w1, .write w2, .write w3, .flush]).rot.w.store).map (·.ts) = [1, 2, 3] ∧
    ((Actor.run true (fun i => if i = 3 then .fail else .ok) .v2 Driver.crc32 1000
        [.write w1, .write w2, .flush]).acks.map (fun r => (r.id, r.res)))
      = [(1, .err .fsync), (2, .err .io)] := by decide +kernel

end C09
end RedisVerif
