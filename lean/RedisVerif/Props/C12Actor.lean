import RedisVerif.Props.C12
import RedisVerif.Lemmas.StreamActor

/-!
# C12 above the writer — sink → bridge → bounded mailbox → persistence actor → `flush`

Model: `StreamActor.run` (M4b): every schedule of the three tasks of `integration.rs` (the code
that calls `DeltaSinkSender::send`, the bridge `run_delta_sink_bridge`, `PersistenceActor::run`)
is a list of events `send | drain | bridgeTick | stopBridge | reqPush | reqFlush | reqShutdown |
actor sz | advance ms`; the store calls of every flush are decided by the same fault oracle as in
`Props/C12.lean` (so every crash point and every transient failure is covered); the write-buffer
configuration (`flush_interval`, `max_size_bytes`, `max_deltas`, `backpressure_threshold_bytes`)
and the mailbox capacity are universally quantified.

* `actor_refines_stream_run` — the store, the buffer and the confirmed set of every actor run are
  those of a `Stream.run` of pushes and flushes whose pushes are exactly the accepted updates:
  every theorem of `Props/C12.lean` lifts; `actor_crash_consistent` is the lifted
  `crash_consistent_flush_partial`.
* `accepted_update_never_discarded` — the third sentence of C12 at this level: whatever `push`
  accepted is in the buffer or in a confirmed segment, after every event, for every oracle
  (failed flushes, death of the process), every configuration.
* `sink_conservation` — nothing handed to the sink is unaccounted for: it is on its way (sink,
  mailbox, buffer), confirmed, rejected by back-pressure (logged), skipped (rest of a batch after
  the first rejected update), or dropped without a trace (`let _ = try_send(..)` on a full or
  closed mailbox, `send` after the bridge is gone, messages still queued when the actor exits).
* `C12_sink_nothing_lost` (full strength: the last two classes stay empty) is FALSE for the code
  that exists — by design ("fire-and-forget … best-effort durability", integration.rs) —:
  `mailbox_full_drop_counterexample`, `batch_remainder_skipped_counterexample`,
  `send_after_bridge_exit_counterexample`; `sink_nothing_lost_partial` proves it while the process
  keeps running below the mailbox capacity and the back-pressure threshold.
* `write_buffer_failed_flush_drops_counterexample` — the pinned stand-alone `WriteBuffer::flush`
  (write_buffer.rs) took the deltas before the `put` and dropped them when it failed (fixed defect,
  ed7c4a2); `write_buffer_failed_flush_keeps_repaired` / `_current` for the repaired tree.
-/
namespace RedisVerif
namespace C12

open _root_.RedisVerif.Stream _root_.RedisVerif.StreamActor

/-! ## refinement -/

/-- **the actor refines `Stream.run`** — every configuration, capacity, oracle, event trace -/
theorem actor_refines_stream_run (F : Oracle) (cfg : WbCfg) (cap : Nat) (st : Store) (rid now : Nat)
    (evs : List Ev) :
    ∃ ops, NoCompaction ops ∧
      core (StreamActor.run F cfg cap (A.init st rid now) evs) = Stream.run F (Sys.init st rid) ops ∧
      (StreamActor.run F cfg cap (A.init st rid now) evs).accepted = pushes ops := by
  obtain ⟨ops, h1, h2, h3⟩ := core_run F cfg cap (A.init st rid now) evs
  exact ⟨ops, h1, h2, by simpa [A.init] using h3⟩

/-- **crash consistency above the writer**: for every write-buffer configuration, mailbox
    capacity, fault oracle (hence every crash point and every failed store call) and every
    schedule of sends, bridge iterations, ticks, flush / shutdown requests and actor steps:
    recovery succeeds on the store that is left, the manifest references only complete objects,
    and every update of every flush that returned `Ok` is among the updates recovery returns. -/
theorem actor_crash_consistent (F : Oracle) (cfg : WbCfg) (cap : Nat) (rid now : Nat) (evs : List Ev) :
    OkAnd (recover (StreamActor.run F cfg cap (A.init [] rid now) evs).w.store rid) (fun r =>
      ∀ d ∈ (StreamActor.run F cfg cap (A.init [] rid now) evs).acked, d ∈ r.updates) ∧
    refsComplete (StreamActor.run F cfg cap (A.init [] rid now) evs).w.store = true := by
  obtain ⟨ops, hno, hcore, _⟩ := actor_refines_stream_run F cfg cap [] rid now evs
  have hw : (StreamActor.run F cfg cap (A.init [] rid now) evs).w = (Stream.run F (Sys.init [] rid) ops).w :=
    congrArg Sys.w hcore
  have ha : (StreamActor.run F cfg cap (A.init [] rid now) evs).acked = (Stream.run F (Sys.init [] rid) ops).acked :=
    congrArg Sys.acked hcore
  rw [hw, ha]
  exact ⟨crash_consistent_flush_partial current F rid ops hno, (crash_consistent_structural current F rid ops).2⟩

/-- **bounded memory**: the mailbox never holds more than `cap` messages — the purpose of the
    bounded channel, for every schedule -/
theorem mailbox_never_exceeds_capacity (F : Oracle) (cfg : WbCfg) (cap : Nat) (st : Store) (rid now : Nat)
    (evs : List Ev) : (StreamActor.run F cfg cap (A.init st rid now) evs).mailbox.length ≤ cap :=
  TraceInv.run_inv (step F cfg cap) (fun a => a.mailbox.length ≤ cap)
    (fun s e hs => bounded_step F cfg cap s e hs) (A.init st rid now) (by simp [A.init]) evs

/-! ## what `push` accepted is never discarded -/

/-- **an accepted update is never discarded** — after every event of every schedule, for every
    oracle and configuration, the accepted updates are exactly the buffer plus the confirmed ones -/
theorem accepted_update_never_discarded (F : Oracle) (cfg : WbCfg) (cap : Nat) (st : Store) (rid now : Nat)
    (evs : List Ev) :
    List.Perm (StreamActor.run F cfg cap (A.init st rid now) evs).accepted
      ((StreamActor.run F cfg cap (A.init st rid now) evs).x.p.buffer ++
       (StreamActor.run F cfg cap (A.init st rid now) evs).acked) := by
  rw [List.perm_iff_count]
  intro d
  have := (inv_run F cfg cap _ evs (inv_init st rid now)).2 d
  rw [this, List.count_append]

/-! ## conservation -/

/-- **conservation**: every update handed to the sink is on its way, confirmed, rejected, skipped
    or dropped — as multisets, after every event of every schedule -/
theorem sink_conservation (F : Oracle) (cfg : WbCfg) (cap : Nat) (st : Store) (rid now : Nat) (evs : List Ev) :
    List.Perm (StreamActor.run F cfg cap (A.init st rid now) evs).sent
      (inFlight (StreamActor.run F cfg cap (A.init st rid now) evs) ++
       (StreamActor.run F cfg cap (A.init st rid now) evs).acked ++
       (StreamActor.run F cfg cap (A.init st rid now) evs).rejected ++
       (StreamActor.run F cfg cap (A.init st rid now) evs).skipped ++
       (StreamActor.run F cfg cap (A.init st rid now) evs).dropped) := by
  rw [List.perm_iff_count]
  intro d
  have := (inv_run F cfg cap _ evs (inv_init st rid now)).1 d
  rw [this]
  simp only [ledger, inFlight, List.count_append]

/-- full-strength statement: nothing handed to the sink is lost without at least a log line -/
def C12_sink_nothing_lost (cap : Nat) : Prop :=
  ∀ (F : Oracle) (cfg : WbCfg) (rid now : Nat) (evs : List Ev),
    (StreamActor.run F cfg cap (A.init [] rid now) evs).skipped = [] ∧
    (StreamActor.run F cfg cap (A.init [] rid now) evs).dropped = []

def sd (k v t klen : Nat) : SDelta := (c12Delta k v t, klen)

def bigCfg : WbCfg := { intervalNs := 3600000000000, maxSize := 1000000, maxDeltas := 1000000, backpressure := 1000000 }

/-- the mailbox is full (here: capacity 1, the real one is `channelCapacity`): the batch of the
    second bridge iteration is dropped by `let _ = try_send(..)` — no error, no log -/
theorem mailbox_full_drop_counterexample : ¬ C12_sink_nothing_lost 1 := by
  intro h
  have := (h allOk bigCfg 1 0 [.send (sd 97 1 5 1), .drain, .send (sd 98 2 6 1), .drain]).2
  revert this
  decide

/-- back-pressure inside a batch: the first update is accepted (the check precedes the add), the
    second is rejected (logged) and the loop `break`s: the third is never attempted -/
theorem batch_remainder_skipped_counterexample : ¬ C12_sink_nothing_lost channelCapacity := by
  intro h
  have := (h allOk { bigCfg with backpressure := 1 } 1 0
    [.send (sd 97 1 5 1), .send (sd 98 2 6 1), .send (sd 99 3 7 1), .drain, .actor 100]).1
  revert this
  decide

/-- a `send` after the bridge task has ended returns `Err(Disconnected)`, which
    `ReplicatedShardedState::execute` ignores -/
theorem send_after_bridge_exit_counterexample : ¬ C12_sink_nothing_lost channelCapacity := by
  intro h
  have := (h allOk bigCfg 1 0 [.stopBridge, .send (sd 97 1 5 1)]).2
  revert this
  decide

/-- **nothing is lost while the process keeps running, partial form of `C12_sink_nothing_lost`**:
    decidable hypotheses — no shutdown is requested (`keepsRunning`), the trace is no longer than
    the mailbox capacity (so no `try_send` can find it full), and the byte estimates of everything
    handed in stay within the back-pressure threshold.  Then, for every fault oracle (failed
    flushes, death of the process), every flush configuration and every interleaving: nothing is
    rejected, skipped or dropped — every update handed to the sink is on its way or confirmed. -/
theorem sink_nothing_lost_partial (F : Oracle) (cfg : WbCfg) (cap : Nat) (rid now : Nat) (evs : List Ev)
    (hrun : ∀ e ∈ evs, e.keepsRunning = true) (hcap : evs.length ≤ cap)
    (hbp : evsEst evs ≤ cfg.backpressure) :
    (StreamActor.run F cfg cap (A.init [] rid now) evs).rejected = [] ∧
    (StreamActor.run F cfg cap (A.init [] rid now) evs).skipped = [] ∧
    (StreamActor.run F cfg cap (A.init [] rid now) evs).dropped = [] ∧
    List.Perm (StreamActor.run F cfg cap (A.init [] rid now) evs).sent
      (inFlight (StreamActor.run F cfg cap (A.init [] rid now) evs) ++
       (StreamActor.run F cfg cap (A.init [] rid now) evs).acked) := by
  have hq0 : Quiet (A.init [] rid now) 0 0 := by
    refine ⟨rfl, rfl, by simp [A.init], by simp [A.init, PX.init, mboxEst, estOf_nil], rfl, rfl, rfl, by simp [A.init]⟩
  have hq := quiet_run F cfg cap evs (A.init [] rid now) 0 0 hq0 hrun (by omega) (by omega)
  obtain ⟨_, _, _, _, hr, hs, hd, _⟩ := hq
  refine ⟨hr, hs, hd, ?_⟩
  have := sink_conservation F cfg cap [] rid now evs
  rw [hr, hs, hd] at this
  simpa using this

/-- non-vacuity: a trace with a failed flush satisfies the hypotheses and confirms something -/
example :
    let evs : List Ev := [.send (sd 97 1 5 1), .send (sd 98 2 6 1), .drain, .actor 100, .bridgeTick, .actor 100,
                          .send (sd 99 3 7 1), .drain, .actor 100]
    let cfg : WbCfg := { bigCfg with maxDeltas := 2 }
    let F : Oracle := fun n => if n = 1 then .fail else .ok
    (∀ e ∈ evs, e.keepsRunning = true) ∧ evs.length ≤ channelCapacity ∧ evsEst evs ≤ cfg.backpressure ∧
    (StreamActor.run F cfg channelCapacity (A.init [] 1 0) evs).acked.length = 2 ∧
    (StreamActor.run F cfg channelCapacity (A.init [] 1 0) evs).x.p.buffer.length = 1 ∧
    (StreamActor.run F cfg channelCapacity (A.init [] 1 0) evs).w.calls = 6 := by
  decide

/-- on those traces the other classes behave as the conservation theorem says (non-vacuity of
    the classes): one accepted + one rejected + one skipped; and a dropped batch -/
example :
    let a := StreamActor.run allOk { bigCfg with backpressure := 1 } channelCapacity (A.init [] 1 0)
      [.send (sd 97 1 5 1), .send (sd 98 2 6 1), .send (sd 99 3 7 1), .drain, .actor 100]
    a.accepted = [c12Delta 97 1 5] ∧ a.rejected = [c12Delta 98 2 6] ∧ a.skipped = [c12Delta 99 3 7] ∧
    a.x.p.buffer = [c12Delta 97 1 5] ∧ a.dropped = [] := by
  decide

/-! ## the stand-alone WriteBuffer -/

/-- full-strength statement for `WriteBuffer::flush`, parameterised by the code variant -/
def C12_write_buffer_failed_flush_keeps (restore : Bool) : Prop :=
  ∀ (F : Oracle) (w : World) (b : WB),
    (wbFlushWith restore F w b).2.2 = some false → (wbFlushWith restore F w b).2.1.deltas = b.deltas

/-- **fixed defect C12:write-buffer:failed-flush-drops-buffer** (pinned variant; repaired by ed7c4a2): two
    accepted updates, the `put` fails: `flush` returns `Err` and `pending_count()` is 0 -/
theorem write_buffer_failed_flush_drops_counterexample : ¬ C12_write_buffer_failed_flush_keeps false := by
  intro h
  have := h (fun _ => .fail) (World.init []) { deltas := [c12Delta 97 1 5, c12Delta 98 2 6], bytes := 146, counter := 0 }
    (by decide)
  revert this
  decide

/-- the repaired variant keeps them (and the byte count), for every oracle -/
theorem write_buffer_failed_flush_keeps_repaired : C12_write_buffer_failed_flush_keeps true := by
  intro F w b h
  unfold wbFlushWith at h ⊢
  cases hb : b.deltas with
  | nil => rw [hb] at h; simp at h
  | cons d0 rest =>
    rw [hb] at h
    simp only at h ⊢
    cases hp : w.put F (wbName b.counter) (Obj.segment (d0 :: rest)) with
    | mk w' res =>
      rw [hp] at h
      cases res with
      | ok u => simp at h
      | err e => simp

/-- the current tree is the repaired variant (`StreamActor.wbRestores = true` since ed7c4a2) -/
theorem write_buffer_current : wbFlush = wbFlushWith wbRestores := rfl

/-- … so the current `WriteBuffer::flush` keeps the accepted updates on every error -/
theorem write_buffer_failed_flush_keeps_current (F : Oracle) (w : World) (b : WB)
    (h : (wbFlush F w b).2.2 = some false) : (wbFlush F w b).2.1.deltas = b.deltas :=
  write_buffer_failed_flush_keeps_repaired F w b h

/-- an `Ok` flush of the WriteBuffer empties it and stores the segment under the counter name -/
theorem write_buffer_ok_flush (restore : Bool) (F : Oracle) (w : World) (b : WB)
    (h : (wbFlushWith restore F w b).2.2 = some true) :
    (wbFlushWith restore F w b).2.1.deltas = [] ∧
    NMap.get (wbFlushWith restore F w b).1.store (wbName b.counter) = some (.segment b.deltas) := by
  unfold wbFlushWith at h ⊢
  cases hb : b.deltas with
  | nil => rw [hb] at h; simp at h
  | cons d0 rest =>
    rw [hb] at h
    simp only at h ⊢
    cases hp : w.put F (wbName b.counter) (Obj.segment (d0 :: rest)) with
    | mk w' res =>
      rw [hp] at h
      cases res with
      | err e => simp at h
      | ok u =>
        simp only
        refine ⟨trivial, ?_⟩
        rw [put_ok hp, NMap.get_insert]
        simp

/-! ## what C12 needs from `ObjectStore::put`, and what `LocalFsObjectStore::put` gives

The crash-consistency theorems quantify over oracles with `crash` (the call had no effect) and
`crashPartial` / `failPartial` (an object every parser rejects is left under the target name, an
older object under that name is gone).  `LocalFsObjectStore::put` writes in place
(`tokio::fs::write`: create + truncate, then `write_all`), so it is NOT atomic — but every
intermediate file content is a proper prefix of the object, and the formats reject every proper
prefix (checked exhaustively on real segments / checkpoints / manifests by harness/src/c12x.rs):
its crash images are exactly those three. -/

/-- every file content during the write is a prefix of the object's bytes -/
theorem localfs_put_content_is_prefix (data lens : List Nat) (k : Nat) (c : List Nat)
    (h : fsAfter data lens k = some c) : ∃ n, c = data.take n := by
  cases k with
  | zero => simp [fsAfter] at h
  | succ k => simp only [fsAfter, Option.some.injEq] at h; exact ⟨_, h.symm⟩

/-- **the crash images of the in-place write are those of the model's `put`**: for a format whose
    reader rejects every proper prefix of an encoding, after any number of file-level steps a
    reader of the final name sees the old object (`crash`), nothing it accepts (`crashPartial`:
    torn), or the complete new object -/
theorem localfs_put_crash_images (parse : List Nat → Option Obj) (data : List Nat) (o : Obj)
    (hfull : parse data = some o) (hpre : ∀ n, n < data.length → parse (data.take n) = none)
    (old : Option (List Nat)) (lens : List Nat) (k : Nat) :
    (fsVisible old data lens k).bind parse = old.bind parse ∨
    (fsVisible old data lens k).bind parse = none ∨
    (fsVisible old data lens k).bind parse = some o := by
  unfold fsVisible
  cases hk : fsAfter data lens k with
  | none => exact Or.inl rfl
  | some c =>
    obtain ⟨n, hn⟩ := localfs_put_content_is_prefix data lens k c hk
    subst hn
    by_cases hlt : n < data.length
    · exact Or.inr (Or.inl (by simp [hpre n hlt]))
    · right; right
      have : data.take n = data := List.take_of_length_le (by omega)
      simp [this, hfull]

/-- … and it is not atomic: an older complete object under the name is destroyed by a `put` that
    never completes (first step = truncate) — the model's `crashPartial` / `failPartial` -/
theorem localfs_put_not_atomic :
    ∃ (parse : List Nat → Option Obj) (data lens : List Nat) (old : List Nat) (k : Nat),
      parse old ≠ none ∧ (fsVisible (some old) data lens k).bind parse = none := by
  refine ⟨fun b => if b = [7] then some .torn else if b = [1, 2] then some (.segment []) else none,
    [1, 2], [1, 1], [7], 1, by decide, by decide⟩

end C12
end RedisVerif
