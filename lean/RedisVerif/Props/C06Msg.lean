import RedisVerif.Props.C06
import RedisVerif.Lemmas.GossipSim

/-!
# C06, message level — the code between `record_*` and `apply_remote_delta`

Model `Model/Gossip.lean`: per node the shard with its bounded outbox `pending_deltas`
(`MAX_PENDING_DELTAS`, oldest dropped), the `GossipState` (epoch, bounded outbound queue
`MAX_OUTBOUND_QUEUE`, oldest dropped, optional selective router), the configuration the gossip
loop reads (peers, `enabled`, what `collect_deltas` returns, the peer-id arithmetic of the loop's
`peer_map`); a wire of frames the network may hand over in any order, any number of times, or
never; events: client command, gossip-loop tick (with an oracle bit per send), heartbeat,
`set_router`, reception (with "frame above the size limit").

* `msg_refines_cluster` — **refinement to layer 1**: every message-level execution, of any
  length, with any capacities, any losses, is an execution of the cluster model
  (`Model/Cluster.lean`) with exactly the same local operations in the same order and some
  `deliver` events in between: each delta is delivered 0..n times, never altered, never invented.
  So every layer-1 theorem (`rs_converges_*`, `winner_is_max_stamp`, `sent_dominated_of_run`) holds
  of the replication states of every message-level execution (`msg_level_converges_among`).
* `rs_converges_among` — layer 1 for a SET of responsible replicas (selective gossip, a
  replication factor that changed at run time): once every delta of the key has reached every
  replica of `S`, the replicas of `S` agree — whatever the others hold, whoever wrote.
* `non_owner_writer_stays_stale` — with selective gossip a node outside the key's replica set that
  accepted a write is never told about later writes: it answers differently from the responsible
  replicas although every update has reached every responsible replica (the property's
  "including the node that accepted the write" fails for such a writer).
* loss for good, one kernel-checked witness per cause — `outbound_overflow_loses_delta`,
  `pending_overflow_loses_delta`, `send_failure_loses_delta`, `unfixed_peer_map_loses_delta`
  (the gossip loops' `peer_map` still has the off-by-one that faccb9f repaired in
  `GossipRouter::from_config`), `oversized_frame_loses_delta`: in each the network delivers every
  frame it was given, no node crashes, and two replicas disagree for ever (no anti-entropy in the
  production binary).  `Props/C06Delivery.lean` states the converse: with none of these losses
  every delta reaches every replica it was routed to.
-/
namespace RedisVerif
namespace C06

open Cluster Gossip Gossip.MCluster

/-! ## layer 1 for a set of responsible replicas -/

/-- every delta issued for key `k` has been applied at every replica of `S` other than its origin -/
def DeliveredTo (c : Cluster) (S : List Nat) (k : Nat) : Prop :=
  ∀ m ∈ c.sent, m.key = k → ∀ j ∈ S, j ≠ m.origin → (⟨j, k, m.val⟩ : Absorbed) ∈ c.log

instance (c : Cluster) (S : List Nat) (k : Nat) : Decidable (DeliveredTo c S k) := by
  unfold DeliveredTo; infer_instance

/-- the replicas of `S` agree on the CRDT content and stamp of key `k` -/
def AgreeAmong (c : Cluster) (S : List Nat) (k : Nat) : Prop :=
  ∀ i ∈ S, ∀ j ∈ S, ∀ (si sj : Shard), c.nodes[i]? = some si → c.nodes[j]? = some sj →
    (NMap.get si.keys k).map RV.strip = (NMap.get sj.keys k).map RV.strip

theorem same_absorbed_among {U : List Msg} {k K : Nat} {c : Cluster} (hj : J U k K c) (hsl : SentLog c)
    {S : List Nat} (hd : DeliveredTo c S k) (i j : Nat) (hjS : j ∈ S) :
    ∀ v, v ∈ c.absorbed i k → v ∈ c.absorbed j k := by
  intro v hv
  simp only [absorbed, List.mem_filterMap] at hv ⊢
  obtain ⟨a, ha, hav⟩ := hv
  split at hav
  · rename_i hcond
    simp only [Option.some.injEq] at hav
    obtain ⟨m, hm, hmk, hmv⟩ := hj.log_sent a ha
    have hmk' : m.key = k := by rw [hmk]; exact hcond.2
    by_cases ho : j = m.origin
    · refine ⟨⟨m.origin, m.key, m.val⟩, hsl m hm, ?_⟩
      simp [ho, hmk', hmv, hav]
    · refine ⟨⟨j, k, m.val⟩, hd m hm hmk' j hjS ho, ?_⟩
      simp [hmv, hav]
  · cases hav

/-- **C06 for the replicas responsible for the key**: any number of nodes, any history, any set
    `S` of replicas; every delta of `k` applied at every replica of `S` (other than its origin) ⇒
    the replicas of `S` hold the same content and stamp.  (`S` = all nodes is
    `rs_converges_partial`.) -/
theorem rs_converges_among (n : Nat) (causal : Bool) (evs : List Ev) (k K : Nat) (S : List Nat)
    (hk : KindStable ((init n causal).run evs) k K)
    (hd : DeliveredTo ((init n causal).run evs) S k) : AgreeAmong ((init n causal).run evs) S k := by
  have hc := compat_of_kind_stable n causal evs k K hk
  have hj : J ((init n causal).run evs).sent k K ((init n causal).run evs) :=
    J_run hc (init n causal) evs (J_init _ k K n causal) (fun m hm => hm)
  intro i hiS j hjS si sj hsi hsj
  rw [hj.value i si hsi, hj.value j sj hsj]
  exact foldOpt_eq_of_same_elems hc.1 (absorbed_in_carrier hc hj i) (absorbed_in_carrier hc hj j)
    (fun v => ⟨same_absorbed_among hj (sentLog_run _ evs (sentLog_init n causal)) hd i j hjS v,
      same_absorbed_among hj (sentLog_run _ evs (sentLog_init n causal)) hd j i hiS v⟩)

theorem delivered_to_all (c : Cluster) (k : Nat) :
    Delivered c k ↔ DeliveredTo c (List.range c.nodes.length) k := by
  unfold Delivered DeliveredTo
  constructor
  · intro h m hm hk j hj ho; exact h m hm hk j (List.mem_range.mp hj) ho
  · intro h m hm hk j hj ho; exact h m hm hk j (List.mem_range.mpr hj) ho

/-! ## refinement -/

theorem init_nodes_get (causal : Bool) (cfgs : List NodeCfg) (i : Nat) (nd : MNode)
    (h : (MCluster.init causal cfgs).nodes[i]? = some nd) :
    ∃ cfg, cfgs[i]? = some cfg ∧ nd = initNode i causal cfg := by
  simp only [MCluster.init, List.getElem?_map, List.getElem?_zip_eq_some, Option.map_eq_some_iff] at h
  obtain ⟨p, ⟨hr, hc⟩, hnd⟩ := h
  have hlt : i < cfgs.length := (List.getElem?_eq_some_iff.mp hc).1
  rw [List.getElem?_range hlt] at hr
  simp only [Option.some.injEq] at hr
  exact ⟨p.2, hc, by rw [← hnd, ← hr]⟩

theorem init_inv (causal : Bool) (cfgs : List NodeCfg) : MInv (MCluster.init causal cfgs) := by
  refine ⟨?_, ?_, ?_⟩
  · intro i nd h m hm
    obtain ⟨cfg, _, rfl⟩ := init_nodes_get causal cfgs i nd h
    simp [initNode, PShard.init] at hm
  · intro i nd h m hm
    obtain ⟨cfg, _, rfl⟩ := init_nodes_get causal cfgs i nd h
    simp [initNode, GState.init, MCluster.deltasOf] at hm
  · intro pk hpk; simp [MCluster.init] at hpk

theorem init_abs (causal : Bool) (cfgs : List NodeCfg) :
    (MCluster.init causal cfgs).abs = Cluster.init cfgs.length causal := by
  simp only [MCluster.abs, MCluster.init, Cluster.init, List.map_map]
  congr 1
  apply List.ext_getElem?
  intro i
  simp only [List.getElem?_map]
  by_cases hlt : i < cfgs.length
  · have hz : ((List.range cfgs.length).zip cfgs)[i]? = some (i, cfgs[i]) := by
      rw [List.getElem?_zip_eq_some]
      exact ⟨List.getElem?_range hlt, List.getElem?_eq_getElem hlt⟩
    rw [hz, List.getElem?_range hlt]
    simp [initNode, PShard.init]
  · have h1 : ((List.range cfgs.length).zip cfgs)[i]? = none := by
      apply List.getElem?_eq_none
      simp only [List.length_zip, List.length_range]; omega
    have h2 : (List.range cfgs.length)[i]? = none := by
      apply List.getElem?_eq_none; simp only [List.length_range]; omega
    rw [h1, h2]; rfl

/-- **the message level refines the cluster model**: for all capacities, configurations (a node
    may even list itself as a peer: its own deltas then come back to it, which the cluster model
    allows), and event lists — client commands, gossip ticks with arbitrary send failures,
    heartbeats, router changes, receptions in any order / multiplicity, oversized frames — the
    replication states, the history of issued deltas and the absorption log are those of a
    layer-1 execution whose local operations are exactly the client commands, in order; all its
    other events are `deliver`s. -/
theorem msg_refines_cluster (cp : Caps) (causal : Bool) (cfgs : List NodeCfg) (evs : List MEv) :
    ∃ es : List Ev,
      ((MCluster.init causal cfgs).run cp evs).abs = (Cluster.init cfgs.length causal).run es ∧
      es.filter isLoc = evs.flatMap locOf := by
  obtain ⟨_, es, h, hf⟩ := run_sim cp evs (MCluster.init causal cfgs) (init_inv causal cfgs)
  exact ⟨es, by rw [h, init_abs], hf⟩

/-- the layer-1 convergence theorem, stated of the message-level execution itself -/
theorem msg_level_converges_among (cp : Caps) (causal : Bool) (cfgs : List NodeCfg)
    (evs : List MEv) (k K : Nat) (S : List Nat)
    (hk : KindStable ((MCluster.init causal cfgs).run cp evs).abs k K)
    (hd : DeliveredTo ((MCluster.init causal cfgs).run cp evs).abs S k) :
    AgreeAmong ((MCluster.init causal cfgs).run cp evs).abs S k := by
  obtain ⟨es, h, _⟩ := msg_refines_cluster cp causal cfgs evs
  rw [h] at hk hd ⊢
  exact rs_converges_among _ causal es k K S hk hd

/-- every delta on the wire, in any queue, of any message-level execution is dominated, and every
    node satisfies the clock invariant (C08) — lifted from layer 1 -/
theorem msg_level_dominated (cp : Caps) (causal : Bool) (cfgs : List NodeCfg) (evs : List MEv) :
    (∀ nd ∈ ((MCluster.init causal cfgs).run cp evs).nodes, nd.ps.sh.Inv) ∧
    (∀ m ∈ ((MCluster.init causal cfgs).run cp evs).issued, m.val.Dominated) := by
  obtain ⟨es, h, _⟩ := msg_refines_cluster cp causal cfgs evs
  have := sent_dominated_of_run cfgs.length causal es
  rw [← h] at this
  refine ⟨?_, this.2⟩
  intro nd hnd
  exact this.1 nd.ps.sh (by simp only [MCluster.abs, List.mem_map]; exact ⟨nd, hnd, rfl⟩)

/-! ## witnesses: how a delta is lost for good -/

/-- broadcast configuration of node `rid` in a cluster of `n` (peers = all other node indices) -/
def bcast (n rid : Nat) (fixed : Bool) : NodeCfg :=
  { enabled := true, rid := rid, peers := (List.range n).filter (· ≠ rid - 1), collect := false,
    peerIdFixed := fixed, router := none }

def kX : Nat := 120
def kY : Nat := 121
def kZ : Nat := 122

def valueAt (c : MCluster) (i k : Nat) : Option (Option Bytes) :=
  c.nodes[i]?.map (fun nd => (NMap.get nd.ps.sh.keys k).bind RV.get)

/-- "the network did its job": every frame put on the wire was handed over -/
def recvAll (n : Nat) : List MEv := (List.range n).map (fun p => MEv.recv p false)

/-- outbound capacity 2: node 0 accepts SET x, SET y, SET z between two ticks; the tick ships
    what is left of the queue, the network delivers everything — node 1 never learns `x` -/
def overflowRun : List MEv :=
  [ .loc 0 (.write kX [1] none) [], .loc 0 (.write kY [2] none) [], .loc 0 (.write kZ [3] none) [],
    .tick 0 [] [] ] ++ recvAll 2

theorem outbound_overflow_loses_delta :
    let c := (MCluster.init false [bcast 2 1 true, bcast 2 2 true]).run ⟨100, 2⟩ overflowRun
    c.wire.length = 2 ∧ (c.nodes.all (fun nd => nd.g.outbound.isEmpty && nd.ps.pending.length ≤ 100)) ∧
    valueAt c 0 kX = some (some [1]) ∧ valueAt c 1 kX = some none ∧
    valueAt c 1 kY = some (some [2]) ∧ valueAt c 1 kZ = some (some [3]) ∧
    c.lost.map (fun l => (l.1.key, l.2.1)) = [(kX, Loss.outboundOverflow)] ∧
    ¬ DeliveredTo c.abs [0, 1] kX := by
  decide

/-- the same through the shard's outbox (a deployment whose gossip loop collects
    `pending_deltas`, `enabled = false` so that `execute` does not queue as well): capacity 2 -/
def pendingRun : List MEv :=
  [ .loc 0 (.write kX [1] none) [], .loc 0 (.write kY [2] none) [], .loc 0 (.write kZ [3] none) [],
    .tick 0 [] [] ] ++ recvAll 1

theorem pending_overflow_loses_delta :
    let cfg (rid : Nat) : NodeCfg := { bcast 2 rid true with enabled := false, collect := true }
    let c := (MCluster.init false [cfg 1, cfg 2]).run ⟨2, 10000⟩ pendingRun
    valueAt c 0 kX = some (some [1]) ∧ valueAt c 1 kX = some none ∧
    valueAt c 1 kY = some (some [2]) ∧ valueAt c 1 kZ = some (some [3]) ∧
    c.lost.map (fun l => (l.1.key, l.2.1)) = [(kX, Loss.pendingOverflow)] := by
  decide

/-- a send that fails is not repeated: three nodes, the frame for node 2 fails once -/
def sendFailRun : List MEv :=
  [ .loc 0 (.write kX [1] none) [], .tick 0 [] [true, false], .tick 0 [] [], .tick 0 [] [] ] ++ recvAll 3

theorem send_failure_loses_delta :
    let c := (MCluster.init false [bcast 3 1 true, bcast 3 2 true, bcast 3 3 true]).run caps sendFailRun
    valueAt c 1 kX = some (some [1]) ∧ valueAt c 2 kX = some none ∧
    c.lost.map (fun l => (l.1.key, l.2.1, l.2.2)) = [(kX, Loss.sendFailed, some 2)] := by
  decide

/-- selective gossip through the gossip loop as it is (`peerIdFixed = false`): replica 1 of 3,
    the key's targets are replicas 2 and 3; the loop's `peer_map` knows ids {1, 3} — the frame for
    replica 2 has no address and is dropped; with the repaired arithmetic it arrives -/
def selRouter : Router := { selective := true, targets := [(kX, [2, 3])] }

def selCfg (n rid : Nat) (fixed : Bool) : NodeCfg := { bcast n rid fixed with router := some selRouter }

def peerMapRun : List MEv := [ .loc 0 (.write kX [1] none) [], .tick 0 [] [] ] ++ recvAll 2

theorem unfixed_peer_map_loses_delta :
    let c := (MCluster.init false [selCfg 3 1 false, selCfg 3 2 false, selCfg 3 3 false]).run caps peerMapRun
    let c' := (MCluster.init false [selCfg 3 1 true, selCfg 3 2 true, selCfg 3 3 true]).run caps peerMapRun
    peerMap (selCfg 3 1 false) = [(1, 1), (3, 2)] ∧ peerMap (selCfg 3 1 true) = [(2, 1), (3, 2)] ∧
    valueAt c 1 kX = some none ∧ valueAt c 2 kX = some (some [1]) ∧
    c.lost.map (fun l => (l.1.key, l.2.1)) = [(kX, Loss.noAddress)] ∧
    valueAt c' 1 kX = some (some [1]) ∧ valueAt c' 2 kX = some (some [1]) ∧ c'.lost = [] := by
  decide

/-- a frame above the receiver's limit is dropped (and never re-sent) -/
theorem oversized_frame_loses_delta :
    let c := (MCluster.init false [bcast 2 1 true, bcast 2 2 true]).run caps
      [ .loc 0 (.write kX [1] none) [], .tick 0 [] [], .recv 0 true ]
    valueAt c 1 kX = some none ∧ c.lost.map (fun l => (l.1.key, l.2.1, l.2.2)) = [(kX, Loss.tooLarge, some 1)] := by
  decide

/-! ## selective gossip: a writer outside the replica set -/

/-- four nodes; key `x` is replicated on replicas 1 and 2 (nodes 0, 1).  Node 3 (replica 4, not
    responsible) accepts `SET x a` and ships it to both owners; node 0 then accepts `SET x b` and
    ships it to the other owner.  Every update has reached every responsible replica; they agree
    on `b`; node 3, which accepted the first write, serves `a` for ever. -/
def ownerRouter (others : List Nat) : Router := { selective := true, targets := [(kX, others)] }

def ownerCfgs : List NodeCfg :=
  [ { bcast 4 1 true with router := some (ownerRouter [2]) },
    { bcast 4 2 true with router := some (ownerRouter [1]) },
    { bcast 4 3 true with router := some (ownerRouter [1, 2]) },
    { bcast 4 4 true with router := some (ownerRouter [1, 2]) } ]

def nonOwnerRun : List MEv :=
  [ .loc 3 (.write kX [97] none) [], .tick 3 [] [], .recv 0 false, .recv 1 false,
    .loc 0 (.write kX [98] none) [], .tick 0 [] [], .recv 2 false ]

theorem non_owner_writer_stays_stale :
    let c := (MCluster.init false ownerCfgs).run caps nonOwnerRun
    c.lost = [] ∧ c.wire.length = 3 ∧
    DeliveredTo c.abs [0, 1] kX ∧ KindStable c.abs kX 0 ∧
    valueAt c 0 kX = some (some [98]) ∧ valueAt c 1 kX = some (some [98]) ∧
    valueAt c 3 kX = some (some [97]) ∧ ¬ Delivered c.abs kX := by
  decide

/-! ## non-vacuity -/

/-- three nodes, broadcast, concurrent writers, duplicate and reordered receptions, a send failure
    repaired by a later write of the same key: everything delivered, all agree -/
def goodMsgRun : List MEv :=
  [ .loc 0 (.write kX [1] none) [], .loc 1 (.write kX [2] none) [], .tick 0 [] [true, false],
    .tick 1 [] [], .recv 2 false, .recv 0 false, .recv 1 false, .recv 0 false,
    .loc 0 (.delete kX) [], .heartbeat 0, .tick 0 [] [], .recv 3 false, .recv 5 false, .recv 4 false,
    .loc 2 (.write kY [3] none) [], .tick 2 [] [], .recv 7 false, .recv 8 false ]

example :
    let c := (MCluster.init true [bcast 3 1 false, bcast 3 2 false, bcast 3 3 false]).run caps goodMsgRun
    KindStable c.abs kX 0 ∧ c.issued.length = 4 ∧ c.wire.length = 9 ∧
    DeliveredTo c.abs [0, 1] kX ∧ ¬ Delivered c.abs kX ∧ c.lost.length = 1 := by
  decide

end C06
end RedisVerif
