import RedisVerif.Props.C06AE
import RedisVerif.Lemmas.SimLww
import RedisVerif.Lemmas.SimServed

/-!
# C06 over the simulator cluster — loss, delay, partitions that heal, anti-entropy

`Model/SimCluster.lean` transcribes `MultiNodeSimulation`: client `SET[EX]` / `DEL` on any node,
`gossip_round` (bounded outbox drained, broadcast or selective routing, per-send loss and delay,
partitions checked at send and at delivery, a FIFO queue whose head blocks what is behind it),
`partition`, `heal_partition` (with automatic anti-entropy), `run_anti_entropy_sync` (real Merkle
digests, divergent buckets, `max_keys_per_sync`, both delta sets built from the pre-states),
`run_full_anti_entropy`.

* `sim_refines_cluster_ae` — every execution of the simulator cluster, of any length, is an
  execution of layer 1 with state transfers (`Model/ClusterAE.lean`): the client commands are its
  local operations, in order; everything else is a delivery of an issued delta or the building /
  application of a state transfer.
* `sim_kind_stable` — such an execution only ever holds LWW registers: every key is kind-stable.
* `sim_converges_among` — **the property for the simulator cluster, no hypothesis but delivery**:
  for every history of client writes on any nodes and every network behaviour the simulator can
  produce (delay, reordering across senders, loss followed by redelivery or anti-entropy,
  partitions that heal), once each update of a key has reached every replica responsible for it —
  as a gossiped delta or inside an anti-entropy transfer — all those replicas hold the same value,
  and it is the write with the greatest stamp (`sim_winner_is_max_stamp`).
-/
namespace RedisVerif
namespace C06

open Cluster ACluster SimC

/-- **the simulator cluster refines layer 1 with state transfers** -/
theorem sim_refines_cluster_ae (H : AE.Hasher) (cfg : Cfg) (n : Nat) (causal : Bool)
    (routers : List (Option Gossip.Router)) (autoAE : Bool) (evs : List SEv) :
    ∃ es : List AEv,
      ((Sim.init n causal routers autoAE).run H cfg evs).abs = (ACluster.init n causal).run es ∧
      es.filter isLocA = (evs.flatMap locsOf).map AEv.ev := by
  obtain ⟨_, es, h, hf⟩ := run_sim H cfg evs (Sim.init n causal routers autoAE) (sinv_init n causal routers autoAE)
  exact ⟨es, by rw [h, abs_init], hf⟩

/-- every delta a simulator execution ever issues is an LWW register -/
theorem sim_kind_stable (H : AE.Hasher) (cfg : Cfg) (n : Nat) (causal : Bool)
    (routers : List (Option Gossip.Router)) (autoAE : Bool) (evs : List SEv) (k : Nat) :
    KindStable ((Sim.init n causal routers autoAE).run H cfg evs).abs.base k 0 := by
  obtain ⟨es, h, hf⟩ := sim_refines_cluster_ae H cfg n causal routers autoAE evs
  rw [h]
  intro m hm _
  exact (lwwInv_run es _ (lwwInv_init n causal) (strEv_of_filter evs es hf)).sent m hm

/-- **C06 for the simulator cluster**: delivery (by gossip or anti-entropy) ⇒ the responsible
    replicas agree.  `DeliveredTo` reads the ghost absorption log of the model. -/
theorem sim_converges_among (H : AE.Hasher) (cfg : Cfg) (n : Nat) (causal : Bool)
    (routers : List (Option Gossip.Router)) (autoAE : Bool) (evs : List SEv) (k : Nat) (S : List Nat)
    (hd : DeliveredTo ((Sim.init n causal routers autoAE).run H cfg evs).abs.base S k) :
    AgreeAmong ((Sim.init n causal routers autoAE).run H cfg evs).abs.base S k := by
  have hk := sim_kind_stable H cfg n causal routers autoAE evs k
  obtain ⟨es, h, _⟩ := sim_refines_cluster_ae H cfg n causal routers autoAE evs
  rw [h] at hk hd ⊢
  exact rs_converges_among_ae n causal es k 0 S hk hd

/-- … and the agreed register is the write with the greatest stamp -/
theorem sim_winner_is_max_stamp (H : AE.Hasher) (cfg : Cfg) (n : Nat) (causal : Bool)
    (routers : List (Option Gossip.Router)) (autoAE : Bool) (evs : List SEv) (k : Nat) (S : List Nat)
    (hd : DeliveredTo ((Sim.init n causal routers autoAE).run H cfg evs).abs.base S k)
    (i : Nat) (hiS : i ∈ S) (nd : SNode)
    (hnd : ((Sim.init n causal routers autoAE).run H cfg evs).nodes[i]? = some nd)
    (v : RV) (hv : NMap.get nd.ps.sh.keys k = some v) :
    ∃ r, v.crdt = .lww r ∧
      (∃ m ∈ ((Sim.init n causal routers autoAE).run H cfg evs).issued, m.key = k ∧ m.val.crdt = .lww r) ∧
      ∀ m ∈ ((Sim.init n causal routers autoAE).run H cfg evs).issued, m.key = k → ∀ r', m.val.crdt = .lww r' →
        (r'.ts.lt r.ts = true ∨ r' = r) := by
  have hk := sim_kind_stable H cfg n causal routers autoAE evs k
  have hsi := abs_nodes_get _ i nd hnd
  obtain ⟨es, h, _⟩ := sim_refines_cluster_ae H cfg n causal routers autoAE evs
  have hiss : ((Sim.init n causal routers autoAE).run H cfg evs).issued
      = ((Sim.init n causal routers autoAE).run H cfg evs).abs.base.sent := rfl
  rw [hiss]
  rw [h] at hk hd hsi ⊢
  exact winner_is_max_stamp_ae n causal es k S hk hd i hiS nd.ps.sh hsi v hv

/-- **C06 for the simulator cluster, second half (a replica serves what its replication state
    says)**: after every history, on every node, for every key: `GET` on the node's executor
    returns exactly the live value of its replication state (nothing for a tombstone or an unknown
    key) — `execute` records what it executes, `apply_remote_deltas` writes the merged value through. -/
theorem sim_served_equals_replicated (H : AE.Hasher) (cfg : Cfg) (n : Nat) (causal : Bool)
    (routers : List (Option Gossip.Router)) (autoAE : Bool) (evs : List SEv) (i : Nat) (nd : SNode)
    (hnd : ((Sim.init n causal routers autoAE).run H cfg evs).nodes[i]? = some nd) (k : Nat) :
    NMap.get nd.kv k = (NMap.get nd.ps.sh.keys k).bind RV.get :=
  ((servedInv_run H cfg evs _ (servedInv_init n causal routers autoAE)).node nd (List.mem_of_getElem? hnd)).served k

/-- … hence replicas whose replication states agree on a key answer `GET` alike -/
theorem sim_reads_agree_of_agree (H : AE.Hasher) (cfg : Cfg) (n : Nat) (causal : Bool)
    (routers : List (Option Gossip.Router)) (autoAE : Bool) (evs : List SEv) (i j : Nat) (ni nj : SNode)
    (hi : ((Sim.init n causal routers autoAE).run H cfg evs).nodes[i]? = some ni)
    (hj : ((Sim.init n causal routers autoAE).run H cfg evs).nodes[j]? = some nj) (k : Nat)
    (h : (NMap.get ni.ps.sh.keys k).map RV.strip = (NMap.get nj.ps.sh.keys k).map RV.strip) :
    NMap.get ni.kv k = NMap.get nj.kv k := by
  rw [sim_served_equals_replicated H cfg n causal routers autoAE evs i ni hi k,
    sim_served_equals_replicated H cfg n causal routers autoAE evs j nj hj k]
  cases ha : NMap.get ni.ps.sh.keys k with
  | none =>
    cases hb : NMap.get nj.ps.sh.keys k with
    | none => rfl
    | some y => rw [ha, hb] at h; cases h
  | some x =>
    cases hb : NMap.get nj.ps.sh.keys k with
    | none => rw [ha, hb] at h; cases h
    | some y =>
      rw [ha, hb] at h
      simp only [Option.map_some, Option.some.injEq] at h
      have : x.crdt = y.crdt := by
        have := congrArg RV.crdt h
        simpa [RV.strip] using this
      simp [RV.get, this]

/-- a hasher for kernel evaluation: the key hash is the key code, the value hash an injective code
    of the stream (`Lemmas/AntiEntropy.lean`) -/
def toyH : AE.Hasher := AE.idealH

def cfg2 : Cfg := { depth := 1, limit := 1000, pendingCap := 100 }

def kvAt (c : Sim) (i k : Nat) : Option (Option Bytes) := c.nodes[i]?.map (fun nd => NMap.get nd.kv k)

/-! ## `SET … NX / XX` through the simulator node -/

/-- "a node serves what its replication state says", for histories that also contain conditional
    SETs, with the recorder gated (`true`) or not (`false` = the code as it is) -/
def C06_sim_serves_replicated (gate : Bool) : Prop :=
  ∀ (H : AE.Hasher) (cfg : Cfg) (n : Nat) (causal : Bool) (routers : List (Option Gossip.Router)) (autoAE : Bool)
    (evs : List XEv) (i : Nat) (nd : SNode),
    ((Sim.init n causal routers autoAE).runX gate H cfg evs).nodes[i]? = some nd →
    ∀ k, NMap.get nd.kv k = (NMap.get nd.ps.sh.keys k).bind RV.get

/-- with the gate a conditional SET is a plain SET or nothing: every history is a plain history -/
theorem runX_gated_is_run (H : AE.Hasher) (cfg : Cfg) (evs : List XEv) : ∀ (c : Sim),
    ∃ evs' : List SEv, c.runX true H cfg evs = c.run H cfg evs' := by
  induction evs with
  | nil => intro c; exact ⟨[], rfl⟩
  | cons e evs ih =>
    intro c
    have hstep : ∃ es : List SEv, Sim.stepX true H cfg c e = c.run H cfg es := by
      cases e with
      | plain e => exact ⟨[e], rfl⟩
      | setCond i k v nx =>
        simp only [Sim.stepX]
        split
        · exact ⟨[], rfl⟩
        · split
          · exact ⟨[.exec i (.set k v none)], rfl⟩
          · exact ⟨[], rfl⟩
    obtain ⟨es1, h1⟩ := hstep
    obtain ⟨es2, h2⟩ := ih (Sim.stepX true H cfg c e)
    refine ⟨es1 ++ es2, ?_⟩
    simp only [Sim.runX, List.foldl_cons] at h2 ⊢
    rw [h2, h1]
    simp [Sim.run, List.foldl_append]

/-- **with the recorder gated the statement holds for every history** (the repaired code) -/
theorem sim_serves_replicated_gated : C06_sim_serves_replicated true := by
  intro H cfg n causal routers autoAE evs i nd hnd k
  obtain ⟨evs', h⟩ := runX_gated_is_run H cfg evs (Sim.init n causal routers autoAE)
  rw [h] at hnd
  exact sim_served_equals_replicated H cfg n causal routers autoAE evs' i nd hnd k

set_option maxRecDepth 8000 in
/-- **Known finding C06:sim:refused-set-recorded**: `SET x a; SET x b NX` on node 0 of the
    simulator cluster: the executor refuses the second SET and keeps serving `a`, `execute` records
    it all the same — node 0's replication state says `b`, and after one gossip round node 1 serves
    `b`: the node that accepted the writes answers differently from its peer for ever. -/
theorem sim_refused_set_recorded_counterexample :
    let c := (Sim.init 2 false [] false).runX false toyH cfg2
      [ .plain (.exec 0 (.set kX [97] none)), .setCond 0 kX [98] true, .plain (.gossip []), .plain (.advance 10), .plain (.gossip []) ]
    kvAt c 0 kX = some (some [97]) ∧ kvAt c 1 kX = some (some [98]) ∧
    c.nodes[0]?.map (fun nd => (NMap.get nd.ps.sh.keys kX).bind RV.get) = some (some [98]) ∧ c.queue = [] := by
  decide

set_option maxRecDepth 8000 in
theorem C06_sim_serves_replicated_ungated_false : ¬ C06_sim_serves_replicated false := by
  intro h
  have hbad : ((Sim.init 2 false [] false).runX false toyH cfg2
      [ .plain (.exec 0 (.set kX [97] none)), .setCond 0 kX [98] true ]).nodes[0]?.map
        (fun nd => decide (NMap.get nd.kv kX = (NMap.get nd.ps.sh.keys kX).bind RV.get)) = some false := by
    decide
  cases hnd : ((Sim.init 2 false [] false).runX false toyH cfg2
      [ .plain (.exec 0 (.set kX [97] none)), .setCond 0 kX [98] true ]).nodes[0]? with
  | none => rw [hnd] at hbad; cases hbad
  | some nd =>
    have := h toyH cfg2 2 false [] false _ 0 nd hnd kX
    rw [hnd] at hbad
    simp only [Option.map_some, Option.some.injEq, decide_eq_false_iff_not] at hbad
    exact hbad this

/-! ## witnesses (kernel-evaluated with a toy hasher; the driver runs the model with SipHash) -/

/-- three nodes, node 2 cut off from both others; node 0 accepts `SET x a`, `SET x b`; a gossip
    round ships them to node 1 only (the flights to node 2 are dropped at the partition check).
    Nothing ever re-sends a delta: without anti-entropy node 2 stays empty for ever. -/
def partitionedWrites : List SEv :=
  [ .partition 0 2, .partition 1 2, .exec 0 (.set kX [97] none), .exec 0 (.set kX [98] none),
    .gossip [], .advance 10, .gossip [] ]

set_option maxRecDepth 8000 in
theorem partition_loses_deltas_for_good :
    let c := (Sim.init 3 false [] false).run toyH cfg2 (partitionedWrites ++ [.heal 0 2, .heal 1 2, .advance 10, .gossip []])
    kvAt c 0 kX = some (some [98]) ∧ kvAt c 1 kX = some (some [98]) ∧ kvAt c 2 kX = some none ∧
    c.queue = [] ∧ c.parts = [] ∧ ¬ DeliveredTo c.abs.base [0, 1, 2] kX := by
  decide

set_option maxRecDepth 8000 in
/-- the same history with `auto_anti_entropy`: healing ONE of the two partitions runs one exchange
    with a node that has the writes — every update has reached node 2 (inside a transfer), all
    three nodes hold and serve `b` -/
theorem partition_healed_by_anti_entropy :
    let c := (Sim.init 3 false [] true).run toyH cfg2 (partitionedWrites ++ [.heal 1 2])
    kvAt c 0 kX = some (some [98]) ∧ kvAt c 1 kX = some (some [98]) ∧ kvAt c 2 kX = some (some [98]) ∧
    c.syncs = 1 ∧ c.parts = [(0, 2)] ∧ DeliveredTo c.abs.base [0, 1, 2] kX := by
  decide

set_option maxRecDepth 8000 in
/-- non-vacuity of `sim_converges_among` with selective gossip: key `x` lives on replicas 1 and 2
    (nodes 0, 1); both deltas of node 0 for node 1 are lost (loss oracle), nothing re-sends them;
    an explicit exchange repairs it; node 2 (not responsible) never hears of `x` -/
example :
    let r (others : List Nat) : Option Gossip.Router := some { selective := true, targets := [(kX, others)] }
    let c := (Sim.init 3 false [r [2], r [1], r [1, 2]] false).run toyH cfg2
      [ .exec 0 (.set kX [97] none), .gossip [(true, 0)], .exec 0 (.set kX [98] none), .gossip [(true, 0)],
        .exec 1 (.set kY [1] none), .advance 5, .gossip [], .sync 0 1 ]
    DeliveredTo c.abs.base [0, 1] kX ∧ ¬ DeliveredTo c.abs.base [0, 1, 2] kX ∧ DeliveredTo c.abs.base [0, 1] kY ∧
    kvAt c 0 kX = some (some [98]) ∧ kvAt c 1 kX = some (some [98]) ∧ kvAt c 2 kX = some none ∧
    c.issued.length = 3 ∧ c.snaps.length = 2 := by
  decide

end C06
end RedisVerif
