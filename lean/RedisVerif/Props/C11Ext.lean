import RedisVerif.Props.C11

/-!
# C11 — the production start-up sequence and the other writers of the manifest

* `apply_in_two_steps` / `production_startup_exact` — `server_persistent.rs` does not call
  `recover_with_wal`: it runs `StreamingIntegration::recover(&state)` (checkpoint + segments through
  `apply_recovered_state`) and then hands the WAL entries to a SECOND
  `apply_recovered_state(None, wal_deltas)`.  The node it leaves is the one a single application
  of `recover_with_wal`'s result leaves, so every key holds exactly the merge of everything in
  the store and in the WAL.
* `manager_add_segment_inv` — `ManifestManager::add_segment` / `update` (load, add, save) keep the
  manifest invariant and leave the store's manifest equal to the returned one.
* `should_checkpoint_*` — the scheduling predicate of `CheckpointManager` at its comparisons.
-/
namespace RedisVerif
namespace C11

open _root_.RedisVerif.Stream FoldACI

/-- applying `(chk, ds)` and then `(None, wal)` is applying `(chk, ds ++ wal)` — for every node,
    router, checkpoint and delta lists -/
theorem apply_in_two_steps (route : Nat → Nat) (n : Node) (chk : Option (List Delta)) (ds wal : List Delta) :
    applyRecoveredState route (applyRecoveredState route n chk ds) none wal =
      applyRecoveredState route n chk (ds ++ wal) := by
  unfold applyRecoveredState
  simp [List.foldl_append]

/-- **the production start-up sequence is exact**: recover + apply, then the WAL entries through
    a second `apply_recovered_state(None, ..)`: every key holds exactly the merge of everything
    persisted in the store and in the WAL (current tree: no high-water-mark filter) -/
theorem production_startup_exact {st : Store} {rid : Nat} {wal : List (Nat × Delta)} {r : Recovered}
    (route : Nat → Nat) (causal : Bool)
    (h : recover st rid = .ok r) (hwf : ∀ m, r.chk = some m → NMap.WF m) (k : Nat) :
    (applyRecoveredState route (applyRecoveredState route (Node.fresh rid causal) r.chk r.deltas) none
        (wal.map (·.2))).value route k =
      NMap.get (foldState (r.updates ++ wal.map (·.2))) k := by
  rw [apply_in_two_steps, apply_recovered_equals_foldState route rid causal r.chk hwf (r.deltas ++ wal.map (·.2)) k]
  unfold Recovered.updates
  rw [List.append_assoc]

/-- … and it is what one application of `recover_with_wal`'s result gives -/
theorem production_startup_eq_recover_with_wal {st : Store} {rid : Nat} {wal : List (Nat × Delta)} {r : Recovered}
    (route : Nat → Nat) (n : Node) (h : recover st rid = .ok r) :
    ∃ r', recoverWithWal st rid wal = .ok r' ∧
      applyRecoveredState route (applyRecoveredState route n r.chk r.deltas) none (wal.map (·.2)) =
        applyRecoveredState route n r'.chk r'.deltas := by
  refine ⟨{ r with deltas := r.deltas ++ wal.map (·.2) }, ?_, apply_in_two_steps route n r.chk r.deltas _⟩
  unfold recoverWithWal recoverWithWalWith
  rw [h]
  simp

/-! ## ManifestManager::add_segment / update -/

/-- `ManifestManager::add_segment` / `update(add_segment)`: when it succeeds the store's manifest
    is the returned one, and the manifest invariant is kept for a fresh id above the checkpoint -/
theorem manager_add_segment_inv (F : Oracle) (w : World) (info : SegInfo) (m' : Manifest)
    (h : (managerAddSegment F w info).2 = some m') :
    NMap.get (managerAddSegment F w info).1.store manifestName = some (.manifest m') ∧
    ∃ m, NMap.get w.store manifestName = some (.manifest m) ∧ m' = m.addSegment info ∧
      (ManifestInv m → (∀ s ∈ m.segments, s.id ≠ info.id) → (∀ c, m.checkpoint = some c → c.last < info.id) →
        ManifestInv m') := by
  unfold managerAddSegment at h ⊢
  cases hg : w.get F manifestName with
  | mk w1 res =>
    rw [hg] at h
    cases res with
    | err e => simp at h
    | ok o =>
      cases o with
      | manifest m =>
        simp only at h ⊢
        cases hs : saveManifest F w1 (m.addSegment info) with
        | mk w2 ok =>
          rw [hs] at h
          cases ok with
          | false => simp at h
          | true =>
            simp only [Option.some.injEq] at h
            subst h
            have hst : w1.store = w.store := by
              have := get_store F w manifestName
              rw [hg] at this
              exact this
            refine ⟨(saveManifest_true hs).1, m, ?_, rfl, fun hi hne hc => manifest_inv_addSegment hi hne hc⟩
            have := get_ok hg
            rcases this with h1 | h1
            · exact h1
            · exact absurd h1.1 (by simp)
      | segment ds => simp at h
      | checkpoint st l => simp at h
      | torn => simp at h

/-! ## CheckpointManager::should_checkpoint -/

/-- below `min_segments` no checkpoint is due, whatever the clock says -/
theorem should_checkpoint_needs_min_segments (m : Manifest) (minSegs iv now : Nat)
    (h : m.segments.length < minSegs) : shouldCheckpoint m minSegs iv now = false := by
  unfold shouldCheckpoint; simp [h]

/-- with an existing checkpoint one is due exactly when `interval` (as the u64 the code reads) has
    elapsed since its `timestamp_ms` — at equality: due -/
theorem should_checkpoint_at_interval (m : Manifest) (c : ChkInfo) (minSegs iv now : Nat)
    (hs : minSegs ≤ m.segments.length) (hc : m.checkpoint = some c) :
    shouldCheckpoint m minSegs iv now = decide (iv % 2 ^ 64 ≤ now - c.name) := by
  unfold shouldCheckpoint
  have : ¬ m.segments.length < minSegs := by omega
  simp only [this, if_false, hc]
  by_cases h : now - c.name < iv % 2 ^ 64
  · simp [h]
  · simp [h]; omega

/-- the `as u64` cast: an interval of 2^64 + 384 ms is read as 384 ms -/
theorem should_checkpoint_interval_truncated :
    shouldCheckpoint { Manifest.new 1 with checkpoint := some { name := 1000, last := 0 } } 0 (2 ^ 64 + 384) 1384 = true := by
  decide

example : shouldCheckpoint { Manifest.new 1 with checkpoint := some { name := 1000, last := 0 } } 0 500 1499 = false ∧
    shouldCheckpoint { Manifest.new 1 with checkpoint := some { name := 1000, last := 0 } } 0 500 1500 = true ∧
    shouldCheckpoint (Manifest.new 1) 1 0 0 = false ∧ shouldCheckpoint (Manifest.new 1) 0 5 0 = true := by
  decide

end C11
end RedisVerif
