import RedisVerif.Props.C09

/-!
# C09 — the caller's side of `write_durable`: the 5 s ack timeout and cancellation

`durable_survives` speaks about the acks the ACTOR sends.  What the CALLER of `write_durable` is told
goes through one more state machine (`Model/WalActor.lean`, `Caller`): the oneshot channel, the
`tokio::time::timeout(5 s, ..)` around it, and the order in which the runtime processes "the actor
sends the ack", "the actor drops the sender" and "the caller's future is polled" — on a virtual clock
(event times are data; no wall time).

* `caller_result_final` — once `write_durable` has returned, nothing the actor does later changes
  what it returned (a late ack goes nowhere: `let _ = tx.send(..)`).
* `caller_ack_was_sent` — whatever answer the caller is told was SENT by the actor, as is: for every
  order and timing of the events.  A timed-out or cancelled caller is never told `Ok`.
* **`write_durable_ok_is_durable`** — the property at the caller: if `write_durable` returned `Ok(())`
  — for every event order / timing at the caller consistent with the actor's history — the entry is
  recovered from the crash image at every instant from the ack on (all message sequences, batchings,
  thresholds, fault oracles of `durable_survives`).
* `seen_before_deadline` / `seen_after_deadline` — a caller whose ack is sent `d` after its message is
  told the ack if `d < 5 s` and "timed out" if `d > 5 s` (what the harness drives on the real actor with
  `group_commit_max_wait` just below / above 5 s; at exactly 5 s the two wake-ups race:
  `deadline_tie_is_a_race_witness`).
* `timed_out_write_survives_witness` — "a write reported failed may or may not survive": the caller
  timed out, the actor flushed later, the entry IS durable.
* `timeout_means_ok_counterexample` — the variant in which the timeout arm answers `Ok(())`: the caller
  is told `Ok` for an entry that no fsync covers.
-/
namespace RedisVerif
namespace C09

open Wal

theorem caller_step_final (b : Bool) (c : Caller) (ev : CEv) (r : Seen) (h : c.result = some r) :
    (Caller.step b c ev).result = some r := by
  cases ev with
  | deliver t a => simp only [Caller.step, h]
  | close t => simp only [Caller.step, h]
  | poll t => simp only [Caller.step, h]

/-- once `write_durable` has returned, later events change nothing -/
theorem caller_result_final (b : Bool) (sentAt : Nat) (evs more : List CEv) (r : Seen)
    (h : (Caller.run b sentAt evs).result = some r) : (Caller.run b sentAt (evs ++ more)).result = some r := by
  unfold Caller.run at *
  rw [List.foldl_append]
  generalize evs.foldl (Caller.step b) (Caller.start sentAt) = c at h
  induction more generalizing c with
  | nil => exact h
  | cons ev more ih => exact ih _ (caller_step_final b c ev r h)

/-- what the caller holds was sent by the actor -/
def CallerInv (evs : List CEv) (c : Caller) : Prop :=
  (∀ a, c.slot = .value a → ∃ t, CEv.deliver t a ∈ evs) ∧
  (∀ a, c.result = some (.ack a) → ∃ t, CEv.deliver t a ∈ evs)

theorem callerInv_step (evs : List CEv) (c : Caller) (ev : CEv) (h : CallerInv evs c) :
    CallerInv (evs ++ [ev]) (Caller.step false c ev) := by
  have mono : ∀ a, (∃ t, CEv.deliver t a ∈ evs) → ∃ t, CEv.deliver t a ∈ evs ++ [ev] :=
    fun a ⟨t, ht⟩ => ⟨t, List.mem_append_left _ ht⟩
  obtain ⟨dl, slot, res⟩ := c
  obtain ⟨h1, h2⟩ := h
  simp only at h1 h2
  cases ev with
  | deliver t a =>
    cases res <;> cases slot <;> simp only [Caller.step] <;>
      refine ⟨fun x hx => ?_, fun x hx => ?_⟩ <;> simp only at hx <;>
      first
        | (cases hx; done)
        | exact mono x (h1 x hx)
        | exact mono x (h2 x hx)
        | (cases hx; exact ⟨t, by simp⟩)
  | close t =>
    cases res <;> cases slot <;> simp only [Caller.step] <;>
      refine ⟨fun x hx => ?_, fun x hx => ?_⟩ <;> simp only at hx <;>
      first
        | (cases hx; done)
        | exact mono x (h1 x hx)
        | exact mono x (h2 x hx)
  | poll t =>
    cases res with
    | some r =>
      simp only [Caller.step]
      exact ⟨fun x hx => mono x (h1 x hx), fun x hx => mono x (h2 x hx)⟩
    | none =>
      cases slot with
      | empty =>
        simp only [Caller.step, Bool.false_eq_true, if_false]
        split <;> refine ⟨fun x hx => ?_, fun x hx => ?_⟩ <;> simp only at hx <;> cases hx
      | value v =>
        simp only [Caller.step]
        refine ⟨fun x hx => mono x (h1 x hx), fun x hx => ?_⟩
        simp only [Option.some.injEq, Seen.ack.injEq] at hx
        subst hx
        exact mono v (h1 v rfl)
      | closed =>
        simp only [Caller.step]
        refine ⟨fun x hx => ?_, fun x hx => ?_⟩ <;> simp only at hx <;> cases hx

/-- every order, every timing: the answer `write_durable` returns was sent by the actor, unchanged.
    In particular a caller that timed out, was cancelled, or lost its channel is never told `Ok`. -/
theorem caller_ack_was_sent (sentAt : Nat) (evs : List CEv) (a : Ack)
    (h : (Caller.run false sentAt evs).result = some (.ack a)) : ∃ t, CEv.deliver t a ∈ evs := by
  suffices hs : ∀ (done rest : List CEv) (c : Caller), CallerInv done c →
      CallerInv (done ++ rest) (rest.foldl (Caller.step false) c) by
    have := hs [] evs (Caller.start sentAt) ⟨(fun x hx => by cases hx), (fun x hx => by cases hx)⟩
    rw [List.nil_append] at this
    exact this.2 a h
  intro done rest
  induction rest generalizing done with
  | nil => intro c hc; rw [List.append_nil]; exact hc
  | cons ev rest ih =>
    intro c hc
    have := ih (done ++ [ev]) _ (callerInv_step done c ev hc)
    rw [List.append_assoc] at this
    exact this

/-- THE PROPERTY AT THE CALLER: `write_durable` returned `Ok(())` ⇒ the entry survives a crash at every
    instant from the actor's ack on.  `cevs` is ANY sequence of events at this caller whose `deliver`s
    are acks the actor sent to it (`hsrc`); the actor's history is arbitrary as in `durable_survives`. -/
theorem write_durable_ok_is_durable (fmt : Format) (crc : Bytes → Nat) (φ : Nat → Outcome) (maxSize : Nat)
    (evs : List Ev) (hw : ∀ ev ∈ evs, ev.Ok fmt crc) (id sentAt : Nat) (cevs : List CEv)
    (hsrc : ∀ t a, CEv.deliver t a ∈ cevs →
      ∃ r ∈ (Actor.run true false φ fmt crc maxSize evs).acks, r.id = id ∧ r.res = a)
    (hok : (Caller.run false sentAt cevs).result = some (.ack .ok)) :
    ∃ r ∈ (Actor.run true false φ fmt crc maxSize evs).acks, r.id = id ∧ r.res = .ok ∧
      ∀ t st, r.io ≤ t → (Actor.run true false φ fmt crc maxSize evs).rot.w.storeAt t = some st →
        r.entry ∈ durable fmt crc st ∨ r.entry.ts < (Actor.run true false φ fmt crc maxSize evs).tbound := by
  obtain ⟨t, ht⟩ := caller_ack_was_sent sentAt cevs .ok hok
  obtain ⟨r, hr, hid, hres⟩ := hsrc t .ok ht
  exact ⟨r, hr, hid, hres, durable_survives fmt crc φ maxSize evs hw r hr hres⟩

/-! ## the deadline -/

/-- the ack is sent less than 5 s after the message: the caller is told the ack -/
theorem seen_before_deadline (delay : Nat) (a : Ack) (h : delay < ackTimeoutUs) :
    seenAfter delay a = some (.ack a) := by
  unfold seenAfter callerEvents
  rw [if_pos h]
  simp [Caller.run, Caller.start, Caller.step, ackTimeoutUs]

/-- … more than 5 s after: "WAL write timed out", whatever the actor answers later -/
theorem seen_after_deadline (delay : Nat) (a : Ack) (h : ackTimeoutUs < delay) :
    seenAfter delay a = some .timedOut := by
  unfold seenAfter callerEvents
  rw [if_neg (by omega)]
  simp [Caller.run, Caller.start, Caller.step, ackTimeoutUs]

/-- at exactly 5 s the ack and the deadline race: whichever wake-up the runtime processes first -/
theorem deadline_tie_is_a_race_witness :
    (Caller.run false 0 [.poll 0, .deliver ackTimeoutUs .ok, .poll ackTimeoutUs]).result = some (.ack .ok) ∧
    (Caller.run false 0 [.poll 0, .poll ackTimeoutUs, .deliver ackTimeoutUs .ok]).result = some .timedOut := by
  decide

/-- the sender dropped unanswered (the actor stopped): an error, not `Ok` -/
theorem dropped_channel_witness :
    (Caller.run false 0 [.poll 0, .close 10, .poll 10]).result = some .dropped := by decide

/-! ## witnesses on the actor -/

/-- one write, `group_commit_max_wait` = 10 s: the flush (I/O call 3) happens 10 s after the message -/
def slowRun : Actor := Actor.run true false (fun _ => .ok) .v2 Driver.crc32 1000 [.write w1, .flush]

/-- "a write reported failed may or may not survive": the caller timed out at 5 s, the actor acked
    `Ok` at 10 s — nobody heard it — and the entry is durable -/
theorem timed_out_write_survives_witness :
    seenAfter 10000000 .ok = some .timedOut ∧
    (slowRun.acks.map (fun r => (r.id, r.res))) = [(1, .ok)] ∧
    (durable .v2 Driver.crc32 slowRun.rot.w.store).map (·.ts) = [1] := by decide +kernel

/-- the state in which that caller's deadline passes: the entry is appended, no fsync yet -/
def waitingRun : Actor := Actor.run true false (fun _ => .ok) .v2 Driver.crc32 1000 [.write w1]

/-- the variant whose timeout arm answers `Ok(())`: the caller is told `Ok` although the actor has sent
    nothing and the entry is covered by no fsync -/
theorem timeout_means_ok_counterexample :
    (Caller.run true 0 [.poll 0, .poll ackTimeoutUs]).result = some (.ack .ok) ∧
    waitingRun.acks = [] ∧ waitingRun.pending.map (·.1) = [1] ∧
    durable .v2 Driver.crc32 waitingRun.rot.w.store = [] := by decide +kernel

/-- … which the code does not do -/
theorem timeout_is_an_error_on_witness :
    (Caller.run false 0 [.poll 0, .poll ackTimeoutUs]).result = some .timedOut := by decide

end C09
end RedisVerif
