import RedisVerif.Lemmas.RedisStep

/-!
# C01 — commands behave as Redis

Property text: "For every sequence of supported data commands (strings, counters, keys and
expiry, lists, sets, hashes, sorted sets) sent to one node while the clock advances arbitrarily,
each reply equals the reply Redis gives and the visible keyspace (key, type, value, remaining
TTL) equals Redis's after every step.  A key with a deadline is visible at every instant
strictly before the deadline and at no instant at or after it, and a collection that becomes
empty stops existing."

"Redis" = the reference model `Model.Redis` (M7), written from Redis' documented semantics.
"each reply / the keyspace equals Redis's" is the CORRESPONDENCE (real executor vs this model
on every step of generated sequences; each disagreement is a conformance finding with its own
signature).  The theorems below are about the model itself, for arbitrary states, commands and
clock values, by induction over command sequences where stated:

* `inv_preserved`, `reachable_inv`   — no empty collection, canonical maps, in every reachable state
* `deadline_visibility` (+ `reads_depend_on_view_only`, `invisible_reads`, `visible_reads`)
* `empty_collection_vanishes`
* `ttl_laws` (+ `expiretime_table`, `flags_table`, `expire_table`, `expire_arg_table`,
  `set_expire_arg_table`, `set_table`, `overwrite_clears_deadline`, `modify_keeps_deadline`,
  `rename_moves_deadline`, `persist_table`) — decision tables for TTL/PTTL/EXPIRETIME, EXPIRE* flags, SET options, who
                       clears / keeps a deadline
* `index_laws`      — range normalisation never reads outside the sequence
* `integer_laws`    — INCR family: exactly the canonical i64 strings, never wraps
-/
namespace RedisVerif.C01
open RedisVerif RedisVerif.Redis

/-! ## 1. invariant -/

theorem inv_init : Inv Redis.init := inv_nil

/-- every step preserves the invariant (any state, any instant, any command) -/
theorem inv_preserved (s : State) (now : Nat) (c : Cmd) (h : Inv s) : Inv (step s now c).1 :=
  inv_exec (inv_purge now h) now c

/-- hence it holds in every state reachable by any timed command sequence -/
theorem reachable_inv {s : State} (h : Reachable s) : Inv s := by
  induction h with
  | init => exact inv_init
  | step now c _ ih => exact inv_preserved _ now c ih

/-- the same, phrased over `run` -/
theorem run_inv (s : State) (cs : List (Nat × Cmd)) (h : Inv s) : Inv (run s cs).1 := by
  induction cs generalizing s with
  | nil => exact h
  | cons p cs ih =>
    obtain ⟨t, c⟩ := p
    exact ih _ (inv_preserved s t c h)

/-! ## 2. deadlines and visibility -/

theorem visible_eq (s : State) (t k : Nat) :
    visible s t k = (NMap.get (purge s t) k).isSome := by
  unfold visible
  rw [get_view]
  cases NMap.get (purge s t) k <;> rfl

/-- full statement: a key with deadline `d` is visible at every instant strictly before `d` and
    at no instant at or after it -/
def C01_deadline_visibility : Prop :=
  ∀ (s : State), Reachable s → ∀ (k : Nat) (e : Entry) (d : Nat),
    NMap.get s k = some e → e.dl = some d →
    ∀ t : Nat, (t < d → visible s t k = true) ∧ (d ≤ t → visible s t k = false)

theorem deadline_visibility : C01_deadline_visibility := by
  intro s hr k e d hg hd t
  have hwf := (reachable_inv hr).1
  rw [visible_eq, get_purge hwf, hg]
  obtain ⟨v, dl⟩ := e
  simp only at hd
  subst hd
  constructor
  · intro h; simp [Option.filter, live, h]
  · intro h
    have : ¬ t < d := by omega
    simp [Option.filter, live, this]

/-- a key without deadline is visible at every instant; a key that is not stored never is -/
theorem no_deadline_always_visible {s : State} (hr : Reachable s) {k : Nat} {e : Entry}
    (hg : NMap.get s k = some e) (hd : e.dl = none) (t : Nat) : visible s t k = true := by
  rw [visible_eq, get_purge (reachable_inv hr).1, hg]
  obtain ⟨v, dl⟩ := e
  simp only at hd
  subst hd
  simp [Option.filter, live]

theorem absent_never_visible {s : State} (hr : Reachable s) {k : Nat}
    (hg : NMap.get s k = none) (t : Nat) : visible s t k = false := by
  rw [visible_eq, get_purge (reachable_inv hr).1, hg]; rfl

/-- `visible` is what EVERY command observes: reply and successor state of every command are a
    function of the visible keyspace `view s now` only (so no command can see a dead key) -/
theorem reads_depend_on_view_only (s s' : State) (now : Nat) (c : Cmd)
    (h : view s now = view s' now) : step s now c = step s' now c := by
  unfold step; rw [purge_of_view h]

/-- concretely: what the read commands (and DEL's count) say about an invisible key -/
theorem invisible_reads {s : State} {t k : Nat} (h : visible s t k = false) :
    (step s t (.get k)).2 = .nil ∧
    (step s t (.exists [k])).2 = .int 0 ∧
    (step s t (.type k)).2 = .simple "none" ∧
    (step s t (.ttl k)).2 = .int (-2) ∧
    (step s t (.pttl k)).2 = .int (-2) ∧
    (step s t (.strlen k)).2 = .int 0 ∧
    (step s t (.mget [k])).2 = .arr [.nil] ∧
    (step s t (.del [k])).2 = .int 0 ∧
    (step s t (.persist k)).2 = .int 0 ∧
    (step s t (.pexpireat k 5 ⟨false, false, false, false⟩)).2 = .int 0 := by
  rw [visible_eq] at h
  have hg : NMap.get (purge s t) k = none := by
    cases hh : NMap.get (purge s t) k with
    | none => rfl
    | some _ => rw [hh] at h; cases h
  simp [step, exec, execGet, execExists, execType, execTtl, execPTtl, execStrLen, execMGet,
    mgetElem, execDel, delKeys, execPersist, execPExpireAt, expireAt, flagsCompatible, ttlReply,
    lookupStr, hg]

/-- …and about a visible one -/
theorem visible_reads {s : State} {t k : Nat} (h : visible s t k = true) :
    (step s t (.exists [k])).2 = .int 1 ∧
    (step s t (.type k)).2 ≠ .simple "none" ∧
    (step s t (.del [k])).2 = .int 1 ∧
    (step s t (.ttl k)).2 ≠ .int (-2) := by
  rw [visible_eq] at h
  obtain ⟨e, hg⟩ := Option.isSome_iff_exists.mp h
  obtain ⟨v, dl⟩ := e
  refine ⟨?_, ?_, ?_, ?_⟩
  · simp [step, exec, execExists, hg]
  · simp only [step, exec, execType, hg]
    cases v <;> simp [typeName]
  · simp [step, exec, execDel, delKeys, hg]
  · simp only [step, exec, execTtl, ttlReply, hg]
    cases dl <;> simp <;> omega

/-! ## 3. empty collections -/

/-- full statement: after any step from a reachable state no key maps to an empty list / set /
    hash / sorted set — an emptied collection is not stored, so `EXISTS` says 0 and `TYPE` none -/
def C01_empty_collection_vanishes : Prop :=
  ∀ (s : State), Reachable s → ∀ (now : Nat) (c : Cmd) (k : Nat) (e : Entry),
    NMap.get (step s now c).1 k = some e →
    e.val ≠ .list [] ∧ e.val ≠ .set [] ∧ e.val ≠ .hash [] ∧ e.val ≠ .zset []

theorem empty_collection_vanishes : C01_empty_collection_vanishes := by
  intro s hr now c k e hg
  have hv := inv_get (inv_preserved s now c (reachable_inv hr)) hg
  refine ⟨?_, ?_, ?_, ?_⟩ <;> intro h <;> rw [h] at hv <;> simp [ValueOk] at hv

/-! ## 4. TTL laws (decision tables) -/

/-- TTL / PTTL / EXPIRETIME / PEXPIRETIME as a function of the visible keyspace:
    −2 missing, −1 no deadline, else ⌊(ms+500)/1000⌋ resp. ms -/
theorem ttl_laws (s : State) (now k : Nat) :
    (step s now (.ttl k)).2 =
      (match NMap.get (view s now) k with
       | none => .int (-2)
       | some ve => match ve.ttl with
         | none => .int (-1)
         | some r => .int ((r + 500) / 1000 : Nat)) ∧
    (step s now (.pttl k)).2 =
      (match NMap.get (view s now) k with
       | none => .int (-2)
       | some ve => match ve.ttl with
         | none => .int (-1)
         | some r => .int (r : Nat)) := by
  rw [get_view]
  simp only [step, exec, execTtl, execPTtl, ttlReply, roundSecs]
  cases NMap.get (purge s now) k with
  | none => exact ⟨rfl, rfl⟩
  | some e =>
    obtain ⟨v, dl⟩ := e
    cases dl <;> exact ⟨rfl, rfl⟩

/-- the absolute variants never depend on the clock -/
theorem expiretime_table (s : State) (k : Nat) (e : Entry) (h : NMap.get s k = some e) :
    (execExpireTime s k).2 = (match e.dl with | none => .int (-1) | some d => .int ((d + 500) / 1000 : Nat)) ∧
    (execPExpireTime s k).2 = (match e.dl with | none => .int (-1) | some d => .int (d : Nat)) := by
  obtain ⟨v, dl⟩ := e
  cases dl <;> simp [execExpireTime, execPExpireTime, ttlReply, roundSecs, h]

/-- NX / XX / GT / LT, one flag at a time (`cur = none` = persistent = infinite TTL) -/
theorem flags_table (cur : Option Nat) (w : Int) :
    flagsPass ⟨false, false, false, false⟩ cur w = true ∧
    (flagsPass ⟨true, false, false, false⟩ cur w = true ↔ cur = none) ∧
    (flagsPass ⟨false, true, false, false⟩ cur w = true ↔ cur ≠ none) ∧
    (flagsPass ⟨false, false, true, false⟩ cur w = true ↔ ∃ c, cur = some c ∧ (c : Int) < w) ∧
    (flagsPass ⟨false, false, false, true⟩ cur w = true ↔ ∀ c, cur = some c → w < (c : Int)) ∧
    (flagsPass ⟨false, true, true, false⟩ cur w = true ↔ ∃ c, cur = some c ∧ (c : Int) < w) ∧
    (flagsPass ⟨false, true, false, true⟩ cur w = true ↔ ∃ c, cur = some c ∧ w < (c : Int)) := by
  cases cur with
  | none => simp [flagsPass]
  | some c =>
    simp only [flagsPass, Bool.and_true, Bool.not_false, Bool.true_and, Bool.false_and,
      Bool.not_true, Bool.and_self]
    refine ⟨trivial, by simp, by simp, ?_, ?_, ?_, ?_⟩ <;> simp <;> omega

/-- EXPIRE-family outcome once the requested absolute deadline `w` is known (purged state):
    missing → 0; flags fail → 0, nothing changes; `w ≤ now` → the key is deleted, 1 (flags are
    evaluated FIRST); else the deadline becomes `w`, value untouched, 1 -/
theorem expire_table (s : State) (hwf : NMap.WF s) (now k : Nat) (w : Int) (f : ExpFlags) :
    (NMap.get s k = none → expireAt s now k w f = (s, .int 0)) ∧
    (∀ e, NMap.get s k = some e → flagsPass f e.dl w = false → expireAt s now k w f = (s, .int 0)) ∧
    (∀ e, NMap.get s k = some e → flagsPass f e.dl w = true → w ≤ now →
        (expireAt s now k w f).2 = .int 1 ∧ NMap.get (expireAt s now k w f).1 k = none) ∧
    (∀ e, NMap.get s k = some e → flagsPass f e.dl w = true → (now : Int) < w →
        (expireAt s now k w f).2 = .int 1 ∧
        NMap.get (expireAt s now k w f).1 k = some ⟨e.val, some w.toNat⟩) := by
  refine ⟨?_, ?_, ?_, ?_⟩
  · intro h; simp [expireAt, h]
  · intro e h hf; simp [expireAt, h, hf]
  · intro e h hf hw
    simp [expireAt, h, hf, hw, NMap.get_erase hwf]
  · intro e h hf hw
    have : ¬ w ≤ now := by omega
    simp [expireAt, h, hf, this, NMap.get_insert]

/-- how EXPIRE / PEXPIRE / EXPIREAT / PEXPIREAT compute the absolute deadline, and when they
    reject the argument ("invalid expire time": overflow of the ms conversion / of `now + x`) -/
theorem expire_arg_table (s : State) (now k : Nat) (v : Int) (f : ExpFlags)
    (hf : flagsCompatible f = true) :
    (execExpire s now k v f =
      if v > i64MaxDiv1000 ∨ v < i64MinDiv1000 ∨ v * 1000 > i64Max - now then (s, .err .invalidExpire)
      else expireAt s now k (v * 1000 + now) f) ∧
    (execPExpire s now k v f =
      if v > i64Max - now then (s, .err .invalidExpire) else expireAt s now k (v + now) f) ∧
    (execExpireAt s now k v f =
      if v > i64MaxDiv1000 ∨ v < i64MinDiv1000 then (s, .err .invalidExpire)
      else expireAt s now k (v * 1000) f) ∧
    (execPExpireAt s now k v f = expireAt s now k v f) := by
  simp only [execExpire, execPExpire, execExpireAt, execPExpireAt, hf]
  refine ⟨?_, ?_, ?_, ?_⟩
  · by_cases h1 : v > i64MaxDiv1000 ∨ v < i64MinDiv1000
    · have : v > i64MaxDiv1000 ∨ v < i64MinDiv1000 ∨ v * 1000 > i64Max - now := by
        cases h1 with
        | inl h => exact Or.inl h
        | inr h => exact Or.inr (Or.inl h)
      simp [h1, this]
    · by_cases h2 : v * 1000 > i64Max - now
      · have : v > i64MaxDiv1000 ∨ v < i64MinDiv1000 ∨ v * 1000 > i64Max - now := Or.inr (Or.inr h2)
        simp [h1, h2]
      · have : ¬ (v > i64MaxDiv1000 ∨ v < i64MinDiv1000 ∨ v * 1000 > i64Max - now) := by
          intro h; rcases h with h | h | h
          · exact h1 (Or.inl h)
          · exact h1 (Or.inr h)
          · exact h2 h
        simp [h1, h2]
  · simp
  · simp
  · simp

/-- the expire argument of SET / GETEX: EX/PX are relative to `now`, EXAT/PXAT absolute; values
    ≤ 0 and values whose ms conversion or sum with `now` leaves i64 are rejected -/
theorem set_expire_arg_table (now : Nat) (v : Int) :
    (v ≤ 0 → setPlan now (.ex v) = .invalid ∧ setPlan now (.px v) = .invalid ∧
             setPlan now (.exat v) = .invalid ∧ setPlan now (.pxat v) = .invalid) ∧
    (0 < v → v ≤ i64MaxDiv1000 → v * 1000 + now ≤ i64Max →
        setPlan now (.ex v) = .at (v.toNat * 1000 + now)) ∧
    (0 < v → v + now ≤ i64Max → setPlan now (.px v) = .at (v.toNat + now)) ∧
    (0 < v → v ≤ i64MaxDiv1000 → setPlan now (.exat v) = .at (v.toNat * 1000)) ∧
    (0 < v → v ≤ i64Max → setPlan now (.pxat v) = .at v.toNat) ∧
    (v > i64MaxDiv1000 → setPlan now (.ex v) = .invalid ∧ setPlan now (.exat v) = .invalid) ∧
    (v + now > i64Max → setPlan now (.px v) = .invalid) ∧
    setPlan now .none = .clear ∧ setPlan now .keepttl = .keep := by
  simp only [setPlan, absDeadline, i64MaxDiv1000, i64Max]
  refine ⟨?_, ?_, ?_, ?_, ?_, ?_, ?_, trivial, trivial⟩
  · intro h; simp [h, planOfOpt]
  · intro h1 h2 h3
    have a : ¬ v ≤ 0 := by omega
    have b : ¬ v > 9223372036854775 := by omega
    have c : ¬ v * 1000 + (now : Int) > 9223372036854775807 := by omega
    simp only [a, b, c, if_false, decide_false, Bool.and_false, if_true, planOfOpt,
      Bool.false_eq_true]
    congr 1; omega
  · intro h1 h2
    have a : ¬ v ≤ 0 := by omega
    have c : ¬ v + (now : Int) > 9223372036854775807 := by omega
    simp only [a, c, if_false, Bool.false_and, if_true, planOfOpt, Bool.false_eq_true]
    congr 1; omega
  · intro h1 h2
    have a : ¬ v ≤ 0 := by omega
    have b : ¬ v > 9223372036854775 := by omega
    have c : ¬ v * 1000 > 9223372036854775807 := by omega
    simp only [a, b, c, if_false, decide_false, Bool.and_false, if_true, planOfOpt,
      Bool.false_eq_true]
    congr 1; omega
  · intro h1 h2
    have a : ¬ v ≤ 0 := by omega
    have c : ¬ v > 9223372036854775807 := by omega
    simp [a, c, planOfOpt]
  · intro h
    have a : ¬ v ≤ 0 := by omega
    simp [a, h, planOfOpt]
  · intro h
    by_cases a : v ≤ 0
    · simp [a, planOfOpt]
    · simp [a, h, planOfOpt]

/-- SET decision table.  With a valid expire argument and no WRONGTYPE (only possible with GET):
    NX on an existing key / XX on a missing key change nothing and answer nil (or the old value
    with GET); otherwise the key holds the new string and its deadline is: cleared by default,
    kept by KEEPTTL, set by EX/PX/EXAT/PXAT. -/
theorem set_table (s : State) (now k : Nat) (v : BS) (c : SetCond) (e : SetExp) (g : Bool)
    (hvalid : setPlan now e ≠ .invalid) (hty : (g && wrongStr s k) = false) :
    ((c = .nx ∧ (NMap.get s k).isSome = true ∨ c = .xx ∧ (NMap.get s k).isSome = false) →
        execSet s now k v c e g = (s, if g then oldStrReply s k else .nil)) ∧
    (¬ (c = .nx ∧ (NMap.get s k).isSome = true ∨ c = .xx ∧ (NMap.get s k).isSome = false) →
        NMap.get (execSet s now k v c e g).1 k =
          some ⟨.str v, match setPlan now e with
                        | .keep => oldDl s k
                        | .at d => some d
                        | _ => none⟩ ∧
        (execSet s now k v c e g).2 = (if g then oldStrReply s k else .ok)) := by
  have hp : planDl (setPlan now e) (oldDl s k) =
      (match setPlan now e with | .keep => oldDl s k | .at d => some d | _ => none) := by
    unfold planDl; rfl
  constructor
  · intro h
    have : (c == SetCond.nx && (NMap.get s k).isSome || c == SetCond.xx && !(NMap.get s k).isSome) = true := by
      rcases h with ⟨h1, h2⟩ | ⟨h1, h2⟩ <;> subst h1 <;> simp [h2]
    rw [execSet, if_neg hvalid, setCore, hty]
    simp only [Bool.false_eq_true, if_false, this, if_true]
  · intro h
    have : (c == SetCond.nx && (NMap.get s k).isSome || c == SetCond.xx && !(NMap.get s k).isSome) = false := by
      cases c <;> cases hh : (NMap.get s k).isSome <;> simp_all
    rw [execSet, if_neg hvalid, setCore, hty]
    simp only [Bool.false_eq_true, if_false, this, NMap.get_insert, if_true, hp, and_self]

/-- commands that OVERWRITE a key clear its deadline … -/
theorem overwrite_clears_deadline (s : State) (k : Nat) (v : BS) :
    (∀ b dl, lookupStr s k = .found b dl →
        NMap.get (execGetSet s k v).1 k = some ⟨.str v, none⟩) ∧
    NMap.get (execMSet s [(k, v)]).1 k = some ⟨.str v, none⟩ ∧
    (NMap.get s k = none → NMap.get (execSetNx s k v).1 k = some ⟨.str v, none⟩) := by
  refine ⟨?_, ?_, ?_⟩
  · intro b dl h; simp [execGetSet, h, NMap.get_insert]
  · simp [execMSet, msetAll, NMap.get_insert]
  · intro h; simp [execSetNx, h, NMap.get_insert]

/-- … commands that MODIFY a string in place keep it -/
theorem modify_keeps_deadline (s : State) (k : Nat) (b : BS) (dl : Option Nat)
    (h : lookupStr s k = .found b dl) :
    (∀ v, NMap.get (execAppend s k v).1 k = some ⟨.str (b ++ v), dl⟩) ∧
    (∀ d n, parseCanon b = some n → inI64 (n + d) = true →
        NMap.get (execIncrBy s k d).1 k = some ⟨.str (showInt (n + d)), dl⟩) ∧
    (∀ off v, v ≠ [] → off + v.length ≤ maxStrLen →
        NMap.get (execSetRange s k off v).1 k = some ⟨.str (overlay b off v), dl⟩) := by
  refine ⟨?_, ?_, ?_⟩
  · intro v; simp [execAppend, h, NMap.get_insert]
  · intro d n hn hi; simp [execIncrBy, h, hn, hi, NMap.get_insert]
  · intro off v hv hl
    have : ¬ off + v.length > maxStrLen := by omega
    simp [execSetRange, h, hv, this, NMap.get_insert]

/-- RENAME moves value AND deadline; the destination's own deadline is discarded -/
theorem rename_moves_deadline (s : State) (hwf : NMap.WF s) (a b : Nat) (e : Entry)
    (h : NMap.get s a = some e) (hab : a ≠ b) :
    NMap.get (execRename s a b).1 b = some e ∧ NMap.get (execRename s a b).1 a = none := by
  simp [execRename, h, hab, NMap.get_insert, NMap.get_erase hwf]

/-- PERSIST: 1 iff a deadline was removed -/
theorem persist_table (s : State) (k : Nat) :
    (NMap.get s k = none → execPersist s k = (s, .int 0)) ∧
    (∀ e, NMap.get s k = some e → e.dl = none → execPersist s k = (s, .int 0)) ∧
    (∀ e d, NMap.get s k = some e → e.dl = some d →
        (execPersist s k).2 = .int 1 ∧ NMap.get (execPersist s k).1 k = some ⟨e.val, none⟩) := by
  refine ⟨?_, ?_, ?_⟩
  · intro h; simp [execPersist, h]
  · intro e h hd; simp [execPersist, h, hd]
  · intro e d h hd; simp [execPersist, h, hd, NMap.get_insert]

/-! ## 5. index laws -/

/-- GETRANGE normalisation is total and never reads outside the string: the slice
    `[start, start+count)` lies inside `[0, len)` and is non-empty whenever it is `some` -/
theorem index_laws (len : Nat) (a b : Int) (st n : Nat)
    (h : rangeNorm len a b = some (st, n)) : 0 < n ∧ st + n ≤ len := by
  unfold rangeNorm at h
  split at h
  · cases h
  · have hs := normIdx_nonneg len a
    have he := normIdx_nonneg len b
    have hc := clampEnd_le len (normIdx len b)
    have hc' := clampEnd_ge len (normIdx len b) he
    split at h
    · cases h
    · rename_i h2
      simp only [Option.some.injEq, Prod.mk.injEq] at h
      obtain ⟨h3, h4⟩ := h
      omega

/-- the reply is a contiguous piece of the stored string -/
theorem slice_is_infix (v : BS) (r : Option (Nat × Nat)) : (slice v r) <:+: v := by
  unfold slice
  cases r with
  | none => exact List.nil_infix
  | some p =>
    obtain ⟨st, n⟩ := p
    exact List.IsInfix.trans (List.take_prefix _ _).isInfix (List.drop_suffix _ _).isInfix

/-- whole string and the usual cases -/
theorem rangeNorm_examples :
    rangeNorm 5 0 (-1) = some (0, 5) ∧ rangeNorm 5 (-3) (-1) = some (2, 3) ∧
    rangeNorm 5 0 100 = some (0, 5) ∧ rangeNorm 5 3 1 = none ∧ rangeNorm 5 (-1) (-5) = none ∧
    rangeNorm 5 (-100) (-200) = none ∧ rangeNorm 5 (-100) (-5) = some (0, 1) ∧
    rangeNorm 0 0 (-1) = none ∧ rangeNorm 5 7 9 = none := by decide

/-! ## 5b. lists: index laws, vanishing, deadlines -/

/-- LRANGE / LTRIM normalisation never selects outside the list -/
theorem list_index_laws (len : Nat) (a b : Int) (st n : Nat)
    (h : lrangeNorm len a b = some (st, n)) : 0 < n ∧ st + n ≤ len := by
  unfold lrangeNorm at h
  have hs := normIdx_nonneg len a
  by_cases hc : normIdx len a > (if b < 0 then b + len else b) ∨ normIdx len a ≥ len
  · rw [if_pos hc] at h; cases h
  · rw [if_neg hc] at h
    simp only [Option.some.injEq, Prod.mk.injEq] at h
    obtain ⟨h3, h4⟩ := h
    unfold clampEnd at h4
    split at h4 <;> omega

/-- LINDEX / LSET address an existing position or nothing -/
theorem listIdx_in_bounds (len : Nat) (i : Int) (n : Nat) (h : listIdx len i = some n) : n < len := by
  unfold listIdx at h
  simp only at h
  by_cases hc : (if i < 0 then i + len else i) < 0 ∨ (if i < 0 then i + len else i) ≥ len
  · rw [if_pos hc] at h; cases h
  · rw [if_neg hc] at h
    simp only [Option.some.injEq] at h
    omega

theorem lrangeNorm_examples :
    lrangeNorm 5 0 (-1) = some (0, 5) ∧ lrangeNorm 5 (-2) (-1) = some (3, 2) ∧
    lrangeNorm 5 (-100) 100 = some (0, 5) ∧ lrangeNorm 5 2 1 = none ∧ lrangeNorm 5 5 10 = none ∧
    lrangeNorm 5 0 (-6) = none ∧ lrangeNorm 5 (-100) (-5) = some (0, 1) ∧ lrangeNorm 0 0 (-1) = none := by
  decide

theorem lookupList_found {s : State} {k : Nat} {l : List BS} {dl : Option Nat}
    (h : lookupList s k = .found l dl) : NMap.get s k = some ⟨.list l, dl⟩ := by
  unfold lookupList at h
  split at h
  · cases h
  · rename_i e he
    obtain ⟨v, d⟩ := e
    cases v <;> simp at h
    obtain ⟨h1, h2⟩ := h
    subst h1 h2
    exact he

/-- a list that loses its last element stops existing (LPOP, RPOP, LTRIM to nothing, LMOVE /
    RPOPLPUSH to another key): the key is absent afterwards, deadline included -/
theorem emptied_list_vanishes (s : State) (hwf : NMap.WF s) (k : Nat) (x : BS) (dl : Option Nat)
    (h : lookupList s k = .found [x] dl) :
    NMap.get (execPop .left s k).1 k = none ∧
    NMap.get (execPop .right s k).1 k = none ∧
    NMap.get (execLTrim s k 1 0).1 k = none ∧
    (∀ dst f t, dst ≠ k → lookupList s dst = .missing →
        NMap.get (execLMove s k dst f t).1 k = none ∧
        NMap.get (execLMove s k dst f t).1 dst = some ⟨.list [x], none⟩) := by
  refine ⟨?_, ?_, ?_, ?_⟩
  · simp [execPop, h, popSide, putList, NMap.get_erase hwf]
  · simp [execPop, h, popSide, putList, NMap.get_erase hwf]
  · have : lrangeNorm 1 1 0 = none := by decide
    simp [execLTrim, h, this, slice, putList, NMap.get_erase hwf]
  · intro dst f t hne hd
    have hne' : ¬ k = dst := fun e => hne e.symm
    cases f <;> simp [execLMove, h, hd, popSide, putList, hne', NMap.get_insert,
      NMap.get_erase hwf]

/-- … and the observers agree: after the step the key is invisible to every command -/
theorem emptied_list_invisible (s : State) (hr : Reachable s) (now k : Nat) (c : Cmd)
    (h : NMap.get (step s now c).1 k = none) : visible (step s now c).1 now k = false := by
  have hwf := (inv_preserved s now c (reachable_inv hr)).1
  rw [visible_eq, get_purge hwf, h]; rfl

/-- LMOVE / RPOPLPUSH with source = destination rotate in place and keep the deadline -/
theorem lmove_same_key_keeps_deadline (s : State) (k : Nat) (l : List BS) (dl : Option Nat)
    (f t : Side) (h : lookupList s k = .found l dl) (hl : l ≠ []) :
    ∃ l', NMap.get (execLMove s k k f t).1 k = some ⟨.list l', dl⟩ ∧ l'.length = l.length := by
  have hp : ∃ x rest, popSide f l = some (x, rest) ∧ rest.length + 1 = l.length := by
    cases f with
    | left =>
      cases l with
      | nil => exact absurd rfl hl
      | cons x xs => exact ⟨x, xs, rfl, rfl⟩
    | right =>
      have hne : l.getLast? = some (l.getLast hl) := List.getLast?_eq_some_getLast hl
      refine ⟨l.getLast hl, l.dropLast, by simp [popSide, hne], ?_⟩
      have h1 : l.dropLast.length = l.length - 1 := List.length_dropLast
      have h2 : 0 < l.length := List.length_pos_iff.mpr hl
      omega
  obtain ⟨x, rest, hp1, hp2⟩ := hp
  cases t with
  | left =>
    refine ⟨x :: rest, ?_, by simp; omega⟩
    simp [execLMove, h, hp1, pushOne, putList, NMap.get_insert]
  | right =>
    refine ⟨rest ++ [x], ?_, by simp; omega⟩
    have : rest ++ [x] ≠ [] := by simp
    simp only [execLMove, h, hp1, pushOne, if_true]
    unfold putList
    split
    · rename_i heq; exact absurd heq this
    · simp [NMap.get_insert]

/-- pushes keep the deadline of an existing list and create new lists without one -/
theorem push_deadline (s : State) (k : Nat) (side : Side) (v : BS) (vs : List BS) :
    (∀ l dl, lookupList s k = .found l dl →
        NMap.get (execPush side s k (v :: vs)).1 k = some ⟨.list (pushMany side l (v :: vs)), dl⟩) ∧
    (lookupList s k = .missing →
        NMap.get (execPush side s k (v :: vs)).1 k = some ⟨.list (pushMany side [] (v :: vs)), none⟩) := by
  have hne : ∀ l, pushMany side l (v :: vs) ≠ [] := by
    intro l; cases side <;> simp [pushMany]
  constructor
  · intro l dl h
    simp only [execPush, h]
    unfold putList
    split
    · rename_i heq; exact absurd heq (hne l)
    · simp [NMap.get_insert]
  · intro h
    simp only [execPush, h]
    unfold putList
    split
    · rename_i heq; exact absurd heq (hne [])
    · simp [NMap.get_insert]

/-! ## 5c. sets and hashes -/

/-- a set that loses its last member stops existing (SREM, SPOP, SPOP count) -/
theorem emptied_set_vanishes (s : State) (hwf : NMap.WF s) (k c : Nat) (dl : Option Nat)
    (h : lookupSet s k = .found [(c, ())] dl) :
    NMap.get (execSRem s k [c]).1 k = none ∧
    NMap.get (execSPop1 s k [c]).1 k = none ∧
    (∀ n, 0 < n → NMap.get (execSPopN s k n [c]).1 k = none) := by
  refine ⟨?_, ?_, ?_⟩
  · simp [execSRem, h, sremAll, NMap.get, NMap.erase, putSet, NMap.get_erase hwf]
  · simp [execSPop1, h, NMap.get, NMap.erase, putSet, NMap.get_erase hwf]
  · intro n hn
    have : min n 1 = 1 := by omega
    simp [execSPopN, h, this, removeChosen, NMap.get, NMap.erase, putSet, NMap.get_erase hwf]

/-- a hash that loses its last field stops existing -/
theorem emptied_hash_vanishes (s : State) (hwf : NMap.WF s) (k f : Nat) (v : BS) (dl : Option Nat)
    (h : lookupHash s k = .found [(f, v)] dl) :
    NMap.get (execHDel s k [f]).1 k = none := by
  simp [execHDel, h, hdelAll, NMap.get, NMap.erase, putHash, NMap.get_erase hwf]

/-- SADD counts only new members, SREM only present ones (duplicates in the arguments count once) -/
theorem sadd_srem_counts (m : MSet) (c : Nat) :
    ((NMap.get m c).isSome = true → saddAll m [c, c] = (m, 0)) ∧
    ((NMap.get m c).isSome = false → (saddAll m [c, c]).2 = 1) ∧
    ((NMap.get m c).isSome = false → sremAll m [c, c] = (m, 0)) ∧
    (NMap.WF m → (NMap.get m c).isSome = true → (sremAll m [c, c]).2 = 1) := by
  refine ⟨?_, ?_, ?_, ?_⟩
  · intro h; simp [saddAll, h]
  · intro h; simp [saddAll, h, NMap.get_insert]
  · intro h; simp [sremAll, h]
  · intro hw h; simp [sremAll, h, NMap.get_erase hw]

/-- HINCRBY on an existing hash: succeeds exactly when the field is absent (= 0) or holds a
    canonical i64 and the exact sum stays in i64; never wraps -/
theorem hincrby_laws (s : State) (k f : Nat) (h : MHash) (dl : Option Nat) (d : Int)
    (hl : lookupHash s k = .found h dl) :
    (∀ n, (execHIncrBy s k f d).2 = .int n ↔
        ∃ v, hfieldInt h f = some v ∧ n = v + d ∧ inI64 (v + d) = true) ∧
    (hfieldInt h f = none → execHIncrBy s k f d = (s, .err .hashNotInt)) ∧
    (∀ v, hfieldInt h f = some v → inI64 (v + d) = false → execHIncrBy s k f d = (s, .err .overflow)) := by
  refine ⟨?_, ?_, ?_⟩
  · intro n
    simp only [execHIncrBy, hl]
    cases hp : hfieldInt h f with
    | none => simp
    | some v =>
      cases hi : inI64 (v + d) <;> simp [hi]
      constructor
      · intro e; exact e.symm
      · intro e; exact e.symm
  · intro hp; simp [execHIncrBy, hl, hp]
  · intro v hp hi; simp [execHIncrBy, hl, hp, hi]

/-! ## 5d. sorted sets -/

/-- full statement: in every reachable state every stored sorted set is non-empty, strictly
    increasing in (score, member bytes) and holds no member twice — the order ("index") and
    the member ↦ score map cannot disagree -/
def C01_zset_canonical : Prop :=
  ∀ (s : State), Reachable s → ∀ (k : Nat) (z : ZL) (dl : Option Nat),
    NMap.get s k = some ⟨.zset z, dl⟩ →
    z ≠ [] ∧ z.Pairwise (fun a b => zLt a b = true) ∧ z.Pairwise (fun a b => a.1 ≠ b.1)

theorem zset_canonical : C01_zset_canonical := by
  intro s hr k z dl hg
  have hv := inv_get (reachable_inv hr) hg
  exact ⟨hv.1, hv.2.1, hv.2.2⟩

theorem zScore_zInsert {m : BS} {sc : Score} {z : ZL} (hm : ∀ p ∈ z, p.1 ≠ m) :
    zScore (zInsert m sc z) m = some sc := by
  induction z with
  | nil => simp [zInsert, zScore]
  | cons q z ih =>
    obtain ⟨m', sc'⟩ := q
    have hq : m' ≠ m := hm (m', sc') (List.mem_cons_self ..)
    simp only [zInsert]
    split
    · simp [zScore]
    · have : ¬ m = m' := fun e => hq e.symm
      simp only [zScore, if_neg this]
      exact ih (fun p hp => hm p (List.mem_cons_of_mem _ hp))

/-- ZADD decision table for one (score, member): NX never touches an existing member, XX never
    adds, GT / LT only restrict updates, an equal score is no change; otherwise the member is
    added (counted as added) or moved to its new score (counted as changed, reported with CH) -/
theorem zadd_table (f : ZFlags) (z : ZL) (m : BS) (sc : Score) :
    (zScore z m = none → f.xx = true → zaddOne f z m sc = (z, 0, 0)) ∧
    (zScore z m = none → f.xx = false →
        zaddOne f z m sc = (zInsert m sc z, 1, 0) ∧ zScore (zaddOne f z m sc).1 m = some sc) ∧
    (∀ old, zScore z m = some old → f.nx = true → zaddOne f z m sc = (z, 0, 0)) ∧
    (∀ old, zScore z m = some old → f.gt = true → old.lt sc = false → zaddOne f z m sc = (z, 0, 0)) ∧
    (∀ old, zScore z m = some old → f.lt = true → sc.lt old = false → zaddOne f z m sc = (z, 0, 0)) ∧
    (∀ old, zScore z m = some old → sc = old → zaddOne f z m sc = (z, 0, 0)) ∧
    (∀ old, zScore z m = some old → f.nx = false → (f.gt = true → old.lt sc = true) →
        (f.lt = true → sc.lt old = true) → sc ≠ old →
        zaddOne f z m sc = (zInsert m sc (zRemove m z), 0, 1)) := by
  refine ⟨?_, ?_, ?_, ?_, ?_, ?_, ?_⟩
  · intro h hx; simp [zaddOne, h, hx]
  · intro h hx
    have e : zaddOne f z m sc = (zInsert m sc z, 1, 0) := by simp [zaddOne, h, hx]
    exact ⟨e, by rw [e]; exact zScore_zInsert (zScore_none h)⟩
  · intro old h hn; simp [zaddOne, h, hn]
  · intro old h hg hl
    cases hn : f.nx <;> simp [zaddOne, h, hn, hg, hl]
  · intro old h hl hlt
    cases hn : f.nx <;> cases hg : f.gt <;> simp [zaddOne, h, hn, hg, hl, hlt]
  · intro old h e
    subst e
    cases hn : f.nx <;> cases hg : f.gt <;> cases hl : f.lt <;> simp [zaddOne, h, hn, hg, hl]
  · intro old h hn hg hl hne
    have a : (f.gt && !old.lt sc) = false := by
      cases hgt : f.gt
      · rfl
      · simp [hg hgt]
    have b : (f.lt && !sc.lt old) = false := by
      cases hlt : f.lt
      · rfl
      · simp [hl hlt]
    simp [zaddOne, h, hn, a, b, hne]

/-- ZADD … XX on a missing key creates nothing (in particular no empty sorted set) -/
theorem zadd_xx_missing_creates_nothing (s : State) (k : Nat) (f : ZFlags) (p : BS × Score)
    (ps : List (BS × Score)) (hc : zflagsCompatible f = true) (hx : f.xx = true)
    (hm : lookupZ s k = .missing) : execZAdd s k f (p :: ps) = (s, .int 0) := by
  simp [execZAdd, hc, hm, hx]

theorem lookupZ_found {s : State} {k : Nat} {z : ZL} {dl : Option Nat}
    (h : lookupZ s k = .found z dl) : NMap.get s k = some ⟨.zset z, dl⟩ := by
  unfold lookupZ at h
  split at h
  · cases h
  · rename_i e he
    obtain ⟨v, d⟩ := e
    cases v <;> simp at h
    obtain ⟨h1, h2⟩ := h
    subst h1 h2
    exact he

/-- a sorted set that loses its last member stops existing -/
theorem emptied_zset_vanishes (s : State) (hwf : NMap.WF s) (k : Nat) (m : BS) (sc : Score)
    (dl : Option Nat) (h : lookupZ s k = .found [(m, sc)] dl) :
    NMap.get (execZRem s k [m]).1 k = none := by
  simp [execZRem, h, zremAll, zScore, zRemove, putZ, NMap.get_erase hwf]

/-- score ranges: an unparsable bound is an error BEFORE the key is looked at (so it changes
    nothing whatever the key holds); a negative LIMIT offset selects nothing -/
theorem zrange_bound_laws (s : State) (k : Nat) (b : Option Bound) (ws : Bool)
    (lim : Option (Int × Nat)) (l : ZL) (off : Int) (cnt : Nat) :
    execZCount s k none b = (s, .err .notFloat) ∧ execZCount s k b none = (s, .err .notFloat) ∧
    execZRangeByScore s k none b ws lim = (s, .err .notFloat) ∧
    execZRangeByScore s k b none ws lim = (s, .err .notFloat) ∧
    (off < 0 → applyLimit l (some (off, cnt)) = []) ∧
    (applyLimit l (some (off, cnt))).length ≤ cnt ∧ applyLimit l none = l := by
  refine ⟨?_, ?_, ?_, ?_, ?_, ?_, rfl⟩
  · cases b <;> simp [execZCount]
  · cases b <;> simp [execZCount]
  · cases b <;> simp [execZRangeByScore]
  · cases b <;> simp [execZRangeByScore]
  · intro h; simp [applyLimit, h]
  · simp only [applyLimit]
    split
    · simp
    · simp [List.length_take]; omega

/-! ## 5e. SORT key [STORE dst] -/

theorem sortInsert_perm (x : BS) (l : List BS) : (sortInsert x l).Perm (x :: l) := by
  induction l with
  | nil => exact List.Perm.refl _
  | cons y ys ih =>
    simp only [sortInsert]
    split
    · exact (List.Perm.cons y ih).trans (List.Perm.swap x y ys)
    · exact List.Perm.refl _

/-- the result of SORT is a rearrangement of the source's elements: nothing lost, nothing invented -/
theorem sort_is_permutation (l : List BS) : (sortAll l).Perm l := by
  induction l with
  | nil => exact List.Perm.refl _
  | cons x xs ih =>
    show (sortInsert x (sortAll xs)).Perm (x :: xs)
    exact (sortInsert_perm x (sortAll xs)).trans (List.Perm.cons x ih)

/-- SORT decision table: wrong source type / one non-numeric element → error and nothing
    changes (the destination keeps value AND deadline); otherwise STORE replaces the destination
    by the sorted list WITHOUT a deadline (or deletes it when the result is empty) -/
theorem sort_table (s : State) (hwf : NMap.WF s) (k d : Nat) :
    (sortSource s k = none → ∀ st, execSort s k st = (s, .err .wrongType)) ∧
    (∀ es, sortSource s k = some es → es.any (fun e => (sortNum e).isNone) = true →
        ∀ st, execSort s k st = (s, .err .notDouble)) ∧
    (∀ es, sortSource s k = some es → es.any (fun e => (sortNum e).isNone) = false →
        execSort s k none = (s, .arr ((sortAll es).map Elem.bulk)) ∧
        (execSort s k (some d)).2 = .int es.length ∧
        (es = [] → NMap.get (execSort s k (some d)).1 d = none) ∧
        (es ≠ [] → NMap.get (execSort s k (some d)).1 d = some ⟨.list (sortAll es), none⟩)) := by
  refine ⟨?_, ?_, ?_⟩
  · intro h st; simp [execSort, h]
  · intro es h hb st; simp only [execSort, h, hb, if_true]
  · intro es h hb
    have hlen : (sortAll es).length = es.length := (sort_is_permutation es).length_eq
    refine ⟨?_, ?_, ?_, ?_⟩
    · simp only [execSort, h, hb]; rfl
    · simp only [execSort, h, hb]; simp [hlen]
    · intro he; subst he
      simp [execSort, h, sortAll, putList, NMap.get_erase hwf]
    · intro hne
      have : sortAll es ≠ [] := by
        intro e; rw [e] at hlen; exact hne (List.length_eq_zero_iff.mp hlen.symm)
      have hp : putList s d (sortAll es) none = NMap.insert d ⟨.list (sortAll es), none⟩ s := by
        unfold putList
        split
        · rename_i e; exact absurd e this
        · rfl
      simp [execSort, h, hb, hp, NMap.get_insert]

/-- numeric, not lexicographic: 10 sorts after 9; ties by bytes; strtod's integer syntax -/
theorem sort_examples :
    sortAll [[49, 48], [57], [45, 51], [48, 48, 55], [55]] = [[45, 51], [48, 48, 55], [55], [57], [49, 48]] ∧
    sortNum [32, 43, 53] = some 5 ∧ sortNum [] = some 0 ∧ sortNum [49, 50, 97] = none ∧
    sortNum [45] = none ∧ sortNum [49, 32] = none := by decide

/-! ## 6. integer laws -/

/-- only canonical texts are accepted: no `+`, no leading zero (except "0"), no `-0`, no
    spaces, nothing empty; every accepted value is an i64 -/
theorem parseCanon_rejects (ds : BS) (d : Nat) :
    parseCanon [] = none ∧ parseCanon (43 :: ds) = none ∧ parseCanon (32 :: ds) = none ∧
    parseCanon (48 :: d :: ds) = none ∧ parseCanon (45 :: 48 :: ds) = none ∧ parseCanon [45] = none := by
  refine ⟨rfl, ?_, ?_, ?_, ?_, rfl⟩
  · simp [parseCanon, digitsVal]
  · simp [parseCanon, digitsVal]
  · simp [parseCanon]
  · simp [parseCanon]

theorem inI64_iff (i : Int) : inI64 i = true ↔ i64Min ≤ i ∧ i ≤ i64Max := by
  simp [inI64]

theorem parseCanon_in_i64 (b : BS) (v : Int) (h : parseCanon b = some v) : inI64 v = true := by
  unfold parseCanon at h
  split at h
  · cases h
  · cases h; decide
  · split at h
    · cases h
    · split at h
      · split at h
        · cases h; rw [inI64_iff]; simp only [i64Min, i64Max]; omega
        · cases h
      · cases h
  · split at h
    · cases h
    · split at h
      · split at h
        · cases h; rw [inI64_iff]; simp only [i64Min, i64Max]; omega
        · cases h
      · cases h

/-- INCR family on an existing string `b`: succeeds exactly when `b` is a canonical i64 AND the
    exact (unbounded) sum stays inside i64; the reply is that exact sum — it never wraps -/
theorem integer_laws (s : State) (k : Nat) (b : BS) (dl : Option Nat) (d : Int)
    (h : lookupStr s k = .found b dl) :
    (∀ n, (execIncrBy s k d).2 = .int n ↔
        ∃ v, parseCanon b = some v ∧ n = v + d ∧ inI64 (v + d) = true) ∧
    (parseCanon b = none → execIncrBy s k d = (s, .err .notInt)) ∧
    (∀ v, parseCanon b = some v → inI64 (v + d) = false → execIncrBy s k d = (s, .err .overflow)) := by
  refine ⟨?_, ?_, ?_⟩
  · intro n
    simp only [execIncrBy, h]
    cases hp : parseCanon b with
    | none => simp
    | some v =>
      cases hi : inI64 (v + d) <;> simp [hi]
      constructor
      · intro e; exact e.symm
      · intro e; exact e.symm
  · intro hp; simp [execIncrBy, h, hp]
  · intro v hp hi; simp [execIncrBy, h, hp, hi]

/-- a missing key counts as 0; a non-string is WRONGTYPE; DECRBY i64::MIN cannot be negated -/
theorem integer_laws_edges (s : State) (k : Nat) (d : Int) :
    (lookupStr s k = .missing → (execIncrBy s k d).2 = .int d) ∧
    (lookupStr s k = .wrong → execIncrBy s k d = (s, .err .wrongType)) ∧
    execDecrBy s k i64Min = (s, .err .overflow) := by
  refine ⟨?_, ?_, ?_⟩
  · intro h; simp [execIncrBy, h]
  · intro h; simp [execIncrBy, h]
  · simp [execDecrBy]

/-- boundary values: text ↔ value at the i64 limits, round trip of `showInt` -/
theorem integer_boundaries :
    parseCanon (showInt i64Max) = some i64Max ∧ parseCanon (showInt i64Min) = some i64Min ∧
    parseCanon [57,50,50,51,51,55,50,48,51,54,56,53,52,55,55,53,56,48,56] = none ∧
    parseCanon [45,57,50,50,51,51,55,50,48,51,54,56,53,52,55,55,53,56,48,57] = none ∧
    parseCanon (showInt 0) = some 0 ∧ parseCanon (showInt (-1)) = some (-1) ∧
    showInt (-120) = [45, 49, 50, 48] := by decide

/-! ## 7. boundary pins

Where a decision of the model is a comparison, its answer AT equality (and one step to either
side) is pinned here by concrete instances (`decide`), next to the table theorems above.  The
harness produces the same three inputs deliberately from the current state of the real executor
(harness/src/boundary.rs; site × {below, equal, above} counts are in the evidence). -/

/-- k1 = "abc" with deadline 101000, k2 = list [a,b,c], k3 = zset {x:-1, y:2, z:2},
    k4 = set {7, 9}, k5 = "10", k6 = hash {f ↦ "10"} -/
def bst : State :=
  [(1, ⟨.str [97, 98, 99], some 101000⟩), (2, ⟨.list [[97], [98], [99]], none⟩),
   (3, ⟨.zset [([120], .fin (-1)), ([121], .fin 2), ([122], .fin 2)], none⟩),
   (4, ⟨.set [(7, ()), (9, ())], none⟩), (5, ⟨.str [49, 48], none⟩),
   (6, ⟨.hash [(1, [49, 48])], none⟩)]

def fGT : ExpFlags := ⟨false, false, true, false⟩
def fLT : ExpFlags := ⟨false, false, false, true⟩
def fNone : ExpFlags := ⟨false, false, false, false⟩

/-- EXPIRE … GT whose new deadline EQUALS the current one replies 0 and changes nothing
    (now = 1000, deadline 101000 = 1000 + 100·1000); one second less: 0; one more: 1 -/
theorem expire_gt_equal_replies_zero :
    (step bst 1000 (.expire 1 100 fGT)).2 = .int 0 ∧
    view (step bst 1000 (.expire 1 100 fGT)).1 1000 = view bst 1000 ∧
    (step bst 1000 (.expire 1 99 fGT)).2 = .int 0 ∧
    (step bst 1000 (.expire 1 101 fGT)).2 = .int 1 ∧
    -- 40 s later, 60 s left: EXPIRE 60 GT lands on the same deadline again
    (step bst 41000 (.expire 1 60 fGT)).2 = .int 0 ∧
    (step bst 41000 (.expire 1 61 fGT)).2 = .int 1 := by decide

theorem expire_lt_equal_replies_zero :
    (step bst 1000 (.expire 1 100 fLT)).2 = .int 0 ∧
    (step bst 1000 (.expire 1 99 fLT)).2 = .int 1 ∧
    (step bst 1000 (.expire 1 101 fLT)).2 = .int 0 := by decide

theorem pexpire_gt_lt_at_equality :
    (step bst 1000 (.pexpire 1 100000 fGT)).2 = .int 0 ∧
    (step bst 1000 (.pexpire 1 100001 fGT)).2 = .int 1 ∧
    (step bst 1000 (.pexpire 1 99999 fGT)).2 = .int 0 ∧
    (step bst 1000 (.pexpire 1 100000 fLT)).2 = .int 0 ∧
    (step bst 1000 (.pexpire 1 99999 fLT)).2 = .int 1 ∧
    (step bst 1000 (.pexpire 1 100001 fLT)).2 = .int 0 := by decide

/-- a requested deadline equal to `now` has already been reached: the key is deleted (reply 1) -/
theorem expire_deadline_at_now_deletes :
    (step bst 1000 (.pexpire 5 0 fNone)).2 = .int 1 ∧ visible (step bst 1000 (.pexpire 5 0 fNone)).1 1000 5 = false ∧
    visible (step bst 1000 (.pexpire 5 1 fNone)).1 1000 5 = true ∧
    visible (step bst 1000 (.pexpire 5 (-1) fNone)).1 1000 5 = false ∧
    visible (step bst 1000 (.pexpireat 5 1000 fNone)).1 1000 5 = false ∧
    visible (step bst 1000 (.pexpireat 5 1001 fNone)).1 1000 5 = true ∧
    visible (step bst 2000 (.expireat 5 2 fNone)).1 2000 5 = false ∧
    visible (step bst 1999 (.expireat 5 2 fNone)).1 1999 5 = true := by decide

/-- SET / GETEX expire argument: 0 is invalid, 1 is valid; PXAT = now stores a key nobody sees -/
theorem set_expire_arg_boundaries :
    (step bst 1000 (.set 9 [118] .always (.px 0) false)).2 = .err .invalidExpire ∧
    (step bst 1000 (.set 9 [118] .always (.px 1) false)).2 = .ok ∧
    (step bst 1000 (.set 9 [118] .always (.ex 0) false)).2 = .err .invalidExpire ∧
    (step bst 1000 (.set 9 [118] .always (.exat 0) false)).2 = .err .invalidExpire ∧
    (step bst 1000 (.set 9 [118] .always (.pxat 1000) false)).2 = .ok ∧
    visible (step bst 1000 (.set 9 [118] .always (.pxat 1000) false)).1 1000 9 = false ∧
    visible (step bst 1000 (.set 9 [118] .always (.pxat 1001) false)).1 1000 9 = true ∧
    (step bst 1000 (.set 9 [118] .always (.ex 9223372036854775) false)).2 = .err .invalidExpire ∧
    (step bst 1000 (.set 9 [118] .always (.px (9223372036854775807 - 1000)) false)).2 = .ok ∧
    (step bst 1000 (.set 9 [118] .always (.px (9223372036854775807 - 999)) false)).2 = .err .invalidExpire ∧
    (step bst 1000 (.getex 5 (.px 0))).2 = .err .invalidExpire ∧
    (step bst 1000 (.getex 5 (.px 1))).2 = .bulk [49, 48] := by decide

/-- TTL = (ms + 500) / 1000 at 499 / 500 / 501 and 1499 / 1500 / 1501 ms -/
theorem ttl_rounding_boundaries :
    (step bst 100501 (.ttl 1)).2 = .int 0 ∧ (step bst 100500 (.ttl 1)).2 = .int 1 ∧
    (step bst 100499 (.ttl 1)).2 = .int 1 ∧ (step bst 99501 (.ttl 1)).2 = .int 1 ∧
    (step bst 99500 (.ttl 1)).2 = .int 2 ∧ (step bst 99499 (.ttl 1)).2 = .int 2 ∧
    (step bst 0 (.expiretime 1)).2 = .int 101 := by decide

theorem visibility_boundaries :
    visible bst 100999 1 = true ∧ visible bst 101000 1 = false ∧ visible bst 101001 1 = false ∧
    (step bst 100999 (.get 1)).2 = .bulk [97, 98, 99] ∧ (step bst 101000 (.get 1)).2 = .nil := by decide

/-- GETRANGE on "abc": start / end at len, −len and at each other -/
theorem getrange_boundaries :
    (step bst 0 (.getrange 1 2 (-1))).2 = .bulk [99] ∧ (step bst 0 (.getrange 1 3 (-1))).2 = .bulk [] ∧
    (step bst 0 (.getrange 1 4 (-1))).2 = .bulk [] ∧
    (step bst 0 (.getrange 1 0 2)).2 = .bulk [97, 98, 99] ∧ (step bst 0 (.getrange 1 0 3)).2 = .bulk [97, 98, 99] ∧
    (step bst 0 (.getrange 1 (-3) (-1))).2 = .bulk [97, 98, 99] ∧ (step bst 0 (.getrange 1 (-4) (-1))).2 = .bulk [97, 98, 99] ∧
    (step bst 0 (.getrange 1 (-2) (-1))).2 = .bulk [98, 99] ∧
    (step bst 0 (.getrange 1 0 (-3))).2 = .bulk [97] ∧ (step bst 0 (.getrange 1 0 (-4))).2 = .bulk [97] ∧
    (step bst 0 (.getrange 1 1 1)).2 = .bulk [98] ∧ (step bst 0 (.getrange 1 2 1)).2 = .bulk [] ∧
    (step bst 0 (.getrange 1 (-1) (-2))).2 = .bulk [] ∧ (step bst 0 (.getrange 1 (-2) (-2))).2 = .bulk [98] := by decide

/-- list indices at len and −len -/
theorem list_index_boundaries :
    (step bst 0 (.lindex 2 2)).2 = .bulk [99] ∧ (step bst 0 (.lindex 2 3)).2 = .nil ∧
    (step bst 0 (.lindex 2 (-3))).2 = .bulk [97] ∧ (step bst 0 (.lindex 2 (-4))).2 = .nil ∧
    (step bst 0 (.lset 2 3 [1])).2 = .err .indexRange ∧ (step bst 0 (.lset 2 (-3) [1])).2 = .ok ∧
    (step bst 0 (.lset 2 (-4) [1])).2 = .err .indexRange ∧
    (step bst 0 (.lrange 2 2 (-1))).2 = .arr [.bulk [99]] ∧ (step bst 0 (.lrange 2 3 (-1))).2 = .arr [] ∧
    (step bst 0 (.lrange 2 0 (-3))).2 = .arr [.bulk [97]] ∧ (step bst 0 (.lrange 2 0 (-4))).2 = .arr [] ∧
    (step bst 0 (.lrange 2 (-4) 0)).2 = .arr [.bulk [97]] ∧ (step bst 0 (.lrange 2 1 1)).2 = .arr [.bulk [98]] ∧
    (step bst 0 (.lrange 2 2 1)).2 = .arr [] ∧
    NMap.get (step bst 0 (.ltrim 2 3 (-1))).1 2 = none ∧
    NMap.get (step bst 0 (.ltrim 2 2 (-1))).1 2 = some ⟨.list [[99]], none⟩ := by decide

/-- score ranges at the score of a member (2 is held by two members, −1 by one), inclusive and
    exclusive; LIMIT offsets at 0 and at the result size -/
theorem zrange_score_boundaries :
    (step bst 0 (.zcount 3 (some ⟨false, .fin 2⟩) (some ⟨false, .pinf⟩))).2 = .int 2 ∧
    (step bst 0 (.zcount 3 (some ⟨true, .fin 2⟩) (some ⟨false, .pinf⟩))).2 = .int 0 ∧
    (step bst 0 (.zcount 3 (some ⟨true, .fin 1⟩) (some ⟨false, .pinf⟩))).2 = .int 2 ∧
    (step bst 0 (.zcount 3 (some ⟨false, .fin 3⟩) (some ⟨false, .pinf⟩))).2 = .int 0 ∧
    (step bst 0 (.zcount 3 (some ⟨false, .ninf⟩) (some ⟨false, .fin (-1)⟩))).2 = .int 1 ∧
    (step bst 0 (.zcount 3 (some ⟨false, .ninf⟩) (some ⟨true, .fin (-1)⟩))).2 = .int 0 ∧
    (step bst 0 (.zcount 3 (some ⟨false, .ninf⟩) (some ⟨true, .fin 2⟩))).2 = .int 1 ∧
    (step bst 0 (.zcount 3 (some ⟨true, .pinf⟩) (some ⟨false, .pinf⟩))).2 = .int 0 ∧
    (step bst 0 (.zrangebyscore 3 (some ⟨false, .ninf⟩) (some ⟨false, .pinf⟩) false (some (3, 5)))).2 = .arr [] ∧
    (step bst 0 (.zrangebyscore 3 (some ⟨false, .ninf⟩) (some ⟨false, .pinf⟩) false (some (2, 5)))).2 = .arr [.bulk [122]] ∧
    (step bst 0 (.zrangebyscore 3 (some ⟨false, .ninf⟩) (some ⟨false, .pinf⟩) false (some (-1, 5)))).2 = .arr [] ∧
    (step bst 0 (.zrangebyscore 3 (some ⟨false, .ninf⟩) (some ⟨false, .pinf⟩) false (some (0, 0)))).2 = .arr [] := by decide

/-- ZADD GT / LT with a score EQUAL to the current one change nothing (and CH counts nothing) -/
theorem zadd_equal_score_boundaries :
    (step bst 0 (.zadd 3 ⟨false, false, true, false, true⟩ [([121], .fin 2)])).2 = .int 0 ∧
    (step bst 0 (.zadd 3 ⟨false, false, true, false, true⟩ [([121], .fin 3)])).2 = .int 1 ∧
    (step bst 0 (.zadd 3 ⟨false, false, true, false, true⟩ [([121], .fin 1)])).2 = .int 0 ∧
    (step bst 0 (.zadd 3 ⟨false, false, false, true, true⟩ [([121], .fin 2)])).2 = .int 0 ∧
    (step bst 0 (.zadd 3 ⟨false, false, false, true, true⟩ [([121], .fin 1)])).2 = .int 1 ∧
    (step bst 0 (.zadd 3 ⟨false, false, false, false, true⟩ [([121], .fin 2)])).2 = .int 0 ∧
    view (step bst 0 (.zadd 3 ⟨false, false, true, false, true⟩ [([121], .fin 2)])).1 0 = view bst 0 := by decide

/-- INCRBY / HINCRBY exactly up to i64::MAX succeed, one more overflows; SPOP count = card empties the key -/
theorem integer_and_count_boundaries :
    (step bst 0 (.incrby 5 (9223372036854775807 - 10))).2 = .int 9223372036854775807 ∧
    (step bst 0 (.incrby 5 (9223372036854775807 - 9))).2 = .err .overflow ∧
    (step bst 0 (.decrby 5 (10 + 9223372036854775807))).2 = .int (-9223372036854775807) ∧
    (step bst 0 (.hincrby 6 1 (9223372036854775807 - 10))).2 = .int 9223372036854775807 ∧
    (step bst 0 (.hincrby 6 1 (9223372036854775807 - 9))).2 = .err .overflow ∧
    (step bst 0 (.decrby 5 i64Min)).2 = .err .overflow ∧
    NMap.get (step bst 0 (.spop 4 (some 2) [7, 9])).1 4 = none ∧
    NMap.get (step bst 0 (.spop 4 (some 1) [7])).1 4 = some ⟨.set [(9, ())], none⟩ ∧
    (step bst 0 (.spop 4 (some 0) [])).2 = .arr [] := by decide

/-! ## non-vacuity -/

/-- a reachable state with a deadline: SET a "10" PX 1500 at t=1000, RPUSH-like states come with
    the later stages; here: a (deadline 2500), b (no deadline) -/
def demo : List (Nat × Cmd) :=
  [(1000, .set 1 [49, 48] .always (.px 1500) false), (1000, .mset [(2, [118])]), (1200, .incr 1)]

example : (run Redis.init demo).2 = [.ok, .ok, .int 11] := by decide
example : NMap.get (run Redis.init demo).1 1 = some ⟨.str [49, 49], some 2500⟩ := by decide
-- visible one ms before the deadline, invisible at the deadline
example : visible (run Redis.init demo).1 2499 1 = true ∧ visible (run Redis.init demo).1 2500 1 = false := by decide
-- TTL = (ms+500)/1000: 1400 ms left → 1, 1500 ms left → 2
example : (step (run Redis.init demo).1 1100 (.ttl 1)).2 = .int 1 ∧ (step (run Redis.init demo).1 1000 (.ttl 1)).2 = .int 2 := by decide

/-- sorted sets: ZADD with ties and infinities, update of a score, ZREM of the last member -/
def zdemo : List (Nat × Cmd) :=
  [(0, .zadd 7 ⟨false, false, false, false, false⟩ [([98], .fin 1), ([97], .fin 1), ([99], .ninf), ([100], .pinf)]),
   (0, .zadd 7 ⟨false, true, true, false, true⟩ [([97], .fin 5), ([98], .fin 0), ([122], .fin 3)]),
   (0, .zrange 7 0 (-1) true)]

example : (run Redis.init zdemo).2 =
    [.int 4, .int 1,
     .arr [.bulk [99], .bulk [45, 105, 110, 102], .bulk [98], .bulk [49], .bulk [97], .bulk [53],
           .bulk [100], .bulk [105, 110, 102]]] := by decide
example : Inv (run Redis.init zdemo).1 := by decide

end RedisVerif.C01
