import RedisVerif.Model.Stream
import RedisVerif.Lemmas.StreamOps
import RedisVerif.Lemmas.StreamFold

/-!
# C13 — Compaction never changes what recovery returns

Model: `Stream.compactWith` / `compactInterleaved` and `Stream.recover` (M4) over `RV.merge` (M1).
`recState st` is what a node folds from `recover st`.

* `compaction_preserves_recovery_current` (= `_repaired`) — the CURRENT tree: compactor with
  `mergeInsteadOfLatest` (and NotFound-only "missing"), no tombstone GC: for EVERY fault oracle (hence also for a compaction
  that dies at any store call) `recState` after = `recState` before.  A corollary of C07 +
  `FoldACI.fold1_replace` (replacing updates by their merge does not change the fold).
* `compaction_preserves_recovery_partial` — the pinned commit (keep-latest), fault-free, under the
  decidable hypotheses `KeepLatestAgreesWithMerge`, `NoTombstoneDropped` (and no concurrent
  flush: `compaction_flush_interleaving_partial`).
* `tombstone_gc_safe_partial` — with tombstone GC: the recovered states agree key by key except
  that a key whose merged value is a tombstone below the cutoff may be absent, provided
  (`GcSafe`, decidable) no other listed segment holds that key.
* `selection_oldest_first_prefix`, `gc_unsafe_only_through_noncandidate_or_newer`: a pass takes
  the oldest-first prefix of the candidates, so `GcSafe` can only fail through a segment that is
  not a candidate or that is newer than everything compacted; `smallest_first_selection_
  counterexample` shows what another selection order does.
* `compaction_preserves_recovery_under_read_faults`: the oracle may also mangle any read of the
  pass (`readCorrupt`); the current compactor skips such a segment.  `merge_invalid_segment_
  counterexample` shows what merging it does.
* `no_tombstone_dropped_when_ttl_exceeds_now`: the cutoff is the code's real u64 arithmetic
  (`now.saturating_sub(ttl as u64)`); `signed_cutoff_counterexample`, `ttl_truncation_counterexample`.
* kernel-checked counterexamples for every excluded case: `equal_times_counterexample`,
  `expiry_some_then_none_counterexample`, `hash_two_replicas_counterexample`,
  `production_clock_counterexample`, `dropped_tombstone_expiry_counterexample`,
  `dropped_tombstone_vclock_counterexample`,
  `older_value_in_skipped_segment_counterexample` (also for
  the current compactor: known finding), `flush_interleaving_counterexample` (also for the
  current compactor: known finding).  The keep-latest counterexamples are fixed defects.
-/
namespace RedisVerif
namespace C13

open _root_.RedisVerif.Stream FoldACI

/-- what a node ends up with after recovering from a store image (`none`: recovery fails) -/
def recState (st : Store) (rid : Nat) : Option (NMap RV) :=
  match recover st rid with
  | .ok r => some (foldState r.updates)
  | .error _ => none

/-- the part of a state a reader can see: tombstones read as "absent" -/
def visible (M : NMap RV) : NMap RV := M.filter (fun p => !p.2.isTombstone)

theorem recState_of_inv (c : Carrier) {st : Store} (hinv : StoreInv st) (hcar : InCar c (content st))
    (rid : Nat) : recState st rid = some (foldState (content st)) := by
  obtain ⟨r, hr⟩ := recover_ok_of_storeInv hinv rid
  unfold recState
  rw [hr]
  simp only [Option.some.injEq]
  exact (foldState_eq_of_same_set_inCar c hcar (fun e => (recover_updates_of_storeInv hinv hr e).symm)).symm

/-! ## full-strength statements -/

/-- compaction (any code variant `cfl`), any fault oracle, any configuration incl. tombstone GC:
    what a reader sees after recovery is unchanged -/
def C13_compaction_preserves_recovery (cfl : CompactFlags) : Prop :=
  ∀ (F : Oracle) (cfg : CompactCfg) (sz : Nat) (w : World) (rid : Nat),
    w.dead = false → StoreInv w.store → Coherent (content w.store) →
    (recState (compactWith cfl F cfg sz w).1.store rid).map visible = (recState w.store rid).map visible

/-- the same with one whole flush of the persistence actor running between the compactor's reads
    and its writes: recovery returns the old content plus what the flush confirmed -/
def C13_compaction_flush_interleaving (restore : Bool) (cfl : CompactFlags) : Prop :=
  ∀ (cfg : CompactCfg) (sz : Nat) (w : World) (rid : Nat) (mid : Option (Pers × Nat)),
    w.dead = false → StoreInv w.store → cfg.cutoff = 0 →
    Coherent (content w.store ++ (match mid with | some (p, _) => p.buffer | none => [])) →
    recState (compactInterleaved restore cfl allOk cfg sz w mid).1.store rid =
      some (foldState (content w.store ++
        (match mid, (compactInterleaved restore cfl allOk cfg sz w mid).2.2 with
         | some (p, _), .flushed _ _ => p.buffer
         | _, _ => [])))

/-! ## the repaired compactor: a corollary of C07 + FoldACI -/

def repairedCompact : CompactFlags := { mergeInsteadOfLatest := true, missingOnlyNotFound := true }

/-- **compaction_preserves_recovery for `mergeInsteadOfLatest`** (no tombstone GC): every fault
    oracle, every selection outcome (segments over the size target skipped, `max_segments_per_
    compaction` cut), every coherent multi-replica content: the recovered state is unchanged. -/
theorem compaction_preserves_recovery_repaired (F : Oracle) (cfg : CompactCfg) (sz : Nat) (w : World)
    (rid : Nat) (hinv : StoreInv w.store) (hc : Coherent (content w.store)) (hgc : cfg.cutoff = 0) :
    recState (compactWith repairedCompact F cfg sz w).1.store rid = recState w.store rid := by
  let c := carrierOf (content w.store) hc
  have hcar := inCar_of_coherent hc
  have hp := compact_fold_preserved c repairedCompact F cfg sz w hinv hcar
    (goodAcc_repaired repairedCompact rfl rfl F cfg hgc w hinv)
  rw [recState_of_inv c (compact_spec repairedCompact F cfg sz w hinv).1 hp.2 rid,
    recState_of_inv c hinv hcar rid, hp.1]

/-! ## the pinned commit (keep-latest) -/

/-- **compaction_preserves_recovery, partial (pinned keep-latest compactor, fault-free run)**.  Missing for
    the full statement: layouts where keep-latest-by-time disagrees with merge (equal times from
    two replicas, expiry, hashes — counterexamples below), tombstone GC (`tombstone_gc_safe_partial`
    and its counterexamples), faults (C12), a concurrent flush (`flush_interleaving_counterexample`). -/
theorem compaction_preserves_recovery_partial (cfg : CompactCfg) (sz : Nat) (w : World) (rid : Nat)
    (hd : w.dead = false) (hinv : StoreInv w.store) (hc : Coherent (content w.store))
    (hk : KeepLatestAgreesWithMerge w.store cfg) (hn : NoTombstoneDropped w.store cfg) :
    recState (compactWith pinnedFlags allOk cfg sz w).1.store rid = recState w.store rid := by
  let c := carrierOf (content w.store) hc
  have hcar := inCar_of_coherent hc
  have hp := compact_fold_preserved c pinnedFlags allOk cfg sz w hinv hcar
    (goodAcc_pinned cfg w hd hinv hk hn)
  rw [recState_of_inv c (compact_spec pinnedFlags allOk cfg sz w hinv).1 hp.2 rid,
    recState_of_inv c hinv hcar rid, hp.1]


/-! ## the selection rule -/

/-- **selection_oldest_first_prefix**: a pass of the modelled compactor takes the oldest-first
    prefix (by id) of the candidates (`size < target`), of length ≤ `max_segments_per_compaction`:
    every listed segment it leaves out is not a candidate or at least as new as all it took -/
theorem selection_oldest_first_prefix (cfg : CompactCfg) (m : Manifest) (s : SegInfo)
    (hs : s ∈ m.segments) (hns : s ∉ selectSegments cfg m) :
    cfg.target ≤ s.size ∨ ∀ t ∈ selectSegments cfg m, t.id ≤ s.id :=
  unselected_is_noncandidate_or_newer cfg m hs hns

/-- **`GcSafe` can only fail through a non-candidate or a newer, cut-off segment**: with
    oldest-first prefix selection, a value of a key whose tombstone the pass drops can survive
    outside the pass only in a segment that is not a candidate (size ≥ target) or that is strictly
    newer than every compacted segment (cut off by `max_segments_per_compaction`) — never in an
    older candidate that the pass skipped -/
theorem gc_unsafe_only_through_noncandidate_or_newer (st : Store) (cfg : CompactCfg) (q : Delta)
    (hq : q ∈ segDeltas st (removeIds (manifestOf st 0) ((selectSegments cfg (manifestOf st 0)).map (·.id)))) :
    ∃ s ∈ (manifestOf st 0).segments,
      (cfg.target ≤ s.size ∨ ∀ t ∈ selectSegments cfg (manifestOf st 0), t.id < s.id) ∧
      ∃ ds, NMap.get st (segName s.id) = some (.segment ds) ∧ q ∈ ds :=
  outside_pass_is_noncandidate_or_newer hq

/-- the seeded variant: candidates sorted by `(size_bytes, id)` — smallest first -/
def selectSmallestFirst (cfg : CompactCfg) (m : Manifest) : List SegInfo :=
  (sortBy (·.size) (sortBy (·.id) (m.segments.filter (fun s => s.size < cfg.target)))).take cfg.maxPer

/-- a compaction pass with smallest-first selection (everything else as `compactWith`) -/
def compactSmallestFirst (fl : CompactFlags) (F : Oracle) (cfg : CompactCfg) (sz : Nat) (w : World) :
    World × CompactOut :=
  match loadOrCreate F w 0 with
  | (w1, none) => (w1, .error)
  | (w1, some m) =>
    let sel := selectSmallestFirst cfg m
    if sel.length < cfg.minSegs then (w1, .nothing) else
    let r := loadLoop fl F w1 LoadAcc.init sel
    compactFinish F cfg sz r.1 m r.2


/-! ## read faults during the pass -/

/-- **compaction_preserves_recovery_under_read_faults** (current tree, no tombstone GC): the
    oracle may turn any `get` of the pass into an error or into a body that no parser accepts
    (`readCorrupt`: truncated / flipped bytes / empty, the object at rest intact).  The current
    compactor SKIPS such a segment — it stays listed and is not deleted (`loadLoop_repaired`) —
    so recovery with clean reads after the pass equals recovery with clean reads before it. -/
theorem compaction_preserves_recovery_under_read_faults (F : Oracle) (cfg : CompactCfg) (sz : Nat)
    (w : World) (rid : Nat) (hinv : StoreInv w.store) (hc : Coherent (content w.store)) (hgc : cfg.cutoff = 0) :
    recState (compact F cfg sz w).1.store rid = recState w.store rid :=
  compaction_preserves_recovery_repaired F cfg sz w rid hinv hc hgc

/-- the seeded variant (B): a segment whose read fails validation is merged anyway — with what
    the mangled body decodes to (`garbage id`) — removed from the manifest and deleted -/
def loadLoopMergeInvalid (garbage : Nat → List Delta) (F : Oracle) : World → LoadAcc → List SegInfo → World × LoadAcc
  | w, acc, [] => (w, acc)
  | w, acc, s :: rest =>
    match w.get F (segName s.id) with
    | (w1, .ok (.segment ds)) =>
      loadLoopMergeInvalid garbage F w1
        { acc with ktd := ds.foldl (keepStep true) acc.ktd, before := acc.before + ds.length,
                   actually := acc.actually ++ [s] } rest
    | (w1, .ok _) =>
      loadLoopMergeInvalid garbage F w1
        { acc with ktd := (garbage s.id).foldl (keepStep true) acc.ktd, before := acc.before + (garbage s.id).length,
                   actually := acc.actually ++ [s] } rest
    | (w1, .err _) => (w1, { acc with failed := true })

def compactMergeInvalid (garbage : Nat → List Delta) (F : Oracle) (cfg : CompactCfg) (sz : Nat) (w : World) :
    World × CompactOut :=
  match loadOrCreate F w 0 with
  | (w1, none) => (w1, .error)
  | (w1, some m) =>
    let r := loadLoopMergeInvalid garbage F w1 LoadAcc.init (selectSegments cfg m)
    compactFinish F cfg sz r.1 m r.2

/-! ## tombstone GC -/

/-- **tombstone_gc_safe, partial** (repaired compactor, cutoff in Lamport units, every fault
    oracle without read corruption — with a corrupted read the pass compacts fewer segments than
    `GcSafe` was stated for): under the decidable hypothesis `GcSafe` — every tombstone the compaction drops
    belongs to a key that occurs in no listed segment outside the compaction — the recovered
    states agree key by key, except that a key whose merged value was a tombstone below the
    cutoff may be absent afterwards (it reads as deleted before and after).  Missing for the
    full statement: `GcSafe` is not established by the code (`older_value_in_skipped_segment_
    counterexample`, `dropped_tombstone_expiry_counterexample` — both layouts violate `GcSafe`), and the cutoff the code computes is not in Lamport units
    (`production_clock_counterexample`). -/
theorem tombstone_gc_safe_partial (F : Oracle) (hF : NoReadCorruption F) (cfg : CompactCfg) (sz : Nat) (w : World)
    (hinv : StoreInv w.store) (hc : Coherent (content w.store)) (hsafe : GcSafe w.store cfg) (k : Nat) :
    NMap.get (foldState (content (compactWith repairedCompact F cfg sz w).1.store)) k
        = NMap.get (foldState (content w.store)) k ∨
    (NMap.get (foldState (content (compactWith repairedCompact F cfg sz w).1.store)) k = none ∧
      ∃ T, NMap.get (foldState (content w.store)) k = some T ∧ T.isTombstone = true ∧ T.ts.time < cfg.cutoff) := by
  rcases compact_gc_safe (carrierOf (content w.store) hc) repairedCompact rfl rfl F hF cfg sz w hinv
      (inCar_of_coherent hc) hsafe k with h | ⟨h1, T, h2, h3⟩
  · exact Or.inl h
  · refine Or.inr ⟨h1, T, h2, ?_⟩
    unfold dropped at h3
    simpa using h3

/-! ## concurrent flush -/

theorem compactWith_eq_phases (fl : CompactFlags) (F : Oracle) (cfg : CompactCfg) (sz : Nat) (w : World) :
    compactWith fl F cfg sz w =
      match compactLoad fl F cfg w with
      | .inl r => r
      | .inr (w2, m, acc) => compactFinish F cfg sz w2 m acc := by
  unfold compactWith compactLoad compactFinish
  split
  · rfl
  · simp only
    split
    · rfl
    · rfl

/-- decidable: no flush runs between the compactor's reads and its writes -/
def NoConcurrentFlush (mid : Option (Pers × Nat)) : Prop := mid = none

instance (mid : Option (Pers × Nat)) : Decidable (NoConcurrentFlush mid) := by
  unfold NoConcurrentFlush; infer_instance

theorem compactInterleaved_none (restore : Bool) (cfl : CompactFlags) (F : Oracle) (cfg : CompactCfg)
    (sz : Nat) (w : World) :
    (compactInterleaved restore cfl F cfg sz w none).1 = (compactWith cfl F cfg sz w).1 := by
  rw [compactWith_eq_phases]
  unfold compactInterleaved
  cases h : compactLoad cfl F cfg w with
  | inl r => obtain ⟨w1, out⟩ := r; rfl
  | inr r => obtain ⟨w2, m, acc⟩ := r; rfl

/-- **compaction_flush_interleaving, partial**: without a concurrent flush (repaired compactor) -/
theorem compaction_flush_interleaving_partial (restore : Bool) (cfg : CompactCfg) (sz : Nat) (w : World)
    (rid : Nat) (mid : Option (Pers × Nat)) (hmid : NoConcurrentFlush mid)
    (hinv : StoreInv w.store) (hgc : cfg.cutoff = 0) (hc : Coherent (content w.store)) :
    recState (compactInterleaved restore repairedCompact allOk cfg sz w mid).1.store rid =
      some (foldState (content w.store)) := by
  unfold NoConcurrentFlush at hmid
  subst hmid
  rw [compactInterleaved_none, compaction_preserves_recovery_repaired allOk cfg sz w rid hinv hc hgc]
  exact recState_of_inv (carrierOf (content w.store) hc) hinv (inCar_of_coherent hc) rid

/-! ## counterexamples (pinned code unless stated) -/

def lww (v t r : Nat) : RV := RV.withValue [v] ⟨t, r⟩
def tomb (t r : Nat) : RV := { crdt := .lww (Lww.delete ⟨t, r⟩), vc := none, expiry := none, ts := ⟨t, r⟩, rf := none }

/-- the world after a fault-free run of a workload from the empty store -/
def after (ops : List Op) : World := (runWith pinned allOk (Sys.init [] 1) ops).w

theorem storeInv_after (ops : List Op) : StoreInv (after ops).store := storeInv_runWith pinned allOk 1 ops

def cfgAll : CompactCfg := { target := 1000, minSegs := 2, maxPer := 5, now := 0, ttlMs := 0 }

/-- two replicas write key 107 at the same Lamport time 5 -/
def equalTimesOps : List Op := [.push (107, lww 1 5 1), .flush 100, .push (107, lww 2 5 2), .flush 100]

/-- **Fixed defect C13:keep-latest:lww (equal times)** — pinned commit.  Merge picks the greater stamp `(5, r2)`;
    the compactor keeps the first delta it saw (strict `>` on the time only). -/
theorem equal_times_counterexample :
    recState (after equalTimesOps).store 1 = some [(107, lww 2 5 2)] ∧
    recState (compactWith pinnedFlags allOk cfgAll 100 (after equalTimesOps)).1.store 1 = some [(107, lww 1 5 1)] ∧
    StoreInv (after equalTimesOps).store ∧ Coherent (content (after equalTimesOps).store) ∧
    ¬ KeepLatestAgreesWithMerge (after equalTimesOps).store cfgAll := by
  refine ⟨by decide, by decide, storeInv_after _, by decide, by decide⟩

/-- `SET e v EX 100` then `SET e w` (no expiry) on one replica -/
def expiryOps : List Op :=
  [.push (101, { lww 1 3 1 with expiry := some 100000 }), .flush 100, .push (101, lww 2 4 1), .flush 100]

/-- **Fixed defect C13:keep-latest:lww (expiry)** — pinned commit.  Merge keeps the maximum expiry, the compactor the
    latest delta's: recovery's expiry changes from `Some(100000)` to `None`. -/
theorem expiry_some_then_none_counterexample :
    recState (after expiryOps).store 1 = some [(101, { lww 2 4 1 with expiry := some 100000 })] ∧
    recState (compactWith pinnedFlags allOk cfgAll 100 (after expiryOps)).1.store 1 = some [(101, lww 2 4 1)] := by
  decide

def hashOf (fs : NMap Lww) (t r : Nat) : RV := { crdt := .hash fs, vc := none, expiry := none, ts := ⟨t, r⟩, rf := none }

/-- two replicas set different fields of hash 104 -/
def hashOps : List Op :=
  [.push (104, hashOf [(102, Lww.set [1] ⟨1, 1⟩)] 1 1), .flush 100,
   .push (104, hashOf [(103, Lww.set [2] ⟨2, 2⟩)] 2 2), .flush 100]

/-- **Fixed defect C13:keep-latest:hash** — pinned commit.  Merge unions the fields, the compactor keeps the
    later delta only: field 102 (`f`) is lost. -/
theorem hash_two_replicas_counterexample :
    recState (after hashOps).store 1 = some [(104, hashOf [(102, Lww.set [1] ⟨1, 1⟩), (103, Lww.set [2] ⟨2, 2⟩)] 2 2)] ∧
    recState (compactWith pinnedFlags allOk cfgAll 100 (after hashOps)).1.store 1 =
      some [(104, hashOf [(103, Lww.set [2] ⟨2, 2⟩)] 2 2)] := by
  decide

/-- key 116 written at time 3 in a large segment (over the size target: never selected), deleted
    at time 5 in a small one; a second small segment so that the compaction runs -/
def gcOps : List Op :=
  [.push (116, lww 120 3 1), .flush 5000, .push (116, tomb 5 1), .flush 100, .push (117, lww 1 6 1), .flush 100]

/-- the production wiring: `Compactor::new` uses `ProductionTimeSource`, so the cutoff is
    wall-clock milliseconds minus the TTL (24 h) — compared with Lamport times -/
def productionCutoff : Nat := 1700000000000 - 86400000

/-- **Known finding C13:tombstone-gc:clock-domains.**  With the production clock every tombstone
    is "older than the TTL" at once: the delete at Lamport time 5 is dropped by the first
    compaction and the older value in the skipped segment resurfaces. -/
theorem production_clock_counterexample :
    (recState (after gcOps).store 1).map visible = some [(117, lww 1 6 1)] ∧
    (recState (compactWith pinnedFlags allOk { cfgAll with now := 1700000000000, ttlMs := 86400000 } 100 (after gcOps)).1.store 1).map visible
      = some [(116, lww 120 3 1), (117, lww 1 6 1)] := by
  decide

/-- **Known finding C13:tombstone-gc:older-value-in-skipped-segment.**  Also a tombstone that IS
    older than the TTL (cutoff 100 in Lamport units) must not be dropped while an older value of
    the key lives in a segment that is not part of the compaction; the repaired
    (`mergeInsteadOfLatest`) compactor has the same defect. -/
theorem older_value_in_skipped_segment_counterexample :
    (recState (after gcOps).store 1).map visible = some [(117, lww 1 6 1)] ∧
    (recState (compactWith pinnedFlags allOk { cfgAll with now := 100, ttlMs := 0 } 100 (after gcOps)).1.store 1).map visible
      = some [(116, lww 120 3 1), (117, lww 1 6 1)] ∧
    (recState (compactWith repairedCompact allOk { cfgAll with now := 100, ttlMs := 0 } 100 (after gcOps)).1.store 1).map visible
      = some [(116, lww 120 3 1), (117, lww 1 6 1)] := by
  decide

/-- key 107: `SET … PX 2000` at time 5 and its `DEL` at time 6 (a delete keeps the value's
    `expiry_ms`) in two small segments; a newer `SET` without expiry at time 8 in a segment over
    the size target (never selected) -/
def gcExpiryOps : List Op :=
  [.push (107, { lww 13 5 1 with expiry := some 2000 }), .flush 100,
   .push (107, { tomb 6 1 with expiry := some 2000 }), .flush 100,
   .push (107, lww 16 8 1), .flush 5000]

/-- **Known finding C13:tombstone-gc:expiry-of-dropped-tombstone.**  Merge keeps the maximum /
    the present expiry (C06's expiry-merge semantics), so the tombstone at time 6 contributes
    `expiry = 2000` to the merged value although the newer write wins the register.  Dropping the
    tombstone (it is below the cutoff) removes that contribution: the recovered value is the
    same, its expiry changes from `Some 2000` to `None`.  Same root as the other GC findings — the
    key lives on in a segment outside the compaction, which `GcSafe` excludes — and the current
    (merge-instead-of-latest) compactor has it. -/
theorem dropped_tombstone_expiry_counterexample :
    recState (after gcExpiryOps).store 1 = some [(107, { lww 16 8 1 with expiry := some 2000 })] ∧
    recState (compactWith repairedCompact allOk { cfgAll with now := 100, ttlMs := 0 } 100 (after gcExpiryOps)).1.store 1
      = some [(107, lww 16 8 1)] ∧
    (compactWith repairedCompact allOk { cfgAll with now := 100, ttlMs := 0 } 100 (after gcExpiryOps)).2 = .emptied [0, 1] 1 ∧
    Coherent (content (after gcExpiryOps).store) ∧
    ¬ GcSafe (after gcExpiryOps).store { cfgAll with now := 100, ttlMs := 0 } := by
  decide

/-- Causal mode, two replicas: r1 writes key 107 (vector clock {1:1}) and deletes it ({1:2}); r2's
    concurrent newer write ({2:1}) sits in a segment over the size target -/
def gcVclockOps : List Op :=
  [.push (107, { lww 1 5 1 with vc := some [(1, 1)] }), .flush 100,
   .push (107, { tomb 6 1 with vc := some [(1, 2)] }), .flush 100,
   .push (107, { lww 2 8 2 with vc := some [(2, 1)] }), .flush 5000]

/-- **Known finding C13:tombstone-gc:metadata-of-dropped-tombstone.**  The same for every other
    merged component: the dropped tombstone is the merge of the compacted deltas of the key, and
    with it goes what they contributed to the merged value of a newer write outside the compaction
    — here the entry `{1:2}` of the vector clock. -/
theorem dropped_tombstone_vclock_counterexample :
    recState (after gcVclockOps).store 1 = some [(107, { lww 2 8 2 with vc := some [(1, 2), (2, 1)] })] ∧
    recState (compactWith repairedCompact allOk { cfgAll with now := 100, ttlMs := 0 } 100 (after gcVclockOps)).1.store 1
      = some [(107, { lww 2 8 2 with vc := some [(2, 1)] })] ∧
    Coherent (content (after gcVclockOps).store) ∧
    ¬ GcSafe (after gcVclockOps).store { cfgAll with now := 100, ttlMs := 0 } := by
  decide

/-- three candidates of uneven sizes, `max_segments_per_compaction = 2`: segment 0 (large, oldest)
    holds key 107 = v1 @10, segment 1 (small) its delete @20, segment 2 (small) another key -/
def unevenOps : List Op :=
  [.push (107, lww 1 10 1), .flush 900, .push (107, tomb 20 1), .flush 100, .push (120, lww 2 30 1), .flush 100]

def unevenCfg : CompactCfg := { target := 1000, minSegs := 2, maxPer := 2, now := 100, ttlMs := 0 }

/-- **smallest-first selection breaks tombstone GC where oldest-first does not**: oldest-first
    compacts segments 0 and 1 — the expired tombstone goes together with the value it deletes;
    smallest-first compacts segments 1 and 2, drops the tombstone and leaves the OLDER candidate
    segment 0 behind: key 107 is served again.  (The unchanged tree never produces this: the
    harness reports it as `C13:selection:not-oldest-first…`, an unlisted signature.) -/
theorem smallest_first_selection_counterexample :
    (recState (after unevenOps).store 1).map visible = some [(120, lww 2 30 1)] ∧
    (compactWith repairedCompact allOk unevenCfg 100 (after unevenOps)).2 = .emptied [0, 1] 1 ∧
    (recState (compactWith repairedCompact allOk unevenCfg 100 (after unevenOps)).1.store 1).map visible
      = some [(120, lww 2 30 1)] ∧
    GcSafe (after unevenOps).store unevenCfg ∧
    (compactSmallestFirst repairedCompact allOk unevenCfg 100 (after unevenOps)).2 = .compacted [1, 2] 3 1 1 ∧
    (recState (compactSmallestFirst repairedCompact allOk unevenCfg 100 (after unevenOps)).1.store 1).map visible
      = some [(107, lww 1 10 1), (120, lww 2 30 1)] ∧
    -- the segment left behind is a candidate that is OLDER than the segments taken
    (selectSmallestFirst unevenCfg (manifestOf (after unevenOps).store 0)).map (·.id) = [1, 2] ∧
    (selectSegments unevenCfg (manifestOf (after unevenOps).store 0)).map (·.id) = [0, 1] := by
  decide

/-- two flushed segments; during the pass the read of segment 0 (store call 9) comes back with a
    flipped byte in the record region: the checksum fails, the body still decodes — to key 107 with
    a wrong value -/
def readFaultOps : List Op := [.push (107, lww 1 5 1), .flush 100, .push (108, lww 2 6 1), .flush 100]
def readFaultOracle : Oracle := fun n => if n = 9 then .readCorrupt else .ok
def cfgOne : CompactCfg := { target := 1000, minSegs := 1, maxPer := 5, now := 0, ttlMs := 0 }

/-- **merge-invalid counterexample** (seed C13-compaction-merges-invalid-segment): the current
    compactor skips the segment whose read was mangled and recovery is unchanged; the variant
    that merges it launders the mangled value into the compacted segment (fresh valid checksum)
    and deletes the only good copy: recovery with clean reads returns a different state. -/
theorem merge_invalid_segment_counterexample :
    recState (after readFaultOps).store 1 = some [(107, lww 1 5 1), (108, lww 2 6 1)] ∧
    (compact readFaultOracle cfgOne 100 (after readFaultOps)).2 = .compacted [1] 2 1 0 ∧
    recState (compact readFaultOracle cfgOne 100 (after readFaultOps)).1.store 1
      = some [(107, lww 1 5 1), (108, lww 2 6 1)] ∧
    recState (compactMergeInvalid (fun _ => [(107, lww 99 5 1)]) readFaultOracle cfgOne 100 (after readFaultOps)).1.store 1
      = some [(107, lww 99 5 1), (108, lww 2 6 1)] := by
  decide

/-- key 107 written @5 (segment 0), deleted @8 (segment 1), another key (segment 2); during the
    pass the read of segment 0 (store call 13) comes back mangled -/
def gcSkipOps : List Op :=
  [.push (107, lww 1 5 1), .flush 100, .push (107, tomb 8 1), .flush 100, .push (120, lww 2 9 1), .flush 100]
def gcSkipOracle : Oracle := fun n => if n = 13 then .readCorrupt else .ok
def gcSkipCfg : CompactCfg := { target := 1000, minSegs := 2, maxPer := 5, now := 100, ttlMs := 0 }

/-- **Known finding C13:tombstone-gc:skipped-unreadable-segment.**  Tombstone GC looks only at what
    the pass actually merged: when a selected older segment is skipped because its read was
    mangled, the pass still drops the key's tombstone, and the skipped segment brings the deleted
    value back.  Without the read fault the same pass is safe. -/
theorem gc_skipped_unreadable_segment_counterexample :
    (recState (after gcSkipOps).store 1).map visible = some [(120, lww 2 9 1)] ∧
    (recState (compact allOk gcSkipCfg 100 (after gcSkipOps)).1.store 1).map visible = some [(120, lww 2 9 1)] ∧
    (compact gcSkipOracle gcSkipCfg 100 (after gcSkipOps)).2 = .compacted [1, 2] 3 1 1 ∧
    (recState (compact gcSkipOracle gcSkipCfg 100 (after gcSkipOps)).1.store 1).map visible
      = some [(107, lww 1 5 1), (120, lww 2 9 1)] := by
  decide

/-! ## the cutoff arithmetic -/

/-- **no_tombstone_dropped_when_ttl_exceeds_now** (u64 TTLs — everything a configuration file can
    express, incl. `u64::MAX` ms = "never collect"): the code computes `now.saturating_sub(ttl)`
    in u64, so a TTL of at least `now` gives cutoff 0 and the pass drops no tombstone -/
theorem no_tombstone_dropped_when_ttl_exceeds_now (cfg : CompactCfg) (hu : cfg.ttlMs < 2 ^ 64)
    (h : cfg.now ≤ cfg.ttlMs) (ktd : NMap RV) : cfg.cutoff = 0 ∧ keptOf cfg ktd = ktd := by
  have hc : cfg.cutoff = 0 := by
    unfold CompactCfg.cutoff cutoffWith ttlToU64With
    split
    · have : Min.min cfg.ttlMs (2 ^ 64 - 1) = cfg.ttlMs := by
        apply Nat.min_eq_left; omega
      rw [this]; omega
    · rw [Nat.mod_eq_of_lt hu]; omega
  exact ⟨hc, keptOf_noGC hc ktd⟩

/-- with the saturating conversion (suggested repair) the same holds for every u128 TTL
    (`Duration::MAX` included) as long as `now` is a u64 -/
theorem no_tombstone_dropped_when_ttl_exceeds_now_saturating (now ttlMs : Nat) (hn : now < 2 ^ 64)
    (h : now ≤ ttlMs) : cutoffWith true now ttlMs = 0 := by
  unfold cutoffWith ttlToU64With
  simp only [if_true]
  by_cases hle : ttlMs ≤ 2 ^ 64 - 1
  · rw [Nat.min_eq_left hle]; omega
  · rw [Nat.min_eq_right (by omega)]; omega

/-- **Known finding C13:tombstone-gc:ttl-truncated-to-u64.**  `tombstone_ttl.as_millis() as u64`
    truncates the u128 modulo 2^64: a TTL of 2^64 + 384 ms (`Duration::from_secs(18446744073709552)`,
    584 million years) is read as 384 ms, so at `now = 1000` the cutoff is 616 and a tombstone
    written at Lamport time 5 is dropped although its TTL is far from elapsed. -/
theorem ttl_truncation_counterexample :
    cutoffWith false 1000 (2 ^ 64 + 384) = 616 ∧ (tomb 5 1).ts.time < cutoffWith false 1000 (2 ^ 64 + 384) ∧
    cutoffWith true 1000 (2 ^ 64 + 384) = 0 := by
  decide

/-- two's-complement reading of a u64 as i64 (`x as i64`) -/
def toI64 (x : Nat) : Int := ((x + 2 ^ 63) % 2 ^ 64 : Nat) - (2 ^ 63 : Int)

/-- the seeded variant: `now_millis_i64() - tombstone_ttl.as_millis() as i64`, compared with
    `delta_time as i64` -/
def cutoffSigned (now ttlMs : Nat) : Int := toI64 now - toI64 (ttlMs % 2 ^ 64)

def keptOfSigned (now ttlMs : Nat) (ktd : NMap RV) : NMap RV :=
  ktd.filter (fun p => !(p.2.isTombstone && decide (toI64 p.2.ts.time < cutoffSigned now ttlMs)))

/-- **signed_cutoff_counterexample** (seed C13-tombstone-cutoff-signed-overflow): with the legal
    "never collect" TTL `u64::MAX` ms the code's u64 arithmetic gives cutoff 0 and keeps every
    tombstone; the signed variant reads the TTL as −1, gets cutoff `now + 1` and drops them all —
    e.g. the delete of key 116 at time 5 whose older value sits in a segment outside the pass
    (`gcOps`), which then resurfaces (the pass with cutoff `now + 1` is the model's pass with
    `now := now + 1, ttl := 0`). -/
theorem signed_cutoff_counterexample :
    ({ cfgAll with now := 1000, ttlMs := 2 ^ 64 - 1 } : CompactCfg).cutoff = 0 ∧
    cutoffSigned 1000 (2 ^ 64 - 1) = 1001 ∧
    keptOf { cfgAll with now := 1000, ttlMs := 2 ^ 64 - 1 } [(116, tomb 5 1)] = [(116, tomb 5 1)] ∧
    keptOfSigned 1000 (2 ^ 64 - 1) [(116, tomb 5 1)] = [] ∧
    (recState (compactWith repairedCompact allOk { cfgAll with now := 1000, ttlMs := 2 ^ 64 - 1 } 100 (after gcOps)).1.store 1).map visible
      = (recState (after gcOps).store 1).map visible ∧
    (recState (compactWith repairedCompact allOk { cfgAll with now := 1001, ttlMs := 0 } 100 (after gcOps)).1.store 1).map visible
      = some [(116, lww 120 3 1), (117, lww 1 6 1)] := by
  decide

theorem C13_false_pinned : ¬ C13_compaction_preserves_recovery pinnedFlags := by
  intro h
  have := h allOk cfgAll 100 (after equalTimesOps) 1 (by decide) (storeInv_after _) (by decide)
  revert this
  decide

theorem C13_false_repaired_with_gc : ¬ C13_compaction_preserves_recovery repairedCompact := by
  intro h
  have := h allOk { cfgAll with now := 100, ttlMs := 0 } 100 (after gcOps) 1 (by decide) (storeInv_after _) (by decide)
  revert this
  decide

/-- two small segments; while the compactor holds its manifest snapshot (`next = 2`) the
    persistence actor flushes key 110 -/
def raceOps : List Op := [.push (107, lww 1 5 1), .flush 100, .push (108, lww 2 6 1), .flush 100]
def racePers : Pers := { rid := 1, buffer := [(110, lww 9 7 1)] }

/-- **Known finding C13:flush-race:manifest-swap-without-cas.**  Both the flush and the
    compaction allocate `manifest.next_segment_id = 2`: the compactor's `put` overwrites the
    flushed segment and its manifest — written from the snapshot taken at the start — does not
    know the flush.  The flush returned `Ok`, key 110 is gone.  Same with the repaired compactor. -/
theorem flush_interleaving_counterexample :
    (compactInterleaved false pinnedFlags allOk cfgAll 100 (after raceOps) (some (racePers, 100))).2.2 = .flushed 2 1 ∧
    recState (compactInterleaved false pinnedFlags allOk cfgAll 100 (after raceOps) (some (racePers, 100))).1.store 1
      = some [(107, lww 1 5 1), (108, lww 2 6 1)] ∧
    recState (compactInterleaved true repairedCompact allOk cfgAll 100 (after raceOps) (some (racePers, 100))).1.store 1
      = some [(107, lww 1 5 1), (108, lww 2 6 1)] := by
  decide

theorem C13_interleaving_false (restore : Bool) : ¬ C13_compaction_flush_interleaving restore repairedCompact := by
  intro h
  have := h cfgAll 100 (after raceOps) 1 (some (racePers, 100)) (by decide) (storeInv_after _) rfl (by decide)
  revert this
  cases restore <;> decide


/-! ## the current tree -/

theorem current_compact_is_repaired : current.compact = repairedCompact := rfl

/-- **compaction_preserves_recovery for the CURRENT tree** (`Stream.compact`), no tombstone GC:
    every fault oracle, every layout with coherent content -/
theorem compaction_preserves_recovery_current (F : Oracle) (cfg : CompactCfg) (sz : Nat) (w : World)
    (rid : Nat) (hinv : StoreInv w.store) (hc : Coherent (content w.store)) (hgc : cfg.cutoff = 0) :
    recState (compact F cfg sz w).1.store rid = recState w.store rid :=
  compaction_preserves_recovery_repaired F cfg sz w rid hinv hc hgc

/-- the witnesses of the pinned commit's keep-latest defect are preserved by the current tree -/
example :
    recState (compact allOk cfgAll 100 (after equalTimesOps)).1.store 1 = recState (after equalTimesOps).store 1 ∧
    recState (compact allOk cfgAll 100 (after expiryOps)).1.store 1 = recState (after expiryOps).store 1 ∧
    recState (compact allOk cfgAll 100 (after hashOps)).1.store 1 = recState (after hashOps).store 1 := by
  decide

/-! ## non-vacuity -/

/-- non-vacuity: a layout where a tombstone IS dropped and `GcSafe` holds (the deleted key's
    older value is inside the compaction), while `gcOps` violates `GcSafe` -/
def gcSafeOps : List Op :=
  [.push (116, lww 120 3 1), .flush 100, .push (116, tomb 5 1), .flush 100, .push (117, lww 1 6 1), .flush 5000]

example : GcSafe (after gcSafeOps).store { cfgAll with now := 100, ttlMs := 0 } ∧
    Coherent (content (after gcSafeOps).store) ∧
    (compactWith repairedCompact allOk { cfgAll with now := 100, ttlMs := 0 } 100 (after gcSafeOps)).2 = .emptied [0, 1] 1 ∧
    recState (after gcSafeOps).store 1 = some [(116, tomb 5 1), (117, lww 1 6 1)] ∧
    recState (compactWith repairedCompact allOk { cfgAll with now := 100, ttlMs := 0 } 100 (after gcSafeOps)).1.store 1
      = some [(117, lww 1 6 1)] ∧
    ¬ GcSafe (after gcOps).store { cfgAll with now := 100, ttlMs := 0 } := by
  decide



/-- three replicas, overlapping stamp ranges, a tombstone (kept: cutoff 0), one segment over the
    size target (skipped), `maxPer` cutting the selection: the hypotheses of the partial theorem
    hold and the compaction really rewrites the store -/
def exOps : List Op :=
  [.push (107, lww 1 5 1), .push (108, lww 2 9 2), .flush 100,
   .push (107, lww 3 7 3), .push (109, tomb 8 1), .flush 100,
   .push (110, lww 4 2 2), .flush 5000,
   .push (108, lww 5 11 1), .flush 100]

def exCfg : CompactCfg := { target := 1000, minSegs := 2, maxPer := 2, now := 0, ttlMs := 0 }

example : Coherent (content (after exOps).store) ∧
    KeepLatestAgreesWithMerge (after exOps).store exCfg ∧ NoTombstoneDropped (after exOps).store exCfg ∧
    (compactWith pinnedFlags allOk exCfg 150 (after exOps)).2 = .compacted [0, 1] 4 3 0 ∧
    (compactWith pinnedFlags allOk exCfg 150 (after exOps)).1.store ≠ (after exOps).store ∧
    recState (after exOps).store 1 =
      some [(107, lww 3 7 3), (108, lww 5 11 1), (109, tomb 8 1), (110, lww 4 2 2)] := by
  decide

end C13
end RedisVerif
