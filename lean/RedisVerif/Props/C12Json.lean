import RedisVerif.Lemmas.ManifestJson

/-!
# C12 / C11 — the manifest object byte for byte: what a reader makes of the manifest it is handed

Model: `ManifestJson.encode` = `serde_json::to_vec_pretty(&Manifest)` (what `ManifestManager::save`
writes), `ManifestJson.decode` = `serde_json::from_slice::<Manifest>` (what `load` /
`load_or_create` — hence every flush, every compaction pass and every recovery — reads), both
transcribed byte for byte (M4j, `Model/ManifestJson.lean`) and tied to the real serde_json on every
single-bit flip of generated manifests (harness/src/c12j.rs).

* `manifest_json_roundtrip` — for EVERY manifest value the Rust types admit (`u64` / `u32` fields in
  range, keys valid UTF-8; any number of segments, with or without a checkpoint, keys with quotes,
  backslashes, control bytes, multi-byte characters): the reader returns exactly what the writer
  wrote.  So an intact manifest is never misread, and `encode` is injective
  (`manifest_encode_injective`).
* `manifest_accepts_every_wellformed_encoding` — the other side of the same coin, and the reason
  for the listed finding C12:read-corruption-accepted:manifest:*: the format carries no redundancy —
  EVERY well-formed manifest value has an accepted encoding, so a damaged or stale read that happens
  to be the encoding of another value `m'` is accepted as `m'`; nothing in the bytes ties them to
  the manifest that was written.
* `number_damage_accepted` — the class the finding names ("a flipped `next_segment_id` digit makes
  flush overwrite a live segment"), for ALL manifests: the encodings of two manifests that differ
  only in `next_segment_id` (resp. `version`) are the same bytes around that one number token, and
  the reader returns the other number, whatever it is.
-/
namespace RedisVerif
namespace C12

open _root_.RedisVerif.ManifestJson

/-- **the reader returns exactly what the writer wrote** — every manifest the Rust types admit -/
theorem manifest_json_roundtrip (m : JMan) (hw : m.WF) : decode (encode m) = some m := by
  unfold decode
  have hlen := length_encode_ge m []
  rw [List.append_nil] at hlen
  obtain ⟨vals, hp, hb⟩ := parseStruct_encode m hw [] (2 * (encode m).length + 8) (by omega)
  rw [List.append_nil] at hp
  rw [hp]
  simp [hb, skipWs]

/-- two different manifests never share an encoding -/
theorem manifest_encode_injective (m m' : JMan) (hw : m.WF) (hw' : m'.WF) (h : encode m = encode m') : m = m' := by
  have h1 := manifest_json_roundtrip m hw
  have h2 := manifest_json_roundtrip m' hw'
  rw [h] at h1
  rw [h1] at h2
  exact Option.some.inj h2

/-- **no redundancy**: whatever manifest `m` was written, a read that returns the encoding of ANY
    other well-formed manifest `m'` (a stale version, a damaged body that is still an encoding) is
    accepted, and the caller gets `m'` -/
theorem manifest_accepts_every_wellformed_encoding (m m' : JMan) (_hw : m.WF) (hw' : m'.WF) (_hne : m ≠ m') :
    decode (encode m') = some m' ∧ decode (encode m') ≠ decode (encode m) ∨ ¬ m.WF := by
  left
  refine ⟨manifest_json_roundtrip m' hw', ?_⟩
  rw [manifest_json_roundtrip m' hw', manifest_json_roundtrip m _hw]
  intro h
  exact _hne (Option.some.inj h).symm

/-- **damage inside a number is accepted** (`next_segment_id`): the two encodings are the same bytes
    before and after the number token, and the reader returns the other number — for every manifest
    and every pair of `u64` values -/
theorem number_damage_accepted (m : JMan) (hw : m.WF) (n' : Nat) (hn : n' ≤ u64Max) :
    ∃ pre post, encode m = pre ++ encNat m.next ++ post ∧
      encode { m with next := n' } = pre ++ encNat n' ++ post ∧
      decode (pre ++ encNat n' ++ post) = some { m with next := n' } := by
  refine ⟨[123] ++ member 1 true [118, 101, 114, 115, 105, 111, 110] (encNat m.version) ++
      member 1 false [114, 101, 112, 108, 105, 99, 97, 95, 105, 100] (encNat m.rid) ++
      member 1 false [115, 101, 103, 109, 101, 110, 116, 115] (encSegs 1 m.segments) ++
      member 1 false [99, 104, 101, 99, 107, 112, 111, 105, 110, 116]
        (encChkOpt 1 m.checkpoint) ++
      ([44, 10] ++ indent 1 ++ encStr [110, 101, 120, 116, 95, 115, 101, 103, 109, 101, 110, 116, 95, 105, 100] ++ [58, 32]),
    closeObj 0, ?_, ?_, ?_⟩
  · simp only [encode, member, List.append_assoc, Bool.false_eq_true, if_false, if_true, ↓reduceIte]
  · simp only [encode, member, List.append_assoc, Bool.false_eq_true, if_false, if_true, ↓reduceIte]
  · have hw' : ({ m with next := n' } : JMan).WF := by
      obtain ⟨h1, h2, _, h4, h5⟩ := hw
      exact ⟨h1, h2, hn, h4, h5⟩
    have := manifest_json_roundtrip { m with next := n' } hw'
    rw [← this]
    congr 1
    simp only [encode, member, List.append_assoc, Bool.false_eq_true, if_false, if_true, ↓reduceIte]

/-- the same for `version` (what `ManifestManager::update`'s callers compare) -/
theorem version_damage_accepted (m : JMan) (hw : m.WF) (v' : Nat) (hv : v' ≤ u64Max) :
    ∃ pre post, encode m = pre ++ encNat m.version ++ post ∧
      decode (pre ++ encNat v' ++ post) = some { m with version := v' } := by
  refine ⟨[123] ++ ([10] ++ indent 1 ++ encStr [118, 101, 114, 115, 105, 111, 110] ++ [58, 32]),
    member 1 false [114, 101, 112, 108, 105, 99, 97, 95, 105, 100] (encNat m.rid) ++
      member 1 false [115, 101, 103, 109, 101, 110, 116, 115] (encSegs 1 m.segments) ++
      member 1 false [99, 104, 101, 99, 107, 112, 111, 105, 110, 116]
        (encChkOpt 1 m.checkpoint) ++
      member 1 false [110, 101, 120, 116, 95, 115, 101, 103, 109, 101, 110, 116, 95, 105, 100] (encNat m.next) ++
      closeObj 0, ?_, ?_⟩
  · simp only [encode, member, List.append_assoc, Bool.false_eq_true, if_false, if_true, ↓reduceIte]
  · have hw' : ({ m with version := v' } : JMan).WF := by
      obtain ⟨_, h2, h3, h4, h5⟩ := hw
      exact ⟨hv, h2, h3, h4, h5⟩
    have := manifest_json_roundtrip { m with version := v' } hw'
    rw [← this]
    congr 1
    simp only [encode, member, List.append_assoc, Bool.false_eq_true, if_false, if_true, ↓reduceIte]

/-- **damage to the NAME `checkpoint` silently drops the checkpoint** — for EVERY manifest: replace
    the ten bytes of the name by any string the reader does not know as a field (one flipped bit is
    enough: `checkpoint_name_flip_drops_checkpoint`) and `load` returns Ok with every other field
    as written and `checkpoint: None` — the value, `null` or a whole `CheckpointInfo` object, is
    skipped as that of an unknown field, and a missing `Option` field is `None`.  A recovery
    from that manifest ignores the checkpoint and replays only the listed segments. -/
theorem checkpoint_name_damage_drops_checkpoint (m : JMan) (hw : m.WF) (name' : List Nat)
    (hv : validUtf8 (name'.length + 1) name' = true) (hunk : fieldIndex manFields name' = none) :
    ∃ pre post, encode m = pre ++ encStr [99, 104, 101, 99, 107, 112, 111, 105, 110, 116] ++ post ∧
      decode (pre ++ encStr name' ++ post) = some { m with checkpoint := none } := by
  refine ⟨[123] ++ member 1 true [118, 101, 114, 115, 105, 111, 110] (encNat m.version) ++
      member 1 false [114, 101, 112, 108, 105, 99, 97, 95, 105, 100] (encNat m.rid) ++
      member 1 false [115, 101, 103, 109, 101, 110, 116, 115] (encSegs 1 m.segments) ++ ([44, 10] ++ indent 1),
    [58, 32] ++ encChkOpt 1 m.checkpoint ++
      member 1 false [110, 101, 120, 116, 95, 115, 101, 103, 109, 101, 110, 116, 95, 105, 100] (encNat m.next) ++ closeObj 0,
    ?_, ?_⟩
  · simp only [encode, member, List.append_assoc, Bool.false_eq_true, if_false, if_true, ↓reduceIte]
  · have htxt : ([123] ++ member 1 true [118, 101, 114, 115, 105, 111, 110] (encNat m.version) ++
          member 1 false [114, 101, 112, 108, 105, 99, 97, 95, 105, 100] (encNat m.rid) ++
          member 1 false [115, 101, 103, 109, 101, 110, 116, 115] (encSegs 1 m.segments) ++ ([44, 10] ++ indent 1)) ++
          encStr name' ++ ([58, 32] ++ encChkOpt 1 m.checkpoint ++
          member 1 false [110, 101, 120, 116, 95, 115, 101, 103, 109, 101, 110, 116, 95, 105, 100] (encNat m.next) ++ closeObj 0) =
        [123] ++ member 1 true [118, 101, 114, 115, 105, 111, 110] (encNat m.version) ++
          member 1 false [114, 101, 112, 108, 105, 99, 97, 95, 105, 100] (encNat m.rid) ++
          member 1 false [115, 101, 103, 109, 101, 110, 116, 115] (encSegs 1 m.segments) ++
          member 1 false name' (encChkOpt 1 m.checkpoint) ++
          member 1 false [110, 101, 120, 116, 95, 115, 101, 103, 109, 101, 110, 116, 95, 105, 100] (encNat m.next) ++
          closeObj 0 ++ [] := by
      simp only [member, List.append_assoc, Bool.false_eq_true, if_false, if_true, ↓reduceIte, List.append_nil]
    rw [htxt]
    unfold decode
    have hlen : m.segments.length + 20 ≤ 2 * ([123] ++ member 1 true [118, 101, 114, 115, 105, 111, 110] (encNat m.version) ++
          member 1 false [114, 101, 112, 108, 105, 99, 97, 95, 105, 100] (encNat m.rid) ++
          member 1 false [115, 101, 103, 109, 101, 110, 116, 115] (encSegs 1 m.segments) ++
          member 1 false name' (encChkOpt 1 m.checkpoint) ++
          member 1 false [110, 101, 120, 116, 95, 115, 101, 103, 109, 101, 110, 116, 95, 105, 100] (encNat m.next) ++
          closeObj 0 ++ []).length + 8 := by
      have h := length_encSegs_ge 1 m.segments
      simp only [List.length_append, member, closeObj, List.length_cons, List.length_nil]
      omega
    obtain ⟨vals, hp, hb⟩ := parseStruct_checkpoint_renamed m hw name' hv hunk [] _ hlen
    rw [hp]
    simp [hb, skipWs]

/-- non-vacuity: `checkpoint` with bit 0 of its first letter flipped is such a name -/
example : validUtf8 11 [98, 104, 101, 99, 107, 112, 111, 105, 110, 116] = true ∧
    fieldIndex manFields [98, 104, 101, 99, 107, 112, 111, 105, 110, 116] = none := by decide

/-! ## non-vacuity and concrete damage (kernel-evaluated on the model that is tied to serde_json) -/

/-- the manifest of two flushes: keys `p/segments/segment-0000000N.seg` -/
def segKey (n : Nat) : List Nat :=
  [112, 47, 115, 101, 103, 109, 101, 110, 116, 115, 47, 115, 101, 103, 109, 101, 110, 116, 45, 48, 48, 48, 48, 48, 48, 48, 48 + n,
   46, 115, 101, 103]

def exMan : JMan :=
  { version := 2, rid := 1,
    segments := [{ id := 0, key := segKey 0, count := 2, size := 165, minTs := 5, maxTs := 6 },
                 { id := 1, key := segKey 1, count := 1, size := 98, minTs := 7, maxTs := 7 }],
    checkpoint := some { key := [99], ts := 9, keyCount := 2, last := 0 }, next := 2 }

example : exMan.WF := by decide

/-- position of a byte sequence in a list (first occurrence) -/
def findSub (pat : List Nat) : Nat → List Nat → Option Nat
  | _, [] => none
  | i, b :: r => if pat.isPrefixOf (b :: r) then some i else findSub pat (i + 1) r

def flipBit (bs : List Nat) (i bit : Nat) : List Nat := bs.set i ((bs.getD i 0) ^^^ (1 <<< bit))

/-- offsets in the encoding of `exMan`: the last digit of the second segment's key, the first
    letter of the name `checkpoint`, the digit of `next_segment_id`, a structural brace -/
def posKeyDigit : Nat := (findSub (segKey 1) 0 (encode exMan)).getD 0 + 26
def posChkName : Nat := (findSub [99, 104, 101, 99, 107, 112, 111, 105, 110, 116] 0 (encode exMan)).getD 0

/-- **one bit in a key digit**: `segment-00000001` reads as `segment-00000000` — accepted; recovery
    then loads segment 0 twice and never segment 1 (the replay of the listed finding
    C12:read-corruption-accepted:manifest:read-flip, here decided by the grammar) -/
theorem key_digit_flip_accepted :
    decode (flipBit (encode exMan) posKeyDigit 0) =
      some { exMan with segments := [{ id := 0, key := segKey 0, count := 2, size := 165, minTs := 5, maxTs := 6 },
                                     { id := 1, key := segKey 0, count := 1, size := 98, minTs := 7, maxTs := 7 }] } := by
  decide +kernel

/-- **one bit in the NAME `checkpoint`**: the field is unknown to the reader, skipped, and — being
    an `Option` — defaults to `None`: the manifest reads back WITHOUT its checkpoint, no error -/
theorem checkpoint_name_flip_drops_checkpoint :
    decode (flipBit (encode exMan) posChkName 0) = some { exMan with checkpoint := none } := by
  decide +kernel

/-- the same bit in the name `version` (not an `Option`): missing field, rejected; and a flipped
    structural byte, a flipped whitespace byte: rejected -/
theorem other_flips_rejected :
    decode (flipBit (encode exMan) 5 0) = none ∧      -- the `v` of "version"
    decode (flipBit (encode exMan) 0 1) = none ∧      -- the opening brace
    decode (flipBit (encode exMan) 1 0) = none := by  -- the newline after it
  decide +kernel

end C12
end RedisVerif
