import RedisVerif.Model.Resp
import RedisVerif.Lemmas.Resp

/-
  C15 — RESP decoding is total, bounded, prefix-stable; replies re-decode to themselves.

  All theorems are about the byte-exact models `parse1` (= `RespCodec::parse`, codec 1) and
  `parse2` (= `RespParser::parse`, codec 2) of `Model/Resp.lean`, for EVERY byte string (no bound
  on length, nesting or values) and every machine environment `env` (stack frames available,
  largest allocation request granted).  `Small bs` (= `bs.length < 2^63`) is the Rust invariant
  that a slice holds at most `isize::MAX` bytes; it is part of the full statements.

  Where the code as it is violates the property the full statement stays as a `def … : Prop`,
  followed by a kernel-checked `…_counterexample` and the strongest `…_partial` form whose extra
  hypotheses are decidable predicates, each with a non-vacuity `example`.
-/
namespace RedisVerif.C15
open RedisVerif.Resp

/-! ### concrete inputs used by counterexamples and non-vacuity examples -/

/-- `$-2\r\n` -/
def bulkMinus2 : Bytes := [36, 45, 50, 13, 10]
/-- `*-5\r\n` -/
def arrayMinus5 : Bytes := [42, 45, 53, 13, 10]
/-- `*1000000000\r\n` -/
def arrayBillion : Bytes := [42, 49, 48, 48, 48, 48, 48, 48, 48, 48, 48, 13, 10]
/-- `+\ra` : a simple string line with a CR that is not followed by LF -/
def loneCr : Bytes := [43, 13, 97]
/-- `*2\r\n$3\r\nGET\r\n$1\r\nk\r\n` -/
def getK : Bytes := [42, 50, 13, 10, 36, 51, 13, 10, 71, 69, 84, 13, 10, 36, 49, 13, 10, 107, 13, 10]
/-- `*1\r\n` × depth, then `:1\r\n` -/
def nested : Nat → Bytes
  | 0 => [58, 49, 13, 10]
  | d + 1 => 42 :: 49 :: 13 :: 10 :: nested d

/-- a roomy machine: 64 frames of stack, 1 GiB per allocation request -/
def env0 : Env := { depth := 64, mem := 1073741824 }

/-! ## 1. never panics -/

/-- full statement: there is a machine on which the decoder never panics / aborts, whatever the
    input -/
def C15_no_crash (c : Codec) : Prop :=
  ∃ env : Env, ∀ bs : Bytes, Small bs → (parseG c env bs).out.isCrash = false

theorem bulk_negative_len_crashes (c : Codec) (h : c = codec1 ∨ c = codec2) (env : Env) :
    (parseG c env bulkMinus2).out.isCrash = true := by
  unfold parseG
  cases hd : env.depth with
  | zero => simp [parseD, Outcome.isCrash]
  | succ d =>
    have hb : parseD c env.mem (d + 1) bulkMinus2 = parseBulk c bulkMinus2 := by
      simp [parseD, bulkMinus2]
    rw [hb]
    cases h with
    | inl h => subst h; decide
    | inr h => subst h; decide

/-- `$-2\r\n` panics both decoders on every machine (slice index out of range) -/
theorem no_crash_counterexample (c : Codec) (h : c = codec1 ∨ c = codec2) : ¬ C15_no_crash c := by
  intro ⟨env, hall⟩
  have h1 := hall bulkMinus2 (by decide)
  rw [bulk_negative_len_crashes c h env] at h1
  exact absurd h1 (by decide)

/-- `*-5\r\n`: codec 1 panics with "capacity overflow", codec 2 answers an empty array -/
theorem array_negative_len_counterexample :
    (parse1 env0 arrayMinus5).out = .crash .capacityOverflow ∧
    (parse2 env0 arrayMinus5).out = .ok (.array []) 5 := ⟨rfl, rfl⟩

/-- `*230584300921369396\r\n` (a positive length): 40 × that many bytes exceed isize::MAX —
    "capacity overflow" panic in codec 1 -/
theorem array_huge_len_counterexample :
    (parse1 env0 [42, 50, 51, 48, 53, 56, 52, 51, 48, 48, 57, 50, 49, 51, 54, 57, 51, 57, 54, 13, 10]).out =
      .crash .capacityOverflow := rfl

/-- `*1000000000\r\n`: codec 1 asks the allocator for 40 GB before it has seen a single element
    (refused on this machine: abort; granted on a bigger one: see `alloc_counterexample`) -/
theorem array_prealloc_abort_counterexample :
    (parse1 env0 arrayBillion).out = .crash .allocAbort ∧ (parse1 env0 arrayBillion).allocs = [40000000000] :=
  ⟨rfl, rfl⟩

/-- the recursion has no depth limit of its own: whatever the stack size, `depth` nested arrays
    (all length headers sane) overflow it -/
theorem stack_overflow_counterexample (c : Codec) (h : c = codec1 ∨ c = codec2) (mem : Nat) (hm : 40 < mem) :
    ∀ d : Nat, (parseD c mem d (nested d)).out = .crash .stackOverflow := by
  intro d
  induction d with
  | zero => simp [parseD]
  | succ d ih =>
    have hpre : ¬ (preReq c 1 ≥ mem ∧ preReq c 1 ≠ 0) := by
      cases h with
      | inl h => subst h; simp [preReq, codec1, asUsize, W, elemSize]; omega
      | inr h => subst h; simp [preReq, codec2]
    have hpre2 : ¬ (preReq c 1 > isizeMax) := by
      cases h with
      | inl h => subst h; simp [preReq, codec1, asUsize, W, elemSize, isizeMax]
      | inr h => subst h; simp [preReq, codec2]
    have hfind : c.findCrlf (42 :: 49 :: 13 :: 10 :: nested d) = some 2 := by
      cases h with
      | inl h => subst h; simp [codec1, findCrlf1]
      | inr h => subst h; simp [codec2, findCrlf2]
    have hne : nested d ≠ [] := by cases d <;> simp [nested]
    simp only [nested, parseD]
    simp only [show ¬ (42 : Nat) = 43 by decide, show ¬ (42 : Nat) = 45 by decide,
      show ¬ (42 : Nat) = 58 by decide, show ¬ (42 : Nat) = 36 by decide, if_false, if_true]
    unfold parseArray
    rw [hfind]
    have hf : field (42 :: 49 :: 13 :: 10 :: nested d) 2 = some [49] := by simp [field]
    have hp : parseI64 [49] = some 1 := by decide
    simp only [hf, hp, show ¬ ((1 : Int) = -1) by decide, hpre, hpre2, if_false]
    have hdrop : (42 :: 49 :: 13 :: 10 :: nested d).drop (2 + 2) = nested d := by simp
    rw [hdrop]
    have : (1 : Int).toNat = 1 := by decide
    rw [this]
    unfold elems
    simp only [hne, and_false, if_false, ih]

/-- full statement: some stack depth is enough for every input -/
def C15_depth_bounded (c : Codec) : Prop :=
  ∃ D : Nat, ∀ (mem : Nat) (bs : Bytes), 40 < mem → (parseD c mem D bs).out ≠ .crash .stackOverflow

theorem depth_bounded_counterexample (c : Codec) (h : c = codec1 ∨ c = codec2) : ¬ C15_depth_bounded c := by
  intro ⟨D, hall⟩
  exact hall 41 (nested D) (by decide) (stack_overflow_counterexample c h 41 (by decide) D)

/-- PARTIAL: no panic, no abort, no stack overflow — for every input all of whose length headers
    are sane (`LengthsSane`: declared length ≥ -1; an array announces at most as many elements as
    bytes follow), that nests (counts `*` bytes) less deep than the stack, and that is smaller
    than the allocation limit / 40 (codec 2 needs no allocation limit) -/
theorem no_crash_partial (c : Codec) (h : c = codec1 ∨ c = codec2) (env : Env) (bs : Bytes)
    (hsane : LengthsSane c bs = true) (hdepth : stars bs < env.depth)
    (hlen : bs.length < 9223372036854775800)
    (hmem : c.prealloc = false ∨ (elemSize * bs.length < env.mem ∧ env.mem ≤ 9223372036854775808)) :
    (parseG c env bs).out.isCrash = false := by
  have hc : c.Good := by cases h with
    | inl h => subst h; exact codec1_good
    | inr h => subst h; exact codec2_good
  exact parseD_no_crash c hc env.mem env.depth bs hsane hdepth hlen hmem

theorem no_crash_partial_codec1 (env : Env) (bs : Bytes)
    (hsane : LengthsSane codec1 bs = true) (hdepth : stars bs < env.depth)
    (hmem : elemSize * bs.length < env.mem) (hmem2 : env.mem ≤ 9223372036854775808) :
    (parse1 env bs).out.isCrash = false :=
  no_crash_partial codec1 (Or.inl rfl) env bs hsane hdepth (by unfold elemSize at hmem; omega)
    (Or.inr ⟨hmem, hmem2⟩)

theorem no_crash_partial_codec2 (env : Env) (bs : Bytes)
    (hsane : LengthsSane codec2 bs = true) (hdepth : stars bs < env.depth)
    (hlen : bs.length < 9223372036854775800) :
    (parse2 env bs).out.isCrash = false :=
  no_crash_partial codec2 (Or.inr rfl) env bs hsane hdepth hlen (Or.inl rfl)

/-- non-vacuity: a real command frame satisfies every hypothesis (and decodes) -/
example : LengthsSane codec1 getK = true ∧ LengthsSane codec2 getK = true ∧ stars getK < env0.depth ∧
    elemSize * getK.length < env0.mem ∧ (parse1 env0 getK).out.isOk = true := by decide
/-- the predicate excludes the bad class -/
example : LengthsSane codec1 bulkMinus2 = false ∧ LengthsSane codec1 arrayMinus5 = false ∧
    LengthsSane codec1 arrayBillion = false := by decide

/-! ## 2. never over-reads: consumed ≤ length (and ≥ 1) -/

def C15_consumed_le_length (c : Codec) : Prop :=
  ∀ (env : Env) (bs : Bytes), Small bs → ∀ v k, (parseG c env bs).out = .ok v k → 1 ≤ k ∧ k ≤ bs.length

theorem consumed_le_length_codec1 : C15_consumed_le_length codec1 :=
  fun env bs hs => parseD_consumed codec1 codec1_good env.mem env.depth bs hs

theorem consumed_le_length_codec2 : C15_consumed_le_length codec2 :=
  fun env bs hs => parseD_consumed codec2 codec2_good env.mem env.depth bs hs

example : (parse1 env0 getK).out = .ok (.array [.bulk [71, 69, 84], .bulk [107]]) 20 := rfl

/-! ## 3. allocation is not driven by an unvalidated length field -/

/-- full statement (the bound the harness oracle uses): the decoder's allocation requests sum to at
    most 64 bytes per input byte plus one page -/
def C15_alloc_bounded (c : Codec) : Prop :=
  ∀ (env : Env) (bs : Bytes), Small bs → (parseG c env bs).alloc ≤ 64 * bs.length + 4096

/-- codec 2 (`Vec::new()`, copies only): at most 3 bytes per input byte, for every input -/
theorem alloc_bounded_codec2 : C15_alloc_bounded codec2 := by
  intro env bs hs
  have := parseD_alloc_len codec2 codec2_good env.mem env.depth bs hs (Or.inl rfl)
  have hk : K codec2 env.depth = 3 := by simp [K, pf, codec2]
  rw [hk] at this
  unfold Res.alloc parseG
  omega

/-- codec 1: 13 bytes `*1000000000\r\n` request 40 GB (on a machine that grants it) -/
theorem alloc_counterexample : ¬ C15_alloc_bounded codec1 := by
  intro h
  have := h { depth := 8, mem := 1099511627776 } arrayBillion (by decide)
  exact absurd this (by decide)

/-- for every COMPLETE frame codec 1 stays proportional to what it consumed, whatever the nesting:
    at most 43 bytes per consumed byte (no hypothesis on the input) -/
theorem alloc_ok_bounded (c : Codec) (h : c = codec1 ∨ c = codec2) (env : Env) (bs : Bytes) (hs : Small bs)
    (v : Val) (k : Nat) (hok : (parseG c env bs).out = .ok v k) : (parseG c env bs).alloc ≤ 43 * k := by
  have hc : c.Good := by cases h with
    | inl h => subst h; exact codec1_good
    | inr h => subst h; exact codec2_good
  have := parseD_alloc_ok2 c hc env.mem env.depth bs hs v k hok
  have hpf : pf c ≤ 40 := by unfold pf elemSize; split <;> omega
  have : (3 + pf c) * k ≤ 43 * k := Nat.mul_le_mul_right _ (by omega)
  unfold Res.alloc parseG
  omega

/-- PARTIAL (codec 1, any outcome): when every length header is sane the requests sum to at most
    `3 + 40·depth` bytes per input byte (each nesting level may pre-allocate once more for the
    bytes that follow; `*9\r\n*9\r\n…` does) -/
theorem alloc_bounded_partial (env : Env) (bs : Bytes) (hs : Small bs)
    (hsane : LengthsSane codec1 bs = true) :
    (parse1 env bs).alloc ≤ (3 + 40 * env.depth) * bs.length := by
  have := parseD_alloc_len codec1 codec1_good env.mem env.depth bs hs (Or.inr hsane)
  have hk : K codec1 env.depth = 3 + 40 * env.depth := by simp [K, pf, codec1, elemSize]
  rw [hk] at this
  exact this

example : Small getK ∧ LengthsSane codec1 getK = true ∧ (parse1 env0 getK).alloc = 84 := by decide

/-! ## 4. prefix stability -/

/-- full statement: a decided outcome (value, protocol error — and also a crash) never changes when
    more bytes arrive; in particular `parse a = ok v n → parse (a ++ b) = ok v n` with the same
    allocation requests -/
def C15_prefix_stable (c : Codec) : Prop :=
  ∀ (env : Env) (a b : Bytes), Small (a ++ b) → (parseG c env a).out.isIncomplete = false →
    parseG c env (a ++ b) = parseG c env a

theorem prefix_stable_codec1 : C15_prefix_stable codec1 :=
  fun env a b hs hd => parseD_stable codec1 codec1_good env.mem env.depth a b hs hd

theorem prefix_stable_codec2 : C15_prefix_stable codec2 :=
  fun env a b hs hd => parseD_stable codec2 codec2_good env.mem env.depth a b hs hd

/-- consequently "more bytes needed" is never contradicted by an earlier decision: if the decoder
    is still undecided on `a ++ b` it was undecided on `a` -/
theorem incomplete_prefix (c : Codec) (h : c = codec1 ∨ c = codec2) (env : Env) (a b : Bytes)
    (hs : Small (a ++ b)) (hi : (parseG c env (a ++ b)).out.isIncomplete = true) :
    (parseG c env a).out.isIncomplete = true := by
  have hc : c.Good := by cases h with
    | inl h => subst h; exact codec1_good
    | inr h => subst h; exact codec2_good
  cases hd : (parseG c env a).out.isIncomplete with
  | true => rfl
  | false =>
    have := parseD_stable c hc env.mem env.depth a b hs hd
    unfold parseG at hi hd
    rw [this, hd] at hi
    exact absurd hi (by decide)

example : (parse1 env0 (getK ++ [1, 2, 3])).out = (parse1 env0 getK).out := rfl

/-- full statement: "more bytes needed" is honest — some continuation gets a decision -/
def C15_incomplete_completable (c : Codec) : Prop :=
  ∀ (env : Env) (bs : Bytes), 1 ≤ env.depth → (parseG c env bs).out.isIncomplete = true →
    ∃ ext : Bytes, (parseG c env (bs ++ ext)).out.isIncomplete = false

/-- codec 1 `find_crlf` gives up at the first CR that is not followed by LF: after `+\ra` NO
    continuation is ever accepted or rejected — the connection stalls (codec 2 reads the line up to
    the next CR LF) -/
theorem lone_cr_stalls (env : Env) (hd : 1 ≤ env.depth) (ext : Bytes) :
    (parse1 env (loneCr ++ ext)).out = .incomplete .noCrlf := by
  unfold parse1 parseG
  cases h : env.depth with
  | zero => omega
  | succ d => simp [loneCr, parseD, parseLine, codec1, findCrlf1]

theorem incomplete_completable_counterexample : ¬ C15_incomplete_completable codec1 := by
  intro h
  obtain ⟨ext, he⟩ := h env0 loneCr (by decide) (by decide)
  have := lone_cr_stalls env0 (by decide) ext
  unfold parse1 at this
  rw [this] at he
  exact absurd he (by decide)

example : (parse2 env0 (loneCr ++ [13, 10])).out = .ok (.simple [13, 97]) 5 := rfl

/-! ## 5. fragmentation invariance of the buffer loop -/

def C15_fragmentation_invariant (c : Codec) : Prop :=
  ∀ (env : Env) (chunks : List Bytes), 1 ≤ env.depth → Small chunks.flatten →
    feedAll (fun b => (parseG c env b).out) FeedSt.init chunks =
      feedAll (fun b => (parseG c env b).out) FeedSt.init [chunks.flatten]

theorem parserSpec (c : Codec) (hc : c.Good) (env : Env) (hd : 1 ≤ env.depth) :
    ParserSpec (fun b => (parseG c env b).out) where
  empty := by
    unfold parseG
    cases h : env.depth with
    | zero => omega
    | succ d => simp [parseD, Outcome.isIncomplete]
  consumed := fun bs hs => parseD_consumed c hc env.mem env.depth bs hs
  stable := fun a b hs hdec => by
    have := parseD_stable c hc env.mem env.depth a b hs hdec
    simp only [parseG, this]

/-- every fragmentation of every byte stream (valid or not) yields the frames, left-over bytes and
    liveness of the unfragmented feed -/
theorem fragmentation_invariant_codec1 : C15_fragmentation_invariant codec1 :=
  fun env chunks hd hs => feedAll_fragmentation _ (parserSpec codec1 codec1_good env hd) chunks hs

theorem fragmentation_invariant_codec2 : C15_fragmentation_invariant codec2 :=
  fun env chunks hd hs => feedAll_fragmentation _ (parserSpec codec2 codec2_good env hd) chunks hs

example : (feedAll (fun b => (parse1 env0 b).out) FeedSt.init [[43, 79], [75, 13], [10, 58, 49, 13, 10, 43]]).frames.length = 2 := by
  decide

/-! ## 6. decode ∘ encode = id for each encoder -/

/-- full statement: every value of depth within the stack re-decodes to itself -/
def C15_encode_decode (enc : Val → Bytes) (c : Codec) : Prop :=
  ∀ (env : Env) (v : Val) (rest : Bytes), v.depth ≤ env.depth → Small (enc v ++ rest) →
    (parseG c env (enc v ++ rest)).out = .ok v (enc v).length

/-- `-ERR unknown command 'FOO\r\n+INJECTED'`: an error whose text contains CR LF (the server
    builds such replies from client bytes) -/
def injected : Val := .error [70, 79, 79, 13, 10, 43, 73, 78, 74]

/-- the line ends at the embedded CR LF: the rest of the reply is read as further frames -/
theorem crlf_in_error_counterexample :
    (parse1 env0 (encode2 injected)).out = .ok (.error [70, 79, 79]) 6 ∧
    (parse2 env0 (encode2 injected)).out = .ok (.error [70, 79, 79]) 6 ∧
    encode1 injected = encode2 injected ∧ encode3 injected = encode2 injected ∧
    (encode2 injected).length = 12 := ⟨rfl, rfl, by decide, by decide, by decide⟩

theorem encode_decode_counterexample (c : Codec) (h : c = codec1 ∨ c = codec2) :
    ¬ C15_encode_decode encode2 c := by
  intro hall
  have h1 := hall env0 injected [] (by decide) (by decide)
  cases h with
  | inl h =>
    subst h
    have h2 := crlf_in_error_counterexample.1
    simp only [List.append_nil] at h1
    unfold parse1 at h2
    rw [h2] at h1
    injection h1 with _ h3
    exact absurd h3 (by decide)
  | inr h =>
    subst h
    have h2 := crlf_in_error_counterexample.2.1
    simp only [List.append_nil] at h1
    unfold parse2 at h2
    rw [h2] at h1
    injection h1 with _ h3
    exact absurd h3 (by decide)

/-- a simple string with a lone CR (`+a\rb\r\n`): codec 1 never finds the end of the line, codec 2
    re-decodes it -/
theorem cr_in_line_counterexample :
    (parse1 env0 (encode2 (.simple [97, 13, 98]))).out = .incomplete .noCrlf ∧
    (parse2 env0 (encode2 (.simple [97, 13, 98]))).out = .ok (.simple [97, 13, 98]) 6 := ⟨rfl, rfl⟩

/-- PARTIAL: every value whose simple-string / error lines are line-safe for the decoder
    (`Val.wf`: codec 1 — no CR; codec 2 — no CR LF pair and valid UTF-8), whose integers are i64s and
    whose array pre-allocations are granted re-decodes to itself, with any bytes following -/
theorem encode2_decode_partial (c : Codec) (h : c = codec1 ∨ c = codec2) (env : Env) (v : Val) (rest : Bytes)
    (hw : v.wf c env.mem = true) (hd : v.depth ≤ env.depth) (hs : Small (encode2 v ++ rest)) :
    (parseG c env (encode2 v ++ rest)).out = .ok v (encode2 v).length := by
  have hc : c.Good := by cases h with
    | inl h => subst h; exact codec1_good
    | inr h => subst h; exact codec2_good
  exact parseD_encode c hc env.mem env.depth v hd hw rest hs

theorem encode1_decode_partial (c : Codec) (h : c = codec1 ∨ c = codec2) (env : Env) (v : Val) (rest : Bytes)
    (hw : v.wf c env.mem = true) (hd : v.depth ≤ env.depth) (hs : Small (encode1 v ++ rest)) :
    (parseG c env (encode1 v ++ rest)).out = .ok v (encode1 v).length := by
  rw [encode1_eq] at hs ⊢
  exact encode2_decode_partial c h env v rest hw hd hs

theorem encode3_decode_partial (c : Codec) (h : c = codec1 ∨ c = codec2) (env : Env) (v : Val) (rest : Bytes)
    (hw : v.wf c env.mem = true) (hd : v.depth ≤ env.depth) (hs : Small (encode3 v ++ rest)) :
    (parseG c env (encode3 v ++ rest)).out = .ok v (encode3 v).length := by
  rw [encode3_eq] at hs ⊢
  exact encode2_decode_partial c h env v rest hw hd hs

/-- the three encoders produce the same bytes -/
theorem encoders_agree (v : Val) : encode1 v = encode2 v ∧ encode3 v = encode2 v :=
  ⟨encode1_eq v, encode3_eq v⟩

/-- non-vacuity: a nested reply with a UTF-8 simple string, a binary bulk string containing CR LF,
    i64::MIN, nulls — well-formed for both decoders; the CR-LF error is not -/
def reply : Val := .array [.simple [79, 75, 195, 169], .bulk [13, 10, 255, 0], .int (-9223372036854775808),
  .nullBulk, .array [.nullArray, .error [69, 82, 82, 32, 120]]]

example : reply.wf codec1 env0.mem = true ∧ reply.wf codec2 env0.mem = true ∧ reply.depth ≤ env0.depth ∧
    injected.wf codec1 env0.mem = false ∧ injected.wf codec2 env0.mem = false := by decide

end RedisVerif.C15
